(* ApproxModel.v — executable model of the sequential approximate algorithms
     include/parmcb/detail/approx_spanner.hpp   BaseApproxSpannerAlgorithm (constructor + run),
                                                NonSpannerEdgesCycleBuilder (the !ParallelUsingTBB branch)
     include/parmcb/parmcb_approx_sva_signed.hpp  approx_mcb_sva_signed
     include/parmcb/parmcb_approx_sva_trees.hpp   approx_mcb_sva_fvs_trees, approx_mcb_sva_iso_trees
   on the exact domain (Z weights).  Definitions only; proofs in ApproxProofs*.v.

   What the code does, in order:
     constructor: construct_spanner()  (SpannerModel.v; it runs for every k, k = 0 included)
     run(out):    k < 1  => throw std::runtime_error before anything is emitted
                  PARMCB_INVARIANTS_CHECK (defined by the harness config): a negative weight => throw
                  exact algorithm on (_spanner, its own weight map)  -> list of spanner cycles, weight
                  every spanner cycle translated edge by edge through _edge_spanner_to_g.at(.) and emitted
                  for every non-spanner edge e = (v,u) in recorded order: plain dijkstra on the spanner
                  from v with the SPANNER's weight map; follow pred from u until a vertex without
                  predecessor, translating each spanner edge through .at(.) and adding the CALLER's weight;
                  push e, add the caller's weight of e; emit; total += weight
                  return  (0 + exact weight) + total.
   Edge provenance is explicit: the spanner's edge ids are positions in `retained sp` (= the map
   _edge_spanner_to_g, SpannerModel.v) and everything that is emitted has gone through that list, i.e. is an
   edge id of the CALLER's graph (before the repair D6b the spanner cycles were emitted untranslated).
   Vertices need no translation: the spanner's vertex i is the copy of input vertex i (vecS, added in order).

   The exact phase is a parameter `exact` (graph -> weights -> sva_result Z): the signed entry point
   instantiates it with the exact model of mcb_sva_signed on the spanner with the SPANNER's own oracles
   (BFS root order, pointer order of the spanner's edge descriptors); the tree-based entry points with their
   own models.  NOTE: approx_mcb_sva_iso_trees instantiates the FVS functor (mcb_sva_fvs_trees) in the code;
   the model follows the code: both tree entry points are `approx_run` with the fvs-trees exact phase.

   Nondeterminism: std::sort's permutation among equal weights is the oracle `scan` (SpannerModel.v).
   Cycles are emitted as lists in the order the code pushes them (a translated spanner cycle keeps the
   order of the exact model's cycle, which is sorted by spanner edge id; the C++ iterates a std::set in
   pointer order) — consumers compare cycles as sets. *)
From Coq Require Export ZArith.
From Parmcb Require Export GraphModel SpannerModel SvaModel SignedZModel DijkstraModel.

Inductive approx_error :=
| AeSpanner        (* construct_spanner did not complete: "Self loops?" thrown / bad edge id / BFS out of fuel *)
| AeExact          (* the exact phase returned one of its error values *)
| AeMap            (* _edge_spanner_to_g.at(): key not found (std::out_of_range) *)
| AeEdge           (* a recorded non-spanner edge is not an edge of the input graph *)
| AeDijkstra       (* DjFuel / DjBroken *)
| AeChain.         (* predecessor walk: "Self loops?" thrown, spanner edge without endpoints, or no end within nv+1 steps *)

Inductive approx_result :=
| ApproxOk (cycles : list (list nat)) (weight : Z)   (* emitted cycles (input edge ids), returned value *)
| ApproxThrow                                        (* std::runtime_error from run(), nothing emitted *)
| ApproxError (e : approx_error).

(* for (spanner_e : spanner_cycle) cycle.push_back(_edge_spanner_to_g.at(spanner_e)) *)
Fixpoint translate_cycle (R : list nat) (c : list nat) : option (list nat) :=
  match c with
  | [] => Some []
  | se :: c' =>
      match nth_error R se, translate_cycle R c' with
      | Some e, Some r => Some (e :: r)
      | _, _ => None
      end
  end.

Fixpoint translate_cycles (R : list nat) (cs : list (list nat)) : option (list (list nat)) :=
  match cs with
  | [] => Some []
  | c :: cs' =>
      match translate_cycle R c, translate_cycles R cs' with
      | Some t, Some r => Some (t :: r)
      | _, _ => None
      end
  end.

(* the `while (true)` walk over predecessors: cur = spanner_w, cyc = cycle_edgelist, acc = weight *)
Fixpoint pred_chain (fuel : nat) (h : graph) (R : list nat) (w : list Z) (pred : list (option nat))
         (cur : nat) (cyc : list nat) (acc : Z) : option (list nat * Z) :=
  match fuel with
  | O => None
  | S fuel' =>
      match nth cur pred None with
      | None => Some (cyc, acc)                                   (* no predecessor: break *)
      | Some se =>
          match nth_error R se, ends h se with
          | Some ae, Some (a, b) =>
              let other := if Nat.eqb b cur then a else b in       (* target, or source if target == w *)
              if Nat.eqb other cur then None                       (* throw "Self loops?" *)
              else pred_chain fuel' h R w pred other (cyc ++ [ae]) (acc + nth ae w 0)%Z
          | _, _ => None
          end
      end
  end.

(* one iteration of the loop over _non_spanner_edges *)
Definition dropped_cycle (g : graph) (w : list Z) (sp : spanner) (e : nat) : approx_error + (list nat * Z) :=
  match ends g e with
  | None => inl AeEdge
  | Some (v, u) =>
      match dijkstra Z 0%Z Z.add Z.ltb (sp_graph sp) (spanner_weights w sp) v with
      | DjOk _ pred =>
          match pred_chain (S (nv g)) (sp_graph sp) (retained sp) w pred u [] 0%Z with
          | None => inl AeChain
          | Some (cyc, acc) => inr (cyc ++ [e], (acc + nth e w 0)%Z)
          end
      | _ => inl AeDijkstra
      end
  end.

Fixpoint dropped_cycles (g : graph) (w : list Z) (sp : spanner) (ds : list nat) (total : Z)
  : approx_error + (list (list nat) * Z) :=
  match ds with
  | [] => inr ([], total)
  | e :: ds' =>
      match dropped_cycle g w sp e with
      | inl err => inl err
      | inr (cyc, cw) =>
          match dropped_cycles g w sp ds' (total + cw)%Z with
          | inl err => inl err
          | inr (cs, t) => inr (cyc :: cs, t)
          end
      end
  end.

Section Approx.
  Variable exact : graph -> list Z -> sva_result Z.

  Definition approx_run (g : graph) (w : list Z) (k : nat) (scan : list nat) : approx_result :=
    match construct_spanner g k scan with
    | SpOk sp =>
        if Nat.ltb k 1 then ApproxThrow
        else if existsb (fun e => Z.ltb (nth e w 0%Z) 0%Z) (seq 0 (ne g)) then ApproxThrow
        else
          match exact (sp_graph sp) (spanner_weights w sp) with
          | SvaOk scycles sw _ =>
              match translate_cycles (retained sp) scycles with
              | None => ApproxError AeMap
              | Some tcycles =>
                  match dropped_cycles g w sp (dropped sp) 0%Z with
                  | inl err => ApproxError err
                  | inr (dcycles, dw) => ApproxOk (tcycles ++ dcycles) ((0 + sw) + dw)%Z
                  end
              end
          | _ => ApproxError AeExact
          end
    | _ => ApproxError AeSpanner
    end.
End Approx.

(* approx_mcb_sva_signed: the exact phase is mcb_sva_signed on the spanner; `roots` / `eord` are the oracles
   of the SPANNER graph (BFS root order of its spanning forest, pointer ranks of its edge descriptors) *)
Definition approx_sva_signed_Z (g : graph) (w : list Z) (k : nat) (scan roots eord : list nat) : approx_result :=
  approx_run (fun h wh => mcb_sva_signed_Z h wh roots eord) g w k scan.

(* the tree-based entry points with the exact phase's answer supplied (recovered from the run in the
   correspondence; universally quantified, under an explicit premise, in the theorems) *)
Definition approx_sva_given (scycles : list (list nat)) (sw : Z) (g : graph) (w : list Z) (k : nat)
           (scan : list nat) : approx_result :=
  approx_run (fun _ _ => SvaOk scycles sw []) g w k scan.
