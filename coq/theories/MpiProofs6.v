(* MpiProofs6.v — C04c WITHOUT a search premise, for the MPI signed variant with agreeing orders (in particular
   the fixed code): every phase computed by P ranks — rank 0's |S| = 1 shortcut, or the reduction of the ranks'
   slice minima in the hidden-edge / all-vertices branch — returns a minimum odd simple cycle with its weight.

   Uses the proved specification of one bidirectional search (BidirProofs4.bidir_spec) through the per-iteration
   lemmas of BidirProofsA1-A3 (ba_he_step, ba_av_loop, section SearchStar): the invariant of a running best is
   ba_good (odd, reported weight, never below the optimum mu, a simple cycle once at mu), progress is ba_done
   (weight mu reached) at the "star" index — the order-last signed edge of a fixed minimum odd cycle C0, resp. a
   vertex of C0.  New here: the loop over a SLICE of the signed-edge vector (hidden sets = full suffixes), the
   |S| = 1 shortcut (no signed edges, the single edge hidden), and the reduction: every local minimum is good, the
   rank whose slice holds the star index is done, so the tree minimum is good and done.

   The per-index premise MpiProofs3.signed_phase_premise itself (an exact optimum per index, for every running
   best) is NOT derivable from bidir_spec: the specification allows a search to answer NotFound because SOME
   shortest cover walk below the limit repeats an edge, even when another call for the same index returns an
   edge-simple one.  The good/done invariant needs no per-index optimum, so the premise-free theorem is proved
   directly; the `_modulo_search` theorems stay as they are. *)
From Coq Require Import List Arith Bool ZArith Lia Permutation.
From Parmcb Require Import GraphModel GF2Model GF2Proofs GraphSpec GraphLemmas McbSpec ForestModel ForestProofs
  SvaModel SvaSpec SvaProofs SignedModel SignedZModel SignedProofs
  RefModel RefProofs1 RefProofs2 RefProofs3 RefProofs4 RefProofs5
  BidirSpec BidirProofs4 BidirProofsA1 BidirProofsA2 BidirProofsA3
  MpiModel MpiSignedModel MpiProofs1 MpiProofs2 MpiProofs3 MpiProofs4.
Import ListNotations.

Lemma po_par_notin sg l : (forall e, In e l -> ~ In e sg) -> par sg l = false.
Proof.
  induction l as [|e l IH]; intros H; [apply par_nil|].
  rewrite par_cons, IH by (intros a Ha; apply H; right; exact Ha).
  assert (Hm : memb e sg = false) by (apply gl_memb_false, H; left; reflexivity).
  rewrite Hm. reflexivity.
Qed.

Lemma po_skipn_split {A} (pre : list A) x post : skipn (length pre) (pre ++ x :: post) = x :: post.
Proof. induction pre as [|a pre IH]; [reflexivity|exact IH]. Qed.

Lemma po_skipn_split_S {A} (pre : list A) x post : skipn (S (length pre)) (pre ++ x :: post) = post.
Proof. induction pre as [|a pre IH]; [reflexivity|exact IH]. Qed.

(* ---- the |S| = 1 shortcut: no signed edges in the search, the single signed edge hidden, no limit ---- *)
Section Single.
  Variables (g : graph) (wts : list Z) (se sv su : nat) (C0 : list nat).
  Hypothesis Hs : simple_graph g.
  Hypothesis Hpw : positive_weights g wts.
  Hypothesis Hmin : min_odd_cycle g wts (odd_par [se]) C0.
  Hypothesis He : ends g se = Some (sv, su).

  Definition po_siP : sparams Z :=
    {| sp_g := g; sp_wts := wts; sp_signed := []; sp_hidden := [se]; sp_use_hidden := true; sp_limit := None |}.

  Lemma po_si_close p :
    cwalk po_siP (signed_id (nv g) sv true) p (signed_id (nv g) su true) ->
    (exists x q, walk g x q x /\ wedges q = wedges p ++ [se] /\ par [se] (wedges q) = true)
    /\ ~ In se (wedges p).
  Proof.
    intros Hc. destruct (gl_simple_ends g se sv su Hs He) as (Hsv & Hsu & _).
    destruct (ba_cwalk_proj _ _ _ _ Hc) as (Hw & _ & Hh).
    cbn [po_siP sp_g sp_use_hidden sp_hidden] in Hw, Hh.
    rewrite !sg_vertex_of_signed_id in Hw by assumption.
    assert (Hnin : ~ In se (wedges p)).
    { intros Hin. specialize (Hh eq_refl se Hin). cbn [memb existsb] in Hh. rewrite Nat.eqb_refl in Hh. discriminate. }
    split; [|exact Hnin].
    exists sv, (ba_proj (nv g) p ++ [(se, sv)]). split.
    - eapply gl_walk_app; [exact Hw|]. econstructor; [right; exact He|]. constructor. exact Hsv.
    - rewrite sg_wedges_app, ba_proj_wedges. split; [reflexivity|].
      rewrite par_app. cbn [wedges map fst]. rewrite par_cons, par_nil.
      rewrite po_par_notin by (intros e Hin [<-|[]]; exact (Hnin Hin)).
      cbn [memb existsb]. rewrite Nat.eqb_refl. reflexivity.
  Qed.

  Lemma po_si_star : exists pstar,
    cwalk po_siP (signed_id (nv g) sv true) pstar (signed_id (nv g) su true)
    /\ (clen po_siP pstar + weight wts [se] = ba_mu wts C0)%Z.
  Proof.
    destruct (ba_C0_walk g wts [se] C0 Hmin) as (x0 & q0 & Hw0 & Hnd0 & Hnv0 & HE0 & _ & _).
    assert (HseC : In se C0).
    { destruct Hmin as (_ & Hodd & _). destruct (ba_par_true_ex [se] C0 Hodd) as (e & HeC & [<-|[]]). exact HeC. }
    destruct (rf_canonical g x0 q0 se sv su Hs Hw0 Hnd0 Hnv0 (proj1 (HE0 se) HseC) He)
      as (r & Hwr & Hndr & _ & HEr).
    pose proof (rf_revw_walk g Hs r su sv Hwr) as Hwr'.
    pose proof (rf_revw_edges r su) as Er'.
    assert (Hperm : Permutation C0 (se :: wedges r)).
    { destruct Hmin as ((_ & Sc & _) & _).
      apply NoDup_Permutation; [apply gl_sorted_NoDup; exact Sc|exact Hndr|].
      intros e. rewrite HE0. apply HEr. }
    assert (Hwtr : (wt wts se + weight wts (wedges r) = ba_mu wts C0)%Z).
    { unfold ba_mu. rewrite (rf_weight_perm wts _ _ Hperm), rf_weight_cons. reflexivity. }
    destruct (ba_lift_id po_siP Hs sv (revw su r) su true Hwr') as (p & Hc & Ew).
    - cbn [po_siP sp_use_hidden sp_hidden]. intros _ e Hin. rewrite Er' in Hin. apply in_rev in Hin.
      apply gl_memb_false. intros [<-|[]]. inversion Hndr as [|? ? Hx _]; subst. apply Hx. exact Hin.
    - cbn [po_siP sp_g sp_signed] in Hc. rewrite (po_par_notin [] _ (fun _ _ H => H)) in Hc. cbn [xorb] in Hc.
      exists p. split; [exact Hc|]. unfold clen. cbn [po_siP sp_wts]. rewrite Ew, Er'.
      rewrite (rf_weight_perm wts (rev (wedges r)) (wedges r)) by (apply Permutation_sym, Permutation_rev).
      rewrite rf_weight_cons. change (weight wts []) with 0%Z. lia.
  Qed.

  Lemma po_single :
    exists c w, single_search Z 0%Z Z.add Z.ltb g wts [se] = Some (Some (c, w))
                /\ min_odd_cycle g wts (odd_par [se]) c /\ w = weight wts c.
  Proof.
    unfold single_search. rewrite He. fold po_siP.
    destruct (gl_simple_ends g se sv su Hs He) as (Hsv & Hsu & Hvu).
    assert (Hne : signed_id (nv g) sv true <> signed_id (nv g) su true) by (unfold signed_id; exact Hvu).
    pose proof (bidir_spec po_siP sv true su true Hs Hpw Hsv Hsu Hne) as H.
    cbn [po_siP sp_g] in H. fold po_siP in H.
    assert (Hcl : (weight wts [se] = wt wts se)%Z) by (rewrite rf_weight_cons; change (weight wts []) with 0%Z; lia).
    pose proof (rf_wt_nonneg g wts se Hpw) as Hwse.
    destruct po_si_star as (pstar & Hstar & Hstarw).
    destruct (bidirectional_signed_dijkstra Z 0%Z Z.add Z.ltb po_siP sv true su true) as [c w| |].
    - destruct H as (p & Hsp & Hnd & Sc & HE & Hw1 & Hw2 & _). cbn [po_siP sp_wts] in Hw2.
      destruct (po_si_close p (proj1 Hsp)) as ((x & q & Hwq & Ew & Hodd) & Hnin).
      assert (Hninc : ~ In se c) by (intros Hin; apply Hnin, HE, Hin).
      assert (Hm : memb se c = false) by (apply gl_memb_false; exact Hninc). rewrite Hm.
      change (wtof Z 0%Z wts se) with (wt wts se).
      assert (Hndq : NoDup (wedges q)).
      { rewrite Ew. apply gl_NoDup_app; [exact Hnd|repeat constructor; intros []|].
        intros e Hin [<-|[]]. exact (Hnin Hin). }
      assert (HEq : forall e, In e (set_insert se c) <-> In e (wedges q)).
      { intros e. rewrite sg_set_insert_In, Ew, in_app_iff, HE. cbn [In]. intuition. }
      pose proof (set_insert_sorted se c Sc) as Sc'.
      assert (Hwi : weight wts (set_insert se c) = (w + wt wts se)%Z).
      { rewrite (rf_weight_perm wts (set_insert se c) (wedges q)).
        - rewrite Ew, rf_weight_app, Hcl, Hw1. unfold clen. cbn [po_siP sp_wts]. reflexivity.
        - apply NoDup_Permutation; [apply gl_sorted_NoDup; exact Sc'|exact Hndq|exact HEq]. }
      pose proof (ba_closed_walk_good g wts [se] C0 Hs Hpw Hmin x q _ Hwq Hndq Hodd Sc' HEq) as Hgood.
      rewrite Hwi in Hgood.
      pose proof (ba_star_shortest g wts [se] C0 Hs Hpw Hmin po_siP _ _ [se] eq_refl
                    (fun p' Hc' => proj1 (po_si_close p' Hc')) pstar Hstar Hstarw p Hsp) as E.
      rewrite Hcl, <- Hw1 in E.
      exists (set_insert se c), (w + wt wts se)%Z. split; [reflexivity|].
      apply (ba_good_final g wts [se] C0 Hmin); [exact Hgood|].
      exists (set_insert se c). rewrite E. reflexivity.
    - exfalso.
      assert (Hd : ba_done wts C0 None).
      { eapply (ba_star_notfound g wts [se] C0 Hs Hpw Hmin po_siP _ _ [se] None eq_refl eq_refl I
                  (fun p' Hc' => proj1 (po_si_close p' Hc'))); [|exact Hstar|exact Hstarw|exact H]. lia. }
      destruct Hd as (c & E). discriminate.
    - destruct H.
  Qed.
End Single.

(* ---- one phase ------------------------------------------------------------------------------------------ *)
Section PhaseOpt.
  Variables (g : graph) (wts : list Z) (roots : list nat) (fi : forest_index).
  Hypothesis Hs : simple_graph g.
  Hypothesis Hpw : positive_weights g wts.
  Hypothesis Hr : forall v, v < nv g -> In v roots.
  Hypothesis Hci : create_index g roots = Some fi.
  Variable Sv : vec.
  Hypothesis HSv : canonical_witness fi Sv.

  Notation signed := (indices_to_edges fi Sv).

  Lemma po_signed_lt : forall e, In e signed -> e < ne g.
  Proof.
    destruct HSv as (SS & Sne & BS). destruct (rf_index_bij g roots fi Hs Hr Hci) as (_ & HB & Hcm).
    intros e He. unfold indices_to_edges in He. apply rf_set_of_list_In, in_map_iff in He.
    destruct He as (i & <- & Hi). specialize (BS i Hi). destruct (HB i) as [Hlt _]; [lia|exact Hlt].
  Qed.

  Lemma po_ex : exists D, simple_cycle g D /\ odd_par signed D.
  Proof.
    destruct HSv as (SS & Sne & BS).
    destruct (rf_odd_cycle_exists g roots fi Sv Hs Hr Hci SS Sne BS) as (D & HD & HoD).
    exists D. split; [exact HD|]. unfold odd_par. rewrite ba_par_oddb. exact HoD.
  Qed.

  Lemma po_bridge D : simple_cycle g D -> pairing fi Sv D = par signed D.
  Proof.
    destruct HSv as (SS & Sne & BS).
    intros HD. destruct (rf_simple_cycle_edges g D HD) as (HDs & HDb).
    rewrite ba_par_oddb. eapply rf_bridge; eauto.
  Qed.

  Variable C0 : list nat.
  Hypothesis Hmin : min_odd_cycle g wts (odd_par signed) C0.

  Notation good := (ba_good g wts signed C0).
  Notation done := (ba_done wts C0).

  (* the reduction: all local minima good, one of them done => the tree minimum is a minimum odd cycle *)
  Lemma po_reduce P (locals : nat -> lres Z) t :
    1 <= P -> rtree_ok P t ->
    (forall r, r < P -> exists b, locals r = Some b /\ good b) ->
    (exists r b, r < P /\ locals r = Some b /\ done b) ->
    exists c w,
      match reval (payload Z) (mpi_min Z Z.ltb) (map (fun r => encode Z fi (locals r)) (seq 0 P)) t with
      | Some x => decode Z fi x
      | None => None
      end = Some (Some (c, w))
      /\ min_odd_cycle g wts (odd_par signed) c /\ w = weight wts c.
  Proof.
    intros HP Ht Hloc (rs & bs & HrsP & Ebs & (cs & Ecs)). subst bs.
    set (vals := map (fun r => encode Z fi (locals r)) (seq 0 P)).
    assert (Hlen : length vals = P) by (unfold vals; rewrite map_length, seq_length; reflexivity).
    assert (Hnth : forall r, r < P -> nth_error vals r = Some (encode Z fi (locals r)))
      by (intros r Hr'; exact (nth_error_map_seq (fun r => encode Z fi (locals r)) P r Hr')).
    assert (Hcyc : Forall is_cyc vals).
    { apply Forall_forall. intros x Hx. apply in_map_iff in Hx as (r & <- & Hr'). apply in_seq in Hr'.
      destruct (Hloc r ltac:(lia)) as (b & -> & _). destruct b as [[c0 w0]|]; eexists; reflexivity. }
    destruct (reval_min vals Hcyc t) as (x & Ex & _ & (r0 & Hr0 & Er0) & Hmn).
    { intros r Hr'. rewrite Hlen. eapply rtree_ok_lt; eassumption. }
    rewrite Ex.
    pose proof (rtree_ok_lt P t r0 Ht Hr0) as Hr0P. rewrite (Hnth r0 Hr0P) in Er0. injection Er0 as Er0.
    destruct (Hloc r0 Hr0P) as (b0 & Eb0 & Hg0). rewrite Eb0 in Er0. subst x.
    destruct (Hmn rs (edges_to_indices fi cs) (ba_mu wts C0) (rtree_ok_all P t rs Ht HrsP)) as (c' & w' & E' & Hle).
    { rewrite (Hnth rs HrsP), Ebs. reflexivity. }
    destruct b0 as [[c0 w0]|]; cbn [encode] in E'; [|discriminate].
    injection E' as _ <-.
    assert (Ew0 : w0 = ba_mu wts C0) by (destruct Hg0 as (_ & _ & Hge & _); lia).
    destruct (ba_good_final g wts signed C0 Hmin c0 w0 Hg0) as (Hmc & Hwc); [exists c0; rewrite Ew0; reflexivity|].
    destruct (rf_simple_cycle_edges g c0 (proj1 Hmc)) as (Sc & Vc).
    cbn [encode decode]. rewrite (i2e_e2i g roots fi Hs Hr Hci c0 Sc Vc).
    exists c0, w0. split; [reflexivity|]. split; assumption.
  Qed.

  (* the loop over a slice of the signed-edge vector *)
  Lemma po_hidden_slice sv : incl sv signed ->
    forall cnt i b, good b ->
      exists b', hidden_slice Z 0%Z Z.add Z.ltb g wts signed (skipn i sv) cnt b = Some b'
        /\ good b' /\ (done b -> done b')
        /\ (forall pre sstar post, sv = pre ++ sstar :: post -> In sstar C0 ->
              (forall e, In e post -> ~ In e C0) -> i <= length pre < i + cnt -> done b').
  Proof.
    intros Hincl.
    destruct (ba_C0_walk g wts signed C0 Hmin) as (x0 & q0 & Hw0 & Hnd0 & Hnv0 & HE0 & _ & _).
    induction cnt as [|cnt IH]; intros i b Hb.
    - exists b. split; [reflexivity|]. split; [exact Hb|]. split; [auto|]. intros; lia.
    - cbn [MpiSignedModel.hidden_slice].
      destruct (Nat.lt_ge_cases i (length sv)) as [Hi|Hi].
      + destruct (skipn_cons_nth sv i Hi) as (se & Ex). rewrite Ex.
        assert (Hse : In se signed).
        { apply Hincl. rewrite <- (firstn_skipn i sv), Ex. apply in_or_app. right. left. reflexivity. }
        destruct (ba_ends_some g se (po_signed_lt se Hse)) as (a & c & He).
        unfold hidden_step. rewrite He. fold (ba_heP g wts signed (se :: skipn (S i) sv) b).
        pose proof (ba_he_step bidir_spec g wts signed C0 Hs Hpw Hmin x0 q0 Hw0 Hnd0 Hnv0 HE0
                      (skipn (S i) sv) b se a c He Hse Hb) as Hstep.
        assert (Hstar : forall pre sstar post, sv = pre ++ sstar :: post -> length pre = i ->
                          se = sstar /\ skipn (S i) sv = post).
        { intros pre sstar post E El. subst i. rewrite E in Ex. rewrite po_skipn_split in Ex.
          injection Ex as <- Ep. split; [reflexivity|].
          rewrite E. apply po_skipn_split_S. }
        destruct (bidirectional_signed_dijkstra Z 0%Z Z.add Z.ltb (ba_heP g wts signed (se :: skipn (S i) sv) b) a true c true)
          as [cy w| |].
        * destruct Hstep as (Hm & Hc & Hmu). rewrite Hm. change (wtof Z 0%Z wts se) with (wt wts se).
          destruct (ba_better_update g wts signed C0 b _ _ Hb Hc) as (Hb' & Hd1 & Hd2).
          destruct (IH (S i) _ Hb') as (b' & E' & Hg' & Hd' & Hst').
          exists b'. split; [exact E'|]. split; [exact Hg'|]. split; [auto|].
          intros pre sstar post E HsC Hpost Hrange.
          destruct (Nat.eq_dec (length pre) i) as [El|Hn].
          -- destruct (Hstar pre sstar post E El) as (<- & Ep). apply Hd', Hd2, Hmu; [exact HsC|].
             rewrite Ep. exact Hpost.
          -- apply (Hst' pre sstar post E HsC Hpost). lia.
        * destruct (IH (S i) _ Hb) as (b' & E' & Hg' & Hd' & Hst').
          exists b'. split; [exact E'|]. split; [exact Hg'|]. split; [auto|].
          intros pre sstar post E HsC Hpost Hrange.
          destruct (Nat.eq_dec (length pre) i) as [El|Hn].
          -- destruct (Hstar pre sstar post E El) as (<- & Ep). apply Hd', Hstep; [exact HsC|].
             rewrite Ep. exact Hpost.
          -- apply (Hst' pre sstar post E HsC Hpost). lia.
        * destruct Hstep.
      + rewrite skipn_all2 by exact Hi. exists b. split; [reflexivity|]. split; [exact Hb|]. split; [auto|].
        intros pre sstar post E _ _ Hrange. rewrite E, app_length in Hi. cbn [length] in Hi. lia.
  Qed.

  (* ---- the phase as computed by P ranks ----------------------------------------------------------------- *)
  Variable P : nat.
  Variable ord : nat -> nat -> nat.
  Variable rtree_of : nat -> rtree.
  Hypothesis HP : 1 <= P.
  Hypothesis Hagree : forall r e, r < P -> ord r e = ord 0 e.
  Hypothesis Htree : forall k, rtree_ok P (rtree_of k).

  Notation act := (signed_act Z 0%Z Z.add Z.ltb g wts P ord fi).
  Notation gsearch := (glob_search Z Z.ltb fi act P rtree_of).

  Lemma po_glob k : exists c w, gsearch k Sv = PFound c w
    /\ min_odd_cycle g wts (odd_par signed) c /\ w = weight wts c.
  Proof.
    unfold glob_search, glob, signed_act.
    destruct (Nat.eqb (length signed) 1) eqn:E1.
    - (* rank 0 alone *)
      cbn [Nat.eqb]. apply Nat.eqb_eq in E1.
      destruct signed as [|se [|? ?]] eqn:Esg; try discriminate.
      assert (Hse : In se signed) by (rewrite Esg; left; reflexivity).
      destruct (ba_ends_some g se (po_signed_lt se Hse)) as (a & c & He).
      destruct (po_single g wts se a c C0 Hs Hpw Hmin He) as (cy & w & E & Hm & Hw).
      rewrite E. exists cy, w. split; [reflexivity|]. split; assumption.
    - destruct (Nat.ltb (length signed) (nv g)); cbn [local_of].
      + (* hidden-edge branch *)
        set (sv := sort_eord (ord 0) signed).
        assert (Hincl : incl sv signed) by apply sort_eord_incl.
        assert (Hdec : exists pre sstar post, sv = pre ++ sstar :: post /\ In sstar C0
                                              /\ forall e, In e post -> ~ In e C0).
        { destruct Hmin as (_ & Hodd & _). destruct (ba_par_true_ex signed C0 Hodd) as (e & HeC & Hes).
          destruct (ba_last_sat (fun a => memb a C0) sv) as (pre & s & post & E & H1 & H2).
          - exists e. split; [apply ba_sort_eord_In; exact Hes|apply gl_memb_In; exact HeC].
          - exists pre, s, post. split; [exact E|]. split; [apply gl_memb_In; exact H1|].
            intros a Ha. apply gl_memb_false, H2, Ha. }
        destruct Hdec as (pre & sstar & post & Esv & HsC & Hpost).
        assert (Hloc : forall r, r < P ->
                  exists b, local_hidden Z 0%Z Z.add Z.ltb g wts P ord r signed = Some b /\ good b
                            /\ (in_slice (length sv) P r (length pre) -> done b)).
        { intros r HrP. unfold local_hidden.
          rewrite (sort_eord_ext (ord r) (ord 0) signed (fun e => Hagree r e HrP)). fold sv.
          destruct (po_hidden_slice sv Hincl (slice_len (length sv) P r) (slice_lo (length sv) P r) None I)
            as (b & Eb & Hg & _ & Hst).
          exists b. split; [exact Eb|]. split; [exact Hg|].
          intros Hin. apply (Hst pre sstar post Esv HsC Hpost). exact Hin. }
        destruct (po_reduce P (fun r => local_hidden Z 0%Z Z.add Z.ltb g wts P ord r signed) (rtree_of k) HP (Htree k))
          as (c & w & E & Hm & Hw).
        * intros r HrP. destruct (Hloc r HrP) as (b & Eb & Hg & _). exists b. split; assumption.
        * assert (Hlt : length pre < length sv) by (rewrite Esv, app_length; cbn [length]; lia).
          destruct (slices_cover (length sv) P (length pre) HP Hlt) as (r & HrP & Hin).
          destruct (Hloc r HrP) as (b & Eb & _ & Hd). exists r, b. split; [exact HrP|]. split; [exact Eb|apply Hd, Hin].
        * rewrite E. exists c, w. split; [reflexivity|]. split; assumption.
      + (* all-vertices branch *)
        destruct (ba_C0_walk g wts signed C0 Hmin) as (s0 & q0 & Hw0 & _ & _ & _ & Hodd0 & Hwt0).
        pose proof (gl_walk_start_lt _ _ _ _ Hs Hw0) as Hs0.
        assert (Hloc : forall r, r < P ->
                  exists b, local_vertices Z 0%Z Z.add Z.ltb g wts P r signed = Some b /\ good b
                            /\ (in_slice (nv g) P r s0 -> done b)).
        { intros r HrP. unfold local_vertices. rewrite slice_seq.
          destruct (ba_av_loop bidir_spec g wts signed C0 Hs Hpw Hmin s0 q0 Hw0 Hodd0 Hwt0
                      (seq (slice_lo (nv g) P r) (slice_len (nv g) P r)) None) as (b & Eb & Hg & _ & Hd).
          - intros v Hv. apply in_seq in Hv. unfold slice_len in Hv. lia.
          - exact I.
          - exists b. split; [exact Eb|]. split; [exact Hg|]. intros Hin. apply Hd, in_seq. exact Hin. }
        destruct (po_reduce P (fun r => local_vertices Z 0%Z Z.add Z.ltb g wts P r signed) (rtree_of k) HP (Htree k))
          as (c & w & E & Hm & Hw).
        * intros r HrP. destruct (Hloc r HrP) as (b & Eb & Hg & _). exists b. split; assumption.
        * destruct (slices_cover (nv g) P s0 HP Hs0) as (r & HrP & Hin).
          destruct (Hloc r HrP) as (b & Eb & _ & Hd). exists r, b. split; [exact HrP|]. split; [exact Eb|apply Hd, Hin].
        * rewrite E. exists c, w. split; [reflexivity|]. split; assumption.
  Qed.
End PhaseOpt.

(* ---- the whole algorithm: no premise about the search ------------------------------------------------------ *)
Section MinFree.
  Variables (g : graph) (wts : list Z) (roots : list nat).
  Hypothesis Hs : simple_graph g.
  Hypothesis Hpw : positive_weights g wts.
  Hypothesis Hr : forall v, v < nv g -> In v roots.
  Variable P : nat.
  Variable ord : forest_index -> nat -> nat -> nat.
  Variable rtree_of : nat -> rtree.
  Hypothesis HP : 1 <= P.
  Hypothesis Htree : forall k, rtree_ok P (rtree_of k).
  Hypothesis Hagree : forall fi r e, r < P -> ord fi r e = ord fi 0 e.

  Lemma po_phase fi k Sv : create_index g roots = Some fi -> canonical_witness fi Sv ->
    exists c w, glob_search Z Z.ltb fi (signed_act Z 0%Z Z.add Z.ltb g wts P (ord fi) fi) P rtree_of k Sv = PFound c w
      /\ min_odd_cycle g wts (fun D => pairing fi Sv D = true) c /\ w = weight wts c.
  Proof.
    intros Hci HS.
    destruct (ba_min_odd_exists g wts (indices_to_edges fi Sv) Hs Hpw (po_ex g roots fi Hs Hr Hci Sv HS)) as (C0 & Hmin).
    destruct (po_glob g wts roots fi Hs Hpw Hr Hci Sv HS C0 Hmin P (ord fi) rtree_of HP (Hagree fi) Htree k)
      as (c & w & E & (Hc & Hoc & Hm) & Hw).
    exists c, w. split; [exact E|]. split; [|exact Hw]. split; [exact Hc|]. split.
    - rewrite (po_bridge g roots fi Hs Hr Hci Sv HS) by exact Hc. exact Hoc.
    - intros D HD HoD. apply Hm; [exact HD|]. unfold odd_par.
      rewrite <- (po_bridge g roots fi Hs Hr Hci Sv HS) by exact HD. exact HoD.
  Qed.

  Theorem mpi_signed_min_free :
    exists fi cycles total sup rest,
      create_index g roots = Some fi
      /\ mcb_sva_signed_mpi_gen Z 0%Z Z.add Z.ltb g wts roots P ord rtree_of
         = Some (Done (RankOut cycles total sup None :: rest))
      /\ length rest = P - 1 /\ Forall (silent 0%Z fi) rest
      /\ min_cycle_basis g wts cycles /\ total = total_weight wts cycles
      /\ has_cycle_space_dimension g (length cycles).
  Proof.
    destruct (create_index_correct g roots Hs Hr) as (fi & Hci & _).
    assert (Htree' : forall k r, In r (rleaves (rtree_of k)) -> r < P)
      by (intros k r; apply rtree_ok_lt, Htree).
    destruct (mpi_signed_no_deadlock Z 0%Z Z.add Z.ltb g wts roots P ord rtree_of fi HP Htree' Hci)
      as (r0 & rest & Erun & Hlen & Hsil & Esva).
    set (search := glob_search Z Z.ltb fi (signed_act Z 0%Z Z.add Z.ltb g wts P (ord fi) fi) P rtree_of) in *.
    assert (Hmin : search_min_c g wts fi search).
    { intros k Sv c w HS E. destruct (po_phase fi k Sv Hci HS) as (c' & w' & E' & Hm & Hw).
      fold search in E'. rewrite E' in E. injection E as <- <-. split; assumption. }
    assert (Htot : search_total fi search).
    { intros k Sv SS Sne Sb. destruct (po_phase fi k Sv Hci (conj SS (conj Sne Sb))) as (c & w & E & _).
      exists c, w. exact E. }
    pose proof (search_min_c_sound g wts fi search Hs Hmin) as Hsnd.
    destruct (sva_generic_total_c g roots fi Z 0%Z Z.add select_none search Hs Hr Hci
                (select_none_ok (fi_csd fi)) Hsnd Htot) as (cycles & total & sup & Hrun).
    destruct (sva_generic_min_c g wts roots fi select_none search cycles total sup Hs Hpw Hr Hci
                (select_none_ok (fi_csd fi)) Hmin Hrun) as (Hmcb & Hw & Hdim).
    rewrite Hrun in Esva.
    assert (E0 : r0 = RankOut cycles total sup None).
    { destruct r0 as [cy tw sp [[[|] kk]|]|kk]; cbn [to_sva] in Esva; try discriminate.
      injection Esva as -> -> ->. reflexivity. }
    subst r0. exists fi, cycles, total, sup, rest. repeat (split; [assumption|]). assumption.
  Qed.
End MinFree.

(* the fixed code: every simple graph, positive integer weights, every P >= 1, every reduction tree, every root
   order — nothing else *)
Theorem mpi_signed_fixed_min_free g wts roots P rtree_of :
  simple_graph g -> positive_weights g wts -> (forall v, v < nv g -> In v roots) ->
  1 <= P -> (forall k, rtree_ok P (rtree_of k)) ->
  exists fi cycles total sup rest,
    create_index g roots = Some fi
    /\ mcb_sva_signed_mpi_fixed_Z g wts roots P rtree_of = Some (Done (RankOut cycles total sup None :: rest))
    /\ length rest = P - 1 /\ Forall (silent 0%Z fi) rest
    /\ min_cycle_basis g wts cycles /\ total = total_weight wts cycles
    /\ has_cycle_space_dimension g (length cycles).
Proof.
  intros Hs Hpw Hr HP Htree. unfold mcb_sva_signed_mpi_fixed_Z.
  apply (mpi_signed_min_free g wts roots Hs Hpw Hr P ord_fixed rtree_of HP Htree).
  intros fi r e _. reflexivity.
Qed.

(* the code as found, when the ranks' pointer orders coincide *)
Theorem mpi_signed_orig_min_free g wts roots P eords rtree_of :
  simple_graph g -> positive_weights g wts -> (forall v, v < nv g -> In v roots) ->
  1 <= P -> (forall k, rtree_ok P (rtree_of k)) ->
  (forall r, r < P -> nth r eords [] = nth 0 eords []) ->
  exists fi cycles total sup rest,
    create_index g roots = Some fi
    /\ mcb_sva_signed_mpi_orig_Z g wts roots P eords rtree_of = Some (Done (RankOut cycles total sup None :: rest))
    /\ length rest = P - 1 /\ Forall (silent 0%Z fi) rest
    /\ min_cycle_basis g wts cycles /\ total = total_weight wts cycles
    /\ has_cycle_space_dimension g (length cycles).
Proof.
  intros Hs Hpw Hr HP Htree Hag. unfold mcb_sva_signed_mpi_orig_Z.
  apply (mpi_signed_min_free g wts roots Hs Hpw Hr P (ord_orig eords) rtree_of HP Htree).
  intros fi r e HrP. unfold ord_orig. rewrite (Hag r HrP). reflexivity.
Qed.
