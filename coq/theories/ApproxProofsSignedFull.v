(* ApproxProofsSignedFull.v — premise-free statements for approx_mcb_sva_signed: the exact phase on the spanner is
   discharged by BidirProofs5.C01_signed / C02_signed (the spanner is a simple graph with positive weights).  Prefix ap_. *)
From Coq Require Import List Arith Bool Lia ZArith Permutation Sorted.
From Parmcb Require Import GraphModel GF2Model GraphSpec GraphLemmas McbSpec DePinaProofs SpannerModel SpannerProofs SvaModel
  SignedModel SignedZModel BidirSpec BidirProofs5 ApproxModel ApproxProofs ApproxProofsRun ApproxProofsEdge.
Import ListNotations.

Lemma ap_signed_exact_free g w k scan roots eord sp :
  simple_graph g -> positive_weights g w -> Permutation scan (seq 0 (ne g)) ->
  (forall v, v < nv g -> In v roots) -> construct_spanner g k scan = SpOk sp ->
  exists cs t sup,
    mcb_sva_signed_Z (sp_graph sp) (spanner_weights w sp) roots eord = SvaOk cs t sup
    /\ min_cycle_basis (sp_graph sp) (spanner_weights w sp) cs
    /\ t = total_weight (spanner_weights w sp) cs
    /\ has_cycle_space_dimension (sp_graph sp) (length cs).
Proof.
  intros Hg (Hlen & Hpos) HP Hroots Hsp.
  destruct (ap_spanner_facts g k scan sp Hg HP Hsp) as (Hsub & HPerm & _).
  assert (Hh : simple_graph (sp_graph sp)) by (eapply ap_sp_simple; eauto).
  assert (Hwh : positive_weights (sp_graph sp) (spanner_weights w sp)).
  { split; [eapply ap_spanner_weights_length; eauto|eapply ap_spanner_weights_pos; eauto]. }
  assert (Hr : forall v, v < nv (sp_graph sp) -> In v roots).
  { intros v Hv. apply Hroots. rewrite <- (ap_nv_h g sp Hsub). exact Hv. }
  destruct (BidirProofs5.C02_signed _ _ roots eord Hh Hwh Hr) as (cs & t & sup & E & Hmin & Ht).
  destruct (BidirProofs5.C01_signed _ _ roots eord Hh Hwh Hr) as (cs' & t' & sup' & E' & _ & Hdim).
  rewrite E in E'. injection E' as <- _ _.
  exists cs, t, sup. auto.
Qed.

Theorem ap_signed_full g w k scan roots eord :
  simple_graph g -> positive_weights g w -> 1 <= k -> Permutation scan (seq 0 (ne g)) ->
  (forall v, v < nv g -> In v roots) ->
  exists cycles total,
    approx_sva_signed_Z g w k scan roots eord = ApproxOk cycles total
    /\ cycle_basis g (map set_of_list cycles) /\ has_cycle_space_dimension g (length cycles)
    /\ Forall (fun c => NoDup c /\ forall e, In e c -> e < ne g) cycles
    /\ total = total_weight w cycles.
Proof.
  intros Hg Hw Hk HP Hroots. unfold approx_sva_signed_Z.
  set (exact := fun h wh => mcb_sva_signed_Z h wh roots eord).
  assert (Hex : forall sp, construct_spanner g k scan = SpOk sp ->
            exists cs t sup, exact (sp_graph sp) (spanner_weights w sp) = SvaOk cs t sup
              /\ min_cycle_basis (sp_graph sp) (spanner_weights w sp) cs
              /\ t = total_weight (spanner_weights w sp) cs
              /\ has_cycle_space_dimension (sp_graph sp) (length cs)).
  { intros sp Hsp. exact (ap_signed_exact_free g w k scan roots eord sp Hg Hw HP Hroots Hsp). }
  destruct (ap_run_total exact g w k scan Hg Hw Hk HP) as (cycles & total & Hrun).
  { intros sp Hsp. destruct (Hex sp Hsp) as (cs & t & sup & E & ((Fsc & _) & _) & _ & _).
    destruct (ap_spanner_facts g k scan sp Hg HP Hsp) as (Hsub & HPerm & _).
    exists cs, t, sup. split; [exact E|].
    eapply Forall_impl; [|exact Fsc]. intros C HC.
    apply simple_cycle_in_cycle_space in HC; [|eapply ap_sp_simple; eauto].
    destruct HC as (_ & HB & _). apply Forall_forall. exact HB. }
  exists cycles, total. split; [exact Hrun|].
  assert (H1 : exact_basis_on_spanner exact g w k scan).
  { intros sp cs t sup Hsp Hr. destruct (Hex sp Hsp) as (cs' & t' & sup' & E & (Hb & _) & _ & Hd).
    rewrite E in Hr. injection Hr as <- _ _. split; assumption. }
  assert (H2 : exact_weight_on_spanner exact g w k scan).
  { intros sp cs t sup Hsp Hr. destruct (Hex sp Hsp) as (cs' & t' & sup' & E & _ & Ht & _).
    rewrite E in Hr. injection Hr as <- <- _. exact Ht. }
  destruct (ap_run_basis exact g w k scan cycles total Hg HP H1 Hrun) as (A & B & C).
  split; [exact A|]. split; [exact B|]. split; [exact C|]. exact (ap_run_weight exact g w k scan cycles total H2 Hrun).
Qed.

Theorem ap_signed_k1_full g w scan roots eord :
  simple_graph g -> positive_weights g w -> Permutation scan (seq 0 (ne g)) ->
  (forall v, v < nv g -> In v roots) ->
  exists cycles total,
    approx_sva_signed_Z g w 1 scan roots eord = ApproxOk cycles total
    /\ min_cycle_basis g w (map set_of_list cycles) /\ total = total_weight w cycles.
Proof.
  intros Hg Hw HP Hroots.
  destruct (ap_signed_full g w 1 scan roots eord Hg Hw (le_n 1) HP Hroots) as (cycles & total & Hrun & _ & _ & _ & Ht).
  exists cycles, total. split; [exact Hrun|]. split; [|exact Ht].
  unfold approx_sva_signed_Z in Hrun.
  apply (ap_run_k1_min (fun h wh => mcb_sva_signed_Z h wh roots eord) g w scan cycles total Hg HP); [|exact Hrun].
  intros sp cs t sup Hsp Hr.
  destruct (ap_signed_exact_free g w 1 scan roots eord sp Hg Hw HP Hroots Hsp) as (cs' & t' & sup' & E & Hmin & _).
  rewrite E in Hr. injection Hr as <- _ _. exact Hmin.
Qed.
