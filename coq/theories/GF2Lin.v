(* GF2Lin.v — linear algebra over GF(2) on the sparse vectors of GF2Model.v
   (strictly increasing lists of coordinates).  Linear combinations given by boolean
   masks, independence, spanning, symmetry and bilinearity of vdot, restriction to
   the first N coordinates, the exchange lemma.  Used by DePina.v.

   Everything is stated for canonical (`sorted`) vectors, compared with Leibniz
   equality; no axioms. *)
From Coq Require Import List Arith Bool Lia Sorted.
From Parmcb Require Import GF2Model GF2Proofs.
Import ListNotations.

(* ---- definitions ---------------------------------------------------------------- *)

(* sum of the selected vectors *)
Fixpoint comb (mask : list bool) (Cs : list vec) : vec :=
  match mask, Cs with
  | b :: m, C :: Cs' => if b then vadd C (comb m Cs') else comb m Cs'
  | _, _ => []
  end.

Definition indep (Cs : list vec) : Prop :=
  forall m, length m = length Cs -> comb m Cs = [] -> forallb negb m = true.

Definition spans (inV : vec -> Prop) (Cs : list vec) : Prop :=
  forall Z, inV Z -> exists m, length m = length Cs /\ comb m Cs = Z.

(* coordinates below N *)
Definition res (N : nat) (Z : vec) : vec := filter (fun i => i <? N) Z.

Definition odd (S C : vec) : Prop := vdot S C = true.

(* Z is a linear combination of Cs  (so: spans inV Cs <-> forall Z, inV Z -> inspan Cs Z) *)
Definition inspan (Cs : list vec) (Z : vec) : Prop :=
  exists m, length m = length Cs /\ comb m Cs = Z.

(* pointwise xor of two masks *)
Fixpoint mxor (m1 m2 : list bool) : list bool :=
  match m1, m2 with
  | b1 :: m1', b2 :: m2' => xorb b1 b2 :: mxor m1' m2'
  | _, _ => []
  end.

(* replace position i (no effect when i is out of range) *)
Fixpoint set_nth {A : Type} (l : list A) (i : nat) (x : A) : list A :=
  match l with
  | [] => []
  | y :: l' => match i with 0 => x :: l' | S i' => y :: set_nth l' i' x end
  end.

Lemma spans_inspan inV Cs : spans inV Cs <-> (forall Z, inV Z -> inspan Cs Z).
Proof. reflexivity. Qed.

(* ---- a tactic for identities between sums: both sides have the same members ----- *)

Ltac vsort := auto 12 using vadd_sorted, sorted_nil, sorted_single.
Ltac vext :=
  apply sorted_ext; [ vsort | vsort |
    let i := fresh "i" in
    intros i; rewrite ?vadd_mem by vsort;
    repeat match goal with |- context [mem ?v i] => destruct (mem v i) end;
    reflexivity ].

(* ---- vdot: symmetric, bilinear --------------------------------------------------- *)

Lemma vdot_sym u : forall v, vdot u v = vdot v u.
Proof.
  induction u as [|x u IHu]; intros v.
  - rewrite vdot_nil_l, vdot_nil_r. reflexivity.
  - induction v as [|y v IHv].
    + rewrite vdot_nil_l, vdot_nil_r. reflexivity.
    + rewrite !vdot_cons, (Nat.compare_antisym x y).
      destruct (Nat.compare x y); cbn [CompOpp]; auto. f_equal; auto.
Qed.

Lemma vdot_add_r a b c : sorted a -> sorted b -> sorted c ->
  vdot c (vadd a b) = xorb (vdot c a) (vdot c b).
Proof.
  intros Ha Hb Hc. rewrite !vdot_par by auto using vadd_sorted.
  rewrite <- xsum_xor. apply xsum_ext. intros j _. apply vadd_mem; auto.
Qed.

Lemma vdot_add_l a b c : sorted a -> sorted b -> sorted c ->
  vdot (vadd a b) c = xorb (vdot a c) (vdot b c).
Proof.
  intros Ha Hb Hc. rewrite (vdot_sym (vadd a b)), (vdot_sym a), (vdot_sym b).
  apply vdot_add_r; auto.
Qed.

Lemma vdot_unit_l t v : sorted v -> vdot [t] v = mem v t.
Proof.
  intros Hv. rewrite vdot_par by auto using sorted_single.
  unfold xsum. cbn [map fold_right]. apply xorb_false_r.
Qed.

Lemma vdot_unit_r t v : sorted v -> vdot v [t] = mem v t.
Proof. intros Hv. rewrite vdot_sym. apply vdot_unit_l; auto. Qed.

(* ---- members ---------------------------------------------------------------------- *)

Lemma mem_nil_eq v : (forall i, mem v i = false) -> v = [].
Proof.
  destruct v as [|x v]; auto. intros H. specialize (H x).
  rewrite mem_cons, Nat.eqb_refl in H. discriminate.
Qed.

Lemma vadd_eq_nil a b : sorted a -> sorted b -> vadd a b = [] -> a = b.
Proof.
  intros Ha Hb H. apply sorted_ext; auto. intros i.
  pose proof (vadd_mem a b i Ha Hb) as E. rewrite H in E.
  change (mem [] i) with false in E.
  destruct (mem a i), (mem b i); auto; discriminate.
Qed.

Lemma vadd_cancel_r a b : sorted a -> sorted b -> vadd (vadd a b) b = a.
Proof. intros Ha Hb. vext. Qed.

Lemma mem_filter (f : nat -> bool) v i : mem (filter f v) i = mem v i && f i.
Proof.
  induction v as [|x v IH]; [reflexivity|]. cbn [filter]. rewrite (mem_cons x v).
  destruct (f x) eqn:E.
  - rewrite mem_cons, IH.
    destruct (Nat.eqb_spec i x) as [->|Hne]; cbn [orb andb]; [rewrite E|]; reflexivity.
  - rewrite IH.
    destruct (Nat.eqb_spec i x) as [->|Hne]; cbn [orb andb]; [rewrite E, andb_false_r|]; reflexivity.
Qed.

Lemma filter_sorted (f : nat -> bool) v : sorted v -> sorted (filter f v).
Proof.
  induction v as [|x v IH]; intros Hv; [exact Hv|].
  apply sorted_inv in Hv as [Hv Hx]. cbn [filter].
  destruct (f x); auto. apply sorted_cons; auto.
  rewrite Forall_forall in *. intros y Hy. apply filter_In in Hy as [Hy _]. auto.
Qed.

(* ---- restriction to the coordinates below N -------------------------------------- *)

Lemma res_sorted N v : sorted v -> sorted (res N v).
Proof. apply filter_sorted. Qed.

Lemma res_mem N v i : mem (res N v) i = mem v i && (i <? N).
Proof. unfold res. rewrite mem_filter. reflexivity. Qed.

Lemma res_bounded N v : bounded N (res N v).
Proof.
  unfold bounded, res. rewrite Forall_forall. intros i Hi.
  apply filter_In in Hi as [_ Hi]. apply Nat.ltb_lt; auto.
Qed.

Lemma res_id N v : bounded N v -> res N v = v.
Proof.
  unfold bounded, res. induction v as [|x v IH]; intros H; [reflexivity|].
  inversion H as [|x' v' Hx Hv]; subst. cbn [filter].
  destruct (Nat.ltb_spec x N); [|lia]. f_equal; auto.
Qed.

Lemma res_add N a b : sorted a -> sorted b -> res N (vadd a b) = vadd (res N a) (res N b).
Proof.
  intros Ha Hb. apply sorted_ext; auto using res_sorted, vadd_sorted.
  intros i. rewrite res_mem, !vadd_mem, !res_mem by auto using res_sorted.
  destruct (mem a i), (mem b i), (i <? N); reflexivity.
Qed.

(* a vector supported below N only sees the coordinates below N *)
Lemma vdot_res N s c : sorted s -> sorted c -> bounded N s -> vdot s c = vdot s (res N c).
Proof.
  intros Hs Hc Hb. rewrite !vdot_par by auto using res_sorted.
  apply xsum_ext. intros j Hj. rewrite res_mem.
  unfold bounded in Hb. rewrite Forall_forall in Hb. apply Hb in Hj.
  destruct (Nat.ltb_spec j N); [|lia]. symmetry. apply andb_true_r.
Qed.

(* ---- linear combinations ----------------------------------------------------------- *)

Lemma comb_nil_r m : comb m [] = [].
Proof. destruct m as [|[] m]; reflexivity. Qed.

Lemma comb_cons b m C Cs :
  comb (b :: m) (C :: Cs) = if b then vadd C (comb m Cs) else comb m Cs.
Proof. reflexivity. Qed.

Lemma comb_sorted m : forall Cs, Forall sorted Cs -> sorted (comb m Cs).
Proof.
  induction m as [|b m IH]; intros Cs H; [apply sorted_nil|].
  destruct Cs as [|C Cs]; [apply sorted_nil|].
  inversion H as [|C' Cs' HC HCs]; subst. cbn [comb]. destruct b; auto using vadd_sorted.
Qed.

Lemma comb_bounded N m : forall Cs, Forall sorted Cs -> Forall (bounded N) Cs -> bounded N (comb m Cs).
Proof.
  induction m as [|b m IH]; intros Cs H HB; [constructor|].
  destruct Cs as [|C Cs]; [constructor|].
  inversion H as [|C' Cs' HC HCs]; inversion HB as [|C'' Cs'' HBC HBCs]; subst.
  cbn [comb]. destruct b; auto using vadd_bounded, comb_sorted.
Qed.

Lemma comb_allfalse m : forall Cs, forallb negb m = true -> comb m Cs = [].
Proof.
  induction m as [|b m IH]; intros Cs H; [reflexivity|].
  destruct Cs as [|C Cs]; [reflexivity|].
  cbn [forallb] in H. apply andb_true_iff in H as [Hb Hm].
  destruct b; [discriminate|]. cbn [comb]. auto.
Qed.

Lemma forallb_negb_repeat n : forallb negb (repeat false n) = true.
Proof. induction n as [|n IH]; [reflexivity|]. cbn [repeat forallb negb andb]. exact IH. Qed.

Lemma comb_repeat_false n Cs : comb (repeat false n) Cs = [].
Proof. apply comb_allfalse, forallb_negb_repeat. Qed.

Lemma comb_app m1 : forall C1 m2 C2, length m1 = length C1 ->
  Forall sorted C1 -> Forall sorted C2 ->
  comb (m1 ++ m2) (C1 ++ C2) = vadd (comb m1 C1) (comb m2 C2).
Proof.
  induction m1 as [|b m1 IH]; intros C1 m2 C2 Hl H1 H2.
  - destruct C1; [|discriminate]. cbn [app comb]. rewrite vadd_nil_l. reflexivity.
  - destruct C1 as [|C C1]; [discriminate|].
    inversion H1 as [|C' C1' HC HC1]; subst. cbn [app comb]. injection Hl as Hl.
    rewrite IH by auto. destruct b; auto.
    symmetry. apply vadd_assoc; auto using comb_sorted.
Qed.

(* the shape used everywhere below: one distinguished position *)
Lemma comb_mid m1 b m2 L1 D L2 : length m1 = length L1 ->
  Forall sorted L1 -> sorted D -> Forall sorted L2 ->
  comb (m1 ++ b :: m2) (L1 ++ D :: L2) =
  vadd (comb m1 L1) (vadd (if b then D else []) (comb m2 L2)).
Proof.
  intros Hl H1 HD H2. rewrite comb_app by auto. cbn [comb].
  destruct b; [reflexivity|]. rewrite vadd_nil_l. reflexivity.
Qed.

Lemma mxor_length m1 : forall m2, length m1 = length m2 -> length (mxor m1 m2) = length m1.
Proof.
  induction m1 as [|b1 m1 IH]; intros m2 Hl; [reflexivity|].
  destruct m2 as [|b2 m2]; [discriminate|]. injection Hl as Hl.
  cbn [mxor length]. f_equal; auto.
Qed.

Lemma comb_mxor m1 : forall m2 Cs, length m1 = length m2 -> Forall sorted Cs ->
  comb (mxor m1 m2) Cs = vadd (comb m1 Cs) (comb m2 Cs).
Proof.
  induction m1 as [|b1 m1 IH]; intros m2 Cs Hl HCs.
  - destruct m2; [|discriminate]. reflexivity.
  - destruct m2 as [|b2 m2]; [discriminate|]. injection Hl as Hl.
    destruct Cs as [|C Cs]; [rewrite !comb_nil_r; reflexivity|].
    inversion HCs as [|C' Cs' HC HCs']; subst. cbn [mxor comb]. rewrite IH by auto.
    pose proof (comb_sorted m1 Cs HCs') as S1. pose proof (comb_sorted m2 Cs HCs') as S2.
    destruct b1, b2; cbn [xorb]; vext.
Qed.

(* vdot distributes over a combination: xor, over the selected positions, of the dots *)
Lemma vdot_comb s m : forall Cs, sorted s -> Forall sorted Cs ->
  vdot s (comb m Cs) = xsum (map (fun p => fst p && vdot s (snd p)) (combine m Cs)).
Proof.
  induction m as [|b m IH]; intros Cs Hs HCs.
  - cbn [comb combine map]. apply vdot_nil_r.
  - destruct Cs as [|C Cs]; [cbn [comb combine map]; apply vdot_nil_r|].
    inversion HCs as [|C' Cs' HC HCs']; subst.
    cbn [comb combine map fst snd]. rewrite xsum_cons, <- IH by auto.
    destruct b; cbn [andb].
    + apply vdot_add_r; auto using comb_sorted.
    + rewrite xorb_false_l. reflexivity.
Qed.

Lemma vdot_comb_orth s m : forall Cs, sorted s -> Forall sorted Cs ->
  Forall (fun C => vdot s C = false) Cs -> vdot s (comb m Cs) = false.
Proof.
  induction m as [|b m IH]; intros Cs Hs HCs HO; [apply vdot_nil_r|].
  destruct Cs as [|C Cs]; [apply vdot_nil_r|].
  inversion HCs as [|C' Cs' HC HCs']; inversion HO as [|C'' Cs'' HOC HOCs]; subst.
  cbn [comb]. destruct b; auto.
  rewrite vdot_add_r by auto using comb_sorted. rewrite HOC, IH by auto. reflexivity.
Qed.

(* an odd dot with a combination comes from an odd dot with a selected vector *)
Lemma vdot_comb_odd s m : forall Cs, sorted s -> Forall sorted Cs ->
  vdot s (comb m Cs) = true ->
  exists m1 m2 C1 D C2, m = m1 ++ true :: m2 /\ Cs = C1 ++ D :: C2 /\
                        length m1 = length C1 /\ vdot s D = true.
Proof.
  induction m as [|b m IH]; intros Cs Hs HCs H.
  - cbn [comb] in H. rewrite vdot_nil_r in H. discriminate.
  - destruct Cs as [|C Cs]; [rewrite comb_nil_r, vdot_nil_r in H; discriminate|].
    inversion HCs as [|C' Cs' HC HCs']; subst. cbn [comb] in H. destruct b.
    + rewrite vdot_add_r in H by auto using comb_sorted. destruct (vdot s C) eqn:E.
      * exists [], m, [], C, Cs. auto.
      * rewrite xorb_false_l in H.
        destruct (IH Cs Hs HCs' H) as (m1 & m2 & C1 & D & C2 & -> & -> & Hl & HD).
        exists (true :: m1), m2, (C :: C1), D, C2. cbn [app length]. auto.
    + destruct (IH Cs Hs HCs' H) as (m1 & m2 & C1 & D & C2 & -> & -> & Hl & HD).
      exists (false :: m1), m2, (C :: C1), D, C2. cbn [app length]. auto.
Qed.

(* a mask is all false, or has a last selected position *)
Lemma mask_last_true m :
  forallb negb m = true \/
  exists m1 m2, m = m1 ++ true :: m2 /\ forallb negb m2 = true.
Proof.
  induction m as [|b m IH]; [left; reflexivity|].
  destruct IH as [Hall|(m1 & m2 & -> & H2)].
  - destruct b.
    + right. exists [], m. auto.
    + left. cbn [forallb negb andb]. exact Hall.
  - right. exists (b :: m1), m2. auto.
Qed.

(* split a mask along a split of the family *)
Lemma mask_split (m : list bool) (n1 n2 : nat) : length m = n1 + S n2 ->
  exists m1 b m2, m = m1 ++ b :: m2 /\ length m1 = n1 /\ length m2 = n2.
Proof.
  intros Hl. pose proof (firstn_skipn n1 m) as E.
  destruct (skipn n1 m) as [|b m2] eqn:Es.
  - exfalso. assert (Hs : length (skipn n1 m) = 0) by (rewrite Es; reflexivity).
    rewrite skipn_length in Hs. lia.
  - exists (firstn n1 m), b, m2. split; [auto|]. split.
    + rewrite firstn_length. lia.
    + assert (Hs : length (skipn n1 m) = S (length m2)) by (rewrite Es; reflexivity).
      rewrite skipn_length in Hs. lia.
Qed.

(* ---- span -------------------------------------------------------------------------- *)

Lemma inspan_sorted Cs Z : Forall sorted Cs -> inspan Cs Z -> sorted Z.
Proof. intros H (m & _ & <-). apply comb_sorted; auto. Qed.

Lemma inspan_nil Cs : inspan Cs [].
Proof.
  exists (repeat false (length Cs)). split; [apply repeat_length|apply comb_repeat_false].
Qed.

Lemma inspan_add Cs a b : Forall sorted Cs -> inspan Cs a -> inspan Cs b -> inspan Cs (vadd a b).
Proof.
  intros H (ma & La & <-) (mb & Lb & <-). exists (mxor ma mb). split.
  - rewrite mxor_length; congruence.
  - apply comb_mxor; auto; congruence.
Qed.

Lemma inspan_In Cs v : Forall sorted Cs -> In v Cs -> inspan Cs v.
Proof.
  intros H Hin. apply in_split in Hin as (l1 & l2 & ->).
  apply Forall_app in H as [H1 H2]. inversion H2 as [|v' l2' Hv H2']; subst.
  exists (repeat false (length l1) ++ true :: repeat false (length l2)). split.
  - rewrite !app_length. cbn [length]. rewrite !repeat_length. reflexivity.
  - rewrite comb_mid by (auto; apply repeat_length).
    rewrite !comb_repeat_false, vadd_nil_l, vadd_nil_r. reflexivity.
Qed.

Lemma inspan_comb L' : Forall sorted L' ->
  forall L, Forall (inspan L') L -> forall m, inspan L' (comb m L).
Proof.
  intros HL'. induction L as [|v L IH]; intros HL m.
  - rewrite comb_nil_r. apply inspan_nil.
  - inversion HL as [|v' L0 Hv HL0]; subst. destruct m as [|b m]; [apply inspan_nil|].
    cbn [comb]. destruct b; auto using inspan_add.
Qed.

(* if every vector of L is a combination of L', so is every combination of L *)
Lemma inspan_trans L L' Z : Forall sorted L' -> Forall (inspan L') L -> inspan L Z -> inspan L' Z.
Proof. intros HL' HL (m & _ & <-). apply inspan_comb; auto. Qed.

Lemma inspan_incl L L' Z : Forall sorted L' -> incl L L' -> inspan L Z -> inspan L' Z.
Proof.
  intros HL' Hincl. apply inspan_trans; auto.
  rewrite Forall_forall. intros v Hv. apply inspan_In; auto.
Qed.

Lemma comb_inV (inV : vec -> Prop) :
  inV [] -> (forall a b, inV a -> inV b -> inV (vadd a b)) ->
  forall m Cs, Forall inV Cs -> inV (comb m Cs).
Proof.
  intros Hnil Hadd. induction m as [|b m IH]; intros Cs H; [exact Hnil|].
  destruct Cs as [|C Cs]; [exact Hnil|]. inversion H as [|C' Cs' HC HCs]; subst.
  cbn [comb]. destruct b; auto.
Qed.

(* ---- the exchange lemma -------------------------------------------------------------
   If C is a combination of L that selects position j, then replacing L_j by C loses
   nothing: L_j = C + (the other selected vectors). *)

Lemma exchange_split m1 m2 L1 D L2 C :
  Forall sorted (L1 ++ D :: L2) ->
  length m1 = length L1 -> length m2 = length L2 ->
  comb (m1 ++ true :: m2) (L1 ++ D :: L2) = C ->
  forall Z, inspan (L1 ++ D :: L2) Z -> inspan (L1 ++ C :: L2) Z.
Proof.
  intros HL Hl1 Hl2 HC Z.
  pose proof (comb_sorted (m1 ++ true :: m2) _ HL) as SC. rewrite HC in SC.
  apply Forall_app in HL as [H1 H2]. inversion H2 as [|D' L2' HD H2']; subst L2' D'.
  assert (HL' : Forall sorted (L1 ++ C :: L2)) by (apply Forall_app; split; auto).
  apply inspan_trans; auto.
  apply Forall_app; split; [|constructor].
  - rewrite Forall_forall. intros v Hv. apply inspan_In; auto. apply in_or_app; auto.
  - exists (m1 ++ true :: m2). split.
    + rewrite !app_length. cbn [length]. lia.
    + rewrite comb_mid by auto. rewrite comb_mid in HC by auto. subst C.
      pose proof (comb_sorted m1 L1 H1) as S1. pose proof (comb_sorted m2 L2 H2') as S2.
      vext.
  - rewrite Forall_forall. intros v Hv. apply inspan_In; auto.
    apply in_or_app; right; right; auto.
Qed.

Lemma set_nth_length {A} (l : list A) : forall i x, length (set_nth l i x) = length l.
Proof.
  induction l as [|y l IH]; intros i x; [reflexivity|].
  destruct i as [|i]; cbn [set_nth length]; auto.
Qed.

Lemma nth_set_nth {A} (l : list A) : forall i x j d, i < length l ->
  nth j (set_nth l i x) d = if Nat.eqb j i then x else nth j l d.
Proof.
  induction l as [|y l IH]; intros i x j d Hi; [cbn [length] in Hi; lia|].
  destruct i as [|i]; cbn [set_nth].
  - destruct j as [|j]; reflexivity.
  - destruct j as [|j]; [reflexivity|]. cbn [nth length] in *. rewrite IH by lia. reflexivity.
Qed.

Lemma set_nth_split {A} (l : list A) : forall i x, i < length l ->
  set_nth l i x = firstn i l ++ x :: skipn (S i) l.
Proof.
  induction l as [|y l IH]; intros i x Hi; [cbn [length] in Hi; lia|].
  destruct i as [|i]; cbn [set_nth firstn skipn app]; [reflexivity|].
  cbn [length] in Hi. rewrite IH by lia. reflexivity.
Qed.

Lemma nth_split_at {A} (l : list A) : forall i d, i < length l ->
  l = firstn i l ++ nth i l d :: skipn (S i) l.
Proof.
  induction l as [|y l IH]; intros i d Hi; [cbn [length] in Hi; lia|].
  destruct i as [|i]; cbn [nth firstn skipn app]; [reflexivity|].
  cbn [length] in Hi. rewrite <- IH by lia. reflexivity.
Qed.

(* the statement with an index: position j of L is replaced by C *)
Lemma exchange_nth inV L mc j C :
  Forall sorted L -> length mc = length L -> j < length L ->
  nth j mc false = true -> comb mc L = C ->
  spans inV L -> spans inV (set_nth L j C).
Proof.
  intros HL Hlen Hj Hsel HC Hsp Z HZ. specialize (Hsp Z HZ). fold (inspan L Z) in Hsp.
  fold (inspan (set_nth L j C) Z). rewrite set_nth_split by auto.
  pose proof (nth_split_at L j [] Hj) as EL.
  assert (Hjm : j < length mc) by lia.
  pose proof (nth_split_at mc j false Hjm) as Em. rewrite Hsel in Em.
  assert (Hl1 : length (firstn j mc) = length (firstn j L)) by (rewrite !firstn_length; lia).
  assert (Hl2 : length (skipn (S j) mc) = length (skipn (S j) L)) by (rewrite !skipn_length; lia).
  revert Hsp HC HL. rewrite Em. rewrite EL at 1 2 3. intros Hsp HC HL.
  eapply exchange_split; eauto.
Qed.
