(* OverflowProofs3.v — C07, clause "overflows a signed integer", part 3: EVERY sum formed by one call of
   bidirectional_signed_dijkstra (Z model) lies in [0, 2S + 2Wm].
   To speak about the values that the code forms and then drops (a tentative distance that is not stored, a candidate
   that is not better than `best`), the functions of SignedModel.v are restated with a trace: X_tr returns the pair
   (result of X, list of all sums X computes with `combine` / `+`, in order).  The erasure lemmas ov_*_erase
   show  fst (X_tr ...) = X ...,  so the traced functions follow exactly the control flow of the model; the sums
   listed are, for each function:
     scan_edge            c = d_u + w(e)   and   path_distance = c + dist_other(signed_w)
     bidir_loop           find_min(frontier) + find_min(other)   (stop test, only when a best path is set and both
                          queues are non-empty, as the short-circuit in the C++), then the sums of the scans
     follow               cycle_weight += w(e)   in both reconstruction loops
   Theorems: ov_follow_tr, ov_loop_tr, ov_search_tr.   No axioms. *)
From Coq Require Import List Arith Bool ZArith Lia Permutation.
From Parmcb Require Import GraphModel GF2Model GF2Proofs GraphSpec GraphLemmas McbSpec ForestModel
     HeapModel HeapSpec HeapProofs SvaModel SvaSpec SignedModel SignedZModel SignedProofs RefProofs1
     BidirSpec BidirProofs1 BidirProofs2 BidirProofs3 BidirProofs4 OverflowProofs1 OverflowProofs2.
Import ListNotations.

Local Open Scope Z_scope.

(* ---- the traced functions ---------------------------------------------------------------------------- *)

Definition scan_edge_tr (P : sparams Z) (other : frontier Z) (su : nat) (du : Z)
           (st : option (frontier Z * option (Z * nat))) (ew : nat * nat)
  : option (frontier Z * option (Z * nat)) * list Z :=
  match st with
  | None => (None, [])
  | Some (fr, best) =>
      let '(e, w) := ew in
      let n := nv (sp_g Z P) in
      let u := vertex_of n su in
      if sp_use_hidden Z P && memb e (sp_hidden Z P) then (st, [])
      else if Nat.eqb w u then (st, [])
      else
        let c := du + wtof Z 0 (sp_wts Z P) e in
        if negb (below_limit Z Z.ltb P c) then (st, [c])
        else
          let is_signed := memb e (sp_signed Z P) in
          let sw := signed_id n w (if is_signed then negb (sign_of n su) else sign_of n su) in
          match fr_update Z Z.ltb fr sw c su e with
          | None => (None, [c])
          | Some fr' =>
              if has_finite_dist Z other sw then
                match fr_dist Z other sw with
                | Some dw =>
                    let pd := c + dw in
                    (match best with
                     | Some (bp, _) => if Z.ltb pd bp then Some (fr', Some (pd, sw)) else Some (fr', best)
                     | None => Some (fr', Some (pd, sw))
                     end, [c; pd])
                | None => (None, [c])
                end
              else (Some (fr', best), [c])
          end
  end.

Fixpoint scan_fold_tr (P : sparams Z) (other : frontier Z) (su : nat) (du : Z) (l : list (nat * nat))
         (st : option (frontier Z * option (Z * nat))) : option (frontier Z * option (Z * nat)) * list Z :=
  match l with
  | [] => (st, [])
  | ew :: l' =>
      let r1 := scan_edge_tr P other su du st ew in
      let r2 := scan_fold_tr P other su du l' (fst r1) in
      (fst r2, snd r1 ++ snd r2)
  end.

(* the sum formed by the stop test *)
Definition stop_vals (fr other : frontier Z) (best : option (Z * nat)) : list Z :=
  match best, find_min Z fr, find_min Z other with
  | Some (bp, _), Some a, Some b => [a + b]
  | _, _, _ => []
  end.

Fixpoint bidir_loop_tr (fuel : nat) (P : sparams Z) (fr other : frontier Z) (best : option (Z * nat))
  : loop_result Z * list Z :=
  match fuel with
  | O => (LoopFuel Z, [])
  | S fuel' =>
      match f_heap Z fr, f_heap Z other with
      | [], _ => (LoopDone Z fr other best, [])
      | _, [] => (LoopDone Z fr other best, [])
      | _, _ =>
          let v0 := stop_vals fr other best in
          let stop :=
            match best, find_min Z fr, find_min Z other with
            | Some (bp, _), Some a, Some b => negb (Z.ltb (a + b) bp)
            | _, _, _ => false
            end in
          if stop then (LoopDone Z fr other best, v0)
          else
            match fr_poll Z Z.ltb fr with
            | None => (LoopBroken Z, v0)
            | Some (su, fr1) =>
                match fr_dist Z fr1 su with
                | None => (LoopBroken Z, v0)
                | Some du =>
                    if negb (below_limit Z Z.ltb P du) then (LoopLimit Z, v0)
                    else
                      let sc := scan_fold_tr P other su du
                                  (out_edges (sp_g Z P) (vertex_of (nv (sp_g Z P)) su)) (Some (fr1, best)) in
                      match fst sc with
                      | None => (LoopBroken Z, v0 ++ snd sc)
                      | Some (fr2, best') =>
                          let r := bidir_loop_tr fuel' P other fr2 best' in
                          (fst r, v0 ++ snd sc ++ snd r)
                      end
                end
            end
      end
  end.

Fixpoint follow_tr (fuel : nat) (P : sparams Z) (f : frontier Z) (cur : nat) (cyc : list nat) (cw : Z)
  : option (option (list nat * Z)) * list Z :=
  match fuel with
  | O => (None, [])
  | S fuel' =>
      if Nat.eqb cur (f_src Z f) then (Some (Some (cyc, cw)), [])
      else match nth cur (f_pred Z f) None with
           | None => (None, [])
           | Some (p, e) =>
               if memb e cyc then (Some None, [])
               else
                 let cw' := cw + wtof Z 0 (sp_wts Z P) e in
                 let r := follow_tr fuel' P f p (set_insert e cyc) cw' in
                 (fst r, cw' :: snd r)
           end
  end.

Definition search_tail_tr (P : sparams Z) (fr other : frontier Z) (best : option (Z * nat))
  : search_result Z * list Z :=
  let n := nv (sp_g Z P) in
  match best with
  | None => (NotFound Z, [])
  | Some (bp, common) =>
      if negb (below_limit Z Z.ltb P bp) then (NotFound Z, [])
      else
        let r1 := follow_tr (2 * n + 1) P fr common [] 0 in
        match fst r1 with
        | None => (SearchError Z, snd r1)
        | Some None => (NotFound Z, snd r1)
        | Some (Some (cyc1, cw1)) =>
            let r2 := follow_tr (2 * n + 1) P other common cyc1 cw1 in
            (match fst r2 with
             | None => SearchError Z
             | Some None => NotFound Z
             | Some (Some (cyc2, cw2)) => Found Z cyc2 cw2
             end, snd r1 ++ snd r2)
        end
  end.

Definition bidirectional_tr (P : sparams Z) (s : nat) (s_pos : bool) (t : nat) (t_pos : bool)
  : search_result Z * list Z :=
  let n := nv (sp_g Z P) in
  let ss := signed_id n s s_pos in
  let st := signed_id n t t_pos in
  let r := bidir_loop_tr (4 * n + 2) P (fr_init Z 0 n ss) (fr_init Z 0 n st) None in
  match fst r with
  | LoopFuel _ | LoopBroken _ => (SearchError Z, snd r)
  | LoopLimit _ => (NotFound Z, snd r)
  | LoopDone _ fr other best =>
      let r' := search_tail_tr P fr other best in (fst r', snd r ++ snd r')
  end.

(* ---- erasure ------------------------------------------------------------------------------------------ *)

Lemma ov_scan_edge_erase P other su du st ew :
  fst (scan_edge_tr P other su du st ew) = scan_edge Z 0 Z.add Z.ltb P other su du st ew.
Proof.
  unfold scan_edge_tr, scan_edge. destruct st as [[fr best]|]; [|reflexivity]. destruct ew as [e w]. cbv zeta.
  destruct (sp_use_hidden Z P && memb e (sp_hidden Z P)); [reflexivity|].
  destruct (Nat.eqb w (vertex_of (nv (sp_g Z P)) su)); [reflexivity|].
  destruct (negb (below_limit Z Z.ltb P (du + wtof Z 0 (sp_wts Z P) e))); [reflexivity|].
  match goal with |- context [fr_update ?a ?b ?c ?d ?e ?f ?g] => destruct (fr_update a b c d e f g) end; [|reflexivity].
  match goal with |- context [has_finite_dist ?a ?b ?c] => destruct (has_finite_dist a b c) end; [|reflexivity].
  match goal with |- context [fr_dist ?a ?b ?c] => destruct (fr_dist a b c) end; reflexivity.
Qed.

Lemma ov_scan_fold_erase P other su du : forall l st,
  fst (scan_fold_tr P other su du l st) = fold_left (scan_edge Z 0 Z.add Z.ltb P other su du) l st.
Proof.
  induction l as [|ew l IH]; intros st; [reflexivity|].
  cbn [scan_fold_tr fold_left fst]. rewrite IH, ov_scan_edge_erase. reflexivity.
Qed.

Lemma ov_loop_erase P : forall fuel fr other best,
  fst (bidir_loop_tr fuel P fr other best) = bidir_loop Z 0 Z.add Z.ltb fuel P fr other best.
Proof.
  induction fuel as [|fuel IH]; intros fr other best; [reflexivity|].
  cbn [bidir_loop_tr bidir_loop].
  destruct (f_heap Z fr); [reflexivity|]. destruct (f_heap Z other); [reflexivity|]. cbv zeta.
  match goal with |- context [if ?c then _ else _] => destruct c end; [reflexivity|].
  destruct (fr_poll Z Z.ltb fr) as [[su fr1]|]; [|reflexivity].
  destruct (fr_dist Z fr1 su) as [du|]; [|reflexivity].
  destruct (negb (below_limit Z Z.ltb P du)); [reflexivity|].
  rewrite ov_scan_fold_erase.
  match goal with |- context [fold_left ?f ?l ?a] => destruct (fold_left f l a) as [[fr2 best']|] end; [|reflexivity].
  cbn [fst]. apply IH.
Qed.

Lemma ov_follow_erase P f : forall fuel cur cyc cw,
  fst (follow_tr fuel P f cur cyc cw) = follow Z 0 Z.add fuel P f cur cyc cw.
Proof.
  induction fuel as [|fuel IH]; intros cur cyc cw; [reflexivity|].
  cbn [follow_tr follow]. destruct (Nat.eqb cur (f_src Z f)); [reflexivity|].
  destruct (nth cur (f_pred Z f) None) as [[p e]|]; [|reflexivity].
  destruct (memb e cyc); [reflexivity|]. cbv zeta. cbn [fst]. apply IH.
Qed.

Lemma ov_tail_erase P fr other best : fst (search_tail_tr P fr other best) = search_tail P fr other best.
Proof.
  unfold search_tail_tr, search_tail. destruct best as [[bp common]|]; [|reflexivity]. cbv zeta.
  destruct (negb (below_limit Z Z.ltb P bp)); [reflexivity|].
  rewrite ov_follow_erase.
  destruct (follow Z 0 Z.add (2 * nv (sp_g Z P) + 1) P fr common [] 0) as [[[cyc1 cw1]|]|]; try reflexivity.
  cbn [fst]. rewrite ov_follow_erase. reflexivity.
Qed.

Lemma ov_search_erase P s spos t tpos :
  fst (bidirectional_tr P s spos t tpos) = bidirectional_signed_dijkstra Z 0 Z.add Z.ltb P s spos t tpos.
Proof.
  unfold bidirectional_tr. cbv zeta. rewrite ov_loop_erase.
  change (bidirectional_signed_dijkstra Z 0 Z.add Z.ltb P s spos t tpos) with
    (match bidir_loop Z 0 Z.add Z.ltb (4 * nv (sp_g Z P) + 2) P
             (fr_init Z 0 (nv (sp_g Z P)) (signed_id (nv (sp_g Z P)) s spos))
             (fr_init Z 0 (nv (sp_g Z P)) (signed_id (nv (sp_g Z P)) t tpos)) None with
     | LoopFuel _ | LoopBroken _ => SearchError Z
     | LoopLimit _ => NotFound Z
     | LoopDone _ fr other best => search_tail P fr other best
     end).
  match goal with |- context [bidir_loop ?a ?b ?c ?d ?e ?f ?g ?h ?i] => destruct (bidir_loop a b c d e f g h i) end;
    try reflexivity.
  cbn [fst]. apply ov_tail_erase.
Qed.

(* ---- the bounds ---------------------------------------------------------------------------------------- *)

Definition inrange (B v : Z) : Prop := 0 <= v <= B.

Section Trace.
  Variable P : sparams Z.
  Local Notation g := (sp_g Z P).
  Local Notation n := (nv (sp_g Z P)).
  Local Notation wts := (sp_wts Z P).
  Local Notation S := (wsum (sp_g Z P) (sp_wts Z P)).
  Hypothesis Hs : simple_graph g.
  Hypothesis Hpw : positive_weights g wts.
  Variable Wm : Z.
  Hypothesis HWm0 : 0 <= Wm.
  Hypothesis HWm : forall e, (e < ne g)%nat -> wt wts e <= Wm.
  Hypothesis Hlim : forall l, sp_limit Z P = Some l -> l <= S.

  Local Notation finv := (finv P).
  Local Notation B := (2 * S + 2 * Wm).
  Local Notation inB := (inrange (2 * S + 2 * Wm)).

  Definition bestB (best : option (Z * nat)) : Prop := forall bp x, best = Some (bp, x) -> inB bp.

  (* ---- follow: the accumulator runs from cw up to cw + (entry of the start vertex) ---------------- *)

  Lemma ov_follow_tr done s fr : finv done s fr ->
    forall fuel cur d cyc cw, has_entry fr cur -> fdist fr cur = Some d ->
      Forall (fun v => cw <= v <= cw + d) (snd (follow_tr fuel P fr cur cyc cw))
      /\ forall cyc' cw', fst (follow_tr fuel P fr cur cyc cw) = Some (Some (cyc', cw')) -> cw' = cw + d.
  Proof.
    intros H. pose proof (fi_src _ _ _ _ H) as Hsrc.
    induction fuel as [|fuel IH]; intros cur d cyc cw He Ed.
    { cbn [follow_tr snd fst]. split; [constructor|discriminate]. }
    cbn [follow_tr]. rewrite Hsrc.
    destruct (Nat.eqb_spec cur s) as [->|Hne].
    - assert (d = 0) by (pose proof (fi_sdist _ _ _ _ H); congruence). subst d.
      cbn [snd fst]. split; [constructor|]. intros cyc' cw' E. injection E as _ <-. lia.
    - apply bd_has_entry_iff in He as [E|[[p0 e0] Ep]]; [exfalso; apply Hne; rewrite E; exact Hsrc|].
      change (nth cur (f_pred Z fr) None) with (fpredv fr cur). rewrite Ep.
      destruct (fi_pred _ _ _ _ H cur p0 e0 Ep) as (_ & Hst & Hps & dp & Edp & Ed' & _).
      assert (Hd : d = dp + wt wts e0) by congruence.
      pose proof (bd_cstep_wt_pos P Hpw _ _ _ Hst) as Hwe.
      pose proof (bd_entry_nonneg P Hpw done s fr p0 dp H Edp) as Hdp0.
      change (wtof Z 0 wts e0) with (wt wts e0).
      destruct (memb e0 cyc); [cbn [snd fst]; split; [constructor|discriminate]|].
      cbv zeta. cbn [snd fst].
      destruct (IH p0 dp (set_insert e0 cyc) (cw + wt wts e0) (proj1 Hps) Edp) as [IH1 IH2].
      split.
      + constructor; [lia|]. eapply Forall_impl; [|exact IH1]. cbv beta. intros v Hv. lia.
      + intros cyc' cw' E. rewrite (IH2 cyc' cw' E). lia.
  Qed.

  (* ---- one edge of a scan ---------------------------------------------------------------------- *)

  Section Scan.
    Variables (other : frontier Z) (su : nat) (du : Z).
    Hypothesis Hdu : 0 <= du <= 2 * S.
    Hypothesis Hpd : forall e v dw, (e < ne g)%nat -> blim P (du + wt wts e) -> fdist other v = Some dw ->
                       0 <= dw /\ du + wt wts e + dw <= B.

    Lemma ov_scan_edge_tr fr best e w : (e < ne g)%nat -> bestB best ->
      Forall inB (snd (scan_edge_tr P other su du (Some (fr, best)) (e, w)))
      /\ forall fr' best', fst (scan_edge_tr P other su du (Some (fr, best)) (e, w)) = Some (fr', best') ->
           bestB best'.
    Proof.
      intros He Hb. unfold scan_edge_tr. cbv zeta.
      assert (Hsame : forall fr' best', Some (fr, best) = Some (fr', best') -> bestB best').
      { intros fr' best' E. injection E as _ <-. exact Hb. }
      destruct (sp_use_hidden Z P && memb e (sp_hidden Z P)); [cbn [snd fst]; split; [constructor|exact Hsame]|].
      destruct (Nat.eqb w (vertex_of n su)); [cbn [snd fst]; split; [constructor|exact Hsame]|].
      change (wtof Z 0 wts e) with (wt wts e).
      pose proof (HWm e He) as Hwe. pose proof (bd_wt_pos g wts e Hpw He) as Hwe0.
      assert (Hc : inB (du + wt wts e)) by (unfold inrange; lia).
      destruct (below_limit Z Z.ltb P (du + wt wts e)) eqn:Ebl; cbn [negb].
      2:{ cbn [snd fst]. split; [constructor; [exact Hc|constructor]|exact Hsame]. }
      match goal with |- context [fr_update ?a ?b ?c ?d ?e ?f ?g] => destruct (fr_update a b c d e f g) as [fr'|] end.
      2:{ cbn [snd fst]. split; [constructor; [exact Hc|constructor]|discriminate]. }
      match goal with |- context [has_finite_dist ?a ?b ?c] => destruct (has_finite_dist a b c) end.
      2:{ cbn [snd fst]. split; [constructor; [exact Hc|constructor]|].
          intros fr'' best' E. injection E as _ <-. exact Hb. }
      match goal with |- context [fr_dist ?a ?b ?c] => destruct (fr_dist a b c) as [dw|] eqn:Edw end.
      2:{ cbn [snd fst]. split; [constructor; [exact Hc|constructor]|discriminate]. }
      destruct (Hpd e _ dw He Ebl Edw) as [Hdw0 Hdw].
      assert (Hpdv : inB (du + wt wts e + dw)) by (unfold inrange; lia).
      cbn [snd fst]. split; [constructor; [exact Hc|constructor; [exact Hpdv|constructor]]|].
      assert (Hnew : forall sw, bestB (Some (du + wt wts e + dw, sw))).
      { intros sw bp x E. injection E as <- _. exact Hpdv. }
      intros fr'' best' E. destruct best as [[bp bc]|].
      - destruct (Z.ltb (du + wt wts e + dw) bp); injection E as _ <-; [apply Hnew|exact Hb].
      - injection E as _ <-. apply Hnew.
    Qed.

    Lemma ov_scan_fold_tr : forall l st,
      (forall e w, In (e, w) l -> (e < ne g)%nat) ->
      (forall fr best, st = Some (fr, best) -> bestB best) ->
      Forall inB (snd (scan_fold_tr P other su du l st))
      /\ forall fr' best', fst (scan_fold_tr P other su du l st) = Some (fr', best') -> bestB best'.
    Proof.
      induction l as [|[e w] l IH]; intros st Hl Hst.
      - cbn [scan_fold_tr snd fst]. split; [constructor|]. intros fr' best' E. eapply Hst. exact E.
      - cbn [scan_fold_tr snd fst].
        assert (H1 : Forall inB (snd (scan_edge_tr P other su du st (e, w)))
                     /\ forall fr' best', fst (scan_edge_tr P other su du st (e, w)) = Some (fr', best') ->
                          bestB best').
        { destruct st as [[fr best]|].
          - apply ov_scan_edge_tr; [apply (Hl e w); left; reflexivity|eapply Hst; reflexivity].
          - cbn [scan_edge_tr snd fst]. split; [constructor|discriminate]. }
        destruct H1 as [Hv1 Hb1].
        destruct (IH (fst (scan_edge_tr P other su du st (e, w)))
                    (fun e' w' Hin => Hl e' w' (or_intror Hin)) Hb1) as [Hv2 Hb2].
        split; [apply Forall_app; split; assumption|exact Hb2].
    Qed.
  End Scan.

  (* ---- the loop ------------------------------------------------------------------------------------ *)

  Local Notation Jtops := (Jtops P Wm).

  Lemma ov_find_min_nonempty done s fr : finv done s fr -> f_heap Z fr <> [] -> exists ta, find_min Z fr = Some ta.
  Proof.
    intros H Hne. destruct (f_heap Z fr) as [|u r] eqn:E; [exfalso; apply Hne; first [exact E|reflexivity]|].
    assert (Hu : In u (f_heap Z fr)) by (rewrite E; left; reflexivity).
    destruct (bd_entry_dist P _ s fr u H (fi_heap_entry _ _ _ _ H u Hu)) as (d & Ed & _).
    exists d. unfold find_min. rewrite E. cbn [heap_top hd_error]. exact Ed.
  Qed.

  Lemma ov_loop_tr : forall fuel a b fr other best,
    binv P a b fr other best -> Jtops fr other -> bestB best ->
    Forall inB (snd (bidir_loop_tr fuel P fr other best))
    /\ forall fr' other' best', fst (bidir_loop_tr fuel P fr other best) = LoopDone Z fr' other' best' ->
         bestB best'.
  Proof.
    induction fuel as [|fuel IH]; intros a b fr other best H HJ Hb.
    { cbn [bidir_loop_tr snd fst]. split; [constructor|discriminate]. }
    cbn [bidir_loop_tr].
    assert (Hdone : forall v0 : list Z, Forall inB v0 ->
              Forall inB (snd (LoopDone Z fr other best, v0))
              /\ forall fr' other' best', fst (LoopDone Z fr other best, v0) = LoopDone Z fr' other' best' ->
                   bestB best').
    { intros v0 Hv0. cbn [snd fst]. split; [exact Hv0|]. intros fr' other' best' E. injection E as _ _ <-. exact Hb. }
    destruct (f_heap Z fr) as [|hx hr] eqn:Ehf; [apply Hdone; constructor|].
    destruct (f_heap Z other) as [|ox or] eqn:Eho; [apply Hdone; constructor|].
    cbv zeta.
    pose proof (bi_f _ _ _ _ _ _ H) as Hf. pose proof (bi_o _ _ _ _ _ _ H) as Ho.
    assert (Hnef : f_heap Z fr <> []) by (rewrite Ehf; discriminate).
    assert (Hneo : f_heap Z other <> []) by (rewrite Eho; discriminate).
    destruct (ov_find_min_nonempty _ a fr Hf Hnef) as (ta & Eta).
    destruct (ov_find_min_nonempty _ b other Ho Hneo) as (tb & Etb).
    (* the value of the stop test *)
    assert (Hv0 : Forall inB (stop_vals fr other best)).
    { unfold stop_vals. rewrite Eta, Etb. destruct best as [[bp bx]|]; [|constructor].
      constructor; [|constructor].
      destruct (ov_find_min_entry fr ta Eta) as (va & _ & _ & Eva).
      destruct (ov_find_min_entry other tb Etb) as (vb & _ & _ & Evb).
      pose proof (bd_entry_nonneg P Hpw _ a fr va ta Hf Eva).
      pose proof (bd_entry_nonneg P Hpw _ b other vb tb Ho Evb).
      pose proof (HJ ta tb Eta Etb). unfold inrange. lia. }
    match goal with |- context [if ?c then _ else _] => destruct c eqn:Estop end; [apply Hdone; exact Hv0|].
    assert (Hgo : forall bp x ta' tb', best = Some (bp, x) -> find_min Z fr = Some ta' -> find_min Z other = Some tb' ->
                    ta' + tb' < bp).
    { intros bp x ta' tb' -> E1 E2. rewrite E1, E2 in Estop. apply negb_false_iff, Z.ltb_lt in Estop. exact Estop. }
    destruct (fr_poll Z Z.ltb fr) as [[su fr1]|] eqn:Epoll.
    2:{ cbn [snd fst]. split; [exact Hv0|discriminate]. }
    destruct (ov_iter P Hs Hpw Wm HWm0 HWm Hlim a b fr other best su fr1 H Hneo Hgo Epoll)
      as (du & Edu & Hdub & Hpd & Hnext).
    change (fr_dist Z fr1 su) with (fdist fr1 su). rewrite Edu.
    destruct (below_limit Z Z.ltb P du) eqn:Ebl; cbn [negb].
    2:{ cbn [snd fst]. split; [exact Hv0|discriminate]. }
    destruct (Hnext Ebl) as (fr2 & best' & Efold & H2 & HJ2).
    destruct (ov_scan_fold_tr other su du Hdub Hpd (out_edges g (vertex_of n su)) (Some (fr1, best)))
      as [Hv1 Hb1].
    { intros e w Hin. apply gl_out_edges_joins in Hin. eapply gl_joins_lt. exact Hin. }
    { intros fr0 best0 E. injection E as _ <-. exact Hb. }
    rewrite ov_scan_fold_erase in *. rewrite Efold in *.
    specialize (Hb1 fr2 best' eq_refl).
    destruct (IH b a other fr2 best' H2 HJ2 Hb1) as [Hv2 Hb2].
    cbn [snd fst]. split; [|exact Hb2].
    apply Forall_app; split; [exact Hv0|]. apply Forall_app; split; [exact Hv1|exact Hv2].
  Qed.

  (* ---- the whole search ------------------------------------------------------------------------- *)

  Lemma ov_tail_tr a b fr other best : binv P a b fr other best -> bestB best ->
    Forall inB (snd (search_tail_tr P fr other best)).
  Proof.
    intros H Hb. unfold search_tail_tr. cbv zeta.
    destruct best as [[bp x]|]; [|constructor].
    destruct (negb (below_limit Z Z.ltb P bp)); [constructor|].
    pose proof (bi_f _ _ _ _ _ _ H) as Hf. pose proof (bi_o _ _ _ _ _ _ H) as Ho.
    destruct (bi_best _ _ _ _ _ _ H bp x eq_refl) as (df & db & Edf & Edb & Hsum).
    pose proof (bd_dist_entry P _ a fr x df Hf Edf) as Hefx.
    pose proof (bd_dist_entry P _ b other x db Ho Edb) as Heox.
    pose proof (bd_entry_nonneg P Hpw _ a fr x df Hf Edf) as Hdf0.
    pose proof (bd_entry_nonneg P Hpw _ b other x db Ho Edb) as Hdb0.
    destruct (Hb bp x eq_refl) as [_ Hbp].
    destruct (ov_follow_tr _ a fr Hf (2 * n + 1)%nat x df [] 0 Hefx Edf) as [Hv1 Hr1].
    assert (Hv1' : Forall inB (snd (follow_tr (2 * n + 1) P fr x [] 0))).
    { eapply Forall_impl; [|exact Hv1]. cbv beta. intros v Hv. unfold inrange. lia. }
    destruct (fst (follow_tr (2 * n + 1) P fr x [] 0)) as [[[cyc1 cw1]|]|] eqn:E1; cbn [snd]; try exact Hv1'.
    specialize (Hr1 cyc1 cw1 eq_refl). subst cw1.
    destruct (ov_follow_tr _ b other Ho (2 * n + 1)%nat x db cyc1 (0 + df) Heox Edb) as [Hv2 _].
    apply Forall_app; split; [exact Hv1'|].
    eapply Forall_impl; [|exact Hv2]. cbv beta. intros v Hv. unfold inrange. lia.
  Qed.

  Theorem ov_search_tr s spos t tpos : (s < n)%nat -> (t < n)%nat ->
    signed_id n s spos <> signed_id n t tpos ->
    Forall inB (snd (bidirectional_tr P s spos t tpos)).
  Proof.
    intros Hsn Htn Hne. unfold bidirectional_tr. cbv zeta.
    set (ss := signed_id n s spos) in *. set (st := signed_id n t tpos) in *.
    assert (Hss : (ss < 2 * n)%nat) by (apply bd_signed_id_lt; exact Hsn).
    assert (Hst : (st < 2 * n)%nat) by (apply bd_signed_id_lt; exact Htn).
    pose proof (bd_binv_init P ss st Hss Hst Hne) as Hinit.
    destruct (ov_loop_tr (4 * n + 2) ss st _ _ None Hinit (ov_Jtops_init P Hpw Wm HWm0 ss st Hss Hst))
      as [Hv Hb].
    { intros bp x E. discriminate. }
    pose proof (bd_loop P Hs Hpw (4 * n + 2) ss st _ _ None Hinit) as Hl.
    assert (Hfuel : (ucount (2 * n) (fr_init Z 0%Z n ss) + ucount (2 * n) (fr_init Z 0%Z n st) < 4 * n + 2)%nat).
    { pose proof (bd_ucount_le P (fr_init Z 0%Z n ss)). pose proof (bd_ucount_le P (fr_init Z 0%Z n st)). lia. }
    specialize (Hl Hfuel). rewrite <- ov_loop_erase in Hl.
    destruct (fst (bidir_loop_tr (4 * n + 2) P (fr_init Z 0 n ss) (fr_init Z 0 n st) None))
      as [fr other best| | |] eqn:El; cbn [snd]; try exact Hv.
    apply Forall_app; split; [exact Hv|].
    specialize (Hb fr other best eq_refl).
    destruct Hl as [[Hbi|Hbi] _]; eapply ov_tail_tr; eassumption.
  Qed.

End Trace.
