(* IsoProofsR.v — "rotation or reversed rotation" (iso_rot_of, IsoProofs0.v) is an equivalence on closed walks
   that preserves being a simple cycle (iso_cycle_walk).

   isor_rotn g x w y v    (y, v) is the plain rotation of the closed walk (x, w): w = w1 ++ w2, w1 from x to y,
                          v = w2 ++ w1.
   Facts on plain rotations: reflexive, symmetric, transitive (app_eq_app), commutes with reversal
   (isor_rotn_rev: the reversed rotation is the rotation of the reversed walk).  iso_rot_of is "a plain rotation,
   possibly followed by the reversal" (isor_rot_of_iff), and the group structure follows.  Prefix isor_. *)
From Coq Require Import List Arith Bool Lia ZArith Permutation.
From Parmcb Require Import GraphModel GF2Model GraphSpec GraphLemmas LexSPModel LexSPProofs LexSPProofsDist
     LexSPProofsCons1 LexSPProofsCons2 RefProofs1 IsoProofs0.
Import ListNotations.

Definition isor_rotn (g : graph) (x : nat) (w : list (nat * nat)) (y : nat) (v : list (nat * nat)) : Prop :=
  exists w1 w2, w = w1 ++ w2 /\ walk g x w1 y /\ v = w2 ++ w1.

Section Rot.
  Variable g : graph.
  Hypothesis Hsg : simple_graph g.

  (* ---------- plain rotations ---------- *)

  (* the two halves of a split closed walk *)
  Lemma isor_split x w1 w2 y : walk g x (w1 ++ w2) x -> walk g x w1 y -> walk g y w2 x.
  Proof.
    intros Hw H1. destruct (lc_walk_app_inv g Hsg w1 w2 x x Hw) as [y' [H1' H2]].
    rewrite (lc_walk_end_fun g w1 x y y' H1 H1'). exact H2.
  Qed.

  Lemma isor_rotn_refl x w : walk g x w x -> isor_rotn g x w x w.
  Proof.
    intros Hw. exists [], w. split; [reflexivity|]. split.
    - constructor. eapply gl_walk_start_lt; eauto.
    - rewrite app_nil_r. reflexivity.
  Qed.

  Lemma isor_rotn_walk x w y v : walk g x w x -> isor_rotn g x w y v -> walk g y v y.
  Proof.
    intros Hw (w1 & w2 & -> & H1 & ->).
    eapply gl_walk_app; [eapply isor_split; eauto|exact H1].
  Qed.

  Lemma isor_rotn_sym x w y v : walk g x w x -> isor_rotn g x w y v -> isor_rotn g y v x w.
  Proof.
    intros Hw (w1 & w2 & -> & H1 & ->).
    exists w2, w1. split; [reflexivity|]. split; [eapply isor_split; eauto|reflexivity].
  Qed.

  (* (1) a rotation of a rotation is a rotation *)
  Lemma isor_rotn_trans x w y v z u : walk g x w x -> isor_rotn g x w y v -> isor_rotn g y v z u ->
    isor_rotn g x w z u.
  Proof.
    intros Hw (w1 & w2 & -> & H1 & ->) (v1 & v2 & Heq & Hv1 & ->).
    pose proof (isor_split x w1 w2 y Hw H1) as H2.
    destruct (app_eq_app _ _ _ _ Heq) as [l [[E1 E2]|[E1 E2]]].
    - (* w2 = v1 ++ l, v2 = l ++ w1 *)
      subst w2 v2. exists (w1 ++ v1), l. split; [rewrite app_assoc; reflexivity|]. split.
      + eapply gl_walk_app; eauto.
      + rewrite <- !app_assoc. reflexivity.
    - (* v1 = w2 ++ l, w1 = l ++ v2 *)
      subst v1 w1. exists l, (v2 ++ w2). split; [rewrite <- app_assoc; reflexivity|]. split.
      + destruct (lc_walk_app_inv g Hsg w2 l y z Hv1) as [x' [H2' Hl]].
        rewrite (lc_walk_end_fun g w2 y x x' H2 H2'). exact Hl.
      + rewrite <- !app_assoc. reflexivity.
  Qed.

  (* (3) the reverse of a rotation is the rotation of the reverse *)
  Lemma isor_rotn_rev x w y v : walk g x w x -> isor_rotn g x w y v ->
    isor_rotn g x (lc_rev x w) y (lc_rev y v).
  Proof.
    intros Hw (w1 & w2 & -> & H1 & ->).
    pose proof (isor_split x w1 w2 y Hw H1) as H2.
    exists (lc_rev y w2), (lc_rev x w1). split; [|split].
    - eapply iso_rev_app; eauto.
    - apply (lc_rev_walk g Hsg). exact H2.
    - eapply iso_rev_app; eauto.
  Qed.

  Lemma isor_rot_of_iff x w y w' :
    iso_rot_of g x w y w' <-> exists v, isor_rotn g x w y v /\ (w' = v \/ w' = lc_rev y v).
  Proof.
    split.
    - intros (w1 & w2 & E & H1 & Hor). exists (w2 ++ w1). split; [|exact Hor].
      exists w1, w2. auto.
    - intros (v & (w1 & w2 & E & H1 & ->) & Hor). exists w1, w2. auto.
  Qed.

  (* ---------- the requested statements ---------- *)

  Lemma isor_refl x w : walk g x w x -> iso_rot_of g x w x w.
  Proof.
    intros Hw. apply isor_rot_of_iff. exists w. split; [apply isor_rotn_refl; exact Hw|left; reflexivity].
  Qed.

  Lemma isor_rev x w : walk g x w x -> iso_rot_of g x w x (lc_rev x w).
  Proof.
    intros Hw. apply isor_rot_of_iff. exists w. split; [apply isor_rotn_refl; exact Hw|right; reflexivity].
  Qed.

  Lemma isor_walk x w y w' : walk g x w x -> iso_rot_of g x w y w' -> walk g y w' y.
  Proof.
    intros Hw Hr. apply isor_rot_of_iff in Hr. destruct Hr as (v & Hv & Hor).
    pose proof (isor_rotn_walk x w y v Hw Hv) as Hvw.
    destruct Hor as [->| ->]; [exact Hvw|]. apply (lc_rev_walk g Hsg). exact Hvw.
  Qed.

  Lemma isor_sym x w y w' : walk g x w x -> iso_rot_of g x w y w' -> iso_rot_of g y w' x w.
  Proof.
    intros Hw Hr. apply isor_rot_of_iff in Hr. destruct Hr as (v & Hv & Hor).
    pose proof (isor_rotn_walk x w y v Hw Hv) as Hvw.
    pose proof (isor_rotn_sym x w y v Hw Hv) as Hs.
    apply isor_rot_of_iff. destruct Hor as [->| ->].
    - exists w. split; [exact Hs|left; reflexivity].
    - exists (lc_rev x w). split; [apply isor_rotn_rev; assumption|].
      right. symmetry. apply (lc_rev_invol g Hsg w x x Hw).
  Qed.

  Lemma isor_trans x w y w' z w'' : walk g x w x -> iso_rot_of g x w y w' -> iso_rot_of g y w' z w'' ->
    iso_rot_of g x w z w''.
  Proof.
    intros Hw Hr Hr'. apply isor_rot_of_iff in Hr. destruct Hr as (v & Hv & Hor).
    apply isor_rot_of_iff in Hr'. destruct Hr' as (u & Hu & Hor').
    pose proof (isor_rotn_walk x w y v Hw Hv) as Hvw.
    apply isor_rot_of_iff. destruct Hor as [->| ->].
    - exists u. split; [eapply isor_rotn_trans; eauto|exact Hor'].
    - pose proof (lc_rev_walk g Hsg v y y Hvw) as Hrw.
      pose proof (isor_rotn_walk y (lc_rev y v) z u Hrw Hu) as Huw.
      pose proof (isor_rotn_rev y (lc_rev y v) z u Hrw Hu) as Hu'.
      rewrite (lc_rev_invol g Hsg v y y Hvw) in Hu'.
      exists (lc_rev z u). split; [eapply isor_rotn_trans; eauto|].
      destruct Hor' as [->| ->]; [right|left; reflexivity].
      symmetry. apply (lc_rev_invol g Hsg u z z Huw).
  Qed.

  (* ---------- permutations ---------- *)

  Lemma isor_rev_wverts : forall p x z, walk g x p z -> z :: wverts (lc_rev x p) = rev (x :: wverts p).
  Proof.
    induction p as [|[e a] p IH]; intros x z Hp.
    - inversion Hp; subst. reflexivity.
    - inversion Hp as [|? ? ? ? ? Hj Hp']; subst. cbn [lc_rev].
      rewrite lc_wverts_app, app_comm_cons, (IH a z Hp'). reflexivity.
  Qed.

  (* the vertices of a reversed CLOSED walk *)
  Lemma isor_rev_wverts_perm y v : walk g y v y -> Permutation (wverts (lc_rev y v)) (wverts v).
  Proof.
    intros Hv. pose proof (isor_rev_wverts v y y Hv) as E. revert Hv E.
    induction v as [|[e a] v' _] using rev_ind; intros Hv E.
    - apply Permutation_refl.
    - pose proof (rf_walk_last g v' y e a y Hv) as Ey. subst a.
      rewrite lc_wverts_app in E |- *. cbn [wverts map snd] in E |- *.
      rewrite app_comm_cons, rev_app_distr in E. cbn [rev app] in E.
      injection E as E. rewrite E.
      apply Permutation_app_tail. apply Permutation_sym, Permutation_rev.
  Qed.

  Lemma isor_perm x w y w' : walk g x w x -> iso_rot_of g x w y w' ->
    Permutation (wedges w') (wedges w) /\ Permutation (wverts w') (wverts w) /\ length w' = length w.
  Proof.
    intros Hw Hr. apply isor_rot_of_iff in Hr. destruct Hr as (v & Hv & Hor).
    pose proof (isor_rotn_walk x w y v Hw Hv) as Hvw.
    assert (Hpv : Permutation (wedges v) (wedges w) /\ Permutation (wverts v) (wverts w) /\ length v = length w).
    { destruct Hv as (w1 & w2 & -> & H1 & ->).
      rewrite !lc_wedges_app, !lc_wverts_app, !app_length.
      split; [apply Permutation_app_comm|]. split; [apply Permutation_app_comm|lia]. }
    destruct Hpv as (Pe & Pv & Pl). destruct Hor as [->| ->]; [auto|].
    split; [|split].
    - rewrite lc_rev_wedges. eapply Permutation_trans; [apply Permutation_sym, Permutation_rev|exact Pe].
    - eapply Permutation_trans; [apply isor_rev_wverts_perm; exact Hvw|exact Pv].
    - rewrite lc_rev_length. exact Pl.
  Qed.

  Lemma isor_cycle_walk x w y w' : iso_cycle_walk g x w -> iso_rot_of g x w y w' -> iso_cycle_walk g y w'.
  Proof.
    intros (Hw & Nv & Ne & Hnn) Hr.
    destruct (isor_perm x w y w' Hw Hr) as (Pe & Pv & Pl).
    split; [eapply isor_walk; eauto|]. split; [|split].
    - eapply Permutation_NoDup; [apply Permutation_sym; exact Pv|exact Nv].
    - eapply Permutation_NoDup; [apply Permutation_sym; exact Pe|exact Ne].
    - intros ->. destruct w as [|s w]; [apply Hnn; reflexivity|discriminate Pl].
  Qed.

  (* ---------- explicit forms ---------- *)

  Lemma isor_rot x w1 w2 y : walk g x (w1 ++ w2) x -> walk g x w1 y ->
    iso_rot_of g x (w1 ++ w2) y (w2 ++ w1).
  Proof. intros _ H1. exists w1, w2. auto. Qed.

  Lemma isor_rot_rev x w1 w2 y : walk g x (w1 ++ w2) x -> walk g x w1 y ->
    iso_rot_of g x (w1 ++ w2) y (lc_rev y (w2 ++ w1)).
  Proof. intros _ H1. exists w1, w2. auto. Qed.

End Rot.

Print Assumptions isor_trans.
Print Assumptions isor_cycle_walk.
