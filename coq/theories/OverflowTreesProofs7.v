(* OverflowTreesProofs7.v — C07, clause "overflows a signed integer", part 7: the TBB flavour of the approximate
   algorithms (ApproxParModel.v): NonSpannerEdgesCycleBuilder<.., .., true> and approx_mcb_sva_signed_tbb.
   S = wsum g w, wmax = largest weight of the caller's graph.
     ovt_tbb_fill_tr      the parallel_for, every schedule tree and both push permutations: the per-edge sums are those of the
                          sequential builder ([0, S + wmax]); every pushed weight lies in [0, S]
     ovt_tbb_sum_tr       the parallel_reduce over cycles_weights (std::accumulate per chunk from the running value, std::plus
                          as join, identity 0), every schedule tree: every partial sum lies between 0 and the returned total
     ovt_tbb_builder_tr   the builder
     ovt_overflow_approx_signed_tbb   approx_mcb_sva_signed_tbb, premise-free: every sum in [0, 2S + 2wmax] or [0, total];
                          total = weight of the emitted family <= N * S; (m + 4) * S <= M keeps every sum in [0, M]
   No axioms. *)
From Coq Require Import List Arith Bool ZArith Lia Permutation.
From Parmcb Require Import GraphModel GF2Model GraphSpec GraphLemmas McbSpec ForestModel SvaModel SpannerModel SpannerProofs
     SignedModel SignedZModel DijkstraModel ApproxModel SchedModel SchedProofs ParSignedModel ApproxParModel
     ApproxProofs ApproxProofsRun ApproxProofsEdge ApproxParProofs2 RefProofs1 OverflowProofs1 OverflowProofs3 OverflowProofs4
     OverflowTreesModel OverflowTreesProofs1 OverflowTreesProofs2 OverflowTreesProofs5 OverflowTreesProofs6.
Import ListNotations.

Local Open Scope Z_scope.

(* ---- the reduction over the weights --------------------------------------------------------------------------------- *)

Section Sum.
  Variable ws : list Z.
  Hypothesis Hws : forall x, In x ws -> 0 <= x.

  Lemma ovt_sum_chunk_none : forall is, fst (run_chunk_tr (option Z) (sum_step_tr ws) is None) = None.
  Proof. induction is as [|i is IH]; [reflexivity|]. cbn [run_chunk_tr fst]. exact IH. Qed.

  Lemma ovt_sum_eval_none : forall t lo, fst (tbb_sum_eval_tr ws t lo None) = None.
  Proof.
    induction t as [len|rf a IHa b IHb|rf a IHa b IHb]; intros lo; cbn [tbb_sum_eval_tr].
    - apply ovt_sum_chunk_none.
    - cbn [fst]. rewrite IHa. apply IHb.
    - rewrite IHa. reflexivity.
  Qed.

  Lemma ovt_sum_chunk_tr : forall is a T, 0 <= a ->
    fst (run_chunk_tr (option Z) (sum_step_tr ws) is (Some a)) = Some T ->
    a <= T /\ Forall (fun v => 0 <= v <= T) (snd (run_chunk_tr (option Z) (sum_step_tr ws) is (Some a))).
  Proof.
    induction is as [|i is IH]; intros a T Ha E; cbn [run_chunk_tr fst snd] in E |- *.
    - injection E as <-. split; [lia|constructor].
    - assert (Hstep : sum_step_tr ws i (Some a)
                      = match nth_error ws i with Some x => (Some (a + x), [a + x]) | None => (None, []) end) by reflexivity.
      rewrite Hstep in E |- *. clear Hstep.
      destruct (nth_error ws i) as [x|] eqn:Ex; cbn [fst snd app] in E |- *.
      + pose proof (Hws x (nth_error_In _ _ Ex)) as Hx. destruct (IH (a + x) T ltac:(lia) E) as [H1 H2].
        split; [lia|]. constructor; [lia|exact H2].
      + rewrite ovt_sum_chunk_none in E. discriminate.
  Qed.

  Lemma ovt_sum_eval_tr : forall t lo a T, 0 <= a -> fst (tbb_sum_eval_tr ws t lo (Some a)) = Some T ->
    a <= T /\ Forall (fun v => 0 <= v <= T) (snd (tbb_sum_eval_tr ws t lo (Some a))).
  Proof.
    induction t as [len|rf x IHx y IHy|rf x IHx y IHy]; intros lo a T Ha E; cbn [tbb_sum_eval_tr] in E |- *.
    - apply ovt_sum_chunk_tr; assumption.
    - cbn [fst snd] in E |- *.
      destruct (fst (tbb_sum_eval_tr ws x lo (Some a))) as [T1|] eqn:E1.
      2:{ rewrite ovt_sum_eval_none in E. discriminate. }
      destruct (IHx lo a T1 Ha E1) as [H1 H2]. destruct (IHy (lo + size x)%nat T1 T ltac:(lia) E) as [H3 H4].
      split; [lia|]. apply Forall_app. split; [|exact H4].
      eapply Forall_impl; [|exact H2]. cbv beta. intros v Hv. lia.
    - destruct (fst (tbb_sum_eval_tr ws x lo (Some a))) as [T1|] eqn:E1; [|discriminate].
      destruct (fst (tbb_sum_eval_tr ws y (lo + size x) (Some 0))) as [T2|] eqn:E2; [|discriminate].
      cbn [fst snd] in E |- *. injection E as <-.
      destruct (IHx lo a T1 Ha E1) as [H1 H2]. destruct (IHy (lo + size x)%nat 0 T2 ltac:(lia) E2) as [H3 H4].
      split; [lia|]. apply Forall_app. split; [eapply Forall_impl; [|exact H2]; cbv beta; intros v Hv; lia|].
      apply Forall_app. split; [eapply Forall_impl; [|exact H4]; cbv beta; intros v Hv; lia|].
      constructor; [lia|constructor].
  Qed.

  Lemma ovt_tbb_sum_tr t2 T : fst (tbb_sum_tr t2 ws) = Some T ->
    0 <= T /\ Forall (fun v => 0 <= v <= T) (snd (tbb_sum_tr t2 ws)).
  Proof. intros E. apply (ovt_sum_eval_tr t2 0%nat 0 T); [lia|exact E]. Qed.
End Sum.

(* ---- the parallel_for ---------------------------------------------------------------------------------------------- *)

Section Fill.
  Variable g : graph.
  Hypothesis Hg : simple_graph g.
  Variable w : list Z.
  Hypothesis Hpw : positive_weights g w.
  Variable sp : spanner.
  Hypothesis Hsub : sp_sub g sp.
  Hypothesis HP : Permutation (retained sp ++ dropped sp) (seq 0 (ne g)).
  Hypothesis Hpath : forall e u v, In e (dropped sp) -> ends g e = Some (u, v) ->
    exists p, walk g u p v /\ incl (wedges p) (retained sp).

  Local Notation S := (wsum g w).
  Local Notation inS := (inrange (wsum g w)).
  Local Notation inSW := (inrange (wsum g w + wmax w)).

  Definition ovt_good_cv (st : cv_state) : Prop :=
    match st with inr (_, weights) => Forall inS weights | inl _ => True end.

  Lemma ovt_tbb_iter_tr i st : ovt_good_cv st ->
    Forall inSW (snd (tbb_iter_tr g w sp (dropped sp) i st)) /\ ovt_good_cv (fst (tbb_iter_tr g w sp (dropped sp) i st)).
  Proof.
    intros Hst. unfold tbb_iter_tr. destruct st as [err|[cycles weights]]; [split; [constructor|exact I]|].
    destruct (nth_error (dropped sp) i) as [e|] eqn:Ee; [|split; [constructor|exact I]]. cbv zeta. cbn [fst snd].
    destruct (fst (dropped_cycle_tr g w sp e)) as [err|[cyc cw]] eqn:E1.
    - (* an error value of the per-edge model cannot occur on a dropped edge (ApproxProofsEdge.ap_dropped_cycle_total) *)
      exfalso. assert (He : In e (dropped sp)) by (eapply nth_error_In; exact Ee).
      destruct (ApproxProofsEdge.ap_dropped_cycle_total g Hg sp Hsub HP w (proj1 Hpw) (proj2 Hpw) e Hpath He) as (cyc & cw & Hok).
      rewrite ovt_dropped_cycle_erase, Hok in E1. discriminate.
    - assert (He : In e (dropped sp)) by (eapply nth_error_In; exact Ee).
      destruct (ovt_dropped_cycle_tr g Hg w Hpw sp Hsub HP Hpath e cyc cw He E1) as (Hv & Hcw & _).
      split; [exact Hv|]. cbn [ovt_good_cv] in Hst |- *. apply Forall_app. split; [exact Hst|constructor; [exact Hcw|constructor]].
  Qed.

  Lemma ovt_tbb_chunk_tr : forall is st, ovt_good_cv st ->
    Forall inSW (snd (run_chunk_tr cv_state (tbb_iter_tr g w sp (dropped sp)) is st))
    /\ ovt_good_cv (fst (run_chunk_tr cv_state (tbb_iter_tr g w sp (dropped sp)) is st)).
  Proof.
    intros is st Hst.
    revert st Hst. induction is as [|i is IH]; intros st Hst; cbn [run_chunk_tr fst snd]; [split; [constructor|exact Hst]|].
    destruct (ovt_tbb_iter_tr i st Hst) as [H1 H2]. destruct (IH _ H2) as [H3 H4].
    split; [apply Forall_app; split; assumption|exact H4].
  Qed.

  Lemma ovt_tbb_chunks_tr : forall cs st, ovt_good_cv st ->
    Forall inSW (snd (tbb_chunks_tr g w sp (dropped sp) cs st)) /\ ovt_good_cv (fst (tbb_chunks_tr g w sp (dropped sp) cs st)).
  Proof.
    induction cs as [|c cs IH]; intros st Hst; cbn [tbb_chunks_tr fst snd]; [split; [constructor|exact Hst]|].
    destruct (ovt_tbb_chunk_tr (seq (fst c) (snd c)) st Hst) as [H1 H2]. destruct (IH _ H2) as [H3 H4].
    split; [apply Forall_app; split; assumption|exact H4].
  Qed.

  Lemma ovt_shuffle_gen_Forall (P : Z -> Prop) perm E : P 0 -> Forall P E -> Forall P (shuffle_gen 0 perm E).
  Proof.
    intros H0 HE. unfold shuffle_gen. destruct (valid_perm perm (length E)); [|exact HE].
    apply Forall_forall. intros x Hx. apply in_map_iff in Hx as (p & <- & _).
    destruct (nth_in_or_default p E 0) as [Hin|Ed]; [|rewrite Ed; exact H0]. rewrite Forall_forall in HE. apply HE. exact Hin.
  Qed.

  Lemma ovt_tbb_fill_tr t1 perm_c perm_w :
    Forall inSW (snd (tbb_fill_tr g w sp (dropped sp) t1 perm_c perm_w))
    /\ ovt_good_cv (fst (tbb_fill_tr g w sp (dropped sp) t1 perm_c perm_w)).
  Proof.
    unfold tbb_fill_tr. cbv zeta. cbn [fst snd].
    destruct (ovt_tbb_chunks_tr (chunks_of t1 0) (inr ([], []))) as [H1 H2]; [constructor|].
    split; [exact H1|].
    destruct (fst (tbb_chunks_tr g w sp (dropped sp) (chunks_of t1 0) (inr ([], [])))) as [err|[cycles weights]]; [exact I|].
    cbn [ovt_good_cv] in H2 |- *. apply ovt_shuffle_gen_Forall; [|exact H2].
    unfold inrange. pose proof (ov_wsum_nonneg g w Hpw). lia.
  Qed.

  Lemma ovt_tbb_builder_tr bits pos perm_c perm_w :
    forall dcs dw p, fst (tbb_builder_tr bits g w sp pos perm_c perm_w) = (inr (dcs, dw), p) ->
    0 <= dw /\ Forall (fun v => inSW v \/ 0 <= v <= dw) (snd (tbb_builder_tr bits g w sp pos perm_c perm_w)).
  Proof.
    intros dcs dw p. unfold tbb_builder_tr. cbv zeta.
    destruct (sched_of_bits bits pos (length (dropped sp))) as [t1 pos1].
    destruct (ovt_tbb_fill_tr t1 perm_c perm_w) as [H1 H2].
    destruct (fst (tbb_fill_tr g w sp (dropped sp) t1 perm_c perm_w)) as [err|[cycles weights]]; [discriminate|].
    destruct (sched_of_bits bits pos1 (length weights)) as [t2 pos2].
    cbn [ovt_good_cv] in H2.
    destruct (fst (tbb_sum_tr t2 weights)) as [T|] eqn:Es; [|discriminate]. cbn [fst snd]. intros E. injection E as _ <- _.
    destruct (ovt_tbb_sum_tr weights (fun x Hx => proj1 (proj1 (Forall_forall _ _) H2 x Hx)) t2 T Es) as [H3 H4].
    split; [exact H3|]. apply Forall_app. split.
    - eapply Forall_impl; [|exact H1]. cbv beta. intros v Hv. left. exact Hv.
    - eapply Forall_impl; [|exact H4]. cbv beta. intros v Hv. right. exact Hv.
  Qed.
End Fill.

(* ---- approx_mcb_sva_signed_tbb, premise-free -------------------------------------------------------------------------- *)

Theorem ovt_overflow_approx_signed_tbb :
  forall g w k scan roots eord (bits : list bool) (perm1 perm_c perm_w : list nat),
  simple_graph g -> positive_weights g w -> (1 <= k)%nat -> Permutation scan (seq 0 (ne g)) ->
  (forall v, (v < nv g)%nat -> In v roots) ->
  exists cycles total pos,
    approx_sva_signed_tbb_Z g w k scan roots eord bits perm1 perm_c perm_w = (TbbRun (ApproxOk cycles total), pos)
    /\ fst (approx_sva_signed_tbb_Z_tr g w k scan roots eord bits perm1 perm_c perm_w) = (TbbRun (ApproxOk cycles total), pos)
    /\ total = total_weight w cycles
    /\ has_cycle_space_dimension g (length cycles) /\ (length cycles <= ne g)%nat
    /\ 0 <= total <= Z.of_nat (length cycles) * wsum g w
    /\ Forall (fun v => 0 <= v <= 2 * wsum g w + 2 * wmax w \/ 0 <= v <= total)
              (snd (approx_sva_signed_tbb_Z_tr g w k scan roots eord bits perm1 perm_c perm_w))
    /\ (forall M, 2 * wsum g w + 2 * wmax w <= M -> total <= M ->
          Forall (fun v => 0 <= v <= M) (snd (approx_sva_signed_tbb_Z_tr g w k scan roots eord bits perm1 perm_c perm_w)))
    /\ (forall M, (Z.of_nat (ne g) + 4) * wsum g w <= M ->
          Forall (fun v => 0 <= v <= M) (snd (approx_sva_signed_tbb_Z_tr g w k scan roots eord bits perm1 perm_c perm_w))
          /\ total <= M).
Proof.
  intros g w k scan roots eord bits perm1 perm_c perm_w Hg Hpw Hk HPs Hr.
  destruct (pa_signed_tbb_full g w k scan roots eord bits perm1 perm_c perm_w Hg Hpw Hk HPs Hr)
    as (cycles & total & pos & Hrun & _ & Hdim & Hlists & Etot & _).
  exists cycles, total, pos. split; [exact Hrun|].
  pose proof (ovt_approx_signed_tbb_erase g w k scan roots eord bits perm1 perm_c perm_w) as Eer. rewrite Hrun in Eer.
  split; [exact Eer|]. split; [exact Etot|]. split; [exact Hdim|].
  pose proof (ovt_dimension_le_m g _ Hdim) as HNm. split; [exact HNm|].
  assert (Hfam : 0 <= total <= Z.of_nat (length cycles) * wsum g w).
  { rewrite Etot. apply ovt_family_weight; [exact Hpw|].
    eapply Forall_impl; [|exact Hlists]. cbv beta. intros c [Hc _]. exact Hc. }
  split; [exact Hfam|].
  assert (Htr : Forall (fun v => 0 <= v <= 2 * wsum g w + 2 * wmax w \/ 0 <= v <= total)
                       (snd (approx_sva_signed_tbb_Z_tr g w k scan roots eord bits perm1 perm_c perm_w))).
  { unfold approx_sva_signed_tbb_Z_tr, approx_run_tbb_tr in Eer |- *.
    destruct (construct_spanner g k scan) as [sp| | |] eqn:Esp; try discriminate.
    destruct (Nat.ltb k 1); [discriminate|].
    destruct (existsb (fun e => Z.ltb (nth e w 0) 0) (seq 0 (ne g))); [discriminate|].
    destruct (ap_spanner_facts g k scan sp Hg HPs Esp) as (Hsub & HPerm & Hpath3).
    assert (Hpath : forall e u v, In e (dropped sp) -> ends g e = Some (u, v) ->
              exists p, walk g u p v /\ incl (wedges p) (retained sp)).
    { intros e u v He Hends. destruct (Hpath3 e u v He Hends) as (p & H1 & H2 & _). exists p; auto. }
    pose proof (ovt_spanner_simple g Hg sp Hsub HPerm) as Hhs.
    pose proof (ovt_spanner_positive g w Hpw sp Hsub) as Hhp.
    assert (Hhr : forall v, (v < nv (sp_graph sp))%nat -> In v roots).
    { intros v Hv. apply Hr. rewrite <- (ap_nv_h g sp Hsub). exact Hv. }
    destruct (ovt_overflow_signed_tbb (sp_graph sp) (spanner_weights w sp) roots eord bits perm1 Hhs Hhp Hhr)
      as (cs & sw & sup & pos0 & _ & Eex & _ & _ & _ & _ & [Hsw0 _] & Hextr & _).
    destruct (mcb_sva_signed_tbb_Z_tr (sp_graph sp) (spanner_weights w sp) roots eord bits perm1) as [[r pos1] tre].
    cbn [fst snd] in Eex, Hextr. injection Eex as -> ->.
    destruct (translate_cycles (retained sp) cs) as [tcs|]; [|discriminate].
    pose proof (ovt_tbb_builder_tr g Hg w Hpw sp Hsub HPerm Hpath bits pos0 perm_c perm_w) as Hb.
    destruct (tbb_builder_tr bits g w sp pos0 perm_c perm_w) as [[b pos'] trb]. cbn [fst snd] in Hb.
    destruct b as [[err| |]|[dcs dw]]; try discriminate. cbn [fst snd] in Eer |- *. injection Eer as _ Etotal _.
    destruct (Hb dcs dw pos' eq_refl) as [Hdw0 Hvb].
    pose proof (ovt_spanner_wsum g w Hpw sp Hsub HPerm). pose proof (ovt_spanner_wmax w sp).
    pose proof (ov_wsum_nonneg g w Hpw). pose proof (ov_wmax_nonneg w).
    apply Forall_app. split.
    - eapply Forall_impl; [|exact Hextr]. cbv beta. intros v [Hv|Hv]; [left; lia|right; lia].
    - constructor; [right; lia|]. apply Forall_app. split.
      + eapply Forall_impl; [|exact Hvb]. cbv beta. unfold inrange. intros v [Hv|Hv]; [left; lia|right; lia].
      + constructor; [right; lia|constructor]. }
  split; [exact Htr|].
  assert (HM : forall M, 2 * wsum g w + 2 * wmax w <= M -> total <= M ->
             Forall (fun v => 0 <= v <= M) (snd (approx_sva_signed_tbb_Z_tr g w k scan roots eord bits perm1 perm_c perm_w))).
  { intros M HM1 HM2. eapply Forall_impl; [|exact Htr]. cbv beta. intros v [Hv|Hv]; lia. }
  split; [exact HM|].
  pose proof (ov_wmax_le_wsum g w Hpw). pose proof (ov_wsum_nonneg g w Hpw).
  intros M Hle. assert (total <= M) by nia. split; [apply HM; [nia|assumption]|assumption].
Qed.
