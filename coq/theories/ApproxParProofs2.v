(* ApproxParProofs2.v — the TBB approximate entry points, run level:

     pa_comb_perm / pa_cycle_basis_perm / pa_min_cycle_basis_perm
                             "is a (minimum) cycle basis" does not depend on the ORDER of the family: a linear
                             combination over a permuted family is a linear combination over the original one with the
                             mask permuted alike (this is what makes the private-edge independence argument of
                             ApproxProofsBasis.ap_glue_basis, phrased there for the sequential order, order independent)
     pa_full_result_perm     everything Properties_C05 / C06 state about an emitted family and its returned value is
                             invariant under permuting the family
     pa_run_tbb_vs_seq       approx_run_tbb (TBB builder, exact phase `exact`, any bit stream, any pair of insertion
                             orders) against approx_run with the SAME exact phase and the sequential builder: same
                             outcome class; on ApproxOk the same translated spanner cycles in the same order, followed by a
                             PERMUTATION of the sequential dropped-edge cycles, and the SAME returned value; never TbbFail
     pa_tbb_generic_full     any exact phase that answers with a minimum cycle basis of the spanner: full C05/C06 result
     pa_signed_tbb_full      premise-free, approx_mcb_sva_signed_tbb (exact phase = ParSignedModel.mcb_sva_signed_tbb_Z on
                             the spanner, discharged by ParSignedProofs.signed_tbb_min_basis = C03_signed_tbb)
     pa_signed_tbb_vs_seq    the TBB entry point against the SEQUENTIAL entry point approx_mcb_sva_signed (different
                             exact phases): same returned value, same count, dropped-edge cycles a permutation
   Prefix pa_.  No axioms. *)
From Coq Require Import List Arith Bool Lia ZArith Permutation Sorted.
From Parmcb Require Import GraphModel GF2Model GF2Proofs GF2Lin GraphSpec GraphLemmas McbSpec OptSpec SpannerModel SpannerProofs
  SvaModel SignedModel SignedZModel SchedModel ParSignedModel SchedProofs ParSignedProofs
  ApproxModel ApproxProofs ApproxProofsRun ApproxProofsSignedFull ApproxGlobalProofs4 ApproxTreesProofs1
  RefProofs6 ApproxParModel ApproxParProofs1.
Import ListNotations.

(* ---- order independence of "cycle basis" ---------------------------------------------------------------------------- *)

Lemma pa_comb_perm Cs Cs' : Permutation Cs Cs' -> Forall sorted Cs ->
  forall m, length m = length Cs ->
  exists m', length m' = length Cs' /\ comb m' Cs' = comb m Cs /\ forallb negb m' = forallb negb m.
Proof.
  induction 1 as [|C l l' HP IH|C D l|l l' l'' HP1 IH1 HP2 IH2]; intros HS m Hl.
  - exists m. auto.
  - destruct m as [|b m]; [discriminate|]. cbn [length] in Hl. injection Hl as Hl.
    inversion HS as [|? ? SC HS']; subst.
    destruct (IH HS' m Hl) as (m' & L' & E' & F'). exists (b :: m'). split; [cbn [length]; congruence|].
    split; [cbn [comb]; rewrite E'; reflexivity|cbn [forallb]; rewrite F'; reflexivity].
  - destruct m as [|a [|b m]]; try discriminate.
    inversion HS as [|? ? SD HS1]; subst. inversion HS1 as [|? ? SC HS2]; subst.
    exists (b :: a :: m). split; [cbn [length] in *; lia|]. split.
    + cbn [comb]. pose proof (comb_sorted m l HS2) as SX.
      destruct a, b; try reflexivity.
      rewrite <- !vadd_assoc by assumption. f_equal. apply vadd_comm; assumption.
    + cbn [forallb]. rewrite !andb_assoc, (andb_comm (negb b)). reflexivity.
  - destruct (IH1 HS m Hl) as (m1 & L1 & E1 & F1).
    assert (HS' : Forall sorted l') by (eapply Permutation_Forall; eauto).
    destruct (IH2 HS' m1 L1) as (m2 & L2 & E2 & F2).
    exists m2. split; [exact L2|]. split; congruence.
Qed.

Lemma pa_indep_perm Cs Cs' : Permutation Cs Cs' -> Forall sorted Cs -> indep Cs -> indep Cs'.
Proof.
  intros HP HS Hi m' Hl' E'.
  assert (HS' : Forall sorted Cs') by (eapply Permutation_Forall; eauto).
  destruct (pa_comb_perm Cs' Cs (Permutation_sym HP) HS' m' Hl') as (m & L & E & F).
  rewrite <- F. apply Hi; [exact L|]. rewrite E. exact E'.
Qed.

Lemma pa_spans_perm inV Cs Cs' : Permutation Cs Cs' -> Forall sorted Cs -> spans inV Cs -> spans inV Cs'.
Proof.
  intros HP HS Hsp Z HZ. destruct (Hsp Z HZ) as (m & L & E).
  destruct (pa_comb_perm Cs Cs' HP HS m L) as (m' & L' & E' & _). exists m'. split; [exact L'|congruence].
Qed.

Lemma pa_simple_sorted g Cs : Forall (simple_cycle g) Cs -> Forall sorted Cs.
Proof. intros H. eapply Forall_impl; [|exact H]. intros C HC. apply HC. Qed.

Theorem pa_cycle_basis_perm g B B' : Permutation B B' -> cycle_basis g B -> cycle_basis g B'.
Proof.
  intros HP (Fsc & Hind & Hsp). pose proof (pa_simple_sorted g B Fsc) as HS. split; [|split].
  - eapply Permutation_Forall; eauto.
  - eapply pa_indep_perm; eauto.
  - eapply pa_spans_perm; eauto.
Qed.

Lemma pa_total_weight_perm w B B' : Permutation B B' -> total_weight w B = total_weight w B'.
Proof. intros HP. rewrite !pa_total_weight_sumZ. apply pa_sumZ_perm, Permutation_map, HP. Qed.

Theorem pa_min_cycle_basis_perm g w B B' : Permutation B B' -> min_cycle_basis g w B -> min_cycle_basis g w B'.
Proof.
  intros HP (HB & Hmin). split; [eapply pa_cycle_basis_perm; eauto|].
  intros B'' HB''. rewrite <- (pa_total_weight_perm w B B' HP). apply Hmin. exact HB''.
Qed.

(* every clause of the C05 / C06 statements *)
Theorem pa_full_result_perm g w k scan cycles cycles' total :
  Permutation cycles cycles' -> approx_full_result g w k scan cycles total -> approx_full_result g w k scan cycles' total.
Proof.
  intros HP (A & B & C & D & E & F).
  assert (HPs : Permutation (map set_of_list cycles) (map set_of_list cycles')) by (apply Permutation_map; exact HP).
  split; [eapply pa_cycle_basis_perm; eauto|]. split; [rewrite <- (Permutation_length HP); exact B|].
  split; [eapply Permutation_Forall; eauto|]. split; [rewrite <- (pa_total_weight_perm w _ _ HP); exact D|].
  split; [|exact F]. intros Hk. eapply pa_min_cycle_basis_perm; eauto.
Qed.

(* ---- the run ------------------------------------------------------------------------------------------------------------ *)
Section Run.
  Variable exact : graph -> list Z -> sva_result Z * nat.
  Variable bits : list bool.

  Notation exact_seq := (fun h wh => fst (exact h wh)).

  Theorem pa_run_tbb_vs_seq g w k scan perm_c perm_w :
    (forall cycles total, approx_run exact_seq g w k scan = ApproxOk cycles total ->
       exists sp pre dcs dw dcs' pos,
         construct_spanner g k scan = SpOk sp /\ dropped_cycles g w sp (dropped sp) 0%Z = inr (dcs, dw)
         /\ approx_run_tbb exact bits g w k scan perm_c perm_w = (TbbRun (ApproxOk (pre ++ dcs') total), pos)
         /\ cycles = pre ++ dcs /\ Permutation dcs dcs') /\
    (approx_run exact_seq g w k scan = ApproxThrow ->
       approx_run_tbb exact bits g w k scan perm_c perm_w = (TbbRun ApproxThrow, 0)) /\
    (forall e, approx_run exact_seq g w k scan = ApproxError e ->
       exists e' pos, approx_run_tbb exact bits g w k scan perm_c perm_w = (TbbRun (ApproxError e'), pos)).
  Proof.
    unfold approx_run, approx_run_tbb.
    destruct (construct_spanner g k scan) as [sp| | |] eqn:Hsp;
      try (split; [intros ? ? H; discriminate|split; [intros H; discriminate|intros e _; exists AeSpanner, 0; reflexivity]]).
    destruct (Nat.ltb k 1); [split; [intros ? ? H; discriminate|split; [reflexivity|intros e H; discriminate]]|].
    destruct (existsb _ _); [split; [intros ? ? H; discriminate|split; [reflexivity|intros e H; discriminate]]|].
    destruct (exact (sp_graph sp) (spanner_weights w sp)) as [r pos]. cbn [fst].
    destruct r as [scycles sw sup| | |];
      try (split; [intros ? ? H; discriminate|split; [intros H; discriminate|intros e _; exists AeExact, pos; reflexivity]]).
    destruct (translate_cycles (retained sp) scycles) as [tcs|];
      [|split; [intros ? ? H; discriminate|split; [intros H; discriminate|intros e _; exists AeMap, pos; reflexivity]]].
    destruct (pa_builder_bits bits g w sp pos perm_c perm_w) as (Hok & Hbad).
    destruct (dropped_cycles g w sp (dropped sp) 0%Z) as [err|[dcs dw]] eqn:Edr.
    - destruct (Hbad err eq_refl) as (err' & pos' & E). rewrite E.
      split; [intros ? ? H; discriminate|split; [intros H; discriminate|intros e _; exists err', pos'; reflexivity]].
    - destruct (Hok dcs dw eq_refl) as (dcs' & pos' & E & HP). rewrite E.
      split; [|split; [intros H; discriminate|intros e H; discriminate]].
      intros cycles total H. injection H as <- <-. exists sp, tcs, dcs, dw, dcs', pos'. auto.
  Qed.

  (* hence: a full C05 / C06 result whenever the exact phase returns a minimum cycle basis of the spanner *)
  Theorem pa_tbb_generic_full g w k scan perm_c perm_w :
    simple_graph g -> positive_weights g w -> 1 <= k -> Permutation scan (seq 0 (ne g)) ->
    exact_ok_on_spanner exact_seq g w k scan ->
    exists cycles total pos,
      approx_run_tbb exact bits g w k scan perm_c perm_w = (TbbRun (ApproxOk cycles total), pos)
      /\ approx_full_result g w k scan cycles total.
  Proof.
    intros Hg Hw Hk HP Hex.
    destruct (ap_generic_full exact_seq g w k scan Hg Hw Hk HP Hex) as (cycles & total & Hrun & Hres).
    destruct (pa_run_tbb_vs_seq g w k scan perm_c perm_w) as (Hok & _).
    destruct (Hok cycles total Hrun) as (sp & pre & dcs & dw & dcs' & pos & _ & _ & E & -> & HPd).
    exists (pre ++ dcs'), total, pos. split; [exact E|].
    apply (pa_full_result_perm g w k scan (pre ++ dcs)); [apply Permutation_app_head; exact HPd|exact Hres].
  Qed.
End Run.

(* ---- approx_mcb_sva_signed_tbb, premise-free ----------------------------------------------------------------------------- *)

Lemma pa_signed_tbb_exact_ok g w k scan roots eord bits perm1 :
  simple_graph g -> positive_weights g w -> Permutation scan (seq 0 (ne g)) ->
  (forall v, v < nv g -> In v roots) ->
  exact_ok_on_spanner (fun h wh => fst (mcb_sva_signed_tbb_Z h wh roots eord bits perm1)) g w k scan.
Proof.
  intros Hg Hw HP Hroots sp Hsp.
  destruct (ap_spanner_wf g w k scan sp Hg Hw HP Hsp) as (Hh & Hwh & Hnv).
  assert (Hr : forall v, v < nv (sp_graph sp) -> In v roots) by (intros v Hv; apply Hroots; rewrite <- Hnv; exact Hv).
  destruct (signed_tbb_min_basis (sp_graph sp) (spanner_weights w sp) roots eord bits perm1 Hh Hwh Hr)
    as (cs & t & sup & pos & E & Hmin & Ht & Hdim).
  exists cs, t, sup. rewrite E. cbn [fst]. auto.
Qed.

Theorem pa_signed_tbb_full g w k scan roots eord bits perm1 perm_c perm_w :
  simple_graph g -> positive_weights g w -> 1 <= k -> Permutation scan (seq 0 (ne g)) ->
  (forall v, v < nv g -> In v roots) ->
  exists cycles total pos,
    approx_sva_signed_tbb_Z g w k scan roots eord bits perm1 perm_c perm_w = (TbbRun (ApproxOk cycles total), pos)
    /\ approx_full_result g w k scan cycles total.
Proof.
  intros Hg Hw Hk HP Hroots. unfold approx_sva_signed_tbb_Z.
  apply pa_tbb_generic_full; auto. apply pa_signed_tbb_exact_ok; auto.
Qed.

(* the TBB entry point against the SEQUENTIAL entry point approx_mcb_sva_signed (oracles of the two exact phases may
   differ): same returned value, same number of cycles, the dropped-edge cycles are a permutation *)
Theorem pa_signed_tbb_vs_seq g w k scan roots eord roots' eord' bits perm1 perm_c perm_w :
  simple_graph g -> positive_weights g w -> 1 <= k -> Permutation scan (seq 0 (ne g)) ->
  (forall v, v < nv g -> In v roots) -> (forall v, v < nv g -> In v roots') ->
  exists tcs tcs' dcs dcs' total pos,
    approx_sva_signed_Z g w k scan roots' eord' = ApproxOk (tcs ++ dcs) total
    /\ approx_sva_signed_tbb_Z g w k scan roots eord bits perm1 perm_c perm_w = (TbbRun (ApproxOk (tcs' ++ dcs') total), pos)
    /\ length tcs = length tcs' /\ Permutation dcs dcs'.
Proof.
  intros Hg Hw Hk HP Hroots Hroots'.
  (* the sequential entry point *)
  destruct (ap_signed_full g w k scan roots' eord' Hg Hw Hk HP Hroots') as (cyc1 & tot1 & Hrun1 & _).
  pose proof Hrun1 as Hrun1'. unfold approx_sva_signed_Z in Hrun1'.
  destruct (ap_run_inv _ _ _ _ _ _ _ Hrun1') as (sp & cs1 & sw1 & sup1 & tcs1 & dcs1 & dw1 & Hsp & _ & Eex1 & Etr1 & Edr1 & -> & ->).
  destruct (ap_signed_exact_free g w k scan roots' eord' sp Hg Hw HP Hroots' Hsp)
    as (cs1' & t1' & sup1' & E1 & Hmin1 & Ht1 & Hdim1).
  rewrite E1 in Eex1. injection Eex1 as -> -> ->.
  (* the sequential builder after the TBB exact phase *)
  set (ex2 := fun h wh => mcb_sva_signed_tbb_Z h wh roots eord bits perm1).
  pose proof (pa_signed_tbb_exact_ok g w k scan roots eord bits perm1 Hg Hw HP Hroots) as Hex2.
  destruct (ap_generic_full (fun h wh => fst (ex2 h wh)) g w k scan Hg Hw Hk HP Hex2) as (cyc2 & tot2 & Hrun2 & _).
  destruct (ap_run_inv _ _ _ _ _ _ _ Hrun2) as (sp2 & cs2 & sw2 & sup2 & tcs2 & dcs2 & dw2 & Hsp2 & _ & Eex2 & Etr2 & Edr2 & -> & ->).
  rewrite Hsp in Hsp2. injection Hsp2 as <-.
  rewrite Edr1 in Edr2. injection Edr2 as <- <-.
  destruct (Hex2 sp Hsp) as (cs2' & t2' & sup2' & E2 & Hmin2 & Ht2 & Hdim2).
  pose proof (eq_trans (eq_sym E2) Eex2) as Eq2. injection Eq2 as -> -> ->.
  (* the TBB builder *)
  destruct (pa_run_tbb_vs_seq ex2 bits g w k scan perm_c perm_w) as (Hok & _).
  destruct (Hok _ _ Hrun2) as (sp3 & pre & dcs & dw & dcs' & pos & Hsp3 & Edr3 & E & Eapp & HPd).
  rewrite Hsp in Hsp3. injection Hsp3 as <-. rewrite Edr1 in Edr3. injection Edr3 as <- <-.
  apply app_inv_tail in Eapp. subst pre.
  assert (Hlen : length tcs1 = length tcs2).
  { destruct (ap_translate_cycles _ _ _ Etr1) as (_ & ->). destruct (ap_translate_cycles _ _ _ Etr2) as (_ & ->).
    rewrite !map_length.
    destruct (ap_spanner_wf g w k scan sp Hg Hw HP Hsp) as (Hh & _ & _).
    apply (rf_cycle_bases_equal_length (sp_graph sp)); [exact Hh|apply Hmin1|apply Hmin2]. }
  assert (Hsw : sw1 = sw2) by (rewrite Ht1, Ht2; eapply ag_min_basis_weight; eauto).
  exists tcs1, tcs2, dcs1, dcs', (0 + sw1 + dw1)%Z, pos.
  split; [exact Hrun1|]. split; [|split; [exact Hlen|exact HPd]].
  unfold approx_sva_signed_tbb_Z. fold ex2. rewrite E, Hsw. reflexivity.
Qed.

Print Assumptions pa_cycle_basis_perm.
Print Assumptions pa_run_tbb_vs_seq.
Print Assumptions pa_tbb_generic_full.
Print Assumptions pa_signed_tbb_full.
Print Assumptions pa_signed_tbb_vs_seq.
