(* BidirProofs4.v — optimality of the bidirectional signed search, part 4: reconstruction and the main lemma.
     bd_follow     following the predecessors from a vertex with entry d reaches the source within
                   2n+1 steps along a cover walk of length exactly d; the answer is `duplicate` iff that walk
                   repeats an edge (or meets the edges collected so far)
     bidir_spec    BidirSpec.bidir_spec_stmt
   No axioms. *)
From Coq Require Import List Arith Bool ZArith Lia Permutation.
From Parmcb Require Import GraphModel GF2Model GF2Proofs GraphSpec GraphLemmas McbSpec ForestModel
     HeapModel HeapSpec HeapProofs SvaModel SvaSpec SignedModel SignedZModel SignedProofs RefProofs1
     BidirSpec BidirProofs1 BidirProofs2 BidirProofs3.
Import ListNotations.

Local Open Scope Z_scope.

Lemma bd_filter_length_le {A} (f : A -> bool) l : (length (filter f l) <= length l)%nat.
Proof. induction l as [|x l IH]; cbn [filter length]; [lia|]. destruct (f x); cbn [length]; lia. Qed.

Lemma bd_NoDup_app_l {A} (a b : list A) : NoDup (a ++ b) -> NoDup a.
Proof.
  induction a as [|x a IH]; intros H; [constructor|]. cbn [app] in H.
  inversion H as [|? ? Hx Hnd]; subst. constructor; [|apply IH; exact Hnd].
  intros Hin. apply Hx. apply in_app_iff. left; exact Hin.
Qed.

Lemma bd_NoDup_app_r {A} (a b : list A) : NoDup (a ++ b) -> NoDup b.
Proof.
  induction a as [|x a IH]; intros H; [exact H|]. cbn [app] in H.
  inversion H; subst. apply IH. assumption.
Qed.

Lemma bd_NoDup_app_disj {A} (a b : list A) x : NoDup (a ++ b) -> In x a -> In x b -> False.
Proof.
  induction a as [|y a IH]; intros H Ha Hb; [destruct Ha|]. cbn [app] in H.
  inversion H as [|? ? Hy Hnd]; subst. destruct Ha as [->|Ha].
  - apply Hy. apply in_app_iff. right; exact Hb.
  - apply IH; assumption.
Qed.

(* number of entries strictly below d *)
Definition rankb (fr : frontier Z) (d : Z) (v : nat) : bool :=
  has_finite_dist Z fr v && match fdist fr v with Some dv => Z.ltb dv d | None => false end.
Definition rank (m : nat) (fr : frontier Z) (d : Z) : nat := length (filter (rankb fr d) (seq 0 m)).

(* what a search result must satisfy, for the ordered pair of signed sources (a, b) *)
Definition rspec (P : sparams Z) (a b : nat) (r : search_result Z) : Prop :=
  match r with
  | SearchError _ => False
  | Found _ cyc w =>
      exists p, cshortest P a p b /\ NoDup (wedges p) /\ sorted cyc
                /\ (forall e, In e cyc <-> In e (wedges p))
                /\ w = clen P p /\ w = weight (sp_wts Z P) cyc /\ blim P w
  | NotFound _ =>
      (forall p, cwalk P a p b -> ~ blim P (clen P p))
      \/ (exists p, cshortest P a p b /\ blim P (clen P p) /\ ~ NoDup (wedges p))
  end.

(* the part of bidirectional_signed_dijkstra after the loop *)
Definition search_tail (P : sparams Z) (fr other : frontier Z) (best : option (Z * nat)) : search_result Z :=
  let n := nv (sp_g Z P) in
  match best with
  | None => NotFound Z
  | Some (bp, common) =>
      if negb (below_limit Z Z.ltb P bp) then NotFound Z
      else
        match follow Z 0 Z.add (2 * n + 1) P fr common [] 0 with
        | None => SearchError Z
        | Some None => NotFound Z
        | Some (Some (cyc1, cw1)) =>
            match follow Z 0 Z.add (2 * n + 1) P other common cyc1 cw1 with
            | None => SearchError Z
            | Some None => NotFound Z
            | Some (Some (cyc2, cw2)) => Found Z cyc2 cw2
            end
        end
  end.

Section Final.
  Variable P : sparams Z.
  Local Notation g := (sp_g Z P).
  Local Notation n := (nv (sp_g Z P)).
  Local Notation wts := (sp_wts Z P).
  Hypothesis Hs : simple_graph g.
  Hypothesis Hpw : positive_weights g wts.

  Local Notation finv := (finv P).

  Lemma bd_dist_entry done s fr u d : finv done s fr -> fdist fr u = Some d -> has_entry fr u.
  Proof.
    intros H E. destruct (bd_has_entry_dec fr u) as [He|He]; [exact He|]. exfalso.
    assert (Hne : u <> s).
    { intros ->. apply He. apply bd_has_entry_iff. left. symmetry. exact (fi_src _ _ _ _ H). }
    assert (Hp : fpredv fr u = None).
    { destruct (fpredv fr u) as [pe|] eqn:Ep; [|reflexivity]. exfalso. apply He.
      apply bd_has_entry_iff. right. exists pe. exact Ep. }
    rewrite (fi_nopred _ _ _ _ H u Hne Hp) in E. discriminate.
  Qed.

  Lemma bd_rank_le fr d : (rank (2 * n) fr d <= 2 * n)%nat.
  Proof. unfold rank. rewrite <- (seq_length (2 * n) 0) at 2. apply bd_filter_length_le. Qed.

  Lemma bd_rank_pred done s fr u p e d dp : finv done s fr -> fpredv fr u = Some (p, e) ->
    fdist fr u = Some d -> fdist fr p = Some dp -> (rank (2 * n) fr dp < rank (2 * n) fr d)%nat.
  Proof.
    intros H Ep Ed Edp.
    destruct (fi_pred _ _ _ _ H u p e Ep) as (_ & Hst & Hps & dp' & Edp' & Ed' & _).
    assert (dp' = dp) by congruence. subst dp'.
    assert (d = dp + wt wts e) by congruence. subst d.
    pose proof (bd_cstep_wt_pos P Hpw _ _ _ Hst) as Hwe.
    unfold rank. apply (bd_count_lt _ _ p).
    - intros x _. unfold rankb. rewrite !andb_true_iff. intros [H1 H2]. split; [exact H1|].
      destruct (fdist fr x) as [dx|]; [|discriminate]. apply Z.ltb_lt in H2. apply Z.ltb_lt. lia.
    - apply in_seq. split; [lia|]. cbn [plus]. apply Hst.
    - unfold rankb. rewrite Edp. apply andb_true_iff. split; [exact (proj1 Hps)|]. apply Z.ltb_lt. lia.
    - unfold rankb. rewrite Edp, Z.ltb_irrefl. apply andb_false_r.
  Qed.

  (* ---- following the predecessors ------------------------------------------------------------------ *)

  Lemma bd_follow s fr : finv (fun _ _ => True) s fr ->
    forall fuel cur d cyc cw, has_entry fr cur -> fdist fr cur = Some d ->
      (rank (2 * n) fr d < fuel)%nat -> sorted cyc ->
      exists p, cwalk P cur p s /\ clen P p = d
        /\ ((follow Z 0 Z.add fuel P fr cur cyc cw = Some None
             /\ ~ (NoDup (wedges p) /\ forall e, In e (wedges p) -> ~ In e cyc))
            \/ (exists cyc', follow Z 0 Z.add fuel P fr cur cyc cw = Some (Some (cyc', cw + d))
                  /\ NoDup (wedges p) /\ (forall e, In e (wedges p) -> ~ In e cyc)
                  /\ sorted cyc' /\ forall e, In e cyc' <-> In e cyc \/ In e (wedges p))).
  Proof.
    intros H. pose proof (fi_src _ _ _ _ H) as Hsrc.
    induction fuel as [|fuel IH]; intros cur d cyc cw He Ed Hr Sc; [lia|].
    cbn [follow]. rewrite Hsrc.
    destruct (Nat.eqb_spec cur s) as [->|Hne].
    - assert (d = 0) by (pose proof (fi_sdist _ _ _ _ H); congruence). subst d.
      exists []. split; [constructor; exact (fi_slt _ _ _ _ H)|]. split; [reflexivity|].
      right. exists cyc. rewrite Z.add_0_r. split; [reflexivity|].
      cbn [wedges map]. split; [constructor|]. split; [intros e []|]. split; [exact Sc|].
      intros e. cbn [In]. tauto.
    - apply bd_has_entry_iff in He as [E|[[p0 e0] Ep]]; [exfalso; apply Hne; rewrite E; exact Hsrc|].
      change (nth cur (f_pred Z fr) None) with (fpredv fr cur). rewrite Ep.
      destruct (fi_pred _ _ _ _ H cur p0 e0 Ep) as (_ & Hst & Hps & dp & Edp & Ed' & _).
      assert (Hd : d = dp + wt wts e0) by congruence.
      assert (Hrp : (rank (2 * n) fr dp < fuel)%nat).
      { pose proof (bd_rank_pred _ s fr cur p0 e0 d dp H Ep Ed Edp). lia. }
      change (wtof Z 0 wts e0) with (wt wts e0).
      destruct (IH p0 dp (set_insert e0 cyc) (cw + wt wts e0) (proj1 Hps) Edp Hrp
                  (set_insert_sorted e0 cyc Sc)) as (p' & Hw' & El' & Hres).
      exists ((e0, p0) :: p'). split; [econstructor; [apply bd_cstep_sym; exact Hst|exact Hw']|].
      split; [rewrite bd_clen_cons, El'; lia|].
      cbn [wedges map fst]. fold (wedges p').
      destruct (memb e0 cyc) eqn:Em.
      + left. split; [reflexivity|]. intros [_ Hdis]. apply (Hdis e0 (or_introl eq_refl)).
        apply gl_memb_In. exact Em.
      + apply gl_memb_false in Em.
        destruct Hres as [[Ef Hdup]|(cyc' & Ef & Hnd & Hdis & Sc' & Hset)].
        * left. split; [exact Ef|]. intros [Hnd Hdis]. apply Hdup. inversion Hnd as [|? ? Hnin Hnd']; subst.
          split; [exact Hnd'|]. intros a Ha Hin. apply sg_set_insert_In in Hin as [->|Hin];
            [contradiction|apply (Hdis a (or_intror Ha) Hin)].
        * right. exists cyc'. split; [rewrite Ef; do 3 f_equal; lia|].
          assert (Hnin : ~ In e0 (wedges p')).
          { intros Hin. apply (Hdis e0 Hin). apply sg_set_insert_In. left; reflexivity. }
          split; [constructor; assumption|]. split.
          { intros a [<-|Ha]; [exact Em|]. intros Hin. apply (Hdis a Ha). apply sg_set_insert_In.
            right; exact Hin. }
          split; [exact Sc'|]. intros a. rewrite Hset, sg_set_insert_In. cbn [In]. intuition.
  Qed.

  (* ---- after the loop -------------------------------------------------------------------------------- *)

  Lemma bd_tail a b fr other best : binv P a b fr other best -> exitc fr other best ->
    rspec P a b (search_tail P fr other best).
  Proof.
    intros H Hex.
    pose proof (bi_f _ _ _ _ _ _ H) as Hf. pose proof (bi_o _ _ _ _ _ _ H) as Ho.
    pose proof (bd_exit P Hpw a b fr other best H Hex) as Hexit.
    unfold search_tail.
    destruct best as [[bp x]|].
    2:{ left. intros p Hw Hbl. destruct (Hexit p Hw Hbl) as (bp & x & E & _). discriminate. }
    destruct (bi_best _ _ _ _ _ _ H bp x eq_refl) as (df & db & Edf & Edb & Hsum).
    destruct (below_limit Z Z.ltb P bp) eqn:Ebl; cbn [negb].
    2:{ left. intros p Hw Hbl. destruct (Hexit p Hw Hbl) as (bp' & x' & E & Hle). injection E as <- <-.
        assert (Hb' : blim P bp) by (eapply bd_blim_mono; [exact Hbl|exact Hle]).
        unfold blim in Hb'. congruence. }
    assert (Hbp : blim P bp) by exact Ebl.
    assert (Hefx : has_entry fr x) by (eapply bd_dist_entry; eassumption).
    assert (Heox : has_entry other x) by (eapply bd_dist_entry; eassumption).
    assert (Hr1 : (rank (2 * n) fr df < 2 * n + 1)%nat) by (pose proof (bd_rank_le fr df); lia).
    assert (Hr2 : (rank (2 * n) other db < 2 * n + 1)%nat) by (pose proof (bd_rank_le other db); lia).
    destruct (bd_follow a fr Hf (2 * n + 1)%nat x df [] 0 Hefx Edf Hr1 sorted_nil)
      as (p1 & Hw1 & El1 & Hres1).
    destruct (bd_cwalk_rev_len P x p1 a Hw1) as (p1r & Hw1r & El1r & Ee1r).
    (* everything about the reconstructed walk p1r ++ p2, for any chain p2 of `other` *)
    assert (Hfull : forall p2, cwalk P x p2 b -> clen P p2 = db ->
              clen P (p1r ++ p2) = bp /\ cshortest P a (p1r ++ p2) b).
    { intros p2 Hw2 El2.
      assert (Hw : cwalk P a (p1r ++ p2) b) by (eapply bd_cwalk_app; eassumption).
      assert (El : clen P (p1r ++ p2) = df + db) by (rewrite bd_clen_app; lia).
      assert (Hbl : blim P (clen P (p1r ++ p2))) by (eapply bd_blim_mono; [exact Hbp|lia]).
      destruct (Hexit _ Hw Hbl) as (bp' & x' & E & Hle). injection E as <- <-.
      assert (Ebp : clen P (p1r ++ p2) = bp) by lia.
      split; [exact Ebp|]. split; [exact Hw|]. intros p' Hw'.
      destruct (bd_blim_dec P (clen P p')) as [Hb'|Hb'].
      - destruct (Hexit _ Hw' Hb') as (bp' & x' & E & Hle'). injection E as <- <-. lia.
      - pose proof (bd_blim_lt P _ _ Hbp Hb'). lia. }
    destruct Hres1 as [[Ef1 Hdup1]|(cyc1 & Ef1 & Hnd1 & _ & Sc1 & Hset1)]; rewrite Ef1.
    - (* duplicate inside the first chain *)
      destruct (bd_follow b other Ho (2 * n + 1)%nat x db [] 0 Heox Edb Hr2 sorted_nil)
        as (p2 & Hw2 & El2 & _).
      destruct (Hfull p2 Hw2 El2) as [Ebp Hsh].
      right. exists (p1r ++ p2). split; [exact Hsh|]. split; [rewrite Ebp; exact Hbp|].
      intros Hnd. rewrite sg_wedges_app, Ee1r in Hnd. apply Hdup1.
      split; [|intros e _ []]. apply bd_NoDup_app_l in Hnd. apply NoDup_rev in Hnd.
      rewrite rev_involutive in Hnd. exact Hnd.
    - destruct (bd_follow b other Ho (2 * n + 1)%nat x db cyc1 (0 + df) Heox Edb Hr2 Sc1)
        as (p2 & Hw2 & El2 & Hres2).
      destruct (Hfull p2 Hw2 El2) as [Ebp Hsh].
      destruct Hres2 as [[Ef2 Hdup2]|(cyc2 & Ef2 & Hnd2 & Hdis2 & Sc2 & Hset2)]; rewrite Ef2.
      + right. exists (p1r ++ p2). split; [exact Hsh|]. split; [rewrite Ebp; exact Hbp|].
        intros Hnd. rewrite sg_wedges_app, Ee1r in Hnd. apply Hdup2.
        split; [apply bd_NoDup_app_r in Hnd; exact Hnd|].
        intros e He2 Hc1. apply Hset1 in Hc1 as [[]|Hc1].
        apply (bd_NoDup_app_disj _ _ e Hnd); [apply in_rev in Hc1; exact Hc1|exact He2].
      + assert (Hndw : NoDup (wedges (p1r ++ p2))).
        { rewrite sg_wedges_app, Ee1r. apply gl_NoDup_app; [apply NoDup_rev; exact Hnd1|exact Hnd2|].
          intros e He1 He2. apply in_rev in He1. apply (Hdis2 e He2). apply Hset1. right; exact He1. }
        assert (Hsetw : forall e, In e cyc2 <-> In e (wedges (p1r ++ p2))).
        { intros e. rewrite Hset2, Hset1, sg_wedges_app, Ee1r, in_app_iff, <- in_rev. cbn [In]. tauto. }
        exists (p1r ++ p2). split; [exact Hsh|]. split; [exact Hndw|]. split; [exact Sc2|].
        split; [exact Hsetw|]. split; [rewrite bd_clen_app; lia|]. split.
        * assert (Ew : weight wts cyc2 = weight wts (wedges (p1r ++ p2))).
          { apply rf_weight_perm, NoDup_Permutation; [apply gl_sorted_NoDup; exact Sc2|exact Hndw|exact Hsetw]. }
          rewrite Ew. change (weight wts (wedges (p1r ++ p2))) with (clen P (p1r ++ p2)).
          rewrite bd_clen_app. lia.
        * eapply bd_blim_mono; [exact Hbp|lia].
  Qed.

  (* the specification is symmetric in the two sources *)
  Lemma bd_rspec_sym a b r : rspec P a b r -> rspec P b a r.
  Proof.
    assert (Hsh : forall a b p, cshortest P a p b -> exists p', cshortest P b p' a /\ clen P p' = clen P p
                  /\ wedges p' = rev (wedges p)).
    { intros a0 b0 p [Hw Hmin]. destruct (bd_cwalk_rev_len P a0 p b0 Hw) as (p' & Hw' & El & Ee).
      exists p'. split; [|split; [exact El|exact Ee]]. split; [exact Hw'|].
      intros q Hq. destruct (bd_cwalk_rev_len P b0 q a0 Hq) as (q' & Hq' & Elq & _).
      specialize (Hmin q' Hq'). lia. }
    destruct r as [cyc w| |]; cbn [rspec]; [| |auto].
    - intros (p & Hp & Hnd & Sc & Hset & Ew & Ew' & Hb).
      destruct (Hsh a b p Hp) as (p' & Hp' & El & Ee). exists p'.
      split; [exact Hp'|]. split; [rewrite Ee; apply NoDup_rev; exact Hnd|]. split; [exact Sc|].
      split; [intros e; rewrite Ee, <- in_rev; apply Hset|]. split; [lia|]. split; [exact Ew'|exact Hb].
    - intros [Hno|(p & Hp & Hb & Hdup)].
      + left. intros q Hq. destruct (bd_cwalk_rev_len P b q a Hq) as (q' & Hq' & Elq & _).
        rewrite <- Elq. apply Hno. exact Hq'.
      + right. destruct (Hsh a b p Hp) as (p' & Hp' & El & Ee). exists p'.
        split; [exact Hp'|]. split; [rewrite El; exact Hb|].
        intros Hnd. apply Hdup. rewrite Ee in Hnd. apply NoDup_rev in Hnd.
        rewrite rev_involutive in Hnd. exact Hnd.
  Qed.

  Lemma bd_ucount_le fr : (ucount (2 * n) fr <= 2 * n)%nat.
  Proof. unfold ucount. rewrite <- (seq_length (2 * n) 0) at 2. apply bd_filter_length_le. Qed.

  Lemma bd_search s spos t tpos : (s < n)%nat -> (t < n)%nat ->
    signed_id n s spos <> signed_id n t tpos ->
    rspec P (signed_id n s spos) (signed_id n t tpos)
          (bidirectional_signed_dijkstra Z 0 Z.add Z.ltb P s spos t tpos).
  Proof.
    intros Hsn Htn Hne.
    set (ss := signed_id n s spos) in *. set (st := signed_id n t tpos) in *.
    assert (Hss : (ss < 2 * n)%nat) by (apply bd_signed_id_lt; exact Hsn).
    assert (Hst : (st < 2 * n)%nat) by (apply bd_signed_id_lt; exact Htn).
    assert (Eq0 : bidirectional_signed_dijkstra Z 0 Z.add Z.ltb P s spos t tpos =
                  match bidir_loop Z 0 Z.add Z.ltb (4 * n + 2) P (fr_init Z 0 n ss) (fr_init Z 0 n st) None with
                  | LoopFuel _ | LoopBroken _ => SearchError Z
                  | LoopLimit _ => NotFound Z
                  | LoopDone _ fr other best => search_tail P fr other best
                  end) by reflexivity.
    rewrite Eq0.
    pose proof (bd_loop P Hs Hpw (4 * n + 2) ss st _ _ None (bd_binv_init P ss st Hss Hst Hne)) as Hl.
    assert (Hfuel : (ucount (2 * n) (fr_init Z 0%Z n ss) + ucount (2 * n) (fr_init Z 0%Z n st) < 4 * n + 2)%nat).
    { pose proof (bd_ucount_le (fr_init Z 0%Z n ss)). pose proof (bd_ucount_le (fr_init Z 0%Z n st)). lia. }
    specialize (Hl Hfuel).
    destruct (bidir_loop Z 0 Z.add Z.ltb (4 * n + 2) P (fr_init Z 0 n ss) (fr_init Z 0 n st) None)
      as [fr other best| | |]; try contradiction.
    - destruct Hl as [[Hb|Hb] Hex].
      + apply bd_tail; assumption.
      + apply bd_rspec_sym. apply bd_tail; assumption.
    - left. intros p _ Hb. apply Hl. eapply bd_blim_mono; [exact Hb|]. apply bd_clen_nonneg. exact Hpw.
  Qed.

End Final.

(* ---- the main lemma ---------------------------------------------------------------------------------- *)

Theorem bidir_spec : bidir_spec_stmt.
Proof.
  intros P s spos t tpos Hs Hpw Hsn Htn n ss st Hne.
  exact (bd_search P Hs Hpw s spos t tpos Hsn Htn Hne).
Qed.

Print Assumptions bidir_spec.
