(* ParTreesModel.v — executable model of the TBB lookup of the tree-based exact entry points
     include/parmcb/parmcb_sva_trees.hpp   _mcb_sva_trees<..., ParallelUsingTBB = true>
                                           (mcb_sva_fvs_trees_tbb, mcb_sva_iso_trees_tbb)
     include/parmcb/sptrees.hpp            CandidateCycleBuilder::operator() WITH its weight-limit exits,
                                           ShortestOddCycleLookup<..., true>::compute_shortest_odd_cycle
   on top of TreesModel.v (update_parities, the collections, tr_result / tc_answer), SvaModel.v (support updates) and the
   TBB semantics of SchedModel.v (schedule trees read off a bit stream).  Generic in the weight type; `wmax` stands for
   (std::numeric_limits<WeightType>::max)() in the identity of the reduction.  Definitions only; proofs in
   ParTreesProofs*.v, final statements in Properties_C03_trees.v.

   What the C++ does per phase (signed_edges = convert_edges(S_k)):
     * tbb::parallel_for over [0, trees.size()): every task calls trees[i].update_parities(edges) for the indices of its
       chunk.  A call rewrites the parity field of every node of tree i and touches nothing else, so the state is one
       parity array per tree (`pars`, threaded from phase to phase; initially the constructor value false everywhere)
       and a task writes only the slots of its own chunk: pt_par_chunk.
     * tbb::parallel_reduce over [0, cycles.size()) with identity ({}, max, false); the body lambda walks its chunk with
       a running minimum: cc = candidate_cycle_builder(trees, cycles[i], edges, get<2>(running_min), get<1>(running_min))
       — i.e. the builder runs WITH the weight limit as soon as the running minimum is a found cycle — and
       `running_min = cc` iff cc is found and (running_min is not found or cc.weight < running_min.weight);
       join = cycle_min (a not-found operand loses; on two found operands c1 unless c2 is strictly lighter).
       sorted_cycles is ignored by this overload: ALL candidates are examined, in the index order of the vector left by
       std::sort.
   CandidateCycleBuilder with use_weight_limit: the test `cycle_weight > weight_limit` is made right after
   cycle_weight = w(e) and after every `cycle_weight += w(a)` of both path loops (`>` on WeightType is
   wltb weight_limit cycle_weight); any exit answers ({}, 0.0, false) = TcNot.

   Oracles.  `sorted`: the content of the vector `cycles` after std::sort (not stable: any arrangement of the builder's
   collection that is sorted by recorded weight; the TBB lookup never relies on sortedness, so the theorems quantify over
   EVERY permutation of the collection).  For the entry point the arrangement is given as the list `arr` of positions in
   the builder's emission order (pt_arrange; not a permutation of the positions: explicit value PtBadArrangement).
   `bits`: the schedule stream; every parallel construct reads its schedule tree at the current position
   (SchedModel.sched_of_bits) and the position is threaded through the run in program order, as the shim's is.
   `roots`, `picks`: as in TreesModel.

   Deliberate deviation (as in TreesModel / ParSignedModel): when a phase finds no cycle the C++ goes on with an empty
   cycle and adds numeric_limits::max (known finding D9c on inexact weights); the model stops with SvaNoCycle k.
   Errors the C++ would run into as undefined behaviour are explicit (TrNoNode, TrRange, TrFuel; SvaError k). *)
From Coq Require Export ZArith.
From Parmcb Require Export TreesModel SchedModel.

Section ParTrees.
  Variable W : Type.
  Variable w0 : W.
  Variable wadd : W -> W -> W.
  Variable wltb : W -> W -> bool.           (* operator< / std::less *)
  Variable wmax : W.                        (* (std::numeric_limits<WeightType>::max)() *)

  (* ---- CandidateCycleBuilder::operator() with use_weight_limit / weight_limit ------------------------------------ *)

  (* while (ws->has_pred()) { a = ws->pred(); if (!result.insert(a).second) { valid = false; break; }
                              cycle_weight += w(a);
                              if (use_weight_limit && cycle_weight > weight_limit) { valid = false; break; }
                              w = opposite(a, w); ws = node(w); }
     None = valid is false *)
  Fixpoint tc_path_limit (fuel : nat) (g : graph) (wts : list W) (t : sp_tree W) (use : bool) (lim : W)
           (w : nat) (res : list nat) (cw : W) {struct fuel} : tr_result (option (list nat * W)) :=
    match sp_node_of W t w with
    | None => TrNoNode
    | Some ws =>
        match sn_pred ws with
        | None => TrOk (Some (res, cw))
        | Some a =>
            match fuel with
            | O => TrFuel
            | S fuel' =>
                if memb a res then TrOk None
                else
                  let cw' := wadd cw (lx_wt W w0 wts a) in
                  if use && wltb lim cw' then TrOk None
                  else match opposite g a w with
                       | None => TrRange
                       | Some w' => tc_path_limit fuel' g wts t use lim w' (a :: res) cw'
                       end
            end
        end
    end.

  (* `pars` = the parity fields of all trees; use / lim = use_weight_limit / weight_limit *)
  Definition tc_build_limit (g : graph) (wts : list W) (trees : list (sp_tree W)) (pars : list (list bool))
             (sg : list nat) (c : cand W) (use : bool) (lim : W) : tr_result (tc_answer W) :=
    match nth_error trees (c_tree c), ends g (c_edge c) with
    | Some t, Some (a, b) =>
        match sp_node_of W t a, sp_node_of W t b with
        | Some _, Some _ =>
            let par := nth (c_tree c) pars [] in
            if xorb (xorb (nth a par false) (nth b par false)) (memb (c_edge c) sg) then
              let cw := lx_wt W w0 wts (c_edge c) in
              if use && wltb lim cw then TrOk TcNot
              else
                match tc_path_limit (S (nv g)) g wts t use lim a [c_edge c] cw with
                | TrOk (Some (r1, w1)) =>
                    match tc_path_limit (S (nv g)) g wts t use lim b r1 w1 with
                    | TrOk (Some (r2, w2)) => TrOk (TcFound (set_of_list r2) w2)
                    | TrOk None => TrOk TcNot
                    | TrNoNode => TrNoNode | TrRange => TrRange | TrFuel => TrFuel
                    end
                | TrOk None => TrOk TcNot
                | TrNoNode => TrNoNode | TrRange => TrRange | TrFuel => TrFuel
                end
            else TrOk TcNot
        | _, _ => TrNoNode
        end
    | _, _ => TrRange
    end.

  (* ---- the parallel_for over the trees ---------------------------------------------------------------------------- *)

  (* trees[i].update_parities(edges): rewrites slot i *)
  Definition pt_par_one (g : graph) (trees : list (sp_tree W)) (sg : list nat)
             (st : tr_result (list (list bool))) (i : nat) : tr_result (list (list bool)) :=
    match st with
    | TrOk pars =>
        match nth_error trees i with
        | None => TrRange
        | Some t =>
            match update_parities W g t sg with
            | TrOk p => TrOk (set_nth pars i p)
            | TrNoNode => TrNoNode | TrRange => TrRange | TrFuel => TrFuel
            end
        end
    | err => err
    end.

  (* the body on the chunk [b, b+l): for (i = r.begin(); i != r.end(); ++i) trees[i].update_parities(edges) *)
  Definition pt_par_chunk (g : graph) (trees : list (sp_tree W)) (sg : list nat) (b l : nat)
             (st : tr_result (list (list bool))) : tr_result (list (list bool)) :=
    fold_left (pt_par_one g trees sg) (seq b l) st.

  (* the parity fields as the SPNode constructors leave them *)
  Definition pt_pars_init (g : graph) (trees : list (sp_tree W)) : list (list bool) :=
    map (fun _ => map (fun _ => false) (seq 0 (nv g))) trees.

  (* ---- the parallel_reduce over the candidates -------------------------------------------------------------------- *)

  (* std::tuple<std::set<Edge>, WeightType, bool> *)
  Definition cyc3 : Type := (list nat * W * bool)%type.
  Definition c3_set (x : cyc3) : list nat := fst (fst x).
  Definition c3_weight (x : cyc3) : W := snd (fst x).
  Definition c3_found (x : cyc3) : bool := snd x.

  (* std::make_tuple(std::set<Edge>(), (std::numeric_limits<WeightType>::max)(), false) *)
  Definition pt_ident : cyc3 := ([], wmax, false).

  (* the lambda cycle_min *)
  Definition pt_cycle_min (c1 c2 : cyc3) : cyc3 :=
    if negb (c3_found c1) || negb (c3_found c2) then
      (if c3_found c1 then c1 else c2)
    else if negb (wltb (c3_weight c2) (c3_weight c1)) then c1
    else c2.

  Definition pt_join_err (a b : tr_result cyc3) : tr_result cyc3 :=
    match a, b with
    | TrOk x, TrOk y => TrOk (pt_cycle_min x y)
    | TrOk _, e => e
    | e, _ => e
    end.

  (* one iteration of the loop in the body lambda: c = cycles[i] *)
  Definition pt_body_step (g : graph) (wts : list W) (trees : list (sp_tree W)) (pars : list (list bool))
             (sg : list nat) (sorted : list (cand W)) (i : nat) (acc : tr_result cyc3) : tr_result cyc3 :=
    match acc with
    | TrOk running_min =>
        match nth_error sorted i with
        | None => TrRange                      (* cycles[i] out of range: not reachable, i < cycles.size() *)
        | Some c =>
            match tc_build_limit g wts trees pars sg c (c3_found running_min) (c3_weight running_min) with
            | TrOk (TcFound cy w) =>
                if negb (c3_found running_min) || wltb w (c3_weight running_min)
                then TrOk (cy, w, true) else TrOk running_min
            | TrOk TcNot => TrOk running_min
            | TrNoNode => TrNoNode | TrRange => TrRange | TrFuel => TrFuel
            end
        end
    | err => err
    end.

  (* ---- ShortestOddCycleLookup<..., true>::compute_shortest_odd_cycle ---------------------------------------------- *)

  (* under given schedule trees: t1 for the parallel_for over the trees, t2 for the parallel_reduce over the candidates;
     returns the tuple and the parity fields left behind *)
  Definition pt_lookup_sched (g : graph) (wts : list W) (trees : list (sp_tree W)) (sorted : list (cand W))
             (sg : list nat) (t1 t2 : sched) (pars0 : list (list bool)) : tr_result (cyc3 * list (list bool)) :=
    match parallel_for (tr_result (list (list bool))) (pt_par_chunk g trees sg) t1 0 (TrOk pars0) with
    | TrOk pars =>
        match parallel_reduce (tr_result cyc3) (pt_body_step g wts trees pars sg sorted) pt_join_err (TrOk pt_ident) t2 0 with
        | TrOk r => TrOk (r, pars)
        | TrNoNode => TrNoNode | TrRange => TrRange | TrFuel => TrFuel
        end
    | TrNoNode => TrNoNode | TrRange => TrRange | TrFuel => TrFuel
    end.

  (* the schedules read from the stream; second component = the new stream position *)
  Definition pt_lookup (bits : list bool) (g : graph) (wts : list W) (trees : list (sp_tree W)) (sorted : list (cand W))
             (sg : list nat) (pos : nat) (pars0 : list (list bool)) : tr_result (cyc3 * list (list bool)) * nat :=
    let (t1, p1) := sched_of_bits bits pos (length trees) in
    let (t2, p2) := sched_of_bits bits p1 (length sorted) in
    (pt_lookup_sched g wts trees sorted sg t1 t2 pars0, p2).

  (* ---- _mcb_sva_trees<..., true> ---------------------------------------------------------------------------------- *)

  (* the main loop from phase k on (no swap; the support update is the plain sequential loop) *)
  Fixpoint pt_phases (bits : list bool) (g : graph) (wts : list W) (fi : forest_index) (trees : list (sp_tree W))
           (sorted : list (cand W)) (ks : list nat) (sup : list vec) (pos : nat) (pars : list (list bool))
           (acc : list (list nat)) (total : W) : sva_result W * nat :=
    match ks with
    | [] => (SvaOk (rev acc) total sup, pos)
    | k :: ks' =>
        let (r, pos1) := pt_lookup bits g wts trees sorted (indices_to_edges fi (nth k sup [])) pos pars in
        match r with
        | TrOk ((c, w, true), pars1) =>
            pt_phases bits g wts fi trees sorted ks' (update_supports sup k (edges_to_indices fi c)) pos1 pars1
                      (c :: acc) (wadd total w)
        | TrOk ((_, _, false), _) => (SvaNoCycle k, pos1)
        | _ => (SvaError k, pos1)
        end
    end.

  (* the run once index, trees and the sorted candidate vector exist *)
  Definition pt_run (bits : list bool) (g : graph) (wts : list W) (fi : forest_index) (trees : list (sp_tree W))
             (sorted : list (cand W)) : sva_result W * nat :=
    let csd := fi_csd fi in
    pt_phases bits g wts fi trees sorted (seq 0 csd) (map (fun i => [i]) (seq 0 csd)) 0 (pt_pars_init g trees) [] w0.

  (* the arrangement left by std::sort, given as positions in emission order *)
  Fixpoint pt_pick (cands : list (cand W)) (arr : list nat) : option (list (cand W)) :=
    match arr with
    | [] => Some []
    | i :: r =>
        match nth_error cands i, pt_pick cands r with
        | Some c, Some l => Some (c :: l)
        | _, _ => None
        end
    end.
  Definition pt_valid_arr (arr : list nat) (m : nat) : bool :=
    Nat.eqb (length arr) m && forallb (fun i => memb i arr) (seq 0 m).
  Definition pt_arrange (arr : list nat) (cands : list (cand W)) : option (list (cand W)) :=
    if pt_valid_arr arr (length cands) then pt_pick cands arr else None.

  Inductive pt_result :=
  | PtRun (r : sva_result W)
  | PtNoCollection                       (* the builder's model ended in one of its error values *)
  | PtBadArrangement.                    (* `arr` is not a permutation of the positions of the collection *)

  Definition mcb_sva_trees_tbb (b : tbuilder) (g : graph) (wts : list W) (roots picks arr : list nat)
             (bits : list bool) : pt_result * nat :=
    match create_index g roots with
    | None => (PtRun SvaNoIndex, 0)
    | Some fi =>
        match tb_collection W w0 wadd wltb b g wts picks with
        | CdOk (trees, cands) =>
            match pt_arrange arr cands with
            | Some sorted => let (r, pos) := pt_run bits g wts fi trees sorted in (PtRun r, pos)
            | None => (PtBadArrangement, 0)
            end
        | _ => (PtNoCollection, 0)
        end
    end.

  (* function-level entries for the correspondence.
     pt_lookup_seq: successive calls of ONE lookup object on the signed sets `sgs`: the stream position and the parity
     fields are threaded from call to call; stops at the first error value *)
  Fixpoint pt_lookup_seq (bits : list bool) (g : graph) (wts : list W) (trees : list (sp_tree W)) (sorted : list (cand W))
           (sgs : list (list nat)) (pos : nat) (pars : list (list bool)) : list (tr_result cyc3 * nat) :=
    match sgs with
    | [] => []
    | sg :: rest =>
        let (r, pos1) := pt_lookup bits g wts trees sorted sg pos pars in
        match r with
        | TrOk (x, pars1) => (TrOk x, pos1) :: pt_lookup_seq bits g wts trees sorted rest pos1 pars1
        | TrNoNode => [(TrNoNode, pos1)] | TrRange => [(TrRange, pos1)] | TrFuel => [(TrFuel, pos1)]
        end
    end.

  Inductive pt_call :=
  | PtCall (sorted : list (cand W)) (trees : list (sp_tree W)) (rs : list (tr_result cyc3 * nat))
  | PtCallNoCollection
  | PtCallBadArrangement.

  (* a fresh lookup object (parities as constructed) over the builder's collection arranged by `arr` *)
  Definition pt_lookup_call (b : tbuilder) (g : graph) (wts : list W) (picks arr : list nat) (sgs : list (list nat))
             (bits : list bool) : pt_call :=
    match tb_collection W w0 wadd wltb b g wts picks with
    | CdOk (trees, cands) =>
        match pt_arrange arr cands with
        | Some sorted => PtCall sorted trees (pt_lookup_seq bits g wts trees sorted sgs 0 (pt_pars_init g trees))
        | None => PtCallBadArrangement
        end
    | _ => PtCallNoCollection
    end.

  (* direct calls of CandidateCycleBuilder::operator() after a sequential update_parities of every tree:
     queries (candidate position in emission order, use_weight_limit, weight_limit) *)
  Inductive pt_bcall :=
  | PtBuild (cands : list (cand W)) (trees : list (sp_tree W)) (rs : list (tr_result (tc_answer W)))
  | PtBuildNoCollection
  | PtBuildNoParities.

  Definition pt_build_call (b : tbuilder) (g : graph) (wts : list W) (picks : list nat) (sg : list nat)
             (qs : list (nat * (bool * W))) : pt_bcall :=
    match tb_collection W w0 wadd wltb b g wts picks with
    | CdOk (trees, cands) =>
        match tp_all W g trees sg with
        | TrOk pars =>
            PtBuild cands trees
              (map (fun q => match nth_error cands (fst q) with
                             | Some c => tc_build_limit g wts trees pars sg c (fst (snd q)) (snd (snd q))
                             | None => TrRange
                             end) qs)
        | _ => PtBuildNoParities
        end
    | _ => PtBuildNoCollection
    end.
End ParTrees.

Arguments PtRun {W} r.
Arguments PtNoCollection {W}.
Arguments PtBadArrangement {W}.
Arguments PtCall {W} sorted trees rs.
Arguments PtCallNoCollection {W}.
Arguments PtCallBadArrangement {W}.
Arguments PtBuild {W} cands trees rs.
Arguments PtBuildNoCollection {W}.
Arguments PtBuildNoParities {W}.

(* ---- the exact-domain instances (extraction group "c03") ------------------------------------------------------- *)
Definition tc_build_limit_Z := tc_build_limit Z 0%Z Z.add Z.ltb.
Definition pt_lookup_sched_Z (wmax : Z) := pt_lookup_sched Z 0%Z Z.add Z.ltb wmax.
Definition pt_lookup_Z (wmax : Z) := pt_lookup Z 0%Z Z.add Z.ltb wmax.
Definition pt_run_Z (wmax : Z) := pt_run Z 0%Z Z.add Z.ltb wmax.
Definition mcb_sva_trees_tbb_Z (wmax : Z) := mcb_sva_trees_tbb Z 0%Z Z.add Z.ltb wmax.
Definition pt_lookup_call_Z (wmax : Z) := pt_lookup_call Z 0%Z Z.add Z.ltb wmax.
Definition pt_build_call_Z := pt_build_call Z 0%Z Z.add Z.ltb.
