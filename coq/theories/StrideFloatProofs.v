(* StrideFloatProofs.v — the floating-point stride of the MPI entry points IS the integer ceiling (property C04,
   former side condition B9 of MpiModel.v).  Prefix sf_.  Work package wpS.

   The MPI entry points cut `total` work items into P = world.size() slices with
       std::size_t stride = ceil((double) total / world.size());
   (/repo/include/parmcb/mpi/parmcb_sva_signed.hpp lines 111 and 160, mpi/parmcb_sva_trees.hpp line 96).  In C++ this is:
   convert `total` (std::size_t) to binary64, convert world.size() (int) to binary64 (usual arithmetic conversions),
   ONE correctly rounded binary64 division (round to nearest, ties to even), then ceil (exact on doubles), then the
   conversion back to std::size_t (exact, the value is a non-negative integer <= total).  MpiModel.stride uses the integer
   ceiling (total + P - 1) / P.  Here, in Flocq's terms (binary64 = generic format of FLT_exp (-1074) 53 over radix 2,
   rounding = round radix2 (FLT_exp (-1074) 53) ZnearestE):

     sf_format_IZR      every integer t with |t| <= 2^53 is a binary64 number  (both conversions are exact)
     sf_round_IZR       hence rounding leaves it unchanged
     sf_stride          0 <= t < 2^53, 1 <= P < 2^53:
                          Zceil (round (IZR t / IZR P)) = (t + P - 1) / P            (Z division)
     sf_stride_nat      the same over nat, with MpiModel.stride on the right-hand side
     sf_prim_of_uint63 / sf_prim_stride
                        the same for Coq's primitive floats: PrimFloat.div (of_uint63 t) (of_uint63 P) is finite and the
                        ceiling of its real value is (t + P - 1) / P  (extra axioms: FloatAxioms, primitive int63/float)
     sf_stride_pos / sf_stride_le
                        sanity: the rounded quotient is >= 0 and its ceiling is <= t (so the conversion of the ceiling back to
                        std::size_t is exact and in range)

   Proof of sf_stride.  x = t / P.  If P | t, x is an integer below 2^53, representable, so the division is exact.
   Otherwise t = P q + r with 1 <= r <= P - 1, so q + 1/P <= x <= q + 1 - 1/P; x >= 1/P > 2^-53 >= 2^-1022 is in the normal
   range, so |round x - x| <= 2^-53 x (Flocq relative_error_N_FLT) and 2^-53 x = 2^-53 t / P < 1/P because t < 2^53.
   Hence q < round x < q + 1, the ceiling is q + 1 = (t + P - 1) / P.  No overflow can occur (x <= t < 2^53), and the
   unbounded-exponent FLT format used here coincides with binary64 below 2^1024.

   Axioms: those of Coq's Reals as used by Flocq (ClassicalDedekindReals.sig_forall_dec, ClassicalDedekindReals.sig_not_dec,
   FunctionalExtensionality.functional_extensionality_dep, Classical_Prop.classic); the two sf_prim_ lemmas additionally use
   Coq's FloatAxioms specification of the primitive float / int63 operations (div_spec, of_uint63_spec, ... as used by
   Flocq.IEEE754.PrimFloat).  None is declared here. *)
From Coq Require Import Reals ZArith Lia Lra Psatz.
From Flocq Require Import Core Relative.
From Parmcb Require Import MpiModel.
Local Open Scope R_scope.

Local Instance sf_prec_gt_0 : Prec_gt_0 53 := eq_refl.

(* u = 2^-53, the unit roundoff of binary64 *)
Lemma sf_u_pos : 0 < bpow radix2 (-53).
Proof. apply bpow_gt_0. Qed.

Lemma sf_pow53 : IZR (2 ^ 53) = bpow radix2 53.
Proof.
  change (2 ^ 53)%Z with (Zpower radix2 53). apply IZR_Zpower. lia.
Qed.

Lemma sf_u_pow : bpow radix2 (-53) * IZR (2 ^ 53) = 1.
Proof.
  rewrite sf_pow53.
  rewrite <- bpow_plus. reflexivity.
Qed.

Lemma sf_half_ulp : / 2 * bpow radix2 (- (53) + 1) = bpow radix2 (-53).
Proof.
  change (- (53) + 1)%Z with (-53 + 1)%Z.
  rewrite bpow_plus. change (bpow radix2 1) with 2. field.
Qed.

(* ------------------------------------------------------------------------------------------------ *)
(* integers up to 2^53 in absolute value are binary64 numbers                                        *)
(* ------------------------------------------------------------------------------------------------ *)

Lemma sf_format_IZR_lt : forall t : Z, (Z.abs t < 2 ^ 53)%Z ->
  generic_format radix2 (FLT_exp (-1074) 53) (IZR t).
Proof.
  intros t Ht.
  apply generic_format_FLT.
  apply (FLT_spec radix2 (-1074) 53 (IZR t) (Float radix2 t 0)).
  - unfold F2R. cbn [Fnum Fexp bpow]. ring.
  - cbn [Fnum]. exact Ht.
  - cbn [Fexp]. lia.
Qed.

Lemma sf_format_pow53 : generic_format radix2 (FLT_exp (-1074) 53) (IZR (2 ^ 53)).
Proof.
  rewrite sf_pow53.
  apply generic_format_FLT_bpow; [exact sf_prec_gt_0 | lia].
Qed.

Lemma sf_format_IZR : forall t : Z, (Z.abs t <= 2 ^ 53)%Z ->
  generic_format radix2 (FLT_exp (-1074) 53) (IZR t).
Proof.
  intros t Ht.
  destruct (Z_lt_le_dec (Z.abs t) (2 ^ 53)) as [Hlt | Hge].
  - apply sf_format_IZR_lt; exact Hlt.
  - assert (Habs : Z.abs t = (2 ^ 53)%Z) by lia.
    destruct (Z_le_gt_dec 0 t) as [Hpos | Hneg].
    + rewrite Z.abs_eq in Habs by exact Hpos. rewrite Habs. exact sf_format_pow53.
    + rewrite Z.abs_neq in Habs by lia.
      replace t with (- (2 ^ 53))%Z by lia.
      rewrite opp_IZR. apply generic_format_opp. exact sf_format_pow53.
Qed.

Lemma sf_round_IZR : forall t : Z, (Z.abs t <= 2 ^ 53)%Z ->
  round radix2 (FLT_exp (-1074) 53) ZnearestE (IZR t) = IZR t.
Proof.
  intros t Ht. apply round_generic; [ typeclasses eauto | apply sf_format_IZR; exact Ht ].
Qed.

(* ------------------------------------------------------------------------------------------------ *)
(* one correctly rounded division followed by ceil                                                   *)
(* ------------------------------------------------------------------------------------------------ *)

(* the rounding error of a quotient of integers, scaled by the divisor, is below 1 *)
Lemma sf_div_error : forall t P : Z, (1 <= t < 2 ^ 53)%Z -> (1 <= P < 2 ^ 53)%Z ->
  IZR P * Rabs (round radix2 (FLT_exp (-1074) 53) ZnearestE (IZR t / IZR P) - IZR t / IZR P) < 1.
Proof.
  intros t P Ht HP.
  assert (Hp : 1 <= IZR P) by (apply IZR_le; lia).
  assert (Hp53 : IZR P <= IZR (2 ^ 53) - 1) by (rewrite <- minus_IZR; apply IZR_le; lia).
  assert (Ht1 : 1 <= IZR t) by (apply IZR_le; lia).
  assert (Ht53 : IZR t <= IZR (2 ^ 53) - 1) by (rewrite <- minus_IZR; apply IZR_le; lia).
  pose proof sf_u_pos as Hu. pose proof sf_u_pow as Hupow.
  set (u := bpow radix2 (-53)) in *.
  set (x := IZR t / IZR P).
  assert (Hxp : x * IZR P = IZR t) by (unfold x; field; lra).
  assert (Hinv : 0 < / IZR P) by (apply Rinv_0_lt_compat; lra).
  assert (Hx0 : 0 < x) by (unfold x, Rdiv; apply Rmult_lt_0_compat; lra).
  (* x is in the normal range *)
  assert (Hnorm : bpow radix2 (-1074 + 53 - 1) <= Rabs x).
  { rewrite Rabs_pos_eq by lra.
    apply Rle_trans with u.
    - unfold u. apply bpow_le. lia.
    - (* u <= x because u * P < 1 <= t = x * P *)
      apply Rmult_le_reg_r with (IZR P); [lra|]. rewrite Hxp.
      apply Rle_trans with 1; [|exact Ht1].
      apply Rle_trans with (u * IZR (2 ^ 53)); [|lra].
      apply Rmult_le_compat_l; lra. }
  pose proof (relative_error_N_FLT radix2 (-1074) 53 sf_prec_gt_0 (fun z => negb (Z.even z)) x Hnorm) as Herr.
  rewrite sf_half_ulp in Herr. fold u in Herr.
  rewrite (Rabs_pos_eq x) in Herr by lra.
  fold ZnearestE in Herr.
  apply Rle_lt_trans with (IZR P * (u * x)).
  - apply Rmult_le_compat_l; [lra | exact Herr].
  - replace (IZR P * (u * x)) with (u * (x * IZR P)) by ring. rewrite Hxp.
    apply Rlt_le_trans with (u * IZR (2 ^ 53)); [|lra].
    apply Rmult_lt_compat_l; lra.
Qed.

Lemma sf_stride : forall t P : Z, (0 <= t < 2 ^ 53)%Z -> (1 <= P < 2 ^ 53)%Z ->
  Zceil (round radix2 (FLT_exp (-1074) 53) ZnearestE (IZR t / IZR P)) = ((t + P - 1) / P)%Z.
Proof.
  intros t P Ht HP.
  assert (Hp : 1 <= IZR P) by (apply IZR_le; lia).
  pose proof (Z.div_mod t P ltac:(lia)) as Hdm.
  pose proof (Z.mod_pos_bound t P ltac:(lia)) as Hmod.
  set (q := (t / P)%Z) in *. set (r := (t mod P)%Z) in *.
  assert (Hq0 : (0 <= q)%Z) by (unfold q; apply Z.div_pos; lia).
  destruct (Z.eq_dec r 0) as [Hr0 | Hrn0].
  - (* P divides t: the quotient is an integer below 2^53, the division is exact *)
    assert (Hres : ((t + P - 1) / P)%Z = q).
    { symmetry. apply (Z.div_unique (t + P - 1) P q (P - 1)); lia. }
    rewrite Hres.
    replace (IZR t / IZR P) with (IZR q).
    + rewrite sf_round_IZR by nia. apply Zceil_IZR.
    + replace t with (P * q)%Z by lia. rewrite mult_IZR. field. lra.
  - (* otherwise the rounded quotient stays strictly between q and q + 1 *)
    assert (Hres : ((t + P - 1) / P)%Z = (q + 1)%Z).
    { symmetry. apply (Z.div_unique (t + P - 1) P (q + 1) (r - 1)); lia. }
    rewrite Hres.
    assert (Ht1 : (1 <= t < 2 ^ 53)%Z) by nia.
    pose proof (sf_div_error t P Ht1 HP) as Herr.
    set (x := IZR t / IZR P) in *.
    set (y := round radix2 (FLT_exp (-1074) 53) ZnearestE x) in *.
    assert (Hxp : IZR P * x = IZR P * IZR q + IZR r).
    { unfold x. rewrite <- mult_IZR, <- plus_IZR, <- Hdm. field. lra. }
    assert (Hr1 : 1 <= IZR r) by (apply IZR_le; lia).
    assert (Hr2 : IZR r <= IZR P - 1) by (rewrite <- minus_IZR; apply IZR_le; lia).
    (* P * |y - x| < 1, P * x in [P q + 1, P q + P - 1]  ==>  P q < P y < P q + P *)
    assert (Hlo : IZR P * IZR q < IZR P * y).
    { destruct (Rle_lt_dec x y) as [Hxy | Hyx].
      - apply Rlt_le_trans with (IZR P * x); [lra|]. apply Rmult_le_compat_l; lra.
      - rewrite Rabs_left in Herr by lra. lra. }
    assert (Hhi : IZR P * y < IZR P * (IZR q + 1)).
    { destruct (Rle_lt_dec y x) as [Hyx | Hxy].
      - apply Rle_lt_trans with (IZR P * x); [apply Rmult_le_compat_l; lra | lra].
      - rewrite Rabs_pos_eq in Herr by lra. lra. }
    apply Zceil_imp.
    replace (q + 1 - 1)%Z with q by lia. rewrite plus_IZR.
    split.
    + apply Rmult_lt_reg_l with (IZR P); lra.
    + apply Rlt_le. apply Rmult_lt_reg_l with (IZR P); lra.
Qed.

(* sanity: the rounded quotient is non-negative and its ceiling does not exceed t *)
Lemma sf_stride_pos : forall t P : Z, (0 <= t < 2 ^ 53)%Z -> (1 <= P < 2 ^ 53)%Z ->
  (0 <= Zceil (round radix2 (FLT_exp (-1074) 53) ZnearestE (IZR t / IZR P)))%Z.
Proof.
  intros t P Ht HP. rewrite sf_stride by assumption.
  apply Z.div_pos; lia.
Qed.

Lemma sf_stride_le : forall t P : Z, (0 <= t < 2 ^ 53)%Z -> (1 <= P < 2 ^ 53)%Z ->
  (Zceil (round radix2 (FLT_exp (-1074) 53) ZnearestE (IZR t / IZR P)) <= t)%Z.
Proof.
  intros t P Ht HP. rewrite sf_stride by assumption.
  destruct (Z.eq_dec t 0) as [H0 | Hn0].
  - subst t. rewrite Z.div_small by lia. lia.
  - apply Z.div_le_upper_bound; nia.
Qed.

(* ------------------------------------------------------------------------------------------------ *)
(* the statement over nat, against MpiModel.stride                                                   *)
(* ------------------------------------------------------------------------------------------------ *)

Lemma sf_stride_model_Z : forall total P : nat, (1 <= P)%nat ->
  Z.of_nat (stride total P) = ((Z.of_nat total + Z.of_nat P - 1) / Z.of_nat P)%Z.
Proof.
  intros total P HP. unfold stride.
  rewrite Nat2Z.inj_div, Nat2Z.inj_sub, Nat2Z.inj_add by lia.
  reflexivity.
Qed.

Lemma sf_stride_nat : forall total P : nat,
  (Z.of_nat total < 2 ^ 53)%Z -> (1 <= P)%nat -> (Z.of_nat P < 2 ^ 53)%Z ->
  Z.to_nat (Zceil (round radix2 (FLT_exp (-1074) 53) ZnearestE (INR total / INR P))) = stride total P.
Proof.
  intros total P Ht HP1 HP2.
  rewrite !INR_IZR_INZ.
  rewrite sf_stride by lia.
  rewrite <- sf_stride_model_Z by exact HP1.
  apply Nat2Z.id.
Qed.

(* ------------------------------------------------------------------------------------------------ *)
(* the same with Coq's primitive binary64 floats (tied to Flocq by Flocq.IEEE754.PrimFloat)          *)
(* ------------------------------------------------------------------------------------------------ *)
(* (double) total and the int -> double conversion of world.size() are PrimFloat.of_uint63, the division is
   PrimFloat.div (= Flocq's Bdiv mode_NE, div_equiv); sf_FR x is the real value of the double x (0 for infinities and
   NaN, hence the separate finiteness claim).  ceil itself has no primitive counterpart: it is Zceil of the real value,
   which is exact on doubles.  These two lemmas additionally depend on Coq's FloatAxioms / primitive int63 and float
   operations (as FloatSumProofs.v does). *)
From Coq Require Import Floats.
From Flocq Require Import BinarySingleNaN PrimFloat.

Definition sf_FR (x : PrimFloat.float) : R := B2R (Prim2B x).

Lemma sf_bpow_emax_gt : IZR (2 ^ 53) < bpow radix2 emax.
Proof.
  rewrite sf_pow53. apply bpow_lt. reflexivity.
Qed.

(* the conversion of an unsigned 63-bit integer <= 2^53 to a double is exact *)
Lemma sf_prim_of_uint63 : forall i : Uint63.int, (Uint63.to_Z i <= 2 ^ 53)%Z ->
  is_finite (Prim2B (of_uint63 i)) = true /\ sf_FR (of_uint63 i) = IZR (Uint63.to_Z i).
Proof.
  intros i Hi. unfold sf_FR.
  pose proof (Uint63.to_Z_bounded i) as Hb.
  rewrite of_int63_equiv.
  pose proof (binary_normalize_correct prec emax Hprec Hmax mode_NE (Uint63.to_Z i) 0 false) as H.
  cbv zeta in H.
  assert (HF : F2R (Float radix2 (Uint63.to_Z i) 0) = IZR (Uint63.to_Z i)).
  { unfold F2R. cbn [Fnum Fexp bpow]. ring. }
  rewrite HF in H.
  change (round_mode mode_NE) with ZnearestE in H.
  change (fexp prec emax) with (FLT_exp (-1074) 53) in H.
  rewrite sf_round_IZR in H by lia.
  rewrite Rlt_bool_true in H.
  - destruct H as (H1 & H2 & _). split; assumption.
  - rewrite Rabs_pos_eq by (apply IZR_le; lia).
    apply Rle_lt_trans with (IZR (2 ^ 53)); [apply IZR_le; lia | exact sf_bpow_emax_gt].
Qed.

Lemma sf_prim_stride : forall t P : Uint63.int,
  (Uint63.to_Z t < 2 ^ 53)%Z -> (1 <= Uint63.to_Z P < 2 ^ 53)%Z ->
  PrimFloat.is_finite (of_uint63 t / of_uint63 P)%float = true /\
  Zceil (sf_FR (of_uint63 t / of_uint63 P)%float) =
    ((Uint63.to_Z t + Uint63.to_Z P - 1) / Uint63.to_Z P)%Z.
Proof.
  intros t P Ht HP. unfold sf_FR.
  pose proof (Uint63.to_Z_bounded t) as Hbt.
  destruct (sf_prim_of_uint63 t ltac:(lia)) as (Ft & Rt).
  destruct (sf_prim_of_uint63 P ltac:(lia)) as (FP & RP).
  unfold sf_FR in Rt, RP.
  rewrite is_finite_equiv, div_equiv.
  pose proof (Bdiv_correct prec emax Hprec Hmax mode_NE (Prim2B (of_uint63 t)) (Prim2B (of_uint63 P))) as H.
  rewrite Rt, RP in H.
  assert (HP0 : IZR (Uint63.to_Z P) <> 0) by (apply not_0_IZR; lia).
  specialize (H HP0).
  change (round_mode mode_NE) with ZnearestE in H.
  change (fexp prec emax) with (FLT_exp (-1074) 53) in H.
  set (zt := Uint63.to_Z t) in *. set (zp := Uint63.to_Z P) in *.
  pose proof (sf_stride zt zp ltac:(lia) HP) as Hs.
  pose proof (sf_stride_le zt zp ltac:(lia) HP) as Hle.
  set (y := round radix2 (FLT_exp (-1074) 53) ZnearestE (IZR zt / IZR zp)) in *.
  assert (Hy0 : 0 <= y).
  { unfold y. apply round_ge_generic; [typeclasses eauto | typeclasses eauto | apply generic_format_0 |].
    unfold Rdiv. apply Rmult_le_pos; [apply IZR_le; lia|].
    apply Rlt_le, Rinv_0_lt_compat. apply IZR_lt; lia. }
  assert (Hy1 : y <= IZR zt).
  { apply Rle_trans with (IZR (Zceil y)); [apply Zceil_ub | apply IZR_le; exact Hle]. }
  rewrite Rlt_bool_true in H.
  - destruct H as (H1 & H2 & _). rewrite H2, H1. split; [exact Ft | exact Hs].
  - rewrite Rabs_pos_eq by exact Hy0.
    apply Rle_lt_trans with (IZR (2 ^ 53)); [|exact sf_bpow_emax_gt].
    apply Rle_trans with (IZR zt); [exact Hy1 | apply IZR_le; lia].
Qed.
