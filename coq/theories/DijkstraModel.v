(* DijkstraModel.v — executable model of parmcb::dijkstra (include/parmcb/detail/dijkstra.hpp), the plain
   single-source search used by NonSpannerEdgesCycleBuilder to close every non-spanner edge by a path of
   the spanner.  Generic in the weight type (Section); the queue is boost::d_ary_heap_indirect<Vertex, 4,
   ...> keyed by the distance map and is modelled exactly (HeapModel.v), so a run is deterministic.
   Definitions only.

   State, as in the code: dist[v] (None = numeric_limits::max, the initial fill), pred[v] =
   (false, _) / (true, e) as an option of the edge id, and the heap array.
   Error values (no silent totalisation):
     DjFuel   — the while loop did not finish within nv+1 iterations (every vertex is pushed at most once:
                a push happens only when pred[w] is still (false,_), and the source is skipped);
     DjBroken — vector::at out of range, queue.update(w) on a vertex that is not in the queue (in the C++
                an access at index_in_heap = size_t(-1), undefined behaviour), or a visited vertex without
                a distance.
   Deviation: closed_plus saturates when an operand equals numeric_limits::max; the exact domain keeps all
   sums far below that value, so `combine` is modelled as plain addition of a finite distance. *)
From Parmcb Require Export GraphModel HeapModel.

Section Dijkstra.
  Variable W : Type.
  Variable w0 : W.                           (* DistanceType() *)
  Variable wadd : W -> W -> W.
  Variable wltb : W -> W -> bool.            (* std::less *)

  Definition dj_wt (wts : list W) (e : nat) : W := nth e wts w0.

  Record dj_state := {
    dj_dist : list (option W);
    dj_pred : list (option nat);             (* Some e = (true, e) *)
    dj_heap : list nat
  }.

  (* keys as the heap reads them: an unset distance is numeric_limits::max *)
  Definition dj_klt (a b : option W) : bool :=
    match a, b with Some x, Some y => wltb x y | Some _, None => true | None, _ => false end.
  Definition dj_key (dist : list (option W)) (u : nat) : option W := nth u dist None.

  (* body of the loop over out_edges(u); ew = (edge id, the endpoint that is not u — u itself for a self-loop) *)
  Definition dj_relax (n : nat) (wts : list W) (s u : nat) (du : W) (st : option dj_state) (ew : nat * nat)
    : option dj_state :=
    match st with
    | None => None
    | Some st0 =>
        let '(e, w) := ew in
        if Nat.eqb w u then st                                   (* self-loop *)
        else if Nat.eqb w s then st
        else if Nat.leb n w then None                            (* .at(): out of range *)
        else
          let c := wadd du (dj_wt wts e) in
          match nth w (dj_pred st0) None with
          | None =>                                              (* first time found *)
              let d' := set_nth (dj_dist st0) w (Some c) in
              Some {| dj_dist := d'; dj_pred := set_nth (dj_pred st0) w (Some e);
                      dj_heap := heap_push (option W) dj_klt (dj_key d') (dj_heap st0) w |}
          | Some _ =>
              match nth w (dj_dist st0) None with
              | None => None
              | Some dw =>
                  if wltb c dw then                              (* already reached: decrease *)
                    let d' := set_nth (dj_dist st0) w (Some c) in
                    match heap_update (option W) dj_klt (dj_key d') (dj_heap st0) w with
                    | Some h' => Some {| dj_dist := d'; dj_pred := set_nth (dj_pred st0) w (Some e); dj_heap := h' |}
                    | None => None
                    end
                  else st
              end
          end
    end.

  Inductive dj_result :=
  | DjOk (dist : list (option W)) (pred : list (option nat))
  | DjFuel
  | DjBroken.

  Fixpoint dj_loop (fuel : nat) (g : graph) (wts : list W) (s : nat) (st : dj_state) : dj_result :=
    match fuel with
    | O => DjFuel
    | S fuel' =>
        match dj_heap st with
        | [] => DjOk (dj_dist st) (dj_pred st)
        | u :: _ =>
            (* top(); pop(); d_u = dist[u] *)
            let st1 := {| dj_dist := dj_dist st; dj_pred := dj_pred st;
                          dj_heap := heap_pop (option W) dj_klt (dj_key (dj_dist st)) (dj_heap st) |} in
            match nth u (dj_dist st) None with
            | None => DjBroken
            | Some du =>
                match fold_left (dj_relax (nv g) wts s u du) (out_edges g u) (Some st1) with
                | None => DjBroken
                | Some st2 => dj_loop fuel' g wts s st2
                end
            end
        end
    end.

  Definition dj_init (n s : nat) : dj_state :=
    {| dj_dist := set_nth (map (fun _ => None) (seq 0 n)) s (Some w0);
       dj_pred := map (fun _ => None) (seq 0 n);
       dj_heap := [s] |}.

  Definition dijkstra (g : graph) (wts : list W) (s : nat) : dj_result :=
    if Nat.ltb s (nv g) then dj_loop (S (nv g)) g wts s (dj_init (nv g) s) else DjBroken.
End Dijkstra.

Arguments DjOk {W}. Arguments DjFuel {W}. Arguments DjBroken {W}.
