(* IsoProofsF3.v — every collection (Horton, FVS, isometric) CONTAINS a minimum cycle basis (C14_sufficient_statement):
   the cycles emitted by an accepted run of the tree-based algorithm are cycles of candidates of the collection
   (isof_accept_cands), an accepted run exists and emits a minimum cycle basis when the collection is sufficient
   (TreesProofs3.trees_first_total_modulo_sufficiency), and the three collections are sufficient (TreesProofs4
   horton_sufficient / fvs_sufficient, IsoProofsF2.iso_sufficient).  Prefix isof_. *)
From Coq Require Import List Arith Bool Lia ZArith Permutation.
From Parmcb Require Import GraphModel GF2Model GraphSpec GraphLemmas McbSpec LexSPModel FvsModel CandidatesModel
     CandidatesProofsZ ForestModel SvaModel SvaSpec SvaProofs TreesModel TreesProofs3 TreesProofs4 TreesProofs5
     IsoProofsF2.
Import ListNotations.

(* = Properties_C14.c14_contains_mcb *)
Definition isof_contains_mcb (g : graph) (wts : list Z) (trees : list (sp_tree Z)) (cs : list (cand Z)) : Prop :=
  exists B, McbSpec.min_cycle_basis g wts B /\
            forall C, In C B -> exists c t, In c cs /\ nth_error trees (c_tree c) = Some t /\ c14_cycle g wts t c C.

Section Contains.
  Variable b : tbuilder.
  Variable g : graph.
  Variable wts : list Z.
  Variable roots picks : list nat.
  Hypothesis Hsg : simple_graph g.
  Hypothesis Hpos : positive_weights g wts.
  Hypothesis Hr : forall v, v < nv g -> In v roots.

  (* the cycles of an accepted run are cycles of candidates *)
  Theorem isof_accept_cands cycles total trees cands :
    tb_collection Z 0%Z Z.add Z.ltb b g wts picks = CdOk (trees, cands) ->
    mcb_sva_trees_accept_Z b g wts roots picks cycles = Some total ->
    forall C, In C cycles -> exists cd t, In cd cands /\ nth_error trees (c_tree cd) = Some t /\ c14_cycle g wts t cd C.
  Proof.
    intros Hc0 Hacc.
    destruct (tr_accept_inv b g wts roots picks cycles total Hacc) as (fi & trees' & cands' & sup & Hci & Hc & Hrun).
    rewrite Hc0 in Hc. injection Hc as <- <-.
    pose proof (tr_collection_ok b g wts picks trees cands Hsg Hpos Hc0) as Hcol.
    pose proof (tr_accept_sound_c g wts roots fi trees cands Hsg Hr Hci Hcol cycles) as Hsnd.
    pose proof (select_none_ok (fi_csd fi)) as Hsel.
    destruct (sva_generic_basis_c g roots fi Z 0%Z Z.add _ _ cycles total sup Hsg Hr Hci Hsel Hsnd Hrun) as (Hl & _).
    pose proof (sva_run_inv g fi Z 0%Z Z.add _ _ cycles total sup Hsel Hsnd Hrun) as I.
    intros C HC. apply (In_nth _ _ []) in HC as (j & Hj & <-).
    assert (Hj' : j < fi_csd fi) by (rewrite <- Hl; exact Hj).
    destruct (inv_found _ _ _ _ _ _ I j Hj') as (w & Hsr).
    destruct (tr_accept_answer g wts fi trees cands Hsg Hcol cycles _ _ _ _ Hsr) as [_ (_ & _ & _ & Hex & _)].
    exact Hex.
  Qed.

  Theorem isof_contains trees cands :
    tb_collection Z 0%Z Z.add Z.ltb b g wts picks = CdOk (trees, cands) ->
    collection_sufficient_all g wts trees cands -> isof_contains_mcb g wts trees cands.
  Proof.
    intros Hc Hsuf.
    destruct (trees_first_total_modulo_sufficiency b g wts roots picks Hsg Hpos Hr trees cands Hc)
      as (cycles & total & sup & _ & Hmin & _ & _ & Hacc).
    { intros fi _. apply tr_sufficient_all_canonical. exact Hsuf. }
    exists cycles. split; [exact Hmin|]. apply (isof_accept_cands cycles total trees cands Hc Hacc).
  Qed.
End Contains.

Lemma isof_all_roots g : forall v, v < nv g -> In v (seq 0 (nv g)).
Proof. intros v Hv. apply in_seq. lia. Qed.

(* = Properties_C14.C14_sufficient_statement *)
Theorem isof_C14_sufficient :
  forall g wts, simple_graph g -> positive_weights g wts ->
  (forall trees cs, horton_cycles_Z g wts = CdOk (trees, cs) -> isof_contains_mcb g wts trees cs) /\
  (forall picks trees cs, fvs_cycles_Z g wts picks = CdOk (trees, cs) -> isof_contains_mcb g wts trees cs) /\
  (exists trees cs, iso_cycles_Z g wts = CdOk (trees, cs) /\ isof_contains_mcb g wts trees cs).
Proof.
  intros g wts Hsg Hpos. split; [|split].
  - intros trees cs H. apply (isof_contains TbHorton g wts (seq 0 (nv g)) [] Hsg Hpos (isof_all_roots g) trees cs H).
    eapply horton_sufficient; eauto.
  - intros picks trees cs H. apply (isof_contains TbFvs g wts (seq 0 (nv g)) picks Hsg Hpos (isof_all_roots g) trees cs H).
    eapply fvs_sufficient; eauto.
  - destruct (iso_total g wts Hsg Hpos) as (trees & cs & H). exists trees, cs. split; [exact H|].
    apply (isof_contains TbIso g wts (seq 0 (nv g)) [] Hsg Hpos (isof_all_roots g) trees cs H).
    apply iso_sufficient; assumption.
Qed.

(* the isometric collection contains a minimum cycle basis, for the collection actually returned *)
Theorem isof_iso_contains_mcb g wts trees cs : simple_graph g -> positive_weights g wts ->
  iso_cycles_Z g wts = CdOk (trees, cs) -> isof_contains_mcb g wts trees cs.
Proof.
  intros Hsg Hpos H. apply (isof_contains TbIso g wts (seq 0 (nv g)) [] Hsg Hpos (isof_all_roots g) trees cs H).
  apply iso_sufficient; assumption.
Qed.

Print Assumptions isof_C14_sufficient.
Print Assumptions isof_iso_contains_mcb.
