(* GF2RenameProofs.v — the SpVecGF2 model (GF2Model.v) commutes with every strictly increasing
   renaming of the coordinates (property C17, correspondence streams "big-coordinates" and
   "narrow-coordinate-type" of tools/props/c17.py).

   The check runs the C++ class on a history whose coordinates were renamed by a strictly
   increasing map f (tokens renamed by c17.py/map_coords: the coordinate of `U d i`, the operand
   list of `S d {…}` and of `T a {…}`), runs the extracted model on the small pre-image and renames
   the model's final vectors (c17.py/map_output: vectors renamed, outputs of D/T/Z untouched).
   [run_dump_rename] proves that this is exactly what the model does on the renamed history.

   No side condition on the operand lists is needed: the model's own normalisation
   [set_of_list] (repeated std::set insert: sorts, drops duplicates) only compares coordinates,
   hence commutes with f on ARBITRARY lists (unsorted, with duplicates) — [set_of_list_rename].
   Likewise [vadd]/[vdot] commute with f on arbitrary lists (no canonical-form hypothesis). *)
From Coq Require Import List Arith Bool Lia.
From Parmcb Require Import GF2Model GF2Proofs.
Import ListNotations.

Definition StrictMono (f : nat -> nat) : Prop := forall a b, a < b -> f a < f b.

Definition rename_vec (f : nat -> nat) (v : vec) : vec := map f v.

(* exactly the tokens renamed by c17.py/map_coords: the coordinate of U, the lists of S and T;
   vector identifiers are never renamed *)
Definition rename_op (f : nat -> nat) (o : op) : op :=
  match o with
  | OUnit d i => OUnit d (f i)
  | OSet d l => OSet d (map f l)
  | ODotSet a l => ODotSet a (map f l)
  | OCopy d a => OCopy d a
  | OMove d a => OMove d a
  | OAssign d a => OAssign d a
  | OAdd d a b => OAdd d a b
  | OAddAssign d a => OAddAssign d a
  | OClear d => OClear d
  | ODot a b => ODot a b
  | OSize a => OSize a
  end.

(* ---- a strictly increasing map preserves the three-way comparison ---------------- *)

Lemma StrictMono_compare f : StrictMono f -> forall x y, Nat.compare (f x) (f y) = Nat.compare x y.
Proof.
  intros Hf x y. destruct (Nat.compare_spec x y) as [E|L|G].
  - subst y. apply Nat.compare_refl.
  - apply Nat.compare_lt_iff. apply Hf. exact L.
  - apply Nat.compare_gt_iff. apply Hf. exact G.
Qed.

Lemma StrictMono_inj f : StrictMono f -> forall x y, f x = f y -> x = y.
Proof.
  intros Hf x y E. destruct (Nat.lt_trichotomy x y) as [L|[L|L]].
  - apply Hf in L. lia.
  - exact L.
  - apply Hf in L. lia.
Qed.

(* ---- the operations commute with the renaming (arbitrary lists) ------------------- *)

Lemma vadd_rename f : StrictMono f -> forall u v,
  vadd (map f u) (map f v) = map f (vadd u v).
Proof.
  intros Hf u. induction u as [|x u IHu]; intros v.
  - cbn [map]. rewrite !vadd_nil_l. reflexivity.
  - induction v as [|y v IHv].
    + cbn [map]. rewrite !vadd_nil_r. reflexivity.
    + cbn [map]. rewrite !vadd_cons. rewrite (StrictMono_compare f Hf).
      destruct (Nat.compare x y).
      * apply IHu.
      * cbn [map]. f_equal. apply (IHu (y :: v)).
      * cbn [map]. f_equal. apply IHv.
Qed.

Lemma vdot_rename f : StrictMono f -> forall u v,
  vdot (map f u) (map f v) = vdot u v.
Proof.
  intros Hf u. induction u as [|x u IHu]; intros v.
  - cbn [map]. rewrite !vdot_nil_l. reflexivity.
  - induction v as [|y v IHv].
    + cbn [map]. rewrite !vdot_nil_r. reflexivity.
    + cbn [map]. rewrite !vdot_cons. rewrite (StrictMono_compare f Hf).
      destruct (Nat.compare x y).
      * f_equal. apply IHu.
      * apply (IHu (y :: v)).
      * apply IHv.
Qed.

(* the model's normalisation of set operands: std::set insert … *)
Lemma set_insert_rename f : StrictMono f -> forall x s,
  set_insert (f x) (map f s) = map f (set_insert x s).
Proof.
  intros Hf x s. induction s as [|y s IH].
  - reflexivity.
  - cbn [map set_insert]. rewrite (StrictMono_compare f Hf).
    destruct (Nat.compare x y).
    + reflexivity.
    + reflexivity.
    + cbn [map]. f_equal. exact IH.
Qed.

Lemma set_of_list_rename_gen f : StrictMono f -> forall l s,
  fold_left (fun s x => set_insert x s) (map f l) (map f s) =
  map f (fold_left (fun s x => set_insert x s) l s).
Proof.
  intros Hf l. induction l as [|x l IH]; intros s.
  - reflexivity.
  - cbn [map fold_left]. rewrite (set_insert_rename f Hf). apply IH.
Qed.

(* … and the whole normalisation, on arbitrary (unsorted, duplicated) operand lists:
   renaming before normalising = normalising before renaming *)
Lemma set_of_list_rename f : StrictMono f -> forall l,
  set_of_list (map f l) = map f (set_of_list l).
Proof.
  intros Hf l. unfold set_of_list. apply (set_of_list_rename_gen f Hf l []).
Qed.

(* ---- histories ------------------------------------------------------------------ *)

(* pointwise relation between stores (no functional extensionality) *)
Definition store_rel (f : nat -> nat) (s s' : store) : Prop :=
  forall j, s' j = rename_vec f (s j).

Lemma store_rel_upd f s s' d v v' :
  store_rel f s s' -> v' = rename_vec f v -> store_rel f (upd s d v) (upd s' d v').
Proof.
  intros H E j. unfold upd. destruct (Nat.eqb j d); [exact E | apply H].
Qed.

Lemma step_rename f : StrictMono f -> forall s s' o,
  store_rel f s s' ->
  store_rel f (fst (step s o)) (fst (step s' (rename_op f o))) /\
  snd (step s' (rename_op f o)) = snd (step s o).
Proof.
  intros Hf s s' o H. unfold rename_vec in *.
  destruct o as [d i|d l|d a|d a|d a|d a b|d a|d|a b|a l|a]; cbn [rename_op step fst snd].
  - split; [|reflexivity]. apply store_rel_upd; [exact H|reflexivity].
  - split; [|reflexivity]. apply store_rel_upd; [exact H|]. apply (set_of_list_rename f Hf).
  - split; [|reflexivity]. apply store_rel_upd; [exact H|apply H].
  - split; [|reflexivity]. apply store_rel_upd; [exact H|apply H].
  - split; [|reflexivity]. apply store_rel_upd; [exact H|apply H].
  - split; [|reflexivity]. apply store_rel_upd; [exact H|].
    rewrite (H a), (H b). apply (vadd_rename f Hf).
  - split; [|reflexivity]. apply store_rel_upd; [exact H|].
    rewrite (H d), (H a). apply (vadd_rename f Hf).
  - split; [|reflexivity]. apply store_rel_upd; [exact H|reflexivity].
  - split; [exact H|]. rewrite (H a), (H b). unfold rename_vec.
    rewrite (vdot_rename f Hf). reflexivity.
  - split; [exact H|]. rewrite (H a). unfold rename_vec.
    rewrite (set_of_list_rename f Hf), (vdot_rename f Hf). reflexivity.
  - split; [exact H|]. rewrite (H a). unfold rename_vec. rewrite map_length. reflexivity.
Qed.

Lemma run_rename f : StrictMono f -> forall ops s s',
  store_rel f s s' ->
  store_rel f (fst (run s ops)) (fst (run s' (map (rename_op f) ops))) /\
  snd (run s' (map (rename_op f) ops)) = snd (run s ops).
Proof.
  intros Hf ops. induction ops as [|o ops IH]; intros s s' H.
  - cbn [map run fst snd]. split; [exact H|reflexivity].
  - cbn [map run].
    destruct (step_rename f Hf s s' o H) as [H1 E1].
    destruct (step s o) as [s1 o1] eqn:Es.
    destruct (step s' (rename_op f o)) as [s1' o1'] eqn:Es'.
    cbn [fst snd] in H1, E1. subst o1'.
    destruct (IH s1 s1' H1) as [H2 E2].
    destruct (run s1 ops) as [s2 o2] eqn:Er.
    destruct (run s1' (map (rename_op f) ops)) as [s2' o2'] eqn:Er'.
    cbn [fst snd] in *. subst o2'. split; [exact H2|reflexivity].
Qed.

Lemma empty_store_rel f : store_rel f empty_store empty_store.
Proof. intros j. reflexivity. Qed.

(* what the correspondence compares: the observer outputs are unchanged, the K dumped vectors
   are renamed.  No hypothesis on the histories (operand lists arbitrary, any identifiers). *)
Lemma run_dump_rename : forall f K ops, StrictMono f ->
  run_dump K (map (rename_op f) ops) =
  (fst (run_dump K ops), map (rename_vec f) (snd (run_dump K ops))).
Proof.
  intros f K ops Hf. unfold run_dump.
  destruct (run_rename f Hf ops empty_store empty_store (empty_store_rel f)) as [H E].
  destruct (run empty_store ops) as [s o] eqn:Er.
  destruct (run empty_store (map (rename_op f) ops)) as [s' o'] eqn:Er'.
  cbn [fst snd] in *. subst o'. f_equal.
  rewrite map_map. apply map_ext. intros j. apply H.
Qed.

(* the renamed vectors are still in canonical form and no two coordinates are merged *)
Lemma rename_vec_sorted f v : StrictMono f -> sorted v -> sorted (rename_vec f v).
Proof.
  intros Hf Hs. unfold sorted, rename_vec in *. induction Hs as [|x v Hs IH Hx].
  - constructor.
  - cbn [map]. constructor; [exact IH|].
    apply Forall_forall. intros y Hy. apply in_map_iff in Hy. destruct Hy as [z [Ez Hz]].
    subst y. apply Hf. rewrite Forall_forall in Hx. apply Hx. exact Hz.
Qed.

Lemma rename_vec_mem f v i : StrictMono f -> mem (rename_vec f v) (f i) = mem v i.
Proof.
  intros Hf. unfold rename_vec. induction v as [|x v IH].
  - reflexivity.
  - cbn [map]. rewrite !mem_cons, IH. f_equal.
    destruct (Nat.eqb_spec i x) as [E|N].
    + subst x. apply Nat.eqb_refl.
    + apply Nat.eqb_neq. intros E. apply N. apply (StrictMono_inj f Hf). exact E.
Qed.
