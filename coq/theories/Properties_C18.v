(* Properties_C18.v — fp<T>::ext_gcd, fp<T>::get_mult_inverse, primes<T>::is_prime and SpVecFP<P>
   (include/parmcb/fp.hpp, include/parmcb/spvecfp.hpp) implement arithmetic over Z/p.
   Only statements; each closed by [exact <lemma>] and followed by Print Assumptions.

   Scope: the models (FpModel.v) compute over unbounded Z.  For the built-in instantiations of T / P
   the statements transfer to executions in which no intermediate value overflows
   (-a and -b for the most negative value; q * _x[1-i], q * _y[1-i] in ext_gcd;
   value * a, value * v_value and value + v_value in SpVecFP).  This side condition is not
   discharged here; it is turned into theorems (bounds on every intermediate value of a traced
   restatement of the models) in Properties_C18_overflow.v. *)
From Coq Require Import ZArith List Bool Znumtheory Sorted.
From Parmcb Require Import FpModel FpProofs.
Import ListNotations.
Local Open Scope Z_scope.

(* ---- ext_gcd ------------------------------------------------------------------------ *)

(* For every pair not both zero the (repaired) ext_gcd terminates within its logarithmic fuel
   (GcdOutOfFuel is never returned), returns the non-negative gcd and Bezout coefficients for
   the *signed* inputs. *)
Theorem C18_ext_gcd :
  forall a b : Z, (a, b) <> (0, 0) ->
  exists g x y, ext_gcd a b = GcdOk g x y /\ g = Z.gcd a b /\ 0 <= g /\ a * x + b * y = g.
Proof. exact ext_gcd_correct. Qed.
Print Assumptions C18_ext_gcd.

(* Defect D1: the source at the pinned commit violates the Bezout identity (a = -4, b = 0). *)
Theorem C18_ext_gcd_orig_refuted :
  exists a b xin yin, (a, b) <> (0, 0) /\
  exists g x y, ext_gcd_orig a b xin yin = GcdOk g x y /\ a * x + b * y <> g.
Proof. exact ext_gcd_orig_refuted. Qed.
Print Assumptions C18_ext_gcd_orig_refuted.

(* ---- get_mult_inverse --------------------------------------------------------------- *)

(* For a positive modulus: an inverse is returned exactly when one exists, otherwise the
   function throws; InvOutOfFuel is never returned.  (The returned x may be negative.) *)
Theorem C18_mult_inverse :
  forall a p, 0 < p ->
  (Z.gcd a p = 1 -> exists x, mult_inverse a p = InvOk x /\ (a * x) mod p = 1 mod p) /\
  (Z.gcd a p <> 1 -> mult_inverse a p = InvThrow).
Proof. exact mult_inverse_correct. Qed.
Print Assumptions C18_mult_inverse.

Theorem C18_mult_inverse_nonpos :
  forall a p, p <= 0 -> mult_inverse a p = InvThrow.
Proof. exact mult_inverse_nonpos. Qed.
Print Assumptions C18_mult_inverse_nonpos.

(* ---- is_prime ----------------------------------------------------------------------- *)

Theorem C18_is_prime :
  forall p, 2 <= p -> (is_prime p = true <-> prime p).
Proof. exact is_prime_correct. Qed.
Print Assumptions C18_is_prime.

(* Defect D2: the source at the pinned commit reports 2 as composite. *)
Theorem C18_is_prime_orig_refuted : is_prime_orig 2 = false /\ prime 2.
Proof. exact is_prime_orig_refuted. Qed.
Print Assumptions C18_is_prime_orig_refuted.

(* ---- SpVecFP ------------------------------------------------------------------------ *)

(* For every modulus p >= 2 (primality is not needed) and every history of SpVecFP operations
   whose unit coordinates lie below a dimension D (unit assignment, copy, assignment incl.
   self-assignment, +, += incl. aliasing, * scalar and *= scalar for arbitrary integer scalars,
   clear, and the observers * and size):
   - every observer returns what the dense computation over Z/p returns;
   - every vector of the resulting store is strictly increasing in its indices, stores only
     values in [1, p-1] (canonical residues, no explicit zero), has all indices below D,
     agrees coordinatewise with the dense store, and its size() is the number of non-zero
     coordinates. *)
Theorem C18_spvecfp :
  forall p D ops, 2 <= p -> Forall (fop_in_dim D) ops ->
  snd (frun p fempty ops) = snd (dfrun p D dfempty ops) /\
  forall id,
    StronglySorted (fun e1 e2 => (fst e1 < fst e2)%nat) (fst (frun p fempty ops) id) /\
    Forall (fun e => 1 <= snd e <= p - 1) (fst (frun p fempty ops) id) /\
    Forall (fun e => (fst e < D)%nat) (fst (frun p fempty ops) id) /\
    (forall i, fget (fst (frun p fempty ops) id) i = fst (dfrun p D dfempty ops) id i) /\
    length (fst (frun p fempty ops) id) = dfsize D (fst (dfrun p D dfempty ops) id).
Proof. exact spvecfp_refines_dense. Qed.
Print Assumptions C18_spvecfp.

(* `% p` followed by the two normalisation loops is the mathematical residue *)
Theorem C18_normalise :
  forall p z, 0 < p -> fnorm p (Z.rem z p) = z mod p.
Proof. exact fnorm_rem. Qed.
Print Assumptions C18_normalise.

(* addition and scaling act coordinatewise; the scalar is an arbitrary integer *)
Theorem C18_add_coordinatewise :
  forall p, 0 < p -> forall u v, fsorted u -> fsorted v -> fvals p u -> fvals p v ->
  forall k, fget (fadd p u v) k = (fget u k + fget v k) mod p.
Proof. exact fadd_get. Qed.
Print Assumptions C18_add_coordinatewise.

Theorem C18_scale_coordinatewise :
  forall p a, 0 < p -> forall u, fsorted u ->
  forall k, fget (fscale p a u) k = (fget u k * a) mod p.
Proof. exact fscale_get. Qed.
Print Assumptions C18_scale_coordinatewise.

(* the product is the sum over all coordinates of the products, mod p *)
Theorem C18_dot_dense :
  forall p D u v, 0 < p ->
  fsorted u -> fsorted v -> fvals p u -> fvals p v -> fbounded D u ->
  fdot p u v = dfdot p D (fget u) (fget v).
Proof. exact fdot_dense. Qed.
Print Assumptions C18_dot_dense.

(* canonical form: equal dense images mean equal representations *)
Theorem C18_canonical :
  forall p u v, fsorted u -> fsorted v -> fvals p u -> fvals p v ->
  (forall k, fget u k = fget v k) -> u = v.
Proof. exact fvec_ext. Qed.
Print Assumptions C18_canonical.

(* ---- non-vacuity -------------------------------------------------------------------- *)

(* concrete evaluations: signed inputs, swapped arguments and the zero shortcuts of ext_gcd
   (including the D1 witness on both versions), inverses (a negative one, one of a negative
   argument, a non-invertible one), primes, composites and squares of primes, and an
   aliasing-heavy history over Z/7 with a negative scalar, a scalar that is a multiple of p and
   a cancellation that removes an entry *)
Example C18_nonvacuous :
  ext_gcd (-240) 46 = GcdOk 2 9 47 /\ (-240) * 9 + 46 * 47 = 2 /\
  ext_gcd 46 (-240) = GcdOk 2 47 9 /\
  ext_gcd (-4) 0 = GcdOk 4 (-1) 0 /\ ext_gcd_orig (-4) 0 0 0 = GcdOk 4 1 0 /\
  ext_gcd 0 (-5) = GcdOk 5 0 (-1) /\
  mult_inverse 3 7 = InvOk (-2) /\ mult_inverse (-10) 7 = InvOk 2 /\ mult_inverse 6 9 = InvThrow /\
  (is_prime 2, is_prime 9, is_prime 25, is_prime 91, is_prime 97, is_prime 7919)
    = (true, false, false, false, true, true) /\
  let ops := [FUnit 0 3; FUnit 1 5; FScale 2 0 (-3); FAdd 3 0 2; FAddAssign 3 1; FSize 3;
              FScaleAssign 1 6; FDot 3 1; FAddAssign 3 1; FScale 4 3 14; FDot 3 2; FSize 3;
              FAddAssign 0 0; FAssign 2 2; FCopy 1 3; FClear 3] in
  Forall (fop_in_dim 6) ops /\
  frun_dump 7 5 ops =
    ([FOutNat 2; FOutZ 6; FOutZ 6; FOutNat 1], [[(3%nat, 2)]; [(3%nat, 5)]; [(3%nat, 4)]; []; []]) /\
  snd (dfrun 7 6 dfempty ops) = [FOutNat 2; FOutZ 6; FOutZ 6; FOutNat 1].
Proof.
  repeat match goal with |- _ /\ _ => split end;
    try (vm_compute; reflexivity).
  cbv zeta. repeat constructor.
Qed.
