(* SchedModel.v — explicit semantics of the TBB constructs that parmcb uses (DESIGN §5 C03):
     tbb::parallel_reduce (functional form), tbb::parallel_for, tbb::concurrent_vector::push_back from inside a parallel_for,
   as functions of a *schedule tree*.  The same semantics is implemented by the controllable fake TBB of the
   correspondence check (harness/shim/tbb/verif_sched.h); `tree_of_bits` reads a schedule off a bit stream exactly as the
   shim does, so that the extracted model and the real parmcb code run under the same schedule.  Definitions only.

   A schedule tree over a range of `size t` consecutive indices:
     Run len        the len indices are handed to the body as one chunk (one body(range, acc) call)
     Seq rf a b     the range is split; the part b is processed by the SAME body object after the whole part a has finished
                    (oneTBB: the right child finds its parent's reference count < 2 and continues with the left body)
     Fork rf a b    the part b is processed by a body split off from the identity and joined afterwards, join(left, right)
                    (oneTBB: the right child was stolen while the left part was still running)
   rf = "the right part is executed before the left part": it orders the chunks of a parallel_for (whose chunks may run in
   any order) and the side effects of the two parts of a Fork; it has no influence on the value of a reduction.
   The theorems (SchedProofs.v) quantify over ALL trees — arbitrary split points — not only those `tree_of_bits` produces
   (which always split in the middle, as tbb::blocked_range does). *)
From Coq Require Export List Arith Bool.
Export ListNotations.

Inductive sched :=
| Run (len : nat)
| Seq (rf : bool) (a b : sched)
| Fork (rf : bool) (a b : sched).

Fixpoint size (t : sched) : nat :=
  match t with
  | Run len => len
  | Seq _ a b => size a + size b
  | Fork _ a b => size a + size b
  end.

Fixpoint forks (t : sched) : nat :=
  match t with
  | Run _ => 0
  | Seq _ a b => forks a + forks b
  | Fork _ a b => S (forks a + forks b)
  end.

(* ---- reading a schedule off the bit stream (= verif_sched::build) -------------------------------------------------- *)

(* verif_sched::next_bit: the stream is consumed cyclically; an empty stream reads as all-zero; `pos` counts the bits
   consumed so far *)
Definition bit_at (bits : list bool) (pos : nat) : bool :=
  match bits with
  | [] => false
  | _ => nth (pos mod length bits) bits false
  end.

(* pre-order: [split?] then, if split, [fork?] [right first?], left subtree, right subtree.  A range with fewer than two
   elements is not divisible and reads no bit.  left = [b, b + len/2), right = the rest (blocked_range's middle).
   fuel: `len` suffices (SchedProofs.tree_of_bits_fuel); the fuel-exhausted answer `Run len` is never produced then. *)
Fixpoint tree_of_bits (fuel : nat) (bits : list bool) (pos len : nat) : sched * nat :=
  match fuel with
  | O => (Run len, pos)
  | S fuel' =>
      if Nat.ltb len 2 then (Run len, pos)
      else if negb (bit_at bits pos) then (Run len, S pos)
      else
        let fk := bit_at bits (pos + 1) in
        let rf := bit_at bits (pos + 2) in
        let h := len / 2 in
        let (a, p1) := tree_of_bits fuel' bits (pos + 3) h in
        let (b, p2) := tree_of_bits fuel' bits p1 (len - h) in
        ((if fk then Fork rf a b else Seq rf a b), p2)
  end.

(* the schedule of a range of `len` elements: an empty range executes nothing and reads no bit *)
Definition sched_of_bits (bits : list bool) (pos len : nat) : sched * nat :=
  tree_of_bits len bits pos len.

(* ---- parallel_reduce(range, identity, body, join) ------------------------------------------------------------------- *)
Section Reduce.
  Variable A : Type.
  Variable body : nat -> A -> A.            (* one iteration of the loop inside the body lambda: index, running value *)
  Variable join : A -> A -> A.
  Variable ident : A.

  (* body(range [lo, lo+len), acc): the for loop over the chunk *)
  Definition run_chunk (lo len : nat) (acc : A) : A :=
    fold_left (fun a i => body i a) (seq lo len) acc.

  Fixpoint eval_reduce (t : sched) (lo : nat) (acc : A) : A :=
    match t with
    | Run len => run_chunk lo len acc
    | Seq _ a b => eval_reduce b (lo + size a) (eval_reduce a lo acc)
    | Fork _ a b => join (eval_reduce a lo acc) (eval_reduce b (lo + size a) ident)
    end.

  (* tbb::parallel_reduce over [lo, lo+len) *)
  Definition parallel_reduce (t : sched) (lo : nat) : A := eval_reduce t lo ident.
End Reduce.

(* ---- parallel_for(range, body) --------------------------------------------------------------------------------------- *)

(* the chunks (first index, length) in execution order *)
Fixpoint chunks_of (t : sched) (lo : nat) : list (nat * nat) :=
  match t with
  | Run len => [(lo, len)]
  | Seq rf a b | Fork rf a b =>
      if rf then chunks_of b (lo + size a) ++ chunks_of a lo
      else chunks_of a lo ++ chunks_of b (lo + size a)
  end.

(* the indices in the order in which the loop bodies of the chunks visit them: this is the order in which
   concurrent_vector::push_back calls made by those loop bodies arrive *)
Definition exec_order (t : sched) (lo : nat) : list nat :=
  flat_map (fun c => seq (fst c) (snd c)) (chunks_of t lo).

Section ParFor.
  Variable St : Type.
  Variable chunk_body : nat -> nat -> St -> St.      (* first index, length, state *)
  Definition parallel_for (t : sched) (lo : nat) (s : St) : St :=
    fold_left (fun st c => chunk_body (fst c) (snd c) st) (chunks_of t lo) s.
End ParFor.
