(* Properties_C20.v — "The concurrency knob actually limits TBB parallelism":
   after parmcb::set_global_tbb_concurrency(n) returns, TBB's allowed parallelism is n until it is set again;
   the demos' --cores n has that effect whenever a parallel algorithm is selected, independent of unrelated flags.
   Only statements; each closed by [exact <lemma>] and followed by Print Assumptions.

   Model: TbbControlModel.v.  `set_concurrency` / `demo_knob` mirror the source AFTER the repairs
   (pending/c20-fix-knob, pending/c20-fix-demos); `set_concurrency_orig` / `demo_knob_orig` mirror the source as
   found and carry the _refuted theorems (defects D4, D5).  Which of the two the working tree behaves like is decided
   at run time by tools/props/c20.py.
   Assumed, not proved (trusted base): oneTBB's rule "active value = minimum of the live controls, default if none,
   value 0 aborts" (`active`, `tbb_create`, `tbb_destroy`); exercised against the real libtbb by the same harness. *)
From Coq Require Import ZArith List Bool.
From Parmcb Require Import TbbControlModel TbbControlProofs.
Import ListNotations.
Local Open Scope Z_scope.

(* ---- the knob function ---------------------------------------------------------------------------------------- *)

(* For every non-empty sequence of calls n_1 .. n_j (each >= 1) in a fresh process: no call fails and after the last
   one the active value is n_j (earlier, possibly smaller, limits do not linger).  Since the statement holds for every
   sequence it holds after every prefix, i.e. after every single call. *)
Theorem C20 :
  forall (dflt : Z) (ns : list Z), Forall (fun n => 1 <= n) ns -> ns <> [] ->
  exists p, calls set_concurrency ns prog0 = Ok p /\ active dflt (rt p) = last ns 0.
Proof. exact C20_lemma. Qed.
Print Assumptions C20.

(* The same, in the shape the harness prints it: the list of active values read after each call IS the list of
   arguments. *)
Theorem C20_every_call :
  forall (dflt : Z) (ns : list Z), Forall (fun n => 1 <= n) ns ->
  run_trace set_concurrency dflt (map OSet ns) prog0 = (ns, Done).
Proof. exact C20_every_call_lemma. Qed.
Print Assumptions C20_every_call.

(* With other controls alive elsewhere in the program (env, untouched by the knob) the runtime holds exactly
   n_j and env: the active value is min(n_j, min env). *)
Theorem C20_env :
  forall (dflt : Z) (env : live) (sl : list (nat * Z)) (ns : list Z),
  Forall (fun n => 1 <= n) ns -> ns <> [] ->
  exists p, calls set_concurrency ns {| rt := env; holder := None; slots := sl |} = Ok p /\
            rt p = last ns 0 :: env /\ active dflt (rt p) = fold_left Z.min env (last ns 0).
Proof. exact C20_env_lemma. Qed.
Print Assumptions C20_env.

(* Arbitrary histories (calls interleaved with creation/destruction of other controls) that end with a call
   of the knob: the active value is the minimum of that call's argument and the values still held by the others. *)
Theorem C20_mixed :
  forall (dflt : Z) (ops : list op) (n : Z) (p' : prog),
  steps set_concurrency (ops ++ [OSet n]) prog0 = Ok p' ->
  In (active dflt (rt p')) (n :: map snd (slots p')) /\
  (forall y, In y (n :: map snd (slots p')) -> active dflt (rt p') <= y).
Proof. exact C20_mixed_prog0_lemma. Qed.
Print Assumptions C20_mixed.

(* ... and in every reachable state a call with n >= 1 succeeds (no Abort / NotLive). *)
Theorem C20_total :
  forall (ops : list op) (p : prog) (n : Z),
  steps set_concurrency ops prog0 = Ok p -> 1 <= n -> exists p', set_concurrency n p = Ok p'.
Proof. exact C20_total_lemma. Qed.
Print Assumptions C20_total.

(* Defect D4: the function as found (local global_control) — there is a call sequence after which active <> n_j ... *)
Theorem C20_orig_refuted :
  exists (dflt : Z) (ns : list Z), Forall (fun n => 1 <= n) ns /\ ns <> [] /\
    exists p, calls set_concurrency_orig ns prog0 = Ok p /\ active dflt (rt p) <> last ns 0.
Proof. exact C20_orig_refuted_lemma. Qed.
Print Assumptions C20_orig_refuted.

(* ... in fact it never has any effect: the harness reads the default after every call. *)
Theorem C20_orig_trace_refuted :
  forall (dflt : Z) (ns : list Z), Forall (fun n => 1 <= n) ns ->
  run_trace set_concurrency_orig dflt (map OSet ns) prog0 = (map (fun _ => dflt) ns, Done).
Proof. exact C20_orig_trace_lemma. Qed.
Print Assumptions C20_orig_trace_refuted.

(* ---- the demos ------------------------------------------------------------------------------------------------- *)

(* Whenever a parallel algorithm is selected, the (repaired) option block applies the knob with the effective
   number of cores, and the value in force just before the algorithm call (what the PARMCB_VERIF hook prints) is
   that number.  bhw = boost::thread::hardware_concurrency(), used for --cores 0 (the default).
   o_cores_count = vm.count("cores") != 0, which boost::program_options guarantees for an option with a
   default_value. *)
Theorem C20_demo :
  forall (dflt bhw : Z) (o : demo_opts),
  1 <= bhw -> o_cores_count o = true -> algo_parallel (demo_algo o) = true ->
  demo_knob bhw o = Applied (effective_cores bhw o) /\
  demo_run set_concurrency demo_knob dflt bhw o = Ok (effective_cores bhw o).
Proof. exact C20_demo_lemma. Qed.
Print Assumptions C20_demo.

(* effective number of cores: the given n for 1 <= n (any int), the hardware concurrency for 0 *)
Theorem C20_demo_cores_given :
  forall (bhw : Z) (o : demo_opts), 1 <= o_cores o < 2 ^ 64 -> effective_cores bhw o = o_cores o.
Proof. exact effective_cores_given. Qed.
Print Assumptions C20_demo_cores_given.

Theorem C20_demo_cores_zero :
  forall (bhw : Z) (o : demo_opts), o_cores o = 0 -> effective_cores bhw o = bhw.
Proof. exact effective_cores_zero. Qed.
Print Assumptions C20_demo_cores_zero.

(* independent of unrelated flags: only --parallel and --cores enter the decision *)
Theorem C20_demo_unrelated_flags :
  forall (bhw : Z) (o o' : demo_opts),
  o_cores_count o = o_cores_count o' -> o_cores o = o_cores o' -> o_parallel o = o_parallel o' ->
  demo_knob bhw o = demo_knob bhw o'.
Proof. exact C20_demo_unrelated_lemma. Qed.
Print Assumptions C20_demo_unrelated_flags.

(* "a parallel algorithm is selected" is exactly --parallel=true, in all three branches of the selection *)
Theorem C20_demo_parallel_selected :
  forall o : demo_opts, algo_parallel (demo_algo o) = o_parallel o.
Proof. exact algo_parallel_demo_algo. Qed.
Print Assumptions C20_demo_parallel_selected.

(* Defect D5: the option block as found — a parallel algorithm, --cores 3, no --verbose: knob not applied. *)
Theorem C20_demo_orig_refuted :
  exists (dflt bhw : Z) (o : demo_opts),
    1 <= bhw /\ o_cores_count o = true /\ algo_parallel (demo_algo o) = true /\
    demo_knob_orig bhw o = NotApplied /\
    demo_run set_concurrency demo_knob_orig dflt bhw o <> Ok (effective_cores bhw o).
Proof. exact C20_demo_orig_refuted_lemma. Qed.
Print Assumptions C20_demo_orig_refuted.

(* ---- non-vacuity ----------------------------------------------------------------------------------------------- *)

(* a decreasing-then-increasing history: the smaller earlier limits 2 and 1 do not linger *)
Example C20_nonvacuous :
  Forall (fun n => 1 <= n) [8; 2; 1; 64; 5] /\ [8; 2; 1; 64; 5] <> [] /\
  run_trace set_concurrency 16 (map OSet [8; 2; 1; 64; 5]) prog0 = ([8; 2; 1; 64; 5], Done) /\
  run_trace set_concurrency_orig 16 (map OSet [8; 2; 1; 64; 5]) prog0 = ([16; 16; 16; 16; 16], Done).
Proof.
  split; [repeat constructor; cbv; discriminate|]. split; [discriminate|]. split; reflexivity.
Qed.

(* a mixed history: another owner holds 3, the knob is called with 8 then 2, the other control goes away *)
Example C20_mixed_nonvacuous :
  run_trace set_concurrency 16 [OCreate 0%nat 3; OSet 8; OSet 2; ODestroy 0%nat; OSet 5] prog0
  = ([3; 3; 2; 2; 5], Done).
Proof. reflexivity. Qed.

Example C20_demo_nonvacuous :
  let o := {| o_verbose := false; o_signed := false; o_fvstrees := true; o_isotrees := false; o_parallel := true;
              o_printcycles := true; o_cores_count := true; o_cores := 3 |} in
  1 <= 16 /\ o_cores_count o = true /\ algo_parallel (demo_algo o) = true /\
  demo_run set_concurrency demo_knob 16 16 o = Ok 3 /\
  demo_run set_concurrency demo_knob_orig 16 16 o = Ok 16 /\
  demo_run set_concurrency_orig demo_knob 16 16 o = Ok 16.
Proof. cbv zeta. split; [cbv; discriminate|]. repeat split; reflexivity. Qed.
