(* RefModel.v — the verified REFERENCE side of the checks (not a model of any C++ function):
     1. is_simple_cycle_rawb : does a list of edge ids (any order) form one simple cycle?
     2. ref_search           : a deliberately simple minimum-weight odd cycle ("OddRef"): Bellman–Ford rounds on the
                               signed double cover that carry the walk itself with every label, then a shortcut
                               function turning the lightest odd closed walk into an odd simple cycle;
     3. ref_phase / ref_mcb  : de Pina's support-vector scheme (SvaModel.sva_run) driven by ref_search;
     4. basis_checkb         : is a family of raw cycles a cycle basis?  (simple cycles + a verification run of the
                               scheme in which phase k must accept the k-th given cycle);
     5. mcb_checkb, opt_weight : is it a MINIMUM cycle basis / the optimum weight.
   Executable definitions only; every proof is in RefProofs*.v, final statements in Properties_Ref.v.
   Weights are exact integers (Z); graphs as in GraphModel.v (edge id = position in ge). *)
From Coq Require Import List Arith Bool ZArith.
From Parmcb Require Export GraphModel GF2Model GraphSpec ForestModel SvaModel.
Import ListNotations.

(* a walk is a list of steps (edge id, vertex reached), as in GraphSpec.walk *)
Definition rwalk := list (nat * nat).

(* ------------------------------------------------------------------------------------------- *)
(* 1. raw simple-cycle checker                                                                   *)
(* ------------------------------------------------------------------------------------------- *)

Fixpoint nodupb (l : list nat) : bool :=
  match l with
  | [] => true
  | x :: r => negb (memb x r) && nodupb r
  end.

Definition joinsb (g : graph) (e x y : nat) : bool :=
  match ends g e with
  | Some (s, t) => (Nat.eqb s x && Nat.eqb t y) || (Nat.eqb s y && Nat.eqb t x)
  | None => false
  end.

Fixpoint walkb (g : graph) (x : nat) (p : rwalk) (z : nat) : bool :=
  match p with
  | [] => Nat.eqb x z && Nat.ltb x (nv g)
  | (e, y) :: r => joinsb g e x y && walkb g y r z
  end.

Definition is_nilb {A} (l : list A) : bool := match l with [] => true | _ => false end.

(* p is a closed walk from x that repeats neither an edge nor a vertex and whose edge set is l;
     l itself is non-empty and duplicate-free *)
Definition closed_walk_okb (g : graph) (x : nat) (p : rwalk) (l : list nat) : bool :=
  walkb g x p x && nodupb (wedges p) && nodupb (wverts p)
  && forallb (fun e => memb e (wedges p)) l && forallb (fun e => memb e l) (wedges p)
  && nodupb l && negb (is_nilb l).

(* tracing: the first edge of l that is unused and incident to cur, with its other endpoint *)
Fixpoint find_next (g : graph) (l used : list nat) (cur : nat) : option (nat * nat) :=
  match l with
  | [] => None
  | e :: r =>
      if memb e used then find_next g r used cur
      else match opposite g e cur with
           | Some y => Some (e, y)
           | None => find_next g r used cur
           end
  end.

Fixpoint trace_loop (fuel : nat) (g : graph) (l used : list nat) (x cur : nat) (acc : rwalk) : option rwalk :=
  match fuel with
  | O => None
  | S f =>
      if Nat.eqb cur x then Some (rev acc)
      else match find_next g l used cur with
           | None => None
           | Some (e, y) => trace_loop f g l (e :: used) x y ((e, y) :: acc)
           end
  end.

(* start with the first edge (s,t) of l: from s to t, then follow unused edges until back at s *)
Definition trace (g : graph) (l : list nat) : option (nat * rwalk) :=
  match l with
  | [] => None
  | e0 :: _ =>
      match ends g e0 with
      | Some (s, t) =>
          match trace_loop (length l) g l [e0] s t [(e0, t)] with
          | Some p => Some (s, p)
          | None => None
          end
      | None => None
      end
  end.

Definition is_simple_cycle_rawb (g : graph) (l : list nat) : bool :=
  match trace g l with
  | Some (x, p) => closed_walk_okb g x p l
  | None => false
  end.

(* ------------------------------------------------------------------------------------------- *)
(* 2. OddRef: minimum-weight odd cycle                                                           *)
(* ------------------------------------------------------------------------------------------- *)

(* "odd" = an odd number of the listed edges belongs to the signed set sg (counted with multiplicity for
   walks; for duplicate-free lists this is the parity of the intersection) *)
Definition oddb (sg : list nat) (l : list nat) : bool :=
  Nat.odd (length (filter (fun e => memb e sg) l)).

(* labels: weight and payload; `best` keeps a lightest entry (the first one on ties) *)
Definition lbl (A : Type) : Type := (Z * A)%type.

Definition obetter {A} (a b : option (lbl A)) : option (lbl A) :=
  match a, b with
  | None, _ => b
  | Some _, None => a
  | Some (wa, _), Some (wb, _) => if Z.leb wa wb then a else b
  end.

Fixpoint best {A} (l : list (option (lbl A))) : option (lbl A) :=
  match l with
  | [] => None
  | x :: r => obetter x (best r)
  end.

(* signed adjacency, computed once per search: for every vertex v the list of
   (edge, other endpoint, edge is signed, weight of the edge) *)
Definition sadj (g : graph) (wts : list Z) (sg : list nat) : list (list (nat * nat * bool * Z)) :=
  map (fun v => map (fun eu => (fst eu, snd eu, memb (fst eu) sg, wt wts (fst eu))) (out_edges g v))
      (seq 0 (nv g)).

(* the table of one source s: entry v = (label of (v,even), label of (v,odd)); a label of (v,b) is a walk
   from v TO the source with signed parity b, together with its weight *)
Definition table := list (option (lbl rwalk) * option (lbl rwalk)).

Definition tget (T : table) (v : nat) (b : bool) : option (lbl rwalk) :=
  let p := nth v T (None, None) in if b then snd p else fst p.

(* extend the walk of the neighbour u (parity b xor sign) by the step v --e--> u *)
Definition cand (T : table) (b : bool) (a : nat * nat * bool * Z) : option (lbl rwalk) :=
  let '(e, u, s, w) := a in
  match tget T u (xorb b s) with
  | Some (d, q) => Some (Z.add d w, (e, u) :: q)
  | None => None
  end.

Definition relax (adj : list (list (nat * nat * bool * Z))) (T : table) (v : nat) (b : bool)
  : option (lbl rwalk) :=
  best (tget T v b :: map (cand T b) (nth v adj [])).

Definition bf_round (adj : list (list (nat * nat * bool * Z))) (n : nat) (T : table) : table :=
  map (fun v => (relax adj T v false, relax adj T v true)) (seq 0 n).

Definition bf_init (n s : nat) : table :=
  map (fun v => (if Nat.eqb v s then Some (0%Z, []) else None, None)) (seq 0 n).

(* the table after r rounds *)
Fixpoint bf_tab (adj : list (list (nat * nat * bool * Z))) (n s r : nat) : table :=
  match r with
  | O => bf_init n s
  | S r' => bf_round adj n (bf_tab adj n s r')
  end.

(* the lightest odd closed walk through s with at most n edges *)
Definition odd_closed_at (adj : list (list (nat * nat * bool * Z))) (n s : nat) : option (lbl rwalk) :=
  tget (bf_tab adj n s n) s true.

(* --- the shortcut function --- *)

(* split p after the first step that arrives at v *)
Fixpoint cut_at (v : nat) (p : rwalk) : option (rwalk * rwalk) :=
  match p with
  | [] => None
  | (e, y) :: r =>
      if Nat.eqb y v then Some ([(e, y)], r)
      else match cut_at v r with
           | Some (a, b) => Some ((e, y) :: a, b)
           | None => None
           end
  end.

(* the first vertex that is reached twice: p = pre ++ ev :: a ++ b where ev and the last step of a arrive
   at the same vertex *)
Fixpoint find_dup (p : rwalk) : option (rwalk * (nat * nat) * rwalk * rwalk) :=
  match p with
  | [] => None
  | (e, v) :: t =>
      match cut_at v t with
      | Some (a, b) => Some ([], (e, v), a, b)
      | None =>
          match find_dup t with
          | Some (pre, ev, a, b) => Some ((e, v) :: pre, ev, a, b)
          | None => None
          end
      end
  end.

(* while a vertex repeats: the closed walk splits into the inner closed walk a and the outer closed walk
   pre ++ ev :: b; keep the odd one (both are strictly shorter) *)
Fixpoint shortcut (fuel : nat) (sg : list nat) (p : rwalk) : option rwalk :=
  match fuel with
  | O => None
  | S f =>
      match find_dup p with
      | None => Some p
      | Some (pre, ev, a, b) =>
          if oddb sg (wedges a) then shortcut f sg a else shortcut f sg (pre ++ ev :: b)
      end
  end.

Definition ref_search (g : graph) (wts : list Z) (sg : list nat) : phase_result Z :=
  let n := nv g in
  let adj := sadj g wts sg in
  match best (map (odd_closed_at adj n) (seq 0 n)) with
  | None => PNone
  | Some (_, q) =>
      match shortcut (S (length q)) sg q with
      | None => PError
      | Some p => let c := set_of_list (wedges p) in PFound c (weight wts c)
      end
  end.

(* ------------------------------------------------------------------------------------------- *)
(* 3. the reference minimum cycle basis                                                          *)
(* ------------------------------------------------------------------------------------------- *)

Fixpoint sortedb (l : list nat) : bool :=
  match l with
  | [] => true
  | x :: r => match r with [] => true | y :: _ => Nat.ltb x y && sortedb r end
  end.

(* a witness must be a canonical vector over the coordinates 0..csd-1 (always true inside sva_run;
   anything else is a broken invariant and reported as PError) *)
Definition vec_okb (csd : nat) (S : vec) : bool := sortedb S && forallb (fun i => Nat.ltb i csd) S.

Definition ref_phase (g : graph) (wts : list Z) (fi : forest_index) (k : nat) (S : vec) : phase_result Z :=
  if vec_okb (fi_csd fi) S then ref_search g wts (indices_to_edges fi S) else PError.

Definition ref_mcb (g : graph) (wts : list Z) (roots : list nat) : sva_result Z :=
  match create_index g roots with
  | None => SvaNoIndex
  | Some fi => sva_run Z 0%Z Z.add select_none (ref_phase g wts fi) fi
  end.

Definition opt_weight (g : graph) (wts : list Z) (roots : list nat) : option Z :=
  match ref_mcb g wts roots with
  | SvaOk _ w _ => Some w
  | _ => None
  end.

(* ------------------------------------------------------------------------------------------- *)
(* 4. basis checker                                                                              *)
(* ------------------------------------------------------------------------------------------- *)

(* phase k of the verification run accepts exactly the k-th given cycle, if it is odd w.r.t. the witness *)
Definition chk_search (fi : forest_index) (Cs : list (list nat)) (k : nat) (S : vec) : phase_result Z :=
  match nth_error Cs k with
  | None => PNone
  | Some c => if vdot S (edges_to_indices fi c) then PFound c 0%Z else PNone
  end.

(* move the first remaining witness that is odd w.r.t. the k-th cycle to position k *)
Definition chk_select (fi : forest_index) (Cs : list (list nat)) (k : nat) (sup : list vec) : nat :=
  match nth_error Cs k with
  | None => k
  | Some c =>
      let ck := edges_to_indices fi c in
      match find (fun l => vdot (nth l sup []) ck) (seq k (fi_csd fi - k)) with
      | Some l => l
      | None => k
      end
  end.

Definition basis_checkb (g : graph) (roots : list nat) (Cs : list (list nat)) : bool :=
  forallb (is_simple_cycle_rawb g) Cs &&
  match create_index g roots with
  | None => false
  | Some fi =>
      let Cc := map set_of_list Cs in
      Nat.eqb (length Cs) (fi_csd fi) &&
      match sva_run Z 0%Z Z.add (chk_select fi Cc) (chk_search fi Cc) fi with
      | SvaOk _ _ _ => true
      | _ => false
      end
  end.

(* ------------------------------------------------------------------------------------------- *)
(* 5. minimum-cycle-basis checker                                                                *)
(* ------------------------------------------------------------------------------------------- *)

(* `opt` is the precomputed opt_weight g wts roots (so that a driver computes it once) *)
Definition mcb_check_with (opt : option Z) (g : graph) (wts : list Z) (roots : list nat)
           (Cs : list (list nat)) : bool :=
  basis_checkb g roots Cs &&
  match opt with
  | Some x => Z.eqb (total_weight wts (map set_of_list Cs)) x
  | None => false
  end.

Definition mcb_checkb (g : graph) (wts : list Z) (roots : list nat) (Cs : list (list nat)) : bool :=
  mcb_check_with (opt_weight g wts roots) g wts roots Cs.
