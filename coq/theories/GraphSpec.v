(* GraphSpec.v — the specification vocabulary (layer S of DESIGN.md): walks, connectivity,
   components, cycle space, simple cycles, acyclic edge sets, spanning forests, weights.
   Short, readable definitions; no algorithms.  Basic lemmas are in GraphLemmas.v. *)
From Coq Require Export List Arith Bool ZArith Sorted.
From Parmcb Require Export GraphModel GF2Model.
Export ListNotations.

(* `sorted` (strictly increasing list = canonical finite set / GF(2) vector) comes from GF2Model *)

(* well-formed simple graph: endpoints in range, no self-loops, no parallel edges *)
Definition simple_graph (g : graph) : Prop := simpleb g = true.

(* edge e joins x and y (in either orientation) *)
Definition joins (g : graph) (e x y : nat) : Prop :=
  ends g e = Some (x, y) \/ ends g e = Some (y, x).

(* a walk from x to z: list of (edge id, vertex reached by that edge) *)
Inductive walk (g : graph) : nat -> list (nat * nat) -> nat -> Prop :=
| walk_nil : forall x, x < nv g -> walk g x [] x
| walk_cons : forall x e y p z, joins g e x y -> walk g y p z -> walk g x ((e, y) :: p) z.

Definition wedges (p : list (nat * nat)) : list nat := map fst p.
Definition wverts (p : list (nat * nat)) : list nat := map snd p.   (* vertices after each step *)

Definition connected (g : graph) (x y : nat) : Prop := exists p, walk g x p y.
(* connected using only edges from F *)
Definition connected_in (g : graph) (F : list nat) (x y : nat) : Prop :=
  exists p, walk g x p y /\ incl (wedges p) F.

(* c is the number of connected components: c pairwise non-connected representatives reach everything *)
Definition n_components (g : graph) (c : nat) : Prop :=
  exists reps, length reps = c /\ NoDup reps /\ (forall r, In r reps -> r < nv g)
    /\ (forall r r', In r reps -> In r' reps -> r <> r' -> ~ connected g r r')
    /\ (forall v, v < nv g -> exists r, In r reps /\ connected g r v).

(* degree of v inside an edge set Z *)
Definition incident (g : graph) (e v : nat) : bool :=
  match ends g e with Some (s, t) => Nat.eqb s v || Nat.eqb t v | None => false end.
Definition deg_in (g : graph) (Z : list nat) (v : nat) : nat := length (filter (fun e => incident g e v) Z).
Definition even_degrees (g : graph) (Z : list nat) : Prop := forall v, Nat.even (deg_in g Z v) = true.

(* the cycle space: even-degree edge sets, in canonical form *)
Definition in_cycle_space (g : graph) (Z : list nat) : Prop :=
  sorted Z /\ (forall e, In e Z -> e < ne g) /\ even_degrees g Z.

(* an edge set is acyclic when no non-empty subset of it has all degrees even
   (equivalently: it contains no cycle; see GraphLemmas.simple_cycle_in_cycle_space) *)
Definition acyclic_edges (g : graph) (F : list nat) : Prop :=
  forall Z, sorted Z -> Z <> [] -> incl Z F -> ~ even_degrees g Z.

(* F is a spanning forest of g: valid edges, acyclic, and connects whatever g connects *)
Definition spanning_forest_of (g : graph) (F : list nat) : Prop :=
  NoDup F /\ (forall e, In e F -> e < ne g) /\ acyclic_edges g F
  /\ forall x y, connected g x y -> connected_in g F x y.

(* a simple cycle, given by its canonical edge set C: the edge set of a closed walk that repeats
   neither an edge nor a vertex *)
Definition simple_cycle (g : graph) (C : list nat) : Prop :=
  C <> [] /\ sorted C /\
  exists x p, walk g x p x /\ NoDup (wedges p) /\ NoDup (wverts p)
              /\ (forall e, In e C <-> In e (wedges p)).

(* the graph obtained by deleting a set of vertices keeps exactly the edges avoiding them *)
Definition surviving_edges (g : graph) (removed : list nat) : list nat :=
  filter (fun e => match ends g e with
                   | Some (s, t) => negb (memb s removed) && negb (memb t removed)
                   | None => false end) (seq 0 (ne g)).
Definition feedback_vertex_set (g : graph) (S : list nat) : Prop :=
  NoDup S /\ (forall v, In v S -> v < nv g) /\ acyclic_edges g (surviving_edges g S).

(* weights: a list indexed by edge id *)
Definition wt (w : list Z) (e : nat) : Z := nth e w 0%Z.
Definition weight (w : list Z) (C : list nat) : Z := fold_right Z.add 0%Z (map (wt w) C).
Definition total_weight (w : list Z) (B : list (list nat)) : Z := fold_right Z.add 0%Z (map (weight w) B).
Definition positive_weights (g : graph) (w : list Z) : Prop :=
  length w = ne g /\ Forall (fun x => (0 < x)%Z) w.
