(* Properties_C17_rename.v — the SpVecGF2 model is invariant under strictly increasing renamings
   of the coordinates.  Only statements; each closed by [exact <lemma>] and followed by
   Print Assumptions. *)
From Coq Require Import List Arith Bool.
From Parmcb Require Import GF2Model GF2Proofs GF2RenameProofs.
Import ListNotations.

(* For EVERY history (no side condition: set operands may be unsorted and contain duplicates,
   identifiers and coordinates are arbitrary) and every strictly increasing f: running the model on
   the history whose coordinates (the argument of U, the operand lists of S and T) were renamed by f
   gives the same observer outputs (products, sizes) and the f-image of every dumped vector.
   This is the step the correspondence streams "big-coordinates" and "narrow-coordinate-type" of
   tools/props/c17.py rely on (map_coords on the input, map_output on the model's answer). *)
Theorem C17_rename_invariance :
  forall f K ops, StrictMono f ->
  run_dump K (map (rename_op f) ops) =
  (fst (run_dump K ops), map (rename_vec f) (snd (run_dump K ops))).
Proof. exact run_dump_rename. Qed.
Print Assumptions C17_rename_invariance.

(* the model's normalisation of a set operand commutes with the renaming on arbitrary lists *)
Theorem C17_rename_set_normalisation :
  forall f, StrictMono f -> forall l, set_of_list (map f l) = map f (set_of_list l).
Proof. exact set_of_list_rename. Qed.
Print Assumptions C17_rename_set_normalisation.

(* the renamed vectors stay in canonical form, membership is transported along f *)
Theorem C17_rename_canonical :
  forall f v, StrictMono f -> sorted v -> sorted (rename_vec f v).
Proof. exact rename_vec_sorted. Qed.
Print Assumptions C17_rename_canonical.

Theorem C17_rename_mem :
  forall f v i, StrictMono f -> mem (rename_vec f v) (f i) = mem v i.
Proof. exact rename_vec_mem. Qed.
Print Assumptions C17_rename_mem.

(* non-vacuity: f x = 37 x + 5 is strictly increasing; a concrete history with unsorted /
   duplicated set operands, an addition, a += and products; both sides computed *)
Example C17_rename_nonvacuous :
  let f := fun x => 37 * x + 5 in
  let ops := [OUnit 0 3; OSet 1 [5; 3; 9; 3]; OAddAssign 0 1; OCopy 2 1; OSet 3 [9; 0; 7; 0];
              OAdd 0 2 3; ODot 0 1; ODotSet 0 [7; 5; 5; 2; 0]; OSize 0] in
  StrictMono f /\
  run_dump 4 ops = ([OutBit false; OutBit true; OutNat 4], [[0; 3; 5; 7]; [3; 5; 9]; [3; 5; 9]; [0; 7; 9]]) /\
  run_dump 4 (map (rename_op f) ops) =
    ([OutBit false; OutBit true; OutNat 4],
     [[5; 116; 190; 264]; [116; 190; 338]; [116; 190; 338]; [5; 264; 338]]).
Proof.
  split; [|split].
  - intros a b Hab. apply Nat.add_lt_mono_r. apply Nat.mul_lt_mono_pos_l; [repeat constructor | exact Hab].
  - vm_compute; reflexivity.
  - vm_compute; reflexivity.
Qed.
