(* FloatTreesProofs.v — the tree-based variants on an ARBITRARY weight type (no algebraic law; in particular binary64 with
   rounding) and the witnesses of known findings D9 / D9b inside the binary64 model (TreesFloatModel.v).  Prefix ft_.

   Generic part (any W, w0, wadd, wltb):
     ft_iso_cycles_dflt_refines  the ISO builder with std::map::operator[]'s default agrees with the generic model
                                 whenever the latter returns CdOk
     ft_go_of_ok / ft_go_nocycle / ft_go_all_found
                                 the loop that goes on after an empty answer (sva_phases_go) against the loop of SvaModel.v:
                                 same cycles, total and supports while every phase finds; the first phase without answer is
                                 the k of SvaNoCycle k and is emitted as ([], w0, found = false)
     ft_path / ft_build          what CandidateCycleBuilder returns on ANY candidate over trees built by sptree: the
                                 candidate edge e = (a, b) plus the predecessor edges of a and of b up to the root,
                                 duplicate-free, with weight  w(e) + path of a upwards + path of b upwards  folded left
                                 to right, and with an odd number of signed edges
     ft_build_cycle_space        on a simple graph that edge set is an element of the cycle space (edge-simple closed walk)
     ft_search_sound             hence every search built on the builder is sound for the basis theorem
     ft_run_structural           every SvaOk run of the support-vector loop over such a search: m-n+c cycles, all in the
                                 cycle space, GF(2)-independent and spanning; per-cycle shape; total = left-to-right fold
     ft_*_structural             instances: mcb_sva_trees_first, mcb_sva_trees_replay / accept (generic collections and
                                 collections as executed), mcb_sva_trees_order, mcb_sva_trees_go
   NOT proved (false for arbitrary W, refuted for the isometric collection on binary64, see d9): that every phase finds
   an answer; that the emitted cycles are vertex-simple; any quantitative bound.

   Witnesses (vm_compute on Coq's primitive floats): d9_* (4-cycle 0.1 0.1 0.8 0.6) and d9b_* (5 vertices, 6 edges). *)
From Coq Require Import List Arith Bool Lia ZArith Permutation Floats.
From Parmcb Require Import GraphModel GraphSpec GraphLemmas GF2Model GF2Proofs McbSpec DePinaSpec ForestModel SvaModel SvaSpec
     SvaProofs HeapModel LexSPModel LexSPProofs FvsModel CandidatesModel CandidatesProofs RefModel RefProofs1 RefProofs3
     SignedProofs TreesModel TreesProofs1 SignedFloatModel FloatProofs TreesFloatModel.
Import ListNotations.

(* ---- small list facts -------------------------------------------------------------------------------------------- *)

Lemma ft_NoDup_app {A} (a b : list A) : NoDup a -> NoDup b -> (forall x, In x a -> ~ In x b) -> NoDup (a ++ b).
Proof.
  induction a as [|x a IH]; intros Ha Hb Hd; [exact Hb|].
  cbn [app]. inversion Ha as [|? ? Hx Ha']; subst. constructor.
  - intros Hin. apply in_app_or in Hin as [Hin|Hin]; [contradiction|]. apply (Hd x (or_introl eq_refl) Hin).
  - apply IH; [exact Ha'|exact Hb|]. intros y Hy. apply Hd. right. exact Hy.
Qed.

Lemma ft_NoDup_snoc {A} (l : list A) x : NoDup l -> ~ In x l -> NoDup (l ++ [x]).
Proof.
  intros Hl Hx. apply ft_NoDup_app; [exact Hl|constructor; [intros []|constructor]|].
  intros y Hy [<-|[]]. contradiction.
Qed.

Lemma ft_list_eqb_eq : forall a b, list_eqb a b = true -> a = b.
Proof.
  induction a as [|x a IH]; intros [|y b] H; cbn [list_eqb] in H; try discriminate; [reflexivity|].
  apply andb_true_iff in H as [H1 H2]. apply Nat.eqb_eq in H1. subst. f_equal. apply IH; exact H2.
Qed.

(* ---- (1) the ISO builder as executed refines the generic model ---------------------------------------------------- *)
Section Refine.
  Variable W : Type.
  Variable w0 : W.
  Variable wadd : W -> W -> W.
  Variable wltb : W -> W -> bool.

  Lemma ft_link_of_dflt_refines g trees cv c l :
    cd_link_of W g trees cv c = CdOk l -> cd_link_of_dflt W g trees cv c = CdOk l.
  Proof.
    unfold cd_link_of, cd_link_of_dflt. cbv zeta.
    destruct (nth_error trees (c_tree c)) as [tx|]; [|intros H; exact H].
    destruct (ends g (c_edge c)) as [[u v]|]; [|intros H; exact H].
    destruct (Nat.eqb (sp_first W tx u) (sp_first W tx v)); [intros H; exact H|].
    destruct (Nat.eqb (st_src tx) u).
    { destruct (cd_lookup W v (c_edge c) cv 0 None); [intros H; exact H|discriminate]. }
    destruct (nth_error trees (sp_first W tx u)) as [txp|]; [|intros H; exact H].
    destruct (Nat.eqb (st_src tx) (sp_first W txp v)).
    { destruct (cd_lookup W (sp_first W tx u) (c_edge c) cv 0 None); [intros H; exact H|discriminate]. }
    destruct (nth_error trees v) as [tv|]; [|intros H; exact H].
    destruct (Nat.eqb u (sp_first W tv (sp_first W tx u))); [|intros H; exact H].
    destruct (sp_node_of W tx (sp_first W tx u)) as [nd|]; [|intros H; exact H].
    destruct (sn_pred nd) as [pe|]; [|discriminate].
    destruct (cd_lookup W v pe cv 0 None); [intros H; exact H|discriminate].
  Qed.

  Lemma ft_links_dflt_refines g trees cv : forall todo ls,
    cd_links W g trees cv todo = CdOk ls -> cd_links_dflt W g trees cv todo = CdOk ls.
  Proof.
    induction todo as [|c r IH]; intros ls H; cbn [cd_links cd_links_dflt] in *; [exact H|].
    destruct (cd_link_of W g trees cv c) as [l| | | |] eqn:El; try discriminate.
    rewrite (ft_link_of_dflt_refines g trees cv c l El).
    destruct (cd_links W g trees cv r) as [ls'| | | |] eqn:Er; try discriminate.
    rewrite (IH ls' eq_refl). exact H.
  Qed.

  Theorem ft_iso_cycles_dflt_refines g wts r :
    iso_cycles W w0 wadd wltb g wts = CdOk r -> iso_cycles_dflt W w0 wadd wltb g wts = CdOk r.
  Proof.
    unfold iso_cycles, iso_cycles_dflt.
    destruct (horton_cycles W w0 wadd wltb g wts) as [[trees allcycles]| | | |]; try discriminate.
    cbv zeta.
    destruct (cd_links W g trees (filter (cd_is_circuit W g trees) allcycles) (filter (cd_is_circuit W g trees) allcycles))
      as [links| | | |] eqn:El; try discriminate.
    rewrite (ft_links_dflt_refines g trees _ _ links El). intros H. exact H.
  Qed.

  Lemma ft_collection_dflt_refines b g wts picks r :
    tb_collection W w0 wadd wltb b g wts picks = CdOk r -> tb_collection_dflt W w0 wadd wltb b g wts picks = CdOk r.
  Proof. destruct b; cbn [tb_collection tb_collection_dflt]; auto. apply ft_iso_cycles_dflt_refines. Qed.
End Refine.

(* ---- (3) the loop that goes on against the loop of SvaModel.v ------------------------------------------------------ *)
Section Go.
  Variable W : Type.
  Variable w0 : W.
  Variable wadd : W -> W -> W.
  Variable search : nat -> vec -> phase_result W.

  Notation go := (sva_phases_go W w0 wadd search).
  Notation sva := (sva_phases W wadd select_none search).
  Definition ft_found (p : go_phase W) : Prop := gp_found p = true.

  Lemma ft_sva_step fi k ks sup acc total :
    sva fi (k :: ks) sup acc total =
    match search k (nth k sup []) with
    | PError => SvaError k
    | PNone => SvaNoCycle k
    | PFound c w => sva fi ks (update_supports sup k (edges_to_indices fi c)) (c :: acc) (wadd total w)
    end.
  Proof. cbn [sva_phases]. unfold select_none. rewrite Nat.eqb_refl. reflexivity. Qed.

  (* an SvaOk run: the loop that goes on makes the same run, every phase found *)
  Lemma ft_go_of_ok fi : forall ks sup acc gacc total cycles tot sup',
    sva fi ks sup acc total = SvaOk cycles tot sup' ->
    exists phs, go fi ks sup gacc total = GoOk (rev gacc ++ phs) tot sup'
                /\ cycles = rev acc ++ map gp_cycle phs /\ Forall ft_found phs.
  Proof.
    induction ks as [|k ks IH]; intros sup acc gacc total cycles tot sup' H.
    - cbn [sva_phases] in H. injection H as <- <- <-. exists []. cbn [sva_phases_go map]. rewrite !app_nil_r. auto.
    - rewrite ft_sva_step in H. cbn [sva_phases_go]. cbv zeta.
      destruct (search k (nth k sup [])) as [c w| |]; try discriminate.
      destruct (IH _ _ ({| gp_signed := indices_to_edges fi (nth k sup []); gp_cycle := c; gp_weight := w; gp_found := true |} :: gacc)
                   _ _ _ _ H) as (phs & Hg & Hc & Hf).
      eexists (_ :: phs). split; [rewrite Hg; cbn [rev]; rewrite <- app_assoc; reflexivity|].
      split; [rewrite Hc; cbn [rev map gp_cycle]; rewrite <- app_assoc; reflexivity|].
      constructor; [reflexivity|exact Hf].
  Qed.

  Lemma ft_go_prefix fi : forall ks sup gacc total phases tot sup',
    go fi ks sup gacc total = GoOk phases tot sup' -> exists phs, phases = rev gacc ++ phs /\ length phs = length ks.
  Proof.
    induction ks as [|k ks IH]; intros sup gacc total phases tot sup' H; cbn [sva_phases_go] in H.
    - injection H as <- _ _. exists []. rewrite app_nil_r. auto.
    - cbv zeta in H. destruct (search k (nth k sup [])) as [c w| |]; try discriminate;
        apply IH in H as (phs & -> & Hl); eexists (_ :: phs); cbn [rev length]; rewrite <- app_assoc, Hl;
        (split; reflexivity).
  Qed.

  (* SvaNoCycle k: if the loop that goes on completes, its phases before k are found and phase k is ([], w0, false) *)
  Lemma ft_go_nocycle fi : forall ks sup acc gacc total k phases tot sup',
    sva fi ks sup acc total = SvaNoCycle k ->
    go fi ks sup gacc total = GoOk phases tot sup' ->
    exists pre p post, phases = rev gacc ++ pre ++ p :: post /\ Forall ft_found pre
                       /\ gp_found p = false /\ gp_cycle p = [] /\ gp_weight p = w0
                       /\ nth_error ks (length pre) = Some k.
  Proof.
    induction ks as [|k0 ks IH]; intros sup acc gacc total k phases tot sup' H G; [discriminate|].
    rewrite ft_sva_step in H. cbn [sva_phases_go] in G. cbv zeta in G.
    destruct (search k0 (nth k0 sup [])) as [c w| |]; try discriminate.
    - destruct (IH _ _ _ _ _ _ _ _ H G) as (pre & p & post & -> & Hf & H1 & H2 & H3 & Hn).
      eexists (_ :: pre), p, post. cbn [rev]. rewrite <- app_assoc. cbn [app length nth_error].
      split; [reflexivity|]. split; [constructor; [reflexivity|exact Hf]|]. auto.
    - injection H as <-. apply ft_go_prefix in G as (phs & -> & _).
      eexists [], _, phs. cbn [rev]. rewrite <- app_assoc. cbn [app length nth_error gp_found gp_cycle gp_weight].
      split; [reflexivity|]. split; [constructor|]. auto.
  Qed.

  (* conversely: a completed run in which every phase found IS an SvaOk run of SvaModel.v *)
  Lemma ft_go_all_found fi : forall ks sup acc gacc total phs tot sup',
    go fi ks sup gacc total = GoOk (rev gacc ++ phs) tot sup' -> Forall ft_found phs ->
    sva fi ks sup acc total = SvaOk (rev acc ++ map gp_cycle phs) tot sup'.
  Proof.
    induction ks as [|k ks IH]; intros sup acc gacc total phs tot sup' G Hf.
    - cbn [sva_phases_go] in G. injection G as G <- <-.
      assert (phs = []) as ->.
      { destruct phs as [|p phs]; [reflexivity|]. exfalso.
        assert (Hl : length (rev gacc) = length (rev gacc ++ p :: phs)) by (rewrite <- G; reflexivity).
        rewrite app_length in Hl. cbn [length] in Hl. lia. }
      cbn [sva_phases map]. rewrite app_nil_r. reflexivity.
    - rewrite ft_sva_step. cbn [sva_phases_go] in G. cbv zeta in G.
      destruct (search k (nth k sup [])) as [c w| |]; try discriminate.
      + pose proof G as G'. apply ft_go_prefix in G' as (phs' & E & _). cbn [rev] in E. rewrite <- app_assoc in E.
        apply app_inv_head in E. cbn [app] in E. subst phs. inversion Hf as [|? ? _ Hf']; subst.
        rewrite (IH (update_supports sup k (edges_to_indices fi c)) (c :: acc)
                    ({| gp_signed := indices_to_edges fi (nth k sup []); gp_cycle := c; gp_weight := w; gp_found := true |} :: gacc)
                    (wadd total w) phs' tot sup'); [cbn [rev map gp_cycle]; rewrite <- app_assoc; reflexivity| |exact Hf'].
        cbn [rev]. rewrite <- app_assoc. exact G.
      + exfalso. pose proof G as G'. apply ft_go_prefix in G' as (phs' & E & _). cbn [rev] in E. rewrite <- app_assoc in E.
        apply app_inv_head in E. cbn [app] in E. subst phs. inversion Hf as [|? ? Hp _]; subst. discriminate Hp.
  Qed.
End Go.

(* ---- CandidateCycleBuilder on trees built by sptree, arbitrary weight type ------------------------------------------ *)
Section Build.
  Variable W : Type.
  Variable w0 : W.
  Variable wadd : W -> W -> W.
  Variable wltb : W -> W -> bool.
  Variable g : graph.
  Variable wts : list W.

  Notation wt := (lx_wt W w0 wts).
  Notation twalk t := (lx_twalk W g (st_nodes t) (st_src t)).

  (* the left-to-right sum the builder forms: w(e), then the predecessor edges of a upwards, then those of b upwards *)
  Definition ft_weight (e : nat) (pa pb : list (nat * nat)) : W :=
    fold_left wadd (map wt (rev (wedges pa) ++ rev (wedges pb))) (wt e).

  (* every tree of the vector is what sptree returns for its own source *)
  Definition ft_trees_ok (trees : list (sp_tree W)) : Prop :=
    Forall (fun t => sptree W w0 wadd wltb g wts (st_src t) = LxOk t) trees.

  Lemma ft_tree_spec trees i t : ft_trees_ok trees -> nth_error trees i = Some t ->
    lx_tree_spec W w0 wadd g wts (st_src t) t.
  Proof.
    intros HF Hn. unfold ft_trees_ok in HF. rewrite Forall_forall in HF.
    apply (lx_sptree_spec W w0 wadd wltb g wts (st_src t) t). apply HF. eapply nth_error_In; eauto.
  Qed.

  (* the upward walk of tc_path along the tree walk p of v *)
  Lemma ft_path t : lx_tree_spec W w0 wadd g wts (st_src t) t ->
    forall p v, twalk t p v ->
    forall fuel res cw r' w', tc_path W w0 wadd fuel g wts t v res cw = TrOk (Some (r', w')) ->
      r' = wedges p ++ res /\ w' = fold_left wadd (map wt (rev (wedges p))) cw
      /\ NoDup (wedges p) /\ (forall e, In e (wedges p) -> ~ In e res).
  Proof.
    intros Hspec. induction 1 as [Hx|p u e v nd Hp IH Hv He Ho]; intros fuel res cw r' w' H.
    - destruct (ts_root _ _ _ _ _ _ _ Hspec) as [ndr [Hr1 [Hr2 _]]].
      destruct fuel; cbn [tc_path] in H; rewrite Hr1, Hr2 in H; injection H as <- <-;
        (split; [reflexivity|split; [reflexivity|split; [constructor|intros e []]]]).
    - destruct fuel as [|fuel]; cbn [tc_path] in H; unfold sp_node_of in H; rewrite Hv, He in H; [discriminate|].
      destruct (memb e res) eqn:Em; [discriminate|]. rewrite Ho in H.
      apply IH in H as (-> & -> & Hnd & Hres).
      rewrite tq_wedges_snoc. split; [rewrite <- app_assoc; reflexivity|].
      split; [rewrite rev_unit; reflexivity|].
      assert (Hep : ~ In e (wedges p)) by (intros Hin; apply (Hres e Hin); left; reflexivity).
      split; [apply ft_NoDup_snoc; assumption|].
      intros x Hx Hin. apply in_app_or in Hx as [Hx|[<-|[]]].
      + apply (Hres x Hx). right. exact Hin.
      + apply gl_memb_false in Em. contradiction.
  Qed.

  (* what a `true` answer of the builder is, for ANY candidate record *)
  Theorem ft_build trees pars sg c t cy w :
    nth_error trees (c_tree c) = Some t -> lx_tree_spec W w0 wadd g wts (st_src t) t ->
    update_parities W g t sg = TrOk (nth (c_tree c) pars []) ->
    tc_build W w0 wadd g wts trees pars sg c = TrOk (TcFound cy w) ->
    exists a b pa pb, ends g (c_edge c) = Some (a, b) /\ twalk t pa a /\ twalk t pb b
      /\ NoDup (wedges pb ++ wedges pa ++ [c_edge c])
      /\ cy = set_of_list (wedges pb ++ wedges pa ++ [c_edge c])
      /\ w = ft_weight (c_edge c) pa pb
      /\ oddb sg (wedges pb ++ wedges pa ++ [c_edge c]) = true.
  Proof.
    intros Ht Hspec Hup H. unfold tc_build in H. rewrite Ht in H.
    destruct (ends g (c_edge c)) as [[a b]|] eqn:He; [|discriminate].
    destruct (sp_node_of W t a) as [nda|] eqn:Ea; [|discriminate].
    destruct (sp_node_of W t b) as [ndb|] eqn:Eb; [|discriminate].
    destruct (xorb (xorb (nth a (nth (c_tree c) pars []) false) (nth b (nth (c_tree c) pars []) false)) (memb (c_edge c) sg)) eqn:Ex;
      [|discriminate].
    destruct (tc_path W w0 wadd (S (nv g)) g wts t a [c_edge c] (wt (c_edge c))) as [[[r1 w1]|]| | |] eqn:P1; try discriminate.
    destruct (tc_path W w0 wadd (S (nv g)) g wts t b r1 w1) as [[[r2 w2]|]| | |] eqn:P2; try discriminate.
    injection H as <- <-.
    destruct (ts_chain _ _ _ _ _ _ _ Hspec a) as [pa Hpa]; [rewrite Ea; discriminate|].
    destruct (ts_chain _ _ _ _ _ _ _ Hspec b) as [pb Hpb]; [rewrite Eb; discriminate|].
    destruct (ft_path t Hspec pa a Hpa _ _ _ _ _ P1) as (-> & -> & Hnda & Hra).
    destruct (ft_path t Hspec pb b Hpb _ _ _ _ _ P2) as (-> & -> & Hndb & Hrb).
    exists a, b, pa, pb. split; [reflexivity|]. split; [exact Hpa|]. split; [exact Hpb|].
    assert (Hnd : NoDup (wedges pb ++ wedges pa ++ [c_edge c])).
    { apply ft_NoDup_app; [exact Hndb| |exact Hrb].
      apply ft_NoDup_snoc; [exact Hnda|]. intros Hin. apply (Hra _ Hin). left. reflexivity. }
    split; [exact Hnd|]. split; [reflexivity|].
    split; [unfold ft_weight; rewrite map_app, fold_left_app; reflexivity|].
    destruct (tq_update_parities W w0 wadd g wts (st_src t) t Hspec sg) as [par [Hup' [_ Hpv]]].
    rewrite Hup in Hup'. injection Hup' as Epar. rewrite Epar in Ex.
    rewrite (Hpv a pa Hpa), (Hpv b pb Hpb) in Ex.
    rewrite !rf_oddb_app, rf_oddb_cons, rf_oddb_nil.
    destruct (oddb sg (wedges pa)), (oddb sg (wedges pb)), (memb (c_edge c) sg); cbn in Ex |- *; congruence.
  Qed.

  (* on a simple graph that edge set is the edge set of an edge-simple closed walk: an element of the cycle space *)
  Theorem ft_build_cycle_space t e a b pa pb :
    simple_graph g -> lx_tree_spec W w0 wadd g wts (st_src t) t ->
    ends g e = Some (a, b) -> twalk t pa a -> twalk t pb b -> NoDup (wedges pb ++ wedges pa ++ [e]) ->
    in_cycle_space g (set_of_list (wedges pb ++ wedges pa ++ [e]))
    /\ walk g (st_src t) pa a /\ walk g (st_src t) pb b.
  Proof.
    intros Hs Hspec He Hpa Hpb Hnd.
    pose proof (ts_len _ _ _ _ _ _ _ Hspec) as Hlen.
    pose proof (lx_twalk_walk W g (st_nodes t) (st_src t) pa a Hlen Hpa) as Hwa.
    pose proof (lx_twalk_walk W g (st_nodes t) (st_src t) pb b Hlen Hpb) as Hwb.
    split; [|split; assumption].
    destruct (sg_walk_rev g _ _ _ Hs Hwb) as (pb' & Hwb' & Eb).
    assert (Hperm : Permutation (wedges pb ++ wedges pa ++ [e]) (wedges pa ++ e :: rev (wedges pb))).
    { rewrite Permutation_app_comm. rewrite <- app_assoc. apply Permutation_app_head. cbn [app].
      apply perm_skip. apply Permutation_rev. }
    apply (sg_closed_walk_cs g (st_src t) (pa ++ (e, b) :: pb')); [exact Hs| | |apply set_of_list_sorted|].
    - eapply gl_walk_app; [exact Hwa|]. econstructor; [left; exact He|exact Hwb'].
    - rewrite sg_wedges_app. cbn [wedges map fst]. fold (wedges pb'). rewrite Eb.
      eapply Permutation_NoDup; [exact Hperm|exact Hnd].
    - intros x. rewrite rf_set_of_list_In, sg_wedges_app. cbn [wedges map fst]. fold (wedges pb'). rewrite Eb.
      split; intros Hin; [eapply Permutation_in; [exact Hperm|exact Hin]|
                          eapply Permutation_in; [apply Permutation_sym; exact Hperm|exact Hin]].
  Qed.

  (* tp_all: the parity arrays of all trees, by position *)
  Lemma ft_tp_all_nth sg : forall trees pars, tp_all W g trees sg = TrOk pars ->
    forall i t, nth_error trees i = Some t -> update_parities W g t sg = TrOk (nth i pars []).
  Proof.
    induction trees as [|t0 trees IH]; intros pars H i t Hn; [destruct i; discriminate|].
    cbn [tp_all] in H. destruct (update_parities W g t0 sg) as [p| | |] eqn:Ep; try discriminate.
    destruct (tp_all W g trees sg) as [ps| | |] eqn:Eps; try discriminate. injection H as <-.
    destruct i as [|i]; cbn [nth_error nth] in *; [injection Hn as <-; exact Ep|]. apply (IH ps eq_refl i t Hn).
  Qed.

  (* ---- the shape of an emitted (cycle, weight) ------------------------------------------------------------------- *)
  Definition tree_cycle_shape (cy : list nat) (w : W) : Prop :=
    exists s e a b pa pb, ends g e = Some (a, b) /\ walk g s pa a /\ walk g s pb b
      /\ NoDup (wedges pb ++ wedges pa ++ [e])
      /\ sorted cy /\ (forall x, In x cy <-> In x (wedges pb ++ wedges pa ++ [e]))
      /\ w = ft_weight e pa pb.

  (* a search all of whose answers are answers of the builder on SOME candidate record under the phase's signed set *)
  Definition ft_from_build (trees : list (sp_tree W)) (fi : forest_index) (search : nat -> vec -> phase_result W) : Prop :=
    forall k S cy w, search k S = PFound cy w ->
      exists pars c, tp_all W g trees (indices_to_edges fi S) = TrOk pars
                     /\ tc_build W w0 wadd g wts trees pars (indices_to_edges fi S) c = TrOk (TcFound cy w).

  Section Sound.
    Variable roots : list nat.
    Variable fi : forest_index.
    Variable trees : list (sp_tree W).
    Variable search : nat -> vec -> phase_result W.
    Hypothesis Hs : simple_graph g.
    Hypothesis Hr : forall v, v < nv g -> In v roots.
    Hypothesis Hci : create_index g roots = Some fi.
    Hypothesis Hok : ft_trees_ok trees.
    Hypothesis Hfb : ft_from_build trees fi search.

    Lemma ft_answer k S cy w : search k S = PFound cy w ->
      in_cycle_space g cy /\ oddb (indices_to_edges fi S) cy = true /\ tree_cycle_shape cy w.
    Proof.
      intros H. destruct (Hfb k S cy w H) as (pars & c & Hp & Hb).
      unfold tc_build in Hb. destruct (nth_error trees (c_tree c)) as [t|] eqn:Ht; [|destruct (ends g (c_edge c)) as [[? ?]|]; discriminate].
      assert (Hb' : tc_build W w0 wadd g wts trees pars (indices_to_edges fi S) c = TrOk (TcFound cy w))
        by (unfold tc_build; rewrite Ht; exact Hb).
      pose proof (ft_tree_spec trees _ t Hok Ht) as Hspec.
      destruct (ft_build trees pars _ c t cy w Ht Hspec (ft_tp_all_nth _ trees pars Hp _ t Ht) Hb')
        as (a & b & pa & pb & He & Hpa & Hpb & Hnd & -> & -> & Hodd).
      destruct (ft_build_cycle_space t (c_edge c) a b pa pb Hs Hspec He Hpa Hpb Hnd) as (Hcs & Hwa & Hwb).
      split; [exact Hcs|]. split; [rewrite rf_oddb_set_of_list by exact Hnd; exact Hodd|].
      exists (st_src t), (c_edge c), a, b, pa, pb. split; [exact He|]. split; [exact Hwa|]. split; [exact Hwb|].
      split; [exact Hnd|]. split; [apply set_of_list_sorted|]. split; [intros x; apply rf_set_of_list_In|reflexivity].
    Qed.

    Lemma ft_search_sound : search_sound_c g fi search.
    Proof.
      intros k S cy w (HS & _ & HSb) H. destruct (ft_answer k S cy w H) as (Hcs & Hodd & _).
      split; [exact Hcs|]. destruct Hcs as (Sc & Vc & _).
      rewrite (rf_bridge g roots fi S cy Hs Hr Hci HS HSb Sc Vc). exact Hodd.
    Qed.

    (* every SvaOk run of the support-vector loop over such a search *)
    Theorem ft_run_structural cycles total sup :
      sva_run W w0 wadd select_none search fi = SvaOk cycles total sup ->
      has_cycle_space_dimension g (length cycles) /\ Forall (in_cycle_space g) cycles
      /\ indep cycles /\ spans (in_cycle_space g) cycles
      /\ exists ws, Forall2 tree_cycle_shape cycles ws /\ total = fold_left wadd ws w0.
    Proof.
      intros H.
      destruct (sva_generic_basis_c g roots fi W w0 wadd _ _ cycles total sup Hs Hr Hci
                  (select_none_ok (fi_csd fi)) ft_search_sound H) as (_ & Hd & HV & _ & _ & Hi & Hsp).
      split; [exact Hd|]. split; [exact HV|]. split; [exact Hi|]. split; [exact Hsp|].
      destruct (sva_run_w_spec W w0 wadd select_none search fi cycles total sup H) as (ws & _ & HF & Ht).
      exists ws. split; [|exact Ht]. clear Ht H Hd HV Hi Hsp.
      induction HF as [|c w cs ws' (k & S & Hrep) HF IH]; constructor; [|exact IH].
      destruct (ft_answer k S c w Hrep) as (_ & _ & Hsh). exact Hsh.
    Qed.
  End Sound.
End Build.

(* ---- the searches of TreesModel.v / TreesFloatModel.v answer with answers of the builder ------------------------------ *)
Section Searches.
  Variable W : Type.
  Variable w0 : W.
  Variable wadd : W -> W -> W.
  Variable wltb : W -> W -> bool.
  Variable g : graph.
  Variable wts : list W.

  Lemma ft_eval_In trees pars sg : forall cs l, tl_eval W w0 wadd g wts trees pars sg cs = TrOk l ->
    forall x a, In (x, a) l -> tc_build W w0 wadd g wts trees pars sg x = TrOk a.
  Proof.
    induction cs as [|c cs IH]; intros l H x a Hin; cbn [tl_eval] in H.
    - injection H as <-. destruct Hin.
    - destruct (tc_build W w0 wadd g wts trees pars sg c) as [a0| | |] eqn:Eb; try discriminate.
      destruct (tl_eval W w0 wadd g wts trees pars sg cs) as [l'| | |] eqn:El; try discriminate.
      injection H as <-. destruct Hin as [[= <- <-]|Hin]; [exact Eb|]. eapply IH; eauto.
  Qed.

  Lemma ft_first_from_build trees cands fi :
    ft_from_build W w0 wadd g wts trees fi (trees_search_first W w0 wadd wltb g wts trees cands fi).
  Proof.
    intros k S cy w H. unfold trees_search_first, tl_answers in H.
    destruct (tp_all W g trees (indices_to_edges fi S)) as [pars| | |] eqn:Ep; try discriminate.
    destruct (tl_eval W w0 wadd g wts trees pars (indices_to_edges fi S) cands) as [l| | |] eqn:El; try discriminate.
    unfold trees_phase_first in H.
    destruct (find _ l) as [[c [cy' w'|]]|] eqn:Ef; try discriminate. injection H as <- <-.
    apply find_some in Ef as [Hin _]. exists pars, c. split; [reflexivity|]. eapply ft_eval_In; eauto.
  Qed.

  Lemma ft_accept_from_build trees cands fi cycles :
    ft_from_build W w0 wadd g wts trees fi (trees_search_accept W w0 wadd wltb g wts trees cands fi cycles).
  Proof.
    intros k S cy w H. unfold trees_search_accept, tl_answers in H.
    destruct (nth_error cycles k) as [c0|]; [|discriminate].
    destruct (tp_all W g trees (indices_to_edges fi S)) as [pars| | |] eqn:Ep; try discriminate.
    destruct (tl_eval W w0 wadd g wts trees pars (indices_to_edges fi S) cands) as [l| | |] eqn:El; try discriminate.
    unfold trees_phase_pick in H.
    destruct (find (tl_matches W wltb l c0) l) as [[c [cy' w'|]]|] eqn:Ef; try discriminate. injection H as <- <-.
    apply find_some in Ef as [Hin Hm]. unfold tl_matches in Hm. cbn [snd fst] in Hm.
    apply andb_true_iff in Hm as [Hm _]. apply ft_list_eqb_eq in Hm. subst cy'.
    exists pars, c. split; [reflexivity|]. eapply ft_eval_In; eauto.
  Qed.

  Lemma ft_scan_from_build trees pars sg : forall cs cy w,
    ts_scan W w0 wadd g wts trees pars sg cs = TrOk (Some (cy, w)) ->
    exists c, In c cs /\ tc_build W w0 wadd g wts trees pars sg c = TrOk (TcFound cy w).
  Proof.
    induction cs as [|c cs IH]; intros cy w H; cbn [ts_scan] in H; [discriminate|].
    destruct (tc_build W w0 wadd g wts trees pars sg c) as [[cy' w'|]| | |] eqn:Eb; try discriminate.
    - injection H as <- <-. exists c. split; [left; reflexivity|exact Eb].
    - destruct (IH cy w H) as (c' & Hin & Hb). exists c'. split; [right; exact Hin|exact Hb].
  Qed.

  Lemma ft_order_from_build trees sorted_cands fi :
    ft_from_build W w0 wadd g wts trees fi (trees_search_order W w0 wadd g wts trees sorted_cands fi).
  Proof.
    intros k S cy w H. unfold trees_search_order, ts_lookup in H.
    destruct (tp_all W g trees (indices_to_edges fi S)) as [pars| | |] eqn:Ep; try discriminate.
    destruct (ts_scan W w0 wadd g wts trees pars (indices_to_edges fi S) sorted_cands) as [[[cy' w']|]| | |] eqn:Es; try discriminate.
    injection H as <- <-. destruct (ft_scan_from_build trees pars _ _ _ _ Es) as (c & _ & Hb). exists pars, c. auto.
  Qed.

  (* ---- the trees of every collection are what sptree returns --------------------------------------------------------- *)
  Lemma ft_roots_trees_ok roots trees cs :
    cycles_of_roots W w0 wadd wltb g wts roots = CdOk (trees, cs) -> ft_trees_ok W w0 wadd wltb g wts trees.
  Proof.
    intros H. apply (cd_cycles_of_roots_inv W w0 wadd wltb) in H as [F _]. unfold ft_trees_ok.
    induction F as [|s t ss ts Hst F IH]; constructor; [|exact IH].
    destruct (cd_sptree_src W w0 wadd wltb g wts s t Hst) as [-> _]. exact Hst.
  Qed.

  Lemma ft_collection_trees_ok b picks trees cs :
    tb_collection_dflt W w0 wadd wltb b g wts picks = CdOk (trees, cs) -> ft_trees_ok W w0 wadd wltb g wts trees.
  Proof.
    destruct b; cbn [tb_collection_dflt].
    - apply ft_roots_trees_ok.
    - unfold fvs_cycles. destruct (greedy_fvs g picks) as [fvs| | |]; try discriminate. apply ft_roots_trees_ok.
    - unfold iso_cycles_dflt.
      destruct (horton_cycles W w0 wadd wltb g wts) as [[htrees allcycles]| | | |] eqn:Eh; try discriminate.
      cbv zeta. destruct (cd_links_dflt W g htrees _ _) as [links| | | |]; try discriminate.
      unfold iso_of_links. cbv zeta. destruct (cd_components _ _ _ _) as [comp|]; [|discriminate].
      destruct (cd_iso_out _ _ _ _ _ _ _ _ _ _) as [out| | | |]; try discriminate.
      intros [= <- <-]. exact (ft_roots_trees_ok _ _ _ Eh).
  Qed.

  Lemma ft_collection_strict_trees_ok b picks trees cs :
    tb_collection W w0 wadd wltb b g wts picks = CdOk (trees, cs) -> ft_trees_ok W w0 wadd wltb g wts trees.
  Proof. intros H. apply (ft_collection_dflt_refines W w0 wadd wltb) in H. eapply ft_collection_trees_ok; eauto. Qed.

  (* ---- whole runs ------------------------------------------------------------------------------------------------------- *)
  Definition ft_structure (cycles : list (list nat)) (total : W) : Prop :=
    has_cycle_space_dimension g (length cycles) /\ Forall (in_cycle_space g) cycles
    /\ indep cycles /\ spans (in_cycle_space g) cycles
    /\ exists ws, Forall2 (tree_cycle_shape W w0 wadd g wts) cycles ws /\ total = fold_left wadd ws w0.

  Section Runs.
    Variable roots : list nat.
    Hypothesis Hs : simple_graph g.
    Hypothesis Hr : forall v, v < nv g -> In v roots.

    (* over any collection whose trees are sptree's, any search built on the builder *)
    Lemma ft_coll_structural coll search cycles total sup :
      (forall trees cands, coll = CdOk (trees, cands) -> ft_trees_ok W w0 wadd wltb g wts trees) ->
      (forall trees cands fi, ft_from_build W w0 wadd g wts trees fi (search trees cands fi)) ->
      mcb_sva_trees_coll W w0 wadd coll g roots search = TRun (SvaOk cycles total sup) ->
      ft_structure cycles total.
    Proof.
      intros Hok Hfb H. unfold mcb_sva_trees_coll in H.
      destruct (create_index g roots) as [fi|] eqn:Hci; [|discriminate].
      destruct coll as [[trees cands]| | | |]; try discriminate. injection H as H.
      exact (ft_run_structural W w0 wadd wltb g wts roots fi trees _ Hs Hr Hci (Hok trees cands eq_refl) (Hfb trees cands fi)
               cycles total sup H).
    Qed.

    Theorem ft_first_structural b picks cycles total sup :
      mcb_sva_trees_first W w0 wadd wltb b g wts roots picks = TRun (SvaOk cycles total sup) -> ft_structure cycles total.
    Proof.
      intros H. apply (ft_coll_structural (tb_collection W w0 wadd wltb b g wts picks)
                         (fun trees cands fi => trees_search_first W w0 wadd wltb g wts trees cands fi) cycles total sup).
      - intros trees cands E. eapply ft_collection_strict_trees_ok; eauto.
      - intros trees cands fi. apply ft_first_from_build.
      - exact H.
    Qed.

    Theorem ft_replay_structural b picks given cycles total sup :
      mcb_sva_trees_replay W w0 wadd wltb b g wts roots picks given = TRun (SvaOk cycles total sup) -> ft_structure cycles total.
    Proof.
      intros H. apply (ft_coll_structural (tb_collection W w0 wadd wltb b g wts picks)
                         (fun trees cands fi => trees_search_accept W w0 wadd wltb g wts trees cands fi given) cycles total sup).
      - intros trees cands E. eapply ft_collection_strict_trees_ok; eauto.
      - intros trees cands fi. apply ft_accept_from_build.
      - exact H.
    Qed.

    Theorem ft_accept_structural b picks cycles total :
      mcb_sva_trees_accept W w0 wadd wltb b g wts roots picks cycles = Some total ->
      exists cs, length cs = length cycles /\ ft_structure cs total.
    Proof.
      intros H. unfold mcb_sva_trees_accept in H.
      destruct (mcb_sva_trees_replay W w0 wadd wltb b g wts roots picks cycles) as [[cs tot sup| | |]|] eqn:E; try discriminate.
      destruct (Nat.eqb_spec (length cycles) (length cs)) as [El|]; [|discriminate]. injection H as <-.
      exists cs. split; [symmetry; exact El|]. exact (ft_replay_structural b picks cycles cs tot sup E).
    Qed.

    Theorem ft_first_dflt_structural b picks cycles total sup :
      mcb_sva_trees_first_dflt W w0 wadd wltb b g wts roots picks = TRun (SvaOk cycles total sup) -> ft_structure cycles total.
    Proof.
      intros H. apply (ft_coll_structural (tb_collection_dflt W w0 wadd wltb b g wts picks)
                         (fun trees cands fi => trees_search_first W w0 wadd wltb g wts trees cands fi) cycles total sup).
      - intros trees cands E. eapply ft_collection_trees_ok; eauto.
      - intros trees cands fi. apply ft_first_from_build.
      - exact H.
    Qed.

    Theorem ft_replay_dflt_structural b picks given cycles total sup :
      mcb_sva_trees_replay_dflt W w0 wadd wltb b g wts roots picks given = TRun (SvaOk cycles total sup) -> ft_structure cycles total.
    Proof.
      intros H. apply (ft_coll_structural (tb_collection_dflt W w0 wadd wltb b g wts picks)
                         (fun trees cands fi => trees_search_accept W w0 wadd wltb g wts trees cands fi given) cycles total sup).
      - intros trees cands E. eapply ft_collection_trees_ok; eauto.
      - intros trees cands fi. apply ft_accept_from_build.
      - exact H.
    Qed.

    Theorem ft_order_structural b picks order cycles total sup :
      mcb_sva_trees_order W w0 wadd wltb b g wts roots picks order = TRun (SvaOk cycles total sup) -> ft_structure cycles total.
    Proof.
      intros H. unfold mcb_sva_trees_order in H.
      destruct (create_index g roots) as [fi|] eqn:Hci; [|discriminate].
      destruct (tb_collection_dflt W w0 wadd wltb b g wts picks) as [[trees cands]| | | |] eqn:Ec; try discriminate.
      destruct (ts_arrange W wltb cands order) as [sc|]; [|discriminate]. injection H as H.
      exact (ft_run_structural W w0 wadd wltb g wts roots fi trees _ Hs Hr Hci (ft_collection_trees_ok b picks trees cands Ec)
               (ft_order_from_build trees sc fi) cycles total sup H).
    Qed.

    (* the run that goes on: it is the SvaOk run above as soon as every phase found *)
    Lemma ft_go_is_order b picks order phases total sup :
      mcb_sva_trees_go W w0 wadd wltb b g wts roots picks order = GoOk phases total sup ->
      Forall (ft_found W) phases ->
      mcb_sva_trees_order W w0 wadd wltb b g wts roots picks order = TRun (SvaOk (map gp_cycle phases) total sup).
    Proof.
      intros H Hf. unfold mcb_sva_trees_go in H. unfold mcb_sva_trees_order.
      destruct (create_index g roots) as [fi|]; [|discriminate].
      destruct (tb_collection_dflt W w0 wadd wltb b g wts picks) as [[trees cands]| | | |]; try discriminate.
      destruct (ts_arrange W wltb cands order) as [sc|]; [|discriminate].
      unfold sva_run_go in H. unfold sva_run. f_equal.
      exact (ft_go_all_found W w0 wadd _ fi _ _ [] [] w0 phases total sup H Hf).
    Qed.

    Theorem ft_go_structural b picks order phases total sup :
      mcb_sva_trees_go W w0 wadd wltb b g wts roots picks order = GoOk phases total sup ->
      Forall (ft_found W) phases ->
      ft_structure (map gp_cycle phases) total.
    Proof. intros H Hf. eapply ft_order_structural. apply ft_go_is_order; eauto. Qed.

    (* a run that stops with SvaNoCycle k is, in the loop that goes on, an empty cycle with weight w0 at phase k *)
    Theorem ft_order_nocycle_go b picks order k phases total sup :
      mcb_sva_trees_order W w0 wadd wltb b g wts roots picks order = TRun (SvaNoCycle k) ->
      mcb_sva_trees_go W w0 wadd wltb b g wts roots picks order = GoOk phases total sup ->
      exists pre p post, phases = pre ++ p :: post /\ length pre = k /\ Forall (ft_found W) pre
                         /\ gp_found p = false /\ gp_cycle p = [] /\ gp_weight p = w0.
    Proof.
      unfold mcb_sva_trees_order, mcb_sva_trees_go.
      destruct (create_index g roots) as [fi|]; [|discriminate].
      destruct (tb_collection_dflt W w0 wadd wltb b g wts picks) as [[trees cands]| | | |]; try discriminate.
      destruct (ts_arrange W wltb cands order) as [sc|]; [|discriminate].
      intros H G. injection H as H. unfold sva_run in H. unfold sva_run_go in G.
      destruct (ft_go_nocycle W w0 wadd _ fi _ _ [] [] w0 k phases total sup H G) as (pre & p & post & -> & Hf & H1 & H2 & H3 & Hn).
      exists pre, p, post. cbn [rev app]. split; [reflexivity|]. split; [|auto].
      pose proof (nth_error_Some (seq 0 (fi_csd fi)) (length pre)) as Hlt. rewrite Hn in Hlt.
      assert (Hl : length pre < length (seq 0 (fi_csd fi))) by (apply Hlt; discriminate).
      rewrite seq_length in Hl.
      assert (E : nth_error (seq 0 (fi_csd fi)) (length pre) = Some (length pre)).
      { rewrite (nth_error_nth' _ 0) by (rewrite seq_length; exact Hl). rewrite seq_nth by exact Hl. reflexivity. }
      rewrite E in Hn. injection Hn as Hn. exact Hn.
    Qed.
  End Runs.
End Searches.

(* ---- known findings D9 / D9b inside the binary64 model (vm_compute on primitive floats) --------------------------------- *)

(* D9: the 4-cycle 0-1-2-3-0 with the doubles nearest to 0.1, 0.1, 0.8, 0.6 (FloatProofs.d9_graph / d9_weights; roots as the
   implementation takes them).  The isometric collection is EMPTY over binary64. *)
Definition d9_empty_phase : go_phase float :=
  {| gp_signed := [0]; gp_cycle := []; gp_weight := f64_zero; gp_found := false |}.

Lemma d9_iso_collection_empty : exists trees, tf_iso_cycles d9_graph d9_weights = CdOk (trees, []).
Proof. eexists. vm_compute. reflexivity. Qed.

Lemma d9_iso_first_nocycle : tf_mcb_sva_trees_first TbIso d9_graph d9_weights d9_roots [] = TRun (SvaNoCycle 0).
Proof. vm_compute. reflexivity. Qed.

Lemma d9_iso_order_nocycle : tf_mcb_sva_trees_order TbIso d9_graph d9_weights d9_roots [] [] = TRun (SvaNoCycle 0).
Proof. vm_compute. reflexivity. Qed.

(* what the code does: one EMPTY cycle is emitted, +0.0 is returned *)
Lemma d9_iso_go : tf_mcb_sva_trees_go TbIso d9_graph d9_weights d9_roots [] [] = GoOk [d9_empty_phase] f64_zero [[0]].
Proof. vm_compute. reflexivity. Qed.

(* the same graph with the same weights in units of 1/10, exact arithmetic: the 4-cycle, weight 16 *)
Lemma d9_iso_Z : mcb_sva_trees_first_Z TbIso d9_graph d9_weights_Z d9_roots [] = TRun (SvaOk [[0; 1; 2; 3]] 16%Z [[0]]).
Proof. vm_compute. reflexivity. Qed.

(* the FVS variant on binary64 (feedback vertex set {3}, one candidate): the cycle, weight = the double nearest to 1.6 *)
Lemma d9_fvs_go :
  tf_mcb_sva_trees_go TbFvs d9_graph d9_weights d9_roots [3] [0]
  = GoOk [{| gp_signed := [0]; gp_cycle := [0; 1; 2; 3]; gp_weight := d9_total; gp_found := true |}] d9_total [[0]].
Proof. vm_compute. reflexivity. Qed.

(* D9b: n = 5, edges 0-3 0.4, 1-3 0.3, 2-3 0.5, 0-4 0.9, 0-2 0.9, 1-4 0.2.  The minimum basis is the triangle 0-2-3 (1.8) and
   the 4-cycle 0-3-1-4 (1.8); over binary64 the 4-cycle is dropped from the isometric collection and replaced by the 5-cycle. *)
Definition d9b_graph : graph := {| nv := 5; ge := [(0, 3); (1, 3); (2, 3); (0, 4); (0, 2); (1, 4)] |}.
Definition d9b_weights : list float :=
  [0x1.999999999999ap-2; 0x1.3333333333333p-2; 0x1.0000000000000p-1; 0x1.ccccccccccccdp-1; 0x1.ccccccccccccdp-1;
   0x1.999999999999ap-3]%float.
Definition d9b_weights_Z : list Z := [4; 3; 5; 9; 9; 2]%Z.       (* the same weights in units of 1/10, exact *)
Definition d9b_roots : list nat := [4; 0; 1; 2; 3; 4].
Definition d9b_total : float := 0x1.2666666666666p+2%float.      (* 4.6 (rounded); the optimum is 3.6 *)
Definition d9b_fvs_total : float := 0x1.ccccccccccccdp+1%float.  (* 3.6 (rounded) *)
Definition d9b_w5 : float := 0x1.6666666666666p+1%float.         (* the weight the builder computes for the 5-cycle (2.8) *)
Definition d9b_w3 : float := 0x1.cccccccccccccp+0%float.         (* ... and for the triangle (1.8, one ulp below the double nearest to 1.8) *)

Lemma d9b_simple : simple_graph d9b_graph.
Proof. reflexivity. Qed.

Lemma d9b_roots_cover : forall v, v < nv d9b_graph -> In v d9b_roots.
Proof.
  intros v Hv. cbn [nv d9b_graph] in Hv. unfold d9b_roots.
  do 5 (destruct v as [|v]; [cbn [In]; tauto|]). exfalso. lia.
Qed.

(* the run of the code, bit for bit: the 5-cycle 1-4-0-2-3 (2.8) and the triangle (1.8), returned 4.6 *)
Lemma d9b_iso_go :
  tf_mcb_sva_trees_go TbIso d9b_graph d9b_weights d9b_roots [] [0; 1]
  = GoOk [{| gp_signed := [1]; gp_cycle := [1; 2; 3; 4; 5]; gp_weight := d9b_w5; gp_found := true |};
          {| gp_signed := [1; 2]; gp_cycle := [0; 2; 4]; gp_weight := d9b_w3; gp_found := true |}]
         d9b_total [[0]; [0; 1]].
Proof. vm_compute. reflexivity. Qed.

(* exact arithmetic on the same graph: the 4-cycle 0-3-1-4 and the triangle, total 36 (= 3.6) *)
Lemma d9b_iso_Z :
  mcb_sva_trees_first_Z TbIso d9b_graph d9b_weights_Z d9b_roots [] = TRun (SvaOk [[0; 1; 3; 5]; [0; 2; 4]] 36%Z [[0]; [1]]).
Proof. vm_compute. reflexivity. Qed.

(* the FVS variant on binary64 returns the minimum (feedback vertex set {3}) *)
Lemma d9b_fvs_go : exists phases sup,
  tf_mcb_sva_trees_go TbFvs d9b_graph d9b_weights d9b_roots [3] [0; 1] = GoOk phases d9b_fvs_total sup
  /\ map gp_cycle phases = [[0; 1; 3; 5]; [0; 2; 4]].
Proof. eexists _, _. split; vm_compute; reflexivity. Qed.

(* on this input the generic ISO model (no std::map::operator[] default) stops with CdInconsistent: a key is looked up that
   was never inserted — the code links to vertex 0 of the cycle graph and goes on (TreesFloatModel.iso_cycles_dflt) *)
Lemma d9b_strict_inconsistent : tf_iso_cycles_strict d9b_graph d9b_weights = CdInconsistent.
Proof. vm_compute. reflexivity. Qed.

(* ---- "every phase finds a cycle" on binary64: a statement, refuted for the isometric collection -------------------------- *)

(* finite weights in [1e-3, 1e3] (the domain of property C09) *)
Definition f64_weight_ok (w : float) : bool :=
  PrimFloat.leb 0x1.0624dd2f1a9fcp-10%float w && PrimFloat.leb w 0x1.f4p+9%float.

Definition trees_all_found_stmt (b : tbuilder) : Prop :=
  forall (g : graph) (wts : list float) (roots picks order : list nat) phases total sup,
    simple_graph g -> length wts = ne g -> forallb f64_weight_ok wts = true -> (forall v, v < nv g -> In v roots) ->
    tf_mcb_sva_trees_go b g wts roots picks order = GoOk phases total sup ->
    Forall (ft_found float) phases.

Theorem d9_iso_all_found_refuted : ~ trees_all_found_stmt TbIso.
Proof.
  intros H.
  specialize (H d9_graph d9_weights d9_roots [] [] _ _ _ d9_simple eq_refl eq_refl d9_roots_cover d9_iso_go).
  inversion H as [|? ? Hp _]; subst. discriminate Hp.
Qed.
