(* ApproxProofsEdge.v — consequences of the optimality of the plain Dijkstra (ApproxProofsDijkstraOpt) for the
   approximate algorithms on positive weights:
     ap_edge_bound   C06_edge: the cycle of a dropped edge e weighs at most 2k * w(e)
                     (shortest spanner path <= the light (2k-1)-hop path of C15_stretch, plus e itself);
     ap_dropped_total / ap_run_total  no error value: the cycle builder never fails (Dijkstra never updates a
                     vertex that left the queue, the predecessor walk ends at the source within nv+1 steps, every
                     translated id is in range), so approx_run returns ApproxOk as soon as the exact phase returns
                     cycles over valid spanner edge ids.
   Prefix ap_. *)
From Coq Require Import List Arith Bool Lia ZArith Permutation Sorted.
From Parmcb Require Import GraphModel GF2Model GF2Proofs GF2Lin GraphSpec GraphLemmas McbSpec
  SpannerModel SpannerProofs SvaModel DijkstraModel ApproxModel
  ApproxProofsDijkstra ApproxProofsDijkstraOpt ApproxProofsRelabel ApproxProofs ApproxProofsBasis ApproxProofsRun.
Import ListNotations.

Lemma ap_dj_wt_nonneg wh : Forall (fun x => (0 < x)%Z) wh -> forall e, (0 <= dj_wt Z 0%Z wh e)%Z.
Proof.
  intros H e. unfold dj_wt. destruct (lt_dec e (length wh)) as [Hlt|Hge].
  - rewrite Forall_forall in H. specialize (H (nth e wh 0%Z) (nth_In _ _ Hlt)). lia.
  - rewrite nth_overflow by lia. lia.
Qed.

(* along the predecessor walk the distance is the weight of the walk *)
Lemma ap_chain_dist h wh s dist pred ord : simple_graph h -> dist_tree h wh s dist pred ord ->
  forall q cur, walk h cur q s -> follows pred cur q ->
  nth cur dist None = Some (weight wh (wedges q)).
Proof.
  intros Hh HT. induction q as [|[e y] q IH]; intros cur Hw Hf.
  - inversion Hw; subst. unfold weight; cbn [wedges map fold_right]. apply (dt_src _ _ _ _ _ _ HT).
  - inversion Hw as [|? ? ? ? ? Hj Hw']; subst. destruct Hf as (Hp & Hf).
    destruct (dt_pred _ _ _ _ _ _ HT cur e Hp) as (p0 & dp & dw & Hj0 & Hdp & Hdw & E).
    destruct (gl_simple_joins h e cur y Hh Hj) as (_ & _ & Hne).
    assert (Ey : y = p0).
    { destruct (ap_joins_fun h e cur y cur p0 Hj Hj0) as [[_ E']|[_ E']]; [exact E'|congruence]. }
    subst p0. rewrite (IH y Hw' Hf) in Hdp. injection Hdp as <-.
    rewrite Hdw, E. cbn [wedges map fst]. fold (wedges q). rewrite rl_weight_cons. unfold wt, dj_wt. f_equal. lia.
Qed.

Section Edge.
  Variable g : graph.
  Hypothesis Hg : simple_graph g.
  Variable sp : spanner.
  Hypothesis Hsub : sp_sub g sp.
  Hypothesis HP : Permutation (retained sp ++ dropped sp) (seq 0 (ne g)).
  Variable w : list Z.
  Hypothesis Hlen : length w = ne g.
  Hypothesis Hpos : Forall (fun x => (0 < x)%Z) w.

  Notation R := (retained sp).
  Notation D := (dropped sp).
  Notation h := (sp_graph sp).
  Notation wh := (spanner_weights w sp).

  Lemma ap_weight_back p : incl (wedges p) R ->
    weight wh (map (tri sp) (wedges p)) = weight w (wedges p).
  Proof.
    induction (wedges p) as [|e l IH]; intros Hin; [reflexivity|].
    cbn [map]. rewrite !rl_weight_cons, IH by (intros x Hx; apply Hin; right; exact Hx).
    rewrite <- (ap_wt_g sp w e) by (apply Hin; left; reflexivity). reflexivity.
  Qed.

  (* the run of one iteration, opened up *)
  Lemma ap_dropped_cycle_open e v u : In e D -> ends g e = Some (v, u) ->
    (exists p, walk g v p u /\ incl (wedges p) R) ->
    exists dist pred ord q,
      dijkstra Z 0%Z Z.add Z.ltb h wh v = DjOk dist pred /\ dist_tree h wh v dist pred ord /\
      walk h u q v /\ follows pred u q /\ Forall (domR sp) (wedges q) /\
      dropped_cycle g w sp e = inr (map (tr sp) (wedges q) ++ [e], (0 + weight w (map (tr sp) (wedges q)) + nth e w 0)%Z).
  Proof.
    intros He Hends (p1 & Hw1 & Hin1).
    destruct (simple_ends g e v u Hg Hends) as (Hv & Hu & Hvu).
    assert (Hvh : v < nv h) by (rewrite (ap_nv_h g sp Hsub); exact Hv).
    pose proof (ap_sp_simple g Hg sp Hsub HP) as Hh.
    assert (Hnn : forall e, (0 <= dj_wt Z 0%Z wh e)%Z).
    { apply ap_dj_wt_nonneg. eapply ap_spanner_weights_pos; eauto. }
    destruct (dijkstra_total_opt h (simple_wfg h Hh) wh v Hvh Hnn) as (dist & pred & ord & Edj & HDT).
    pose proof (dt_tree _ _ _ _ _ _ HDT) as HT.
    destruct (g_walk_to_sp g sp v p1 u Hsub Hw1 Hin1) as (p1' & Hw1' & _).
    assert (Huo : In u ord) by (eapply pred_tree_reach; eauto; apply (pt_src _ _ _ _ HT)).
    assert (Hnone : forall x, In x ord -> nth x pred None = None -> x = v).
    { intros x Hx Hn. destruct (Nat.eq_dec x v) as [E|Hne]; [exact E|].
      exfalso. apply (proj1 (pt_mem _ _ _ _ HT x Hne) Hx). exact Hn. }
    assert (Hlo : length ord < S (nv g)).
    { rewrite <- (ap_nv_h g sp Hsub). apply Nat.lt_succ_r.
      apply ap_NoDup_bounded_length; [eapply tree_order_NoDup, (pt_tree _ _ _ _ HT)|apply (pt_range _ _ _ _ HT)]. }
    destruct (ap_chain h R (eq_sym (ap_ne_h g sp Hsub)) w v Hvh pred ord (pt_tree _ _ _ _ HT) Hnone
                u (S (nv g)) [] 0%Z Huo Hlo) as (q & Hwq & _ & _ & Hfq & Eq).
    exists dist, pred, ord, q. split; [exact Edj|]. split; [exact HDT|]. split; [exact Hwq|]. split; [exact Hfq|].
    split.
    - apply Forall_forall. intros i Hi. unfold domR. rewrite <- (ap_ne_h g sp Hsub). eapply gl_walk_edges_lt; eauto.
    - unfold dropped_cycle. rewrite Hends, Edj, Eq. reflexivity.
  Qed.

  Lemma ap_dropped_cycle_bound e v u p cyc cw : In e D -> ends g e = Some (v, u) ->
    walk g v p u -> incl (wedges p) R ->
    dropped_cycle g w sp e = inr (cyc, cw) -> (cw <= weight w (wedges p) + wt w e)%Z.
  Proof.
    intros He Hends Hw Hin Hdc.
    destruct (ap_dropped_cycle_open e v u He Hends (ex_intro _ p (conj Hw Hin)))
      as (dist & pred & ord & q & Edj & HDT & Hwq & Hfq & Hdq & Edc).
    rewrite Edc in Hdc. injection Hdc as _ <-.
    pose proof (ap_sp_simple g Hg sp Hsub HP) as Hh.
    (* the accumulated weight is the distance of u *)
    rewrite (ap_weight_map sp w (wedges q) Hdq).
    pose proof (ap_chain_dist h wh v dist pred ord Hh HDT q u Hwq Hfq) as Hdu.
    (* the light path, seen in the spanner *)
    assert (Hbe : forall e0, domE sp e0 -> e0 < ne g /\ ends g e0 = ends h (tri sp e0)) by (eapply ap_bwd_ends; eauto).
    assert (Hdp : Forall (domE sp) (wedges p)) by (apply Forall_forall; exact Hin).
    pose proof (rl_walk g h (domE sp) (tri sp) (eq_sym (ap_nv_h g sp Hsub)) Hbe v p u Hw Hdp) as Hwp.
    destruct (dt_min _ _ _ _ _ _ HDT _ _ Hwp) as (du & Hdu' & Hle).
    rewrite Hdu in Hdu'. injection Hdu' as <-.
    rewrite rl_wedges, (ap_weight_back p Hin) in Hle. unfold wt. lia.
  Qed.

  Lemma ap_dropped_cycle_total e :
    (forall e u v, In e D -> ends g e = Some (u, v) -> exists p, walk g u p v /\ incl (wedges p) R) ->
    In e D -> exists cyc cw, dropped_cycle g w sp e = inr (cyc, cw).
  Proof.
    intros Hpath He.
    pose proof (ends_nth_ge g e (ap_D_lt g sp HP e He)) as Hends.
    destruct (nth e (ge g) (0, 0)) as [v u].
    destruct (ap_dropped_cycle_open e v u He Hends (Hpath e v u He Hends))
      as (dist & pred & ord & q & _ & _ & _ & _ & _ & Edc).
    eexists; eexists; exact Edc.
  Qed.

  Lemma ap_dropped_cycles_total :
    (forall e u v, In e D -> ends g e = Some (u, v) -> exists p, walk g u p v /\ incl (wedges p) R) ->
    forall ds total, incl ds D -> exists dcs t, dropped_cycles g w sp ds total = inr (dcs, t).
  Proof.
    intros Hpath. induction ds as [|e ds IH]; intros total Hincl; cbn [dropped_cycles].
    - eexists; eexists; reflexivity.
    - destruct (ap_dropped_cycle_total e Hpath (Hincl e (or_introl eq_refl))) as (cyc & cw & ->).
      destruct (IH (total + cw)%Z (fun x Hx => Hincl x (or_intror Hx))) as (dcs & t & ->).
      eexists; eexists; reflexivity.
  Qed.
End Edge.

(* ---- C06_edge ---------------------------------------------------------------------------------------- *)

Theorem ap_edge_bound g w k scan sp e cyc cw :
  simple_graph g -> positive_weights g w -> 1 <= k -> Permutation scan (seq 0 (ne g)) ->
  Sorted (fun a b => (wt w a <= wt w b)%Z) scan ->
  construct_spanner g k scan = SpOk sp -> In e (dropped sp) ->
  dropped_cycle g w sp e = inr (cyc, cw) -> (cw <= Z.of_nat (2 * k) * wt w e)%Z.
Proof.
  intros Hg (Hlen & Hpos) Hk HP HS Hsp He Hdc.
  destruct (ap_spanner_facts g k scan sp Hg HP Hsp) as (Hsub & HPerm & _).
  assert (Hnn : Forall (fun x => (0 <= x)%Z) w) by (eapply Forall_impl; [|exact Hpos]; intros x Hx; cbn in Hx; lia).
  destruct (construct_spanner_stretch g w k scan Hg Hlen Hnn Hk HP HS) as (sp' & Hsp' & Hstretch).
  rewrite Hsp in Hsp'. injection Hsp' as <-.
  pose proof (ends_nth_ge g e (ap_D_lt g sp HPerm e He)) as Hends.
  destruct (nth e (ge g) (0, 0)) as [v u].
  destruct (Hstretch e v u He Hends) as (p & Hw & Hin & Hle).
  pose proof (ap_dropped_cycle_bound g Hg sp Hsub HPerm w Hlen Hpos e v u p cyc cw He Hends Hw Hin Hdc) as Hb.
  assert (Hwe : (0 <= wt w e)%Z) by (apply wt_nonneg; exact Hnn).
  replace (Z.of_nat (2 * k)) with (Z.of_nat (2 * k - 1) + 1)%Z by lia. lia.
Qed.

(* ---- no error value ------------------------------------------------------------------------------------ *)

Theorem ap_run_total exact g w k scan :
  simple_graph g -> positive_weights g w -> 1 <= k -> Permutation scan (seq 0 (ne g)) ->
  (forall sp, construct_spanner g k scan = SpOk sp ->
     exists cs t sup, exact (sp_graph sp) (spanner_weights w sp) = SvaOk cs t sup
                      /\ Forall (Forall (fun i => i < ne (sp_graph sp))) cs) ->
  exists cycles total, approx_run exact g w k scan = ApproxOk cycles total.
Proof.
  intros Hg (Hlen & Hpos) Hk HP Hex.
  destruct (construct_spanner_total g k scan Hg HP) as (sp & Hsp & _).
  destruct (ap_spanner_facts g k scan sp Hg HP Hsp) as (Hsub & HPerm & Hpath).
  destruct (Hex sp Hsp) as (cs & t & sup & Eex & Hcs).
  unfold approx_run. rewrite Hsp.
  destruct (Nat.ltb_spec k 1) as [Hc|_]; [lia|].
  assert (Hneg : existsb (fun e => (nth e w 0 <? 0)%Z) (seq 0 (ne g)) = false).
  { destruct (existsb _ _) eqn:E; [|reflexivity]. apply existsb_exists in E as (e & Hin & Hlt).
    apply in_seq in Hin. apply Z.ltb_lt in Hlt. rewrite Forall_forall in Hpos.
    assert (He : e < length w) by lia.
    specialize (Hpos (nth e w 0%Z) (nth_In w 0%Z He)). lia. }
  rewrite Hneg, Eex.
  destruct (translate_cycles (retained sp) cs) as [tcs|] eqn:Etr.
  2:{ exfalso. apply (ap_translate_cycles_total (retained sp) cs); [|exact Etr].
      rewrite <- (ap_ne_h g sp Hsub). exact Hcs. }
  assert (Hpath' : forall e u v, In e (dropped sp) -> ends g e = Some (u, v) ->
            exists p, walk g u p v /\ incl (wedges p) (retained sp)).
  { intros e u v He Hends. destruct (Hpath e u v He Hends) as (p & H1 & H2 & _). exists p; auto. }
  destruct (ap_dropped_cycles_total g Hg sp Hsub HPerm w Hlen Hpos Hpath' (dropped sp) 0%Z (incl_refl _)) as (dcs & dw & ->).
  eexists; eexists; reflexivity.
Qed.
