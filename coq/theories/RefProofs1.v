(* RefProofs1.v — proofs about RefModel.v, part 1: list/weight/parity helpers, soundness of the raw
   simple-cycle checker (only closed_walk_okb matters), the shortcut function.  Prefix rf_. *)
From Coq Require Import List Arith Bool ZArith Lia Sorted Permutation.
From Parmcb Require Import GraphModel GF2Model GF2Proofs GraphSpec GraphLemmas McbSpec RefModel.
Import ListNotations.

(* ---- lists ------------------------------------------------------------------------------ *)

Lemma rf_nodupb_NoDup l : nodupb l = true -> NoDup l.
Proof.
  induction l as [|x l IH]; intros H; [constructor|].
  cbn [nodupb] in H. apply andb_true_iff in H as [H1 H2]. constructor; auto.
  apply negb_true_iff in H1. apply gl_memb_false; exact H1.
Qed.

Lemma rf_set_of_list_In l e : In e (set_of_list l) <-> In e l.
Proof.
  rewrite <- mem_In, set_of_list_mem. unfold dset. rewrite existsb_exists. split.
  - intros (y & Hy & E). apply Nat.eqb_eq in E. subst; exact Hy.
  - intros H. exists e. split; [exact H|apply Nat.eqb_refl].
Qed.

Lemma rf_set_of_list_perm l : NoDup l -> Permutation l (set_of_list l).
Proof.
  intros H. apply NoDup_Permutation; auto.
  - apply gl_sorted_NoDup, set_of_list_sorted.
  - intros e. symmetry. apply rf_set_of_list_In.
Qed.

(* ---- weights and parity ----------------------------------------------------------------- *)

Lemma rf_weight_cons w e l : weight w (e :: l) = (wt w e + weight w l)%Z.
Proof. reflexivity. Qed.

Lemma rf_weight_app w a b : weight w (a ++ b) = (weight w a + weight w b)%Z.
Proof.
  induction a as [|e a IH]; [reflexivity|].
  cbn [app]. rewrite !rf_weight_cons, IH. lia.
Qed.

Lemma rf_weight_perm w l l' : Permutation l l' -> weight w l = weight w l'.
Proof.
  induction 1 as [|x l l' _ IH|x y l|l l' l'' _ IH1 _ IH2]; auto.
  - rewrite !rf_weight_cons, IH. reflexivity.
  - rewrite !rf_weight_cons. lia.
  - congruence.
Qed.

Lemma rf_weight_set_of_list w l : NoDup l -> weight w (set_of_list l) = weight w l.
Proof. intros H. symmetry. apply rf_weight_perm, rf_set_of_list_perm; exact H. Qed.

Lemma rf_wt_nonneg g w e : positive_weights g w -> (0 <= wt w e)%Z.
Proof.
  intros [_ H]. unfold wt. destruct (nth_in_or_default e w 0%Z) as [Hin|E]; [|rewrite E; lia].
  rewrite Forall_forall in H. apply H in Hin. lia.
Qed.

Lemma rf_weight_nonneg g w l : positive_weights g w -> (0 <= weight w l)%Z.
Proof.
  intros H. induction l as [|e l IH]; [unfold weight; cbn; lia|].
  rewrite rf_weight_cons. pose proof (rf_wt_nonneg g w e H). lia.
Qed.

Lemma rf_filter_len_perm (f : nat -> bool) l l' :
  Permutation l l' -> length (filter f l) = length (filter f l').
Proof.
  induction 1 as [|x l l' _ IH|x y l|l l' l'' _ IH1 _ IH2]; auto.
  - cbn [filter]. destruct (f x); cbn [length]; auto.
  - cbn [filter]. destruct (f x), (f y); reflexivity.
  - congruence.
Qed.

Lemma rf_oddb_perm sg l l' : Permutation l l' -> oddb sg l = oddb sg l'.
Proof. intros H. unfold oddb. rewrite (rf_filter_len_perm _ l l' H). reflexivity. Qed.

Lemma rf_oddb_set_of_list sg l : NoDup l -> oddb sg (set_of_list l) = oddb sg l.
Proof. intros H. symmetry. apply rf_oddb_perm, rf_set_of_list_perm; exact H. Qed.

Lemma rf_oddb_nil sg : oddb sg [] = false.
Proof. reflexivity. Qed.

Lemma rf_oddb_app sg a b : oddb sg (a ++ b) = xorb (oddb sg a) (oddb sg b).
Proof. unfold oddb. rewrite filter_app, app_length. apply Nat.odd_add. Qed.

Lemma rf_oddb_cons sg e l : oddb sg (e :: l) = xorb (memb e sg) (oddb sg l).
Proof.
  change (e :: l) with ([e] ++ l). rewrite rf_oddb_app. f_equal.
  unfold oddb. cbn [filter]. destruct (memb e sg); reflexivity.
Qed.

(* ---- the boolean walk checker ----------------------------------------------------------- *)

Lemma rf_joinsb_joins g e x y : joinsb g e x y = true -> joins g e x y.
Proof.
  unfold joinsb, joins. destruct (ends g e) as [[s t]|]; [|discriminate].
  intros H. apply orb_true_iff in H as [H|H]; apply andb_true_iff in H as [H1 H2];
    apply Nat.eqb_eq in H1, H2; subst; auto.
Qed.

Lemma rf_walkb_walk g : forall p x z, walkb g x p z = true -> walk g x p z.
Proof.
  induction p as [|[e y] p IH]; intros x z H; cbn [walkb] in H.
  - apply andb_true_iff in H as [H1 H2]. apply Nat.eqb_eq in H1. apply Nat.ltb_lt in H2.
    subst. constructor; exact H2.
  - apply andb_true_iff in H as [H1 H2]. econstructor; [apply rf_joinsb_joins; exact H1|auto].
Qed.

(* soundness of the raw simple-cycle checker rests on closed_walk_okb alone *)
Lemma rf_closed_walk_okb_sound g x p l :
  closed_walk_okb g x p l = true -> NoDup l /\ simple_cycle g (set_of_list l).
Proof.
  unfold closed_walk_okb. intros H.
  repeat (apply andb_true_iff in H as [H ?H]).
  rename H into Hw, H0 into Hne, H1 into Hndl, H2 into Hsub2, H3 into Hsub1, H4 into Hndv, H5 into Hnde.
  split; [apply rf_nodupb_NoDup; exact Hndl|].
  split; [|split; [apply set_of_list_sorted|]].
  - destruct l as [|e l]; [discriminate|]. intros E.
    assert (Hin : In e (set_of_list (e :: l))) by (apply rf_set_of_list_In; left; reflexivity).
    rewrite E in Hin. destruct Hin.
  - exists x, p. split; [apply rf_walkb_walk; exact Hw|].
    split; [apply rf_nodupb_NoDup; exact Hnde|]. split; [apply rf_nodupb_NoDup; exact Hndv|].
    intros e. rewrite rf_set_of_list_In. rewrite forallb_forall in Hsub1, Hsub2. split.
    + intros He. apply gl_memb_In. apply Hsub1; exact He.
    + intros He. apply gl_memb_In. apply Hsub2; exact He.
Qed.

Theorem rf_is_simple_cycle_rawb_sound g l :
  is_simple_cycle_rawb g l = true -> NoDup l /\ simple_cycle g (set_of_list l).
Proof.
  unfold is_simple_cycle_rawb. destruct (trace g l) as [[x p]|]; [|discriminate].
  apply rf_closed_walk_okb_sound.
Qed.

(* ---- walks: end vertex, splitting ------------------------------------------------------- *)

Lemma rf_walk_app_inv g : simple_graph g -> forall p q x z, walk g x (p ++ q) z ->
  exists y, walk g x p y /\ walk g y q z.
Proof.
  intros Hs. induction p as [|[e y] p IH]; intros q x z H; cbn [app] in H.
  - exists x. split; [|exact H]. constructor. eapply gl_walk_start_lt; eauto.
  - inversion H as [|x' e' y' p' z' Hj Hw]; subst.
    destruct (IH q y z Hw) as (y0 & H1 & H2). exists y0. split; [|exact H2].
    econstructor; eauto.
Qed.

(* a walk whose last step is (e, v) ends at v *)
Lemma rf_walk_last g : forall p x e v z, walk g x (p ++ [(e, v)]) z -> z = v.
Proof.
  induction p as [|[e' y] p IH]; intros x e v z H; cbn [app] in H.
  - inversion H as [|x' e0 y' p' z' Hj Hw]; subst. inversion Hw; subst. reflexivity.
  - inversion H as [|x' e0 y' p' z' Hj Hw]; subst. eapply IH; eauto.
Qed.

Lemma rf_walk_end_in g : forall p x z, walk g x p z -> p <> [] -> In z (wverts p).
Proof.
  induction p as [|[e y] p IH]; intros x z H Hne; [congruence|].
  inversion H as [|x' e0 y' p' z' Hj Hw]; subst. cbn [wverts map snd].
  destruct p as [|s p]; [inversion Hw; subst; left; reflexivity|].
  right. apply (IH y z Hw). discriminate.
Qed.

(* ---- the shortcut function ---------------------------------------------------------------- *)

Lemma rf_cut_at_some v : forall p a b, cut_at v p = Some (a, b) ->
  p = a ++ b /\ exists a' e, a = a' ++ [(e, v)].
Proof.
  induction p as [|[e y] p IH]; intros a b H; cbn [cut_at] in H; [discriminate|].
  destruct (Nat.eqb_spec y v) as [->|Hne].
  - inversion H; subst. split; [reflexivity|]. exists [], e. reflexivity.
  - destruct (cut_at v p) as [[a1 b1]|] eqn:E; [|discriminate]. inversion H; subst.
    destruct (IH a1 b eq_refl) as (-> & a' & e' & ->). split; [reflexivity|].
    exists ((e, y) :: a'), e'. reflexivity.
Qed.

Lemma rf_cut_at_none v : forall p, cut_at v p = None -> ~ In v (wverts p).
Proof.
  induction p as [|[e y] p IH]; intros H; cbn [cut_at] in H; [intros []|].
  destruct (Nat.eqb_spec y v) as [->|Hne]; [discriminate|].
  destruct (cut_at v p) as [[a1 b1]|] eqn:E; [discriminate|].
  cbn [wverts map snd]. intros [Hy|Hin]; [congruence|]. apply IH; auto.
Qed.

Lemma rf_find_dup_some : forall p pre ev a b, find_dup p = Some (pre, ev, a, b) ->
  p = pre ++ ev :: a ++ b /\ exists a' e, a = a' ++ [(e, snd ev)].
Proof.
  induction p as [|[e v] p IH]; intros pre ev a b H; cbn [find_dup] in H; [discriminate|].
  destruct (cut_at v p) as [[a1 b1]|] eqn:E.
  - inversion H; subst. destruct (rf_cut_at_some v p a b E) as (-> & Ha). split; [reflexivity|exact Ha].
  - destruct (find_dup p) as [[[[pre1 ev1] a1] b1]|] eqn:F; [|discriminate]. inversion H; subst.
    destruct (IH pre1 ev a b eq_refl) as (-> & Ha). split; [reflexivity|exact Ha].
Qed.

Lemma rf_find_dup_none : forall p, find_dup p = None -> NoDup (wverts p).
Proof.
  induction p as [|[e v] p IH]; intros H; cbn [find_dup] in H; [constructor|].
  destruct (cut_at v p) as [[a1 b1]|] eqn:E; [discriminate|].
  destruct (find_dup p) as [[[[pre1 ev1] a1] b1]|] eqn:F; [discriminate|].
  cbn [wverts map snd]. constructor; [apply rf_cut_at_none; exact E|apply IH; reflexivity].
Qed.

Lemma rf_wedges_app (a b : rwalk) : wedges (a ++ b) = wedges a ++ wedges b.
Proof. unfold wedges. apply map_app. Qed.

(* the result of the shortcut: a vertex-simple odd closed walk that is no heavier *)
Lemma rf_shortcut_spec g wts sg : simple_graph g -> positive_weights g wts ->
  forall fuel p x, length p < fuel -> walk g x p x -> oddb sg (wedges p) = true ->
  exists p' x', shortcut fuel sg p = Some p' /\ walk g x' p' x' /\ NoDup (wverts p')
    /\ oddb sg (wedges p') = true /\ (weight wts (wedges p') <= weight wts (wedges p))%Z.
Proof.
  intros Hs Hpw. induction fuel as [|fuel IH]; intros p x Hlen Hw Hodd; [lia|].
  cbn [shortcut]. destruct (find_dup p) as [[[[pre ev] a] b]|] eqn:F.
  - destruct (rf_find_dup_some p pre ev a b F) as (Hp & a' & e2 & Ha).
    destruct ev as [e v]. cbn [snd] in Ha.
    (* split the walk *)
    assert (Hp' : p = (pre ++ [(e, v)]) ++ a ++ b) by (rewrite Hp, <- app_assoc; reflexivity).
    rewrite Hp' in Hw.
    destruct (rf_walk_app_inv g Hs _ _ _ _ Hw) as (y1 & Hw1 & Hw2).
    assert (y1 = v) by (eapply rf_walk_last; exact Hw1). subst y1.
    destruct (rf_walk_app_inv g Hs _ _ _ _ Hw2) as (y2 & Hwa & Hwb).
    assert (y2 = v) by (rewrite Ha in Hwa; eapply rf_walk_last; exact Hwa). subst y2.
    assert (Hlena : length a <> 0) by (rewrite Ha, app_length; cbn [length]; lia).
    assert (Hlp : length p = length pre + 1 + length a + length b).
    { rewrite Hp, !app_length. cbn [length]. rewrite app_length. lia. }
    assert (Hodd2 : xorb (oddb sg (wedges a)) (oddb sg (wedges (pre ++ (e, v) :: b))) = true).
    { rewrite <- Hodd, Hp. rewrite !rf_wedges_app. cbn [wedges map fst]. fold (wedges a). fold (wedges b).
      rewrite !rf_wedges_app. rewrite !rf_oddb_app, !rf_oddb_cons, !rf_oddb_app.
      destruct (oddb sg (wedges a)), (oddb sg (wedges pre)), (memb e sg), (oddb sg (wedges b)); reflexivity. }
    assert (Hwt : weight wts (wedges p) =
                  (weight wts (wedges a) + weight wts (wedges (pre ++ (e, v) :: b)))%Z).
    { rewrite Hp. rewrite !rf_wedges_app. cbn [wedges map fst]. fold (wedges a). fold (wedges b).
      rewrite !rf_wedges_app. rewrite !rf_weight_app, !rf_weight_cons, !rf_weight_app. lia. }
    pose proof (rf_weight_nonneg g wts (wedges a) Hpw) as Hna.
    pose proof (rf_weight_nonneg g wts (wedges (pre ++ (e, v) :: b)) Hpw) as Hnb.
    destruct (oddb sg (wedges a)) eqn:Eo.
    + destruct (IH a v) as (p' & x' & H1 & H2 & H3 & H4 & H5); [lia|exact Hwa|exact Eo|].
      exists p', x'. repeat (split; [assumption|]). lia.
    + rewrite xorb_false_l in Hodd2.
      destruct (IH (pre ++ (e, v) :: b) x) as (p' & x' & H1 & H2 & H3 & H4 & H5).
      * rewrite app_length. cbn [length]. lia.
      * change (pre ++ (e, v) :: b) with (pre ++ [(e, v)] ++ b). rewrite app_assoc.
        eapply gl_walk_app; eauto.
      * exact Hodd2.
      * exists p', x'. repeat (split; [assumption|]). lia.
  - exists p, x. split; [reflexivity|]. split; [exact Hw|]. split; [apply rf_find_dup_none; exact F|].
    split; [exact Hodd|lia].
Qed.

(* ---- a vertex-simple odd closed walk of a simple graph repeats no edge ------------------ *)

Lemma rf_joins_fun g e a b a' b' : joins g e a b -> joins g e a' b' ->
  (a = a' /\ b = b') \/ (a = b' /\ b = a').
Proof. unfold joins. intros [H|H] [H'|H']; rewrite H in H'; inversion H'; auto. Qed.

(* both endpoints of an edge used by a walk are visited by it *)
Lemma rf_walk_edge_ends g e a b : joins g e a b -> forall p y z, walk g y p z -> In e (wedges p) ->
  In a (y :: wverts p) /\ In b (y :: wverts p).
Proof.
  intros Hj. induction p as [|[e2 y2] p IH]; intros y z Hw Hin; [destruct Hin|].
  inversion Hw as [|x' e0 y' p' z' Hj2 Hw2]; subst. cbn [wedges map fst] in Hin.
  cbn [wverts map snd]. fold (wverts p). destruct Hin as [->|Hin].
  - destruct (rf_joins_fun g e a b y y2 Hj Hj2) as [[-> ->]|[-> ->]]; cbn [In]; auto.
  - destruct (IH y2 z Hw2 Hin) as [Ha Hb]. split; right; assumption.
Qed.

Lemma rf_path_edges_nodup g : forall p y z, walk g y p z -> NoDup (y :: wverts p) -> NoDup (wedges p).
Proof.
  induction p as [|[e2 y2] p IH]; intros y z Hw Hnd; [constructor|].
  inversion Hw as [|x' e0 y' p' z' Hj2 Hw2]; subst. cbn [wedges map fst]. fold (wedges p).
  cbn [wverts map snd] in Hnd. fold (wverts p) in Hnd.
  inversion Hnd as [|? ? Hy Hnd']; subst. constructor; [|eapply IH; eauto].
  intros Hin. destruct (rf_walk_edge_ends g e2 y y2 Hj2 p y2 z Hw2 Hin) as [Ha _]. contradiction.
Qed.

Lemma rf_closing_edge g e x y p : simple_graph g -> walk g y p x -> NoDup (y :: wverts p) ->
  joins g e x y -> In e (wedges p) -> p = [(e, x)].
Proof.
  intros Hs Hw Hnd Hj Hin. destruct p as [|[e2 y2] p]; [destruct Hin|].
  inversion Hw as [|x' e0 y' p' z' Hj2 Hw2]; subst.
  cbn [wverts map snd] in Hnd. fold (wverts p) in Hnd.
  inversion Hnd as [|? ? Hy Hnd']; subst.
  destruct (gl_simple_joins g e x y Hs Hj) as (_ & _ & Hxy).
  cbn [wedges map fst] in Hin. destruct Hin as [->|Hin].
  - destruct (rf_joins_fun g e x y y y2 Hj Hj2) as [[E1 E2]|[E1 _]]; [congruence|]. subst y2.
    destruct p as [|s p]; [reflexivity|]. exfalso.
    inversion Hnd' as [|? ? Hx _]; subst. apply Hx. apply (rf_walk_end_in g (s :: p) x x Hw2). discriminate.
  - exfalso. destruct (rf_walk_edge_ends g e x y Hj p y2 x Hw2 Hin) as [_ Hb]. contradiction.
Qed.

Lemma rf_simple_closed_nodup_edges g sg x p : simple_graph g ->
  walk g x p x -> NoDup (wverts p) -> oddb sg (wedges p) = true -> NoDup (wedges p).
Proof.
  intros Hs Hw Hnd Hodd. destruct p as [|[e1 y] p]; [constructor|].
  inversion Hw as [|x' e0 y' p' z' Hj Hw2]; subst.
  cbn [wverts map snd] in Hnd. fold (wverts p) in Hnd.
  cbn [wedges map fst]. fold (wedges p). constructor; [|eapply rf_path_edges_nodup; eauto].
  intros Hin. pose proof (rf_closing_edge g e1 x y p Hs Hw2 Hnd Hj Hin) as ->.
  cbn [wedges map fst] in Hodd. rewrite !rf_oddb_cons, rf_oddb_nil in Hodd.
  destruct (memb e1 sg); discriminate.
Qed.

(* the shortcut result as a simple cycle *)
Lemma rf_shortcut_simple_cycle g wts sg : simple_graph g -> positive_weights g wts ->
  forall p x, walk g x p x -> oddb sg (wedges p) = true ->
  exists p', shortcut (S (length p)) sg p = Some p'
    /\ simple_cycle g (set_of_list (wedges p'))
    /\ oddb sg (set_of_list (wedges p')) = true
    /\ (weight wts (set_of_list (wedges p')) <= weight wts (wedges p))%Z.
Proof.
  intros Hs Hpw p x Hw Hodd.
  destruct (rf_shortcut_spec g wts sg Hs Hpw (S (length p)) p x (Nat.lt_succ_diag_r _) Hw Hodd)
    as (p' & x' & H1 & H2 & H3 & H4 & H5).
  pose proof (rf_simple_closed_nodup_edges g sg x' p' Hs H2 H3 H4) as Hnde.
  exists p'. split; [exact H1|]. split; [|split].
  - split; [|split; [apply set_of_list_sorted|]].
    + intros E. destruct p' as [|[e y] p']; [discriminate|].
      assert (Hin : In e (set_of_list (wedges ((e, y) :: p')))) by (apply rf_set_of_list_In; left; reflexivity).
      rewrite E in Hin. destruct Hin.
    + exists x', p'. repeat (split; [assumption|]). intros e. apply rf_set_of_list_In.
  - rewrite rf_oddb_set_of_list; assumption.
  - rewrite rf_weight_set_of_list; assumption.
Qed.
