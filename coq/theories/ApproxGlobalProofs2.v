(* ApproxGlobalProofs2.v — every simple graph with positive weights has a "signed run": the run of de Pina's scheme
   with witnesses given as SIGNED EDGE SETS (a cycle is odd w.r.t. the witness when it contains an odd number of
   signed edges, RefModel.oddb).  This form of the witnesses makes sense for arbitrary edge lists (walks), which is
   what the C06 argument needs (an odd closed walk contains an odd simple cycle of no greater weight,
   RefProofs1.rf_shortcut_simple_cycle).

     sign_run h wh Sg Cs   Sg_k signed edge sets, Cs_k simple cycles of h:
                           C_k is a minimum-weight simple cycle among those odd w.r.t. Sg_k, C_j is even w.r.t.
                           Sg_k for j < k, and Cs is a minimum cycle basis of (h, wh).
     ag_sign_run_exists    such a run exists (the verified reference algorithm RefModel.ref_mcb, whose
                           per-phase search is exhaustive, run with all vertices as BFS roots; the witnesses over
                           forest-index coordinates are turned into signed edge sets by RefProofs3.rf_bridge).
   Prefix ag_.  No axioms. *)
From Coq Require Import List Arith Bool ZArith Lia Sorted Permutation.
From Parmcb Require Import GF2Model GF2Proofs GraphModel GraphSpec GF2Lin McbSpec DePinaSpec DePinaProofs GraphLemmas
  ForestModel ForestProofs SvaModel SvaSpec SvaProofs RefModel RefProofs1 RefProofs2 RefProofs3 RefProofs4.
Import ListNotations.

Definition sign_run (h : graph) (wh : list Z) (Sg Cs : list (list nat)) : Prop :=
  length Sg = length Cs /\
  (forall k, k < length Cs -> min_odd_cycle h wh (fun D => oddb (nth k Sg []) D = true) (nth k Cs [])) /\
  (forall j k, j < k -> k < length Cs -> oddb (nth k Sg []) (nth j Cs []) = false) /\
  min_cycle_basis h wh Cs.

Lemma ag_seq_all n v : v < n -> In v (seq 0 n).
Proof. intros H. apply in_seq. lia. Qed.

Lemma ag_nth_map_lt {A B} (f : A -> B) l j d d' : j < length l -> nth j (map f l) d' = f (nth j l d).
Proof. intros Hj. rewrite (nth_indep _ d' (f d)) by (rewrite map_length; exact Hj). apply map_nth. Qed.

Theorem ag_sign_run_exists h wh :
  simple_graph h -> positive_weights h wh -> exists Sg Cs, sign_run h wh Sg Cs.
Proof.
  intros Hs Hpw. set (roots := seq 0 (nv h)).
  assert (Hr : forall v, v < nv h -> In v roots) by (intros v Hv; apply ag_seq_all; exact Hv).
  destruct (create_index_correct h roots Hs Hr) as (fi & Hci & _).
  set (search := ref_phase h wh fi).
  pose proof (rf_ref_phase_min h wh roots fi Hs Hpw Hr Hci) as Hmin. fold search in Hmin.
  pose proof (rf_ref_phase_sound h wh roots fi Hs Hpw Hr Hci) as Hsnd. fold search in Hsnd.
  pose proof (rf_ref_phase_total h wh roots fi Hs Hpw Hr Hci) as Htot. fold search in Htot.
  pose proof (rf_select_none_ok (fi_csd fi)) as Hsel.
  destruct (sva_generic_total h roots fi Z 0%Z Z.add select_none search Hs Hr Hci Hsel Hsnd Htot)
    as (cycles & total & sup & Hrun).
  pose proof (search_sound_weaken h fi Z search Hsnd) as Hsndc.
  pose proof (sva_run_inv h fi Z 0%Z Z.add select_none search cycles total sup Hsel Hsndc Hrun) as I.
  destruct (sva_generic_min h wh roots fi select_none search cycles total sup Hs Hpw Hr Hci Hsel Hmin Hrun)
    as (Hmcb & _ & _).
  pose proof (inv_len _ _ _ _ _ _ I) as Il. pose proof (inv_lenC _ _ _ _ _ _ I) as Ic.
  assert (HlS : forall k, k < fi_csd fi -> k < length sup) by (intros k Hk; eapply Nat.lt_le_trans; [exact Hk|]; apply Nat.eq_le_incl; symmetry; exact Il).
  assert (HlC : forall k, k < fi_csd fi -> k < length cycles) by (intros k Hk; eapply Nat.lt_le_trans; [exact Hk|]; apply Nat.eq_le_incl; symmetry; exact Ic).
  assert (Hbr : forall k D, k < fi_csd fi -> simple_cycle h D ->
            pairing fi (nth k sup []) D = oddb (indices_to_edges fi (nth k sup [])) D).
  { intros k D Hk HD. destruct (sva_inv_row fi Z search _ _ _ k I Hk) as (HS & _ & HB).
    destruct (rf_simple_cycle_edges h D HD) as (HDs & HDb).
    eapply rf_bridge; eauto. }
  assert (Hsc : forall j, j < fi_csd fi -> simple_cycle h (nth j cycles [])).
  { intros j Hj. destruct Hmcb as ((HF & _) & _). rewrite Forall_forall in HF. apply HF, nth_In, HlC, Hj. }
  exists (map (indices_to_edges fi) sup), cycles.
  split.
  { rewrite map_length. transitivity (fi_csd fi); [exact Il|symmetry; exact Ic]. }
  split; [|split; [|exact Hmcb]].
  - intros k Hk0. assert (Hk : k < fi_csd fi) by (eapply Nat.lt_le_trans; [exact Hk0|apply Nat.eq_le_incl; exact Ic]).
    rewrite (ag_nth_map_lt (indices_to_edges fi) sup k [] []) by (apply HlS; exact Hk).
    destruct (inv_found _ _ _ _ _ _ I k Hk) as (wk & Hsr).
    destruct (Hmin _ _ _ _ Hsr) as ((H1 & H2 & H3) & _).
    split; [exact H1|]. split.
    + exact (eq_trans (eq_sym (Hbr k _ Hk H1)) H2).
    + intros D HD HoD. apply H3; [exact HD|]. exact (eq_trans (Hbr k D Hk HD) HoD).
  - intros j k Hjk Hk0. assert (Hk : k < fi_csd fi) by (eapply Nat.lt_le_trans; [exact Hk0|apply Nat.eq_le_incl; exact Ic]).
    rewrite (ag_nth_map_lt (indices_to_edges fi) sup k [] []) by (apply HlS; exact Hk).
    assert (Hj : j < fi_csd fi) by lia.
    refine (eq_trans (eq_sym (Hbr k _ Hk (Hsc j Hj))) _).
    apply (inv_low _ _ _ _ _ _ I); lia.
Qed.

Print Assumptions ag_sign_run_exists.
