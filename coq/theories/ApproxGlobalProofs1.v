(* ApproxGlobalProofs1.v — the abstract part of C06_global.

     depina_approx   the t-approximate version of DePinaProofs.depina_min: same scheme (triangular witnesses over
                     a GF(2) space V, pairing linear on V), but the per-phase premise is only
                       weight (C_k) <= t * weight (D)   for every class element D of V that is odd w.r.t. S_k;
                     conclusion  total_weight Cs <= t * total_weight B'  for EVERY spanning family B' of class
                     elements.  Proof: the in-place exchange of DePinaProofs.depina_exchange with the invariant
                       total (first k of Cs) + t * usum (unmarked entries of L) <= t * total B'.
                     (non-degeneracy of the witnesses is not needed for the weight bound.)
     ipair / ag_units  witnesses addressed by their index: the k-th witness is the unit vector [k] and the pairing
                     is an arbitrary function of the index (DePinaSpec fixes witnesses to be vectors; this is the
                     encoding used by the C06 assembly).
     oddf            parity of the number of listed edges with a given sign; additive over vadd.
   Prefix ag_.  No axioms. *)
From Coq Require Import List Arith Bool ZArith Lia Sorted Permutation.
From Parmcb Require Import GF2Model GF2Proofs GraphModel GraphSpec GF2Lin McbSpec DePinaSpec DePinaProofs GraphLemmas.
Import ListNotations.

(* ---- (1) the approximate exchange --------------------------------------------------------------- *)

Section ApproxAbstract.
  Variable inV : vec -> Prop.
  Variable pair : vec -> vec -> bool.
  Hypothesis Hsub : subspace inV.
  Hypothesis Hlin : pair_linear inV pair.
  Variable cls : vec -> Prop.
  Variable w : list Z.
  Variable t : Z.
  Hypothesis Ht : (0 <= t)%Z.

  Lemma ag_exchange Ss Cs B' :
    Forall inV Cs -> triangular pair Ss Cs ->
    (forall k D, k < length Cs -> cls D -> inV D -> pair (nth k Ss []) D = true ->
                 (weight w (nth k Cs []) <= t * weight w D)%Z) ->
    Forall cls B' -> Forall inV B' -> spans inV B' ->
    (forall D, In D B' -> (0 <= weight w D)%Z) ->
    forall k, k <= length Cs -> exists L,
      spans inV (map fst L) /\ Forall (fun e => inV (fst e)) L /\ Forall (entry_ok cls w Cs k) L /\
      (total_weight w (firstn k Cs) + t * usum w L <= t * total_weight w B')%Z.
  Proof.
    intros HCs (Hlen & Hdiag & Hlow) Hmin Hcls HBV Hsp Hpos.
    induction k as [|k IH]; intros Hk.
    - exists (map (fun D => (D, false)) B'). split; [|split; [|split]].
      + rewrite dp_map_fst_tag. exact Hsp.
      + rewrite Forall_forall in *. intros e He. apply in_map_iff in He as (D & <- & HD).
        cbn [fst]. auto.
      + rewrite Forall_forall in *. intros e He. apply in_map_iff in He as (D & <- & HD).
        unfold entry_ok. cbn [fst snd]. auto.
      + rewrite usum_init. cbn [firstn]. unfold total_weight at 1. cbn [map fold_right]. lia.
    - destruct IH as (L & HspL & HLV & Hok & Hw); [lia|].
      assert (Hk' : k < length Cs) by lia.
      assert (HCk : inV (nth k Cs [])).
      { rewrite Forall_forall in HCs. apply HCs, nth_In. exact Hk'. }
      destruct (HspL _ HCk) as (mc & Hmc & Hcomb).
      assert (HLV' : Forall inV (map fst L)).
      { rewrite Forall_forall in *. intros v Hv. apply in_map_iff in Hv as (e & <- & He). auto. }
      assert (Hodd : pair (nth k Ss []) (comb mc (map fst L)) = true).
      { rewrite Hcomb. apply Hdiag. exact Hk'. }
      destruct (dp_pair_comb_odd inV pair Hsub Hlin _ _ _ HLV' Hodd) as (i & Hi & Hmi & Hpi).
      rewrite map_length in Hi.
      assert (En : nth i (map fst L) [] = fst (nth i L ([], false))).
      { exact (map_nth fst L ([], false) i). }
      remember (nth i L ([], false)) as e eqn:Ee.
      assert (He : In e L) by (subst e; apply nth_In; exact Hi).
      assert (Hoke : entry_ok cls w Cs k e) by (rewrite Forall_forall in Hok; apply Hok; exact He).
      assert (HeV : inV (fst e)) by (rewrite Forall_forall in HLV; apply HLV; exact He).
      rewrite En in Hpi. unfold entry_ok in Hoke. destruct (snd e) eqn:Es.
      + destruct Hoke as (j & Hj & Ej). rewrite Ej, Hlow in Hpi by lia. discriminate.
      + destruct Hoke as (Hce & Hw0).
        pose proof (Hmin k (fst e) Hk' Hce HeV Hpi) as Hle.
        exists (GF2Lin.set_nth L i (nth k Cs [], true)). split; [|split; [|split]].
        * rewrite dp_map_set_nth. cbn [fst].
          apply exchange_nth with (mc := mc); auto using (dp_Forall_sorted inV Hsub).
          rewrite map_length. exact Hi.
        * apply dp_Forall_set_nth; auto.
        * apply dp_Forall_set_nth.
          -- eapply Forall_impl; [|exact Hok]. intros a Ha. unfold entry_ok in *.
             destruct (snd a); [|exact Ha]. destruct Ha as (j & Hj & Ej).
             exists j. split; [lia|exact Ej].
          -- unfold entry_ok. cbn [snd fst]. exists k. split; [lia|reflexivity].
        * rewrite (total_weight_firstn_S w) by exact Hk'.
          assert (Hu : usum w (GF2Lin.set_nth L i (nth k Cs [], true))
                       = (usum w L - weight w (fst e))%Z).
          { subst e. apply usum_set_nth; [exact Hi|exact Es]. }
          rewrite Hu. unfold vec in *. nia.
  Qed.

  Lemma ag_depina_approx_abs Ss Cs B' :
    Forall inV Cs -> triangular pair Ss Cs ->
    (forall k D, k < length Cs -> cls D -> inV D -> pair (nth k Ss []) D = true ->
                 (weight w (nth k Cs []) <= t * weight w D)%Z) ->
    Forall cls B' -> Forall inV B' -> spans inV B' ->
    (forall D, In D B' -> (0 <= weight w D)%Z) ->
    (total_weight w Cs <= t * total_weight w B')%Z.
  Proof.
    intros HCs HT Hmin Hcls HBV Hsp Hpos.
    destruct (ag_exchange Ss Cs B' HCs HT Hmin Hcls HBV Hsp Hpos (length Cs) (le_n _))
      as (L & _ & _ & Hok & Hw).
    rewrite firstn_all in Hw.
    assert (H0 : (0 <= usum w L)%Z).
    { apply usum_nonneg. eapply Forall_impl; [|exact Hok]. unfold entry_ok.
      intros [D b] Ha Hs. cbn [snd fst] in *. subst b. tauto. }
    nia.
  Qed.
End ApproxAbstract.

Definition depina_approx_stmt : Prop :=
  forall (inV : vec -> Prop) (pair : vec -> vec -> bool) (cls : vec -> Prop) (w : list Z) (t : Z)
         (Ss Cs B' : list vec),
    subspace inV -> pair_linear inV pair -> (0 <= t)%Z -> Forall inV Cs -> triangular pair Ss Cs ->
    (forall k D, k < length Cs -> cls D -> inV D -> pair (nth k Ss []) D = true ->
                 (weight w (nth k Cs []) <= t * weight w D)%Z) ->
    Forall cls B' -> Forall inV B' -> spans inV B' ->
    (forall D, In D B' -> (0 <= weight w D)%Z) ->
    (total_weight w Cs <= t * total_weight w B')%Z.

Theorem depina_approx : depina_approx_stmt.
Proof.
  intros inV pair cls w t Ss Cs B' Hsub Hlin Ht HCs HT Hmin Hcls HBV Hsp Hpos.
  eapply ag_depina_approx_abs; eauto.
Qed.

(* the instance for cycle bases of a simple graph with non-negative weights *)
Lemma depina_approx_basis g w t (pair : vec -> vec -> bool) (Ss Cs B' : list vec) :
  simple_graph g -> (forall e, (0 <= wt w e)%Z) -> (0 <= t)%Z ->
  pair_linear (in_cycle_space g) pair ->
  Forall (in_cycle_space g) Cs -> triangular pair Ss Cs ->
  (forall k D, k < length Cs -> simple_cycle g D -> pair (nth k Ss []) D = true ->
               (weight w (nth k Cs []) <= t * weight w D)%Z) ->
  cycle_basis g B' ->
  (total_weight w Cs <= t * total_weight w B')%Z.
Proof.
  intros Hs Hnn Ht Hlin HCs HT Hmin (HB' & _ & HspB').
  apply (depina_approx (in_cycle_space g) pair (simple_cycle g) w t Ss Cs B'); auto.
  - apply cycle_space_subspace.
  - eapply Forall_impl; [|exact HB']. intros D HD. apply simple_cycle_in_cycle_space; assumption.
  - intros D _. induction D as [|e D IH]; unfold weight in *; cbn [map fold_right]; [lia|].
    specialize (Hnn e). lia.
Qed.

(* ---- witnesses addressed by index ---------------------------------------------------------------- *)

Definition ipair (F : nat -> vec -> bool) (W D : vec) : bool :=
  match W with [k] => F k D | _ => false end.

Definition ag_units (N : nat) : list vec := map (fun i => [i]) (seq 0 N).

Lemma ag_units_length N : length (ag_units N) = N.
Proof. unfold ag_units. rewrite map_length, seq_length. reflexivity. Qed.

Lemma ag_nth_units N i : i < N -> nth i (ag_units N) [] = [i].
Proof.
  intros Hi. unfold ag_units.
  rewrite (nth_indep _ [] ((fun i => [i]) 0)) by (rewrite map_length, seq_length; exact Hi).
  rewrite (map_nth (fun i => [i])). rewrite seq_nth by exact Hi. reflexivity.
Qed.

Lemma ag_ipair_linear (inV : vec -> Prop) (F : nat -> vec -> bool) :
  (forall k, F k [] = false) ->
  (forall k a b, inV a -> inV b -> F k (vadd a b) = xorb (F k a) (F k b)) ->
  pair_linear inV (ipair F).
Proof.
  intros H0 H1. split.
  - intros [|k [|? ?]]; cbn [ipair]; auto.
  - intros [|k [|? ?]] a b Ha Hb; cbn [ipair]; auto.
Qed.

Lemma ag_ipair_triangular (F : nat -> vec -> bool) Cs :
  (forall k, k < length Cs -> F k (nth k Cs []) = true) ->
  (forall j k, j < k -> k < length Cs -> F k (nth j Cs []) = false) ->
  triangular (ipair F) (ag_units (length Cs)) Cs.
Proof.
  intros Hd Hl. split; [apply ag_units_length|]. split.
  - intros k Hk. rewrite ag_nth_units by exact Hk. cbn [ipair]. apply Hd; exact Hk.
  - intros j k Hjk Hk. rewrite ag_nth_units by exact Hk. cbn [ipair]. apply Hl; assumption.
Qed.

(* ---- parity of the number of listed elements with a given sign ---------------------------------- *)

Definition oddf (f : nat -> bool) (l : list nat) : bool := Nat.odd (length (filter f l)).

Lemma ag_oddf_nil f : oddf f [] = false.
Proof. reflexivity. Qed.

Lemma ag_oddf_app f a b : oddf f (a ++ b) = xorb (oddf f a) (oddf f b).
Proof. unfold oddf. rewrite filter_app, app_length. apply Nat.odd_add. Qed.

Lemma ag_oddf_cons f e l : oddf f (e :: l) = xorb (f e) (oddf f l).
Proof.
  change (e :: l) with ([e] ++ l). rewrite ag_oddf_app. f_equal.
  unfold oddf. cbn [filter]. destruct (f e); reflexivity.
Qed.

Lemma ag_filter_len_perm (f : nat -> bool) l l' :
  Permutation l l' -> length (filter f l) = length (filter f l').
Proof.
  induction 1 as [|x l l' _ IH|x y l|l l' l'' _ IH1 _ IH2]; auto.
  - cbn [filter]. destruct (f x); cbn [length]; auto.
  - cbn [filter]. destruct (f x), (f y); reflexivity.
  - congruence.
Qed.

Lemma ag_oddf_perm f l l' : Permutation l l' -> oddf f l = oddf f l'.
Proof. intros H. unfold oddf. rewrite (ag_filter_len_perm _ l l' H). reflexivity. Qed.

Lemma ag_oddf_ext f f' l : (forall e, In e l -> f e = f' e) -> oddf f l = oddf f' l.
Proof. intros H. unfold oddf. rewrite (filter_ext_in f f' l H). reflexivity. Qed.

Lemma ag_oddf_map f (h : nat -> nat) l : oddf f (map h l) = oddf (fun e => f (h e)) l.
Proof.
  induction l as [|e l IH]; [reflexivity|]. cbn [map]. rewrite !ag_oddf_cons, IH. reflexivity.
Qed.

Lemma ag_odd_parity n c p q : n + 2 * c = p + q -> Nat.odd n = xorb (Nat.odd p) (Nat.odd q).
Proof.
  intros H. rewrite <- Nat.odd_add, <- H, Nat.odd_add.
  replace (Nat.odd (2 * c)) with false; [destruct (Nat.odd n); reflexivity|].
  symmetry. rewrite <- Nat.negb_even, Nat.even_mul. reflexivity.
Qed.

Lemma ag_oddf_vadd f a b : oddf f (vadd a b) = xorb (oddf f a) (oddf f b).
Proof.
  unfold oddf. destruct (dp_filter_vadd_parity f a b) as (c & Hc). eapply ag_odd_parity; exact Hc.
Qed.

Lemma ag_oddf_false f l : (forall e, In e l -> f e = false) -> oddf f l = false.
Proof.
  intros H. induction l as [|e l IH]; [reflexivity|]. rewrite ag_oddf_cons, IH, H; auto.
  - left; reflexivity.
  - intros e' He'. apply H. right; exact He'.
Qed.

(* ---- weights -------------------------------------------------------------------------------------- *)

Lemma ag_weight_cons w e l : weight w (e :: l) = (wt w e + weight w l)%Z.
Proof. reflexivity. Qed.

Lemma ag_weight_app w a b : weight w (a ++ b) = (weight w a + weight w b)%Z.
Proof. induction a as [|e a IH]; [reflexivity|]. cbn [app]. rewrite !ag_weight_cons, IH. lia. Qed.

Lemma ag_weight_perm w l l' : Permutation l l' -> weight w l = weight w l'.
Proof.
  induction 1 as [|x l l' _ IH|x y l|l l' l'' _ IH1 _ IH2]; auto.
  - rewrite !ag_weight_cons, IH. reflexivity.
  - rewrite !ag_weight_cons. lia.
  - congruence.
Qed.

Lemma ag_weight_nonneg w l : (forall e, (0 <= wt w e)%Z) -> (0 <= weight w l)%Z.
Proof.
  intros H. induction l as [|e l IH]; [unfold weight; cbn; lia|].
  rewrite ag_weight_cons. specialize (H e). lia.
Qed.

Print Assumptions depina_approx.
Print Assumptions depina_approx_basis.
