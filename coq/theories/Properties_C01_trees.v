(* Properties_C01_trees.v — C01 for the tree-based exact entry points (mcb_sva_fvs_trees, mcb_sva_iso_trees; also the
   Horton builder): the emitted family is a cycle basis of the right size.

   Model: TreesModel.v — an ACCEPTANCE model (std::sort leaves the order of equal-weight candidates unspecified):
   mcb_sva_trees_accept_Z b g wts roots picks cycles = Some total  iff replaying the emitted cycles through the code's
   per-phase lookup (tree parities, candidate parity test, edge-set construction, minimum recorded weight) and the
   code's support updates accepts every phase; mcb_sva_trees_first_Z is the deterministic resolution (stable order).
   `roots` = BFS root order oracle of the ForestIndex, `picks` = pick oracle of greedy_fvs (FVS builder only).

   C01_trees_accept     ANY builder (Horton / FVS / isometric), NO premise: every accepted run emitted exactly m - n + c
                        cycles, each a simple cycle of g, GF(2)-independent and spanning the whole cycle space.
   C01_fvs_trees        FVS builder, NO premise (for every complete run of greedy_fvs, i.e. every pick oracle the model
                        FvsModel accepts): the lookup answers in every phase — the deterministic resolution completes and
                        its run is accepted (so accepted runs exist, no empty cycle is ever emitted) — and every accepted
                        run is such a basis.
   C01_horton_trees     the same for Horton's collection.
   C01_trees_sorted_scan_accepted   the first answering candidate of ANY weight-sorted arrangement of the collection
                        passes the per-phase acceptance test.
   C01_trees_phase_ok   the per-phase test trees_phase_ok, which computes parities as the code does (update_parities +
                        parity(a) ^ parity(b) ^ signed(e)), accepts only simple cycles that are odd in the direct sense
                        (|c ∩ signed| odd), with their true weight, of minimum weight among the odd candidates.
   NOT proved: totality for the isometric builder (needs sufficiency of the isometric collection and the absence of
   CdInconsistent, i.e. consistency of the trees) — C01_iso_trees_total_statement is a Definition only; covered by
   the correspondence of tools/trees_common.py. *)
From Coq Require Import List Arith Bool ZArith.
From Parmcb Require Import GraphModel GF2Model GraphSpec McbSpec LexSPModel FvsModel CandidatesModel ForestModel SvaModel
     TreesModel TreesProofs3 TreesProofs4 TreesProofs5.
Import ListNotations.

Theorem C01_trees_accept :
  forall (b : tbuilder) (g : graph) (wts : list Z) (roots picks : list nat) (cycles : list (list nat)) (total : Z),
    simple_graph g -> positive_weights g wts -> (forall v, v < nv g -> In v roots) ->
    mcb_sva_trees_accept_Z b g wts roots picks cycles = Some total ->
    cycle_basis g cycles /\ has_cycle_space_dimension g (length cycles).
Proof. exact tf_C01_trees_accept. Qed.
Print Assumptions C01_trees_accept.

Theorem C01_fvs_trees :
  forall (g : graph) (wts : list Z) (roots picks fvs : list nat),
    simple_graph g -> positive_weights g wts -> (forall v, v < nv g -> In v roots) ->
    greedy_fvs g picks = FvsOk fvs ->
    (exists cycles total sup,
       mcb_sva_trees_first_Z TbFvs g wts roots picks = TRun (SvaOk cycles total sup) /\
       mcb_sva_trees_accept_Z TbFvs g wts roots picks cycles = Some total) /\
    (forall cycles total, mcb_sva_trees_accept_Z TbFvs g wts roots picks cycles = Some total ->
       cycle_basis g cycles /\ has_cycle_space_dimension g (length cycles)).
Proof. exact tf_C01_fvs_trees. Qed.
Print Assumptions C01_fvs_trees.

Theorem C01_horton_trees :
  forall (g : graph) (wts : list Z) (roots picks : list nat),
    simple_graph g -> positive_weights g wts -> (forall v, v < nv g -> In v roots) ->
    (exists cycles total sup,
       mcb_sva_trees_first_Z TbHorton g wts roots picks = TRun (SvaOk cycles total sup) /\
       mcb_sva_trees_accept_Z TbHorton g wts roots picks cycles = Some total) /\
    (forall cycles total, mcb_sva_trees_accept_Z TbHorton g wts roots picks cycles = Some total ->
       cycle_basis g cycles /\ has_cycle_space_dimension g (length cycles)).
Proof. exact tf_C01_horton_trees. Qed.
Print Assumptions C01_horton_trees.

Theorem C01_trees_phase_ok :
  forall g wts trees cands sg c w,
    simple_graph g -> positive_weights g wts -> trees_collection_ok g wts trees cands ->
    trees_phase_ok g wts trees cands sg c w = true ->
    simple_cycle g c /\ RefModel.oddb sg c = true /\ w = weight wts c /\
    (exists cd t, In cd cands /\ nth_error trees (c_tree cd) = Some t /\ CandidatesProofsZ.c14_cycle g wts t cd c) /\
    forall cd t C, In cd cands -> nth_error trees (c_tree cd) = Some t -> CandidatesProofsZ.c14_cycle g wts t cd C ->
                   RefModel.oddb sg C = true -> (weight wts c <= weight wts C)%Z.
Proof. exact tf_phase_ok_spec. Qed.
Print Assumptions C01_trees_phase_ok.

(* the collections of all three builders satisfy the hypothesis of C01_trees_phase_ok *)
Theorem C01_trees_collection_ok :
  forall b g wts picks trees cands, simple_graph g -> positive_weights g wts ->
    tb_collection Z 0%Z Z.add Z.ltb b g wts picks = CdOk (trees, cands) -> trees_collection_ok g wts trees cands.
Proof. exact tr_collection_ok. Qed.
Print Assumptions C01_trees_collection_ok.

(* the acceptance test covers every arrangement std::sort may leave: if l' is a permutation of the per-phase answer
   list l in which no later entry is strictly lighter than an earlier one, the first answering entry of l' (what the
   sequential scan returns) passes trees_phase_pick.  (The converse — every accepted answer is the first one of some
   sorted arrangement — is not needed: accepting more runs only strengthens the theorems above.) *)
Theorem C01_trees_sorted_scan_accepted :
  forall (l l' : list (cand Z * tc_answer Z)) x c w,
    Permutation.Permutation l l' -> tf_weight_sorted l' ->
    find (tl_found Z) l' = Some x -> snd x = TcFound c w ->
    exists w', trees_phase_pick Z Z.ltb l c = Some w'.
Proof. exact tf_sorted_scan_accepted. Qed.
Print Assumptions C01_trees_sorted_scan_accepted.

(* STATED, NOT PROVED: the isometric variant always completes *)
Definition C01_iso_trees_total_statement : Prop :=
  forall (g : graph) (wts : list Z) (roots : list nat),
    simple_graph g -> positive_weights g wts -> (forall v, v < nv g -> In v roots) ->
    exists cycles total sup,
      mcb_sva_trees_first_Z TbIso g wts roots [] = TRun (SvaOk cycles total sup) /\
      mcb_sva_trees_accept_Z TbIso g wts roots [] cycles = Some total.

(* ---- non-vacuity: K4, unit weights; roots / feedback vertex set / emitted cycles as produced by the real code ----- *)
Definition c01t_k4 : graph := {| nv := 4; ge := [(0,1);(0,2);(0,3);(1,2);(1,3);(2,3)] |}.
Definition c01t_k4w : list Z := [1;1;1;1;1;1]%Z.
Definition c01t_roots : list nat := [3;0;1;2;3].

Example C01_trees_nonvacuous :
  simple_graph c01t_k4 /\ positive_weights c01t_k4 c01t_k4w /\ (forall v, v < nv c01t_k4 -> In v c01t_roots) /\
  greedy_fvs c01t_k4 [3;0] = FvsOk [3;0] /\
  (* the run of the real mcb_sva_fvs_trees is accepted ... *)
  mcb_sva_trees_accept_Z TbFvs c01t_k4 c01t_k4w c01t_roots [3;0] [[0;2;4];[1;2;5];[3;4;5]] = Some 9%Z /\
  (* ... so is another resolution of the ties (all four triangles weigh 3) ... *)
  mcb_sva_trees_accept_Z TbFvs c01t_k4 c01t_k4w c01t_roots [3;0] [[0;1;3];[0;2;4];[1;2;5]] = Some 9%Z /\
  (* ... a run emitting a 4-cycle first, or too few cycles, is rejected *)
  mcb_sva_trees_replay_Z TbFvs c01t_k4 c01t_k4w c01t_roots [3;0] [[0;1;4;5];[0;2;4];[1;2;5]] = TRun (SvaNoCycle 0) /\
  mcb_sva_trees_accept_Z TbFvs c01t_k4 c01t_k4w c01t_roots [3;0] [[0;2;4];[1;2;5]] = None /\
  (* the deterministic resolutions, and the run of the real mcb_sva_iso_trees *)
  mcb_sva_trees_first_Z TbFvs c01t_k4 c01t_k4w c01t_roots [3;0]
    = TRun (SvaOk [[0;2;4];[1;2;5];[3;4;5]] 9%Z [[0];[1];[2]]) /\
  mcb_sva_trees_first_Z TbHorton c01t_k4 c01t_k4w c01t_roots []
    = TRun (SvaOk [[0;1;3];[0;2;4];[1;2;5]] 9%Z [[0];[0;1];[1;2]]) /\
  mcb_sva_trees_accept_Z TbIso c01t_k4 c01t_k4w c01t_roots [] [[0;1;3];[0;2;4];[1;2;5]] = Some 9%Z.
Proof.
  split; [reflexivity|]. split; [split; [reflexivity|repeat constructor]|].
  split; [intros v Hv; cbn in Hv; unfold c01t_roots; repeat (destruct v as [|v]; [cbn; tauto|]); cbn in Hv; exfalso; apply (Nat.nlt_0_r v); do 4 apply Nat.succ_lt_mono in Hv; exact Hv|].
  repeat split; vm_compute; reflexivity.
Qed.

(* =====================================================================================================================
   APPENDED (IsoProofs*.v): the ISOMETRIC variant — supersedes the "STATED, NOT PROVED" note above.  The isometric
   builder never fails (Properties_C14.C14_iso_total) and its collection is sufficient (C14_iso_sufficient), so
   mcb_sva_iso_trees behaves like the Horton and FVS variants: the deterministic resolution completes, its run is an
   accepted run, and every accepted run emitted a cycle basis of m - n + c cycles (`picks` is unused by TbIso). *)
From Parmcb Require Import IsoProofsF1 IsoProofsF2.

Theorem C01_iso_trees :
  forall (g : graph) (wts : list Z) (roots picks : list nat),
    simple_graph g -> positive_weights g wts -> (forall v, v < nv g -> In v roots) ->
    (exists cycles total sup,
       mcb_sva_trees_first_Z TbIso g wts roots picks = TRun (SvaOk cycles total sup) /\
       mcb_sva_trees_accept_Z TbIso g wts roots picks cycles = Some total) /\
    (forall cycles total, mcb_sva_trees_accept_Z TbIso g wts roots picks cycles = Some total ->
       cycle_basis g cycles /\ has_cycle_space_dimension g (length cycles)).
Proof. exact iso_C01_iso_trees. Qed.
Print Assumptions C01_iso_trees.

Theorem C01_iso_trees_total : C01_iso_trees_total_statement.
Proof.
  intros g wts roots Hsg Hpos Hr. exact (proj1 (iso_C01_iso_trees g wts roots [] Hsg Hpos Hr)).
Qed.
Print Assumptions C01_iso_trees_total.
