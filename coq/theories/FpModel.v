(* FpModel.v — executable models of include/parmcb/fp.hpp (fp<T>::ext_gcd, get_mult_inverse,
   primes<T>::is_prime) and include/parmcb/spvecfp.hpp (SpVecFP<P>), over unbounded Z.
   Definitions only; proofs are in FpProofs.v.

   The C++ integer type T is modelled by Z; for the built-in instantiations the theorems
   additionally need the explicit no-overflow side condition stated in Properties_C18.v.
   C++ `/` and `%` truncate towards zero: Z.quot / Z.rem. *)
From Coq Require Export ZArith List Bool.
Export ListNotations.
Local Open Scope Z_scope.

(* ------------------------------------------------------------------------------------ *)
(* ext_gcd: two-slot arrays _a, _x, _y and the index i in {0,1} (bool: false = 0)        *)

Record gstate := { a0 : Z; a1 : Z; x0 : Z; x1 : Z; y0 : Z; y1 : Z; idx : bool }.

Definition sel (i : bool) (v0 v1 : Z) : Z := if i then v1 else v0.

(* one iteration of `while (true)`: Some result at the break, otherwise the next state *)
Definition gstep (s : gstate) : (Z * Z * Z) + gstate :=
  let i := idx s in
  let ai := sel i (a0 s) (a1 s) in          (* _a[i]   *)
  let aj := sel (negb i) (a0 s) (a1 s) in   (* _a[1-i] *)
  let xi := sel i (x0 s) (x1 s) in let xj := sel (negb i) (x0 s) (x1 s) in
  let yi := sel i (y0 s) (y1 s) in let yj := sel (negb i) (y0 s) (y1 s) in
  let q := Z.quot ai aj in
  if Z.rem ai aj =? 0 then inl (aj, xj, yj)
  else
    let ai' := Z.rem ai aj in
    let xi' := xi - q * xj in
    let yi' := yi - q * yj in
    inr (if i then {| a0 := a0 s; a1 := ai'; x0 := x0 s; x1 := xi'; y0 := y0 s; y1 := yi'; idx := false |}
         else {| a0 := ai'; a1 := a1 s; x0 := xi'; x1 := x1 s; y0 := yi'; y1 := y1 s; idx := true |}).

Fixpoint gloop (fuel : nat) (s : gstate) : option (Z * Z * Z) :=
  match fuel with
  | O => None
  | S f => match gstep s with inl r => Some r | inr s' => gloop f s' end
  end.

(* enough for every input: the product _a[0]*_a[1] at least halves in every iteration *)
Definition gfuel (hi lo : Z) : nat := Z.to_nat (Z.log2 hi + Z.log2 lo) + 3.

Inductive gcd_result := GcdOk (g x y : Z) | GcdOutOfFuel.

(* ext_gcd as in the repaired source: both coefficients are written in the zero shortcuts and the
   sign of x comes from a *)
Definition ext_gcd (a b : Z) : gcd_result :=
  let aneg := a <? 0 in
  let bneg := b <? 0 in
  let a := if a <? 0 then - a else a in
  let b := if b <? 0 then - b else b in
  if a =? 0 then GcdOk b 0 (if bneg then -1 else 1)
  else if b =? 0 then GcdOk a (if aneg then -1 else 1) 0
  else
    let swap := b >? a in
    let hi := if swap then b else a in
    let lo := if swap then a else b in
    match gloop (gfuel hi lo)
            {| a0 := hi; a1 := lo; x0 := 1; x1 := 0; y0 := 0; y1 := 1; idx := false |} with
    | None => GcdOutOfFuel
    | Some (g, xr, yr) =>
        if swap then GcdOk g (yr * (if aneg then -1 else 1)) (xr * (if bneg then -1 else 1))
        else GcdOk g (xr * (if aneg then -1 else 1)) (yr * (if bneg then -1 else 1))
    end.

(* the source as found at the pinned commit (defect D1): in the zero shortcuts only one coefficient
   is written (the other keeps the caller's value, modelled by the extra arguments x_in y_in) and the
   b == 0 shortcut takes the sign from b *)
Definition ext_gcd_orig (a b x_in y_in : Z) : gcd_result :=
  let aneg := a <? 0 in
  let bneg := b <? 0 in
  let a := if a <? 0 then - a else a in
  let b := if b <? 0 then - b else b in
  if a =? 0 then GcdOk b x_in (if bneg then -1 else 1)
  else if b =? 0 then GcdOk a (if bneg then -1 else 1) y_in
  else
    let swap := b >? a in
    let hi := if swap then b else a in
    let lo := if swap then a else b in
    match gloop (gfuel hi lo)
            {| a0 := hi; a1 := lo; x0 := 1; x1 := 0; y0 := 0; y1 := 1; idx := false |} with
    | None => GcdOutOfFuel
    | Some (g, xr, yr) =>
        if swap then GcdOk g (yr * (if aneg then -1 else 1)) (xr * (if bneg then -1 else 1))
        else GcdOk g (xr * (if aneg then -1 else 1)) (yr * (if bneg then -1 else 1))
    end.

(* get_mult_inverse (PARMCB_INVARIANTS_CHECK on, as in the repository's build): *)
Inductive inv_result := InvOk (x : Z) | InvThrow | InvOutOfFuel.

Definition mult_inverse (a p : Z) : inv_result :=
  if p <=? 0 then InvThrow
  else match ext_gcd a p with
       | GcdOutOfFuel => InvOutOfFuel
       | GcdOk g x _ => if g =? 1 then InvOk x else InvThrow
       end.

(* ------------------------------------------------------------------------------------ *)
(* primes<T>::is_prime: trial division by t = 2 .. floor(sqrt p) + 1                     *)

(* the while loop, iterated with Z.iter (binary iteration count, no unary fuel):
   state = (t, verdict so far); None = still running *)
Definition pstep (p : Z) (st : Z * option bool) : Z * option bool :=
  match st with
  | (t, Some r) => (t, Some r)
  | (t, None) => if Z.rem p t =? 0 then (t, Some false) else (t + 1, None)
  end.

Definition is_prime (p : Z) : bool :=
  if p =? 1 then true
  else if p =? 2 then true
  else if Z.rem p 2 =? 0 then false
  else
    let sqrtt := Z.sqrt p + 1 in
    (* t runs over 2 .. sqrtt : sqrtt - 1 iterations *)
    match snd (Z.iter (sqrtt - 1) (pstep p) (2, None)) with
    | Some r => r
    | None => true
    end.

(* as found at the pinned commit (defect D2): no special case for 2 *)
Definition is_prime_orig (p : Z) : bool :=
  if p =? 1 then true
  else if Z.rem p 2 =? 0 then false
  else
    let sqrtt := Z.sqrt p + 1 in
    match snd (Z.iter (sqrtt - 1) (pstep p) (2, None)) with
    | Some r => r
    | None => true
    end.

(* ------------------------------------------------------------------------------------ *)
(* SpVecFP<P>: entries = list of (index, value), all vectors of a history share the prime *)

Definition fvec := list (nat * Z).

(* the two normalisation loops after `% p`; |v| < p there, so each runs at most once *)
Definition fnorm (p v : Z) : Z :=
  let v := if v <? 0 then v + p else v in
  if v >=? p then v - p else v.

Fixpoint fadd (p : Z) (u : fvec) : fvec -> fvec :=
  fix aux (v : fvec) : fvec :=
    match u, v with
    | [], _ => v
    | _, [] => u
    | (i, x) :: u', (j, y) :: v' =>
        match Nat.compare i j with
        | Lt => (i, x) :: fadd p u' v
        | Gt => (j, y) :: aux v'
        | Eq => let s := fnorm p (Z.rem (x + y) p) in
                if s =? 0 then fadd p u' v' else (i, s) :: fadd p u' v'
        end
    end.

Fixpoint fscale (p a : Z) (u : fvec) : fvec :=
  match u with
  | [] => []
  | (i, x) :: u' =>
      let s := fnorm p (Z.rem (x * a) p) in
      if s =? 0 then fscale p a u' else (i, s) :: fscale p a u'
  end.

Fixpoint fdot_acc (p : Z) (res : Z) (u : fvec) : fvec -> Z :=
  fix aux (v : fvec) : Z :=
    match u, v with
    | [], _ => res
    | _, [] => res
    | (i, x) :: u', (j, y) :: v' =>
        match Nat.compare i j with
        | Lt => fdot_acc p res u' v
        | Gt => aux v'
        | Eq => fdot_acc p (Z.rem (res + Z.rem (x * y) p) p) u' v'
        end
    end.
Definition fdot (p : Z) (u v : fvec) : Z := fdot_acc p 0 u v.

Inductive fop :=
| FUnit (d i : nat)            (* store[d] = i   (operator=(size_t): entries = {(i,1)}) *)
| FCopy (d a : nat)            (* copy construction + assignment *)
| FAssign (d a : nat)          (* store[d] = store[a] (self-assignment allowed) *)
| FAdd (d a b : nat)           (* store[d] = store[a] + store[b] *)
| FAddAssign (d a : nat)       (* store[d] += store[a] *)
| FScale (d a : nat) (c : Z)   (* store[d] = store[a] * c *)
| FScaleAssign (d : nat) (c : Z) (* store[d] *= c *)
| FClear (d : nat)
| FDot (a b : nat)             (* output store[a] * store[b] *)
| FSize (a : nat).             (* output size *)

Inductive fout := FOutZ (z : Z) | FOutNat (n : nat).

Definition fstore := nat -> fvec.
Definition fupd {A} (s : nat -> A) (d : nat) (x : A) : nat -> A :=
  fun j => if Nat.eqb j d then x else s j.

Definition fstep (p : Z) (s : fstore) (o : fop) : fstore * list fout :=
  match o with
  | FUnit d i => (fupd s d [(i, 1)], [])
  | FCopy d a => (fupd s d (s a), [])
  | FAssign d a => (fupd s d (s a), [])
  | FAdd d a b => (fupd s d (fadd p (s a) (s b)), [])
  | FAddAssign d a => (fupd s d (fadd p (s d) (s a)), [])
  | FScale d a c => (fupd s d (fscale p c (s a)), [])
  | FScaleAssign d c => (fupd s d (fscale p c (s d)), [])
  | FClear d => (fupd s d [], [])
  | FDot a b => (s, [FOutZ (fdot p (s a) (s b))])
  | FSize a => (s, [FOutNat (length (s a))])
  end.

Fixpoint frun (p : Z) (s : fstore) (ops : list fop) : fstore * list fout :=
  match ops with
  | [] => (s, [])
  | o :: ops' =>
      let '(s1, o1) := fstep p s o in
      let '(s2, o2) := frun p s1 ops' in
      (s2, o1 ++ o2)
  end.

Definition fempty : fstore := fun _ => [].

Definition frun_dump (p : Z) (K : nat) (ops : list fop) : list fout * list fvec :=
  let '(s, o) := frun p fempty ops in (o, map s (seq 0 K)).

(* ---- dense reference semantics over Z/p ------------------------------------------ *)
Definition dfvec := nat -> Z.                (* values in [0, p) *)
Definition dfstore := nat -> dfvec.
Definition dfunit (p : Z) (i : nat) : dfvec := fun j => if Nat.eqb j i then 1 mod p else 0.
Definition dfadd (p : Z) (f g : dfvec) : dfvec := fun j => (f j + g j) mod p.
Definition dfscale (p c : Z) (f : dfvec) : dfvec := fun j => (f j * c) mod p.
Definition dfzero : dfvec := fun _ => 0.
Definition dfdot (p : Z) (D : nat) (f g : dfvec) : Z :=
  fold_right (fun j acc => (f j * g j + acc) mod p) 0 (seq 0 D).
Definition dfsize (D : nat) (f : dfvec) : nat := length (filter (fun j => negb (f j =? 0)) (seq 0 D)).

Definition dfstep (p : Z) (D : nat) (s : dfstore) (o : fop) : dfstore * list fout :=
  match o with
  | FUnit d i => (fupd s d (dfunit p i), [])
  | FCopy d a => (fupd s d (s a), [])
  | FAssign d a => (fupd s d (s a), [])
  | FAdd d a b => (fupd s d (dfadd p (s a) (s b)), [])
  | FAddAssign d a => (fupd s d (dfadd p (s d) (s a)), [])
  | FScale d a c => (fupd s d (dfscale p c (s a)), [])
  | FScaleAssign d c => (fupd s d (dfscale p c (s d)), [])
  | FClear d => (fupd s d dfzero, [])
  | FDot a b => (s, [FOutZ (dfdot p D (s a) (s b))])
  | FSize a => (s, [FOutNat (dfsize D (s a))])
  end.

Fixpoint dfrun (p : Z) (D : nat) (s : dfstore) (ops : list fop) : dfstore * list fout :=
  match ops with
  | [] => (s, [])
  | o :: ops' =>
      let '(s1, o1) := dfstep p D s o in
      let '(s2, o2) := dfrun p D s1 ops' in
      (s2, o1 ++ o2)
  end.

Definition dfempty : dfstore := fun _ => dfzero.

(* value of coordinate i of a sparse vector (0 when absent) *)
Fixpoint fget (v : fvec) (i : nat) : Z :=
  match v with
  | [] => 0
  | (j, x) :: v' => if Nat.eqb i j then x else fget v' i
  end.

Definition fop_in_dim (D : nat) (o : fop) : Prop :=
  match o with FUnit _ i => (i < D)%nat | _ => True end.
