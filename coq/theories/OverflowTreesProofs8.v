(* OverflowTreesProofs8.v — C07, clause "overflows a signed integer", part 8: the statements re-exported by
   Properties_C07_overflow_more.v (erasure + bounds in one statement, coarse preconditions) and concrete instances whose
   traces are computed.   S = wsum g wts, wmax = the largest edge weight.   No axioms. *)
From Coq Require Import List Arith Bool ZArith Lia Permutation.
From Parmcb Require Import GraphModel GF2Model GraphSpec GraphLemmas McbSpec ForestModel SvaModel LexSPModel FvsModel
     CandidatesModel TreesModel SchedModel ParTreesModel SpannerModel DijkstraModel ApproxModel ApproxParModel
     SignedProofs2 Properties_C02_trees
     OverflowProofs1 OverflowProofs3 OverflowProofs4 OverflowTreesModel OverflowTreesProofs1 OverflowTreesProofs2
     OverflowTreesProofs3 OverflowTreesProofs4 OverflowTreesProofs5 OverflowTreesProofs6 OverflowTreesProofs7
     ParSignedModel SignedModel SignedZModel.
Import ListNotations.

Local Open Scope Z_scope.

(* ---- 1. lex_dijkstra / SPTree ------------------------------------------------------------------------------------------ *)

Theorem ovt_overflow_lex : forall g wts s, simple_graph g -> positive_weights g wts ->
  fst (lex_dijkstra_tr g wts s) = lex_dijkstra Z 0 Z.add Z.ltb g wts s
  /\ fst (sptree_tr g wts s) = sptree_Z g wts s /\ snd (sptree_tr g wts s) = snd (lex_dijkstra_tr g wts s)
  /\ Forall (fun v => exists d e, v = d + wt wts e /\ 0 <= d <= wsum g wts /\ (e < ne g)%nat) (snd (lex_dijkstra_tr g wts s))
  /\ Forall (fun v => 0 <= v <= wsum g wts + wmax wts) (snd (lex_dijkstra_tr g wts s))
  /\ wsum g wts + wmax wts <= 2 * wsum g wts.
Proof.
  intros g wts s Hs Hpw. split; [apply ovt_dijkstra_erase|]. split; [reflexivity|]. split; [reflexivity|].
  split; [exact (ovt_dijkstra_tr_tent g wts s Hs Hpw)|]. split; [exact (ovt_dijkstra_tr g wts s Hs Hpw)|].
  pose proof (ov_wmax_le_wsum g wts Hpw). lia.
Qed.

Theorem ovt_overflow_node_weights : forall g wts s t v nd, simple_graph g -> positive_weights g wts ->
  sptree_Z g wts s = LxOk t -> sp_node_of Z t v = Some nd -> 0 <= sn_weight nd <= wsum g wts.
Proof. intros g wts s t v nd Hs Hpw. apply ovt_node_weight_bounds; assumption. Qed.

(* ---- 2. candidates and the builder ------------------------------------------------------------------------------------- *)

Theorem ovt_overflow_collection : forall b g wts picks, simple_graph g -> positive_weights g wts ->
  fst (tb_collection_tr b g wts picks) = tb_collection Z 0 Z.add Z.ltb b g wts picks
  /\ Forall (fun v => 0 <= v <= wsum g wts + wmax wts) (snd (tb_collection_tr b g wts picks)).
Proof. intros b g wts picks Hs Hpw. split; [apply ovt_collection_erase|apply ovt_collection_tr; assumption]. Qed.

Theorem ovt_overflow_candidates : forall g wts roots trees cs, simple_graph g -> positive_weights g wts ->
  cycles_of_roots Z 0 Z.add Z.ltb g wts roots = CdOk (trees, cs) ->
  fst (cd_cycles_of_trees_tr g wts trees) = cs
  /\ Forall (fun v => 0 <= v <= wsum g wts) (snd (cd_cycles_of_trees_tr g wts trees))
  /\ Forall (fun c => 0 <= c_weight c <= wsum g wts) cs.
Proof.
  intros g wts roots trees cs Hs Hpw Hr. destruct (ovt_cycles_of_roots_cands g wts Hs Hpw roots trees cs Hr) as [E Hv].
  split; [exact E|]. split; [exact Hv|].
  pose proof (CandidatesProofsZ.cz_roots_sound g wts roots trees cs Hs Hpw Hr) as Hsound.
  apply Forall_forall. intros c Hc. exact (ovt_sound_weight g wts Hpw trees cs c Hsound Hc).
Qed.

Theorem ovt_overflow_builder : forall g wts trees pars sg c (use : bool) (lim : Z), positive_weights g wts ->
  fst (tc_build_tr g wts trees pars sg c) = tc_build Z 0 Z.add g wts trees pars sg c
  /\ Forall (fun v => 0 <= v <= wsum g wts) (snd (tc_build_tr g wts trees pars sg c))
  /\ (forall C w, tc_build Z 0 Z.add g wts trees pars sg c = TrOk (TcFound C w) -> 0 <= w <= wsum g wts)
  /\ fst (tc_build_limit_tr g wts trees pars sg c use lim) = tc_build_limit_Z g wts trees pars sg c use lim
  /\ Forall (fun v => 0 <= v <= wsum g wts) (snd (tc_build_limit_tr g wts trees pars sg c use lim))
  /\ (forall C w, tc_build_limit_Z g wts trees pars sg c use lim = TrOk (TcFound C w) -> 0 <= w <= wsum g wts).
Proof.
  intros g wts trees pars sg c use lim Hpw.
  destruct (ovt_build_tr g wts Hpw trees pars sg c) as [H1 H2].
  destruct (ovt_build_limit_tr g wts Hpw trees pars sg c use lim) as [H3 H4].
  split; [apply ovt_build_erase|]. split; [exact H1|]. split.
  { intros C w E. apply (H2 C w). rewrite ovt_build_erase. exact E. }
  split; [apply ovt_build_limit_erase|]. split; [exact H3|].
  intros C w E. apply (H4 C w). rewrite ovt_build_limit_erase. exact E.
Qed.

(* ---- 3. whole runs, coarse preconditions ------------------------------------------------------------------------------- *)

(* max(2, N) * S <= M is enough for the tree-based exact variants *)
Corollary ovt_overflow_trees_accept_coarse :
  forall (b : tbuilder) (g : graph) (wts : list Z) (roots picks : list nat) (cycles : list (list nat)) (total M : Z),
  simple_graph g -> positive_weights g wts -> (forall v, (v < nv g)%nat -> In v roots) ->
  mcb_sva_trees_accept_Z b g wts roots picks cycles = Some total ->
  Z.max 2 (Z.of_nat (length cycles)) * wsum g wts <= M ->
  Forall (fun v => 0 <= v <= M) (snd (mcb_sva_trees_replay_tr b g wts roots picks cycles)) /\ total <= M.
Proof.
  intros b g wts roots picks cycles total M Hs Hpw Hr Hacc HM.
  destruct (ovt_overflow_trees_accept b g wts roots picks cycles total Hs Hpw Hr Hacc) as (_ & _ & _ & _ & Hle & _ & HMM).
  pose proof (ov_wmax_le_wsum g wts Hpw). pose proof (ov_wsum_nonneg g wts Hpw).
  assert (total <= M) by nia. split; [apply HMM; [nia|assumption]|assumption].
Qed.

Corollary ovt_overflow_trees_tbb_coarse :
  forall (b : tbuilder) (g : graph) (wts : list Z) (roots picks : list nat),
  simple_graph g -> positive_weights g wts -> (forall v, (v < nv g)%nat -> In v roots) -> ovt_builder_ok b g picks ->
  exists fi trees cands,
    create_index g roots = Some fi /\ tb_collection Z 0 Z.add Z.ltb b g wts picks = CdOk (trees, cands) /\
    forall (wmaxv : Z) (bits : list bool) (arr : list nat) (M : Z), pt_valid_arr arr (length cands) = true ->
    exists cycles total sup pos,
      mcb_sva_trees_tbb_Z wmaxv b g wts roots picks arr bits = (PtRun (SvaOk cycles total sup), pos)
      /\ has_cycle_space_dimension g (length cycles)
      /\ (Z.max 2 (Z.of_nat (length cycles)) * wsum g wts <= M ->
          Forall (fun v => 0 <= v <= M) (snd (mcb_sva_trees_tbb_tr wmaxv b g wts roots picks arr bits)) /\ total <= M).
Proof.
  intros b g wts roots picks Hs Hpw Hr Hb.
  destruct (ovt_overflow_trees_tbb b g wts roots picks Hs Hpw Hr Hb) as (fi & trees & cands & Hfi & Hc & Hall).
  exists fi, trees, cands. split; [exact Hfi|]. split; [exact Hc|].
  intros wmaxv bits arr M Harr.
  destruct (Hall wmaxv bits arr Harr) as (cycles & total & sup & pos & Erun & _ & Hmin & _ & _ & Hle & _ & HMM).
  exists cycles, total, sup, pos. split; [exact Erun|].
  assert (Hdim : has_cycle_space_dimension g (length cycles)).
  { assert (Hstmt : ParTreesProofs3.ps_trees_tbb_stmt b g wts roots picks).
    { destruct b; cbn [ovt_builder_ok] in Hb.
      - apply ParTreesProofs3.ps_horton_trees_tbb; assumption.
      - destruct Hb as [fvs Hf]. eapply ParTreesProofs3.ps_fvs_trees_tbb; eassumption.
      - apply ParTreesProofs3.ps_iso_trees_tbb; assumption. }
    destruct Hstmt as (fi' & trees' & cands' & _ & Hc' & _ & Hentry).
    rewrite Hc in Hc'. injection Hc' as <- <-.
    destruct (Hentry wmaxv bits arr Harr) as (r & pos' & Erun' & (cycles' & total' & sup' & -> & _ & _ & Hd & _)).
    rewrite Erun in Erun'. injection Erun' as <- _ _ _. exact Hd. }
  split; [exact Hdim|].
  intros HM. pose proof (ov_wmax_le_wsum g wts Hpw). pose proof (ov_wsum_nonneg g wts Hpw).
  assert (total <= M) by nia. split; [apply HMM; [nia|assumption]|assumption].
Qed.

(* ---- 4. the plain Dijkstra on the spanner, and the generic approximate run -------------------------------------------- *)

Theorem ovt_overflow_dropped_cycle : forall g w k scan sp e cyc cw,
  simple_graph g -> positive_weights g w -> Permutation scan (seq 0 (ne g)) ->
  construct_spanner g k scan = SpOk sp -> In e (dropped sp) ->
  dropped_cycle g w sp e = inr (cyc, cw) ->
  fst (dropped_cycle_tr g w sp e) = dropped_cycle g w sp e
  /\ Forall (fun v => 0 <= v <= wsum g w + wmax w) (snd (dropped_cycle_tr g w sp e))
  /\ 0 <= cw <= wsum g w /\ NoDup cyc /\ cw = weight w cyc.
Proof.
  intros g w k scan sp e cyc cw Hg Hpw HPs Hsp He Hrun.
  destruct (ApproxProofsRun.ap_spanner_facts g k scan sp Hg HPs Hsp) as (Hsub & HPerm & Hpath3).
  assert (Hpath : forall e u v, In e (dropped sp) -> ends g e = Some (u, v) ->
            exists p, walk g u p v /\ incl (wedges p) (retained sp)).
  { intros e' u v He' Hends. destruct (Hpath3 e' u v He' Hends) as (p & H1 & H2 & _). exists p; auto. }
  split; [apply ovt_dropped_cycle_erase|].
  apply (ovt_dropped_cycle_tr g Hg w Hpw sp Hsub HPerm Hpath e cyc cw He).
  rewrite ovt_dropped_cycle_erase. exact Hrun.
Qed.

Theorem ovt_overflow_tbb_lookup :
  forall g wts, positive_weights g wts ->
  forall (wmaxv : Z) trees sorted sg (t1 t2 : sched) pars0,
  fst (pt_lookup_sched_tr wmaxv g wts trees sorted sg t1 t2 pars0) = pt_lookup_sched_Z wmaxv g wts trees sorted sg t1 t2 pars0
  /\ Forall (inrange (wsum g wts)) (snd (pt_lookup_sched_tr wmaxv g wts trees sorted sg t1 t2 pars0))
  /\ forall c w pars, fst (pt_lookup_sched_tr wmaxv g wts trees sorted sg t1 t2 pars0) = TrOk ((c, w, true), pars) ->
       inrange (wsum g wts) w.
Proof.
  intros g wts Hpw wmaxv trees sorted sg t1 t2 pars0. split; [apply ovt_lookup_sched_erase|].
  apply ovt_tbb_lookup_sched_tr. exact Hpw.
Qed.

Theorem ovt_overflow_spanner_sums : forall g w k scan sp,
  simple_graph g -> positive_weights g w -> Permutation scan (seq 0 (ne g)) -> construct_spanner g k scan = SpOk sp ->
  simple_graph (sp_graph sp) /\ positive_weights (sp_graph sp) (spanner_weights w sp)
  /\ wsum (sp_graph sp) (spanner_weights w sp) <= wsum g w /\ wmax (spanner_weights w sp) <= wmax w.
Proof.
  intros g w k scan sp Hg Hpw HPs Hsp.
  destruct (ApproxProofsRun.ap_spanner_facts g k scan sp Hg HPs Hsp) as (Hsub & HPerm & _).
  split; [exact (ovt_spanner_simple g Hg sp Hsub HPerm)|]. split; [exact (ovt_spanner_positive g w Hpw sp Hsub)|].
  split; [exact (ovt_spanner_wsum g w Hpw sp Hsub HPerm)|exact (ovt_spanner_wmax w sp)].
Qed.

(* the generators' domain predicate (m + 4) * S <= INT_MAX suffices for the approximate algorithms *)
Theorem ovt_overflow_approx_domain_ok : forall g w k scan roots eord,
  simple_graph g -> positive_weights g w -> (1 <= k)%nat -> Permutation scan (seq 0 (ne g)) ->
  (forall v, (v < nv g)%nat -> In v roots) ->
  (Z.of_nat (ne g) + 4) * wsum g w <= 2147483647 ->
  exists cycles total,
    approx_sva_signed_Z g w k scan roots eord = ApproxOk cycles total
    /\ Forall (fun v => 0 <= v <= 2147483647) (snd (approx_sva_signed_Z_tr g w k scan roots eord))
    /\ total <= 2147483647.
Proof.
  intros g w k scan roots eord Hg Hpw Hk HPs Hr HM.
  destruct (ovt_overflow_approx_signed g w k scan roots eord Hg Hpw Hk HPs Hr)
    as (cycles & total & Hrun & _ & _ & _ & _ & _ & _ & _ & _ & Hm).
  exists cycles, total. split; [exact Hrun|]. exact (Hm 2147483647 HM).
Qed.

Theorem ovt_overflow_signed_tbb_find : forall g wts, simple_graph g -> positive_weights g wts ->
  forall eord bits fi Sv pos,
  fst (par_find_tr eord bits g wts fi Sv pos) = ParSignedModel.find Z 0 Z.add Z.ltb eord bits g wts fi Sv pos
  /\ Forall (inrange (2 * wsum g wts + 2 * wmax wts)) (snd (par_find_tr eord bits g wts fi Sv pos))
  /\ ovt_goodacc g wts (fst (fst (par_find_tr eord bits g wts fi Sv pos))).
Proof.
  intros g wts Hs Hpw eord bits fi Sv pos. split; [apply ovt_par_find_erase|]. apply ovt_par_find_tr; assumption.
Qed.

(* ---- concrete instances ------------------------------------------------------------------------------------------------ *)

(* the theta graph of Properties_C02_trees.v (paths of weight 3, 4, 5 between the vertices 0 and 1): S = 12, wmax = 3 *)
Lemma ovt_theta_sums : wsum c02t_g c02t_w = 12 /\ wmax c02t_w = 3.
Proof. vm_compute. split; reflexivity. Qed.

Lemma ovt_theta_fvs_trace :
  mcb_sva_trees_accept_Z TbFvs c02t_g c02t_w c02t_roots [1]%nat [[0;1;2;3;4];[0;1;5;6;7]]%nat = Some 15
  /\ snd (mcb_sva_trees_replay_tr TbFvs c02t_g c02t_w c02t_roots [1]%nat [[0;1;2;3;4];[0;1;5;6;7]]%nat)
     = [1; 2; 3; 3; 3; 4; 5; 4; 4; 4; 4; 5; 5;          (* the tree of root 1: tentative distances *)
        4; 7; 4; 8;                                      (* two candidates: w(e) + dist(a), ... + dist(b) *)
        3; 4; 5; 7; 3; 4; 5; 8;                          (* phase 0: running cycle_weight of both builder calls *)
        7;                                               (* mcb_weight += 7 *)
        3; 4; 5; 8;                                      (* phase 1: the first candidate is even, not walked *)
        15].                                             (* mcb_weight += 8 *)
Proof. vm_compute. split; reflexivity. Qed.

Lemma ovt_theta_iso_trace :
  mcb_sva_trees_accept_Z TbIso c02t_g c02t_w c02t_roots [] [[0;1;2;3;4];[0;1;5;6;7]]%nat = Some 15
  /\ length (snd (mcb_sva_trees_replay_tr TbIso c02t_g c02t_w c02t_roots [] [[0;1;2;3;4];[0;1;5;6;7]]%nat)) = 158%nat
  /\ fold_right Z.max 0 (snd (mcb_sva_trees_replay_tr TbIso c02t_g c02t_w c02t_roots [] [[0;1;2;3;4];[0;1;5;6;7]]%nat)) = 15.
Proof. vm_compute. repeat split; reflexivity. Qed.

Lemma ovt_theta_tbb_trace :
  mcb_sva_trees_tbb_tr 2147483647 TbFvs c02t_g c02t_w c02t_roots [1]%nat [1;0]%nat [true]
  = (PtRun (SvaOk [[0;1;2;3;4];[0;1;5;6;7]]%nat 15 [[0];[0;1]]%nat), 6%nat,
     [1; 2; 3; 3; 3; 4; 5; 4; 4; 4; 4; 5; 5; 4; 7; 4; 8;
      3; 4; 5; 8; 3; 4; 5; 7;                            (* arrangement 1,0: the heavier candidate first, then the lighter *)
      7; 3; 4; 5; 8; 15]).
Proof. vm_compute. reflexivity. Qed.

Lemma ovt_k4_lex_trace :
  snd (lex_dijkstra_tr sg_k4 sg_k4_wts 0) = [1; 1; 1; 2; 2; 2; 2; 2; 2]
  /\ snd (dijkstra_tr sg_k4 sg_k4_wts 0) = [1; 1; 1; 2; 2; 2; 2; 2; 2]
  /\ wsum sg_k4 sg_k4_wts = 6 /\ wmax sg_k4_wts = 1.
Proof. vm_compute. repeat split; reflexivity. Qed.

Lemma ovt_k4_horton_trace :
  mcb_sva_trees_accept_Z TbHorton sg_k4 sg_k4_wts sg_k4_roots [] [[0;1;3];[0;2;4];[1;2;5]]%nat = Some 9
  /\ length (snd (mcb_sva_trees_replay_tr TbHorton sg_k4 sg_k4_wts sg_k4_roots [] [[0;1;3];[0;2;4];[1;2;5]]%nat)) = 99%nat
  /\ fold_right Z.max 0 (snd (mcb_sva_trees_replay_tr TbHorton sg_k4 sg_k4_wts sg_k4_roots [] [[0;1;3];[0;2;4];[1;2;5]]%nat)) = 9.
Proof. vm_compute. repeat split; reflexivity. Qed.

(* the graph of Properties_C05.C05_nonvacuous: K4 on 0..3, a pendant edge 3-4, a 5-cycle 4-5-6-7-8; k = 2 *)
Definition ovt_ag : graph :=
  {| nv := 9; ge := [(0,1); (0,2); (0,3); (1,2); (1,3); (2,3); (3,4); (4,5); (5,6); (6,7); (7,8); (8,4)]%nat |}.
Definition ovt_aw : list Z := [1; 1; 2; 2; 2; 3; 1; 1; 1; 1; 1; 5].
Definition ovt_ascan : list nat := [6; 0; 1; 10; 7; 8; 9; 3; 2; 4; 5; 11]%nat.
Definition ovt_aroots : list nat := [4; 0; 1; 2; 3; 5; 6; 7; 8]%nat.
Definition ovt_aeord : list nat := [3; 1; 0; 2; 8; 7; 6; 5; 4]%nat.

Lemma ovt_approx_instance :
  simple_graph ovt_ag /\ positive_weights ovt_ag ovt_aw /\ Permutation ovt_ascan (seq 0 (ne ovt_ag))
  /\ (forall v, (v < nv ovt_ag)%nat -> In v ovt_aroots)
  /\ wsum ovt_ag ovt_aw = 21 /\ wmax ovt_aw = 5.
Proof.
  split; [vm_compute; reflexivity|]. split; [split; [reflexivity|repeat constructor]|].
  split; [apply SpannerProofs.scan_perm_check; vm_compute; reflexivity|].
  split; [|vm_compute; split; reflexivity].
  intros v Hv. cbn [nv ovt_ag] in Hv. unfold ovt_aroots.
  do 9 (destruct v as [|v]; [cbn [In]; tauto|]). exfalso. lia.
Qed.

Lemma ovt_approx_trace :
  fst (approx_sva_signed_Z_tr ovt_ag ovt_aw 2 ovt_ascan ovt_aroots ovt_aeord)
  = ApproxOk [[10; 7; 8; 9; 11]; [1; 0; 3]; [2; 0; 4]; [2; 1; 5]]%nat 24
  /\ length (snd (approx_sva_signed_Z_tr ovt_ag ovt_aw 2 ovt_ascan ovt_aroots ovt_aeord)) = 79%nat
  /\ fold_right Z.max 0 (snd (approx_sva_signed_Z_tr ovt_ag ovt_aw 2 ovt_ascan ovt_aroots ovt_aeord)) = 24
  /\ fst (approx_sva_signed_tbb_Z_tr ovt_ag ovt_aw 2 ovt_ascan ovt_aroots ovt_aeord [true] [] [] [])
     = (TbbRun (ApproxOk [[10; 7; 8; 9; 11]; [2; 1; 5]; [2; 0; 4]; [1; 0; 3]]%nat 24), 12%nat)
  /\ fold_right Z.max 0 (snd (approx_sva_signed_tbb_Z_tr ovt_ag ovt_aw 2 ovt_ascan ovt_aroots ovt_aeord [true] [] [] [])) = 24.
Proof. vm_compute. repeat split; reflexivity. Qed.

(* the builder alone, the exact phase's answer supplied (one spanner cycle of weight 5): the sums of the three dropped edges —
   per edge the tentative distances of the Dijkstra on the spanner, the predecessor walk, + w(e), total += weight — between
   0 + sw and the returned value *)
Lemma ovt_approx_builder_trace :
  approx_run_tr (fun _ _ => (SvaOk [[0;1;2;3;4]]%nat 5 [], [])) ovt_ag ovt_aw 2 ovt_ascan
  = (ApproxOk [[6; 0; 1; 10; 7]; [1; 0; 3]; [2; 0; 4]; [2; 1; 5]]%nat 20,
     [5;
      1; 2; 3; 3; 4; 5; 5; 5; 9; 6; 6; 7; 7; 8; 8; 9; 13;  1; 2;  4;  4;
      1; 2; 3; 3; 4; 5; 5; 5; 9; 6; 6; 7; 7; 8; 8; 9; 13;  2; 3;  5;  9;
      1; 2; 3; 3; 4; 5; 5; 5; 9; 6; 6; 7; 7; 8; 8; 9; 13;  2; 3;  6;  15;
      20]).
Proof. vm_compute. reflexivity. Qed.
