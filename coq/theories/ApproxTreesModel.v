(* ApproxTreesModel.v — the tree-based approximate entry points
     include/parmcb/parmcb_approx_sva_trees.hpp   approx_mcb_sva_fvs_trees, approx_mcb_sva_iso_trees
   as ApproxModel.approx_run with the exact phase = TreesModel's acceptance model of mcb_sva_fvs_trees on the spanner.
   NOTE (as in ApproxModel.v): approx_mcb_sva_iso_trees instantiates detail::mcb_sva_fvs_trees as well; the model follows
   the code, both entry points are approx_sva_fvs_trees_Z.  Definitions only; proofs in ApproxTreesProofs1.v, statements in
   Properties_C05_trees.v / Properties_C06_trees.v. *)
From Coq Require Export ZArith.
From Parmcb Require Export ApproxModel TreesModel.

(* the exact phase: mcb_sva_fvs_trees on the spanner, as an ACCEPTED run of the acceptance model (TreesModel.v):
   `scycles` is the family the run emitted (recovered from the run in the correspondence; universally quantified in
   the theorems), `roots` / `picks` the BFS root order and the greedy_fvs pick oracle on the SPANNER graph *)
Definition fvs_trees_exact (roots picks : list nat) (scycles : list (list nat)) (h : graph) (wh : list Z)
  : sva_result Z :=
  match mcb_sva_trees_accept_Z TbFvs h wh roots picks scycles with
  | Some total => SvaOk scycles total []
  | None => SvaError 0
  end.

(* approx_mcb_sva_fvs_trees and approx_mcb_sva_iso_trees (sic: both instantiate detail::mcb_sva_fvs_trees) *)
Definition approx_sva_fvs_trees_Z (g : graph) (w : list Z) (k : nat) (scan roots picks : list nat)
           (scycles : list (list nat)) : approx_result :=
  approx_run (fvs_trees_exact roots picks scycles) g w k scan.

