(* ParSignedProofs.v — C03 for the signed variant, with NO premise about the search:
   for every simple graph with positive integer weights, every root order, every pointer order, every schedule bit
   stream and every insertion order of the initial supports, the model of mcb_sva_signed_tbb (ParSignedModel.v) returns
   SvaOk with a MINIMUM cycle basis and its total weight.

   Ingredients:
     * bidir_spec (BidirProofs4.v): what one call of bidirectional_signed_dijkstra returns;
     * the per-index facts of BidirProofsA1–A3.v (ba_av_step, ba_he_step, ba_better_update, the SearchStar lemmas): every
       answer closes to an odd closed walk of weight >= mu, the index of a minimum odd cycle C0 (a vertex of C0 / the
       pointer-order-last signed edge of C0) delivers weight mu under every limit > mu;
     * an induction over ARBITRARY schedule trees in the style of SchedProofs.reduce_global_min (section TreeInv), with the
       invariant ba_good ("every accumulator is an odd edge set of weight >= mu, a simple cycle once at mu") and the
       progress predicate ba_done ("the accumulator has weight mu"): preserved by every loop iteration, by Seq and by the
       left-biased cycle_min join of Fork, established by the distinguished index;
     * the third branch of OddCycleFinder::find, find_single_edge (signed set EMPTY, hidden = {se}, no limit), done
       directly with the SearchStar lemmas;
     * SchedProofs.mcb_sva_signed_tbb_is_sva_run: the run is SvaModel.sva_phases from a PERMUTATION of the unit vectors;
       the loop invariant of SvaProofs.v holds for every such start (perm_init_inv), so minimality, totality and the
       accumulated weight follow from SvaProofs / DePinaProofs.
   No axioms. *)
From Coq Require Import List Arith Bool ZArith Lia Sorted Permutation.
From Parmcb Require Import GraphModel GF2Model GF2Proofs GraphSpec GraphLemmas GF2Lin McbSpec DePinaSpec DePinaProofs
     ForestModel ForestProofs HeapModel SvaModel SvaSpec SvaProofs SignedModel SignedZModel SignedProofs
     RefModel RefProofs1 RefProofs2 RefProofs3 RefProofs4 RefProofs5
     BidirSpec BidirProofs4 BidirProofsA1 BidirProofsA2 BidirProofsA3
     SchedModel ParSignedModel SchedProofs.
Import ListNotations.

(* ------------------------------------------------------------------------------------------------------------------ *)
(* 1. invariants of a reduction under an arbitrary schedule tree                                                      *)
(* ------------------------------------------------------------------------------------------------------------------ *)

Section TreeInv.
  Variable A : Type.
  Variable step : nat -> A -> A.
  Variable join : A -> A -> A.
  Variable ident : A.
  Variables Good Done : A -> Prop.
  Variables lo0 hi0 i0 : nat.
  Hypothesis Hid : Good ident.
  Hypothesis Hstep : forall i a, lo0 <= i < hi0 -> Good a ->
    Good (step i a) /\ (Done a -> Done (step i a)) /\ (i = i0 -> Done (step i a)).
  Hypothesis Hjoin : forall l r, Good l -> Good r ->
    Good (join l r) /\ (Done l -> Done (join l r)) /\ (Done r -> Done (join l r)).

  Lemma ti_chunk : forall len lo a, lo0 <= lo -> lo + len <= hi0 -> Good a ->
    Good (run_chunk A step lo len a) /\ (Done a -> Done (run_chunk A step lo len a))
    /\ (lo <= i0 < lo + len -> Done (run_chunk A step lo len a)).
  Proof.
    unfold run_chunk. induction len as [|n IH]; intros lo a Hlo Hhi Ha; cbn [seq fold_left].
    - split; [exact Ha|]. split; [auto|lia].
    - destruct (Hstep lo a ltac:(lia) Ha) as (S1 & S2 & S3).
      destruct (IH (S lo) (step lo a) ltac:(lia) ltac:(lia) S1) as (I1 & I2 & I3).
      split; [exact I1|]. split; [auto|].
      intros Hi. destruct (Nat.eq_dec lo i0) as [E|E]; [auto|apply I3; lia].
  Qed.

  Lemma ti_eval : forall t lo a, lo0 <= lo -> lo + size t <= hi0 -> Good a ->
    Good (eval_reduce A step join ident t lo a) /\ (Done a -> Done (eval_reduce A step join ident t lo a))
    /\ (lo <= i0 < lo + size t -> Done (eval_reduce A step join ident t lo a)).
  Proof.
    induction t as [len|rf a IHa b IHb|rf a IHa b IHb]; intros lo x Hlo Hhi Hx; cbn [eval_reduce size] in *.
    - apply ti_chunk; assumption.
    - destruct (IHa lo x Hlo ltac:(lia) Hx) as (A1 & A2 & A3).
      destruct (IHb (lo + size a) _ ltac:(lia) ltac:(lia) A1) as (B1 & B2 & B3).
      split; [exact B1|]. split; [auto|].
      intros Hi. destruct (Nat.lt_ge_cases i0 (lo + size a)); [apply B2, A3; lia|apply B3; lia].
    - destruct (IHa lo x Hlo ltac:(lia) Hx) as (A1 & A2 & A3).
      destruct (IHb (lo + size a) ident ltac:(lia) ltac:(lia) Hid) as (B1 & B2 & B3).
      destruct (Hjoin _ _ A1 B1) as (J1 & J2 & J3).
      split; [exact J1|]. split; [auto|].
      intros Hi. destruct (Nat.lt_ge_cases i0 (lo + size a)); [apply J2, A3; lia|apply J3, B3; lia].
  Qed.
End TreeInv.

(* ------------------------------------------------------------------------------------------------------------------ *)
(* 2. the three branches of OddCycleFinder::find for a witness with a minimum odd cycle C0                           *)
(* ------------------------------------------------------------------------------------------------------------------ *)

Lemma ps_skipn_nth (l : list nat) : forall i x, nth_error l i = Some x -> skipn i l = x :: skipn (S i) l.
Proof.
  induction l as [|y l IH]; intros [|i] x H; cbn [nth_error] in H; try discriminate.
  - injection H as ->. reflexivity.
  - cbn [skipn]. rewrite (IH i x H). reflexivity.
Qed.

Lemma ps_skipn_split (pre : list nat) x post : skipn (S (length pre)) (pre ++ x :: post) = post.
Proof. induction pre as [|y pre IH]; [reflexivity|]. cbn [length app]. exact IH. Qed.

Lemma ps_par_empty l : par [] l = false.
Proof. induction l as [|e l IH]; [reflexivity|]. rewrite par_cons, IH. reflexivity. Qed.

Lemma ps_par_single_avoid se l : ~ In se l -> par [se] l = false.
Proof.
  induction l as [|e l IH]; intros H; [reflexivity|].
  rewrite par_cons, IH by (intros Hin; apply H; right; exact Hin).
  destruct (memb e [se]) eqn:E; [|reflexivity].
  apply gl_memb_In in E. destruct E as [<-|[]]. exfalso. apply H. left. reflexivity.
Qed.

Section Branches.
  Variables (g : graph) (wts : list Z) (signed : list nat) (C0 : list nat).
  Hypothesis Hs : simple_graph g.
  Hypothesis Hpw : positive_weights g wts.
  Hypothesis Hmin : min_odd_cycle g wts (odd_par signed) C0.

  Local Notation good := (ba_good g wts signed C0).
  Local Notation done := (ba_done wts C0).
  Local Notation mu := (ba_mu wts C0).

  Definition GoodR (a : racc Z) : Prop := exists b, a = Some b /\ good b.
  Definition DoneR (a : racc Z) : Prop := exists b, a = Some b /\ done b.

  Lemma ps_ident_good : GoodR (ident_err Z).
  Proof. exists None. split; [reflexivity|exact I]. Qed.

  Lemma ps_join l r : GoodR l -> GoodR r ->
    GoodR (join_err Z Z.ltb l r) /\ (DoneR l -> DoneR (join_err Z Z.ltb l r)) /\ (DoneR r -> DoneR (join_err Z Z.ltb l r)).
  Proof.
    intros (bl & -> & Hl) (br & -> & Hr). cbn [join_err].
    destruct bl as [[c1 w1]|], br as [[c2 w2]|]; cbn [cycle_min].
    - destruct Hl as (L1 & L2 & L3 & L4). destruct Hr as (R1 & R2 & R3 & R4).
      destruct (Z.ltb_spec w2 w1) as [Hlt|Hge]; cbn [negb].
      + split; [eexists; split; [reflexivity|exact (conj R1 (conj R2 (conj R3 R4)))]|]. split.
        * intros (b & E & (c & Ec)). injection E as <-. injection Ec as _ Ec. lia.
        * intros (b & E & Hd). injection E as <-. eexists; split; [reflexivity|exact Hd].
      + split; [eexists; split; [reflexivity|exact (conj L1 (conj L2 (conj L3 L4)))]|]. split.
        * intros (b & E & Hd). injection E as <-. eexists; split; [reflexivity|exact Hd].
        * intros (b & E & (c & Ec)). injection E as <-. injection Ec as _ Ec.
          eexists; split; [reflexivity|]. exists c1. f_equal. f_equal. lia.
    - split; [eexists; split; [reflexivity|exact Hl]|]. split.
      + intros (b & E & Hd). injection E as <-. eexists; split; [reflexivity|exact Hd].
      + intros (b & E & (c & Ec)). injection E as <-. discriminate.
    - split; [eexists; split; [reflexivity|exact Hr]|]. split.
      + intros (b & E & (c & Ec)). injection E as <-. discriminate.
      + intros (b & E & Hd). injection E as <-. eexists; split; [reflexivity|exact Hd].
    - split; [eexists; split; [reflexivity|exact I]|]. split; intros (b & E & (c & Ec)); injection E as <-; discriminate.
  Qed.

  (* the end of a reduction: a good accumulator of weight mu is a minimum odd cycle with its weight *)
  Lemma ps_final a : GoodR a -> DoneR a ->
    exists c w, a = Some (Some (c, w)) /\ min_odd_cycle g wts (odd_par signed) c /\ w = weight wts c.
  Proof.
    intros (b & -> & Hb) (b' & E & (c & Ec)). injection E as <-. subst b.
    exists c, mu. split; [reflexivity|]. apply (ba_good_final g wts signed C0 Hmin); [exact Hb|exists c; reflexivity].
  Qed.

  (* ---- find_all_vertices under every schedule tree ------------------------------------------------------------ *)
  Section AllV.
    Variables (s0 : nat) (q0 : list (nat * nat)).
    Hypothesis Hw0 : walk g s0 q0 s0.
    Hypothesis Hodd0 : par signed (wedges q0) = true.
    Hypothesis Hwt0 : weight wts (wedges q0) = mu.

    Lemma ps_av_step i a : 0 <= i < nv g -> GoodR a ->
      GoodR (all_vertices_step Z 0%Z Z.add Z.ltb g wts signed i a)
      /\ (DoneR a -> DoneR (all_vertices_step Z 0%Z Z.add Z.ltb g wts signed i a))
      /\ (i = s0 -> DoneR (all_vertices_step Z 0%Z Z.add Z.ltb g wts signed i a)).
    Proof.
      intros Hi (b & -> & Hb). unfold all_vertices_step. fold (ba_avP g wts signed b).
      pose proof (ba_av_step bidir_spec g wts signed C0 Hs Hpw Hmin s0 q0 Hw0 Hodd0 Hwt0 b i (proj2 Hi) Hb) as Hst.
      destruct (bidirectional_signed_dijkstra Z 0%Z Z.add Z.ltb (ba_avP g wts signed b) i true i false) as [c w| |].
      - destruct Hst as [Hc Hmu].
        destruct (ba_better_update g wts signed C0 b c w Hb Hc) as (U1 & U2 & U3). cbv zeta in U1, U2, U3.
        split; [eexists; split; [reflexivity|exact U1]|]. split.
        + intros (b' & E & Hd). injection E as <-. eexists; split; [reflexivity|auto].
        + intros Ei. eexists; split; [reflexivity|auto].
      - split; [eexists; split; [reflexivity|exact Hb]|]. split.
        + intros (b' & E & Hd). injection E as <-. eexists; split; [reflexivity|exact Hd].
        + intros Ei. eexists; split; [reflexivity|auto].
      - destruct Hst.
    Qed.

    Lemma ps_av_reduce t : size t = nv g ->
      exists c w, parallel_reduce (racc Z) (all_vertices_step Z 0%Z Z.add Z.ltb g wts signed) (join_err Z Z.ltb)
                                  (ident_err Z) t 0 = Some (Some (c, w))
                  /\ min_odd_cycle g wts (odd_par signed) c /\ w = weight wts c.
    Proof.
      intros Hsz. pose proof (gl_walk_start_lt _ _ _ _ Hs Hw0) as Hs0.
      destruct (ti_eval (racc Z) (all_vertices_step Z 0%Z Z.add Z.ltb g wts signed) (join_err Z Z.ltb) (ident_err Z)
                        GoodR DoneR 0 (nv g) s0 ps_ident_good ps_av_step ps_join t 0 (ident_err Z))
        as (G & _ & D); [lia|lia|exact ps_ident_good|].
      apply ps_final; [exact G|apply D; lia].
    Qed.
  End AllV.

  (* ---- find_less_than_vertices under every schedule tree ------------------------------------------------------ *)
  Section Hidden.
    Variables (x0 : nat) (q0 : list (nat * nat)).
    Hypothesis Hw0 : walk g x0 q0 x0.
    Hypothesis Hnd0 : NoDup (wedges q0).
    Hypothesis Hnv0 : NoDup (wverts q0).
    Hypothesis HE0 : forall e, In e C0 <-> In e (wedges q0).
    (* the signed edges in pointer order, split at the LAST one that lies on C0 *)
    Variables (sev pre : list nat) (sstar : nat) (post : list nat).
    Hypothesis Hsev : sev = pre ++ sstar :: post.
    Hypothesis Hincl : incl sev signed.
    Hypothesis Hlt : forall e, In e sev -> e < ne g.
    Hypothesis HstarC : In sstar C0.
    Hypothesis Hpost : forall e, In e post -> ~ In e C0.

    Lemma ps_he_step i a : 0 <= i < length sev -> GoodR a ->
      GoodR (hidden_step Z 0%Z Z.add Z.ltb g wts signed sev i a)
      /\ (DoneR a -> DoneR (hidden_step Z 0%Z Z.add Z.ltb g wts signed sev i a))
      /\ (i = length pre -> DoneR (hidden_step Z 0%Z Z.add Z.ltb g wts signed sev i a)).
    Proof.
      intros Hi (b & -> & Hb). unfold hidden_step.
      destruct (nth_error sev i) as [se|] eqn:En; [|apply nth_error_None in En; lia].
      pose proof (nth_error_In _ _ En) as Hin.
      destruct (ba_ends_some g se (Hlt se Hin)) as (sv & su & He). rewrite He.
      rewrite (ps_skipn_nth sev i se En). fold (ba_heP g wts signed (se :: skipn (S i) sev) b).
      pose proof (ba_he_step bidir_spec g wts signed C0 Hs Hpw Hmin x0 q0 Hw0 Hnd0 Hnv0 HE0
                             (skipn (S i) sev) b se sv su He (Hincl se Hin) Hb) as Hst.
      assert (Hat : i = length pre -> se = sstar /\ skipn (S i) sev = post).
      { intros ->. rewrite Hsev in En |- *. rewrite nth_error_app2, Nat.sub_diag in En by lia.
        cbn [nth_error] in En. injection En as <-. split; [reflexivity|].
        apply ps_skipn_split. }
      destruct (bidirectional_signed_dijkstra Z 0%Z Z.add Z.ltb (ba_heP g wts signed (se :: skipn (S i) sev) b)
                                              sv true su true) as [c w| |].
      - destruct Hst as (Hm & Hc & Hmu). rewrite Hm. change (wtof Z 0%Z wts se) with (wt wts se).
        destruct (ba_better_update g wts signed C0 b _ _ Hb Hc) as (U1 & U2 & U3). cbv zeta in U1, U2, U3.
        split; [eexists; split; [reflexivity|exact U1]|]. split.
        + intros (b' & E & Hd). injection E as <-. eexists; split; [reflexivity|auto].
        + intros Ei. destruct (Hat Ei) as [-> Epost]. eexists; split; [reflexivity|].
          apply U3, Hmu; [exact HstarC|rewrite Epost; exact Hpost].
      - split; [eexists; split; [reflexivity|exact Hb]|]. split.
        + intros (b' & E & Hd). injection E as <-. eexists; split; [reflexivity|exact Hd].
        + intros Ei. destruct (Hat Ei) as [-> Epost]. eexists; split; [reflexivity|].
          apply Hst; [exact HstarC|rewrite Epost; exact Hpost].
      - destruct Hst.
    Qed.

    Lemma ps_he_reduce t : size t = length sev ->
      exists c w, parallel_reduce (racc Z) (hidden_step Z 0%Z Z.add Z.ltb g wts signed sev) (join_err Z Z.ltb)
                                  (ident_err Z) t 0 = Some (Some (c, w))
                  /\ min_odd_cycle g wts (odd_par signed) c /\ w = weight wts c.
    Proof.
      intros Hsz.
      assert (Hlen : length pre < length sev) by (rewrite Hsev, app_length; cbn [length]; lia).
      destruct (ti_eval (racc Z) (hidden_step Z 0%Z Z.add Z.ltb g wts signed sev) (join_err Z Z.ltb) (ident_err Z)
                        GoodR DoneR 0 (length sev) (length pre) ps_ident_good ps_he_step ps_join t 0 (ident_err Z))
        as (G & _ & D); [lia|lia|exact ps_ident_good|].
      apply ps_final; [exact G|apply D; lia].
    Qed.
  End Hidden.
End Branches.

(* ---- find_single_edge: the witness has exactly one signed edge se; the search runs with an EMPTY signed set ------- *)
Section Single.
  Variables (g : graph) (wts : list Z) (se : nat) (C0 : list nat).
  Hypothesis Hs : simple_graph g.
  Hypothesis Hpw : positive_weights g wts.
  Hypothesis Hse : se < ne g.
  Hypothesis Hmin : min_odd_cycle g wts (odd_par [se]) C0.

  Definition ps_sgP : sparams Z :=
    {| sp_g := g; sp_wts := wts; sp_signed := []; sp_hidden := [se]; sp_use_hidden := true; sp_limit := None |}.

  Lemma ps_sg_close sv su p : ends g se = Some (sv, su) ->
    cwalk ps_sgP (signed_id (nv g) sv true) p (signed_id (nv g) su true) ->
    (exists x q, walk g x q x /\ wedges q = wedges p ++ [se] /\ par [se] (wedges q) = true) /\ ~ In se (wedges p).
  Proof.
    intros He Hc. destruct (gl_simple_ends g se sv su Hs He) as (Hsv & Hsu & _).
    destruct (ba_cwalk_proj _ _ _ _ Hc) as (Hw & _ & Hh).
    cbn [ps_sgP sp_g sp_use_hidden sp_hidden] in Hw, Hh.
    rewrite !sg_vertex_of_signed_id in Hw by assumption.
    assert (Hav : ~ In se (wedges p)).
    { intros Hin. specialize (Hh eq_refl se Hin). apply gl_memb_false in Hh. apply Hh. left. reflexivity. }
    split; [|exact Hav].
    exists sv, (ba_proj (nv g) p ++ [(se, sv)]). split.
    - eapply gl_walk_app; [exact Hw|]. econstructor; [right; exact He|]. constructor. exact Hsv.
    - rewrite sg_wedges_app, ba_proj_wedges. split; [reflexivity|].
      rewrite par_app, (ps_par_single_avoid se _ Hav). cbn [wedges map fst]. rewrite par_cons, par_nil.
      cbn [memb existsb]. rewrite Nat.eqb_refl. reflexivity.
  Qed.

  Lemma ps_sg_inC0 : In se C0.
  Proof.
    destruct Hmin as (_ & Hodd & _). destruct (ba_par_true_ex [se] C0 Hodd) as (e & HeC & [<-|[]]). exact HeC.
  Qed.

  Lemma ps_sg_star sv su : ends g se = Some (sv, su) ->
    exists pstar, cwalk ps_sgP (signed_id (nv g) sv true) pstar (signed_id (nv g) su true)
                  /\ (clen ps_sgP pstar + weight wts [se] = ba_mu wts C0)%Z.
  Proof.
    intros He.
    destruct (ba_C0_walk g wts [se] C0 Hmin) as (x0 & q0 & Hw0 & Hnd0 & Hnv0 & HE0 & _ & _).
    destruct (rf_canonical g x0 q0 se sv su Hs Hw0 Hnd0 Hnv0 (proj1 (HE0 se) ps_sg_inC0) He)
      as (r & Hwr & Hndr & _ & HEr).
    pose proof (rf_revw_walk g Hs r su sv Hwr) as Hwr'.
    pose proof (rf_revw_edges r su) as Er'.
    assert (Hperm : Permutation C0 (se :: wedges r)).
    { destruct Hmin as ((_ & Sc & _) & _).
      apply NoDup_Permutation; [apply gl_sorted_NoDup; exact Sc|exact Hndr|].
      intros e. rewrite HE0. apply HEr. }
    assert (Hwtr : (wt wts se + weight wts (wedges r) = ba_mu wts C0)%Z).
    { unfold ba_mu. rewrite (rf_weight_perm wts _ _ Hperm), rf_weight_cons. reflexivity. }
    destruct (ba_lift_id ps_sgP Hs sv (revw su r) su true Hwr') as (p & Hc & Ew).
    - cbn [ps_sgP sp_use_hidden sp_hidden]. intros _ e Hin. rewrite Er' in Hin. apply in_rev in Hin.
      apply gl_memb_false. intros [<-|[]]. inversion Hndr as [|? ? Hx _]; subst. apply Hx. exact Hin.
    - cbn [ps_sgP sp_g sp_signed] in Hc. rewrite ps_par_empty in Hc. cbn [xorb] in Hc.
      exists p. split; [exact Hc|]. unfold clen. cbn [ps_sgP sp_wts]. rewrite Ew, Er'.
      rewrite (rf_weight_perm wts (rev (wedges r)) (wedges r)) by (apply Permutation_sym, Permutation_rev).
      rewrite rf_weight_cons. change (weight wts []) with 0%Z. lia.
  Qed.

  Lemma ps_single :
    exists c w, find_single_edge Z 0%Z Z.add Z.ltb g wts se = Some (Some (c, w))
                /\ min_odd_cycle g wts (odd_par [se]) c /\ w = weight wts c.
  Proof.
    unfold find_single_edge. destruct (ba_ends_some g se Hse) as (sv & su & He). rewrite He.
    fold ps_sgP.
    destruct (gl_simple_ends g se sv su Hs He) as (Hsv & Hsu & Hvu).
    assert (Hne : signed_id (nv g) sv true <> signed_id (nv g) su true) by (unfold signed_id; exact Hvu).
    pose proof (bidir_spec ps_sgP sv true su true Hs Hpw Hsv Hsu Hne) as H.
    cbn [ps_sgP sp_g] in H. fold ps_sgP in H.
    assert (Hcl : (weight wts [se] = wt wts se)%Z) by (rewrite rf_weight_cons; change (weight wts []) with 0%Z; lia).
    pose proof (rf_wt_nonneg g wts se Hpw) as Hwse.
    destruct (ps_sg_star sv su He) as (pstar & Hstar & Hstarw).
    pose proof (fun p' Hc' => proj1 (ps_sg_close sv su p' He Hc')) as Hclose.
    destruct (bidirectional_signed_dijkstra Z 0%Z Z.add Z.ltb ps_sgP sv true su true) as [c w| |].
    - destruct H as (p & Hsp & Hnd & Sc & HE & Hw1 & Hw2 & _). cbn [ps_sgP sp_wts] in Hw2.
      destruct (ps_sg_close sv su p He (proj1 Hsp)) as ((x & q & Hwq & Ew & Hodd) & Hnin).
      assert (Hninc : ~ In se c) by (intros Hin; apply Hnin, HE, Hin).
      assert (Hm : memb se c = false) by (apply gl_memb_false; exact Hninc). rewrite Hm.
      change (wtof Z 0%Z wts se) with (wt wts se).
      assert (Hndq : NoDup (wedges q)).
      { rewrite Ew. apply gl_NoDup_app; [exact Hnd|repeat constructor; intros []|].
        intros e Hin [<-|[]]. exact (Hnin Hin). }
      assert (HEq : forall e, In e (set_insert se c) <-> In e (wedges q)).
      { intros e. rewrite sg_set_insert_In, Ew, in_app_iff, HE. cbn [In]. intuition. }
      pose proof (set_insert_sorted se c Sc) as Sc'.
      assert (Hwi : weight wts (set_insert se c) = (w + wt wts se)%Z).
      { rewrite (rf_weight_perm wts (set_insert se c) (wedges q)).
        - rewrite Ew, rf_weight_app, Hcl, Hw1. unfold clen. cbn [ps_sgP sp_wts]. reflexivity.
        - apply NoDup_Permutation; [apply gl_sorted_NoDup; exact Sc'|exact Hndq|exact HEq]. }
      pose proof (ba_closed_walk_good g wts [se] C0 Hs Hpw Hmin x q _ Hwq Hndq Hodd Sc' HEq) as Hgood.
      rewrite Hwi in Hgood.
      pose proof (ba_star_shortest g wts [se] C0 Hs Hpw Hmin ps_sgP _ _ [se] eq_refl Hclose pstar Hstar Hstarw p Hsp) as E.
      rewrite Hcl, <- Hw1 in E.
      exists (set_insert se c), (w + wt wts se)%Z. split; [reflexivity|].
      apply (ba_good_final g wts [se] C0 Hmin); [exact Hgood|]. exists (set_insert se c). rewrite E. reflexivity.
    - exfalso.
      assert (Hd : ba_done wts C0 None).
      { eapply (ba_star_notfound g wts [se] C0 Hs Hpw Hmin ps_sgP _ _ [se] None eq_refl eq_refl I Hclose);
          [lia|exact Hstar|exact Hstarw|exact H]. }
      destruct Hd as (c & Ec). discriminate.
    - destruct H.
  Qed.
End Single.

(* ------------------------------------------------------------------------------------------------------------------ *)
(* 3. OddCycleFinder::find on a canonical witness, at every stream position                                           *)
(* ------------------------------------------------------------------------------------------------------------------ *)

Section Find.
  Variables (eord : nat -> nat) (bits : list bool) (g : graph) (wts : list Z) (roots : list nat) (fi : forest_index).
  Hypothesis Hs : simple_graph g.
  Hypothesis Hpw : positive_weights g wts.
  Hypothesis Hr : forall v, v < nv g -> In v roots.
  Hypothesis Hci : create_index g roots = Some fi.

  (* the two reductions, for any signed set that admits an odd simple cycle *)
  Lemma ps_find_reduce signed pos : (forall e, In e signed -> e < ne g) ->
    (exists C0, min_odd_cycle g wts (odd_par signed) C0) ->
    exists c w,
      fst (if Nat.leb (nv g) (length signed) then
             let (t, pos') := sched_of_bits bits pos (nv g) in
             (parallel_reduce (racc Z) (all_vertices_step Z 0%Z Z.add Z.ltb g wts signed) (join_err Z Z.ltb) (ident_err Z) t 0, pos')
           else
             let sev := sort_eord eord signed in
             let (t, pos') := sched_of_bits bits pos (length sev) in
             (parallel_reduce (racc Z) (hidden_step Z 0%Z Z.add Z.ltb g wts signed sev) (join_err Z Z.ltb) (ident_err Z) t 0, pos'))
      = Some (Some (c, w))
      /\ min_odd_cycle g wts (odd_par signed) c /\ w = weight wts c.
  Proof.
    intros Hlt (C0 & Hmin).
    destruct (ba_C0_walk g wts signed C0 Hmin) as (x0 & q0 & Hw0 & Hnd0 & Hnv0 & HE0 & Hodd0 & Hwt0).
    destruct (Nat.leb (nv g) (length signed)).
    - destruct (sched_of_bits bits pos (nv g)) as [t pos'] eqn:E. cbn [fst].
      apply (ps_av_reduce g wts signed C0 Hs Hpw Hmin x0 q0 Hw0 Hodd0 Hwt0).
      pose proof (sched_of_bits_size bits pos (nv g)) as Hsz. rewrite E in Hsz. exact Hsz.
    - cbv zeta. destruct (sched_of_bits bits pos (length (sort_eord eord signed))) as [t pos'] eqn:E. cbn [fst].
      assert (Hdec : exists pre sstar post, sort_eord eord signed = pre ++ sstar :: post /\ In sstar C0
                                            /\ forall e, In e post -> ~ In e C0).
      { destruct Hmin as (_ & Hodd & _). destruct (ba_par_true_ex signed C0 Hodd) as (e & HeC & Hes).
        destruct (ba_last_sat (fun a => memb a C0) (sort_eord eord signed)) as (pre & s & post & E' & H1 & H2).
        - exists e. split; [apply ba_sort_eord_In; exact Hes|apply gl_memb_In; exact HeC].
        - exists pre, s, post. split; [exact E'|]. split; [apply gl_memb_In; exact H1|].
          intros a Ha. apply gl_memb_false, H2, Ha. }
      destruct Hdec as (pre & sstar & post & Esev & HstarC & Hpost).
      apply (ps_he_reduce g wts signed C0 Hs Hpw Hmin x0 q0 Hw0 Hnd0 Hnv0 HE0
                          (sort_eord eord signed) pre sstar post Esev).
      + apply sort_eord_incl.
      + intros e He. apply Hlt. apply (sort_eord_incl eord signed). exact He.
      + exact HstarC.
      + exact Hpost.
      + pose proof (sched_of_bits_size bits pos (length (sort_eord eord signed))) as Hsz. rewrite E in Hsz. exact Hsz.
  Qed.

  Theorem ps_find_opt S pos : canonical_witness fi S ->
    exists c w, fst (find Z 0%Z Z.add Z.ltb eord bits g wts fi S pos) = Some (Some (c, w))
                /\ min_odd_cycle g wts (fun D => pairing fi S D = true) c /\ w = weight wts c.
  Proof.
    intros (SS & Sne & BS).
    set (signed := indices_to_edges fi S).
    destruct (rf_index_bij g roots fi Hs Hr Hci) as (_ & HB & Hcm).
    assert (Hlt : forall e, In e signed -> e < ne g).
    { intros e He. unfold signed, indices_to_edges in He. apply rf_set_of_list_In, in_map_iff in He.
      destruct He as (i & <- & Hi). specialize (BS i Hi). destruct (HB i) as [Hlt _]; [lia|exact Hlt]. }
    assert (Hex : exists D, simple_cycle g D /\ odd_par signed D).
    { destruct (rf_odd_cycle_exists g roots fi S Hs Hr Hci SS Sne BS) as (D & HD & HoD).
      exists D. split; [exact HD|]. unfold odd_par. rewrite ba_par_oddb. exact HoD. }
    assert (Hbr : forall D, simple_cycle g D -> pairing fi S D = par signed D).
    { intros D HD. destruct (rf_simple_cycle_edges g D HD) as (HDs & HDb).
      rewrite ba_par_oddb. eapply rf_bridge; eauto. }
    pose proof (ba_min_odd_exists g wts signed Hs Hpw Hex) as HC0.
    assert (Hres : exists c w, fst (find Z 0%Z Z.add Z.ltb eord bits g wts fi S pos) = Some (Some (c, w))
                               /\ min_odd_cycle g wts (odd_par signed) c /\ w = weight wts c).
    { unfold find. fold signed.
      pose proof (ps_find_reduce signed pos Hlt HC0) as Hgen.
      destruct signed as [|se [|se2 rest]] eqn:Esg.
      - exact Hgen.
      - cbn [fst]. destruct HC0 as (C0 & Hmin).
        apply (ps_single g wts se C0 Hs Hpw); [apply Hlt; left; reflexivity|exact Hmin].
      - exact Hgen. }
    destruct Hres as (c & w & Er & (Hc & Hoc & Hm) & Hw).
    exists c, w. split; [exact Er|]. split; [|exact Hw]. split; [exact Hc|]. split.
    - rewrite Hbr by exact Hc. exact Hoc.
    - intros D HD HoD. apply Hm; [exact HD|]. unfold odd_par. rewrite <- Hbr by exact HD. exact HoD.
  Qed.
End Find.

(* ------------------------------------------------------------------------------------------------------------------ *)
(* 4. the loop from a permuted unit basis                                                                              *)
(* ------------------------------------------------------------------------------------------------------------------ *)

Lemma ps_noexit_range sup lo hi : forall rs cur,
  lo <= cur < hi -> (forall r, In r rs -> lo <= r < hi) -> lo <= min_support_noexit sup cur rs < hi.
Proof.
  induction rs as [|r rs IH]; intros cur Hc Hrs; [exact Hc|].
  cbn [min_support_noexit]. apply IH.
  - destruct (length (nth r sup []) <? length (nth cur sup [])); [apply Hrs; left; reflexivity|exact Hc].
  - intros r' Hr'. apply Hrs. right. exact Hr'.
Qed.

Lemma select_min_support_tbb_ok csd : select_ok csd (select_min_support_tbb csd).
Proof.
  intros k sup Hk _. unfold select_min_support_tbb. apply ps_noexit_range; [lia|].
  intros r Hr. apply in_seq in Hr. lia.
Qed.

(* which single coordinate a row holds *)
Definition ps_is_unit (j : nat) (row : vec) : bool := match row with [x] => Nat.eqb x j | _ => false end.

(* the invariant of SvaProofs at phase 0 holds for EVERY permutation of the unit vectors *)
Lemma perm_init_inv fi W (search : nat -> vec -> phase_result W) (init : list vec) :
  Permutation init (map (fun i => [i]) (seq 0 (fi_csd fi))) -> sva_inv fi W search 0 init [].
Proof.
  intros Hperm. set (N := fi_csd fi) in *.
  assert (Hlen : length init = N) by (rewrite (Permutation_length Hperm), map_length, seq_length; reflexivity).
  assert (Hrow : forall i, i < N -> exists j, j < N /\ nth i init [] = [j]).
  { intros i Hi. assert (Hin : In (nth i init []) init) by (apply nth_In; lia).
    apply (Permutation_in _ Hperm), in_map_iff in Hin. destruct Hin as (j & Ej & Hj). apply in_seq in Hj.
    exists j. split; [lia|symmetry; exact Ej]. }
  assert (Hcol : forall j, j < N -> exists i, i < N /\ nth i init [] = [j]).
  { intros j Hj. assert (Hin : In [j] init).
    { apply (Permutation_in _ (Permutation_sym Hperm)), in_map_iff. exists j. split; [reflexivity|apply in_seq; lia]. }
    apply (In_nth _ _ []) in Hin. destruct Hin as (i & Hi & Ei). exists i. split; [rewrite <- Hlen; exact Hi|exact Ei]. }
  assert (Hnd : NoDup init).
  { apply (Permutation_NoDup (Permutation_sym Hperm)). apply FinFun.Injective_map_NoDup; [|apply seq_NoDup].
    intros a b E. injection E as ->. reflexivity. }
  assert (Hinj : forall i i', i < N -> i' < N -> nth i init [] = nth i' init [] -> i = i').
  { intros i i' Hi Hi' E. apply (proj1 (NoDup_nth init []) Hnd); lia || exact E. }
  split.
  - lia.
  - exact Hlen.
  - reflexivity.
  - intros i Hi. destruct (Hrow i Hi) as (j & _ & ->). apply sorted_single.
  - intros i Hi. destruct (Hrow i Hi) as (j & Hj & ->). constructor; [exact Hj|constructor].
  - intros v Sv Bv Hv. apply mem_nil_eq. intros j.
    destruct (Nat.lt_ge_cases j N) as [Hj|Hj].
    + destruct (Hcol j Hj) as (i & Hi & Ei). specialize (Hv i Hi). rewrite Ei, vdot_unit_l in Hv by assumption. exact Hv.
    + destruct (mem v j) eqn:E; [|reflexivity]. apply mem_In in E.
      unfold bounded in Bv. rewrite Forall_forall in Bv. apply Bv in E. lia.
  - intros t.
    set (f := fun j => existsb (fun i => ps_is_unit j (nth i init []) && t i) (seq 0 N)).
    exists (filter f (seq 0 N)). split; [apply filter_sorted, sorted_seq|].
    intros i Hi. destruct (Hrow i Hi) as (j & Hj & Ei). rewrite Ei.
    rewrite vdot_unit_l by apply filter_sorted, sorted_seq. rewrite mem_filter.
    assert (Hm : mem (seq 0 N) j = true) by (apply mem_In, in_seq; lia). rewrite Hm. cbn [andb].
    unfold f. destruct (t i) eqn:Et.
    + apply existsb_exists. exists i. split; [apply in_seq; lia|]. rewrite Ei, Et. cbn [ps_is_unit]. rewrite Nat.eqb_refl. reflexivity.
    + destruct (existsb _ (seq 0 N)) eqn:Ex; [|reflexivity].
      apply existsb_exists in Ex. destruct Ex as (i' & Hi' & Hb). apply in_seq in Hi'.
      apply andb_true_iff in Hb. destruct Hb as [Hu Ht].
      destruct (Hrow i' ltac:(lia)) as (j' & _ & Ei'). rewrite Ei' in Hu. cbn [ps_is_unit] in Hu.
      apply Nat.eqb_eq in Hu. subst j'.
      assert (i = i') by (apply Hinj; [lia|lia|congruence]). subst i'. congruence.
  - intros j Hj. lia.
  - intros i j _ Hi. lia.
Qed.

(* ------------------------------------------------------------------------------------------------------------------ *)
(* 5. the entry point                                                                                                  *)
(* ------------------------------------------------------------------------------------------------------------------ *)

Theorem signed_tbb_min_basis :
  forall (g : graph) (wts : list Z) (roots eord : list nat) (bits : list bool) (perm : list nat),
    simple_graph g -> positive_weights g wts -> (forall v, v < nv g -> In v roots) ->
    exists cycles total sup pos,
      mcb_sva_signed_tbb_Z g wts roots eord bits perm = (SvaOk cycles total sup, pos)
      /\ min_cycle_basis g wts cycles /\ total = total_weight wts cycles
      /\ has_cycle_space_dimension g (length cycles).
Proof.
  intros g wts roots eord bits perm Hs Hpw Hr.
  destruct (create_index_correct g roots Hs Hr) as (fi & Hci & _).
  set (eo := fun e => nth e eord 0).
  destruct (mcb_sva_signed_tbb_is_sva_run Z 0%Z Z.add Z.ltb eo bits g wts fi perm roots fi Hci eq_refl)
    as (init & search & Hperm & Hrun & Hans).
  set (sel := select_min_support_tbb (fi_csd fi)) in *.
  assert (Hsel : select_ok (fi_csd fi) sel) by apply select_min_support_tbb_ok.
  assert (Hmin : search_min_c g wts fi search).
  { intros k S c w HS E. destruct (Hans k S) as (p & Ep). rewrite Ep in E.
    destruct (ps_find_opt eo bits g wts roots fi Hs Hpw Hr Hci S p HS) as (c' & w' & Ef & Hm & Hw).
    rewrite Ef in E. cbn [to_phase] in E. injection E as <- <-. split; assumption. }
  assert (Htot : search_total fi search).
  { intros k S SS Sne BS. destruct (Hans k S) as (p & Ep).
    destruct (ps_find_opt eo bits g wts roots fi Hs Hpw Hr Hci S p (conj SS (conj Sne BS))) as (c & w & Ef & _).
    exists c, w. rewrite Ep, Ef. reflexivity. }
  pose proof (search_min_c_sound g wts fi search Hs Hmin) as Hsnd.
  pose proof (perm_init_inv fi Z search init Hperm) as I0.
  destruct (sva_phases_total g fi Z Z.add sel search Hsnd Hsel Htot (fi_csd fi) 0 init [] 0%Z eq_refl I0)
    as (cycles & total & sup & Hrun2).
  pose proof (sva_phases_inv g fi Z Z.add sel search Hsnd Hsel (fi_csd fi) 0 init [] 0%Z cycles total sup eq_refl I0 Hrun2) as I.
  destruct (sva_inv_final g roots fi Hs Hr Hci Z search Hsnd sup cycles I) as (Hl & Hd & HV & HT & Hnd).
  destruct HT as (HTl & HTd & HTlow).
  unfold mcb_sva_signed_tbb_Z. fold eo.
  destruct (mcb_sva_signed_tbb Z 0%Z Z.add Z.ltb eo bits perm g wts roots) as [r pos] eqn:Er.
  assert (Er' : r = SvaOk cycles total sup) by (cbn [fst] in Hrun; rewrite Hrun; exact Hrun2). subst r.
  exists cycles, total, sup, pos. split; [reflexivity|]. split; [|split; [|exact Hd]].
  - apply depina_min_basis_moc with (pair := pairing fi) (Ss := sup); auto.
    + apply (pairing_linear_cs g roots fi Hs Hr Hci).
    + intros k Hk. assert (Hk' : k < fi_csd fi) by (rewrite <- Hl; exact Hk).
      destruct (inv_found _ _ _ _ _ _ I k Hk') as (w & Hsr).
      apply (Hmin _ _ _ _ (sva_inv_row _ _ _ _ _ _ k I Hk') Hsr).
  - assert (Hw : forall k S c w, canonical_witness fi S -> search k S = PFound c w -> w = weight wts c)
      by (intros k S c w HS Hsr; apply (Hmin _ _ _ _ HS Hsr)).
    exact (sva_phases_weight g wts sel search fi Hsel Hsnd Hw (fi_csd fi) 0 init [] 0%Z cycles total sup
             eq_refl I0 Hrun2 eq_refl).
Qed.

Print Assumptions signed_tbb_min_basis.
