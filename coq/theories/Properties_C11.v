(* Properties_C11.v — "Demo programs gate bad input, terminate, and print the library's result".
   Only statements; each closed by [exact <lemma>] and followed by Print Assumptions.

   Model: DemoModel.v (mains of src/mcb-dimacs.cpp, src/approx-mcb-dimacs.cpp, src/collection-stats-dimacs.cpp,
   src/mcb-dimacs-mpi.cpp as functions of the parsed options, the verdicts of the three validators, the results of the
   library entry points and, under MPI, P and the rank).  [demo_mpi_orig] is the MPI program as found (defect D7),
   [demo_mpi] the program after pending/c11-fix-mpi-gate.patch; which of the two the working tree behaves like is
   decided at run time by tools/props/c11.py.

   What the theorems do NOT cover (runtime evidence of the check only, hence "partial"): the process plumbing (argv
   parsing by boost::program_options, fopen, mpiexec), that the library entry points return on valid graphs (C01-C04,
   C05/C06), and real-time termination; the lock-step MPI semantics in the header of DemoModel.v is an assumption.
   "printed = result of the selected entry point": that this result is the weight of a minimum cycle basis is C02/C03/C04
   (C05/C06: within [opt, (2k-1) opt] for the approximate entry points) and is inherited, not restated here. *)
From Coq Require Import ZArith List Bool.
From Parmcb Require Import DemoModel DemoProofs.
Import ListNotations.
Local Open Scope Z_scope.

(* ---- gate, sequential programs -------------------------------------------------------------------------------------- *)

(* Invalid graph (a self-loop, parallel edges or a non-positive weight — any combination), EVERY option record (all
   boolean options, every --k, every --cores, a command line that does not parse, a missing or unreadable file ...)
   except that --help was not requested: non-zero exit status, a diagnostic, no library entry point called and no
   algorithm line ("Using ...", "MCB weight", statistics ...) on stdout — for each of the three programs. *)
Theorem C11_gate :
  forall (W : Type) (run : call -> W) (o : opts) (v : verdicts), invalid v -> o_help o = false ->
  gate_holds (demo_mcb run o v) /\ gate_holds (demo_approx run o v) /\ gate_holds (demo_stats run o v).
Proof. exact gate_all. Qed.
Print Assumptions C11_gate.

(* ... and with --help as well nothing of an algorithm happens on an invalid graph (usage text, status 0). *)
Theorem C11_gate_any_options :
  forall (W : Type) (run : call -> W) (o : opts) (v : verdicts), invalid v ->
  no_algorithm (demo_mcb run o v) /\ no_algorithm (demo_approx run o v) /\ no_algorithm (demo_stats run o v).
Proof. exact gate_all_no_algorithm. Qed.
Print Assumptions C11_gate_any_options.

(* On a runnable command line the outcome is exactly EXIT_FAILURE with the diagnostic of the FIRST violated
   precondition in the order loops, multiple edges, weights, and an empty stdout. *)
Theorem C11_gate_exact :
  forall (W : Type) (run : call -> W) (o : opts) (v : verdicts), invalid v -> runnable o ->
  demo_mcb run o v = fail (gate_diag v) [] /\ demo_approx run o v = fail (gate_diag v) [] /\
  demo_stats run o v = fail (gate_diag v) [] /\ gate_diag v <> DNone.
Proof. exact gate_exact. Qed.
Print Assumptions C11_gate_exact.

(* ---- gate, MPI program ---------------------------------------------------------------------------------------------- *)

(* Defect D7: the program as found — there are options, an invalid graph, P and a rank < P such that this rank never
   terminates: it waits in the collective of mcb_sva_signed_mpi, which it entered on the INVALID graph. *)
Theorem C11_mpi_orig_refuted :
  exists (o : opts) (v : verdicts) (P rank : nat),
  invalid v /\ runnable o /\ (rank < P)%nat /\
  forall (W : Type) (run : call -> W), terminates (demo_mpi_orig run o v P rank) = false /\
                                       demo_mpi_orig run o v P rank = Deadlock (CallMpi Signed) [LProcessor].
Proof. exact mpi_orig_refuted. Qed.
Print Assumptions C11_mpi_orig_refuted.

(* ... in fact for EVERY runnable command line, every invalid graph and every P >= 2 no process of the job terminates:
   rank 0 wrote the diagnostic, returned from main and waits in MPI_Finalize, every other rank waits inside the entry
   point selected by the options. *)
Theorem C11_mpi_orig_hangs :
  forall (W : Type) (run : call -> W) (o : opts) (v : verdicts) (P rank : nat),
  invalid v -> runnable o -> (2 <= P)%nat -> (rank < P)%nat ->
  (rank = 0%nat -> demo_mpi_orig run o v P rank = FinalizeWait (fail (gate_diag v) [LProcessor])) /\
  (rank <> 0%nat -> demo_mpi_orig run o v P rank = Deadlock (CallMpi (priority o)) [LProcessor]).
Proof. exact mpi_orig_hangs. Qed.
Print Assumptions C11_mpi_orig_hangs.

(* With a single process the program as found does gate. *)
Theorem C11_mpi_orig_single :
  forall (W : Type) (run : call -> W) (o : opts) (v : verdicts), invalid v -> o_help o = false ->
  exists r, demo_mpi_orig run o v 1 0 = Exited r /\ o_status r <> 0 /\ o_diag r <> DNone /\ no_algorithm r.
Proof. exact mpi_orig_single. Qed.
Print Assumptions C11_mpi_orig_single.

(* The repaired program: for every number of processes P and every rank (the statement does not even need rank < P),
   every option record without --help: the process terminates with a non-zero status, has called no entry point (no
   collective entered) and printed no algorithm line; rank 0 has written a diagnostic. *)
Theorem C11_mpi_gate :
  forall (W : Type) (run : call -> W) (o : opts) (v : verdicts) (P rank : nat), invalid v -> o_help o = false ->
  exists r, demo_mpi run o v P rank = Exited r /\ o_status r <> 0 /\ no_algorithm r /\ (rank = 0%nat -> o_diag r <> DNone).
Proof. exact mpi_gate_fixed. Qed.
Print Assumptions C11_mpi_gate.

(* ... and with --help, too, every rank terminates without calling anything. *)
Theorem C11_mpi_gate_terminates :
  forall (W : Type) (run : call -> W) (o : opts) (v : verdicts) (P rank : nat), invalid v ->
  exists r, demo_mpi run o v P rank = Exited r /\ no_algorithm r.
Proof. exact mpi_gate_fixed_terminates. Qed.
Print Assumptions C11_mpi_gate_terminates.

(* ---- dispatch on valid graphs ---------------------------------------------------------------------------------------- *)

(* Valid graph, runnable command line, every combination of the boolean options and every --cores / --k:
   status 0, no diagnostic, exactly the entry point given by the priority signed > fvstrees > isotrees and by --parallel is
   called, it is announced, and the ONLY "MCB weight" line carries the value this entry point returned.
   approx-mcb-dimacs: provided k (converted to std::size_t) exceeds 1, the entry point is called with that k; otherwise
   the program stops after the size lines with the k-diagnostic.  collection-stats-dimacs: runs the three builders. *)
Theorem C11_dispatch :
  forall (W : Type) (run : call -> W) (o : opts) (v : verdicts), valid v -> runnable o ->
  dispatch_ok run (demo_mcb run o v) (CallMcb (priority o) (o_parallel o)) /\
  (1 < size_t_of_int (o_k o) ->
   dispatch_ok run (demo_approx run o v) (CallApprox (priority o) (o_parallel o) (size_t_of_int (o_k o)))) /\
  (size_t_of_int (o_k o) <= 1 -> demo_approx run o v = fail DBadK [LSize]) /\
  demo_stats run o v = {| o_status := 0; o_diag := DNone; o_run := Some CallStats; o_out := [LSize; LStats] |}.
Proof. exact dispatch_all. Qed.
Print Assumptions C11_dispatch.

(* which --k values (C++ int) pass the `k <= 1` test after the conversion to std::size_t: k >= 2 — and every negative k,
   which wraps around to 2^64 + k (the demo then announces and uses that huge k; reported as an observation) *)
Theorem C11_approx_k_accepted :
  forall k : Z, - 2 ^ 31 <= k < 2 ^ 31 -> (1 < size_t_of_int k <-> (2 <= k \/ k < 0)).
Proof. exact size_t_of_int_accepts. Qed.
Print Assumptions C11_approx_k_accepted.

(* options that do not enter the priority (verbose, printcycles, cores, isotrees, k) do not change the entry point nor
   the printed weight of mcb-dimacs *)
Theorem C11_dispatch_only_priority :
  forall (W : Type) (run : call -> W) (o o' : opts) (v : verdicts), valid v -> runnable o -> runnable o' ->
  priority o = priority o' -> o_parallel o = o_parallel o' ->
  o_run (demo_mcb run o v) = o_run (demo_mcb run o' v) /\ printed_weights (demo_mcb run o v) = printed_weights (demo_mcb run o' v).
Proof. exact dispatch_mcb_only_priority. Qed.
Print Assumptions C11_dispatch_only_priority.

(* MPI program (repaired; on valid graphs identical to the program as found, next theorem): every rank of every job size
   terminates with status 0 having called the entry point given by the priority; rank 0 announces it and prints exactly
   one weight line with the value the entry point returned to it; the other ranks print their processor line only. *)
Theorem C11_mpi_dispatch :
  forall (W : Type) (run : call -> W) (o : opts) (v : verdicts) (P rank : nat), valid v -> runnable o ->
  let c := CallMpi (priority o) in
  exists r, demo_mpi run o v P rank = Exited r /\ o_status r = 0 /\ o_diag r = DNone /\ o_run r = Some c /\
            (rank = 0%nat -> printed_weights r = [LWeight (run c)] /\ In (LUsingAlgo c) (o_out r)) /\
            (rank <> 0%nat -> o_out r = [LProcessor]).
Proof. exact mpi_dispatch_fixed. Qed.
Print Assumptions C11_mpi_dispatch.

Theorem C11_mpi_orig_eq_fixed_on_valid :
  forall (W : Type) (run : call -> W) (o : opts) (v : verdicts) (P rank : nat), valid v -> runnable o ->
  demo_mpi_orig run o v P rank = demo_mpi run o v P rank.
Proof. exact mpi_orig_eq_fixed_valid. Qed.
Print Assumptions C11_mpi_orig_eq_fixed_on_valid.

(* ---- non-vacuity ------------------------------------------------------------------------------------------------------ *)

(* the hypotheses are satisfiable and the conclusions concrete: default options on a graph with a self-loop ... *)
Example C11_gate_nonvacuous :
  invalid v_loop /\ runnable default_opts /\
  demo_mcb (fun _ => 0) default_opts v_loop = fail DLoops [] /\
  demo_mpi (fun _ => 0) default_opts v_loop 3 2 = Exited (fail DNone [LProcessor]) /\
  demo_mpi (fun _ => 0) default_opts v_loop 3 0 = Exited (fail DLoops [LProcessor]) /\
  demo_mpi_orig (fun _ => 0) default_opts v_loop 3 2 = Deadlock (CallMpi Signed) [LProcessor] /\
  demo_mpi_orig (fun _ => 0) default_opts v_loop 3 0 = FinalizeWait (fail DLoops [LProcessor]).
Proof. repeat split; try reflexivity. left; reflexivity. Qed.

(* ... several violations at once: the first test in source order wins *)
Example C11_gate_order_nonvacuous :
  demo_stats (fun _ => 0) default_opts {| v_loops := false; v_multi := true; v_nonpos := true |} = fail DMulti [].
Proof. reflexivity. Qed.

(* ... a valid graph with contradictory algorithm options: --signed true --fvstrees true selects the signed algorithm;
   --signed false --fvstrees true --parallel false the sequential FVS one, whose result (here 42) is what is printed *)
Example C11_dispatch_nonvacuous :
  valid v_ok /\ runnable default_opts /\
  let run := fun c => match c with CallMcb FvsTrees false => 42 | _ => 7 end in
  let o1 := {| o_parse_error := false; o_help := false; o_input_given := true; o_file_opens := true; o_verbose := true;
               o_k := 2; o_signed := true; o_fvstrees := true; o_isotrees := true; o_parallel := true;
               o_printcycles := false; o_cores := 3 |} in
  let o2 := {| o_parse_error := false; o_help := false; o_input_given := true; o_file_opens := true; o_verbose := false;
               o_k := 2; o_signed := false; o_fvstrees := true; o_isotrees := false; o_parallel := false;
               o_printcycles := true; o_cores := 0 |} in
  demo_mcb run o1 v_ok = {| o_status := 0; o_diag := DNone; o_run := Some (CallMcb Signed true);
                            o_out := [LSize; LUsingAlgo (CallMcb Signed true); LWeight 7; LTime] |} /\
  demo_mcb run o2 v_ok = {| o_status := 0; o_diag := DNone; o_run := Some (CallMcb FvsTrees false);
                            o_out := [LSize; LUsingAlgo (CallMcb FvsTrees false); LWeight 42; LCycles] |}.
Proof. repeat split; reflexivity. Qed.

(* ... the approximate demo with --k -1: accepted, k = 2^64 - 1 *)
Example C11_approx_k_nonvacuous :
  size_t_of_int (-1) = 18446744073709551615 /\
  o_run (demo_approx (fun _ => 0) {| o_parse_error := false; o_help := false; o_input_given := true; o_file_opens := true;
      o_verbose := false; o_k := -1; o_signed := true; o_fvstrees := false; o_isotrees := false; o_parallel := true;
      o_printcycles := false; o_cores := 0 |} v_ok) = Some (CallApprox Signed true 18446744073709551615) /\
  demo_approx (fun _ => 0) {| o_parse_error := false; o_help := false; o_input_given := true; o_file_opens := true;
      o_verbose := false; o_k := 1; o_signed := true; o_fvstrees := false; o_isotrees := false; o_parallel := true;
      o_printcycles := false; o_cores := 0 |} v_ok = fail DBadK [LSize].
Proof. repeat split; reflexivity. Qed.
