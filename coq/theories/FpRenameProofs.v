(* FpRenameProofs.v — the SpVecFP history model (FpModel.v: fadd / fscale / fdot / frun_dump, the
   function the driver calls for case kind V of component c18) commutes with every strictly
   increasing renaming of the coordinates (property C18).

   The check runs SpVecFP on histories whose coordinates 0..D-1 were renamed monotonically onto both
   ends of the std::size_t index space (case kinds VW / VWB of tools/props/c18.py and
   harness/c18.cpp) while the model runs on the history itself.  The only tokens that carry a
   coordinate are those of `U d i`; the outputs of D (product) and Z (size) carry none, the dumped
   vectors carry one per entry.  [frun_dump_rename] proves that the model on the renamed history
   gives the same D/Z outputs and the renamed vectors (values untouched).

   No side condition: fadd / fscale / fdot_acc only compare coordinates, so they commute with f on
   ARBITRARY entry lists (no canonical-form hypothesis) and for every modulus p and scalar. *)
From Coq Require Import ZArith List Bool Lia Arith.
From Parmcb Require Import FpModel FpProofs.
Import ListNotations.

Definition StrictMono (f : nat -> nat) : Prop := forall a b, (a < b)%nat -> (f a < f b)%nat.

Definition rename_entry (f : nat -> nat) (e : nat * Z) : nat * Z := (f (fst e), snd e).
Definition rename_fvec (f : nat -> nat) (v : fvec) : fvec := map (rename_entry f) v.

(* only U carries a coordinate; vector identifiers and scalars are never renamed *)
Definition rename_fop (f : nat -> nat) (o : fop) : fop :=
  match o with
  | FUnit d i => FUnit d (f i)
  | FCopy d a => FCopy d a
  | FAssign d a => FAssign d a
  | FAdd d a b => FAdd d a b
  | FAddAssign d a => FAddAssign d a
  | FScale d a c => FScale d a c
  | FScaleAssign d c => FScaleAssign d c
  | FClear d => FClear d
  | FDot a b => FDot a b
  | FSize a => FSize a
  end.

Lemma StrictMono_compare f : StrictMono f -> forall x y, Nat.compare (f x) (f y) = Nat.compare x y.
Proof.
  intros Hf x y. destruct (Nat.compare_spec x y) as [E|L|G].
  - subst y. apply Nat.compare_refl.
  - apply Nat.compare_lt_iff. apply Hf. exact L.
  - apply Nat.compare_gt_iff. apply Hf. exact G.
Qed.

Lemma StrictMono_inj f : StrictMono f -> forall x y, f x = f y -> x = y.
Proof.
  intros Hf x y E. destruct (Nat.lt_trichotomy x y) as [L|[L|L]].
  - apply Hf in L. lia.
  - exact L.
  - apply Hf in L. lia.
Qed.

Lemma rename_fvec_cons f i x v : rename_fvec f ((i, x) :: v) = (f i, x) :: rename_fvec f v.
Proof. reflexivity. Qed.

Lemma rename_fvec_nil f : rename_fvec f [] = [].
Proof. reflexivity. Qed.

(* ---- the operations commute with the renaming (arbitrary entry lists) -------------- *)

Lemma fadd_rename f p : StrictMono f -> forall u v,
  fadd p (rename_fvec f u) (rename_fvec f v) = rename_fvec f (fadd p u v).
Proof.
  intros Hf u. induction u as [|[i x] u IHu]; intros v.
  - rewrite rename_fvec_nil, !fadd_nil_l. reflexivity.
  - induction v as [|[j y] v IHv].
    + rewrite rename_fvec_nil, !fadd_nil_r. reflexivity.
    + rewrite !rename_fvec_cons, !fadd_cons. rewrite (StrictMono_compare f Hf).
      destruct (Nat.compare i j).
      * destruct (fnorm p (Z.rem (x + y) p) =? 0)%Z.
        -- apply IHu.
        -- rewrite rename_fvec_cons. f_equal. apply IHu.
      * rewrite rename_fvec_cons. f_equal.
        rewrite <- (rename_fvec_cons f j y v). apply IHu.
      * rewrite rename_fvec_cons. f_equal.
        rewrite <- (rename_fvec_cons f i x u). apply IHv.
Qed.

Lemma fscale_rename f p c : forall u,
  fscale p c (rename_fvec f u) = rename_fvec f (fscale p c u).
Proof.
  induction u as [|[i x] u IH].
  - reflexivity.
  - rewrite rename_fvec_cons. cbn [fscale].
    destruct (fnorm p (Z.rem (x * c) p) =? 0)%Z.
    + exact IH.
    + rewrite rename_fvec_cons. f_equal. exact IH.
Qed.

Lemma fdot_acc_rename f p : StrictMono f -> forall u v res,
  fdot_acc p res (rename_fvec f u) (rename_fvec f v) = fdot_acc p res u v.
Proof.
  intros Hf u. induction u as [|[i x] u IHu]; intros v.
  - intros res. rewrite rename_fvec_nil, !fdot_acc_nil_l. reflexivity.
  - induction v as [|[j y] v IHv]; intros res.
    + rewrite rename_fvec_nil, !fdot_acc_nil_r. reflexivity.
    + rewrite !rename_fvec_cons, !fdot_acc_cons. rewrite (StrictMono_compare f Hf).
      destruct (Nat.compare i j).
      * apply IHu.
      * rewrite <- (rename_fvec_cons f j y v). apply IHu.
      * rewrite <- (rename_fvec_cons f i x u). apply IHv.
Qed.

Lemma fdot_rename f p : StrictMono f -> forall u v,
  fdot p (rename_fvec f u) (rename_fvec f v) = fdot p u v.
Proof. intros Hf u v. unfold fdot. apply (fdot_acc_rename f p Hf). Qed.

Lemma rename_fvec_length f v : length (rename_fvec f v) = length v.
Proof. unfold rename_fvec. apply map_length. Qed.

(* ---- histories ------------------------------------------------------------------ *)

(* pointwise relation between stores (no functional extensionality) *)
Definition fstore_rel (f : nat -> nat) (s s' : fstore) : Prop :=
  forall j, s' j = rename_fvec f (s j).

Lemma fstore_rel_upd f s s' d v v' :
  fstore_rel f s s' -> v' = rename_fvec f v -> fstore_rel f (fupd s d v) (fupd s' d v').
Proof.
  intros H E j. unfold fupd. destruct (Nat.eqb j d); [exact E | apply H].
Qed.

Lemma fstep_rename f p : StrictMono f -> forall s s' o,
  fstore_rel f s s' ->
  fstore_rel f (fst (fstep p s o)) (fst (fstep p s' (rename_fop f o))) /\
  snd (fstep p s' (rename_fop f o)) = snd (fstep p s o).
Proof.
  intros Hf s s' o H.
  destruct o as [d i|d a|d a|d a b|d a|d a c|d c|d|a b|a]; cbn [rename_fop fstep fst snd].
  - split; [|reflexivity]. apply fstore_rel_upd; [exact H|reflexivity].
  - split; [|reflexivity]. apply fstore_rel_upd; [exact H|apply H].
  - split; [|reflexivity]. apply fstore_rel_upd; [exact H|apply H].
  - split; [|reflexivity]. apply fstore_rel_upd; [exact H|].
    rewrite (H a), (H b). apply (fadd_rename f p Hf).
  - split; [|reflexivity]. apply fstore_rel_upd; [exact H|].
    rewrite (H d), (H a). apply (fadd_rename f p Hf).
  - split; [|reflexivity]. apply fstore_rel_upd; [exact H|].
    rewrite (H a). apply fscale_rename.
  - split; [|reflexivity]. apply fstore_rel_upd; [exact H|].
    rewrite (H d). apply fscale_rename.
  - split; [|reflexivity]. apply fstore_rel_upd; [exact H|reflexivity].
  - split; [exact H|]. rewrite (H a), (H b), (fdot_rename f p Hf). reflexivity.
  - split; [exact H|]. rewrite (H a), rename_fvec_length. reflexivity.
Qed.

Lemma frun_rename f p : StrictMono f -> forall ops s s',
  fstore_rel f s s' ->
  fstore_rel f (fst (frun p s ops)) (fst (frun p s' (map (rename_fop f) ops))) /\
  snd (frun p s' (map (rename_fop f) ops)) = snd (frun p s ops).
Proof.
  intros Hf ops. induction ops as [|o ops IH]; intros s s' H.
  - cbn [map frun fst snd]. split; [exact H|reflexivity].
  - cbn [map frun].
    destruct (fstep_rename f p Hf s s' o H) as [H1 E1].
    destruct (fstep p s o) as [s1 o1] eqn:Es.
    destruct (fstep p s' (rename_fop f o)) as [s1' o1'] eqn:Es'.
    cbn [fst snd] in H1, E1. subst o1'.
    destruct (IH s1 s1' H1) as [H2 E2].
    destruct (frun p s1 ops) as [s2 o2] eqn:Er.
    destruct (frun p s1' (map (rename_fop f) ops)) as [s2' o2'] eqn:Er'.
    cbn [fst snd] in *. subst o2'. split; [exact H2|reflexivity].
Qed.

Lemma fempty_rel f : fstore_rel f fempty fempty.
Proof. intros j. reflexivity. Qed.

(* what the correspondence compares: the D / Z outputs are unchanged, the K dumped vectors are
   renamed (coordinates through f, values untouched).  For every modulus p (also p <= 0 or
   composite), every history and every strictly increasing f. *)
Lemma frun_dump_rename : forall f p K ops, StrictMono f ->
  frun_dump p K (map (rename_fop f) ops) =
  (fst (frun_dump p K ops), map (rename_fvec f) (snd (frun_dump p K ops))).
Proof.
  intros f p K ops Hf. unfold frun_dump.
  destruct (frun_rename f p Hf ops fempty fempty (fempty_rel f)) as [H E].
  destruct (frun p fempty ops) as [s o] eqn:Er.
  destruct (frun p fempty (map (rename_fop f) ops)) as [s' o'] eqn:Er'.
  cbn [fst snd] in *. subst o'. f_equal.
  rewrite map_map. apply map_ext. intros j. apply H.
Qed.

(* the value of a renamed coordinate is the value of the original one *)
Lemma rename_fvec_get f v i : StrictMono f -> fget (rename_fvec f v) (f i) = fget v i.
Proof.
  intros Hf. induction v as [|[j x] v IH].
  - reflexivity.
  - rewrite rename_fvec_cons. cbn [fget]. rewrite IH.
    destruct (Nat.eqb_spec i j) as [E|N].
    + subst j. rewrite Nat.eqb_refl. reflexivity.
    + destruct (Nat.eqb_spec (f i) (f j)) as [E|_]; [|reflexivity].
      exfalso. apply N. apply (StrictMono_inj f Hf). exact E.
Qed.
