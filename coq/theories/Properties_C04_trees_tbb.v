(* Properties_C04_trees_tbb.v — C04c for mcb_sva_fvs_trees_tbb_mpi and mcb_sva_iso_trees_tbb_mpi with the EXACT model of the TBB
   lookup inside every rank (MpiTreesTbbModel.v = MpiTreesModel.v + ParTreesModel.pt_lookup under SchedModel's schedule semantics).
   Only final statements (proofs: MpiTreesProofs5.v, which discharges the acceptance hypothesis `mw_accepted` of
   Properties_C04_trees.C04c_result_*_tbb_mpi through ParTreesProofs3.ps_lookup_ok = C03_trees_lookup_accepted_bits).

   For EVERY simple graph with positive integer weights, every root order of the spanning forest, (FVS: every complete run of
   greedy_fvs,) every P >= 1, every family of reduction trees, every family of valid per-rank sort arrangements, EVERY family of
   bit streams `bits r k` (the TBB schedules of rank r's lookup in phase k: split points, stolen or not, order of execution) and
   every value of numeric_limits::max: no deadlock, the ranks other than 0 emit nothing, rank 0 gets m - n + c simple cycles
   forming a MINIMUM cycle basis and the returned value is its total weight. *)
From Coq Require Import List Arith Bool ZArith.
From Parmcb Require Import GraphModel GraphSpec McbSpec ForestModel SvaModel LexSPModel FvsModel CandidatesModel TreesModel
     MpiModel MpiProofs1 MpiProofs4 MpiTreesModel MpiTreesTbbModel MpiTreesProofs5 Properties_C02_trees Properties_C04_trees.
Import ListNotations.

Theorem C04c_result_fvs_trees_tbb_mpi_exact : forall g wts roots picks fvs wmax P arr bits rtree_of,
  simple_graph g -> positive_weights g wts -> (forall v, v < nv g -> In v roots) ->
  greedy_fvs g picks = FvsOk fvs ->
  1 <= P -> (forall k, rtree_ok P (rtree_of k)) ->
  (forall r ts L, r < P -> mt_rank_cands_Z TbFvs g wts roots picks P r = Some (ts, L) -> mt_arr_okb Z Z.ltb L (arr r) = true) ->
  exists fi cycles total sup rest,
    create_index g roots = Some fi
    /\ mcb_sva_trees_tbb_mpi_Z wmax TbFvs g wts roots picks P arr bits rtree_of
       = MtRun Z (Done (RankOut cycles total sup None :: rest))
    /\ length rest = P - 1 /\ Forall (silent 0%Z fi) rest
    /\ min_cycle_basis g wts cycles /\ total = total_weight wts cycles
    /\ has_cycle_space_dimension g (length cycles).
Proof. exact my_fvs_trees_tbb_mpi. Qed.
Print Assumptions C04c_result_fvs_trees_tbb_mpi_exact.

Theorem C04c_result_iso_trees_tbb_mpi_exact : forall g wts roots picks wmax P arr bits rtree_of,
  simple_graph g -> positive_weights g wts -> (forall v, v < nv g -> In v roots) ->
  1 <= P -> (forall k, rtree_ok P (rtree_of k)) ->
  (forall r ts L, r < P -> mt_rank_cands_Z TbIso g wts roots picks P r = Some (ts, L) -> mt_arr_okb Z Z.ltb L (arr r) = true) ->
  exists fi cycles total sup rest,
    create_index g roots = Some fi
    /\ mcb_sva_trees_tbb_mpi_Z wmax TbIso g wts roots picks P arr bits rtree_of
       = MtRun Z (Done (RankOut cycles total sup None :: rest))
    /\ length rest = P - 1 /\ Forall (silent 0%Z fi) rest
    /\ min_cycle_basis g wts cycles /\ total = total_weight wts cycles
    /\ has_cycle_space_dimension g (length cycles).
Proof. exact my_iso_trees_tbb_mpi. Qed.
Print Assumptions C04c_result_iso_trees_tbb_mpi_exact.

(* non-vacuity: the theta graph with 3 ranks (Properties_C04_trees.C04c_fvs_nonvacuous: arrangements c04t_arr are valid), a
   bit stream that alternates steal / no steal, numeric_limits::max = 1000: the model returns the minimum basis, weight 15 *)
Example C04c_tbb_exact_nonvacuous :
  exists sup rest,
    mcb_sva_trees_tbb_mpi_Z 1000%Z TbFvs c02t_g c02t_w c02t_roots [1] 3 c04t_arr
      (fun r k => [true; false; true; true; false; false; true; false]) (fun _ => boost_reduce_tree 3)
    = MtRun Z (Done (RankOut [[0;1;2;3;4];[0;1;5;6;7]] 15%Z sup None :: rest)).
Proof. eexists; eexists. vm_compute. reflexivity. Qed.
