(* OverflowTreesModel.v — C07, clause "overflows a signed integer", for the code paths of the tree-based exact variants
   (`int` weight instantiation; the Z models describe the int run exactly as long as no sum leaves the int range).
   As in OverflowProofs3.v / OverflowProofs4.v the model functions are restated WITH A TRACE: X_tr returns the pair
   (result of X, list of every sum X forms with closed_plus / + / +=, in order, including sums that are formed and then
   dropped).  The erasure lemmas ovt_*_erase show  fst (X_tr ...) = X ...  for the existing models (LexSPModel.v,
   CandidatesModel.v, TreesModel.v, ParTreesModel.v), so the traced functions follow exactly the models' control flow.
   The sums listed are, per function:
     lx_relax            c.distance = combine(d_u.distance, w(e))  of LexDistanceCombine — formed for EVERY out-edge of the
                         popped vertex that survives the two `continue`s (w == u, w == s), before the visited / compare tests
     cd_of_edge          cycle_weight = (w(e) + v->weight()) + u->weight()  of SPTree::create_candidate_cycles: both partial
                         sums, formed only for candidates that pass the tree-edge / null-node / first-in-path filters
     cd_iso_out          the same expression re-evaluated by ISOCyclesBuilder for every candidate it emits
     tc_path(_limit)     cycle_weight += w(a)  of both root-path loops of CandidateCycleBuilder::operator(), formed right after
                         result.insert(a) succeeded (before the weight-limit test and before boost::opposite)
     sva phases          mcb_weight += weight  (OverflowProofs4.sva_phases_tr; pt_phases_tr for the TBB flavour)
     dj_relax            c = combine(d_u, w(e))  of the plain parmcb::dijkstra (detail/dijkstra.hpp), as for lx_relax
     pred_chain          weight += w(ae)  of NonSpannerEdgesCycleBuilder's predecessor walk
     dropped_cycle(s)    weight += w(e);  total_weight += weight
     approx_run          _weight += exact(...)  (0 + sw)  and  _weight += builder(...)  ((0 + sw) + dw); the sums of the exact
                         phase itself are the trace of the exact phase's own traced model (a parameter)
     tbb_sum             the partial sums of the parallel_reduce over cycles_weights (std::accumulate per chunk, std::plus)
   The sequential lookup of the C++ stops at the first answering candidate; the model (TreesModel.tl_eval) evaluates the
   builder on every candidate, so the trace lists a superset of the sums of the real run.
   Definitions and erasure lemmas only; bounds in OverflowTreesProofs*.v.   No axioms. *)
From Coq Require Import List Arith Bool ZArith Lia.
From Parmcb Require Import GraphModel GF2Model GraphSpec HeapModel ForestModel SvaModel LexSPModel FvsModel CandidatesModel
     TreesModel SchedModel ParTreesModel SpannerModel DijkstraModel ApproxModel ParSignedModel ApproxParModel SignedModel SignedZModel MpiModel MpiSignedModel
     OverflowProofs3 OverflowProofs4.
Import ListNotations.

Local Open Scope Z_scope.

(* ---- generic helpers ----------------------------------------------------------------------------------------- *)

Definition flat_map_tr {A B : Type} (f : A -> list B * list Z) (l : list A) : list B * list Z :=
  (flat_map (fun x => fst (f x)) l, flat_map (fun x => snd (f x)) l).

Lemma ovt_flat_map_erase {A B : Type} (f : A -> list B * list Z) (f' : A -> list B) (l : list A) :
  (forall x, fst (f x) = f' x) -> fst (flat_map_tr f l) = flat_map f' l.
Proof.
  intros H. unfold flat_map_tr. cbn [fst]. induction l as [|x l IH]; [reflexivity|].
  cbn [flat_map]. rewrite H, IH. reflexivity.
Qed.

(* ---- A. lex_dijkstra / SPTree ---------------------------------------------------------------------------------- *)

Notation zstate := (lx_state Z).
Notation zlabel := (label Z).

Definition lx_relax_tr (g : graph) (wts : list Z) (s u : nat) (d_u : zlabel)
           (r : lx_result zstate) (ew : nat * nat) : lx_result zstate * list Z :=
  match r with
  | LxOk st =>
      let '(e, w) := ew in
      if Nat.eqb w u then (r, [])
      else if Nat.eqb w s then (r, [])
      else
        (* the C++ forms c = combine(d_u, e) before it reads pred_map[w] (the access that is out of range in LxRange) *)
        let c := lx_combine Z 0 Z.add wts d_u e u w in
        (if negb (Nat.ltb w (nv g)) then LxRange else
         match nth w (lx_pred st) None with
         | None =>
             let lex' := set_nth (lx_lex st) w c in
             LxOk {| lx_lex := lex';
                     lx_dist := set_nth (lx_dist st) w (Some (l_dist c));
                     lx_pred := set_nth (lx_pred st) w (Some e);
                     lx_heap := heap_push zlabel (lx_ltb Z Z.ltb) (lx_key Z 0 lex') (lx_heap st) w |}
         | Some _ =>
             if lx_ltb Z Z.ltb c (lx_key Z 0 (lx_lex st) w) then
               let lex' := set_nth (lx_lex st) w c in
               match heap_update zlabel (lx_ltb Z Z.ltb) (lx_key Z 0 lex') (lx_heap st) w with
               | Some h' =>
                   LxOk {| lx_lex := lex';
                           lx_dist := set_nth (lx_dist st) w (Some (l_dist c));
                           lx_pred := set_nth (lx_pred st) w (Some e);
                           lx_heap := h' |}
               | None => LxNotInHeap
               end
             else r
         end, [l_dist c])
  | _ => (r, [])
  end.

Fixpoint lx_fold_tr (g : graph) (wts : list Z) (s u : nat) (d_u : zlabel) (es : list (nat * nat))
         (r : lx_result zstate) : lx_result zstate * list Z :=
  match es with
  | [] => (r, [])
  | ew :: es' =>
      let r1 := lx_relax_tr g wts s u d_u r ew in
      let r2 := lx_fold_tr g wts s u d_u es' (fst r1) in
      (fst r2, snd r1 ++ snd r2)
  end.

Fixpoint lx_loop_tr (fuel : nat) (g : graph) (wts : list Z) (s : nat) (st : zstate) {struct fuel}
  : lx_result zstate * list Z :=
  match heap_top (lx_heap st) with
  | None => (LxOk st, [])
  | Some u =>
      match fuel with
      | O => (LxFuel, [])
      | S fuel' =>
          let h' := heap_pop zlabel (lx_ltb Z Z.ltb) (lx_key Z 0 (lx_lex st)) (lx_heap st) in
          let d_u := lx_key Z 0 (lx_lex st) u in
          let r := lx_fold_tr g wts s u d_u (out_edges g u)
                              (LxOk {| lx_lex := lx_lex st; lx_dist := lx_dist st;
                                       lx_pred := lx_pred st; lx_heap := h' |}) in
          match fst r with
          | LxOk st' => let r' := lx_loop_tr fuel' g wts s st' in (fst r', snd r ++ snd r')
          | err => (err, snd r)
          end
      end
  end.

Definition lex_dijkstra_tr (g : graph) (wts : list Z) (s : nat) : lx_result zstate * list Z :=
  if negb (Nat.ltb s (nv g)) then (LxRange, [])
  else lx_loop_tr (S (nv g)) g wts s (lx_init Z 0 Z.ltb g s).

(* SPTree::initialize: lex_dijkstra, then node creation / linking / first-in-path, which form no sums *)
Definition sptree_tr (g : graph) (wts : list Z) (s : nat) : lx_result (sp_tree Z) * list Z :=
  (sptree_Z g wts s, snd (lex_dijkstra_tr g wts s)).

Fixpoint lx_all_tr (g : graph) (wts : list Z) (ss : list nat) : lx_result (list (sp_tree Z)) * list Z :=
  match ss with
  | [] => (LxOk [], [])
  | s :: ss' =>
      let r := sptree_tr g wts s in
      match fst r with
      | LxOk t =>
          let r' := lx_all_tr g wts ss' in
          (match fst r' with
           | LxOk ts => LxOk (t :: ts)
           | err => err
           end, snd r ++ snd r')
      | LxFuel => (LxFuel, snd r) | LxRange => (LxRange, snd r)
      | LxNotInHeap => (LxNotInHeap, snd r) | LxNoNode => (LxNoNode, snd r)
      end
  end.

Lemma ovt_relax_erase g wts s u d_u r ew :
  fst (lx_relax_tr g wts s u d_u r ew) = lx_relax Z 0 Z.add Z.ltb g wts s u d_u r ew.
Proof.
  unfold lx_relax_tr, lx_relax. destruct r as [st| | | |]; try reflexivity. destruct ew as [e w].
  destruct (Nat.eqb w u); [reflexivity|]. destruct (Nat.eqb w s); [reflexivity|].
  destruct (negb (Nat.ltb w (nv g))); reflexivity.
Qed.

Lemma ovt_fold_erase g wts s u d_u : forall es r,
  fst (lx_fold_tr g wts s u d_u es r) = fold_left (lx_relax Z 0 Z.add Z.ltb g wts s u d_u) es r.
Proof.
  induction es as [|ew es IH]; intros r; [reflexivity|].
  cbn [lx_fold_tr fold_left fst]. rewrite IH, ovt_relax_erase. reflexivity.
Qed.

Lemma ovt_loop_erase g wts s : forall fuel st,
  fst (lx_loop_tr fuel g wts s st) = lx_loop Z 0 Z.add Z.ltb fuel g wts s st.
Proof.
  induction fuel as [|fuel IH]; intros st.
  - cbn [lx_loop_tr lx_loop]. destruct (heap_top (lx_heap st)); reflexivity.
  - cbn [lx_loop_tr lx_loop]. destruct (heap_top (lx_heap st)) as [u|]; [|reflexivity]. cbv zeta.
    rewrite ovt_fold_erase.
    match goal with |- context [fold_left ?f ?l ?a] => destruct (fold_left f l a) as [st'| | | |] end;
      cbn [fst]; try reflexivity. apply IH.
Qed.

Lemma ovt_dijkstra_erase g wts s :
  fst (lex_dijkstra_tr g wts s) = lex_dijkstra Z 0 Z.add Z.ltb g wts s.
Proof.
  unfold lex_dijkstra_tr, lex_dijkstra. destruct (negb (Nat.ltb s (nv g))); [reflexivity|]. apply ovt_loop_erase.
Qed.

Lemma ovt_sptree_erase g wts s : fst (sptree_tr g wts s) = sptree_Z g wts s.
Proof. reflexivity. Qed.

Lemma ovt_all_erase g wts : forall ss, fst (lx_all_tr g wts ss) = lx_all Z 0 Z.add Z.ltb g wts ss.
Proof.
  induction ss as [|s ss IH]; [reflexivity|].
  cbn [lx_all_tr lx_all]. rewrite ovt_sptree_erase. unfold sptree_Z.
  destruct (sptree Z 0 Z.add Z.ltb g wts s) as [t| | | |]; try reflexivity.
  cbn [fst]. rewrite IH. reflexivity.
Qed.

(* ---- B. the candidate collections ---------------------------------------------------------------------------- *)

Definition cd_of_edge_tr (wts : list Z) (id : nat) (t : sp_tree Z) (tes : list nat) (eab : nat * (nat * nat))
  : list (cand Z) * list Z :=
  let '(e, (a, b)) := eab in
  if memb e tes then ([], [])
  else match sp_node_of Z t a with
       | None => ([], [])
       | Some v =>
           match sp_node_of Z t b with
           | None => ([], [])
           | Some u =>
               if Nat.eqb (sp_first Z t a) (sp_first Z t b) then ([], [])
               else
                 let s1 := lx_wt Z 0 wts e + sn_weight v in
                 let s2 := s1 + sn_weight u in
                 ([{| c_tree := id; c_edge := e; c_weight := s2 |}], [s1; s2])
           end
       end.

Definition create_candidate_cycles_tr (g : graph) (wts : list Z) (id : nat) (t : sp_tree Z) : list (cand Z) * list Z :=
  flat_map_tr (cd_of_edge_tr wts id t (cd_tree_edges Z t)) (cd_enum 0 (ge g)).

Definition cd_cycles_of_trees_tr (g : graph) (wts : list Z) (trees : list (sp_tree Z)) : list (cand Z) * list Z :=
  flat_map_tr (fun it => create_candidate_cycles_tr g wts (fst it) (snd it)) (cd_enum 0 trees).

Definition cd_trees_tr (g : graph) (wts : list Z) (roots : list nat) : cd_result (list (sp_tree Z)) * list Z :=
  let r := lx_all_tr g wts roots in
  (match fst r with
   | LxOk ts => CdOk ts
   | _ => CdTreeErr
   end, snd r).

Definition cycles_of_roots_tr (g : graph) (wts : list Z) (roots : list nat)
  : cd_result (list (sp_tree Z) * list (cand Z)) * list Z :=
  let r := cd_trees_tr g wts roots in
  match fst r with
  | CdOk ts => let r' := cd_cycles_of_trees_tr g wts ts in (CdOk (ts, fst r'), snd r ++ snd r')
  | CdTreeErr => (CdTreeErr, snd r) | CdFvsErr => (CdFvsErr, snd r)
  | CdInconsistent => (CdInconsistent, snd r) | CdFuel => (CdFuel, snd r)
  end.

Definition horton_cycles_tr (g : graph) (wts : list Z) := cycles_of_roots_tr g wts (seq 0 (nv g)).

Definition fvs_cycles_tr (g : graph) (wts : list Z) (picks : list nat)
  : cd_result (list (sp_tree Z) * list (cand Z)) * list Z :=
  match greedy_fvs g picks with
  | FvsOk fvs => cycles_of_roots_tr g wts fvs
  | _ => (CdFvsErr, [])
  end.

Fixpoint cd_iso_out_tr (g : graph) (wts : list Z) (trees : list (sp_tree Z)) (comp : list (option nat))
         (badc : list bool) (vs : list (nat * cand Z)) (inout : list bool) : cd_result (list (cand Z)) * list Z :=
  match vs with
  | [] => (CdOk [], [])
  | (i, c) :: r =>
      match nth i comp None with
      | None => (CdFuel, [])
      | Some k =>
          if negb (nth k badc false) && negb (nth k inout false) then
            match nth_error trees (c_tree c), ends g (c_edge c) with
            | Some tree_v, Some (a, b) =>
                match sp_node_of Z tree_v a, sp_node_of Z tree_v b with
                | Some nv', Some nu =>
                    let r' := cd_iso_out_tr g wts trees comp badc r (set_nth inout k true) in
                    match fst r' with
                    | CdOk out =>
                        let s1 := lx_wt Z 0 wts (c_edge c) + sn_weight nv' in
                        let s2 := s1 + sn_weight nu in
                        (CdOk ({| c_tree := c_tree c; c_edge := c_edge c; c_weight := s2 |} :: out),
                         snd r' ++ [s1; s2])
                    | err => (err, snd r')
                    end
                | _, _ => cd_iso_out_tr g wts trees comp badc r inout
                end
            | _, _ => (CdTreeErr, [])
            end
          else cd_iso_out_tr g wts trees comp badc r inout
      end
  end.

Definition iso_cycles_tr (g : graph) (wts : list Z) : cd_result (list (sp_tree Z) * list (cand Z)) * list Z :=
  let rh := horton_cycles_tr g wts in
  match fst rh with
  | CdOk (trees, allcycles) =>
      let cv := filter (cd_is_circuit Z g trees) allcycles in
      match cd_links Z g trees cv cv with
      | CdOk links =>
          let nvs := length cv in
          let adj := cd_adj links 0 (map (fun _ => []) (seq 0 nvs)) in
          match cd_components (2 * nvs + 2 * nvs + 1) adj (seq 0 nvs) (map (fun _ => None) (seq 0 nvs)) with
          | Some comp =>
              let badc := cd_mark_bad links 0 comp (map (fun _ => false) (seq 0 nvs)) in
              let ro := cd_iso_out_tr g wts trees comp badc (cd_enum 0 cv) (map (fun _ => false) (seq 0 nvs)) in
              (match fst ro with
               | CdOk out => CdOk (trees, out)
               | CdTreeErr => CdTreeErr | CdFvsErr => CdFvsErr | CdInconsistent => CdInconsistent | CdFuel => CdFuel
               end, snd rh ++ snd ro)
          | None => (CdFuel, snd rh)
          end
      | CdTreeErr => (CdTreeErr, snd rh) | CdFvsErr => (CdFvsErr, snd rh)
      | CdInconsistent => (CdInconsistent, snd rh) | CdFuel => (CdFuel, snd rh)
      end
  | CdTreeErr => (CdTreeErr, snd rh) | CdFvsErr => (CdFvsErr, snd rh)
  | CdInconsistent => (CdInconsistent, snd rh) | CdFuel => (CdFuel, snd rh)
  end.

Definition tb_collection_tr (b : tbuilder) (g : graph) (wts : list Z) (picks : list nat)
  : cd_result (list (sp_tree Z) * list (cand Z)) * list Z :=
  match b with
  | TbHorton => horton_cycles_tr g wts
  | TbFvs => fvs_cycles_tr g wts picks
  | TbIso => iso_cycles_tr g wts
  end.

Lemma ovt_of_edge_erase wts id t tes eab :
  fst (cd_of_edge_tr wts id t tes eab) = cd_of_edge Z 0 Z.add wts id t tes eab.
Proof.
  unfold cd_of_edge_tr, cd_of_edge. destruct eab as [e [a b]].
  destruct (memb e tes); [reflexivity|].
  destruct (sp_node_of Z t a); [|reflexivity]. destruct (sp_node_of Z t b); [|reflexivity].
  destruct (Nat.eqb (sp_first Z t a) (sp_first Z t b)); reflexivity.
Qed.

Lemma ovt_create_erase g wts id t :
  fst (create_candidate_cycles_tr g wts id t) = create_candidate_cycles Z 0 Z.add g wts id t.
Proof. apply ovt_flat_map_erase. intros x. apply ovt_of_edge_erase. Qed.

Lemma ovt_cycles_of_trees_erase g wts trees :
  fst (cd_cycles_of_trees_tr g wts trees) = cd_cycles_of_trees Z 0 Z.add g wts trees.
Proof. apply ovt_flat_map_erase. intros x. apply ovt_create_erase. Qed.

Lemma ovt_cd_trees_erase g wts roots : fst (cd_trees_tr g wts roots) = cd_trees Z 0 Z.add Z.ltb g wts roots.
Proof. unfold cd_trees_tr, cd_trees. cbn [fst]. rewrite ovt_all_erase. reflexivity. Qed.

Lemma ovt_cycles_of_roots_erase g wts roots :
  fst (cycles_of_roots_tr g wts roots) = cycles_of_roots Z 0 Z.add Z.ltb g wts roots.
Proof.
  unfold cycles_of_roots_tr, cycles_of_roots. cbv zeta. rewrite ovt_cd_trees_erase.
  destruct (cd_trees Z 0 Z.add Z.ltb g wts roots) as [ts| | | |]; try reflexivity.
  cbn [fst]. rewrite ovt_cycles_of_trees_erase. reflexivity.
Qed.

Lemma ovt_horton_erase g wts : fst (horton_cycles_tr g wts) = horton_cycles_Z g wts.
Proof. apply ovt_cycles_of_roots_erase. Qed.

Lemma ovt_fvs_erase g wts picks : fst (fvs_cycles_tr g wts picks) = fvs_cycles_Z g wts picks.
Proof.
  unfold fvs_cycles_tr, fvs_cycles_Z, fvs_cycles. destruct (greedy_fvs g picks); try reflexivity.
  apply ovt_cycles_of_roots_erase.
Qed.

Lemma ovt_iso_out_erase g wts trees comp badc : forall vs inout,
  fst (cd_iso_out_tr g wts trees comp badc vs inout) = cd_iso_out Z 0 Z.add g wts trees comp badc vs inout.
Proof.
  induction vs as [|[i c] vs IH]; intros inout; [reflexivity|].
  cbn [cd_iso_out_tr cd_iso_out]. destruct (nth i comp None) as [k|]; [|reflexivity].
  destruct (negb (nth k badc false) && negb (nth k inout false)); [|apply IH].
  destruct (nth_error trees (c_tree c)) as [tv|]; [|reflexivity].
  destruct (ends g (c_edge c)) as [[a b]|]; [|reflexivity].
  destruct (sp_node_of Z tv a) as [nv'|]; [|apply IH].
  destruct (sp_node_of Z tv b) as [nu|]; [|apply IH].
  cbv zeta. rewrite <- IH.
  destruct (fst (cd_iso_out_tr g wts trees comp badc vs (set_nth inout k true))); reflexivity.
Qed.

Lemma ovt_iso_erase g wts : fst (iso_cycles_tr g wts) = iso_cycles_Z g wts.
Proof.
  unfold iso_cycles_tr, iso_cycles_Z, iso_cycles. cbv zeta. rewrite ovt_horton_erase. unfold horton_cycles_Z.
  destruct (horton_cycles Z 0 Z.add Z.ltb g wts) as [[trees allcycles]| | | |]; try reflexivity.
  destruct (cd_links Z g trees (filter (cd_is_circuit Z g trees) allcycles) (filter (cd_is_circuit Z g trees) allcycles));
    try reflexivity.
  match goal with |- context [cd_components ?a ?b ?c ?d] => destruct (cd_components a b c d) end; [|reflexivity].
  cbn [fst]. rewrite ovt_iso_out_erase. reflexivity.
Qed.

Lemma ovt_collection_erase b g wts picks :
  fst (tb_collection_tr b g wts picks) = tb_collection Z 0 Z.add Z.ltb b g wts picks.
Proof. destruct b; [apply ovt_horton_erase|apply ovt_fvs_erase|apply ovt_iso_erase]. Qed.

(* ---- C. CandidateCycleBuilder, the sequential lookup, _mcb_sva_trees --------------------------------------------- *)

Fixpoint tc_path_tr (fuel : nat) (g : graph) (wts : list Z) (t : sp_tree Z) (w : nat) (res : list nat) (cw : Z)
         {struct fuel} : tr_result (option (list nat * Z)) * list Z :=
  match sp_node_of Z t w with
  | None => (TrNoNode, [])
  | Some ws =>
      match sn_pred ws with
      | None => (TrOk (Some (res, cw)), [])
      | Some a =>
          match fuel with
          | O => (TrFuel, [])
          | S fuel' =>
              if memb a res then (TrOk None, [])
              else
                let cw' := cw + lx_wt Z 0 wts a in
                match opposite g a w with
                | None => (TrRange, [cw'])
                | Some w' => let r := tc_path_tr fuel' g wts t w' (a :: res) cw' in (fst r, cw' :: snd r)
                end
          end
      end
  end.

Definition tc_build_tr (g : graph) (wts : list Z) (trees : list (sp_tree Z)) (pars : list (list bool))
           (sg : list nat) (c : cand Z) : tr_result (tc_answer Z) * list Z :=
  match nth_error trees (c_tree c), ends g (c_edge c) with
  | Some t, Some (a, b) =>
      match sp_node_of Z t a, sp_node_of Z t b with
      | Some _, Some _ =>
          let par := nth (c_tree c) pars [] in
          if xorb (xorb (nth a par false) (nth b par false)) (memb (c_edge c) sg) then
            let r1 := tc_path_tr (S (nv g)) g wts t a [c_edge c] (lx_wt Z 0 wts (c_edge c)) in
            match fst r1 with
            | TrOk (Some (l1, w1)) =>
                let r2 := tc_path_tr (S (nv g)) g wts t b l1 w1 in
                (match fst r2 with
                 | TrOk (Some (l2, w2)) => TrOk (TcFound (set_of_list l2) w2)
                 | TrOk None => TrOk TcNot
                 | TrNoNode => TrNoNode | TrRange => TrRange | TrFuel => TrFuel
                 end, snd r1 ++ snd r2)
            | TrOk None => (TrOk TcNot, snd r1)
            | TrNoNode => (TrNoNode, snd r1) | TrRange => (TrRange, snd r1) | TrFuel => (TrFuel, snd r1)
            end
          else (TrOk TcNot, [])
      | _, _ => (TrNoNode, [])
      end
  | _, _ => (TrRange, [])
  end.

Fixpoint tl_eval_tr (g : graph) (wts : list Z) (trees : list (sp_tree Z)) (pars : list (list bool))
         (sg : list nat) (cs : list (cand Z)) : tr_result (list (cand Z * tc_answer Z)) * list Z :=
  match cs with
  | [] => (TrOk [], [])
  | c :: r =>
      let r1 := tc_build_tr g wts trees pars sg c in
      match fst r1 with
      | TrOk a =>
          let r2 := tl_eval_tr g wts trees pars sg r in
          (match fst r2 with
           | TrOk l => TrOk ((c, a) :: l)
           | err => err
           end, snd r1 ++ snd r2)
      | TrNoNode => (TrNoNode, snd r1) | TrRange => (TrRange, snd r1) | TrFuel => (TrFuel, snd r1)
      end
  end.

(* update_parities forms no sums *)
Definition tl_answers_tr (g : graph) (wts : list Z) (trees : list (sp_tree Z)) (cands : list (cand Z))
           (sg : list nat) : tr_result (list (cand Z * tc_answer Z)) * list Z :=
  match tp_all Z g trees sg with
  | TrOk pars => tl_eval_tr g wts trees pars sg cands
  | TrNoNode => (TrNoNode, []) | TrRange => (TrRange, []) | TrFuel => (TrFuel, [])
  end.

Definition trees_search_accept_tr (g : graph) (wts : list Z) (trees : list (sp_tree Z)) (cands : list (cand Z))
           (fi : forest_index) (cycles : list (list nat)) (k : nat) (S : vec) : phase_result Z * list Z :=
  match nth_error cycles k with
  | None => (PNone, [])
  | Some c =>
      let r := tl_answers_tr g wts trees cands (indices_to_edges fi S) in
      (match fst r with
       | TrOk l => match trees_phase_pick Z Z.ltb l c with Some w => PFound c w | None => PNone end
       | _ => PError
       end, snd r)
  end.

Definition trees_search_first_tr (g : graph) (wts : list Z) (trees : list (sp_tree Z)) (cands : list (cand Z))
           (fi : forest_index) (k : nat) (S : vec) : phase_result Z * list Z :=
  let r := tl_answers_tr g wts trees cands (indices_to_edges fi S) in
  (match fst r with
   | TrOk l => match trees_phase_first Z Z.ltb l with Some (c, w) => PFound c w | None => PNone end
   | _ => PError
   end, snd r).

(* _mcb_sva_trees: the builder (trees + candidates), then the phases with  mcb_weight += weight *)
Definition mcb_sva_trees_tr (b : tbuilder) (g : graph) (wts : list Z) (roots picks : list nat)
           (search : list (sp_tree Z) -> list (cand Z) -> forest_index -> nat -> vec -> phase_result Z * list Z)
  : trees_run Z * list Z :=
  match create_index g roots with
  | None => (TRun SvaNoIndex, [])
  | Some fi =>
      let rc := tb_collection_tr b g wts picks in
      match fst rc with
      | CdOk (trees, cands) =>
          let csd := fi_csd fi in
          let r := sva_phases_tr select_none (search trees cands fi) fi (seq 0 csd) (map (fun i => [i]) (seq 0 csd)) [] 0 in
          (TRun (fst r), snd rc ++ snd r)
      | _ => (TNoCollection, snd rc)
      end
  end.

Definition mcb_sva_trees_replay_tr (b : tbuilder) (g : graph) (wts : list Z) (roots picks : list nat)
           (cycles : list (list nat)) : trees_run Z * list Z :=
  mcb_sva_trees_tr b g wts roots picks (fun trees cands fi => trees_search_accept_tr g wts trees cands fi cycles).

Definition mcb_sva_trees_first_tr (b : tbuilder) (g : graph) (wts : list Z) (roots picks : list nat)
  : trees_run Z * list Z :=
  mcb_sva_trees_tr b g wts roots picks (fun trees cands fi => trees_search_first_tr g wts trees cands fi).

Lemma ovt_path_erase g wts t : forall fuel w res cw,
  fst (tc_path_tr fuel g wts t w res cw) = tc_path Z 0 Z.add fuel g wts t w res cw.
Proof.
  induction fuel as [|fuel IH]; intros w res cw.
  - cbn [tc_path_tr tc_path]. destruct (sp_node_of Z t w) as [ws|]; [|reflexivity].
    destruct (sn_pred ws); reflexivity.
  - cbn [tc_path_tr tc_path]. destruct (sp_node_of Z t w) as [ws|]; [|reflexivity].
    destruct (sn_pred ws) as [a|]; [|reflexivity]. destruct (memb a res); [reflexivity|]. cbv zeta.
    destruct (opposite g a w) as [w'|]; [|reflexivity]. cbn [fst]. apply IH.
Qed.

Lemma ovt_build_erase g wts trees pars sg c :
  fst (tc_build_tr g wts trees pars sg c) = tc_build Z 0 Z.add g wts trees pars sg c.
Proof.
  unfold tc_build_tr, tc_build. destruct (nth_error trees (c_tree c)) as [t|]; [|reflexivity].
  destruct (ends g (c_edge c)) as [[a b]|]; [|reflexivity].
  destruct (sp_node_of Z t a); [|reflexivity]. destruct (sp_node_of Z t b); [|reflexivity]. cbv zeta.
  match goal with |- context [if ?x then _ else _] => destruct x end; [|reflexivity].
  rewrite ovt_path_erase.
  match goal with |- context [tc_path ?a1 ?a2 ?a3 ?a4 ?a5 ?a6 ?a7 ?a8 ?a9 ?a10] =>
    destruct (tc_path a1 a2 a3 a4 a5 a6 a7 a8 a9 a10) as [[[l1 w1]|]| | |] end; try reflexivity.
  cbn [fst]. rewrite ovt_path_erase. reflexivity.
Qed.

Lemma ovt_eval_erase g wts trees pars sg : forall cs,
  fst (tl_eval_tr g wts trees pars sg cs) = tl_eval Z 0 Z.add g wts trees pars sg cs.
Proof.
  induction cs as [|c cs IH]; [reflexivity|].
  cbn [tl_eval_tr tl_eval]. cbv zeta. rewrite ovt_build_erase.
  destruct (tc_build Z 0 Z.add g wts trees pars sg c); try reflexivity. cbn [fst]. rewrite IH. reflexivity.
Qed.

Lemma ovt_answers_erase g wts trees cands sg :
  fst (tl_answers_tr g wts trees cands sg) = tl_answers_Z g wts trees cands sg.
Proof.
  unfold tl_answers_tr, tl_answers_Z, tl_answers. destruct (tp_all Z g trees sg); try reflexivity. apply ovt_eval_erase.
Qed.

Lemma ovt_search_accept_erase g wts trees cands fi cycles k S :
  fst (trees_search_accept_tr g wts trees cands fi cycles k S)
  = trees_search_accept Z 0 Z.add Z.ltb g wts trees cands fi cycles k S.
Proof.
  unfold trees_search_accept_tr, trees_search_accept. destruct (nth_error cycles k); [|reflexivity].
  cbv zeta. cbn [fst]. rewrite ovt_answers_erase. reflexivity.
Qed.

Lemma ovt_search_first_erase g wts trees cands fi k S :
  fst (trees_search_first_tr g wts trees cands fi k S) = trees_search_first Z 0 Z.add Z.ltb g wts trees cands fi k S.
Proof.
  unfold trees_search_first_tr, trees_search_first. cbv zeta. cbn [fst]. rewrite ovt_answers_erase. reflexivity.
Qed.

Lemma ovt_trees_erase b g wts roots picks search_tr search :
  (forall trees cands fi k S, fst (search_tr trees cands fi k S) = search trees cands fi k S) ->
  fst (mcb_sva_trees_tr b g wts roots picks search_tr) = mcb_sva_trees Z 0 Z.add Z.ltb b g wts roots picks search.
Proof.
  intros Hs. unfold mcb_sva_trees_tr, mcb_sva_trees. destruct (create_index g roots) as [fi|]; [|reflexivity].
  cbv zeta. rewrite ovt_collection_erase.
  destruct (tb_collection Z 0 Z.add Z.ltb b g wts picks) as [[trees cands]| | | |]; try reflexivity.
  cbn [fst]. unfold sva_run. f_equal. apply ov_sva_phases_erase. intros k S. apply Hs.
Qed.

Lemma ovt_replay_erase b g wts roots picks cycles :
  fst (mcb_sva_trees_replay_tr b g wts roots picks cycles) = mcb_sva_trees_replay_Z b g wts roots picks cycles.
Proof. apply ovt_trees_erase. intros. apply ovt_search_accept_erase. Qed.

Lemma ovt_first_erase b g wts roots picks :
  fst (mcb_sva_trees_first_tr b g wts roots picks) = mcb_sva_trees_first_Z b g wts roots picks.
Proof. apply ovt_trees_erase. intros. apply ovt_search_first_erase. Qed.

(* ---- C'. the TBB lookup (ParTreesModel.v): builder with weight limit, parallel_reduce, _mcb_sva_trees<..., true> ----------
   `wmaxv` stands for (std::numeric_limits<int>::max)() of the reduction's identity.  It occurs below only as the
   weight_limit argument of a builder call whose use_weight_limit is false (short-circuited), as an operand of `<` in the
   running-minimum update and in cycle_min, and inside the identity tuple: it is never an operand of `+`
   (OverflowTreesProofs3.ovt_tbb_*: the bounds on the trace hold for EVERY value of wmaxv). *)

Fixpoint tc_path_limit_tr (fuel : nat) (g : graph) (wts : list Z) (t : sp_tree Z) (use : bool) (lim : Z)
         (w : nat) (res : list nat) (cw : Z) {struct fuel} : tr_result (option (list nat * Z)) * list Z :=
  match sp_node_of Z t w with
  | None => (TrNoNode, [])
  | Some ws =>
      match sn_pred ws with
      | None => (TrOk (Some (res, cw)), [])
      | Some a =>
          match fuel with
          | O => (TrFuel, [])
          | S fuel' =>
              if memb a res then (TrOk None, [])
              else
                let cw' := cw + lx_wt Z 0 wts a in
                if use && Z.ltb lim cw' then (TrOk None, [cw'])
                else match opposite g a w with
                     | None => (TrRange, [cw'])
                     | Some w' =>
                         let r := tc_path_limit_tr fuel' g wts t use lim w' (a :: res) cw' in (fst r, cw' :: snd r)
                     end
          end
      end
  end.

Definition tc_build_limit_tr (g : graph) (wts : list Z) (trees : list (sp_tree Z)) (pars : list (list bool))
           (sg : list nat) (c : cand Z) (use : bool) (lim : Z) : tr_result (tc_answer Z) * list Z :=
  match nth_error trees (c_tree c), ends g (c_edge c) with
  | Some t, Some (a, b) =>
      match sp_node_of Z t a, sp_node_of Z t b with
      | Some _, Some _ =>
          let par := nth (c_tree c) pars [] in
          if xorb (xorb (nth a par false) (nth b par false)) (memb (c_edge c) sg) then
            let cw := lx_wt Z 0 wts (c_edge c) in
            if use && Z.ltb lim cw then (TrOk TcNot, [])
            else
              let r1 := tc_path_limit_tr (S (nv g)) g wts t use lim a [c_edge c] cw in
              match fst r1 with
              | TrOk (Some (l1, w1)) =>
                  let r2 := tc_path_limit_tr (S (nv g)) g wts t use lim b l1 w1 in
                  (match fst r2 with
                   | TrOk (Some (l2, w2)) => TrOk (TcFound (set_of_list l2) w2)
                   | TrOk None => TrOk TcNot
                   | TrNoNode => TrNoNode | TrRange => TrRange | TrFuel => TrFuel
                   end, snd r1 ++ snd r2)
              | TrOk None => (TrOk TcNot, snd r1)
              | TrNoNode => (TrNoNode, snd r1) | TrRange => (TrRange, snd r1) | TrFuel => (TrFuel, snd r1)
              end
          else (TrOk TcNot, [])
      | _, _ => (TrNoNode, [])
      end
  | _, _ => (TrRange, [])
  end.

Notation zcyc3 := (cyc3 Z).

Definition pt_body_step_tr (g : graph) (wts : list Z) (trees : list (sp_tree Z)) (pars : list (list bool))
           (sg : list nat) (sorted : list (cand Z)) (i : nat) (acc : tr_result zcyc3) : tr_result zcyc3 * list Z :=
  match acc with
  | TrOk running_min =>
      match nth_error sorted i with
      | None => (TrRange, [])
      | Some c =>
          let r := tc_build_limit_tr g wts trees pars sg c (c3_found Z running_min) (c3_weight Z running_min) in
          (match fst r with
           | TrOk (TcFound cy w) =>
               if negb (c3_found Z running_min) || Z.ltb w (c3_weight Z running_min)
               then TrOk (cy, w, true) else TrOk running_min
           | TrOk TcNot => TrOk running_min
           | TrNoNode => TrNoNode | TrRange => TrRange | TrFuel => TrFuel
           end, snd r)
      end
  | err => (err, [])
  end.

(* body(range [lo, lo+len), acc) *)
Fixpoint pt_chunk_tr (g : graph) (wts : list Z) (trees : list (sp_tree Z)) (pars : list (list bool))
         (sg : list nat) (sorted : list (cand Z)) (is : list nat) (acc : tr_result zcyc3) : tr_result zcyc3 * list Z :=
  match is with
  | [] => (acc, [])
  | i :: is' =>
      let r1 := pt_body_step_tr g wts trees pars sg sorted i acc in
      let r2 := pt_chunk_tr g wts trees pars sg sorted is' (fst r1) in
      (fst r2, snd r1 ++ snd r2)
  end.

(* SchedModel.eval_reduce with body = pt_body_step, join = pt_join_err (cycle_min: comparisons only), identity pt_ident *)
Fixpoint pt_reduce_tr (wmaxv : Z) (g : graph) (wts : list Z) (trees : list (sp_tree Z)) (pars : list (list bool))
         (sg : list nat) (sorted : list (cand Z)) (t : sched) (lo : nat) (acc : tr_result zcyc3)
  : tr_result zcyc3 * list Z :=
  match t with
  | Run len => pt_chunk_tr g wts trees pars sg sorted (seq lo len) acc
  | Seq _ a b =>
      let r1 := pt_reduce_tr wmaxv g wts trees pars sg sorted a lo acc in
      let r2 := pt_reduce_tr wmaxv g wts trees pars sg sorted b (lo + size a) (fst r1) in
      (fst r2, snd r1 ++ snd r2)
  | Fork _ a b =>
      let r1 := pt_reduce_tr wmaxv g wts trees pars sg sorted a lo acc in
      let r2 := pt_reduce_tr wmaxv g wts trees pars sg sorted b (lo + size a) (TrOk (pt_ident Z wmaxv)) in
      (pt_join_err Z Z.ltb (fst r1) (fst r2), snd r1 ++ snd r2)
  end.

Definition pt_lookup_sched_tr (wmaxv : Z) (g : graph) (wts : list Z) (trees : list (sp_tree Z)) (sorted : list (cand Z))
           (sg : list nat) (t1 t2 : sched) (pars0 : list (list bool)) : tr_result (zcyc3 * list (list bool)) * list Z :=
  match parallel_for (tr_result (list (list bool))) (pt_par_chunk Z g trees sg) t1 0%nat (TrOk pars0) with
  | TrOk pars =>
      let r := pt_reduce_tr wmaxv g wts trees pars sg sorted t2 0%nat (TrOk (pt_ident Z wmaxv)) in
      (match fst r with
       | TrOk x => TrOk (x, pars)
       | TrNoNode => TrNoNode | TrRange => TrRange | TrFuel => TrFuel
       end, snd r)
  | TrNoNode => (TrNoNode, []) | TrRange => (TrRange, []) | TrFuel => (TrFuel, [])
  end.

Definition pt_lookup_tr (wmaxv : Z) (bits : list bool) (g : graph) (wts : list Z) (trees : list (sp_tree Z))
           (sorted : list (cand Z)) (sg : list nat) (pos : nat) (pars0 : list (list bool))
  : tr_result (zcyc3 * list (list bool)) * nat * list Z :=
  let (t1, p1) := sched_of_bits bits pos (length trees) in
  let (t2, p2) := sched_of_bits bits p1 (length sorted) in
  let r := pt_lookup_sched_tr wmaxv g wts trees sorted sg t1 t2 pars0 in
  (fst r, p2, snd r).

Fixpoint pt_phases_tr (wmaxv : Z) (bits : list bool) (g : graph) (wts : list Z) (fi : forest_index)
         (trees : list (sp_tree Z)) (sorted : list (cand Z)) (ks : list nat) (sup : list vec) (pos : nat)
         (pars : list (list bool)) (acc : list (list nat)) (total : Z) : sva_result Z * nat * list Z :=
  match ks with
  | [] => (SvaOk (rev acc) total sup, pos, [])
  | k :: ks' =>
      let '(r, pos1, tr) := pt_lookup_tr wmaxv bits g wts trees sorted (indices_to_edges fi (nth k sup [])) pos pars in
      match r with
      | TrOk ((c, w, true), pars1) =>
          let '(r', pos', tr') :=
            pt_phases_tr wmaxv bits g wts fi trees sorted ks' (update_supports sup k (edges_to_indices fi c)) pos1 pars1
                         (c :: acc) (total + w) in
          (r', pos', tr ++ (total + w) :: tr')
      | TrOk ((_, _, false), _) => (SvaNoCycle k, pos1, tr)
      | _ => (SvaError k, pos1, tr)
      end
  end.

Definition pt_run_tr (wmaxv : Z) (bits : list bool) (g : graph) (wts : list Z) (fi : forest_index)
           (trees : list (sp_tree Z)) (sorted : list (cand Z)) : sva_result Z * nat * list Z :=
  let csd := fi_csd fi in
  pt_phases_tr wmaxv bits g wts fi trees sorted (seq 0 csd) (map (fun i => [i]) (seq 0 csd)) 0%nat
               (pt_pars_init Z g trees) [] 0.

Definition mcb_sva_trees_tbb_tr (wmaxv : Z) (b : tbuilder) (g : graph) (wts : list Z) (roots picks arr : list nat)
           (bits : list bool) : pt_result Z * nat * list Z :=
  match create_index g roots with
  | None => (PtRun SvaNoIndex, 0%nat, [])
  | Some fi =>
      let rc := tb_collection_tr b g wts picks in
      match fst rc with
      | CdOk (trees, cands) =>
          match pt_arrange Z arr cands with
          | Some sorted =>
              let '(r, pos, tr) := pt_run_tr wmaxv bits g wts fi trees sorted in (PtRun r, pos, snd rc ++ tr)
          | None => (PtBadArrangement, 0%nat, snd rc)
          end
      | _ => (PtNoCollection, 0%nat, snd rc)
      end
  end.

Lemma ovt_path_limit_erase g wts t use lim : forall fuel w res cw,
  fst (tc_path_limit_tr fuel g wts t use lim w res cw) = tc_path_limit Z 0 Z.add Z.ltb fuel g wts t use lim w res cw.
Proof.
  induction fuel as [|fuel IH]; intros w res cw.
  - cbn [tc_path_limit_tr tc_path_limit]. destruct (sp_node_of Z t w) as [ws|]; [|reflexivity].
    destruct (sn_pred ws); reflexivity.
  - cbn [tc_path_limit_tr tc_path_limit]. destruct (sp_node_of Z t w) as [ws|]; [|reflexivity].
    destruct (sn_pred ws) as [a|]; [|reflexivity]. destruct (memb a res); [reflexivity|]. cbv zeta.
    destruct (use && Z.ltb lim (cw + lx_wt Z 0 wts a))%bool; [reflexivity|].
    destruct (opposite g a w) as [w'|]; [|reflexivity]. cbn [fst]. apply IH.
Qed.

Lemma ovt_build_limit_erase g wts trees pars sg c use lim :
  fst (tc_build_limit_tr g wts trees pars sg c use lim) = tc_build_limit_Z g wts trees pars sg c use lim.
Proof.
  unfold tc_build_limit_tr, tc_build_limit_Z, tc_build_limit. destruct (nth_error trees (c_tree c)) as [t|]; [|reflexivity].
  destruct (ends g (c_edge c)) as [[a b]|]; [|reflexivity].
  destruct (sp_node_of Z t a); [|reflexivity]. destruct (sp_node_of Z t b); [|reflexivity]. cbv zeta.
  match goal with |- context [if xorb ?x ?y then _ else _] => destruct (xorb x y) end; [|reflexivity].
  destruct (use && Z.ltb lim (lx_wt Z 0 wts (c_edge c)))%bool; [reflexivity|].
  rewrite ovt_path_limit_erase.
  match goal with |- context [tc_path_limit ?a1 ?a2 ?a3 ?a4 ?a5 ?a6 ?a7 ?a8 ?a9 ?a10 ?a11 ?a12 ?a13] =>
    destruct (tc_path_limit a1 a2 a3 a4 a5 a6 a7 a8 a9 a10 a11 a12 a13) as [[[l1 w1]|]| | |] end; try reflexivity.
  cbn [fst]. rewrite ovt_path_limit_erase. reflexivity.
Qed.

Lemma ovt_body_step_erase g wts trees pars sg sorted i acc :
  fst (pt_body_step_tr g wts trees pars sg sorted i acc) = pt_body_step Z 0 Z.add Z.ltb g wts trees pars sg sorted i acc.
Proof.
  unfold pt_body_step_tr, pt_body_step. destruct acc as [rm| | |]; try reflexivity.
  destruct (nth_error sorted i) as [c|]; [|reflexivity]. cbv zeta. cbn [fst]. rewrite ovt_build_limit_erase. reflexivity.
Qed.

Lemma ovt_chunk_erase g wts trees pars sg sorted : forall is acc,
  fst (pt_chunk_tr g wts trees pars sg sorted is acc)
  = fold_left (fun a i => pt_body_step Z 0 Z.add Z.ltb g wts trees pars sg sorted i a) is acc.
Proof.
  induction is as [|i is IH]; intros acc; [reflexivity|].
  cbn [pt_chunk_tr fold_left fst]. rewrite IH, ovt_body_step_erase. reflexivity.
Qed.

Lemma ovt_reduce_erase wmaxv g wts trees pars sg sorted : forall t lo acc,
  fst (pt_reduce_tr wmaxv g wts trees pars sg sorted t lo acc)
  = eval_reduce (tr_result zcyc3) (pt_body_step Z 0 Z.add Z.ltb g wts trees pars sg sorted) (pt_join_err Z Z.ltb)
                (TrOk (pt_ident Z wmaxv)) t lo acc.
Proof.
  induction t as [len|rf a IHa b IHb|rf a IHa b IHb]; intros lo acc; cbn [pt_reduce_tr eval_reduce fst].
  - unfold run_chunk. apply ovt_chunk_erase.
  - rewrite IHb, IHa. reflexivity.
  - rewrite IHb, IHa. reflexivity.
Qed.

Lemma ovt_lookup_sched_erase wmaxv g wts trees sorted sg t1 t2 pars0 :
  fst (pt_lookup_sched_tr wmaxv g wts trees sorted sg t1 t2 pars0)
  = pt_lookup_sched_Z wmaxv g wts trees sorted sg t1 t2 pars0.
Proof.
  unfold pt_lookup_sched_tr, pt_lookup_sched_Z, pt_lookup_sched.
  match goal with |- context [parallel_for ?a ?b ?c ?d ?e] => destruct (parallel_for a b c d e) as [pars| | |] end;
    try reflexivity.
  cbv zeta. cbn [fst]. rewrite ovt_reduce_erase. reflexivity.
Qed.

Lemma ovt_lookup_erase wmaxv bits g wts trees sorted sg pos pars0 :
  fst (pt_lookup_tr wmaxv bits g wts trees sorted sg pos pars0) = pt_lookup_Z wmaxv bits g wts trees sorted sg pos pars0.
Proof.
  unfold pt_lookup_tr, pt_lookup_Z, pt_lookup.
  destruct (sched_of_bits bits pos (length trees)) as [t1 p1]. destruct (sched_of_bits bits p1 (length sorted)) as [t2 p2].
  cbv zeta. cbn [fst]. rewrite ovt_lookup_sched_erase. reflexivity.
Qed.

Lemma ovt_phases_tbb_erase wmaxv bits g wts fi trees sorted : forall ks sup pos pars acc total,
  fst (pt_phases_tr wmaxv bits g wts fi trees sorted ks sup pos pars acc total)
  = pt_phases Z 0 Z.add Z.ltb wmaxv bits g wts fi trees sorted ks sup pos pars acc total.
Proof.
  induction ks as [|k ks IH]; intros sup pos pars acc total; [reflexivity|].
  cbn [pt_phases_tr pt_phases].
  pose proof (ovt_lookup_erase wmaxv bits g wts trees sorted (indices_to_edges fi (nth k sup [])) pos pars) as E.
  unfold pt_lookup_Z in E.
  destruct (pt_lookup_tr wmaxv bits g wts trees sorted (indices_to_edges fi (nth k sup [])) pos pars) as [[r pos1] tr].
  cbn [fst] in E. rewrite <- E.
  destruct r as [[[[c w] [|]] pars1]| | |]; try reflexivity.
  specialize (IH (update_supports sup k (edges_to_indices fi c)) pos1 pars1 (c :: acc) (total + w)).
  destruct (pt_phases_tr wmaxv bits g wts fi trees sorted ks (update_supports sup k (edges_to_indices fi c)) pos1 pars1
                         (c :: acc) (total + w)) as [[r' pos'] tr'].
  cbn [fst] in IH |- *. exact IH.
Qed.

Lemma ovt_run_tbb_erase wmaxv bits g wts fi trees sorted :
  fst (pt_run_tr wmaxv bits g wts fi trees sorted) = pt_run_Z wmaxv bits g wts fi trees sorted.
Proof. apply ovt_phases_tbb_erase. Qed.

Lemma ovt_tbb_erase wmaxv b g wts roots picks arr bits :
  fst (mcb_sva_trees_tbb_tr wmaxv b g wts roots picks arr bits) = mcb_sva_trees_tbb_Z wmaxv b g wts roots picks arr bits.
Proof.
  unfold mcb_sva_trees_tbb_tr, mcb_sva_trees_tbb_Z, mcb_sva_trees_tbb.
  destruct (create_index g roots) as [fi|]; [|reflexivity]. cbv zeta. rewrite ovt_collection_erase.
  destruct (tb_collection Z 0 Z.add Z.ltb b g wts picks) as [[trees cands]| | | |]; try reflexivity.
  destruct (pt_arrange Z arr cands) as [sorted|]; [|reflexivity].
  pose proof (ovt_run_tbb_erase wmaxv bits g wts fi trees sorted) as E. unfold pt_run_Z in E.
  destruct (pt_run_tr wmaxv bits g wts fi trees sorted) as [[r pos] tr]. cbn [fst] in E |- *. rewrite <- E.
  reflexivity.
Qed.

(* ---- D. parmcb::dijkstra and the approximate algorithms (DijkstraModel.v, ApproxModel.v, ApproxParModel.v) -------------- *)

Notation zdj := (dj_state Z).

Definition dj_relax_tr (n : nat) (wts : list Z) (s u : nat) (du : Z) (st : option zdj) (ew : nat * nat)
  : option zdj * list Z :=
  match st with
  | None => (None, [])
  | Some st0 =>
      let '(e, w) := ew in
      if Nat.eqb w u then (st, [])
      else if Nat.eqb w s then (st, [])
      else
        (* c is formed before pred_map[w] is read (the access that is out of range in the model's None) *)
        let c := du + dj_wt Z 0 wts e in
        (if Nat.leb n w then None
         else
           match nth w (dj_pred Z st0) None with
           | None =>
               let d' := set_nth (dj_dist Z st0) w (Some c) in
               Some {| dj_dist := d'; dj_pred := set_nth (dj_pred Z st0) w (Some e);
                       dj_heap := heap_push (option Z) (dj_klt Z Z.ltb) (dj_key Z d') (dj_heap Z st0) w |}
           | Some _ =>
               match nth w (dj_dist Z st0) None with
               | None => None
               | Some dw =>
                   if Z.ltb c dw then
                     let d' := set_nth (dj_dist Z st0) w (Some c) in
                     match heap_update (option Z) (dj_klt Z Z.ltb) (dj_key Z d') (dj_heap Z st0) w with
                     | Some h' => Some {| dj_dist := d'; dj_pred := set_nth (dj_pred Z st0) w (Some e); dj_heap := h' |}
                     | None => None
                     end
                   else st
               end
           end, [c])
  end.

Fixpoint dj_fold_tr (n : nat) (wts : list Z) (s u : nat) (du : Z) (es : list (nat * nat)) (st : option zdj)
  : option zdj * list Z :=
  match es with
  | [] => (st, [])
  | ew :: es' =>
      let r1 := dj_relax_tr n wts s u du st ew in
      let r2 := dj_fold_tr n wts s u du es' (fst r1) in
      (fst r2, snd r1 ++ snd r2)
  end.

Fixpoint dj_loop_tr (fuel : nat) (g : graph) (wts : list Z) (s : nat) (st : zdj) : dj_result Z * list Z :=
  match fuel with
  | O => (DjFuel, [])
  | S fuel' =>
      match dj_heap Z st with
      | [] => (DjOk (dj_dist Z st) (dj_pred Z st), [])
      | u :: _ =>
          let st1 := {| dj_dist := dj_dist Z st; dj_pred := dj_pred Z st;
                        dj_heap := heap_pop (option Z) (dj_klt Z Z.ltb) (dj_key Z (dj_dist Z st)) (dj_heap Z st) |} in
          match nth u (dj_dist Z st) None with
          | None => (DjBroken, [])
          | Some du =>
              let r := dj_fold_tr (nv g) wts s u du (out_edges g u) (Some st1) in
              match fst r with
              | None => (DjBroken, snd r)
              | Some st2 => let r' := dj_loop_tr fuel' g wts s st2 in (fst r', snd r ++ snd r')
              end
          end
      end
  end.

Definition dijkstra_tr (g : graph) (wts : list Z) (s : nat) : dj_result Z * list Z :=
  if Nat.ltb s (nv g) then dj_loop_tr (S (nv g)) g wts s (dj_init Z 0 (nv g) s) else (DjBroken, []).

Fixpoint pred_chain_tr (fuel : nat) (h : graph) (R : list nat) (w : list Z) (pred : list (option nat))
         (cur : nat) (cyc : list nat) (acc : Z) : option (list nat * Z) * list Z :=
  match fuel with
  | O => (None, [])
  | S fuel' =>
      match nth cur pred None with
      | None => (Some (cyc, acc), [])
      | Some se =>
          match nth_error R se, ends h se with
          | Some ae, Some (a, b) =>
              let acc' := acc + nth ae w 0 in
              let other := if Nat.eqb b cur then a else b in
              if Nat.eqb other cur then (None, [acc'])
              else let r := pred_chain_tr fuel' h R w pred other (cyc ++ [ae]) acc' in (fst r, acc' :: snd r)
          | Some ae, None => (None, [acc + nth ae w 0])        (* weight += w(ae) precedes boost::target(spanner_ae) *)
          | None, _ => (None, [])
          end
      end
  end.

Definition dropped_cycle_tr (g : graph) (w : list Z) (sp : spanner) (e : nat)
  : (approx_error + (list nat * Z)) * list Z :=
  match ends g e with
  | None => (inl AeEdge, [])
  | Some (v, u) =>
      let rd := dijkstra_tr (sp_graph sp) (spanner_weights w sp) v in
      match fst rd with
      | DjOk _ pred =>
          let rc := pred_chain_tr (S (nv g)) (sp_graph sp) (retained sp) w pred u [] 0 in
          match fst rc with
          | None => (inl AeChain, snd rd ++ snd rc)
          | Some (cyc, acc) => (inr (cyc ++ [e], acc + nth e w 0), snd rd ++ snd rc ++ [acc + nth e w 0])
          end
      | _ => (inl AeDijkstra, snd rd)
      end
  end.

Fixpoint dropped_cycles_tr (g : graph) (w : list Z) (sp : spanner) (ds : list nat) (total : Z)
  : (approx_error + (list (list nat) * Z)) * list Z :=
  match ds with
  | [] => (inr ([], total), [])
  | e :: ds' =>
      let r1 := dropped_cycle_tr g w sp e in
      match fst r1 with
      | inl err => (inl err, snd r1)
      | inr (cyc, cw) =>
          let r2 := dropped_cycles_tr g w sp ds' (total + cw) in
          (match fst r2 with
           | inl err => inl err
           | inr (cs, t) => inr (cyc :: cs, t)
           end, snd r1 ++ (total + cw) :: snd r2)
      end
  end.

Section ApproxTr.
  Variable exact_tr : graph -> list Z -> sva_result Z * list Z.

  Definition approx_run_tr (g : graph) (w : list Z) (k : nat) (scan : list nat) : approx_result * list Z :=
    match construct_spanner g k scan with
    | SpOk sp =>
        if Nat.ltb k 1 then (ApproxThrow, [])
        else if existsb (fun e => Z.ltb (nth e w 0) 0) (seq 0 (ne g)) then (ApproxThrow, [])
        else
          let re := exact_tr (sp_graph sp) (spanner_weights w sp) in
          match fst re with
          | SvaOk scycles sw _ =>
              match translate_cycles (retained sp) scycles with
              | None => (ApproxError AeMap, snd re ++ [0 + sw])
              | Some tcycles =>
                  let rd := dropped_cycles_tr g w sp (dropped sp) 0 in
                  match fst rd with
                  | inl err => (ApproxError err, snd re ++ [0 + sw] ++ snd rd)
                  | inr (dcycles, dw) =>
                      (ApproxOk (tcycles ++ dcycles) ((0 + sw) + dw), snd re ++ [0 + sw] ++ snd rd ++ [(0 + sw) + dw])
                  end
              end
          | _ => (ApproxError AeExact, snd re)
          end
    | _ => (ApproxError AeSpanner, [])
    end.
End ApproxTr.

(* approx_mcb_sva_signed: the exact phase is mcb_sva_signed on the spanner, traced by OverflowProofs4.mcb_sva_signed_Z_tr *)
Definition approx_sva_signed_Z_tr (g : graph) (w : list Z) (k : nat) (scan roots eord : list nat) : approx_result * list Z :=
  approx_run_tr (fun h wh => mcb_sva_signed_Z_tr h wh roots eord) g w k scan.

Lemma ovt_dj_relax_erase n wts s u du st ew :
  fst (dj_relax_tr n wts s u du st ew) = dj_relax Z 0 Z.add Z.ltb n wts s u du st ew.
Proof.
  unfold dj_relax_tr, dj_relax. destruct st as [st0|]; [|reflexivity]. destruct ew as [e w].
  destruct (Nat.eqb w u); [reflexivity|]. destruct (Nat.eqb w s); [reflexivity|]. reflexivity.
Qed.

Lemma ovt_dj_fold_erase n wts s u du : forall es st,
  fst (dj_fold_tr n wts s u du es st) = fold_left (dj_relax Z 0 Z.add Z.ltb n wts s u du) es st.
Proof.
  induction es as [|ew es IH]; intros st; [reflexivity|].
  cbn [dj_fold_tr fold_left fst]. rewrite IH, ovt_dj_relax_erase. reflexivity.
Qed.

Lemma ovt_dj_loop_erase g wts s : forall fuel st,
  fst (dj_loop_tr fuel g wts s st) = dj_loop Z 0 Z.add Z.ltb fuel g wts s st.
Proof.
  induction fuel as [|fuel IH]; intros st; [reflexivity|].
  cbn [dj_loop_tr dj_loop]. destruct (dj_heap Z st) as [|u r]; [reflexivity|]. cbv zeta.
  destruct (nth u (dj_dist Z st) None) as [du|]; [|reflexivity].
  rewrite ovt_dj_fold_erase.
  match goal with |- context [fold_left ?f ?l ?a] => destruct (fold_left f l a) as [st2|] end; [|reflexivity].
  cbn [fst]. apply IH.
Qed.

Lemma ovt_dijkstra_plain_erase g wts s : fst (dijkstra_tr g wts s) = dijkstra Z 0 Z.add Z.ltb g wts s.
Proof. unfold dijkstra_tr, dijkstra. destruct (Nat.ltb s (nv g)); [apply ovt_dj_loop_erase|reflexivity]. Qed.

Lemma ovt_pred_chain_erase h R w pred : forall fuel cur cyc acc,
  fst (pred_chain_tr fuel h R w pred cur cyc acc) = pred_chain fuel h R w pred cur cyc acc.
Proof.
  induction fuel as [|fuel IH]; intros cur cyc acc; [reflexivity|].
  cbn [pred_chain_tr pred_chain]. destruct (nth cur pred None) as [se|]; [|reflexivity].
  destruct (nth_error R se) as [ae|]; [|reflexivity]. destruct (ends h se) as [[a b]|]; [|reflexivity]. cbv zeta.
  destruct (Nat.eqb (if Nat.eqb b cur then a else b) cur); [reflexivity|]. cbn [fst]. apply IH.
Qed.

Lemma ovt_dropped_cycle_erase g w sp e : fst (dropped_cycle_tr g w sp e) = dropped_cycle g w sp e.
Proof.
  unfold dropped_cycle_tr, dropped_cycle. destruct (ends g e) as [[v u]|]; [|reflexivity]. cbv zeta.
  rewrite ovt_dijkstra_plain_erase.
  destruct (dijkstra Z 0 Z.add Z.ltb (sp_graph sp) (spanner_weights w sp) v) as [dist pred| |]; try reflexivity.
  rewrite ovt_pred_chain_erase.
  destruct (pred_chain (S (nv g)) (sp_graph sp) (retained sp) w pred u [] 0) as [[cyc acc]|]; reflexivity.
Qed.

Lemma ovt_dropped_cycles_erase g w sp : forall ds total,
  fst (dropped_cycles_tr g w sp ds total) = dropped_cycles g w sp ds total.
Proof.
  induction ds as [|e ds IH]; intros total; [reflexivity|].
  cbn [dropped_cycles_tr dropped_cycles]. cbv zeta. rewrite ovt_dropped_cycle_erase.
  destruct (dropped_cycle g w sp e) as [err|[cyc cw]]; [reflexivity|]. cbn [fst]. rewrite IH. reflexivity.
Qed.

Lemma ovt_approx_run_erase exact_tr exact g w k scan :
  (forall h wh, fst (exact_tr h wh) = exact h wh) ->
  fst (approx_run_tr exact_tr g w k scan) = approx_run exact g w k scan.
Proof.
  intros He. unfold approx_run_tr, approx_run. destruct (construct_spanner g k scan) as [sp| | |]; try reflexivity.
  destruct (Nat.ltb k 1); [reflexivity|].
  destruct (existsb (fun e => Z.ltb (nth e w 0) 0) (seq 0 (ne g))); [reflexivity|]. cbv zeta. rewrite He.
  destruct (exact (sp_graph sp) (spanner_weights w sp)) as [scycles sw sup| | |]; try reflexivity.
  destruct (translate_cycles (retained sp) scycles) as [tcycles|]; [|reflexivity].
  rewrite ovt_dropped_cycles_erase.
  destruct (dropped_cycles g w sp (dropped sp) 0) as [err|[dcycles dw]]; reflexivity.
Qed.

Lemma ovt_approx_signed_erase g w k scan roots eord :
  fst (approx_sva_signed_Z_tr g w k scan roots eord) = approx_sva_signed_Z g w k scan roots eord.
Proof. apply ovt_approx_run_erase. intros h wh. apply ov_mcb_erase. Qed.

(* ---- E. the TBB and MPI flavours of mcb_sva_signed (ParSignedModel.v, MpiSignedModel.v): the same searches --------------- *)

(* SchedModel.eval_reduce with a traced body; join and identity form no sums (cycle_min compares) *)
Section ReduceTr.
  Variable A : Type.
  Variable body_tr : nat -> A -> A * list Z.
  Variable join : A -> A -> A.
  Variable ident : A.

  Fixpoint run_chunk_tr (is : list nat) (acc : A) : A * list Z :=
    match is with
    | [] => (acc, [])
    | i :: is' =>
        let r1 := body_tr i acc in
        let r2 := run_chunk_tr is' (fst r1) in
        (fst r2, snd r1 ++ snd r2)
    end.

  Fixpoint eval_reduce_tr (t : sched) (lo : nat) (acc : A) : A * list Z :=
    match t with
    | Run len => run_chunk_tr (seq lo len) acc
    | Seq _ a b =>
        let r1 := eval_reduce_tr a lo acc in
        let r2 := eval_reduce_tr b (lo + size a) (fst r1) in
        (fst r2, snd r1 ++ snd r2)
    | Fork _ a b =>
        let r1 := eval_reduce_tr a lo acc in
        let r2 := eval_reduce_tr b (lo + size a) ident in
        (join (fst r1) (fst r2), snd r1 ++ snd r2)
    end.

  Variable body : nat -> A -> A.
  Hypothesis Hbody : forall i a, fst (body_tr i a) = body i a.

  Lemma ovt_run_chunk_erase : forall is acc, fst (run_chunk_tr is acc) = fold_left (fun a i => body i a) is acc.
  Proof.
    induction is as [|i is IH]; intros acc; [reflexivity|].
    cbn [run_chunk_tr fold_left fst]. rewrite IH, Hbody. reflexivity.
  Qed.

  Lemma ovt_eval_reduce_erase : forall t lo acc, fst (eval_reduce_tr t lo acc) = eval_reduce A body join ident t lo acc.
  Proof.
    induction t as [len|rf a IHa b IHb|rf a IHa b IHb]; intros lo acc; cbn [eval_reduce_tr eval_reduce fst].
    - apply ovt_run_chunk_erase.
    - rewrite IHb, IHa. reflexivity.
    - rewrite IHb, IHa. reflexivity.
  Qed.
End ReduceTr.

Notation zracc := (racc Z).

Definition all_vertices_step_tr (g : graph) (wts : list Z) (signed : list nat) (i : nat) (acc : zracc) : zracc * list Z :=
  match acc with
  | None => (None, [])
  | Some best =>
      let P := {| sp_g := g; sp_wts := wts; sp_signed := signed; sp_hidden := [];
                  sp_use_hidden := false; sp_limit := limit_of Z best |} in
      let r := bidirectional_tr P i true i false in
      (match fst r with
       | SearchError _ => None
       | NotFound _ => Some best
       | Found _ c w => Some (if better Z Z.ltb w best then Some (c, w) else best)
       end, snd r)
  end.

Definition par_hidden_step_tr (g : graph) (wts : list Z) (signed sev : list nat) (i : nat) (acc : zracc) : zracc * list Z :=
  match acc with
  | None => (None, [])
  | Some best =>
      match nth_error sev i with
      | None => (None, [])
      | Some se =>
          match ends g se with
          | None => (None, [])
          | Some (sv, su) =>
              let P := {| sp_g := g; sp_wts := wts; sp_signed := signed; sp_hidden := skipn i sev;
                          sp_use_hidden := true; sp_limit := limit_of Z best |} in
              let r := bidirectional_tr P sv true su true in
              match fst r with
              | SearchError _ => (None, snd r)
              | NotFound _ => (Some best, snd r)
              | Found _ c w =>
                  if memb se c then (Some best, snd r)
                  else
                    let w' := w + wtof Z 0 wts se in
                    (Some (if better Z Z.ltb w' best then Some (set_insert se c, w') else best), snd r ++ [w'])
              end
          end
      end
  end.

Definition find_single_edge_tr (g : graph) (wts : list Z) (se : nat) : zracc * list Z :=
  match ends g se with
  | None => (None, [])
  | Some (sv, su) =>
      let P := {| sp_g := g; sp_wts := wts; sp_signed := []; sp_hidden := [se];
                  sp_use_hidden := true; sp_limit := None |} in
      let r := bidirectional_tr P sv true su true in
      match fst r with
      | SearchError _ => (None, snd r)
      | NotFound _ => (Some None, snd r)
      | Found _ c w =>
          if memb se c then (Some None, snd r)
          else (Some (Some (set_insert se c, w + wtof Z 0 wts se)), snd r ++ [w + wtof Z 0 wts se])
      end
  end.

Definition par_find_tr (eord : nat -> nat) (bits : list bool) (g : graph) (wts : list Z) (fi : forest_index) (S : vec)
           (pos : nat) : zracc * nat * list Z :=
  let signed := indices_to_edges fi S in
  match signed with
  | [se] => let r := find_single_edge_tr g wts se in (fst r, pos, snd r)
  | _ =>
      if Nat.leb (nv g) (length signed) then
        let (t, pos') := sched_of_bits bits pos (nv g) in
        let r := eval_reduce_tr zracc (all_vertices_step_tr g wts signed) (join_err Z Z.ltb) (ident_err Z) t 0%nat (ident_err Z) in
        (fst r, pos', snd r)
      else
        let sev := sort_eord eord signed in
        let (t, pos') := sched_of_bits bits pos (length sev) in
        let r := eval_reduce_tr zracc (par_hidden_step_tr g wts signed sev) (join_err Z Z.ltb) (ident_err Z) t 0%nat (ident_err Z) in
        (fst r, pos', snd r)
  end.

Fixpoint par_phases_tr (eord : nat -> nat) (bits : list bool) (g : graph) (wts : list Z) (fi : forest_index)
         (ks : list nat) (sup : list vec) (pos : nat) (acc : list (list nat)) (total : Z) : sva_result Z * nat * list Z :=
  match ks with
  | [] => (SvaOk (rev acc) total sup, pos, [])
  | k :: ks' =>
      let csd := fi_csd fi in
      let ms := select_min_support_tbb csd k sup in
      let S1 := if Nat.eqb ms k then sup else swap_nth sup k ms in
      let '(r, pos1, tr) := par_find_tr eord bits g wts fi (nth k S1 []) pos in
      match r with
      | None => (SvaError k, pos1, tr)
      | Some None => (SvaNoCycle k, pos1, tr)
      | Some (Some (c, w)) =>
          let cyclek := edges_to_indices fi c in
          let (t, pos2) := sched_of_bits bits pos1 (csd - S k) in
          let S2 := parallel_for (list vec) (update_chunk k cyclek) t (S k) S1 in
          let '(r', pos', tr') := par_phases_tr eord bits g wts fi ks' S2 pos2 (c :: acc) (total + w) in
          (r', pos', tr ++ (total + w) :: tr')
      end
  end.

Definition mcb_sva_signed_tbb_Z_tr (g : graph) (wts : list Z) (roots : list nat) (eord : list nat) (bits : list bool)
           (perm : list nat) : sva_result Z * nat * list Z :=
  match create_index g roots with
  | None => (SvaNoIndex, 0%nat, [])
  | Some fi =>
      let csd := fi_csd fi in
      let (t0, pos0) := sched_of_bits bits 0 csd in
      par_phases_tr (fun e => nth e eord 0%nat) bits g wts fi (seq 0 csd) (initial_supports t0 perm) pos0 [] 0
  end.

Lemma ovt_all_vertices_step_erase g wts signed i acc :
  fst (all_vertices_step_tr g wts signed i acc) = all_vertices_step Z 0 Z.add Z.ltb g wts signed i acc.
Proof.
  unfold all_vertices_step_tr, all_vertices_step. destruct acc as [best|]; [|reflexivity]. cbv zeta. cbn [fst].
  rewrite ov_search_erase. reflexivity.
Qed.

Lemma ovt_par_hidden_step_erase g wts signed sev i acc :
  fst (par_hidden_step_tr g wts signed sev i acc) = ParSignedModel.hidden_step Z 0 Z.add Z.ltb g wts signed sev i acc.
Proof.
  unfold par_hidden_step_tr, ParSignedModel.hidden_step. destruct acc as [best|]; [|reflexivity].
  destruct (nth_error sev i) as [se|]; [|reflexivity]. destruct (ends g se) as [[sv su]|]; [|reflexivity]. cbv zeta.
  rewrite ov_search_erase.
  match goal with |- context [bidirectional_signed_dijkstra ?x1 ?x2 ?x3 ?x4 ?x5 ?x6 ?x7 ?x8 ?x9] =>
    destruct (bidirectional_signed_dijkstra x1 x2 x3 x4 x5 x6 x7 x8 x9) as [c w| |] end; try reflexivity.
  destruct (memb se c); reflexivity.
Qed.

Lemma ovt_find_single_edge_erase g wts se :
  fst (find_single_edge_tr g wts se) = find_single_edge Z 0 Z.add Z.ltb g wts se.
Proof.
  unfold find_single_edge_tr, find_single_edge. destruct (ends g se) as [[sv su]|]; [|reflexivity]. cbv zeta.
  rewrite ov_search_erase.
  match goal with |- context [bidirectional_signed_dijkstra ?x1 ?x2 ?x3 ?x4 ?x5 ?x6 ?x7 ?x8 ?x9] =>
    destruct (bidirectional_signed_dijkstra x1 x2 x3 x4 x5 x6 x7 x8 x9) as [c w| |] end; try reflexivity.
  destruct (memb se c); reflexivity.
Qed.

Lemma ovt_par_find_erase eord bits g wts fi S pos :
  fst (par_find_tr eord bits g wts fi S pos) = ParSignedModel.find Z 0 Z.add Z.ltb eord bits g wts fi S pos.
Proof.
  unfold par_find_tr, ParSignedModel.find. cbv zeta.
  assert (Hgen : forall signed,
    fst (if Nat.leb (nv g) (length signed)
         then let (t, pos') := sched_of_bits bits pos (nv g) in
              let r := eval_reduce_tr zracc (all_vertices_step_tr g wts signed) (join_err Z Z.ltb) (ident_err Z) t 0%nat (ident_err Z) in
              (fst r, pos', snd r)
         else let (t, pos') := sched_of_bits bits pos (length (sort_eord eord signed)) in
              let r := eval_reduce_tr zracc (par_hidden_step_tr g wts signed (sort_eord eord signed)) (join_err Z Z.ltb)
                                      (ident_err Z) t 0%nat (ident_err Z) in
              (fst r, pos', snd r))
    = (if Nat.leb (nv g) (length signed)
       then let (t, pos') := sched_of_bits bits pos (nv g) in
            (parallel_reduce zracc (all_vertices_step Z 0 Z.add Z.ltb g wts signed) (join_err Z Z.ltb) (ident_err Z) t 0, pos')
       else let (t, pos') := sched_of_bits bits pos (length (sort_eord eord signed)) in
            (parallel_reduce zracc (ParSignedModel.hidden_step Z 0 Z.add Z.ltb g wts signed (sort_eord eord signed))
                             (join_err Z Z.ltb) (ident_err Z) t 0, pos'))).
  { intros signed. destruct (Nat.leb (nv g) (length signed)).
    - destruct (sched_of_bits bits pos (nv g)) as [t pos']. cbv zeta. cbn [fst]. unfold parallel_reduce.
      rewrite (ovt_eval_reduce_erase zracc _ _ _ (all_vertices_step Z 0 Z.add Z.ltb g wts signed)
                 (ovt_all_vertices_step_erase g wts signed)). reflexivity.
    - destruct (sched_of_bits bits pos (length (sort_eord eord signed))) as [t pos']. cbv zeta. cbn [fst].
      unfold parallel_reduce.
      rewrite (ovt_eval_reduce_erase zracc _ _ _ (ParSignedModel.hidden_step Z 0 Z.add Z.ltb g wts signed (sort_eord eord signed))
                 (ovt_par_hidden_step_erase g wts signed (sort_eord eord signed))). reflexivity. }
  destruct (indices_to_edges fi S) as [|se [|se2 rest]]; [apply Hgen| |apply Hgen].
  cbn [fst]. rewrite ovt_find_single_edge_erase. reflexivity.
Qed.

Lemma ovt_par_phases_erase eord bits g wts fi : forall ks sup pos acc total,
  fst (par_phases_tr eord bits g wts fi ks sup pos acc total)
  = par_phases Z 0 Z.add Z.ltb eord bits g wts fi ks sup pos acc total.
Proof.
  induction ks as [|k ks IH]; intros sup pos acc total; [reflexivity|].
  cbn [par_phases_tr par_phases]. cbv zeta.
  match goal with |- context [par_find_tr ?a1 ?a2 ?a3 ?a4 ?a5 ?a6 ?a7] =>
    pose proof (ovt_par_find_erase a1 a2 a3 a4 a5 a6 a7) as E; destruct (par_find_tr a1 a2 a3 a4 a5 a6 a7) as [[r pos1] tr] end.
  cbn [fst] in E. rewrite <- E.
  destruct r as [[[c w]|]|]; try reflexivity.
  destruct (sched_of_bits bits pos1 (fi_csd fi - S k)) as [t pos2].
  match goal with |- context [par_phases_tr ?a1 ?a2 ?a3 ?a4 ?a5 ?a6 ?a7 ?a8 ?a9 ?a10] =>
    specialize (IH a7 a8 a9 a10); destruct (par_phases_tr a1 a2 a3 a4 a5 a6 a7 a8 a9 a10) as [[r' pos'] tr'] end.
  cbn [fst] in IH |- *. exact IH.
Qed.

Lemma ovt_signed_tbb_erase g wts roots eord bits perm :
  fst (mcb_sva_signed_tbb_Z_tr g wts roots eord bits perm) = mcb_sva_signed_tbb_Z g wts roots eord bits perm.
Proof.
  unfold mcb_sva_signed_tbb_Z_tr, mcb_sva_signed_tbb_Z, mcb_sva_signed_tbb.
  destruct (create_index g roots) as [fi|]; [|reflexivity]. cbv zeta.
  destruct (sched_of_bits bits 0 (fi_csd fi)) as [t0 pos0]. apply ovt_par_phases_erase.
Qed.

(* MPI: the local search of a rank (MpiSignedModel.signed_act); the collectives compare and broadcast, the running total of
   rank 0 is the sequential one *)
Definition mpi_hidden_step_tr (g : graph) (wts : list Z) (signed ses : list nat) (best : option (list nat * Z))
  : lres Z * list Z :=
  match ses with
  | [] => (Some best, [])
  | se :: _ =>
      match ends g se with
      | None => (None, [])
      | Some (sv, su) =>
          let P := {| sp_g := g; sp_wts := wts; sp_signed := signed; sp_hidden := ses;
                      sp_use_hidden := true; sp_limit := limit_of Z best |} in
          let r := bidirectional_tr P sv true su true in
          match fst r with
          | SearchError _ => (None, snd r)
          | NotFound _ => (Some best, snd r)
          | Found _ c w =>
              if memb se c then (Some best, snd r)
              else
                let w' := w + wtof Z 0 wts se in
                (Some (if better Z Z.ltb w' best then Some (set_insert se c, w') else best), snd r ++ [w'])
          end
      end
  end.

Fixpoint mpi_hidden_slice_tr (g : graph) (wts : list Z) (signed ses : list nat) (cnt : nat) (best : option (list nat * Z))
         {struct cnt} : lres Z * list Z :=
  match cnt with
  | O => (Some best, [])
  | S cnt' =>
      match ses with
      | [] => (Some best, [])
      | _ :: ses' =>
          let r := mpi_hidden_step_tr g wts signed ses best in
          match fst r with
          | None => (None, snd r)
          | Some best' => let r' := mpi_hidden_slice_tr g wts signed ses' cnt' best' in (fst r', snd r ++ snd r')
          end
      end
  end.

Definition mpi_single_search_tr (g : graph) (wts : list Z) (signed : list nat) : lres Z * list Z :=
  match signed with
  | [] => (Some None, [])
  | se :: _ =>
      match ends g se with
      | None => (None, [])
      | Some (sv, su) =>
          let P := {| sp_g := g; sp_wts := wts; sp_signed := []; sp_hidden := signed;
                      sp_use_hidden := true; sp_limit := None |} in
          let r := bidirectional_tr P sv true su true in
          match fst r with
          | SearchError _ => (None, snd r)
          | NotFound _ => (Some None, snd r)
          | Found _ c w =>
              if memb se c then (Some None, snd r)
              else (Some (Some (set_insert se c, w + wtof Z 0 wts se)), snd r ++ [w + wtof Z 0 wts se])
          end
      end
  end.

(* the local result of rank r in phase k (what signed_act wraps in ANoColl / ARed) *)
Definition mpi_signed_local_tr (g : graph) (wts : list Z) (P : nat) (ord : nat -> nat -> nat) (fi : forest_index)
           (r : nat) (Sv : vec) : lres Z * list Z :=
  let signed := indices_to_edges fi Sv in
  if Nat.eqb (length signed) 1 then
    (if Nat.eqb r 0 then mpi_single_search_tr g wts signed else (Some None, []))
  else if Nat.ltb (length signed) (nv g) then
    let sv := sort_eord (ord r) signed in
    mpi_hidden_slice_tr g wts signed (skipn (slice_lo (length sv) P r) sv) (slice_len (length sv) P r) None
  else
    let r' := all_vertices_tr g wts signed (slice P r (seq 0 (nv g))) None in (fst r', snd r').

Definition mpi_signed_local (g : graph) (wts : list Z) (P : nat) (ord : nat -> nat -> nat) (fi : forest_index)
           (r : nat) (Sv : vec) : lres Z :=
  match signed_act Z 0 Z.add Z.ltb g wts P ord fi r 0%nat Sv with
  | ANoColl x => x
  | ARed x => x
  end.

Lemma ovt_mpi_hidden_step_erase g wts signed ses best :
  fst (mpi_hidden_step_tr g wts signed ses best) = MpiSignedModel.hidden_step Z 0 Z.add Z.ltb g wts signed ses best.
Proof.
  unfold mpi_hidden_step_tr, MpiSignedModel.hidden_step. destruct ses as [|se ses']; [reflexivity|].
  destruct (ends g se) as [[sv su]|]; [|reflexivity]. cbv zeta. rewrite ov_search_erase.
  match goal with |- context [bidirectional_signed_dijkstra ?x1 ?x2 ?x3 ?x4 ?x5 ?x6 ?x7 ?x8 ?x9] =>
    destruct (bidirectional_signed_dijkstra x1 x2 x3 x4 x5 x6 x7 x8 x9) as [c w| |] end; try reflexivity.
  destruct (memb se c); reflexivity.
Qed.

Lemma ovt_mpi_hidden_slice_erase g wts signed : forall cnt ses best,
  fst (mpi_hidden_slice_tr g wts signed ses cnt best) = hidden_slice Z 0 Z.add Z.ltb g wts signed ses cnt best.
Proof.
  induction cnt as [|cnt IH]; intros ses best; [reflexivity|].
  cbn [mpi_hidden_slice_tr hidden_slice]. destruct ses as [|se ses']; [reflexivity|]. cbv zeta.
  rewrite ovt_mpi_hidden_step_erase.
  destruct (MpiSignedModel.hidden_step Z 0 Z.add Z.ltb g wts signed (se :: ses') best) as [best'|]; [|reflexivity].
  cbn [fst]. apply IH.
Qed.

Lemma ovt_mpi_single_search_erase g wts signed :
  fst (mpi_single_search_tr g wts signed) = single_search Z 0 Z.add Z.ltb g wts signed.
Proof.
  unfold mpi_single_search_tr, single_search. destruct signed as [|se rest]; [reflexivity|].
  destruct (ends g se) as [[sv su]|]; [|reflexivity]. cbv zeta. rewrite ov_search_erase.
  match goal with |- context [bidirectional_signed_dijkstra ?x1 ?x2 ?x3 ?x4 ?x5 ?x6 ?x7 ?x8 ?x9] =>
    destruct (bidirectional_signed_dijkstra x1 x2 x3 x4 x5 x6 x7 x8 x9) as [c w| |] end; try reflexivity.
  destruct (memb se c); reflexivity.
Qed.

Lemma ovt_mpi_local_erase g wts P ord fi r Sv :
  fst (mpi_signed_local_tr g wts P ord fi r Sv) = mpi_signed_local g wts P ord fi r Sv.
Proof.
  unfold mpi_signed_local_tr, mpi_signed_local, signed_act. cbv zeta.
  destruct (Nat.eqb (length (indices_to_edges fi Sv)) 1).
  - destruct (Nat.eqb r 0); [apply ovt_mpi_single_search_erase|reflexivity].
  - destruct (Nat.ltb (length (indices_to_edges fi Sv)) (nv g)).
    + unfold local_hidden. apply ovt_mpi_hidden_slice_erase.
    + cbn [fst]. unfold local_vertices. apply ov_all_vertices_erase.
Qed.

(* ---- F. the TBB flavour of the approximate algorithms (ApproxParModel.v) ------------------------------------------------- *)

(* one iteration of the loop inside the parallel_for lambda: the per-edge sums are those of dropped_cycle *)
Definition tbb_iter_tr (g : graph) (w : list Z) (sp : spanner) (ds : list nat) (i : nat) (st : cv_state) : cv_state * list Z :=
  match st with
  | inl err => (inl err, [])
  | inr (cycles, weights) =>
      match nth_error ds i with
      | None => (inl TbbAt, [])
      | Some e =>
          let r := dropped_cycle_tr g w sp e in
          (match fst r with
           | inl err => inl (TbbSeq err)
           | inr (cyc, cw) => inr (cycles ++ [cyc], weights ++ [cw])
           end, snd r)
      end
  end.

(* the chunks of the parallel_for, in execution order *)
Fixpoint tbb_chunks_tr (g : graph) (w : list Z) (sp : spanner) (ds : list nat) (cs : list (nat * nat)) (st : cv_state)
  : cv_state * list Z :=
  match cs with
  | [] => (st, [])
  | c :: cs' =>
      let r1 := run_chunk_tr cv_state (tbb_iter_tr g w sp ds) (seq (fst c) (snd c)) st in
      let r2 := tbb_chunks_tr g w sp ds cs' (fst r1) in
      (fst r2, snd r1 ++ snd r2)
  end.

Definition tbb_fill_tr (g : graph) (w : list Z) (sp : spanner) (ds : list nat) (t1 : sched) (perm_c perm_w : list nat)
  : cv_state * list Z :=
  let r := tbb_chunks_tr g w sp ds (chunks_of t1 0) (inr ([], [])) in
  (match fst r with
   | inl err => inl err
   | inr (cycles, weights) => inr (shuffle_gen [] perm_c cycles, shuffle_gen 0 perm_w weights)
   end, snd r).

(* the parallel_reduce over cycles_weights: std::accumulate in the body, std::plus as join — both form sums *)
Definition sum_step_tr (ws : list Z) (i : nat) (acc : option Z) : option Z * list Z :=
  match acc, nth_error ws i with
  | Some a, Some x => (Some (a + x), [a + x])
  | _, _ => (None, [])
  end.

Fixpoint tbb_sum_eval_tr (ws : list Z) (t : sched) (lo : nat) (acc : option Z) : option Z * list Z :=
  match t with
  | Run len => run_chunk_tr (option Z) (sum_step_tr ws) (seq lo len) acc
  | Seq _ a b =>
      let r1 := tbb_sum_eval_tr ws a lo acc in
      let r2 := tbb_sum_eval_tr ws b (lo + size a) (fst r1) in
      (fst r2, snd r1 ++ snd r2)
  | Fork _ a b =>
      let r1 := tbb_sum_eval_tr ws a lo acc in
      let r2 := tbb_sum_eval_tr ws b (lo + size a) (Some 0) in
      match fst r1, fst r2 with
      | Some x, Some y => (Some (x + y), snd r1 ++ snd r2 ++ [x + y])
      | _, _ => (None, snd r1 ++ snd r2)
      end
  end.

Definition tbb_sum_tr (t2 : sched) (ws : list Z) : option Z * list Z := tbb_sum_eval_tr ws t2 0%nat (Some 0).

Definition tbb_builder_tr (bits : list bool) (g : graph) (w : list Z) (sp : spanner) (pos : nat) (perm_c perm_w : list nat)
  : (tbb_error + (list (list nat) * Z)) * nat * list Z :=
  let ds := dropped sp in
  let (t1, pos1) := sched_of_bits bits pos (length ds) in
  let rf := tbb_fill_tr g w sp ds t1 perm_c perm_w in
  match fst rf with
  | inl err => (inl err, pos1, snd rf)
  | inr (cycles, weights) =>
      let (t2, pos2) := sched_of_bits bits pos1 (length weights) in
      let rs := tbb_sum_tr t2 weights in
      match fst rs with
      | None => (inl TbbRange, pos2, snd rf ++ snd rs)
      | Some total => (inr (cycles, total), pos2, snd rf ++ snd rs)
      end
  end.

Section ApproxTbbTr.
  Variable exact_tr : graph -> list Z -> sva_result Z * nat * list Z.
  Variable bits : list bool.

  Definition approx_run_tbb_tr (g : graph) (w : list Z) (k : nat) (scan : list nat) (perm_c perm_w : list nat)
    : tbb_result * nat * list Z :=
    match construct_spanner g k scan with
    | SpOk sp =>
        if Nat.ltb k 1 then (TbbRun ApproxThrow, 0%nat, [])
        else if existsb (fun e => Z.ltb (nth e w 0) 0) (seq 0 (ne g)) then (TbbRun ApproxThrow, 0%nat, [])
        else
          let '(r, pos, tre) := exact_tr (sp_graph sp) (spanner_weights w sp) in
          match r with
          | SvaOk scycles sw _ =>
              match translate_cycles (retained sp) scycles with
              | None => (TbbRun (ApproxError AeMap), pos, tre ++ [0 + sw])
              | Some tcycles =>
                  let '(b, pos', trb) := tbb_builder_tr bits g w sp pos perm_c perm_w in
                  match b with
                  | inl (TbbSeq err) => (TbbRun (ApproxError err), pos', tre ++ [0 + sw] ++ trb)
                  | inl err => (TbbFail err, pos', tre ++ [0 + sw] ++ trb)
                  | inr (dcycles, dw) =>
                      (TbbRun (ApproxOk (tcycles ++ dcycles) ((0 + sw) + dw)), pos', tre ++ [0 + sw] ++ trb ++ [(0 + sw) + dw])
                  end
              end
          | _ => (TbbRun (ApproxError AeExact), pos, tre)
          end
    | _ => (TbbRun (ApproxError AeSpanner), 0%nat, [])
    end.
End ApproxTbbTr.

Definition approx_sva_signed_tbb_Z_tr (g : graph) (w : list Z) (k : nat) (scan roots eord : list nat) (bits : list bool)
           (perm1 perm_c perm_w : list nat) : tbb_result * nat * list Z :=
  approx_run_tbb_tr (fun h wh => mcb_sva_signed_tbb_Z_tr h wh roots eord bits perm1) bits g w k scan perm_c perm_w.

Lemma ovt_tbb_iter_erase g w sp ds i st : fst (tbb_iter_tr g w sp ds i st) = tbb_iter g w sp ds st i.
Proof.
  unfold tbb_iter_tr, tbb_iter. destruct st as [err|[cycles weights]]; [reflexivity|].
  destruct (nth_error ds i) as [e|]; [|reflexivity]. cbv zeta. cbn [fst]. rewrite ovt_dropped_cycle_erase. reflexivity.
Qed.

Lemma ovt_tbb_chunks_erase g w sp ds : forall cs st,
  fst (tbb_chunks_tr g w sp ds cs st) = fold_left (fun s c => tbb_chunk g w sp ds (fst c) (snd c) s) cs st.
Proof.
  induction cs as [|c cs IH]; intros st; [reflexivity|].
  cbn [tbb_chunks_tr fold_left fst]. rewrite IH. f_equal. unfold tbb_chunk.
  rewrite (ovt_run_chunk_erase cv_state (tbb_iter_tr g w sp ds) (fun i s => tbb_iter g w sp ds s i)
             (fun i s => ovt_tbb_iter_erase g w sp ds i s)). reflexivity.
Qed.

Lemma ovt_tbb_fill_erase g w sp ds t1 perm_c perm_w :
  fst (tbb_fill_tr g w sp ds t1 perm_c perm_w) = tbb_fill g w sp ds t1 perm_c perm_w.
Proof.
  unfold tbb_fill_tr, tbb_fill, parallel_for. cbv zeta. cbn [fst]. rewrite ovt_tbb_chunks_erase. reflexivity.
Qed.

Lemma ovt_sum_step_erase ws i acc : fst (sum_step_tr ws i acc) = sum_step ws i acc.
Proof. unfold sum_step_tr, sum_step. destruct acc as [a|]; [|reflexivity]. destruct (nth_error ws i); reflexivity. Qed.

Lemma ovt_tbb_sum_eval_erase ws : forall t lo acc,
  fst (tbb_sum_eval_tr ws t lo acc) = eval_reduce (option Z) (sum_step ws) sum_join (Some 0) t lo acc.
Proof.
  induction t as [len|rf a IHa b IHb|rf a IHa b IHb]; intros lo acc; cbn [tbb_sum_eval_tr eval_reduce].
  - unfold run_chunk. apply (ovt_run_chunk_erase (option Z) (sum_step_tr ws) (sum_step ws) (ovt_sum_step_erase ws)).
  - cbn [fst]. rewrite IHb, IHa. reflexivity.
  - rewrite <- IHa, <- IHb. unfold sum_join.
    destruct (fst (tbb_sum_eval_tr ws a lo acc)) as [x|]; [|reflexivity].
    destruct (fst (tbb_sum_eval_tr ws b (lo + size a) (Some 0))) as [y|]; reflexivity.
Qed.

Lemma ovt_tbb_sum_erase t2 ws : fst (tbb_sum_tr t2 ws) = tbb_sum t2 ws.
Proof. apply ovt_tbb_sum_eval_erase. Qed.

Lemma ovt_tbb_builder_erase bits g w sp pos perm_c perm_w :
  fst (tbb_builder_tr bits g w sp pos perm_c perm_w) = tbb_builder bits g w sp pos perm_c perm_w.
Proof.
  unfold tbb_builder_tr, tbb_builder. cbv zeta.
  destruct (sched_of_bits bits pos (length (dropped sp))) as [t1 pos1].
  rewrite ovt_tbb_fill_erase. destruct (tbb_fill g w sp (dropped sp) t1 perm_c perm_w) as [err|[cycles weights]]; [reflexivity|].
  destruct (sched_of_bits bits pos1 (length weights)) as [t2 pos2].
  rewrite ovt_tbb_sum_erase. destruct (tbb_sum t2 weights); reflexivity.
Qed.

Lemma ovt_approx_run_tbb_erase exact_tr exact bits g w k scan perm_c perm_w :
  (forall h wh, fst (exact_tr h wh) = exact h wh) ->
  fst (approx_run_tbb_tr exact_tr bits g w k scan perm_c perm_w) = approx_run_tbb exact bits g w k scan perm_c perm_w.
Proof.
  intros He. unfold approx_run_tbb_tr, approx_run_tbb. destruct (construct_spanner g k scan) as [sp| | |]; try reflexivity.
  destruct (Nat.ltb k 1); [reflexivity|].
  destruct (existsb (fun e => Z.ltb (nth e w 0) 0) (seq 0 (ne g))); [reflexivity|].
  specialize (He (sp_graph sp) (spanner_weights w sp)).
  destruct (exact_tr (sp_graph sp) (spanner_weights w sp)) as [[r pos] tre]. cbn [fst] in He. rewrite <- He.
  destruct r as [scycles sw sup| | |]; try reflexivity.
  destruct (translate_cycles (retained sp) scycles) as [tcycles|]; [|reflexivity].
  pose proof (ovt_tbb_builder_erase bits g w sp pos perm_c perm_w) as Eb.
  destruct (tbb_builder_tr bits g w sp pos perm_c perm_w) as [[b pos'] trb]. cbn [fst] in Eb. rewrite <- Eb.
  destruct b as [[err| |]|[dcycles dw]]; reflexivity.
Qed.

Lemma ovt_approx_signed_tbb_erase g w k scan roots eord bits perm1 perm_c perm_w :
  fst (approx_sva_signed_tbb_Z_tr g w k scan roots eord bits perm1 perm_c perm_w)
  = approx_sva_signed_tbb_Z g w k scan roots eord bits perm1 perm_c perm_w.
Proof. apply ovt_approx_run_tbb_erase. intros h wh. apply ovt_signed_tbb_erase. Qed.
