(* TreesFloatModel.v — the tree-based exact variants on INEXACT doubles (property C09): the binary64 instances of
     LexSPModel.v       (lex_dijkstra, SPTree)
     CandidatesModel.v  (HortonCyclesBuilder, FVSCyclesBuilder, ISOCyclesBuilder)
     TreesModel.v       (update_parities, CandidateCycleBuilder, ShortestOddCycleLookup, _mcb_sva_trees)
   with  w0 = +0.0,  wadd = PrimFloat.add,  wltb = PrimFloat.ltb  exactly as SignedFloatModel.v, plus the pieces that
   are equivalent to the generic models in the exact domain but NOT on doubles.  Definitions only; proofs in
   FloatTreesProofs.v, final statements in Properties_C09.v.

   What was checked against the C++ for doubles (include/parmcb/sptrees.hpp, detail/lex_dijkstra.hpp, detail/cycles.hpp,
   parmcb_sva_trees.hpp) and is mirrored by the generic code as it stands:
     * LexDistanceCompare: `a.distance < b.distance` then `a.distance > b.distance` (= b < a), then the counts, then the
       sets: lx_ltb uses wltb a b / wltb b a in this order.  No `==` on doubles anywhere in lex_dijkstra.
     * SPTree::create_candidate_cycles and the output loop of ISOCyclesBuilder: the recorded weight is
       `get(weight_map, e) + v->weight() + u->weight()` = (w(e) + dist(source(e))) + dist(target(e)), left-associated:
       CandidatesModel.cd_of_edge / cd_iso_out write wadd (wadd w(e) (sn_weight v)) (sn_weight u).
     * the root's SPNode is built by the constructor that IGNORES its weight argument and stores WeightType() = +0.0.
     * CandidateCycleBuilder: cycle_weight = w(e); += w(a) for the predecessor edges from source(e) upwards, then from
       target(e) upwards (TreesModel.tc_build: tc_path from a with (lx_wt e), then from b continuing the same accumulator).
     * std::sort(cycles, a.weight() < b.weight()): `<` on non-NaN doubles is a strict weak order, the result is SOME
       arrangement that is non-decreasing in the recorded weight.
     * the ISO builder compares vertices (size_t) only; it never compares doubles for equality.
     * _mcb_sva_trees: mcb_weight = WeightType(); mcb_weight += std::get<1>(best) per phase, left to right.

   Where the generic models are NOT faithful on doubles, and what this file defines instead:
     (1) ISOCyclesBuilder, `cycle_to_vertex[key]` on a key that was never inserted: std::map::operator[] inserts the
         value-initialised vertex descriptor 0, so the C++ executes add_edge(alli, 0).  The generic model answers
         CdInconsistent (unreachable over Z: IsoProofs*.v; reachable on doubles, where the trees of different roots may be
         mutually inconsistent — Properties_C09.C09_trees_premise_refuted).  Here: cd_link_of_dflt / iso_cycles_dflt link
         to vertex 0 as the code does.  FloatTreesProofs.ft_iso_cycles_dflt_refines (= Properties_C09.C09_iso_builder_refines): whenever the
         generic model returns CdOk the two agree.  Properties_C09.C09_iso_d9b_in_model: on D9b's witness the generic model IS
         CdInconsistent and the code goes on.
     (2) ShortestOddCycleLookup scans the vector in the order std::sort left it and returns the FIRST answering
         candidate together with the weight COMPUTED by the builder for THAT candidate.  Over Z every candidate with the
         same edge set computes the same weight, so the acceptance formulation of TreesModel.v (trees_phase_pick: the
         weight of the first candidate, in collection order, with this edge set and minimal recorded weight) is exact.
         On doubles two candidates (the same cycle seen from two roots) may have EQUAL recorded weights and DIFFERENT
         computed weights (different order of additions), so acceptance by edge set cannot predict the returned bits.
         Here the arrangement produced by std::sort is an explicit oracle `order` (a permutation of the positions of the
         builder's output; recovered by the harness, which runs the same builder and the same std::sort call on the same
         sequence): ts_arrange checks that it IS a permutation and that the arranged weights are non-decreasing
         (GoBadOrder otherwise) and trees_search_order scans it exactly as the code does.
     (3) when no candidate answers, the lookup returns the value-initialised tuple ({}, WeightType(), false) and the main
         loop — which never looks at the flag — emits an EMPTY cycle, leaves the supports alone (every product with the
         empty cycle is 0) and adds WeightType() = +0.0.  TreesModel.mcb_sva_trees stops with SvaNoCycle k.  Here
         sva_phases_go goes on as the code does and records the phase as (signed edges, [], w0, found = false), so whole
         runs of the real code that hit known finding D9 are still compared exactly; FloatTreesProofs.ft_go_of_ok / ft_go_all_found /
         ft_go_nocycle (= Properties_C09.C09_trees_empty_answer_is_nocycle) relate the two: same run while every phase finds; the
         first phase that does not is the k of SvaNoCycle k.
   Deviation kept (documented, unreachable in the domain of C09 — weights in [1e-3, 1e3]): closed_plus returns DBL_MAX when an
   operand equals DBL_MAX; the model adds plainly (as SignedFloatModel.v). *)
From Coq Require Import List Floats.
From Parmcb Require Export TreesModel SignedFloatModel.
Import ListNotations.

Section TreesGo.
  Variable W : Type.
  Variable w0 : W.
  Variable wadd : W -> W -> W.
  Variable wltb : W -> W -> bool.

  (* ---- (1) ISOCyclesBuilder with std::map::operator[] on a missing key --------------------------------------- *)

  (* cycle_to_vertex[key]: the stored vertex, or the value-initialised descriptor 0 inserted on the spot *)
  Definition cd_key_dflt (o : option nat) : nat := match o with Some j => j | None => 0 end.

  (* CandidatesModel.cd_link_of with that semantics *)
  Definition cd_link_of_dflt (g : graph) (trees : list (sp_tree W)) (cv : list (cand W)) (c : cand W)
    : cd_result cd_link :=
    match nth_error trees (c_tree c), ends g (c_edge c) with
    | Some tree_x, Some (u, v) =>
        let e := c_edge c in
        let x := st_src tree_x in
        if Nat.eqb (sp_first W tree_x u) (sp_first W tree_x v) then CdOk LinkNone
        else if Nat.eqb x u then CdOk (LinkTo (cd_key_dflt (cd_lookup W v e cv 0 None)))
        else
          let xprime := sp_first W tree_x u in
          match nth_error trees xprime with
          | None => CdTreeErr
          | Some tree_xprime =>
              if Nat.eqb x (sp_first W tree_xprime v) then CdOk (LinkTo (cd_key_dflt (cd_lookup W xprime e cv 0 None)))
              else
                match nth_error trees v with
                | None => CdTreeErr
                | Some tree_v =>
                    if Nat.eqb u (sp_first W tree_v xprime) then
                      match sp_node_of W tree_x xprime with
                      | Some nd =>
                          match sn_pred nd with
                          | Some pe => CdOk (LinkTo (cd_key_dflt (cd_lookup W v pe cv 0 None)))
                          | None => CdOk (LinkTo 0)         (* the key (v, Edge()) is never inserted *)
                          end
                      | None => CdTreeErr
                      end
                    else CdOk LinkBad
                end
          end
    | _, _ => CdTreeErr
    end.

  Fixpoint cd_links_dflt (g : graph) (trees : list (sp_tree W)) (cv : list (cand W)) (todo : list (cand W))
    : cd_result (list cd_link) :=
    match todo with
    | [] => CdOk []
    | c :: r =>
        match cd_link_of_dflt g trees cv c with
        | CdOk l =>
            match cd_links_dflt g trees cv r with
            | CdOk ls => CdOk (l :: ls)
            | err => err
            end
        | CdTreeErr => CdTreeErr | CdFvsErr => CdFvsErr | CdInconsistent => CdInconsistent | CdFuel => CdFuel
        end
    end.

  (* CandidatesModel.iso_cycles from the links on (same cycle graph, components, bad marks, output loop) *)
  Definition iso_of_links (g : graph) (wts : list W) (trees : list (sp_tree W)) (cv : list (cand W))
             (links : list cd_link) : cd_result (list (sp_tree W) * list (cand W)) :=
    let nvs := length cv in
    let adj := cd_adj links 0 (map (fun _ => []) (seq 0 nvs)) in
    match cd_components (2 * nvs + 2 * nvs + 1) adj (seq 0 nvs) (map (fun _ => None) (seq 0 nvs)) with
    | Some comp =>
        let badc := cd_mark_bad links 0 comp (map (fun _ => false) (seq 0 nvs)) in
        match cd_iso_out W w0 wadd g wts trees comp badc (cd_enum 0 cv) (map (fun _ => false) (seq 0 nvs)) with
        | CdOk out => CdOk (trees, out)
        | CdTreeErr => CdTreeErr | CdFvsErr => CdFvsErr | CdInconsistent => CdInconsistent | CdFuel => CdFuel
        end
    | None => CdFuel
    end.

  Definition iso_cycles_dflt (g : graph) (wts : list W) : cd_result (list (sp_tree W) * list (cand W)) :=
    match horton_cycles W w0 wadd wltb g wts with
    | CdOk (trees, allcycles) =>
        let cv := filter (cd_is_circuit W g trees) allcycles in
        match cd_links_dflt g trees cv cv with
        | CdOk links => iso_of_links g wts trees cv links
        | CdTreeErr => CdTreeErr | CdFvsErr => CdFvsErr | CdInconsistent => CdInconsistent | CdFuel => CdFuel
        end
    | CdTreeErr => CdTreeErr | CdFvsErr => CdFvsErr | CdInconsistent => CdInconsistent | CdFuel => CdFuel
    end.

  (* CyclesBuilder()(g, weight_map, trees, cycles) as executed on doubles *)
  Definition tb_collection_dflt (b : tbuilder) (g : graph) (wts : list W) (picks : list nat)
    : cd_result (list (sp_tree W) * list (cand W)) :=
    match b with
    | TbHorton => horton_cycles W w0 wadd wltb g wts
    | TbFvs => fvs_cycles W w0 wadd wltb g wts picks
    | TbIso => iso_cycles_dflt g wts
    end.

  (* ---- (2) the lookup over the arrangement left by std::sort ------------------------------------------------- *)

  (* `order` is a permutation of 0 .. n-1: every position is marked exactly once *)
  Fixpoint ts_mark (seen : list bool) (order : list nat) : option (list bool) :=
    match order with
    | [] => Some seen
    | i :: r =>
        match nth_error seen i with
        | Some false => ts_mark (set_nth seen i true) r
        | _ => None                                   (* out of range, or listed twice *)
        end
    end.

  Definition ts_perm_ok (n : nat) (order : list nat) : bool :=
    Nat.eqb (length order) n &&
    match ts_mark (map (fun _ => false) (seq 0 n)) order with Some _ => true | None => false end.

  (* non-decreasing recorded weights: no element is strictly below its predecessor *)
  Fixpoint ts_nondecr (cs : list (cand W)) : bool :=
    match cs with
    | a :: ((b :: _) as r) => negb (wltb (c_weight b) (c_weight a)) && ts_nondecr r
    | _ => true
    end.

  Fixpoint ts_pick (cands : list (cand W)) (order : list nat) : option (list (cand W)) :=
    match order with
    | [] => Some []
    | i :: r =>
        match nth_error cands i, ts_pick cands r with
        | Some c, Some l => Some (c :: l)
        | _, _ => None
        end
    end.

  (* the vector `cycles` after std::sort, or None if `order` cannot be what std::sort produced *)
  Definition ts_arrange (cands : list (cand W)) (order : list nat) : option (list (cand W)) :=
    if ts_perm_ok (length cands) order then
      match ts_pick cands order with
      | Some l => if ts_nondecr l then Some l else None
      | None => None
      end
    else None.

  (* for (CandidateCycle c : cycles) { cc = candidate_cycle_builder(trees, c, edges, false, _); if (get<2>(cc)) return cc; }
     — later candidates are not evaluated *)
  Fixpoint ts_scan (g : graph) (wts : list W) (trees : list (sp_tree W)) (pars : list (list bool)) (sg : list nat)
           (cs : list (cand W)) : tr_result (option (list nat * W)) :=
    match cs with
    | [] => TrOk None
    | c :: r =>
        match tc_build W w0 wadd g wts trees pars sg c with
        | TrOk (TcFound cy w) => TrOk (Some (cy, w))
        | TrOk TcNot => ts_scan g wts trees pars sg r
        | TrNoNode => TrNoNode | TrRange => TrRange | TrFuel => TrFuel
        end
    end.

  (* ShortestOddCycleLookup<.., false>::operator()(signed_edges) on the sorted vector *)
  Definition ts_lookup (g : graph) (wts : list W) (trees : list (sp_tree W)) (sorted_cands : list (cand W))
             (sg : list nat) : tr_result (option (list nat * W)) :=
    match tp_all W g trees sg with
    | TrOk pars => ts_scan g wts trees pars sg sorted_cands
    | TrNoNode => TrNoNode | TrRange => TrRange | TrFuel => TrFuel
    end.

  Definition trees_search_order (g : graph) (wts : list W) (trees : list (sp_tree W)) (sorted_cands : list (cand W))
             (fi : forest_index) (k : nat) (S : vec) : phase_result W :=
    match ts_lookup g wts trees sorted_cands (indices_to_edges fi S) with
    | TrOk (Some (c, w)) => PFound c w
    | TrOk None => PNone
    | _ => PError
    end.

  (* ---- (3) the main loop as the code runs it: an empty answer is emitted and the loop goes on ------------------ *)

  Record go_phase := { gp_signed : list nat;      (* signed_edges of the phase (sorted edge ids) *)
                       gp_cycle : list nat;       (* what is emitted: the cycle, or [] *)
                       gp_weight : W;             (* std::get<1>(best) *)
                       gp_found : bool }.         (* std::get<2>(best) — never looked at by the loop *)

  Inductive go_result :=
  | GoOk (phases : list go_phase) (total : W) (supports : list vec)
  | GoNoIndex
  | GoNoCollection
  | GoBadOrder
  | GoError (k : nat).

  Variable search : nat -> vec -> phase_result W.

  Fixpoint sva_phases_go (fi : forest_index) (ks : list nat) (sup : list vec) (acc : list go_phase) (total : W)
    : go_result :=
    match ks with
    | [] => GoOk (rev acc) total sup
    | k :: ks' =>
        let Sk := nth k sup [] in
        let sg := indices_to_edges fi Sk in
        match search k Sk with
        | PError => GoError k
        | PNone =>
            sva_phases_go fi ks' (update_supports sup k (edges_to_indices fi []))
                          ({| gp_signed := sg; gp_cycle := []; gp_weight := w0; gp_found := false |} :: acc)
                          (wadd total w0)
        | PFound c w =>
            sva_phases_go fi ks' (update_supports sup k (edges_to_indices fi c))
                          ({| gp_signed := sg; gp_cycle := c; gp_weight := w; gp_found := true |} :: acc)
                          (wadd total w)
        end
    end.

  Definition sva_run_go (fi : forest_index) : go_result :=
    let csd := fi_csd fi in
    sva_phases_go fi (seq 0 csd) (map (fun i => [i]) (seq 0 csd)) [] w0.
End TreesGo.

Arguments gp_signed {W}.  Arguments gp_cycle {W}.  Arguments gp_weight {W}.  Arguments gp_found {W}.
Arguments GoOk {W}.  Arguments GoNoIndex {W}.  Arguments GoNoCollection {W}.  Arguments GoBadOrder {W}.
Arguments GoError {W}.

Section TreesRuns.
  Variable W : Type.
  Variable w0 : W.
  Variable wadd : W -> W -> W.
  Variable wltb : W -> W -> bool.

  (* TreesModel.mcb_sva_trees over a collection computed beforehand (mcb_sva_trees b .. = mcb_sva_trees_coll (tb_collection b ..) ..) *)
  Definition mcb_sva_trees_coll (coll : cd_result (list (sp_tree W) * list (cand W))) (g : graph) (roots : list nat)
             (search : list (sp_tree W) -> list (cand W) -> forest_index -> nat -> vec -> phase_result W)
    : trees_run W :=
    match create_index g roots with
    | None => TRun SvaNoIndex
    | Some fi =>
        match coll with
        | CdOk (trees, cands) => TRun (sva_run W w0 wadd select_none (search trees cands fi) fi)
        | _ => TNoCollection
        end
    end.

  (* the acceptance model and the first-in-collection-order resolution of TreesModel.v over the collection as executed *)
  Definition mcb_sva_trees_replay_dflt (b : tbuilder) (g : graph) (wts : list W) (roots picks : list nat)
             (cycles : list (list nat)) : trees_run W :=
    mcb_sva_trees_coll (tb_collection_dflt W w0 wadd wltb b g wts picks) g roots
                       (fun trees cands fi => trees_search_accept W w0 wadd wltb g wts trees cands fi cycles).

  Definition mcb_sva_trees_accept_dflt (b : tbuilder) (g : graph) (wts : list W) (roots picks : list nat)
             (cycles : list (list nat)) : option W :=
    match mcb_sva_trees_replay_dflt b g wts roots picks cycles with
    | TRun (SvaOk cs total _) => if Nat.eqb (length cycles) (length cs) then Some total else None
    | _ => None
    end.

  Definition mcb_sva_trees_first_dflt (b : tbuilder) (g : graph) (wts : list W) (roots picks : list nat) : trees_run W :=
    mcb_sva_trees_coll (tb_collection_dflt W w0 wadd wltb b g wts picks) g roots
                       (fun trees cands fi => trees_search_first W w0 wadd wltb g wts trees cands fi).

  (* _mcb_sva_trees as executed: ForestIndex, the builder, std::sort (oracle `order`), the main loop that goes on *)
  Definition mcb_sva_trees_go (b : tbuilder) (g : graph) (wts : list W) (roots picks order : list nat) : go_result W :=
    match create_index g roots with
    | None => GoNoIndex
    | Some fi =>
        match tb_collection_dflt W w0 wadd wltb b g wts picks with
        | CdOk (trees, cands) =>
            match ts_arrange W wltb cands order with
            | Some sorted_cands => sva_run_go W w0 wadd (trees_search_order W w0 wadd g wts trees sorted_cands fi) fi
            | None => GoBadOrder
            end
        | _ => GoNoCollection
        end
    end.

  (* the same run in the vocabulary of SvaModel (stops at the first phase without answer) *)
  Definition mcb_sva_trees_order (b : tbuilder) (g : graph) (wts : list W) (roots picks order : list nat) : trees_run W :=
    match create_index g roots with
    | None => TRun SvaNoIndex
    | Some fi =>
        match tb_collection_dflt W w0 wadd wltb b g wts picks with
        | CdOk (trees, cands) =>
            match ts_arrange W wltb cands order with
            | Some sorted_cands =>
                TRun (sva_run W w0 wadd select_none (trees_search_order W w0 wadd g wts trees sorted_cands fi) fi)
            | None => TNoCollection
            end
        | _ => TNoCollection
        end
    end.

  (* direct calls of the lookup on given signed edge sets (the builder and std::sort once, as in a run) *)
  Definition trees_lookup_direct (b : tbuilder) (g : graph) (wts : list W) (picks order : list nat) (sgs : list (list nat))
    : option (list (tr_result (option (list nat * W)))) :=
    match tb_collection_dflt W w0 wadd wltb b g wts picks with
    | CdOk (trees, cands) =>
        match ts_arrange W wltb cands order with
        | Some sorted_cands => Some (map (ts_lookup W w0 wadd g wts trees sorted_cands) sgs)
        | None => None
        end
    | _ => None
    end.

  (* ---- explaining an observed run with empty cycles (known findings D9 / D9c) ------------------------------------
     `cycles` = what an entry point emitted (any flavour: sequential, TBB).  The non-empty ones are taken over as they
     are (they determine the witnesses of the later phases through the support update, whatever their weights); at a
     phase whose emitted cycle is EMPTY the model evaluates the builder on every candidate of its collection under the
     witness of that phase: PNone (the lookup comes up empty: the model predicts the empty cycle) or PError (some
     candidate answers: the model does NOT explain the observation). *)
  Definition trees_search_explain (g : graph) (wts : list W) (trees : list (sp_tree W)) (cands : list (cand W))
             (fi : forest_index) (cycles : list (list nat)) (k : nat) (S : vec) : phase_result W :=
    match nth_error cycles k with
    | None => PError
    | Some [] =>
        match tl_answers W w0 wadd g wts trees cands (indices_to_edges fi S) with
        | TrOk l => if existsb (tl_found W) l then PError else PNone
        | _ => PError
        end
    | Some c => PFound c w0
    end.

  Definition mcb_sva_trees_explain (b : tbuilder) (g : graph) (wts : list W) (roots picks : list nat)
             (cycles : list (list nat)) : go_result W :=
    match create_index g roots with
    | None => GoNoIndex
    | Some fi =>
        match tb_collection_dflt W w0 wadd wltb b g wts picks with
        | CdOk (trees, cands) => sva_run_go W w0 wadd (trees_search_explain g wts trees cands fi cycles) fi
        | _ => GoNoCollection
        end
    end.
End TreesRuns.

(* ---- binary64 ---------------------------------------------------------------------------------------------------- *)

(* the lexicographic shortest-path tree of a source / of all sources (SPTree, HortonCyclesBuilder's vector) *)
Definition tf_sptree (g : graph) (wts : list float) (s : nat) : lx_result (sp_tree float) :=
  sptree float f64_zero f64_add f64_ltb g wts s.
Definition tf_sptrees_all (g : graph) (wts : list float) : lx_result (list (sp_tree float)) :=
  sptrees_all float f64_zero f64_add f64_ltb g wts.

(* the three collections; tf_iso_cycles is the builder as executed, tf_iso_cycles_strict the generic model (CdInconsistent
   where the code's std::map::operator[] silently inserts vertex 0) *)
Definition tf_horton_cycles := horton_cycles float f64_zero f64_add f64_ltb.
Definition tf_fvs_cycles := fvs_cycles float f64_zero f64_add f64_ltb.
Definition tf_iso_cycles_strict := iso_cycles float f64_zero f64_add f64_ltb.
Definition tf_iso_cycles := iso_cycles_dflt float f64_zero f64_add f64_ltb.

(* the per-phase answers of CandidateCycleBuilder for every candidate *)
Definition tf_tl_answers := tl_answers float f64_zero f64_add.

(* TreesModel.v instantiated as it stands (acceptance / first-in-collection-order resolution of std::sort's ties, generic ISO
   builder, stop at the first empty lookup) *)
Definition tf_mcb_sva_trees_first := mcb_sva_trees_first float f64_zero f64_add f64_ltb.
Definition tf_mcb_sva_trees_replay := mcb_sva_trees_replay float f64_zero f64_add f64_ltb.
Definition tf_mcb_sva_trees_accept := mcb_sva_trees_accept float f64_zero f64_add f64_ltb.

(* the same over the collection as executed (std::map::operator[] default in the ISO builder) *)
Definition tf_mcb_sva_trees_first_dflt := mcb_sva_trees_first_dflt float f64_zero f64_add f64_ltb.
Definition tf_mcb_sva_trees_accept_dflt := mcb_sva_trees_accept_dflt float f64_zero f64_add f64_ltb.

(* the model that is compared bit-exactly with mcb_sva_fvs_trees / mcb_sva_iso_trees *)
Definition tf_mcb_sva_trees_go := mcb_sva_trees_go float f64_zero f64_add f64_ltb.
Definition tf_mcb_sva_trees_order := mcb_sva_trees_order float f64_zero f64_add f64_ltb.
Definition tf_lookup_direct := trees_lookup_direct float f64_zero f64_add f64_ltb.
Definition tf_mcb_sva_trees_explain := mcb_sva_trees_explain float f64_zero f64_add f64_ltb.

(* the exact-domain instances of the same definitions (used by the theorems that contrast Z with binary64) *)
Definition mcb_sva_trees_go_Z := mcb_sva_trees_go Z 0%Z Z.add Z.ltb.
