(* MpiTreesProofs1.v — the locally rebuilt collection of one rank (MpiTreesModel.mt_local), generic in the weight type:
   for ANY sub-list cs of rank 0's collection (trees0, cands0) — in particular a ceil-stride slice — the rank that receives
   the serialised pairs of cs groups them per root, rebuilds one tree per distinct root (the same tree as rank 0's:
   sptree is a function of (g, wts, root)), and the restricted create_candidate_cycles lets every listed edge through its
   three filters again with the same recorded weight.  Hence
       mt_local g wts fi (map ser cs) = MtOk (ts, L),   every tree of ts is the model's tree of its source, and
       map (root, edge, weight) L   is a PERMUTATION of   map (root, edge, weight) cs
   (nothing lost, nothing duplicated, the tree ids renumbered).  Prefix mu_. *)
From Coq Require Import List Arith Bool Lia Permutation.
From Parmcb Require Import GraphModel GraphSpec ForestModel ForestProofs LexSPModel CandidatesModel CandidatesProofs
     TreesModel MpiModel MpiTreesModel.
Import ListNotations.

(* ---- the std::map grouping ------------------------------------------------------------------------------------------ *)

Definition mu_flat {A} (m : list (nat * list A)) : list (nat * A) :=
  flat_map (fun xl => map (pair (fst xl)) (snd xl)) m.

Definition mu_map {A B} (f : A -> B) (m : list (nat * list A)) : list (nat * list B) :=
  map (fun xl => (fst xl, map f (snd xl))) m.

Lemma mu_add_perm {A} s (a : A) : forall m, Permutation (mu_flat (mt_pv_add s a m)) (mu_flat m ++ [(s, a)]).
Proof.
  induction m as [|[x l] r IH]; [reflexivity|]. cbn [mt_pv_add].
  destruct (Nat.ltb s x).
  - change (mu_flat ((s, [a]) :: (x, l) :: r)) with ((s, a) :: mu_flat ((x, l) :: r)). apply Permutation_cons_append.
  - destruct (Nat.eqb_spec s x) as [->|Hne].
    + unfold mu_flat. cbn [flat_map fst snd]. rewrite map_app. cbn [map]. rewrite <- !app_assoc.
      apply Permutation_app_head. apply Permutation_app_comm.
    + unfold mu_flat in *. cbn [flat_map fst snd]. rewrite <- app_assoc. apply Permutation_app_head. exact IH.
Qed.

Lemma mu_fold_perm {A} (xs : list (nat * A)) : forall m,
  Permutation (mu_flat (fold_left (fun m sa => mt_pv_add (fst sa) (snd sa) m) xs m)) (mu_flat m ++ xs).
Proof.
  induction xs as [|[s a] xs IH]; intros m; cbn [fold_left]; [rewrite app_nil_r; reflexivity|].
  rewrite IH. cbn [fst snd]. rewrite (mu_add_perm s a m), <- app_assoc. reflexivity.
Qed.

Lemma mu_group_perm {A} (xs : list (nat * A)) : Permutation (mu_flat (mt_pv_group xs)) xs.
Proof. unfold mt_pv_group. rewrite mu_fold_perm. reflexivity. Qed.

Lemma mu_add_map {A B} (f : A -> B) s a : forall m, mt_pv_add s (f a) (mu_map f m) = mu_map f (mt_pv_add s a m).
Proof.
  induction m as [|[x l] r IH]; [reflexivity|]. cbn [mu_map map mt_pv_add fst snd].
  destruct (Nat.ltb s x); [reflexivity|]. destruct (Nat.eqb s x).
  - cbn [map fst snd]. rewrite map_app. reflexivity.
  - cbn [map fst snd]. f_equal. exact IH.
Qed.

Lemma mu_fold_map {A B} (f : A -> B) (xs : list (nat * A)) : forall m,
  fold_left (fun m sa => mt_pv_add (fst sa) (snd sa) m) (map (fun sa => (fst sa, f (snd sa))) xs) (mu_map f m)
  = mu_map f (fold_left (fun m sa => mt_pv_add (fst sa) (snd sa) m) xs m).
Proof.
  induction xs as [|[s a] xs IH]; intros m; [reflexivity|]. cbn [map fold_left fst snd].
  rewrite mu_add_map. apply IH.
Qed.

Lemma mu_group_map {A B} (f : A -> B) (xs : list (nat * A)) :
  mt_pv_group (map (fun sa => (fst sa, f (snd sa))) xs) = mu_map f (mt_pv_group xs).
Proof. unfold mt_pv_group. exact (mu_fold_map f xs []). Qed.

(* no key of the map carries an empty vector, and the keys are strictly increasing (one entry per distinct root) *)
Definition mu_wf {A} (m : list (nat * list A)) : Prop :=
  Forall (fun xl => snd xl <> []) m /\ StronglySorted lt (map fst m).

Lemma mu_add_wf {A} s (a : A) : forall m, mu_wf m -> mu_wf (mt_pv_add s a m).
Proof.
  induction m as [|[x l] r IH]; intros [Hne Hs].
  - split; [repeat constructor; discriminate|repeat constructor].
  - cbn [mt_pv_add]. destruct (Nat.ltb_spec s x) as [Hlt|Hge].
    + split; [constructor; [discriminate|exact Hne]|]. cbn [map fst]. constructor; [exact Hs|].
      cbn [map fst] in Hs. apply StronglySorted_inv in Hs as [_ Hall]. constructor; [exact Hlt|].
      eapply Forall_impl; [|exact Hall]. intros y Hy. cbn beta in Hy. lia.
    + destruct (Nat.eqb_spec s x) as [->|Hne'].
      * split; [|exact Hs]. inversion Hne; subst. constructor; [|assumption]. cbn [snd]. destruct l; discriminate.
      * inversion Hne; subst. cbn [map fst] in Hs. apply StronglySorted_inv in Hs as [Hs' Hall].
        destruct (IH (conj H2 Hs')) as [IH1 IH2]. split; [constructor; assumption|].
        cbn [map fst]. constructor; [exact IH2|].
        (* every key of the extended tail is s or an old key *)
        assert (Hk : forall y, In y (map fst (mt_pv_add s a r)) -> y = s \/ In y (map fst r)).
        { clear. induction r as [|[x' l'] r' IH']; intros y; cbn [mt_pv_add map fst In].
          - intros [H|[]]; left; symmetry; exact H.
          - destruct (Nat.ltb s x'); [cbn [map fst In]; intros [H|H]; [left; symmetry; exact H|right; exact H]|].
            destruct (Nat.eqb s x'); cbn [map fst In]; [intros H; right; exact H|].
            intros [H|H]; [right; left; exact H|]. destruct (IH' y H) as [H'|H']; [left; exact H'|right; right; exact H']. }
        apply Forall_forall. intros y Hy. destruct (Hk y Hy) as [->|Hin]; [lia|].
        rewrite Forall_forall in Hall. apply Hall; exact Hin.
Qed.

Lemma mu_group_wf {A} (xs : list (nat * A)) : mu_wf (mt_pv_group xs).
Proof.
  unfold mt_pv_group.
  assert (H : forall m, mu_wf m -> mu_wf (fold_left (fun m (sa : nat * A) => mt_pv_add (fst sa) (snd sa) m) xs m)).
  { induction xs as [|sa xs IH]; intros m Hm; [exact Hm|]. cbn [fold_left]. apply IH, mu_add_wf, Hm. }
  apply H. split; constructor.
Qed.

Lemma mu_flat_snd {A} (m : list (nat * list A)) : map snd (mu_flat m) = flat_map snd m.
Proof.
  induction m as [|[x l] r IH]; [reflexivity|]. unfold mu_flat in *. cbn [flat_map fst snd]. rewrite map_app, IH.
  f_equal. rewrite map_map. cbn [snd]. apply map_id.
Qed.

(* ---- one rank ------------------------------------------------------------------------------------------------------- *)
Section Local.
  Variable W : Type.
  Variable w0 : W.
  Variable wadd : W -> W -> W.
  Variable wltb : W -> W -> bool.
  Variables (g : graph) (wts : list W) (roots : list nat) (fi : forest_index).
  Hypothesis Hsg : simple_graph g.
  Hypothesis Hr : forall v, v < nv g -> In v roots.
  Hypothesis Hci : create_index g roots = Some fi.

  Notation sptree := (sptree W w0 wadd wltb).
  Notation cand := (cand W).

  (* rank 0's collection: every tree is the model's tree of its source, every candidate passed the filters of
     create_candidate_cycles in its tree (all three builders satisfy this: mu_collection_facts below) *)
  Variables (trees0 : list (sp_tree W)) (cands0 : list cand).
  Hypothesis Htrees0 : Forall (fun t => sptree g wts (st_src t) = LxOk t) trees0.
  Hypothesis Hcands0 : forall c, In c cands0 ->
    exists t, nth_error trees0 (c_tree c) = Some t /\ cd_is_cand W w0 wadd g wts (c_tree c) t c.

  Definition mu_root0 (c : cand) : nat := match nth_error trees0 (c_tree c) with Some t => st_src t | None => 0 end.
  Definition mu_idx (e : nat) : nat := match fi_index fi e with Some i => i | None => 0 end.
  Definition mu_ser (c : cand) : nat * nat := (mu_root0 c, mu_idx (c_edge c)).
  Definition mu_set_tree (id : nat) (c : cand) : cand := {| c_tree := id; c_edge := c_edge c; c_weight := c_weight c |}.

  (* (root, edge, recorded weight) of a candidate relative to a tree vector *)
  Definition mu_key (trees : list (sp_tree W)) (c : cand) : option nat * nat * W :=
    (cd_root W trees c, c_edge c, c_weight c).

  Lemma mu_edge_lt c : In c cands0 -> c_edge c < ne g.
  Proof.
    intros Hc. destruct (Hcands0 c Hc) as [t [_ [_ [a [b [v [u [He _]]]]]]]].
    unfold ends in He. apply nth_error_Some. rewrite He. discriminate.
  Qed.

  Lemma mu_index_edge e : e < ne g -> fi_index fi e = Some (mu_idx e) /\ fi_edge fi (mu_idx e) = Some e.
  Proof.
    intros He. destruct (create_index_correct g roots Hsg Hr) as (fi' & E & _ & _ & Hf & _).
    rewrite Hci in E. injection E as <-. destruct (Hf e He) as (i & Hi & _ & Hrev).
    unfold mu_idx. rewrite Hi. auto.
  Qed.

  (* rank 0's serialisation never throws and is `map mu_ser` *)
  Lemma mu_ser_all cs : incl cs cands0 -> mt_ser_all W fi trees0 cs = Some (map mu_ser cs).
  Proof.
    induction cs as [|c cs IH]; intros Hin; [reflexivity|]. cbn [mt_ser_all map].
    assert (Hc : In c cands0) by (apply Hin; left; reflexivity).
    rewrite IH by (intros x Hx; apply Hin; right; exact Hx).
    destruct (Hcands0 c Hc) as [t [Ht _]]. destruct (mu_index_edge _ (mu_edge_lt c Hc)) as [Hi _].
    unfold mt_ser, mu_ser, mu_root0. rewrite Ht, Hi. reflexivity.
  Qed.

  Lemma mu_decode cs : incl cs cands0 ->
    mt_decode fi (map mu_ser cs) = Some (map (fun c => (mu_root0 c, c_edge c)) cs).
  Proof.
    induction cs as [|c cs IH]; intros Hin; [reflexivity|]. cbn [mt_decode map mu_ser].
    assert (Hc : In c cands0) by (apply Hin; left; reflexivity).
    rewrite IH by (intros x Hx; apply Hin; right; exact Hx).
    destruct (mu_index_edge _ (mu_edge_lt c Hc)) as [_ He]. rewrite He. reflexivity.
  Qed.

  (* the candidates themselves grouped per root (proof-level), and the model's map of edges as its projection *)
  Definition mu_groups (cs : list cand) : list (nat * list cand) := mt_pv_group (map (fun c => (mu_root0 c, c)) cs).

  Lemma mu_group cs : incl cs cands0 -> mt_group fi (map mu_ser cs) = Some (mu_map c_edge (mu_groups cs)).
  Proof.
    intros Hin. unfold mt_group. rewrite (mu_decode cs Hin). f_equal. unfold mu_groups.
    rewrite <- (mu_group_map c_edge). rewrite map_map. reflexivity.
  Qed.

  Lemma mu_groups_members cs x l c : In (x, l) (mu_groups cs) -> In c l -> In c cs /\ mu_root0 c = x.
  Proof.
    intros Hxl Hc.
    assert (Hf : In (x, c) (mu_flat (mu_groups cs))).
    { unfold mu_flat. apply in_flat_map. exists (x, l). split; [exact Hxl|]. cbn [fst snd]. apply in_map. exact Hc. }
    apply (Permutation_in _ (mu_group_perm _)) in Hf. apply in_map_iff in Hf as [c' [E Hc']].
    injection E as <- <-. auto.
  Qed.

  (* the tree of a root that carries a candidate of the collection *)
  Lemma mu_tree_of c : In c cands0 ->
    exists t, nth_error trees0 (c_tree c) = Some t /\ st_src t = mu_root0 c /\ sptree g wts (mu_root0 c) = LxOk t.
  Proof.
    intros Hc. destruct (Hcands0 c Hc) as [t [Ht _]]. exists t. unfold mu_root0. rewrite Ht.
    split; [reflexivity|]. split; [reflexivity|]. rewrite Forall_forall in Htrees0. apply Htrees0.
    eapply nth_error_In; eauto.
  Qed.

  (* the restricted create_candidate_cycles lets the candidates of its root through again, unchanged but for the id *)
  Lemma mu_create id x t : sptree g wts x = LxOk t -> forall l,
    (forall c, In c l -> In c cands0 /\ mu_root0 c = x) ->
    mt_create W w0 wadd g wts id t (cd_tree_edges W t) (map c_edge l) = Some (map (mu_set_tree id) l).
  Proof.
    intros Hx. induction l as [|c l IH]; intros Hl; [reflexivity|]. cbn [map mt_create].
    rewrite IH by (intros c' Hc'; apply Hl; right; exact Hc').
    destruct (Hl c (or_introl eq_refl)) as [Hc Hroot].
    destruct (mu_tree_of c Hc) as [t' [Ht' [_ Hsp]]]. rewrite Hroot, Hx in Hsp. injection Hsp as <-.
    destruct (Hcands0 c Hc) as [t'' [Ht'' [_ [a [b [v [u [He [Hm [Ha [Hb [Hf Hw]]]]]]]]]]]].
    rewrite Ht' in Ht''. injection Ht'' as <-.
    rewrite He. unfold cd_of_edge. rewrite Hm, Ha, Hb.
    destruct (Nat.eqb_spec (sp_first W t a) (sp_first W t b)) as [|_]; [contradiction|].
    cbn [app]. unfold mu_set_tree. rewrite Hw. reflexivity.
  Qed.

  (* the loop over the map: one rebuilt tree per key, the candidates of the groups in map order *)
  Lemma mu_build : forall (mC : list (nat * list cand)) id (pre : list (sp_tree W)),
    length pre = id ->
    (forall x l, In (x, l) mC -> l <> [] /\ forall c, In c l -> In c cands0 /\ mu_root0 c = x) ->
    exists ts L,
      mt_build W w0 wadd wltb g wts (mu_map c_edge mC) id = MtOk (ts, L)
      /\ Forall2 (fun xl t => sptree g wts (fst xl) = LxOk t) mC ts
      /\ map (mu_key (pre ++ ts)) L = map (mu_key trees0) (flat_map snd mC).
  Proof.
    induction mC as [|[x l] mC IH]; intros id pre Hlen Hinv.
    - exists [], []. split; [reflexivity|]. split; [constructor|reflexivity].
    - destruct (Hinv x l (or_introl eq_refl)) as [Hne Hl].
      destruct l as [|c1 l1]; [contradiction|].
      destruct (Hl c1 (or_introl eq_refl)) as [Hc1 Hroot1].
      destruct (mu_tree_of c1 Hc1) as [t [_ [Hsrc Hsp]]]. rewrite Hroot1 in Hsp, Hsrc.
      destruct (IH (S id) (pre ++ [t])) as (ts & L & Hb & Hf2 & Hk).
      { rewrite app_length. cbn [length]. lia. }
      { intros x' l' Hin. apply Hinv. right. exact Hin. }
      exists (t :: ts), (map (mu_set_tree id) (c1 :: l1) ++ L).
      split.
      { change (mu_map c_edge ((x, c1 :: l1) :: mC)) with ((x, map c_edge (c1 :: l1)) :: mu_map c_edge mC).
        cbn [mt_build]. rewrite Hsp.
        rewrite (mu_create id x t Hsp (c1 :: l1) Hl). rewrite Hb. reflexivity. }
      split; [constructor; [exact Hsp|exact Hf2]|].
      cbn [flat_map snd]. rewrite !map_app. f_equal.
      + rewrite map_map. apply map_ext_in. intros c Hc. destruct (Hl c Hc) as [Hc0 Hroot].
        unfold mu_key, cd_root. cbn [mu_set_tree c_tree c_edge c_weight].
        rewrite nth_error_app2 by lia. rewrite Hlen, Nat.sub_diag. cbn [nth_error option_map].
        destruct (mu_tree_of c Hc0) as [t' [Ht' [Hs' _]]]. rewrite Ht'. cbn [option_map]. rewrite Hs', Hroot, Hsrc.
        reflexivity.
      + rewrite <- Hk. rewrite <- app_assoc. reflexivity.
  Qed.

  (* ---- the local collection of a rank that received the pairs of cs --------------------------------------------- *)
  Theorem mu_local cs : incl cs cands0 ->
    exists ts L,
      mt_local W w0 wadd wltb g wts fi (map mu_ser cs) = MtOk (ts, L)
      /\ Forall (fun t => sptree g wts (st_src t) = LxOk t) ts
      /\ Permutation (map (mu_key ts) L) (map (mu_key trees0) cs)
      /\ length ts = length (mu_groups cs) /\ mu_wf (mu_groups cs)
      /\ Forall2 (fun xl t => st_src t = fst xl) (mu_groups cs) ts.
  Proof.
    intros Hin. unfold mt_local. rewrite (mu_group cs Hin).
    pose proof (mu_group_wf (map (fun c => (mu_root0 c, c)) cs)) as Hwf. fold (mu_groups cs) in Hwf.
    destruct (mu_build (mu_groups cs) 0 [] eq_refl) as (ts & L & Hb & Hf2 & Hk).
    { intros x l Hxl. split.
      - destruct Hwf as [Hne _]. rewrite Forall_forall in Hne. exact (Hne (x, l) Hxl).
      - intros c Hc. destruct (mu_groups_members cs x l c Hxl Hc) as [H1 H2]. split; [apply Hin; exact H1|exact H2]. }
    exists ts, L. split; [exact Hb|].
    assert (Hsrc : Forall2 (fun (xl : nat * list cand) t => st_src t = fst xl /\ sptree g wts (st_src t) = LxOk t) (mu_groups cs) ts).
    { clear -Hf2. induction Hf2 as [|xl t m ts' H1 H2 IH]; constructor; [|exact IH].
      destruct (cd_sptree_src W w0 wadd wltb g wts _ _ H1) as [Hs _]. rewrite Hs. auto. }
    split.
    { clear -Hsrc. induction Hsrc as [|xl t m ts' [_ H1] H2 IH]; constructor; assumption. }
    split.
    { cbn [app] in Hk. rewrite Hk. apply Permutation_map.
      rewrite <- mu_flat_snd. rewrite (mu_group_perm (map (fun c => (mu_root0 c, c)) cs)).
      rewrite map_map. cbn [snd]. rewrite map_id. reflexivity. }
    split; [clear -Hf2; induction Hf2 as [|xl t m ts' _ _ IH]; [reflexivity|cbn [length]; rewrite IH; reflexivity]|].
    split; [exact Hwf|].
    clear -Hsrc. induction Hsrc as [|xl t m ts' [H1 _] H2 IH]; constructor; assumption.
  Qed.
End Local.

(* ---- the three builders satisfy the hypotheses on rank 0's collection ---------------------------------------------- *)
Lemma mu_collection_facts (W : Type) (w0 : W) (wadd : W -> W -> W) (wltb : W -> W -> bool) b g wts picks trees cands :
  tb_collection W w0 wadd wltb b g wts picks = CdOk (trees, cands) ->
  Forall (fun t => sptree W w0 wadd wltb g wts (st_src t) = LxOk t) trees /\
  forall c, In c cands -> exists t, nth_error trees (c_tree c) = Some t /\ cd_is_cand W w0 wadd g wts (c_tree c) t c.
Proof.
  assert (Hroots : forall rs ts cs, cycles_of_roots W w0 wadd wltb g wts rs = CdOk (ts, cs) ->
            Forall (fun t => sptree W w0 wadd wltb g wts (st_src t) = LxOk t) ts /\
            forall c, In c cs -> exists t, nth_error ts (c_tree c) = Some t /\ cd_is_cand W w0 wadd g wts (c_tree c) t c).
  { intros rs ts cs H. apply cd_cycles_of_roots_inv in H as [F2 ->]. split.
    - clear -F2. induction F2 as [|s t rs ts Hst F2 IH]; constructor; [|exact IH].
      destruct (cd_sptree_src W w0 wadd wltb g wts s t Hst) as [-> _]. exact Hst.
    - intros c Hc. apply cd_cycles_of_trees_In. exact Hc. }
  intros H. destruct b; cbn [tb_collection] in H.
  - apply (Hroots _ _ _ H).
  - unfold fvs_cycles in H. destruct (FvsModel.greedy_fvs g picks) as [fvs| | |]; try discriminate.
    apply (Hroots _ _ _ H).
  - destruct (cd_iso_nested W w0 wadd wltb g wts trees cands H) as [hcs [Hh Hincl]].
    destruct (Hroots _ _ _ Hh) as [H1 H2]. split; [exact H1|]. intros c Hc. apply H2, Hincl, Hc.
Qed.
