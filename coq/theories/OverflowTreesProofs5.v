(* OverflowTreesProofs5.v — C07, clause "overflows a signed integer", part 5: the approximate algorithms, sequential
   cycle builder (ApproxModel.v).   S = wsum g w, wmax = the largest edge weight of the CALLER's graph g; h = the spanner.
     ovt_spanner_wsum / ovt_spanner_wmax   S_h <= S and wmax_h <= wmax (the spanner carries the caller's weights of the
                                 retained edges)
     ovt_pred_chain_tr           the running  weight += w(ae)  of the predecessor walk is the weight of a prefix of the cycle
     ovt_dropped_cycle_tr        one dropped edge e: the tentative distances of the plain Dijkstra on the spanner lie in
                                 [0, S_h + wmax_h], every partial cycle weight and the final  weight += w(e)  in [0, S]
                                 (the emitted cycle is duplicate-free: sharper than the S + w(e) of a path plus an edge)
     ovt_dropped_cycles_tr       total_weight += weight: running totals between 0 and the returned total
     ovt_approx_run_tr           approx_run with any exact phase whose answer on the spanner is a cycle basis returned with
                                 its weight: every sum is a sum of the exact phase, lies in [0, S + wmax] or in [0, total];
                                 total = weight of the emitted family <= N * S (N = m - n + c emitted simple cycles)
     ovt_overflow_approx_signed  approx_mcb_sva_signed, premise-free: all sums in [0, 2S + 2wmax] or [0, total],
                                 total <= N * S;  max(4, N) * S <= M  keeps every sum in [0, M]
     ovt_dimension_le_m          N <= m, hence the generators' predicate (m + 4) * S <= INT_MAX suffices
   No axioms. *)
From Coq Require Import List Arith Bool ZArith Lia Permutation.
From Parmcb Require Import GraphModel GF2Model GraphSpec GraphLemmas McbSpec ForestModel SvaModel SpannerModel SpannerProofs
     SignedModel SignedZModel DijkstraModel ApproxModel LexSPProofs ApproxProofsRelabel ApproxProofs ApproxProofsRun ApproxProofsEdge
     ApproxProofsSignedFull RefProofs1 OverflowProofs1 OverflowProofs3 OverflowProofs4
     OverflowTreesModel OverflowTreesProofs1 OverflowTreesProofs2 OverflowTreesProofs4.
Import ListNotations.

Local Open Scope Z_scope.

Lemma ovt_map_nth_seq {A : Type} (l : list A) (d : A) : map (fun i => nth i l d) (seq 0 (length l)) = l.
Proof.
  induction l as [|x l IH]; [reflexivity|].
  cbn [length seq map nth]. f_equal. rewrite <- seq_shift, map_map. exact IH.
Qed.

Lemma ovt_wmax_le l B : 0 <= B -> (forall x, In x l -> x <= B) -> wmax l <= B.
Proof.
  intros HB. induction l as [|x l IH]; intros Hl; cbn [wmax fold_right]; [exact HB|].
  fold (wmax l). pose proof (Hl x (or_introl eq_refl)). specialize (IH (fun y Hy => Hl y (or_intror Hy))). lia.
Qed.

Lemma ovt_NoDup_prefix {A : Type} (a b : list A) : NoDup (a ++ b) -> NoDup a.
Proof.
  induction a as [|x a IH]; intros H; [constructor|]. cbn [app] in H. inversion H as [|? ? Hn Hnd]; subst.
  constructor; [intros Hc; apply Hn, in_or_app; left; exact Hc|apply IH; exact Hnd].
Qed.

(* the dimension of the cycle space is at most the number of edges *)
Lemma ovt_dimension_le_m g N : has_cycle_space_dimension g N -> (N <= ne g)%nat.
Proof.
  intros (c & (reps & Hlen & Hnd & Hlt & _) & E).
  pose proof (lx_NoDup_bound reps (nv g) Hnd Hlt). lia.
Qed.

(* a family of N duplicate-free lists of edge ids weighs at most N * S *)
Lemma ovt_family_weight g w cycles : positive_weights g w -> Forall (fun c => NoDup c) cycles ->
  0 <= total_weight w cycles <= Z.of_nat (length cycles) * wsum g w.
Proof.
  intros Hpw. induction 1 as [|c cs Hc _ IH].
  - unfold total_weight. cbn. lia.
  - change (total_weight w (c :: cs)) with (weight w c + total_weight w cs).
    pose proof (ovt_weight_nodup g w c Hpw Hc). cbn [length]. lia.
Qed.

(* ---- the predecessor walk, unconditionally --------------------------------------------------------------------- *)

Lemma ovt_pred_chain_tr h R w pred : forall fuel cur cyc acc c a,
  fst (pred_chain_tr fuel h R w pred cur cyc acc) = Some (c, a) ->
  exists suffix, c = cyc ++ suffix /\ a = acc + weight w suffix
    /\ Forall (fun v => exists pre rest, suffix = pre ++ rest /\ v = acc + weight w pre)
              (snd (pred_chain_tr fuel h R w pred cur cyc acc)).
Proof.
  induction fuel as [|fuel IH]; intros cur cyc acc c a H; [discriminate|].
  cbn [pred_chain_tr] in H |- *. destruct (nth cur pred None) as [se|].
  - destruct (nth_error R se) as [ae|]; [|discriminate]. destruct (ends h se) as [[x y]|]; [|discriminate].
    cbv zeta in H |- *. destruct (Nat.eqb (if Nat.eqb y cur then x else y) cur); [discriminate|].
    cbn [fst snd] in H |- *.
    destruct (IH _ _ _ _ _ H) as (suf & -> & -> & Hf). exists (ae :: suf). rewrite <- app_assoc.
    split; [reflexivity|]. split; [rewrite rf_weight_cons; unfold wt; lia|].
    constructor.
    + exists [ae], suf. split; [reflexivity|]. rewrite rf_weight_cons. unfold wt, weight. cbn. lia.
    + eapply Forall_impl; [|exact Hf]. cbv beta. intros v (pre & rest & -> & ->).
      exists (ae :: pre), rest. split; [reflexivity|]. rewrite rf_weight_cons. unfold wt. lia.
  - cbn [fst snd] in H |- *. injection H as <- <-. exists []. rewrite app_nil_r.
    split; [reflexivity|]. split; [unfold weight; cbn; lia|constructor].
Qed.

Section Approx.
  Variable g : graph.
  Hypothesis Hg : simple_graph g.
  Variable w : list Z.
  Hypothesis Hpw : positive_weights g w.
  Variable sp : spanner.
  Hypothesis Hsub : sp_sub g sp.
  Hypothesis HP : Permutation (retained sp ++ dropped sp) (seq 0 (ne g)).
  Hypothesis Hpath : forall e u v, In e (dropped sp) -> ends g e = Some (u, v) ->
    exists p, walk g u p v /\ incl (wedges p) (retained sp).

  Local Notation R := (retained sp).
  Local Notation D := (dropped sp).
  Local Notation h := (sp_graph sp).
  Local Notation wh := (spanner_weights w sp).
  Local Notation S := (wsum g w).
  Local Notation inS := (inrange (wsum g w)).
  Local Notation inSW := (inrange (wsum g w + wmax w)).

  Lemma ovt_spanner_simple : simple_graph h.
  Proof. exact (ap_sp_simple g Hg sp Hsub HP). Qed.

  Lemma ovt_spanner_positive : positive_weights h wh.
  Proof.
    split; [apply (ap_spanner_weights_length g sp Hsub)|].
    exact (ap_spanner_weights_pos g sp Hsub w (proj2 Hpw) (proj1 Hpw)).
  Qed.

  Lemma ovt_spanner_wsum : wsum h wh <= S.
  Proof.
    unfold wsum at 1. rewrite (ap_ne_h g sp Hsub).
    rewrite <- (ap_weight_map sp w (seq 0 (length R))).
    - change (map (tr sp) (seq 0 (length R))) with (map (fun i => nth i R 0%nat) (seq 0 (length R))).
      rewrite ovt_map_nth_seq. apply ov_weight_nodup_le; [exact Hpw|exact (ap_R_nodup g sp HP)|].
      intros e He. exact (ap_R_lt g sp Hsub e He).
    - apply Forall_forall. intros i Hi. apply in_seq in Hi. unfold domR. lia.
  Qed.

  Lemma ovt_spanner_wmax : wmax wh <= wmax w.
  Proof.
    apply ovt_wmax_le; [apply ov_wmax_nonneg|]. intros x Hx. unfold spanner_weights in Hx.
    apply in_map_iff in Hx as (e & <- & _). apply (ov_wt_le_wmax w e).
  Qed.

  (* ---- one dropped edge --------------------------------------------------------------------------------------------- *)

  Lemma ovt_dropped_cycle_tr e cyc cw : In e D -> fst (dropped_cycle_tr g w sp e) = inr (cyc, cw) ->
    Forall inSW (snd (dropped_cycle_tr g w sp e)) /\ inS cw /\ NoDup cyc /\ cw = weight w cyc.
  Proof.
    intros He Hfst.
    assert (Hrun : dropped_cycle g w sp e = inr (cyc, cw)) by (rewrite <- ovt_dropped_cycle_erase; exact Hfst).
    destruct (ap_dropped_cycle g Hg sp Hsub HP Hpath w e cyc cw He Hrun) as (_ & Hnd & _).
    pose proof (ap_dropped_cycle_weight g w sp e cyc cw Hrun) as Ecw.
    assert (HcwS : inS cw) by (rewrite Ecw; apply ovt_weight_nodup; assumption).
    split; [|split; [exact HcwS|split; [exact Hnd|exact Ecw]]].
    unfold dropped_cycle_tr in Hfst |- *. destruct (ends g e) as [[v u]|]; [|discriminate]. cbv zeta in Hfst |- *.
    pose proof (ovt_dijkstra_plain_tr h wh v ovt_spanner_simple ovt_spanner_positive) as [_ Hdj].
    assert (Hdj' : Forall inSW (snd (dijkstra_tr h wh v))).
    { eapply Forall_impl; [|exact Hdj]. cbv beta. unfold inrange.
      pose proof ovt_spanner_wsum. pose proof ovt_spanner_wmax. intros x Hx. lia. }
    destruct (fst (dijkstra_tr h wh v)) as [dist pred| |]; try discriminate.
    destruct (fst (pred_chain_tr (Datatypes.S (nv g)) h R w pred u [] 0)) as [[c0 a0]|] eqn:Ech; [|discriminate].
    cbn [fst snd] in Hfst |- *. injection Hfst as <- <-.
    destruct (ovt_pred_chain_tr h R w pred _ _ _ _ _ _ Ech) as (suf & -> & -> & Hf). cbn [app] in *.
    apply Forall_app. split; [exact Hdj'|]. apply Forall_app. split.
    - eapply Forall_impl; [|exact Hf]. cbv beta. intros x (pre & rest & -> & ->).
      apply (ovt_inS_inSW g w). rewrite Z.add_0_l. apply ovt_weight_nodup; [exact Hpw|].
      rewrite <- app_assoc in Hnd. eapply ovt_NoDup_prefix. exact Hnd.
    - constructor; [apply (ovt_inS_inSW g w); exact HcwS|constructor].
  Qed.

  Lemma ovt_dropped_cycles_tr : forall ds total dcs t, incl ds D -> 0 <= total ->
    fst (dropped_cycles_tr g w sp ds total) = inr (dcs, t) ->
    total <= t /\ Forall (fun c => NoDup c) dcs
    /\ Forall (fun v => inSW v \/ total <= v <= t) (snd (dropped_cycles_tr g w sp ds total)).
  Proof.
    induction ds as [|e ds IH]; intros total dcs t Hincl Ht H; cbn [dropped_cycles_tr] in H |- *.
    - cbn [fst snd] in H |- *. injection H as <- <-. split; [lia|]. split; constructor.
    - cbv zeta in H |- *.
      destruct (fst (dropped_cycle_tr g w sp e)) as [err|[cyc cw]] eqn:E1; [discriminate|].
      destruct (ovt_dropped_cycle_tr e cyc cw (Hincl e (or_introl eq_refl)) E1) as (Hv1 & [Hcw0 _] & Hnd & _).
      cbn [fst snd] in H |- *.
      destruct (fst (dropped_cycles_tr g w sp ds (total + cw))) as [err|[cs t']] eqn:E2; [discriminate|].
      injection H as <- <-.
      destruct (IH (total + cw) cs t' (fun x Hx => Hincl x (or_intror Hx)) ltac:(lia) E2) as (Hle & Hnds & Hv2).
      split; [lia|]. split; [constructor; assumption|].
      apply Forall_app. split; [eapply Forall_impl; [|exact Hv1]; cbv beta; intros x Hx; left; exact Hx|].
      constructor; [right; lia|].
      eapply Forall_impl; [|exact Hv2]. cbv beta. intros x [Hx|Hx]; [left; exact Hx|right; lia].
  Qed.
End Approx.

(* ---- approx_run -------------------------------------------------------------------------------------------------- *)

Section Run.
  Variable exact_tr : graph -> list Z -> sva_result Z * list Z.
  Variable Pe : Z -> Prop.                 (* what is known about the sums of the exact phase *)

  Theorem ovt_approx_run_tr g w k scan cycles total :
    simple_graph g -> positive_weights g w -> Permutation scan (seq 0 (ne g)) ->
    (* the exact phase on the spanner: a cycle basis returned with its weight; its own sums satisfy Pe *)
    (forall sp cs t sup, construct_spanner g k scan = SpOk sp ->
       fst (exact_tr (sp_graph sp) (spanner_weights w sp)) = SvaOk cs t sup ->
       cycle_basis (sp_graph sp) cs /\ has_cycle_space_dimension (sp_graph sp) (length cs)
       /\ t = total_weight (spanner_weights w sp) cs
       /\ Forall Pe (snd (exact_tr (sp_graph sp) (spanner_weights w sp)))) ->
    fst (approx_run_tr exact_tr g w k scan) = ApproxOk cycles total ->
    total = total_weight w cycles
    /\ has_cycle_space_dimension g (length cycles)
    /\ 0 <= total <= Z.of_nat (length cycles) * wsum g w
    /\ Forall (fun v => Pe v \/ 0 <= v <= wsum g w + wmax w \/ 0 <= v <= total)
              (snd (approx_run_tr exact_tr g w k scan)).
  Proof.
    intros Hg Hpw HPs Hex Hfst.
    set (exact := fun h wh => fst (exact_tr h wh)).
    assert (Hrun : approx_run exact g w k scan = ApproxOk cycles total).
    { rewrite <- (ovt_approx_run_erase exact_tr exact g w k scan (fun _ _ => eq_refl)). exact Hfst. }
    assert (Hb : exact_basis_on_spanner exact g w k scan).
    { intros sp cs t sup Hsp E. destruct (Hex sp cs t sup Hsp E) as (H1 & H2 & _). split; assumption. }
    assert (Hw : exact_weight_on_spanner exact g w k scan).
    { intros sp cs t sup Hsp E. destruct (Hex sp cs t sup Hsp E) as (_ & _ & H3 & _). exact H3. }
    destruct (ap_run_basis exact g w k scan cycles total Hg HPs Hb Hrun) as (_ & Hdim & Hlists).
    pose proof (ap_run_weight exact g w k scan cycles total Hw Hrun) as Etot.
    assert (Hfam : 0 <= total <= Z.of_nat (length cycles) * wsum g w).
    { rewrite Etot. apply ovt_family_weight; [exact Hpw|].
      eapply Forall_impl; [|exact Hlists]. cbv beta. intros c [Hc _]. exact Hc. }
    split; [exact Etot|]. split; [exact Hdim|]. split; [exact Hfam|].
    (* the trace *)
    unfold approx_run_tr in Hfst |- *.
    destruct (construct_spanner g k scan) as [sp| | |] eqn:Esp; try discriminate.
    destruct (Nat.ltb k 1); [discriminate|].
    destruct (existsb (fun e => Z.ltb (nth e w 0) 0) (seq 0 (ne g))); [discriminate|]. cbv zeta in Hfst |- *.
    destruct (ap_spanner_facts g k scan sp Hg HPs Esp) as (Hsub & HPerm & Hpath3).
    assert (Hpath : forall e u v, In e (dropped sp) -> ends g e = Some (u, v) ->
              exists p, walk g u p v /\ incl (wedges p) (retained sp)).
    { intros e u v He Hends. destruct (Hpath3 e u v He Hends) as (p & H1 & H2 & _). exists p; auto. }
    specialize (Hex sp).
    destruct (fst (exact_tr (sp_graph sp) (spanner_weights w sp))) as [cs sw sup| | |] eqn:Eex; try discriminate.
    destruct (Hex cs sw sup eq_refl eq_refl) as (Hcb & _ & Esw & HPe).
    destruct (translate_cycles (retained sp) cs) as [tcs|]; [|discriminate].
    destruct (fst (dropped_cycles_tr g w sp (dropped sp) 0)) as [err|[dcs dw]] eqn:Edr; [discriminate|].
    cbn [fst snd] in Hfst |- *. injection Hfst as _ Etotal.
    destruct (ovt_dropped_cycles_tr g Hg w Hpw sp Hsub HPerm Hpath (dropped sp) 0 dcs dw (incl_refl _) ltac:(lia) Edr)
      as (Hdw0 & _ & Hvd).
    assert (Hsw0 : 0 <= sw).
    { rewrite Esw. pose proof Hcb as (Hsc & _ & _).
      pose proof (ov_total_weight_le (sp_graph sp) (spanner_weights w sp)
                    (ovt_spanner_positive g w Hpw sp Hsub) cs Hsc). lia. }
    apply Forall_app. split; [eapply Forall_impl; [|exact HPe]; cbv beta; intros v Hv; left; exact Hv|].
    constructor; [right; right; lia|].
    apply Forall_app. split.
    - eapply Forall_impl; [|exact Hvd]. cbv beta. unfold inrange. intros v [Hv|Hv]; [right; left; exact Hv|right; right; lia].
    - constructor; [right; right; lia|constructor].
  Qed.
End Run.

(* ---- approx_mcb_sva_signed, premise-free -------------------------------------------------------------------------- *)

Theorem ovt_overflow_approx_signed : forall g w k scan roots eord,
  simple_graph g -> positive_weights g w -> (1 <= k)%nat -> Permutation scan (seq 0 (ne g)) ->
  (forall v, (v < nv g)%nat -> In v roots) ->
  exists cycles total,
    approx_sva_signed_Z g w k scan roots eord = ApproxOk cycles total
    /\ fst (approx_sva_signed_Z_tr g w k scan roots eord) = approx_sva_signed_Z g w k scan roots eord
    /\ total = total_weight w cycles
    /\ has_cycle_space_dimension g (length cycles) /\ (length cycles <= ne g)%nat
    /\ 0 <= total <= Z.of_nat (length cycles) * wsum g w
    /\ Forall (fun v => 0 <= v <= 2 * wsum g w + 2 * wmax w \/ 0 <= v <= total)
              (snd (approx_sva_signed_Z_tr g w k scan roots eord))
    /\ (forall M, 2 * wsum g w + 2 * wmax w <= M -> total <= M ->
          Forall (fun v => 0 <= v <= M) (snd (approx_sva_signed_Z_tr g w k scan roots eord)))
    /\ (forall M, Z.max 4 (Z.of_nat (length cycles)) * wsum g w <= M ->
          Forall (fun v => 0 <= v <= M) (snd (approx_sva_signed_Z_tr g w k scan roots eord)) /\ total <= M)
    /\ (forall M, (Z.of_nat (ne g) + 4) * wsum g w <= M ->
          Forall (fun v => 0 <= v <= M) (snd (approx_sva_signed_Z_tr g w k scan roots eord)) /\ total <= M).
Proof.
  intros g w k scan roots eord Hg Hpw Hk HPs Hr.
  destruct (ap_signed_full g w k scan roots eord Hg Hpw Hk HPs Hr) as (cycles & total & Hrun & _).
  exists cycles, total. split; [exact Hrun|]. split; [apply ovt_approx_signed_erase|].
  pose proof (ovt_approx_signed_erase g w k scan roots eord) as Eer. rewrite Hrun in Eer.
  (* the exact phase on the spanner: OverflowProofs4.ov_overflow_total *)
  set (Pe := fun v => 0 <= v <= 2 * wsum g w + 2 * wmax w \/ 0 <= v <= total).
  assert (Hex : forall sp cs t sup, construct_spanner g k scan = SpOk sp ->
            fst (mcb_sva_signed_Z_tr (sp_graph sp) (spanner_weights w sp) roots eord) = SvaOk cs t sup ->
            cycle_basis (sp_graph sp) cs /\ has_cycle_space_dimension (sp_graph sp) (length cs)
            /\ t = total_weight (spanner_weights w sp) cs
            /\ Forall (fun v => 0 <= v <= 2 * wsum g w + 2 * wmax w \/ 0 <= v <= t)
                      (snd (mcb_sva_signed_Z_tr (sp_graph sp) (spanner_weights w sp) roots eord))).
  { intros sp cs t sup Hsp E.
    destruct (ap_spanner_facts g k scan sp Hg HPs Hsp) as (Hsub & HPerm & _).
    pose proof (ovt_spanner_simple g Hg sp Hsub HPerm) as Hhs.
    pose proof (ovt_spanner_positive g w Hpw sp Hsub) as Hhp.
    assert (Hhr : forall v, (v < nv (sp_graph sp))%nat -> In v roots).
    { intros v Hv. apply Hr. rewrite <- (ap_nv_h g sp Hsub). exact Hv. }
    destruct (ov_overflow_total (sp_graph sp) (spanner_weights w sp) roots eord Hhs Hhp Hhr)
      as (cs' & t' & sup' & Erun & Eerase & Hmin & Hdim & Et & _ & _ & _ & Htr & _).
    rewrite Eerase, Erun in E. injection E as <- <- <-.
    split; [exact (proj1 Hmin)|]. split; [exact Hdim|]. split; [exact Et|].
    eapply Forall_impl; [|exact Htr]. cbv beta.
    pose proof (ovt_spanner_wsum g w Hpw sp Hsub HPerm). pose proof (ovt_spanner_wmax w sp).
    intros v [Hv|Hv]; [left; lia|right; exact Hv]. }
  (* t <= total is not available before the run is analysed: use a predicate that mentions the exact phase's own total *)
  set (Pe' := fun v => exists sp cs t sup, construct_spanner g k scan = SpOk sp
                 /\ fst (mcb_sva_signed_Z_tr (sp_graph sp) (spanner_weights w sp) roots eord) = SvaOk cs t sup
                 /\ (0 <= v <= 2 * wsum g w + 2 * wmax w \/ 0 <= v <= t)).
  destruct (ovt_approx_run_tr (fun h wh => mcb_sva_signed_Z_tr h wh roots eord) Pe' g w k scan cycles total Hg Hpw HPs)
    as (Etot & Hdim & Hfam & Htr).
  { intros sp cs t sup Hsp E. destruct (Hex sp cs t sup Hsp E) as (H1 & H2 & H3 & H4).
    split; [exact H1|]. split; [exact H2|]. split; [exact H3|].
    eapply Forall_impl; [|exact H4]. cbv beta. intros v Hv. exists sp, cs, t, sup. auto. }
  { exact Eer. }
  split; [exact Etot|]. split; [exact Hdim|].
  pose proof (ovt_dimension_le_m g _ Hdim) as HNm. split; [exact HNm|]. split; [exact Hfam|].
  (* the exact phase's total is at most the returned total *)
  assert (Hsw : forall sp cs t sup, construct_spanner g k scan = SpOk sp ->
            fst (mcb_sva_signed_Z_tr (sp_graph sp) (spanner_weights w sp) roots eord) = SvaOk cs t sup -> t <= total).
  { intros sp cs t sup Hsp E.
    unfold approx_sva_signed_Z_tr, approx_run_tr in Eer. rewrite Hsp in Eer.
    destruct (Nat.ltb k 1); [discriminate|].
    destruct (existsb (fun e => Z.ltb (nth e w 0) 0) (seq 0 (ne g))); [discriminate|]. cbv zeta in Eer.
    rewrite E in Eer.
    destruct (translate_cycles (retained sp) cs) as [tcs|]; [|discriminate].
    destruct (fst (dropped_cycles_tr g w sp (dropped sp) 0)) as [err|[dcs dw]] eqn:Edr; [discriminate|].
    cbn [fst] in Eer. injection Eer as _ <-.
    destruct (ap_spanner_facts g k scan sp Hg HPs Hsp) as (Hsub & HPerm & Hpath3).
    assert (Hpath : forall e u v, In e (dropped sp) -> ends g e = Some (u, v) ->
              exists p, walk g u p v /\ incl (wedges p) (retained sp)).
    { intros e u v He Hends. destruct (Hpath3 e u v He Hends) as (p & H1 & H2 & _). exists p; auto. }
    destruct (ovt_dropped_cycles_tr g Hg w Hpw sp Hsub HPerm Hpath (dropped sp) 0 dcs dw (incl_refl _) ltac:(lia) Edr)
      as (Hdw0 & _ & _). lia. }
  assert (Htr' : Forall (fun v => 0 <= v <= 2 * wsum g w + 2 * wmax w \/ 0 <= v <= total)
                        (snd (approx_sva_signed_Z_tr g w k scan roots eord))).
  { eapply Forall_impl; [|exact Htr]. cbv beta. pose proof (ov_wsum_nonneg g w Hpw). pose proof (ov_wmax_nonneg w).
    intros v [(sp & cs & t & sup & Hsp & E & Hv)|[Hv|Hv]].
    - specialize (Hsw sp cs t sup Hsp E). destruct Hv as [Hv|Hv]; [left; exact Hv|right; lia].
    - left. lia.
    - right. exact Hv. }
  split; [exact Htr'|].
  assert (HM : forall M, 2 * wsum g w + 2 * wmax w <= M -> total <= M ->
             Forall (fun v => 0 <= v <= M) (snd (approx_sva_signed_Z_tr g w k scan roots eord))).
  { intros M HM1 HM2. eapply Forall_impl; [|exact Htr']. cbv beta. intros v [Hv|Hv]; lia. }
  split; [exact HM|].
  pose proof (ov_wmax_le_wsum g w Hpw). pose proof (ov_wsum_nonneg g w Hpw).
  split.
  - intros M Hle. assert (total <= M) by nia. split; [apply HM; [nia|assumption]|assumption].
  - intros M Hle. assert (total <= M) by nia. split; [apply HM; [nia|assumption]|assumption].
Qed.
