(* RefProofs2.v — proofs about RefModel.v, part 2: the Bellman–Ford rounds on the signed double cover
   (labels carry their walk: validity by construction, minimality by induction on the round) and the
   correctness of ref_search.  Prefix rf_. *)
From Coq Require Import List Arith Bool ZArith Lia Sorted Permutation.
From Parmcb Require Import GraphModel GF2Model GF2Proofs GraphSpec GraphLemmas McbSpec SvaModel RefModel RefProofs1.
Import ListNotations.

(* "D contains an odd number of signed edges" — the oddness predicate of the reference search *)
Definition odd_in (sg : list nat) (D : list nat) : Prop := oddb sg D = true.

(* ---- best ------------------------------------------------------------------------------- *)

Lemma rf_best_in {A} : forall (l : list (option (lbl A))) x, best l = Some x -> In (Some x) l.
Proof.
  induction l as [|a l IH]; intros x H; [discriminate|]. cbn [best] in H.
  unfold obetter in H. destruct a as [[wa pa]|].
  - destruct (best l) as [[wb pb]|] eqn:E.
    + destruct (Z.leb wa wb); inversion H; subst; [left; reflexivity|right; apply IH; reflexivity].
    + inversion H; subst. left; reflexivity.
  - right. apply IH. exact H.
Qed.

Lemma rf_best_le {A} : forall (l : list (option (lbl A))) w a, In (Some (w, a)) l ->
  exists w' a', best l = Some (w', a') /\ (w' <= w)%Z.
Proof.
  induction l as [|x l IH]; intros w a Hin; [destruct Hin|]. cbn [best]. destruct Hin as [->|Hin].
  - unfold obetter. destruct (best l) as [[wb pb]|].
    + destruct (Z.leb_spec w wb); eexists; eexists; (split; [reflexivity|lia]).
    + eexists; eexists; (split; [reflexivity|lia]).
  - destruct (IH w a Hin) as (w' & a' & E & Hle). rewrite E. unfold obetter.
    destruct x as [[wa pa]|].
    + destruct (Z.leb_spec wa w'); eexists; eexists; (split; [reflexivity|lia]).
    + eexists; eexists; (split; [reflexivity|lia]).
Qed.

(* ---- tables ----------------------------------------------------------------------------- *)

Lemma rf_nth_map_seq {A} (f : nat -> A) n v d : v < n -> nth v (map f (seq 0 n)) d = f v.
Proof.
  intros Hv. rewrite (nth_indep _ d (f 0)) by (rewrite map_length, seq_length; exact Hv).
  rewrite map_nth, seq_nth by exact Hv. reflexivity.
Qed.

Lemma rf_nth_map_seq_out {A} (f : nat -> A) n v d : n <= v -> nth v (map f (seq 0 n)) d = d.
Proof. intros Hv. apply nth_overflow. rewrite map_length, seq_length. exact Hv. Qed.

Section BF.
  Variable g : graph.
  Variable wts : list Z.
  Variable sg : list nat.
  Hypothesis Hs : simple_graph g.
  Let n := nv g.
  Let adj := sadj g wts sg.

  Lemma rf_sadj_nth v : v < n ->
    nth v adj [] = map (fun eu => (fst eu, snd eu, memb (fst eu) sg, wt wts (fst eu))) (out_edges g v).
  Proof. intros Hv. unfold adj, sadj. rewrite rf_nth_map_seq by exact Hv. reflexivity. Qed.

  Lemma rf_tget_round T v b : v < n -> tget (bf_round adj n T) v b = relax adj T v b.
  Proof.
    intros Hv. unfold tget, bf_round. rewrite rf_nth_map_seq by exact Hv. destruct b; reflexivity.
  Qed.

  Lemma rf_tget_round_out T v b : n <= v -> tget (bf_round adj n T) v b = None.
  Proof.
    intros Hv. unfold tget, bf_round. rewrite rf_nth_map_seq_out by exact Hv. destruct b; reflexivity.
  Qed.

  Lemma rf_tget_init s v b :
    tget (bf_init n s) v b = if (v <? n) && Nat.eqb v s && negb b then Some (0%Z, []) else None.
  Proof.
    unfold tget, bf_init. destruct (Nat.ltb_spec v n) as [Hv|Hv].
    - rewrite rf_nth_map_seq by exact Hv. destruct b, (Nat.eqb v s); reflexivity.
    - rewrite rf_nth_map_seq_out by exact Hv. destruct b; reflexivity.
  Qed.

  (* what a label means *)
  Definition lab_ok (s r v : nat) (b : bool) (x : lbl rwalk) : Prop :=
    walk g v (snd x) s /\ oddb sg (wedges (snd x)) = b /\ weight wts (wedges (snd x)) = fst x
    /\ length (snd x) <= r.

  Lemma rf_lab_ok_mono s r r' v b x : r <= r' -> lab_ok s r v b x -> lab_ok s r' v b x.
  Proof. intros Hr (H1 & H2 & H3 & H4). repeat (split; [assumption|]). lia. Qed.

  (* validity by construction *)
  Lemma rf_bf_sound s : s < n -> forall r v b x,
    tget (bf_tab adj n s r) v b = Some x -> lab_ok s r v b x.
  Proof.
    intros Hsn. induction r as [|r IH]; intros v b x H; cbn [bf_tab] in H.
    - rewrite rf_tget_init in H.
      destruct (Nat.ltb_spec v n) as [Hv|Hv]; [|discriminate].
      destruct (Nat.eqb_spec v s) as [->|]; [|discriminate]. destruct b; [discriminate|].
      cbn [andb negb] in H. inversion H; subst. unfold lab_ok. cbn [snd fst wedges map length].
      split; [constructor; exact Hsn|]. repeat split; auto.
    - destruct (Nat.ltb_spec v n) as [Hv|Hv]; [|rewrite rf_tget_round_out in H by exact Hv; discriminate].
      rewrite rf_tget_round in H by exact Hv. unfold relax in H. apply rf_best_in in H.
      destruct H as [H|H].
      + apply (rf_lab_ok_mono s r (S r)); [lia|]. apply IH. exact H.
      + rewrite rf_sadj_nth, map_map in H by exact Hv. apply in_map_iff in H as ([e u] & Hc & Hin).
        cbn [fst snd cand] in Hc.
        destruct (tget (bf_tab adj n s r) u (xorb b (memb e sg))) as [[d q]|] eqn:E; [|discriminate].
        inversion Hc; subst x. apply IH in E. destruct E as (H1 & H2 & H3 & H4). cbn [fst snd] in *.
        apply gl_out_edges_joins in Hin. unfold lab_ok. cbn [fst snd wedges map length].
        fold (wedges q). split; [econstructor; eauto|]. split; [|split; [|lia]].
        * rewrite rf_oddb_cons, H2. destruct b, (memb e sg); reflexivity.
        * rewrite rf_weight_cons, H3. lia.
  Qed.

  (* minimality by induction on the round *)
  Lemma rf_bf_min s : s < n -> forall r v b q,
    walk g v q s -> length q <= r -> oddb sg (wedges q) = b ->
    exists w q0, tget (bf_tab adj n s r) v b = Some (w, q0) /\ (w <= weight wts (wedges q))%Z.
  Proof.
    intros Hsn. induction r as [|r IH]; intros v b q Hw Hlen Hodd.
    - destruct q as [|a q]; [|cbn [length] in Hlen; lia]. inversion Hw; subst.
      cbn [bf_tab]. rewrite rf_tget_init. cbn [wedges map]. rewrite rf_oddb_nil.
      destruct (Nat.ltb_spec s n) as [_|]; [|lia]. rewrite Nat.eqb_refl. cbn [andb negb].
      eexists; eexists; split; [reflexivity|]. unfold weight; cbn. lia.
    - assert (Hv : v < n) by (eapply gl_walk_start_lt; eauto).
      cbn [bf_tab]. rewrite rf_tget_round by exact Hv. unfold relax.
      destruct q as [|[e u] q].
      + destruct (IH v b [] Hw (Nat.le_0_l _) Hodd) as (w & q0 & E & Hle).
        destruct (rf_best_le (tget (bf_tab adj n s r) v b :: map (cand (bf_tab adj n s r) b) (nth v adj []))
                             w q0 (or_introl E)) as (w' & a' & Eb & Hle').
        exists w', a'. split; [exact Eb|lia].
      + inversion Hw as [|x' e0 y' p' z' Hj Hw2]; subst. cbn [length] in Hlen.
        cbn [wedges map fst] in *. fold (wedges q) in *.
        destruct (IH u (oddb sg (wedges q)) q Hw2 ltac:(lia) eq_refl) as (d & q0 & E & Hle).
        destruct (rf_best_le (tget (bf_tab adj n s r) v (oddb sg (e :: wedges q))
                               :: map (cand (bf_tab adj n s r) (oddb sg (e :: wedges q))) (nth v adj []))
                             (d + wt wts e)%Z ((e, u) :: q0)) as (w' & a' & Eb & Hle').
        { right. rewrite rf_sadj_nth, map_map by exact Hv. apply in_map_iff. exists (e, u).
          split; [|apply gl_out_edges_joins; exact Hj]. cbn [fst snd cand].
          replace (xorb (oddb sg (e :: wedges q)) (memb e sg)) with (oddb sg (wedges q))
            by (rewrite rf_oddb_cons; destruct (memb e sg), (oddb sg (wedges q)); reflexivity).
          rewrite E. reflexivity. }
        exists w', a'. split; [exact Eb|]. rewrite rf_weight_cons. lia.
  Qed.
End BF.

(* ---- simple cycles as closed walks of at most n edges ------------------------------------- *)

Lemma rf_walk_verts_lt g : simple_graph g -> forall p x z, walk g x p z ->
  forall v, In v (wverts p) -> v < nv g.
Proof.
  intros Hs. induction p as [|[e y] p IH]; intros x z Hw v Hin; [destruct Hin|].
  inversion Hw as [|x' e0 y' p' z' Hj Hw2]; subst. cbn [wverts map snd] in Hin.
  destruct Hin as [<-|Hin]; [|eapply IH; eauto].
  apply (gl_simple_joins g e x y Hs Hj).
Qed.

Lemma rf_simple_walk_short g x p z : simple_graph g -> walk g x p z -> NoDup (wverts p) ->
  length p <= nv g.
Proof.
  intros Hs Hw Hnd. replace (length p) with (length (wverts p)) by apply map_length.
  rewrite <- (seq_length (nv g) 0). apply NoDup_incl_length; [exact Hnd|].
  intros v Hv. apply in_seq. pose proof (rf_walk_verts_lt g Hs p x z Hw v Hv). lia.
Qed.

(* a simple cycle seen as an odd closed walk: same parity, same weight, at most n edges *)
Lemma rf_simple_cycle_walk g wts sg D : simple_graph g -> simple_cycle g D ->
  exists x p, walk g x p x /\ length p <= nv g /\ x < nv g
    /\ oddb sg (wedges p) = oddb sg D /\ weight wts (wedges p) = weight wts D.
Proof.
  intros Hs (Hne & Hsd & x & p & Hw & Hnde & Hndv & HE).
  assert (HP : Permutation D (wedges p)).
  { apply NoDup_Permutation; auto. apply gl_sorted_NoDup; exact Hsd. }
  exists x, p. split; [exact Hw|]. split; [eapply rf_simple_walk_short; eauto|].
  split; [eapply gl_walk_end_lt; eauto|].
  split; [symmetry; apply rf_oddb_perm; exact HP|symmetry; apply rf_weight_perm; exact HP].
Qed.

(* ---- ref_search ----------------------------------------------------------------------------- *)

(* the first stage: the lightest odd closed walk over all sources *)
Definition rf_stage1 (g : graph) (wts : list Z) (sg : list nat) : option (lbl rwalk) :=
  best (map (odd_closed_at (sadj g wts sg) (nv g)) (seq 0 (nv g))).

Lemma rf_stage1_sound g wts sg w q : simple_graph g -> rf_stage1 g wts sg = Some (w, q) ->
  exists s, walk g s q s /\ oddb sg (wedges q) = true /\ weight wts (wedges q) = w.
Proof.
  intros Hs H. unfold rf_stage1 in H. apply rf_best_in in H.
  apply in_map_iff in H as (s & E & Hin). apply in_seq in Hin. unfold odd_closed_at in E.
  apply (rf_bf_sound g wts sg s) in E; [|lia]. destruct E as (H1 & H2 & H3 & _).
  exists s. cbn [fst snd] in *. auto.
Qed.

Lemma rf_stage1_min g wts sg D : simple_graph g -> simple_cycle g D -> odd_in sg D ->
  exists w q, rf_stage1 g wts sg = Some (w, q) /\ (w <= weight wts D)%Z.
Proof.
  intros Hs HD Hodd.
  destruct (rf_simple_cycle_walk g wts sg D Hs HD) as (x & p & Hw & Hlen & Hx & Hp & Hwt).
  destruct (rf_bf_min g wts sg Hs x Hx (nv g) x true p Hw Hlen) as (w1 & q1 & E & Hle).
  { rewrite Hp. exact Hodd. }
  destruct (rf_best_le (map (odd_closed_at (sadj g wts sg) (nv g)) (seq 0 (nv g))) w1 q1)
    as (w' & q' & Eb & Hle').
  { apply in_map_iff. exists x. split; [exact E|apply in_seq; lia]. }
  exists w', q'. split; [exact Eb|]. lia.
Qed.

Lemma rf_ref_search_unfold g wts sg :
  ref_search g wts sg =
  match rf_stage1 g wts sg with
  | None => PNone
  | Some (_, q) =>
      match shortcut (S (length q)) sg q with
      | None => PError
      | Some p => PFound (set_of_list (wedges p)) (weight wts (set_of_list (wedges p)))
      end
  end.
Proof. reflexivity. Qed.

Theorem rf_ref_search_correct g wts sg c w :
  simple_graph g -> positive_weights g wts -> ref_search g wts sg = PFound c w ->
  min_odd_cycle g wts (odd_in sg) c /\ w = weight wts c.
Proof.
  intros Hs Hpw H. rewrite rf_ref_search_unfold in H.
  destruct (rf_stage1 g wts sg) as [[w0 q]|] eqn:E1; [|discriminate].
  destruct (rf_stage1_sound g wts sg w0 q Hs E1) as (s & Hw & Hodd & Hwt).
  destruct (rf_shortcut_simple_cycle g wts sg Hs Hpw q s Hw Hodd) as (p & E2 & Hsc & Hoc & Hle).
  rewrite E2 in H. inversion H; subst c w. clear H. split; [|reflexivity].
  split; [exact Hsc|]. split; [exact Hoc|].
  intros D HD HoD. destruct (rf_stage1_min g wts sg D Hs HD HoD) as (w1 & q1 & E & Hle1).
  rewrite E1 in E. inversion E; subst w1 q1. lia.
Qed.

Theorem rf_ref_search_no_error g wts sg :
  simple_graph g -> positive_weights g wts -> ref_search g wts sg <> PError.
Proof.
  intros Hs Hpw. rewrite rf_ref_search_unfold.
  destruct (rf_stage1 g wts sg) as [[w0 q]|] eqn:E1; [|discriminate].
  destruct (rf_stage1_sound g wts sg w0 q Hs E1) as (s & Hw & Hodd & Hwt).
  destruct (rf_shortcut_simple_cycle g wts sg Hs Hpw q s Hw Hodd) as (p & E2 & _).
  rewrite E2. discriminate.
Qed.

(* totality: an odd simple cycle exists -> one is found (equivalently: PNone -> there is none) *)
Theorem rf_ref_search_total g wts sg D :
  simple_graph g -> positive_weights g wts -> simple_cycle g D -> odd_in sg D ->
  exists c w, ref_search g wts sg = PFound c w.
Proof.
  intros Hs Hpw HD HoD. rewrite rf_ref_search_unfold.
  destruct (rf_stage1_min g wts sg D Hs HD HoD) as (w1 & q1 & E & _). rewrite E.
  destruct (rf_stage1_sound g wts sg w1 q1 Hs E) as (s & Hw & Hodd & Hwt).
  destruct (rf_shortcut_simple_cycle g wts sg Hs Hpw q1 s Hw Hodd) as (p & E2 & _).
  rewrite E2. eexists; eexists; reflexivity.
Qed.
