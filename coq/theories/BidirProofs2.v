(* BidirProofs2.v — optimality of the bidirectional signed search, part 2: the operations of ONE frontier
   preserve the invariant `finv` of BidirProofs1.v:
     bd_poll_finv     fr_poll settles the heap minimum, whose entry is its final distance
                      (first-exit argument = bd_lower_bound);
     bd_update_finv   fr_update (relaxation of one cover edge out of the vertex being scanned) never hits the
                      `None` (= LoopBroken) branch: a settled vertex is never improved;
   and the edge loop of a scan (scan_edge / fold_left) together with the bookkeeping of `best`:
     bd_scan_step, bd_scan_fold.
   No axioms. *)
From Coq Require Import List Arith Bool ZArith Lia Permutation.
From Parmcb Require Import GraphModel GF2Model GF2Proofs GraphSpec GraphLemmas McbSpec ForestModel
     HeapModel HeapSpec HeapProofs SvaModel SvaSpec SignedModel SignedZModel SignedProofs RefProofs1
     BidirSpec BidirProofs1.
Import ListNotations.

Local Open Scope Z_scope.

(* best <= z *)
Definition best_le (best : option (Z * nat)) (z : Z) : Prop :=
  exists bp x, best = Some (bp, x) /\ bp <= z.

Lemma bd_best_le_mono best z z' : best_le best z -> z <= z' -> best_le best z'.
Proof. intros (bp & x & E & H) Hz. exists bp, x. split; [exact E|lia]. Qed.

(* best is no more than the sum of the current entries of its common vertex *)
Definition bestok (fr other : frontier Z) (best : option (Z * nat)) : Prop :=
  forall bp x, best = Some (bp, x) ->
    exists df db, fdist fr x = Some df /\ fdist other x = Some db /\ df + db <= bp.

Lemma bd_klt_some a b : klt Z Z.ltb (Some a) (Some b) = Z.ltb a b.
Proof. reflexivity. Qed.

Section Ops.
  Variable P : sparams Z.
  Local Notation g := (sp_g Z P).
  Local Notation n := (nv (sp_g Z P)).
  Local Notation wts := (sp_wts Z P).
  Hypothesis Hs : simple_graph g.
  Hypothesis Hpw : positive_weights g wts.

  Local Notation finv := (finv P).
  Local Notation KLT := (klt Z Z.ltb).

  (* ---- poll ---------------------------------------------------------------------------------------- *)

  Lemma bd_poll_finv s fr u fr1 : finv (fun _ _ => True) s fr -> fr_poll Z Z.ltb fr = Some (u, fr1) ->
    exists du, fdist fr1 u = Some du
      /\ finv (fun x _ => x <> u) s fr1
      /\ In u (f_heap Z fr)
      /\ settled fr1 u
      /\ (forall x, settled fr1 x <-> settled fr x \/ x = u)
      /\ (forall x, In x (f_heap Z fr1) <-> In x (f_heap Z fr) /\ x <> u)
      /\ f_dist Z fr1 = f_dist Z fr /\ f_pred Z fr1 = f_pred Z fr /\ f_src Z fr1 = f_src Z fr
      /\ (forall x dx, settled fr1 x -> fdist fr1 x = Some dx -> dx <= du)
      /\ (u <> s -> blim P du)
      /\ (forall v dv, In v (f_heap Z fr) -> fdist fr v = Some dv -> du <= dv).
  Proof.
    intros H Hp. unfold fr_poll in Hp.
    destruct (heap_top (f_heap Z fr)) as [u'|] eqn:Etop; [|discriminate].
    injection Hp as -> <-.
    pose proof (fi_heap _ _ _ _ H) as Hok.
    destruct (heap_top_min _ _ _ _ _ klt_strict_weak_order Hok Etop) as [Hin Hmin].
    destruct (heap_pop_correct _ _ _ _ _ klt_strict_weak_order Hok Etop) as [Hok' Hperm].
    set (h' := heap_pop (option Z) KLT (fkey Z (f_dist Z fr)) (f_heap Z fr)) in *.
    set (fr1 := {| f_src := f_src Z fr; f_dist := f_dist Z fr; f_pred := f_pred Z fr; f_heap := h' |}).
    assert (Hnd : NoDup (u :: h')).
    { eapply Permutation_NoDup; [exact Hperm|exact (proj1 Hok)]. }
    assert (Hmem : forall x, In x h' <-> In x (f_heap Z fr) /\ x <> u).
    { intros x. split.
      - intros Hx. split.
        + eapply Permutation_in; [apply Permutation_sym; exact Hperm|right; exact Hx].
        + intros ->. inversion Hnd; subst; contradiction.
      - intros [Hx Hne]. apply (Permutation_in _ Hperm) in Hx as [->|Hx]; [contradiction|exact Hx]. }
    assert (Hent : forall x, has_entry fr1 x <-> has_entry fr x) by (intros x; reflexivity).
    assert (Heu : has_entry fr u) by (apply (fi_heap_entry _ _ _ _ H); exact Hin).
    destruct (bd_entry_dist P _ s fr u H Heu) as (du & Edu & pu & Hwu & Elu).
    assert (Hset : forall x, settled fr1 x <-> settled fr x \/ x = u).
    { intros x. unfold settled. cbn [fr1 f_heap]. rewrite Hmem, Hent. split.
      - intros [He Hn]. destruct (Nat.eq_dec x u) as [->|Hne]; [right; reflexivity|].
        left. split; [exact He|]. intros Hx. apply Hn. split; assumption.
      - intros [[He Hn]| ->]; [split; [exact He|tauto]|split; [exact Heu|tauto]]. }
    (* heap keys of the old heap are at least du *)
    assert (Hmin' : forall v dv, In v (f_heap Z fr) -> fdist fr v = Some dv -> du <= dv).
    { intros v dv Hv Ev. specialize (Hmin v Hv). unfold fkey in Hmin.
      unfold fdist, fr_dist in Ev, Edu. rewrite Ev, Edu, bd_klt_some in Hmin.
      apply Z.ltb_ge in Hmin. exact Hmin. }
    assert (Hub : u <> s -> blim P du).
    { intros Hne. eapply (bd_entry_blim P); [exact H|exact Heu|exact Hne|exact Edu]. }
    (* the popped entry is final *)
    assert (Hcd : cdist P s u du).
    { split; [exists pu; split; assumption|]. intros q Hq.
      destruct (bd_lower_bound P Hpw s fr H q u Hq) as [[[_ Hn] _]|[(v & dv & Hv & Ev & Hle)|Hnb]].
      - contradiction.
      - specialize (Hmin' v dv Hv Ev). lia.
      - destruct (Nat.eq_dec u s) as [->|Hne].
        + assert (Hdu0 : du = 0) by (pose proof (fi_sdist _ _ _ _ H) as E0; congruence).
          pose proof (bd_clen_nonneg P q Hpw). lia.
        + pose proof (bd_blim_lt P _ _ (Hub Hne) Hnb). lia. }
    exists du. split; [exact Edu|]. split; [|split; [exact Hin|]]; [|split; [apply Hset; right; reflexivity|]].
    2:{ split; [exact Hset|]. split; [exact Hmem|]. split; [reflexivity|]. split; [reflexivity|].
        split; [reflexivity|]. split; [|split; [exact Hub|exact Hmin']].
        intros x dx Hx Ex. apply Hset in Hx as [Hx| ->].
        - eapply (fi_mono _ _ _ _ H x u dx du Hx Hin); [exact Ex|exact Edu].
        - change (fdist fr u = Some dx) in Ex. assert (dx = du) by congruence. lia. }
    destruct H. constructor; try assumption.
    - intros x p e E. destruct (fi_pred x p e E) as (H1 & H2 & H3 & H4).
      split; [exact H1|]. split; [exact H2|]. split; [apply Hset; left; exact H3|exact H4].
    - intros x Hx. apply Hmem in Hx as [Hx _]. apply fi_heap_entry. exact Hx.
    - intros x Hx. apply Hset in Hx as [Hx| ->]; [apply fi_settled; exact Hx|].
      exists du. split; [exact Edu|exact Hcd].
    - intros x e v dx Hx Hne Hst Ex. apply Hset in Hx as [Hx| ->]; [|contradiction].
      eapply fi_scanned; [exact Hx|exact I|exact Hst|exact Ex].
    - intros x v dx dv Hx Hv Ex Ev. apply Hmem in Hv as [Hv Hvne].
      apply Hset in Hx as [Hx| ->].
      + eapply fi_mono; eassumption.
      + change (fdist fr u = Some dx) in Ex. assert (dx = du) by congruence. subst dx.
        eapply Hmin'; eassumption.
  Qed.

  (* ---- relaxation ----------------------------------------------------------------------------------- *)

  (* the common part of "first time found" and "decrease key": the target sw is not settled, gets the
     entry c = du + w(e) and the predecessor (su, e), and the heap h' is the old one plus sw *)
  Lemma bd_relax_finv (done : nat -> nat -> Prop) s fr su du e sw h' :
    finv done s fr -> settled fr su -> fdist fr su = Some du ->
    (forall x dx, settled fr x -> fdist fr x = Some dx -> dx <= du) ->
    cstep P su e sw -> blim P (du + wt wts e) -> sw <> s -> ~ settled fr sw ->
    (forall d, fdist fr sw = Some d -> du + wt wts e <= d) ->
    heap_ok (option Z) KLT (fkey Z (set_nth (f_dist Z fr) sw (Some (du + wt wts e)))) h' ->
    (forall x, In x h' <-> In x (f_heap Z fr) \/ x = sw) ->
    let fr' := {| f_src := f_src Z fr; f_dist := set_nth (f_dist Z fr) sw (Some (du + wt wts e));
                  f_pred := set_nth (f_pred Z fr) sw (Some (su, e)); f_heap := h' |} in
    finv (fun x e' => done x e' \/ (x = su /\ e' = e)) s fr'
    /\ (forall x, has_entry fr x -> has_entry fr' x)
    /\ (forall x, settled fr' x <-> settled fr x)
    /\ (forall x, settled fr x -> fdist fr' x = fdist fr x)
    /\ (forall x d, fdist fr x = Some d -> exists d', fdist fr' x = Some d' /\ d' <= d)
    /\ (exists d', fdist fr' sw = Some d' /\ d' <= du + wt wts e).
  Proof.
    intros H Hsu Edu Hmax Hst Hb Hne Hnset Hdec Hok' Hmem fr'.
    set (c := du + wt wts e) in *.
    assert (Hswlt : (sw < 2 * n)%nat) by apply Hst.
    assert (Hd : forall x, fdist fr' x = if Nat.eqb x sw then Some c else fdist fr x).
    { intros x. unfold fdist, fr_dist. cbn [fr' f_dist]. apply hnth_set_nth.
      rewrite (fi_ldist _ _ _ _ H). exact Hswlt. }
    assert (Hp : forall x, fpredv fr' x = if Nat.eqb x sw then Some (su, e) else fpredv fr x).
    { intros x. unfold fpredv. cbn [fr' f_pred]. apply hnth_set_nth.
      rewrite (fi_lpred _ _ _ _ H). exact Hswlt. }
    assert (Hdsw : fdist fr' sw = Some c) by (rewrite Hd, Nat.eqb_refl; reflexivity).
    assert (Hdne : forall x, x <> sw -> fdist fr' x = fdist fr x).
    { intros x Hx. rewrite Hd. apply Nat.eqb_neq in Hx. rewrite Hx. reflexivity. }
    assert (Hpne : forall x, x <> sw -> fpredv fr' x = fpredv fr x).
    { intros x Hx. rewrite Hp. apply Nat.eqb_neq in Hx. rewrite Hx. reflexivity. }
    assert (Hent : forall x, has_entry fr' x <-> has_entry fr x \/ x = sw).
    { intros x. rewrite !bd_has_entry_iff. cbn [fr' f_src]. destruct (Nat.eq_dec x sw) as [->|Hx].
      - split; [auto|]. intros _. right. exists (su, e). rewrite Hp, Nat.eqb_refl. reflexivity.
      - rewrite (Hpne x Hx). tauto. }
    assert (Hset : forall x, settled fr' x <-> settled fr x).
    { intros x. unfold settled. cbn [fr' f_heap]. rewrite Hmem, Hent. split.
      - intros [[He| ->] Hn]; [|tauto]. split; [exact He|tauto].
      - intros [He Hn]. split; [left; exact He|]. intros [Hx| ->]; [contradiction|].
        apply Hnset. split; assumption. }
    assert (Hsetne : forall x, settled fr x -> x <> sw) by (intros x Hx ->; contradiction).
    assert (Hdu0 : 0 <= du) by (eapply (bd_entry_nonneg P Hpw); eassumption).
    assert (Hwe : 0 < wt wts e) by (eapply bd_cstep_wt_pos; eassumption).
    split; [|split; [intros x Hx; apply Hent; left; exact Hx|]]; [|split; [exact Hset|]];
      [|split; [intros x Hx; apply Hdne, Hsetne, Hx|]]; [|split; [|exists c; split; [exact Hdsw|lia]]].
    2:{ intros x d Ex. destruct (Nat.eq_dec x sw) as [->|Hx].
        - exists c. split; [exact Hdsw|]. apply Hdec. exact Ex.
        - exists d. split; [rewrite Hdne by exact Hx; exact Ex|lia]. }
    destruct H. constructor; try assumption.
    - cbn [fr' f_dist]. rewrite hset_nth_length. assumption.
    - cbn [fr' f_pred]. rewrite hset_nth_length. assumption.
    - rewrite Hpne by (intros E; apply Hne; symmetry; exact E). assumption.
    - rewrite Hdne by (intros E; apply Hne; symmetry; exact E). assumption.
    - intros x p e' E. rewrite Hp in E. destruct (Nat.eqb_spec x sw) as [->|Hx].
      + injection E as <- <-. split; [exact Hne|]. split; [exact Hst|].
        split; [apply Hset; exact Hsu|]. exists du.
        split; [rewrite Hdne by (apply Hsetne; exact Hsu); exact Edu|]. split; [exact Hdsw|exact Hb].
      + destruct (fi_pred x p e' E) as (H1 & H2 & H3 & dp & H4 & H5 & H6).
        split; [exact H1|]. split; [exact H2|]. split; [apply Hset; exact H3|]. exists dp.
        split; [rewrite Hdne by (apply Hsetne; exact H3); exact H4|].
        split; [rewrite Hdne by exact Hx; exact H5|exact H6].
    - intros x Hxs E. rewrite Hp in E. destruct (Nat.eqb_spec x sw) as [->|Hx]; [discriminate|].
      rewrite Hdne by exact Hx. apply fi_nopred; assumption.
    - intros x Hx. apply Hent. apply Hmem in Hx as [Hx| ->]; [left; apply fi_heap_entry; exact Hx|right; reflexivity].
    - intros x Hx. apply Hset in Hx. rewrite Hdne by (apply Hsetne; exact Hx). apply fi_settled. exact Hx.
    - intros x e' v dx Hx Hdn Hst' Ex Hb'. apply Hset in Hx.
      rewrite Hdne in Ex by (apply Hsetne; exact Hx).
      destruct Hdn as [Hdn|[-> ->]].
      + destruct (fi_scanned x e' v dx Hx Hdn Hst' Ex Hb') as (dv & Ev & Hle).
        destruct (Nat.eq_dec v sw) as [->|Hv].
        * exists c. split; [exact Hdsw|]. specialize (Hdec dv Ev). lia.
        * exists dv. split; [rewrite Hdne by exact Hv; exact Ev|exact Hle].
      + assert (v = sw).
        { pose proof Hst as (_ & _ & Hj & _).
          transitivity (ctarget P su e (vertex_of n sw)).
          - apply (bd_cstep_unique P Hs su e v (vertex_of n sw) Hst' Hj).
          - symmetry. apply (bd_cstep_unique P Hs su e sw (vertex_of n sw) Hst Hj). }
        subst v. assert (dx = du) by congruence. subst dx. exists c. split; [exact Hdsw|lia].
    - intros x v dx dv Hx Hv Ex Ev. apply Hset in Hx.
      rewrite Hdne in Ex by (apply Hsetne; exact Hx).
      destruct (Nat.eq_dec v sw) as [->|Hvne].
      + rewrite Hdsw in Ev. injection Ev as <-. specialize (Hmax x dx Hx Ex). lia.
      + rewrite Hdne in Ev by exact Hvne. apply Hmem in Hv as [Hv| ->]; [|contradiction].
        eapply fi_mono; eassumption.
  Qed.


  (* adding a scanned edge whose target already satisfies the relaxation condition *)
  Lemma bd_finv_done_add (done : nat -> nat -> Prop) s fr su e :
    finv done s fr ->
    (forall v du', settled fr su -> cstep P su e v -> fdist fr su = Some du' -> blim P (du' + wt wts e) ->
       exists dv, fdist fr v = Some dv /\ dv <= du' + wt wts e) ->
    finv (fun x e' => done x e' \/ (x = su /\ e' = e)) s fr.
  Proof.
    intros H Hadd. destruct H. constructor; try assumption.
    intros x e' v dx Hx [Hdn|[-> ->]] Hst Ex Hb.
    - eapply fi_scanned; eassumption.
    - eapply Hadd; eassumption.
  Qed.

  Lemma bd_update_finv (done : nat -> nat -> Prop) s fr su du e sw :
    finv done s fr -> settled fr su -> fdist fr su = Some du ->
    (forall x dx, settled fr x -> fdist fr x = Some dx -> dx <= du) ->
    cstep P su e sw -> blim P (du + wt wts e) ->
    exists fr', fr_update Z Z.ltb fr sw (du + wt wts e) su e = Some fr'
      /\ finv (fun x e' => done x e' \/ (x = su /\ e' = e)) s fr'
      /\ f_src Z fr' = f_src Z fr
      /\ (forall x, has_entry fr x -> has_entry fr' x)
      /\ (forall x, settled fr' x <-> settled fr x)
      /\ (forall x, settled fr x -> fdist fr' x = fdist fr x)
      /\ (forall x d, fdist fr x = Some d -> exists d', fdist fr' x = Some d' /\ d' <= d)
      /\ (exists d', fdist fr' sw = Some d' /\ d' <= du + wt wts e).
  Proof.
    intros H Hsu Edu Hmax Hst Hb.
    set (c := du + wt wts e) in *.
    assert (Hdu0 : 0 <= du) by (eapply (bd_entry_nonneg P Hpw); eassumption).
    assert (Hwe : 0 < wt wts e) by (eapply bd_cstep_wt_pos; eassumption).
    assert (Hswlt : (sw < 2 * n)%nat) by apply Hst.
    (* uniqueness of the target *)
    assert (Huniq : forall v, cstep P su e v -> v = sw).
    { intros v Hst'. pose proof Hst as (_ & _ & Hj & _).
      transitivity (ctarget P su e (vertex_of n sw)).
      - apply (bd_cstep_unique P Hs su e v (vertex_of n sw) Hst' Hj).
      - symmetry. apply (bd_cstep_unique P Hs su e sw (vertex_of n sw) Hst Hj). }
    (* the no-change case *)
    assert (Hsame : forall dw, fdist fr sw = Some dw -> dw <= c ->
      finv (fun x e' => done x e' \/ (x = su /\ e' = e)) s fr
      /\ f_src Z fr = f_src Z fr
      /\ (forall x, has_entry fr x -> has_entry fr x)
      /\ (forall x, settled fr x <-> settled fr x)
      /\ (forall x, settled fr x -> fdist fr x = fdist fr x)
      /\ (forall x d, fdist fr x = Some d -> exists d', fdist fr x = Some d' /\ d' <= d)
      /\ (exists d', fdist fr sw = Some d' /\ d' <= c)).
    { intros dw Edw Hle. split.
      - apply bd_finv_done_add; [exact H|]. intros v du' _ Hst' Edu' _.
        apply Huniq in Hst'. subst v. assert (du' = du) by congruence. subst du'.
        exists dw. split; [exact Edw|exact Hle].
      - split; [reflexivity|]. split; [auto|]. split; [tauto|]. split; [auto|].
        split; [intros x d Ex; exists d; split; [exact Ex|lia]|].
        exists dw. split; [exact Edw|exact Hle]. }
    unfold fr_update. pose proof (fi_src _ _ _ _ H) as Esrc.
    destruct (Nat.eqb_spec sw (f_src Z fr)) as [E|Hne0].
    { exists fr. split; [reflexivity|]. apply (Hsame 0); [|unfold c; lia].
      rewrite E, Esrc. exact (fi_sdist _ _ _ _ H). }
    assert (Hne : sw <> s) by (rewrite <- Esrc; exact Hne0).
    pose proof (fi_heap _ _ _ _ H) as Hok.
    destruct (nth sw (f_pred Z fr) None) as [[p0 e0]|] eqn:Epred.
    - (* already has an entry *)
      destruct (fi_pred _ _ _ _ H sw p0 e0 Epred) as (_ & _ & _ & dp & _ & Edw & _).
      set (dw := dp + wt wts e0) in *.
      change (fr_dist Z fr sw) with (fdist fr sw). rewrite Edw.
      destruct (Z.ltb_spec c dw) as [Hlt|Hge].
      2:{ exists fr. split; [reflexivity|]. apply (Hsame dw); [exact Edw|lia]. }
      assert (Hesw : has_entry fr sw).
      { apply bd_has_entry_iff. right. exists (p0, e0). exact Epred. }
      assert (Hnset : ~ settled fr sw).
      { intros Hset. destruct (fi_settled _ _ _ _ H sw Hset) as (d & Ed & _ & Hlow).
        assert (d = dw) by congruence. subst d.
        destruct (fi_settled _ _ _ _ H su Hsu) as (d & Ed' & (q & Hq & Elq) & _).
        assert (Hd : d = du) by congruence.
        specialize (Hlow (q ++ [(e, sw)]) (bd_cwalk_snoc P _ _ _ _ _ Hq Hst)).
        rewrite bd_clen_app, Elq, bd_clen_cons, bd_clen_nil in Hlow. unfold c in Hlt. lia. }
      assert (Hinh : In sw (f_heap Z fr)).
      { destruct (bd_entry_cases fr sw Hesw) as [Hx|Hx]; [contradiction|exact Hx]. }
      destruct (heap_update_correct _ _ (fkey Z (f_dist Z fr))
                  (fkey Z (set_nth (f_dist Z fr) sw (Some c))) (f_heap Z fr) sw
                  klt_strict_weak_order Hok Hinh) as (h' & Eh & Hok' & Hperm).
      { intros x Hx. unfold fkey. apply bd_nth_set_nth_neq. exact Hx. }
      { unfold fkey. rewrite bd_nth_set_nth_eq by (rewrite (fi_ldist _ _ _ _ H); exact Hswlt).
        unfold fdist, fr_dist in Edw. rewrite Edw, bd_klt_some. apply Z.ltb_ge. lia. }
      rewrite Eh. eexists. split; [reflexivity|].
      destruct (bd_relax_finv done s fr su du e sw h' H Hsu Edu Hmax Hst Hb Hne Hnset) as (H1 & H2 & H3 & H4 & H5 & H6).
      + intros d Ed. assert (d = dw) by congruence. unfold c in Hlt. lia.
      + exact Hok'.
      + intros x. split.
        * intros Hx. left. eapply Permutation_in; [apply Permutation_sym; exact Hperm|exact Hx].
        * intros [Hx| ->]; (eapply Permutation_in; [exact Hperm|]); assumption.
      + split; [exact H1|]. split; [reflexivity|]. auto.
    - (* first time found *)
      assert (Hnent : ~ has_entry fr sw).
      { intros He. apply bd_has_entry_iff in He as [E|[pe E]].
        - apply Hne. rewrite E. exact (fi_src _ _ _ _ H).
        - unfold fpredv in E. rewrite Epred in E. discriminate. }
      assert (Hnset : ~ settled fr sw) by (intros [He _]; contradiction).
      assert (Hninh : ~ In sw (f_heap Z fr)).
      { intros Hx. apply Hnent. apply (fi_heap_entry _ _ _ _ H). exact Hx. }
      assert (Hok1 : heap_ok (option Z) KLT (fkey Z (set_nth (f_dist Z fr) sw (Some c))) (f_heap Z fr)).
      { eapply bd_heap_ok_ext; [|exact Hok]. intros x Hx. unfold fkey. apply bd_nth_set_nth_neq.
        intros ->. contradiction. }
      destruct (heap_push_correct _ _ _ _ sw klt_strict_weak_order Hok1 Hninh) as [Hok' Hperm].
      eexists. split; [reflexivity|].
      destruct (bd_relax_finv done s fr su du e sw
                  (heap_push (option Z) KLT (fkey Z (set_nth (f_dist Z fr) sw (Some c))) (f_heap Z fr) sw)
                  H Hsu Edu Hmax Hst Hb Hne Hnset) as (H1 & H2 & H3 & H4 & H5 & H6);
        [| exact Hok' | | split; [exact H1|]; split; [reflexivity|]; auto].
      + intros d Ed. exfalso. rewrite (fi_nopred _ _ _ _ H sw Hne Epred) in Ed. discriminate.
      + intros x. split.
        * intros Hx. apply (Permutation_in _ (Permutation_sym Hperm)) in Hx as [<-|Hx]; auto.
        * intros [Hx| ->]; (eapply Permutation_in; [exact Hperm|]); [right; exact Hx|left; reflexivity].
  Qed.

  (* ---- the edge loop of a scan ------------------------------------------------------------------- *)

  Section Scan.
    Variables (s : nat) (other : frontier Z) (su : nat) (du : Z) (fr0 : frontier Z) (best0 : option (Z * nat)).
    Hypothesis Hoth : forall x, has_entry other x -> exists d, fdist other x = Some d.

    Record sinv (pre : list nat) (fr : frontier Z) (best : option (Z * nat)) : Prop := {
      si_finv : finv (fun x e => x <> su \/ In e pre) s fr;
      si_su : settled fr su;
      si_du : fdist fr su = Some du;
      si_max : forall x dx, settled fr x -> fdist fr x = Some dx -> dx <= du;
      si_bestok : bestok fr other best;
      si_sf : forall e v dv, In e pre -> cstep P su e v -> blim P (du + wt wts e) -> has_entry other v ->
                fdist other v = Some dv -> best_le best (du + wt wts e + dv);
      si_src : f_src Z fr = f_src Z fr0;
      si_entry : forall x, has_entry fr0 x -> has_entry fr x;
      si_settled : forall x, settled fr x <-> settled fr0 x;
      si_sdist : forall x, settled fr0 x -> fdist fr x = fdist fr0 x;
      si_dec : forall x d, fdist fr0 x = Some d -> exists d', fdist fr x = Some d' /\ d' <= d;
      si_best_mono : forall z, best_le best0 z -> best_le best z
    }.

    (* an edge that scan_edge skips, or that cannot be a cover step *)
    Lemma bd_scan_skip pre fr best e :
      sinv pre fr best ->
      (forall v, cstep P su e v -> ~ blim P (du + wt wts e)) ->
      sinv (pre ++ [e]) fr best.
    Proof.
      intros H Hskip. destruct H. constructor; try assumption.
      - eapply bd_finv_done_weaken;
          [|apply (bd_finv_done_add (fun x e' => x <> su \/ In e' pre) s fr su e si_finv0)].
        + intros u e' v _ [Hne|Hin]; [left; left; exact Hne|].
          apply in_app_iff in Hin as [Hin|[<-|[]]]; [left; right; exact Hin|].
          destruct (Nat.eq_dec u su) as [->|Hne]; [right; auto|left; left; exact Hne].
        + intros v du' _ Hst Edu' Hb. exfalso. assert (du' = du) by congruence. subst du'.
          eapply Hskip; eassumption.
      - intros e' v dv Hin Hst Hb. apply in_app_iff in Hin as [Hin|[<-|[]]].
        + apply si_sf0; assumption.
        + exfalso. eapply Hskip; eassumption.
    Qed.

    Lemma bd_scan_step pre fr best e w :
      sinv pre fr best -> joins g e (vertex_of n su) w ->
      exists fr' best',
        scan_edge Z 0 Z.add Z.ltb P other su du (Some (fr, best)) (e, w) = Some (fr', best')
        /\ sinv (pre ++ [e]) fr' best'.
    Proof.
      intros H Hj. unfold scan_edge. cbv zeta.
      destruct (gl_simple_joins _ _ _ _ Hs Hj) as (_ & Hwlt & Hwne).
      destruct (sp_use_hidden Z P && memb e (sp_hidden Z P)) eqn:Ehid.
      { exists fr, best. split; [reflexivity|]. apply bd_scan_skip; [exact H|].
        intros v Hst. apply bd_cstep_hidden in Hst. congruence. }
      destruct (Nat.eqb_spec w (vertex_of n su)) as [E|_]; [exfalso; apply Hwne; symmetry; exact E|].
      change (wtof Z 0 wts e) with (wt wts e).
      destruct (below_limit Z Z.ltb P (du + wt wts e)) eqn:Eb; cbn [negb].
      2:{ exists fr, best. split; [reflexivity|]. apply bd_scan_skip; [exact H|].
          intros v _ Hb. unfold blim in Hb. congruence. }
      fold (ctarget P su e w).
      set (sw := ctarget P su e w).
      assert (Hsult : (su < 2 * n)%nat).
      { eapply (bd_entry_lt P); [exact (si_finv _ _ _ H)|exact (proj1 (si_su _ _ _ H))]. }
      assert (Hst : cstep P su e sw) by (apply (bd_cstep_ctarget P Hs); assumption).
      destruct (bd_update_finv _ s fr su du e sw (si_finv _ _ _ H) (si_su _ _ _ H) (si_du _ _ _ H)
                  (si_max _ _ _ H) Hst Eb)
        as (fr' & Eup & Hf' & Hsrc & Hent & Hset & Hsd & Hdec & (dsw & Edsw & Hdsw)).
      rewrite Eup.
      (* facts shared by all outcomes for best *)
      assert (Hf'' : finv (fun x e' => x <> su \/ In e' (pre ++ [e])) s fr').
      { eapply bd_finv_done_weaken; [|exact Hf'].
        intros u e' v _ [Hne|Hin]; [left; left; exact Hne|].
        apply in_app_iff in Hin as [Hin|[<-|[]]]; [left; right; exact Hin|].
        destruct (Nat.eq_dec u su) as [->|Hne]; [right; auto|left; left; exact Hne]. }
      assert (Hbase : forall best',
        bestok fr' other best' ->
        (forall z, best_le best z -> best_le best' z) ->
        (forall dv, has_entry other sw -> fdist other sw = Some dv -> best_le best' (du + wt wts e + dv)) ->
        sinv (pre ++ [e]) fr' best').
      { intros best' Hbok Hmono Hnew. destruct H. constructor.
        - exact Hf''.
        - apply Hset. exact si_su0.
        - rewrite Hsd by exact si_su0. exact si_du0.
        - intros x dx Hx Ex. apply Hset in Hx. rewrite Hsd in Ex by exact Hx. eapply si_max0; eassumption.
        - exact Hbok.
        - intros e' v dv Hin Hst' Hb Hev Edv. apply in_app_iff in Hin as [Hin|[<-|[]]].
          + apply Hmono. eapply si_sf0; eassumption.
          + assert (v = sw).
            { transitivity (ctarget P su e w); [|reflexivity].
              apply (bd_cstep_unique P Hs su e v w Hst' Hj). }
            subst v. apply Hnew; assumption.
        - rewrite Hsrc. exact si_src0.
        - intros x Hx. apply Hent, si_entry0, Hx.
        - intros x. rewrite Hset. apply si_settled0.
        - intros x Hx. rewrite Hsd by (apply si_settled0; exact Hx). apply si_sdist0. exact Hx.
        - intros x d Ex. destruct (si_dec0 x d Ex) as (d1 & E1 & H1).
          destruct (Hdec x d1 E1) as (d2 & E2 & H2). exists d2. split; [exact E2|lia].
        - intros z Hz. apply Hmono, si_best_mono0, Hz. }
      (* best stays: bestok is kept because entries only decrease *)
      assert (Hbok_same : bestok fr' other best).
      { intros bp x E. destruct (si_bestok _ _ _ H bp x E) as (df & db & Edf & Edb & Hle).
        destruct (Hdec x df Edf) as (df' & Edf' & Hle'). exists df', db.
        split; [exact Edf'|]. split; [exact Edb|lia]. }
      destruct (has_finite_dist Z other sw) eqn:Ehf.
      2:{ exists fr', best. split; [reflexivity|]. apply Hbase; [exact Hbok_same|auto|].
          intros dv Hev. unfold has_entry in Hev. congruence. }
      destruct (Hoth sw Ehf) as (dw & Edw). change (fr_dist Z other sw) with (fdist other sw). rewrite Edw.
      assert (Hbok_new : bestok fr' other (Some (du + wt wts e + dw, sw))).
      { intros bp x E. injection E as <- <-. exists dsw, dw. split; [exact Edsw|]. split; [exact Edw|lia]. }
      assert (Hnew_le : forall dv, has_entry other sw -> fdist other sw = Some dv ->
                best_le (Some (du + wt wts e + dw, sw)) (du + wt wts e + dv)).
      { intros dv _ Edv. assert (dv = dw) by congruence. subst dv.
        exists (du + wt wts e + dw), sw. split; [reflexivity|lia]. }
      destruct best as [[bp bc]|].
      - destruct (Z.ltb_spec (du + wt wts e + dw) bp) as [Hlt|Hge].
        + eexists _, _. split; [reflexivity|]. apply Hbase; [exact Hbok_new| |exact Hnew_le].
          intros z (bp' & x' & E & Hle). injection E as <- <-.
          exists (du + wt wts e + dw), sw. split; [reflexivity|lia].
        + eexists _, _. split; [reflexivity|]. apply Hbase; [exact Hbok_same|auto|].
          intros dv _ Edv. assert (dv = dw) by congruence. subst dv.
          exists bp, bc. split; [reflexivity|lia].
      - eexists _, _. split; [reflexivity|]. apply Hbase; [exact Hbok_new| |exact Hnew_le].
        intros z (bp' & x' & E & _). discriminate.
    Qed.

    Lemma bd_scan_fold : forall l pre fr best,
      sinv pre fr best -> (forall e w, In (e, w) l -> joins g e (vertex_of n su) w) ->
      exists fr' best',
        fold_left (scan_edge Z 0 Z.add Z.ltb P other su du) l (Some (fr, best)) = Some (fr', best')
        /\ sinv (pre ++ map fst l) fr' best'.
    Proof.
      induction l as [|[e w] l IH]; intros pre fr best H Hl.
      - exists fr, best. split; [reflexivity|]. cbn [map]. rewrite app_nil_r. exact H.
      - cbn [fold_left].
        destruct (bd_scan_step pre fr best e w H (Hl e w (or_introl eq_refl))) as (fr1 & best1 & E1 & H1).
        rewrite E1.
        destruct (IH (pre ++ [e]) fr1 best1 H1 (fun e' w' Hin => Hl e' w' (or_intror Hin)))
          as (fr' & best' & E' & H').
        exists fr', best'. split; [exact E'|]. cbn [map fst]. rewrite <- app_assoc in H'. exact H'.
    Qed.
  End Scan.

End Ops.
