(* LexSPProofsCons5.v — C12 consistency, part 5: from the final state of lex_dijkstra to the tree, and the
   consistency theorems.
     lc_tree_nodes     the predecessor edge stored in the tree node of v is lex_dijkstra's pred_map entry
     lc_twalk_rep      the tree walk to v is the walk whose label lex_dijkstra stored for v
     lc_tree_lexmin    (3) the tree walk from the source s to v is THE lexicographically least shortest s-v walk
     lc_C12_reverse, lc_C12_subpath, lc_C12_consistent   the cross-source consistency clause of C12
   Prefix lc_. *)
From Coq Require Import List Arith Bool Lia ZArith Permutation Sorted.
From Parmcb Require Import GraphModel GF2Model GraphSpec GraphLemmas HeapModel LexSPModel LexSPProofsHeap LexSPProofs
  LexSPProofsDist LexSPProofsCons1 LexSPProofsCons2 LexSPProofsCons3 LexSPProofsCons4.
Import ListNotations.

Section Tree.
  Variable g : graph.
  Variable wts : list Z.
  Variable s : nat.
  Hypothesis Hsg : simple_graph g.
  Hypothesis Hpos : positive_weights g wts.

  Notation zinv := (lx_inv Z 0%Z Z.add g wts s).
  Notation lab st v := (zkey (lx_lex st) v).

  (* SPTree::initialize copies pred_map into the nodes *)
  Lemma lc_tree_nodes st t :
    lex_dijkstra Z 0%Z Z.add Z.ltb g wts s = LxOk st -> sptree_Z g wts s = LxOk t ->
    st_src t = s /\
    forall v nd, nth v (st_nodes t) None = Some nd ->
                 sn_pred nd = if Nat.eqb v s then None else nth v (lx_pred st) None.
  Proof.
    intros Hrun Ht. destruct (lx_dijkstra_inv Z 0%Z Z.add Z.ltb g wts s st Hrun) as [D [Hinv [Hheap Hs]]].
    destruct Hinv as [L1 L2 L3 _ Sp Sl Nd Rg Vs Pr]. rewrite Hheap, app_nil_r in *.
    set (dist := lx_dist st) in *. set (pred := lx_pred st) in *. set (n := nv g) in *.
    assert (Hmk : lx_mk_nodes Z 0%Z s dist pred (seq 0 n) = LxOk (map (lx_node0 Z 0%Z s dist pred) (seq 0 n))).
    { apply lx_mk_nodes_ok. intros v e Hv. destruct (Pr v e Hv) as [_ [_ [u [_ [_ [_ [_ [_ Hd]]]]]]]].
      fold dist in Hd. rewrite Hd. discriminate. }
    set (nodes0 := map (lx_node0 Z 0%Z s dist pred) (seq 0 n)) in *.
    assert (Hn0 : forall v, v < n -> nth v nodes0 None = lx_node0 Z 0%Z s dist pred v).
    { intros v Hv. apply lx_nth_map_seq. exact Hv. }
    assert (Hn0out : forall v, n <= v -> nth v nodes0 None = None).
    { intros v Hv. apply nth_overflow. unfold nodes0. rewrite map_length, seq_length. exact Hv. }
    assert (Hnode_vis : forall u, In u D -> lx_node0 Z 0%Z s dist pred u <> None).
    { intros u Hu. destruct (Rg u Hu) as [_ Huv]. unfold lx_node0. destruct (Nat.eqb_spec u s) as [|Hus]; [discriminate|].
      destruct Huv as [Hc|Huv]; [contradiction|]. fold pred in Huv.
      destruct (nth u pred None) as [e|] eqn:Ep; [|contradiction].
      destruct (Pr u e Ep) as [_ [_ [u' [_ [_ [_ [_ [_ Hd]]]]]]]]. fold dist in Hd. rewrite Hd. discriminate. }
    destruct (lx_link_ok Z g pred (seq 0 n) nodes0) as [nodes [Hlink [Hlen Hnodes]]].
    { intros v e Hv Ep. destruct (Pr v e Ep) as [_ [_ [u [Hj [Hne [HuD _]]]]]].
      exists u. split; [apply lx_joins_opposite; auto|].
      destruct (Rg u HuD) as [Hun _]. rewrite Hn0 by exact Hun. apply Hnode_vis. exact HuD. }
    unfold sptree_Z, sptree in Ht. rewrite Hrun in Ht. fold dist pred n in Ht. rewrite Hmk in Ht. fold nodes0 in Ht.
    rewrite Hlink in Ht.
    destruct (lx_first_loop Z (S n) s nodes [(s, s)] (map (fun _ => 0) (seq 0 n))) as [first| | | |]; try discriminate.
    injection Ht as <-. cbn [st_src st_nodes]. split; [reflexivity|].
    intros v nd Hv. rewrite Hnodes in Hv.
    destruct (Nat.lt_ge_cases v n) as [Hvn|Hvn]; [|rewrite (Hn0out v Hvn) in Hv; discriminate].
    rewrite (Hn0 v Hvn) in Hv. unfold lx_node0 in Hv.
    destruct (Nat.eqb v s).
    - injection Hv as <-. reflexivity.
    - destruct (nth v pred None) as [e|]; [|discriminate]. destruct (nth v dist None) as [d|]; [|discriminate].
      injection Hv as <-. reflexivity.
  Qed.

  (* the tree walk to v is the walk represented by the label stored for v *)
  Lemma lc_twalk_rep st D t :
    zinv st D -> lc_kpred g wts st D ->
    (forall v nd, nth v (st_nodes t) None = Some nd ->
                  sn_pred nd = if Nat.eqb v s then None else nth v (lx_pred st) None) ->
    forall p v, lx_twalk Z g (st_nodes t) s p v -> lc_rep g wts s p v (lab st v).
  Proof.
    intros Hinv Hkp Hnd. induction 1 as [_|p u e v nd Hp IH Hv He Ho].
    - eapply lc_rep_s; eauto.
    - pose proof (Hnd v nd Hv) as Hpe. rewrite He in Hpe.
      destruct (Nat.eqb_spec v s) as [|Hvs]; [discriminate|]. symmetry in Hpe.
      destruct (Hkp v e Hpe) as [a [Hj [Hav [_ Hlab]]]].
      pose proof (lx_joins_opposite g e a v Hj Hav) as Ho'. rewrite Ho in Ho'. injection Ho' as ->.
      rewrite Hlab. apply lc_combine_rep; assumption.
  Qed.
End Tree.

(* (3): the tree of source s contains, for every vertex v it reaches, the lexicographically least shortest
   s-v walk *)
Theorem lc_tree_lexmin g wts s t p v :
  simple_graph g -> positive_weights g wts ->
  sptree_Z g wts s = LxOk t -> c12_twalk g t p v -> lc_lexmin g wts s p v.
Proof.
  intros Hsg Hpos Ht Hp.
  assert (Hs : s < nv g).
  { destruct (Nat.lt_ge_cases s (nv g)) as [H|H]; [exact H|]. exfalso.
    unfold sptree_Z, sptree, lex_dijkstra in Ht. destruct (Nat.ltb_spec s (nv g)); [lia|]. discriminate. }
  destruct (lc_dijkstra_K g wts s Hsg Hpos Hs) as [st [D [Hrun [Hinv [Hx [HK Hheap]]]]]].
  destruct (lc_tree_nodes g wts s st t Hrun Ht) as [Hsrc Hnd].
  destruct (lx_sptree_ok Z 0%Z Z.add Z.ltb g wts s st Hrun) as [t' [Ht' [_ [Hnode _]]]].
  unfold sptree_Z in Ht. rewrite Ht in Ht'. injection Ht' as <-.
  unfold c12_twalk in Hp. rewrite Hsrc in Hp.
  pose proof (lc_twalk_rep g wts s Hsg st D t Hinv (k_pred _ _ _ _ _ HK) Hnd p v Hp) as Hrep.
  assert (HvD : In v D).
  { pose proof (lx_twalk_end Z g _ _ _ _ Hp) as Hv. apply Hnode in Hv as [_ Hv].
    pose proof (li_vis _ _ _ _ _ _ _ _ Hinv v Hv) as H. rewrite Hheap, app_nil_r in H. exact H. }
  assert (Hctx : lc_ctx g wts s st D).
  { split; [exact Hinv|]. split; [apply (x_final _ _ _ _ _ Hx)|apply (k_pred _ _ _ _ _ HK)]. }
  split; [eapply lc_D_shortest; eauto|].
  intros q Hq Hlt. apply (k_min _ _ _ _ _ HK v q HvD Hq).
  destruct Hrep as [_ [_ E]]. apply (lc_LT_EQ_r _ _ _ (lc_EQ_sym _ _ E)). exact Hlt.
Qed.

(* (R) the tree walk from u to v is the tree walk from v to u, backwards *)
Theorem lc_C12_reverse g wts :
  simple_graph g -> positive_weights g wts ->
  forall u v tu tv p q,
    sptree_Z g wts u = LxOk tu -> sptree_Z g wts v = LxOk tv ->
    c12_twalk g tu p v -> c12_twalk g tv q u ->
    q = lc_rev u p /\ wedges q = rev (wedges p).
Proof.
  intros Hsg Hpos u v tu tv p q Htu Htv Hp Hq.
  apply (lc_lexmin_reverse g wts Hsg Hpos p q u v).
  - eapply lc_tree_lexmin; eauto.
  - eapply lc_tree_lexmin; eauto.
Qed.

(* (S) every sub-walk of a tree walk is the tree walk between its endpoints *)
Theorem lc_C12_subpath g wts :
  simple_graph g -> positive_weights g wts ->
  forall u v tu p, sptree_Z g wts u = LxOk tu -> c12_twalk g tu p v ->
  forall p1 p2 p3 x y tx, p = p1 ++ p2 ++ p3 -> walk g u p1 x -> walk g x p2 y ->
                          sptree_Z g wts x = LxOk tx -> c12_twalk g tx p2 y.
Proof.
  intros Hsg Hpos u v tu p Htu Hp p1 p2 p3 x y tx -> H1 H2 Htx.
  pose proof (lc_tree_lexmin g wts u tu _ v Hsg Hpos Htu Hp) as Hmin.
  pose proof (lc_lexmin_sub g wts Hsg Hpos p1 p2 p3 u x y v Hmin H1 H2) as Hmin2.
  pose proof (gl_walk_end_lt g u p1 x H1) as Hx.
  destruct (lz_C12_dist g wts x Hsg Hpos Hx) as [t' [Ht' [Hok [Hnode _]]]].
  rewrite Htx in Ht'. injection Ht' as <-.
  assert (Hy : sp_node_of Z tx y <> None) by (apply Hnode; exists p2; exact H2).
  destruct (sp_node_of Z tx y) as [nd|] eqn:End; [|contradiction].
  destruct (c12_chain _ _ _ _ Hok y nd End) as [p' [Hp' _]].
  pose proof (lc_tree_lexmin g wts x tx p' y Hsg Hpos Htx Hp') as Hmin'.
  rewrite (lc_lexmin_unique g wts Hsg Hpos p2 p' x y Hmin2 Hmin'). exact Hp'.
Qed.

Theorem lc_C12_consistent : C12_consistent_statement.
Proof.
  intros g wts Hsg Hpos u v tu tv p q Htu Htv Hp Hq. split.
  - apply (lc_C12_reverse g wts Hsg Hpos u v tu tv p q Htu Htv Hp Hq).
  - intros p1 p2 p3 x y tx Hsplit H1 H2 Htx.
    eapply (lc_C12_subpath g wts Hsg Hpos u v tu p Htu Hp); eauto.
Qed.

Print Assumptions lc_tree_lexmin.
Print Assumptions lc_C12_consistent.
