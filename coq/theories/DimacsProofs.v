(* DimacsProofs.v — the reader loop of DimacsModel.v: fgets / strlen / newline stripping split a text into its
   lines (this is where defect D3 lives), dispatch on the first byte, the effect of problem and edge lines,
   the round trip read (render l) = ROk (denot l), undeclared vertices, the refutation of the original code. *)
From Coq Require Import ZArith List Bool QArith Qreduction Lia ZifyBool.
From Parmcb Require Import DimacsModel DimacsScanProofs.
Import ListNotations.
Local Open Scope Z_scope.

(* ------------------------------------------------------------------------------------ *)
(* fgets, strlen, stripping                                                             *)

Lemma plain_cons c l : plain (c :: l) = true -> c <> 10 /\ c <> 0 /\ plain l = true.
Proof. unfold plain. cbn [forallb]. intros H. apply andb_true_iff in H. destruct H as [Hc Hl]. repeat split; auto; lia. Qed.

Lemma plain_app a b : plain (a ++ b) = plain a && plain b.
Proof. unfold plain. apply forallb_app. Qed.

Lemma fgets_split room : forall s, fst (fgets room s) ++ snd (fgets room s) = s.
Proof.
  induction room as [|room IH]; intros s; cbn [fgets]; [reflexivity|].
  destruct s as [|c s]; [reflexivity|]. destruct (c =? 10); [reflexivity|].
  specialize (IH s). destruct (fgets room s) as [a r]. cbn in *. congruence.
Qed.

Lemma fgets_nonempty room s : s <> [] -> fst (fgets (S room) s) <> [].
Proof.
  destruct s as [|c s]; [congruence|]. intros _. cbn [fgets].
  destruct (c =? 10); [cbn; congruence|]. destruct (fgets room s). cbn. congruence.
Qed.

Lemma fgets_line l : forall room rest,
  plain l = true -> (length l < room)%nat -> fgets room (l ++ 10 :: rest) = (l ++ [10], rest).
Proof.
  induction l as [|c l IH]; intros room rest Hp Hlen; (destruct room as [|room]; [cbn in Hlen; lia|]); cbn [app fgets].
  - reflexivity.
  - destruct (plain_cons _ _ Hp) as (Hc & _ & Hl). replace (c =? 10) with false by lia.
    rewrite IH by (auto; cbn in Hlen; lia). reflexivity.
Qed.

Lemma fgets_last l : forall room, plain l = true -> (length l <= room)%nat -> fgets room l = (l, []).
Proof.
  induction l as [|c l IH]; intros room Hp Hlen.
  - destruct room; reflexivity.
  - destruct room as [|room]; [cbn in Hlen; lia|]. cbn [fgets].
    destruct (plain_cons _ _ Hp) as (Hc & _ & Hl). replace (c =? 10) with false by lia.
    rewrite IH by (auto; cbn in Hlen; lia). reflexivity.
Qed.

Lemma cstr_plain l : plain l = true -> cstr l = l.
Proof.
  induction l as [|c l IH]; intros Hp; cbn [cstr]; [reflexivity|].
  destruct (plain_cons _ _ Hp) as (_ & Hc & Hl). replace (c =? 0) with false by lia. rewrite IH; auto.
Qed.

Lemma cstr_plain_nl l : plain l = true -> cstr (l ++ [10]) = l ++ [10].
Proof.
  induction l as [|c l IH]; intros Hp; cbn [app cstr]; [reflexivity|].
  destruct (plain_cons _ _ Hp) as (_ & Hc & Hl). replace (c =? 0) with false by lia. rewrite IH; auto.
Qed.

Lemma strip_nl_line l : strip_nl (l ++ [10]) = l.
Proof.
  induction l as [|c l IH]; [reflexivity|]. cbn [app strip_nl].
  destruct (l ++ [10]) as [|d t] eqn:E; [destruct l; discriminate|]. rewrite <- IH. reflexivity.
Qed.

Lemma strip_nl_plain l : plain l = true -> strip_nl l = l.
Proof.
  induction l as [|c l IH]; intros Hp; [reflexivity|]. cbn [strip_nl].
  destruct (plain_cons _ _ Hp) as (Hc & _ & Hl). destruct l as [|d t].
  - replace (c =? 10) with false by lia. reflexivity.
  - rewrite IH; auto.
Qed.

Lemma strip_fixed_line l : strip_fixed (l ++ [10]) = Some l.
Proof. unfold strip_fixed. rewrite strip_nl_line. reflexivity. Qed.

Lemma strip_orig_line l : strip_orig (l ++ [10]) = Some l.
Proof. unfold strip_orig. destruct (l ++ [10]) eqn:E; [destruct l; discriminate|]. rewrite <- E, removelast_last. reflexivity. Qed.

(* ------------------------------------------------------------------------------------ *)
(* the loop: fuel                                                                       *)

Definition finish (o : outcome) (k : state -> result) : result :=
  match o with Next st => k st | Throw => RThrow | Undef => RUndef | Unsup => RUnsup | Nonterm => RNonterm end.

Definition result_of_state (st : state) : result := ROk (st_nv st, st_edges st).

Lemma read_loop_unfold strip f st s :
  read_loop strip (S f) st s =
  match fgets 1023 s with
  | ([], _) => result_of_state st
  | (chunk, rest) =>
      match strip (cstr chunk) with
      | None => RUndef
      | Some b => finish (process_line st b) (fun st' => read_loop strip f st' rest)
      end
  end.
Proof.
  cbn [read_loop]. change (BUFFER_SIZE - 1)%nat with 1023%nat.
  destruct (fgets 1023 s) as [[|c chunk] rest]; [reflexivity|].
  destruct (strip (cstr (c :: chunk))); [|reflexivity]. destruct (process_line st l); reflexivity.
Qed.

Lemma fgets_rest_shorter s c chunk rest : fgets 1023 s = (c :: chunk, rest) -> (length rest < length s)%nat.
Proof.
  intros E. pose proof (fgets_split 1023 s) as H. rewrite E in H. cbn [fst snd] in H. rewrite <- H.
  rewrite app_length. cbn. lia.
Qed.

(* with more fuel than bytes the loop never runs out of fuel ... *)
Lemma read_no_fuel_loop strip : forall f st s, (length s < f)%nat -> read_loop strip f st s <> RFuel.
Proof.
  induction f as [|f IH]; intros st s Hlen; [lia|]. rewrite read_loop_unfold.
  destruct (fgets 1023 s) as [[|c chunk] rest] eqn:E; [discriminate|].
  destruct (strip (cstr (c :: chunk))); [|discriminate].
  destruct (process_line st l); cbn [finish]; try discriminate.
  apply IH. apply fgets_rest_shorter in E. lia.
Qed.

(* ... and its result does not depend on the amount *)
Lemma read_loop_fuel_irrel strip : forall f1 f2 st s,
  (length s < f1)%nat -> (length s < f2)%nat -> read_loop strip f1 st s = read_loop strip f2 st s.
Proof.
  induction f1 as [|f1 IH]; intros f2 st s H1 H2; [lia|]. destruct f2 as [|f2]; [lia|].
  rewrite !read_loop_unfold.
  destruct (fgets 1023 s) as [[|c chunk] rest] eqn:E; [reflexivity|].
  destruct (strip (cstr (c :: chunk))); [|reflexivity].
  destruct (process_line st l); cbn [finish]; try reflexivity.
  apply fgets_rest_shorter in E. apply IH; lia.
Qed.

(* the loop started in state st with the canonical amount of fuel *)
Definition read_st (strip : list byte -> option (list byte)) (st : state) (s : list byte) : result :=
  read_loop strip (S (length s)) st s.

Lemma read_with_st strip s : read_with strip s = read_st strip init_state s.
Proof. reflexivity. Qed.

Lemma read_st_nil strip st : read_st strip st [] = result_of_state st.
Proof. reflexivity. Qed.

Lemma fits_le l : fits l = true -> (length l <= 1022)%nat.
Proof. unfold fits. intros H. apply Nat.leb_le in H. exact H. Qed.

(* one line that ends with '\n' *)
Lemma read_st_line strip st l rest :
  plain l = true -> fits l = true -> strip (l ++ [10]) = Some l ->
  read_st strip st (l ++ 10 :: rest) = finish (process_line st l) (fun st' => read_st strip st' rest).
Proof.
  intros Hp Hf Hs. unfold read_st. rewrite read_loop_unfold.
  rewrite fgets_line by (auto; apply fits_le in Hf; lia).
  assert (exists c chunk, l ++ [10] = c :: chunk) as (c & chunk & E) by (destruct l; cbn; eauto).
  rewrite E. cbv iota. rewrite <- E.
  rewrite cstr_plain_nl, Hs by assumption.
  destruct (process_line st l); cbn [finish]; try reflexivity.
  apply read_loop_fuel_irrel; rewrite ?app_length; cbn [length]; lia.
Qed.

(* a last line without '\n' *)
Lemma read_st_last strip st l :
  plain l = true -> fits l = true -> l <> [] -> strip l = Some l ->
  read_st strip st l = finish (process_line st l) result_of_state.
Proof.
  intros Hp Hf Hne Hs. unfold read_st. rewrite read_loop_unfold.
  rewrite fgets_last by (auto; apply fits_le in Hf; lia).
  destruct l as [|c l]; [congruence|]. rewrite cstr_plain, Hs by assumption.
  destruct (process_line st (c :: l)); cbn [finish]; try reflexivity.
Qed.

(* ------------------------------------------------------------------------------------ *)
(* texts as lists of lines                                                              *)

Fixpoint run_lines (st : state) (ls : list (list byte)) : outcome :=
  match ls with
  | [] => Next st
  | l :: t => match process_line st l with Next st' => run_lines st' t | o => o end
  end.

Definition concat_nl (ls : list (list byte)) : list byte := flat_map (fun l => l ++ [10]) ls.

Definition line_plain (l : list byte) : Prop := plain l = true /\ fits l = true.

Lemma read_st_lines strip (Hs : forall l, strip (l ++ [10]) = Some l) ls : forall st rest,
  Forall line_plain ls ->
  read_st strip st (concat_nl ls ++ rest) = finish (run_lines st ls) (fun st' => read_st strip st' rest).
Proof.
  induction ls as [|l ls IH]; intros st rest Hall; [reflexivity|].
  inversion Hall as [|? ? [Hp Hf] Hall']; subst.
  cbn [concat_nl flat_map run_lines]. rewrite <- !app_assoc. cbn [app].
  rewrite read_st_line by auto. destruct (process_line st l); cbn [finish]; try reflexivity.
  apply IH. assumption.
Qed.

Lemma run_lines_app st a b :
  run_lines st (a ++ b) = match run_lines st a with Next st' => run_lines st' b | o => o end.
Proof.
  revert st. induction a as [|l a IH]; intros st; cbn [app run_lines]; [reflexivity|].
  destruct (process_line st l); auto.
Qed.

Lemma join_lines_snoc ls l : join_lines (ls ++ [l]) = concat_nl ls ++ l.
Proof.
  induction ls as [|x ls IH]; [reflexivity|].
  assert (exists y t, ls ++ [l] = y :: t) as (y & t & E) by (destruct ls; cbn; eauto).
  change (join_lines ((x :: ls) ++ [l])) with
    (match ls ++ [l] with [] => x | _ :: _ => x ++ 10 :: join_lines (ls ++ [l]) end).
  rewrite E. cbv iota. rewrite <- E, IH. cbn [concat_nl flat_map]. rewrite <- !app_assoc. reflexivity.
Qed.

Lemma join_lines_nl ls : ls <> [] -> join_lines ls ++ [10] = concat_nl ls.
Proof.
  intros Hne. destruct (exists_last Hne) as (ls' & l & ->). rewrite join_lines_snoc.
  unfold concat_nl. rewrite flat_map_app. cbn. rewrite <- !app_assoc. rewrite app_nil_r. reflexivity.
Qed.

Lemma process_line_nil st : process_line st [] = Next st.
Proof. reflexivity. Qed.

(* a whole text whose last line ends with '\n': true of both versions of the reader *)
Lemma read_st_text_nl strip (Hs : forall l, strip (l ++ [10]) = Some l) st ls :
  ls <> [] -> Forall line_plain ls ->
  read_st strip st (join_lines ls ++ [10]) = finish (run_lines st ls) result_of_state.
Proof.
  intros Hne Hall. rewrite join_lines_nl by assumption. rewrite <- (app_nil_r (concat_nl ls)).
  rewrite read_st_lines by assumption. destruct (run_lines st ls); reflexivity.
Qed.

(* a whole text whose last line has no '\n': the repaired reader only *)
Lemma read_st_text_nonl st ls :
  ls <> [] -> Forall line_plain ls ->
  read_st strip_fixed st (join_lines ls) = finish (run_lines st ls) result_of_state.
Proof.
  intros Hne Hall. destruct (exists_last Hne) as (ls' & l & ->). rewrite join_lines_snoc.
  apply Forall_app in Hall. destruct Hall as [Hall Hl]. inversion Hl as [|? ? [Hp Hf] _]; subst.
  rewrite read_st_lines by (auto using strip_fixed_line). rewrite run_lines_app.
  destruct (run_lines st ls') as [st'| | | |]; cbn [finish]; try reflexivity.
  cbn [run_lines]. destruct l as [|c l].
  - reflexivity.
  - rewrite read_st_last; auto; try congruence.
    + destruct (process_line st' (c :: l)); reflexivity.
    + unfold strip_fixed. rewrite strip_nl_plain by assumption. reflexivity.
Qed.

(* ------------------------------------------------------------------------------------ *)
(* the effect of one line                                                               *)

Lemma process_skip st t : skip_ok t = true -> process_line st t = Next st.
Proof.
  unfold skip_ok. intros H. apply andb_true_iff in H. destruct H as [_ H].
  destruct t as [|c t]; [reflexivity|]. unfold process_line.
  destruct ((c =? 99) || (c =? 35)); [reflexivity|].
  replace (c =? 112) with false by lia. replace ((c =? 97) || (c =? 101)) with false by lia. reflexivity.
Qed.

Lemma scan_str_skip s : scan_str (skip_ws s) = scan_str s.
Proof. unfold scan_str. rewrite skip_ws_idem. reflexivity. Qed.
Lemma scan_int_skip s : scan_int (skip_ws s) = scan_int s.
Proof. unfold scan_int. rewrite skip_ws_idem. reflexivity. Qed.
Lemma scan_ulong_skip s : scan_ulong (skip_ws s) = scan_ulong s.
Proof. unfold scan_ulong. rewrite skip_ws_idem. reflexivity. Qed.
Lemma scan_float_skip s : scan_float (skip_ws s) = scan_float s.
Proof. unfold scan_float. rewrite skip_ws_idem. reflexivity. Qed.

Lemma nonempty_blanks_space b r :
  nonempty b = true -> blanks b = true -> match b ++ r with [] => True | c :: _ => is_space c = true end.
Proof.
  destruct b as [|c b]; [discriminate|]. intros _ H. cbn in *. apply andb_true_iff in H.
  apply is_blank_space. tauto.
Qed.

Lemma nonempty_blanks_starts_blank b r : nonempty b = true -> blanks b = true -> starts_blank (b ++ r).
Proof.
  destruct b as [|c b]; [discriminate|]. intros _ H. cbn in *. apply andb_true_iff in H. tauto.
Qed.

(* the tail "[blanks m] [blanks]" of a problem line, "[blanks w] [blanks]" of an edge line *)
Definition render_pm (pm : option (list byte * intlit)) : list byte :=
  match pm with None => [] | Some (sep, m) => sep ++ render_int m end.
Definition render_ew (ew : option (list byte * wlit)) : list byte :=
  match ew with None => [] | Some (sep, w) => sep ++ render_wlit w end.

Lemma leb_le_true a b : (a <=? b) = true -> a <= b.
Proof. apply Z.leb_le. Qed.

Ltac split_andb :=
  repeat match goal with
         | H : _ && _ = true |- _ => apply andb_true_iff in H; destruct H
         end.

Lemma scan_problem_render p :
  prob_ok p = true -> scan_problem (render_prob p) = Assign (int_value (p_n p)).
Proof.
  unfold prob_ok. intros H. split_andb.
  unfold scan_problem, render_prob. cbn [tl]. rewrite scan_str_skip.
  change (match p_m p with None => [] | Some (sep, m) => sep ++ render_int m end) with (render_pm (p_m p)).
  assert (starts_blank (render_pm (p_m p) ++ p_trail p)) as Hsb.
  { unfold render_pm. destruct (p_m p) as [[sep m]|]; cbn [app]; cbv iota beta in *.
    - split_andb. rewrite <- app_assoc. apply nonempty_blanks_starts_blank; assumption.
    - apply blanks_starts_blank. assumption. }
  rewrite scan_str_tok; auto.
  2:{ apply nonempty_blanks_space; assumption. }
  assert (0 <= int_value (p_n p) <= 2 ^ 64 - 1) as Hnr.
  { split; [apply leb_le_true; assumption|].
    apply Z.le_trans with (2 ^ 64 - 2); [apply leb_le_true; assumption|discriminate]. }
  rewrite scan_ulong_skip, scan_ulong_lit; [|assumption|assumption|exact Hnr|apply starts_blank_nondigit; exact Hsb].
  rewrite scan_ulong_skip. unfold render_pm in *. destruct (p_m p) as [[sep m]|]; cbn [app]; cbv iota beta in *.
  - split_andb. rewrite <- app_assoc.
    destruct (scan_ulong_lit_some sep m (p_trail p)) as (v & ->);
      [assumption|assumption|apply leb_le_true; assumption|apply starts_blank_nondigit, blanks_starts_blank; assumption|].
    reflexivity.
  - rewrite scan_ulong_blanks by assumption. reflexivity.
Qed.

Lemma prob_ok_n p : prob_ok p = true -> 0 <= int_value (p_n p) <= 2 ^ 64 - 2.
Proof.
  unfold prob_ok. intros H. split_andb. split; apply leb_le_true; assumption.
Qed.

Lemma prob_ok_plain_fits p : prob_ok p = true -> fits (render_prob p) = true.
Proof.
  unfold prob_ok. intros H. apply andb_true_iff in H. tauto.
Qed.

Lemma process_prob st p :
  prob_ok p = true ->
  process_line st (render_prob p) =
  let n := int_value (p_n p) in
  let (nv, vm) := add_vertices (Z.to_nat n) 1 (st_nv st) (st_vmap st) in
  Next (mkState nv vm (Some n) (st_edges st)).
Proof.
  intros Hok. pose proof (prob_ok_n _ Hok) as Hn.
  assert (process_line st (render_prob p) = do_problem st (render_prob p)) as -> by reflexivity.
  unfold do_problem. rewrite scan_problem_render by assumption. cbv zeta.
  replace (int_value (p_n p) =? 2 ^ 64 - 1) with false by lia. reflexivity.
Qed.

(* vertex_map after the loop *)
Lemma add_vertices_spec cnt : forall i nv vm,
  let (nv', vm') := add_vertices cnt i nv vm in
  nv' = nv + Z.of_nat cnt /\
  forall k, vfind k vm' = if (i <=? k) && (k <? i + Z.of_nat cnt) then Some (nv + (k - i)) else vfind k vm.
Proof.
  induction cnt as [|cnt IH]; intros i nv vm.
  - cbn [add_vertices]. split; [lia|]. intros k. replace ((i <=? k) && (k <? i + Z.of_nat 0)) with false by lia. reflexivity.
  - cbn [add_vertices]. specialize (IH (i + 1) (nv + 1) ((i, nv) :: vm)).
    destruct (add_vertices cnt (i + 1) (nv + 1) ((i, nv) :: vm)) as [nv' vm']. destruct IH as [E1 E2].
    split; [lia|]. intros k. rewrite E2. cbn [vfind].
    destruct ((i + 1 <=? k) && (k <? i + 1 + Z.of_nat cnt)) eqn:A.
    + replace ((i <=? k) && (k <? i + Z.of_nat (S cnt))) with true by lia. f_equal. lia.
    + destruct (k =? i) eqn:B.
      * replace ((i <=? k) && (k <? i + Z.of_nat (S cnt))) with true by lia. f_equal. lia.
      * replace ((i <=? k) && (k <? i + Z.of_nat (S cnt))) with false by lia. reflexivity.
Qed.

(* vertex_map of a text with one problem line declaring n vertices *)
Definition vmap_good (n : Z) (vm : list (Z * Z)) : Prop :=
  forall k, vfind k vm = if (1 <=? k) && (k <=? n) then Some (k - 1) else None.

Lemma process_prob_init p edges :
  prob_ok p = true ->
  exists vm, process_line (mkState 0 [] None edges) (render_prob p)
             = Next (mkState (int_value (p_n p)) vm (Some (int_value (p_n p))) edges)
             /\ vmap_good (int_value (p_n p)) vm.
Proof.
  intros Hok. rewrite process_prob by assumption. cbv zeta. cbn [st_nv st_vmap st_edges].
  pose proof (prob_ok_n _ Hok) as Hn.
  pose proof (add_vertices_spec (Z.to_nat (int_value (p_n p))) 1 0 []) as H.
  destruct (add_vertices (Z.to_nat (int_value (p_n p))) 1 0 []) as [nv vm]. destruct H as [E1 E2].
  exists vm. split.
  - f_equal. f_equal. lia.
  - intros k. rewrite E2. rewrite Z2Nat.id by lia. cbn [vfind].
    destruct ((1 <=? k) && (k <? 1 + int_value (p_n p))) eqn:A.
    + replace ((1 <=? k) && (k <=? int_value (p_n p))) with true by lia. f_equal; lia.
    + replace ((1 <=? k) && (k <=? int_value (p_n p))) with false by lia. reflexivity.
Qed.

(* an edge line in the right format: only the two lookups remain *)
Lemma process_edge_fmt st e :
  edge_fmt e = true ->
  process_line st (render_edge e) =
  match vfind (int_value (e_u e) mod 2 ^ 64) (st_vmap st) with
  | None => Throw
  | Some sd =>
      match vfind (int_value (e_v e) mod 2 ^ 64) (st_vmap st) with
      | None => Throw
      | Some td => Next (mkState (st_nv st) (st_vmap st) (st_nnodes st) (st_edges st ++ [(sd, td, edge_weight e)]))
      end
  end.
Proof.
  unfold edge_fmt. intros H. split_andb.
  assert (process_line st (render_edge e) = do_edge st (render_edge e)) as ->.
  { unfold process_line, render_edge.
    replace ((e_letter e =? 99) || (e_letter e =? 35)) with false by lia.
    replace (e_letter e =? 112) with false by lia.
    replace ((e_letter e =? 97) || (e_letter e =? 101)) with true by lia. reflexivity. }
  unfold do_edge, render_edge. cbn [tl].
  change (match e_w e with None => [] | Some (sep, w) => sep ++ render_wlit w end) with (render_ew (e_w e)).
  assert (starts_blank (render_ew (e_w e) ++ e_trail e)) as Hsb.
  { unfold render_ew. destruct (e_w e) as [[sep w]|]; cbn [app]; cbv iota beta in *.
    - split_andb. rewrite <- app_assoc. apply nonempty_blanks_starts_blank; assumption.
    - apply blanks_starts_blank. assumption. }
  rewrite scan_int_skip, scan_int_lit;
    [|assumption|assumption|split; apply leb_le_true; assumption
     |apply starts_blank_nondigit, nonempty_blanks_starts_blank; assumption].
  rewrite scan_int_skip, scan_int_lit;
    [|assumption|assumption|split; apply leb_le_true; assumption|apply starts_blank_nondigit; exact Hsb].
  rewrite scan_float_skip.
  assert (match scan_float (render_ew (e_w e) ++ e_trail e) with
          | CVal w _ => inl w
          | CFail => inl 1%Q
          | CUndef => inr Undef
          | CUnsup => inr Unsup
          end = inl (edge_weight e)) as ->.
  { unfold render_ew, edge_weight. destruct (e_w e) as [[sep w]|]; cbn [app]; cbv iota beta in *.
    - split_andb. rewrite <- app_assoc.
      destruct (scan_float_lit sep w (e_trail e)) as (r' & ->); auto using blanks_starts_blank.
    - rewrite scan_float_blanks by assumption. reflexivity. }
  reflexivity.
Qed.

Lemma edge_fmt_fits e : edge_fmt e = true -> fits (render_edge e) = true.
Proof. unfold edge_fmt. intros H. apply andb_true_iff in H. tauto. Qed.

Lemma edge_fmt_range e :
  edge_fmt e = true ->
  - 2 ^ 31 <= int_value (e_u e) <= 2 ^ 31 - 1 /\ - 2 ^ 31 <= int_value (e_v e) <= 2 ^ 31 - 1.
Proof.
  unfold edge_fmt. intros H. split_andb. repeat split; apply leb_le_true; assumption.
Qed.

Lemma process_edge_ok st e n :
  edge_ok n e = true -> vmap_good n (st_vmap st) ->
  process_line st (render_edge e) =
  Next (mkState (st_nv st) (st_vmap st) (st_nnodes st)
                (st_edges st ++ [(int_value (e_u e) - 1, int_value (e_v e) - 1, edge_weight e)])).
Proof.
  unfold edge_ok, declared. intros H Hvm. apply andb_true_iff in H. destruct H as [Hfmt Hd].
  rewrite process_edge_fmt by assumption. pose proof (edge_fmt_range _ Hfmt) as Hr.
  rewrite !Z.mod_small by lia. rewrite !Hvm.
  replace ((1 <=? int_value (e_u e)) && (int_value (e_u e) <=? n)) with true by lia.
  replace ((1 <=? int_value (e_v e)) && (int_value (e_v e) <=? n)) with true by lia.
  reflexivity.
Qed.

Lemma process_edge_undeclared st e n :
  edge_fmt e = true -> declared n e = false -> 0 <= n <= 2 ^ 64 - 2 ^ 31 - 1 -> vmap_good n (st_vmap st) ->
  process_line st (render_edge e) = Throw.
Proof.
  unfold declared. intros Hfmt Hd Hn Hvm.
  rewrite process_edge_fmt by assumption. pose proof (edge_fmt_range _ Hfmt) as Hr.
  rewrite !Hvm.
  set (u := int_value (e_u e)) in *. set (v := int_value (e_v e)) in *.
  assert (forall x, - 2 ^ 31 <= x <= 2 ^ 31 - 1 ->
                    ((1 <=? x mod 2 ^ 64) && (x mod 2 ^ 64 <=? n)) = ((1 <=? x) && (x <=? n))) as Hmod.
  { intros x Hx. destruct (Z.leb_spec 0 x).
    - rewrite Z.mod_small by lia. reflexivity.
    - replace (x mod 2 ^ 64) with (x + 2 ^ 64).
      + lia.
      + symmetry. rewrite <- (Z.mod_add x 1) by lia. apply Z.mod_small. lia. }
  destruct Hr as [Hru Hrv]. rewrite (Hmod u Hru), (Hmod v Hrv).
  destruct ((1 <=? u) && (u <=? n)) eqn:A; [|reflexivity].
  destruct ((1 <=? v) && (v <=? n)) eqn:B; [|reflexivity]. lia.
Qed.

(* ------------------------------------------------------------------------------------ *)
(* whole layouts                                                                        *)

Definition denot_edges (body : list line) : list wedge :=
  flat_map (fun ln => match ln with
                      | LSkip _ => []
                      | LEdge e => [(int_value (e_u e) - 1, int_value (e_v e) - 1, edge_weight e)]
                      end) body.

Lemma run_lines_skips st pre : forallb skip_ok pre = true -> run_lines st pre = Next st.
Proof.
  induction pre as [|t pre IH]; cbn [forallb run_lines]; [reflexivity|]. intros H.
  apply andb_true_iff in H. destruct H as [Ht Hp]. rewrite process_skip by assumption. auto.
Qed.

Lemma run_lines_body n body : forall st,
  vmap_good n (st_vmap st) -> forallb (line_ok n) body = true ->
  run_lines st (map render_line body) =
  Next (mkState (st_nv st) (st_vmap st) (st_nnodes st) (st_edges st ++ denot_edges body)).
Proof.
  induction body as [|ln body IH]; intros st Hvm Hall; cbn [map run_lines denot_edges flat_map].
  - rewrite app_nil_r. destruct st; reflexivity.
  - cbn [forallb] in Hall. apply andb_true_iff in Hall. destruct Hall as [Hl Hb].
    destruct ln as [t|e]; cbn [render_line line_ok] in *.
    + rewrite process_skip by assumption. cbn [app]. apply IH; assumption.
    + rewrite (process_edge_ok st e n) by assumption.
      rewrite IH by assumption. cbn [st_nv st_vmap st_nnodes st_edges]. rewrite <- app_assoc. reflexivity.
Qed.

Lemma run_lines_layout l :
  layout_ok l = true ->
  exists vm, run_lines init_state (layout_lines l)
             = Next (mkState (fst (denot l)) vm (Some (fst (denot l))) (snd (denot l)))
             /\ vmap_good (fst (denot l)) vm.
Proof.
  unfold layout_ok. intros H. apply andb_true_iff in H. destruct H as [H Hbody].
  apply andb_true_iff in H. destruct H as [Hpre Hprob].
  unfold layout_lines. rewrite run_lines_app, run_lines_skips by assumption. cbn [run_lines].
  destruct (process_prob_init (l_prob l) [] Hprob) as (vm & E & Hvm). unfold init_state. rewrite E.
  exists vm. split; [|exact Hvm].
  rewrite (run_lines_body (int_value (p_n (l_prob l)))) by assumption. reflexivity.
Qed.

Lemma skip_ok_plain t : skip_ok t = true -> line_plain t.
Proof.
  unfold skip_ok. intros H. apply andb_true_iff in H. destruct H as [H _].
  apply andb_true_iff in H. exact H.
Qed.

Lemma blanks_plain b : blanks b = true -> plain b = true.
Proof.
  unfold blanks, plain. intros H. rewrite forallb_forall in *. intros c Hc. specialize (H c Hc).
  unfold is_blank, is_space in H. lia.
Qed.

Lemma digits_plain ds : all_digits ds = true -> plain ds = true.
Proof.
  unfold all_digits, plain. intros H. rewrite forallb_forall in *. intros c Hc. specialize (H c Hc).
  unfold is_digit in H. lia.
Qed.

Lemma sign_plain s : plain (render_sign s) = true.
Proof. destruct s as [[|]|]; reflexivity. Qed.

Lemma int_plain l : int_ok l = true -> plain (render_int l) = true.
Proof.
  intros H. destruct (int_ok_inv _ H) as [_ Hd]. unfold render_int.
  rewrite plain_app, sign_plain, digits_plain by assumption. reflexivity.
Qed.

Lemma wlit_plain w : wlit_ok w = true -> plain (render_wlit w) = true.
Proof.
  unfold wlit_ok. intros H. split_andb.
  rewrite render_wlit_eq. rewrite !plain_app, sign_plain, (digits_plain (wl_int w)) by assumption. cbn [andb].
  assert (plain (render_exp (wl_exp w)) = true) as ->.
  { unfold render_exp. destruct (wl_exp w) as [[[c s] ds]|]; [|reflexivity]. split_andb.
    change (c :: render_sign s ++ ds) with ([c] ++ render_sign s ++ ds).
    rewrite !plain_app, sign_plain, (digits_plain ds) by assumption. cbn. lia. }
  unfold render_frac. destruct (wl_frac w) as [f|]; [|reflexivity].
  change (46 :: f) with ([46] ++ f). rewrite plain_app, (digits_plain f) by assumption. reflexivity.
Qed.

Lemma prob_plain p : prob_ok p = true -> line_plain (render_prob p).
Proof.
  intros Hok. split; [|apply prob_ok_plain_fits; assumption].
  unfold prob_ok in Hok. split_andb.
  unfold render_prob. change (112 :: ?x) with ([112] ++ x). rewrite !plain_app.
  rewrite (blanks_plain (p_sep1 p)), (blanks_plain (p_sep2 p)), (blanks_plain (p_trail p)), (int_plain (p_n p)) by assumption.
  cbn [andb plain forallb].
  assert (plain (p_name p) = true) as ->.
  { unfold plain. match goal with H : forallb _ (p_name p) = true |- _ => rename H into Hname end.
    rewrite forallb_forall in *. intros c Hc. specialize (Hname c Hc). unfold is_space in Hname. lia. }
  destruct (p_m p) as [[sep m]|]; [|reflexivity]. split_andb.
  rewrite plain_app, (blanks_plain sep), (int_plain m) by assumption. reflexivity.
Qed.

Lemma edge_plain e : edge_fmt e = true -> line_plain (render_edge e).
Proof.
  intros Hok. split; [|apply edge_fmt_fits; assumption].
  unfold edge_fmt in Hok. split_andb.
  unfold render_edge. change (e_letter e :: ?x) with ([e_letter e] ++ x). rewrite !plain_app.
  rewrite (blanks_plain (e_sep1 e)), (blanks_plain (e_sep2 e)), (blanks_plain (e_trail e)), (int_plain (e_u e)), (int_plain (e_v e)) by assumption.
  assert (plain [e_letter e] = true) as -> by (cbn; lia). cbn [andb].
  destruct (e_w e) as [[sep w]|]; [|reflexivity]. split_andb.
  rewrite plain_app, (blanks_plain sep), (wlit_plain w) by assumption. reflexivity.
Qed.

Lemma layout_lines_plain l : layout_ok l = true -> Forall line_plain (layout_lines l).
Proof.
  unfold layout_ok. intros H. apply andb_true_iff in H. destruct H as [H Hbody].
  apply andb_true_iff in H. destruct H as [Hpre Hprob].
  unfold layout_lines. apply Forall_app. split.
  - rewrite forallb_forall in Hpre. apply Forall_forall. auto using skip_ok_plain.
  - constructor; [apply prob_plain; assumption|].
    rewrite forallb_forall in Hbody. apply Forall_forall. intros x Hx.
    apply in_map_iff in Hx. destruct Hx as (ln & <- & Hin). specialize (Hbody ln Hin).
    destruct ln as [t|e]; cbn [render_line line_ok] in *.
    + apply skip_ok_plain. assumption.
    + apply edge_plain. unfold edge_ok in Hbody. apply andb_true_iff in Hbody. tauto.
Qed.

Lemma layout_lines_nonempty l : layout_lines l <> [].
Proof. unfold layout_lines. destruct (l_pre l); discriminate. Qed.

(* ---- the round trip ---- *)

Theorem read_render l : layout_ok l = true -> read (render l) = ROk (denot l).
Proof.
  intros Hok. unfold read. rewrite read_with_st. unfold render.
  destruct (run_lines_layout l Hok) as (vm & E & _).
  pose proof (layout_lines_plain l Hok) as Hpl. pose proof (layout_lines_nonempty l) as Hne.
  destruct (l_final_nl l).
  - rewrite read_st_text_nl by (auto using strip_fixed_line). rewrite E. unfold finish, result_of_state. cbn [st_nv st_edges]. rewrite <- surjective_pairing. reflexivity.
  - rewrite app_nil_r. rewrite read_st_text_nonl by assumption. rewrite E. unfold finish, result_of_state. cbn [st_nv st_edges]. rewrite <- surjective_pairing. reflexivity.
Qed.

(* the original reader is right whenever the text ends with '\n' *)
Theorem read_orig_render_nl l :
  layout_ok l = true -> l_final_nl l = true -> read_orig (render l) = ROk (denot l).
Proof.
  intros Hok Hnl. unfold read_orig. rewrite read_with_st. unfold render. rewrite Hnl.
  destruct (run_lines_layout l Hok) as (vm & E & _).
  rewrite read_st_text_nl by (auto using strip_orig_line, layout_lines_plain, layout_lines_nonempty).
  rewrite E. unfold finish, result_of_state. cbn [st_nv st_edges]. rewrite <- surjective_pairing. reflexivity.
Qed.

(* ---- no fuel exhaustion, on any input ---- *)

Theorem read_no_fuel s : read s <> RFuel /\ read_orig s <> RFuel.
Proof. split; apply read_no_fuel_loop; lia. Qed.

(* ---- an undeclared vertex ---- *)

(* the text: a well-formed layout (its last line ends with '\n'), then an edge line in the right format naming a
   vertex outside 1..n, then either the end of the file or a '\n' followed by anything at all *)
Theorem read_undeclared l e rest :
  layout_ok l = true -> l_final_nl l = true ->
  edge_fmt e = true -> declared (fst (denot l)) e = false -> fst (denot l) <= 2 ^ 64 - 2 ^ 31 - 1 ->
  rest = [] \/ (exists r, rest = 10 :: r) ->
  read (render l ++ render_edge e ++ rest) = RThrow.
Proof.
  intros Hok Hnl Hfmt Hund Hn Hrest. unfold read. rewrite read_with_st. unfold render. rewrite Hnl.
  destruct (run_lines_layout l Hok) as (vm & E & Hvm).
  rewrite join_lines_nl by apply layout_lines_nonempty.
  rewrite read_st_lines by (auto using strip_fixed_line, layout_lines_plain). rewrite E. cbn [finish].
  destruct (edge_plain e Hfmt) as [Hp Hf].
  assert (0 <= fst (denot l)) as Hn0.
  { unfold layout_ok in Hok. apply andb_true_iff in Hok. destruct Hok as [Hok _]. apply andb_true_iff in Hok.
    destruct Hok as [_ Hprob]. apply prob_ok_n in Hprob. cbn. lia. }
  assert (process_line (mkState (fst (denot l)) vm (Some (fst (denot l))) (snd (denot l))) (render_edge e) = Throw) as ET.
  { apply (process_edge_undeclared _ e (fst (denot l))); auto; lia. }
  destruct Hrest as [->|(r & ->)].
  - rewrite app_nil_r. rewrite read_st_last; auto.
    + rewrite ET. reflexivity.
    + unfold render_edge. discriminate.
    + unfold strip_fixed. rewrite strip_nl_plain by assumption. reflexivity.
  - rewrite read_st_line by (auto using strip_fixed_line). rewrite ET. reflexivity.
Qed.

(* ---- defect D3 ---- *)

Definition d3_layout : layout :=
  mkLayout [] (mkProb [32] [101; 100; 103; 101] [32] (mkInt None [51]) (Some ([32], mkInt None [49])) [])
           [LEdge (mkEdge 101 [32] (mkInt None [49]) [32] (mkInt None [51]) (Some ([32], mkW None [49; 53] None None)) [])]
           false.

(* "p edge 3 1\ne 1 3 15" *)
Lemma d3_text : render d3_layout = [112; 32; 101; 100; 103; 101; 32; 51; 32; 49; 10; 101; 32; 49; 32; 51; 32; 49; 53].
Proof. reflexivity. Qed.

Theorem read_orig_refuted :
  layout_ok d3_layout = true /\ l_final_nl d3_layout = false /\
  denot d3_layout = (3, [(0, 2, 15 # 1)]) /\
  read_orig (render d3_layout) = ROk (3, [(0, 2, 1 # 1)]) /\
  read_orig (render d3_layout) <> ROk (denot d3_layout).
Proof.
  assert (read_orig (render d3_layout) = ROk (3, [(0, 2, 1 # 1)])) as E by (vm_compute; reflexivity).
  repeat split; try (vm_compute; reflexivity).
  rewrite E. vm_compute. discriminate.
Qed.
