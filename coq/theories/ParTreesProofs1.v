(* ParTreesProofs1.v — generic facts about the model of the TBB tree lookup (ParTreesModel.v), any weight type:
     pq_build_nolimit       with use_weight_limit = false the builder with limit exits IS TreesModel.tc_build
     pq_eval_inv / pq_eval_sim / pq_eval_lift   induction principles for SchedModel.eval_reduce over ARBITRARY schedule
                            trees: invariants, simulation along an abstraction function, removal of the error layer
     pq_par_for_any_partition  the parallel_for over the trees: every task writes only the slots of its own chunk, so
                            ANY partition of [0, trees.size()) executed in ANY order leaves exactly TreesModel.tp_all
     pq_arrange_perm        an accepted arrangement is a permutation of the collection, and every permutation of the
                            collection is the arrangement of some position list
   Prefix pq_. *)
From Coq Require Import List Arith Bool Lia Permutation.
From Parmcb Require Import GraphModel GF2Model LexSPModel CandidatesModel GraphLemmas TreesModel SchedModel SchedProofs HeapProofs
     ParTreesModel.
Import ListNotations.

(* ---- 1. no limit = the sequential builder ------------------------------------------------------------------------ *)
Section NoLimit.
  Variable W : Type.
  Variable w0 : W.
  Variable wadd : W -> W -> W.
  Variable wltb : W -> W -> bool.

  Lemma pq_path_nolimit g wts t lim : forall fuel w res cw,
    tc_path_limit W w0 wadd wltb fuel g wts t false lim w res cw = tc_path W w0 wadd fuel g wts t w res cw.
  Proof.
    induction fuel as [|fuel IH]; intros w res cw; cbn [tc_path_limit tc_path];
      destruct (sp_node_of W t w) as [ws|]; try reflexivity; destruct (sn_pred ws) as [a|]; try reflexivity.
    destruct (memb a res); [reflexivity|]. cbn [andb]. destruct (opposite g a w) as [w'|]; [apply IH|reflexivity].
  Qed.

  Theorem pq_build_nolimit g wts trees pars sg c lim :
    tc_build_limit W w0 wadd wltb g wts trees pars sg c false lim = tc_build W w0 wadd g wts trees pars sg c.
  Proof.
    unfold tc_build_limit, tc_build. destruct (nth_error trees (c_tree c)) as [t|]; [|reflexivity].
    destruct (ends g (c_edge c)) as [[a b]|]; [|reflexivity].
    destruct (sp_node_of W t a); [|reflexivity]. destruct (sp_node_of W t b); [|reflexivity].
    destruct (xorb _ _); [|reflexivity]. cbn [andb]. rewrite pq_path_nolimit.
    destruct (tc_path W w0 wadd (S (nv g)) g wts t a [c_edge c] _) as [[[r1 w1]|]| | |]; try reflexivity.
    rewrite pq_path_nolimit. reflexivity.
  Qed.
End NoLimit.

(* ---- 2. eval_reduce over arbitrary schedule trees ------------------------------------------------------------------ *)
Section EvalInd.
  Variable A : Type.
  Variable body : nat -> A -> A.
  Variable join : A -> A -> A.
  Variable ident : A.

  (* an invariant of the identity that the body (on the indices of the range) and the join preserve *)
  Lemma pq_chunk_inv (P : A -> Prop) : forall len lo acc,
    (forall i a, lo <= i < lo + len -> P a -> P (body i a)) -> P acc -> P (run_chunk A body lo len acc).
  Proof.
    unfold run_chunk. induction len as [|n IH]; intros lo acc Hb Hacc; cbn [seq fold_left]; [exact Hacc|].
    apply IH; [intros i a Hi; apply Hb; lia|apply Hb; [lia|exact Hacc]].
  Qed.

  Lemma pq_eval_inv (P : A -> Prop) : P ident -> (forall a b, P a -> P b -> P (join a b)) ->
    forall t lo acc, (forall i a, lo <= i < lo + size t -> P a -> P (body i a)) -> P acc ->
    P (eval_reduce A body join ident t lo acc).
  Proof.
    intros Hid Hj. induction t as [len|rf a IHa b IHb|rf a IHa b IHb]; intros lo acc Hb Hacc; cbn [eval_reduce size] in *.
    - apply pq_chunk_inv; assumption.
    - apply IHb; [intros; apply Hb; [lia|assumption]|]. apply IHa; [intros; apply Hb; [lia|assumption]|exact Hacc].
    - apply Hj; [apply IHa; [intros; apply Hb; [lia|assumption]|exact Hacc]|].
      apply IHb; [intros; apply Hb; [lia|assumption]|exact Hid].
  Qed.
End EvalInd.

Section EvalSim.
  Variables A B : Type.
  Variable f : A -> B.
  Variable body : nat -> A -> A.
  Variable join : A -> A -> A.
  Variable ident : A.
  Variable body' : nat -> B -> B.
  Variable join' : B -> B -> B.
  Variable ident' : B.
  Hypothesis f_ident : f ident = ident'.
  Hypothesis f_join : forall a b, f (join a b) = join' (f a) (f b).

  Lemma pq_chunk_sim : forall len lo acc,
    (forall i a, lo <= i < lo + len -> f (body i a) = body' i (f a)) ->
    f (run_chunk A body lo len acc) = run_chunk B body' lo len (f acc).
  Proof.
    unfold run_chunk. induction len as [|n IH]; intros lo acc Hb; cbn [seq fold_left]; [reflexivity|].
    rewrite IH by (intros; apply Hb; lia). rewrite Hb by lia. reflexivity.
  Qed.

  Lemma pq_eval_sim : forall t lo acc,
    (forall i a, lo <= i < lo + size t -> f (body i a) = body' i (f a)) ->
    f (eval_reduce A body join ident t lo acc) = eval_reduce B body' join' ident' t lo (f acc).
  Proof.
    induction t as [len|rf a IHa b IHb|rf a IHa b IHb]; intros lo acc Hb; cbn [eval_reduce size] in *.
    - apply pq_chunk_sim, Hb.
    - rewrite IHb by (intros; apply Hb; lia). rewrite IHa by (intros; apply Hb; lia). reflexivity.
    - rewrite f_join, IHa by (intros; apply Hb; lia). rewrite IHb by (intros; apply Hb; lia). rewrite f_ident. reflexivity.
  Qed.
End EvalSim.

(* the error layer: if the body never errs on a proper value and the join of proper values is proper, the reduction is the
   reduction of the pure body *)
Section EvalLift.
  Variable A : Type.
  Variable step : nat -> tr_result A -> tr_result A.
  Variable join : tr_result A -> tr_result A -> tr_result A.
  Variable pstep : nat -> A -> A.
  Variable pjoin : A -> A -> A.
  Variable pid : A.
  Hypothesis join_ok : forall x y, join (TrOk x) (TrOk y) = TrOk (pjoin x y).

  Lemma pq_chunk_lift : forall len lo a,
    (forall i x, lo <= i < lo + len -> step i (TrOk x) = TrOk (pstep i x)) ->
    run_chunk (tr_result A) step lo len (TrOk a) = TrOk (run_chunk A pstep lo len a).
  Proof.
    unfold run_chunk. induction len as [|n IH]; intros lo a H; cbn [seq fold_left]; [reflexivity|].
    rewrite H by lia. apply IH. intros i x Hi. apply H. lia.
  Qed.

  Lemma pq_eval_lift : forall t lo a,
    (forall i x, lo <= i < lo + size t -> step i (TrOk x) = TrOk (pstep i x)) ->
    eval_reduce (tr_result A) step join (TrOk pid) t lo (TrOk a) = TrOk (eval_reduce A pstep pjoin pid t lo a).
  Proof.
    induction t as [len|rf a IHa b IHb|rf a IHa b IHb]; intros lo x H; cbn [eval_reduce size] in *.
    - apply pq_chunk_lift, H.
    - rewrite IHa by (intros; apply H; lia). apply IHb. intros; apply H; lia.
    - rewrite IHa by (intros; apply H; lia). rewrite IHb by (intros; apply H; lia). apply join_ok.
  Qed.
End EvalLift.

Lemma pq_set_nth_out {A} : forall (l : list A) b x, length l <= b -> set_nth l b x = l.
Proof.
  induction l as [|y l IH]; intros b x Hb; [reflexivity|]. destruct b; [cbn in Hb; lia|].
  cbn [set_nth]. f_equal. apply IH. cbn in Hb. lia.
Qed.

(* ---- 3. the parallel_for over the trees ---------------------------------------------------------------------------- *)
Section ParFor.
  Variable W : Type.
  Variable g : graph.
  Variable trees : list (sp_tree W).
  Variable sg : list nat.

  Lemma pq_tp_all_nth : forall (ts : list (sp_tree W)) ps, tp_all W g ts sg = TrOk ps ->
    length ps = length ts /\
    forall i t, nth_error ts i = Some t -> update_parities W g t sg = TrOk (nth i ps []).
  Proof.
    induction ts as [|t ts IH]; intros ps H; cbn [tp_all] in H.
    - injection H as <-. split; [reflexivity|]. intros [|i] t Ht; discriminate.
    - destruct (update_parities W g t sg) as [p| | |] eqn:Ep; try discriminate.
      destruct (tp_all W g ts sg) as [ps'| | |] eqn:Eps; try discriminate. injection H as <-.
      destruct (IH ps' eq_refl) as [Hl Hn]. split; [cbn [length]; lia|].
      intros [|i] t' Ht'; cbn [nth_error nth] in *; [injection Ht' as <-; exact Ep|apply Hn; exact Ht'].
  Qed.

  (* the effect of visiting the (in-range) indices `idx` one after the other, in any order, with repetitions allowed *)
  Lemma pq_fold_one ps : tp_all W g trees sg = TrOk ps ->
    forall idx pars, length pars = length trees -> (forall i, In i idx -> i < length trees) ->
    exists pars', fold_left (pt_par_one W g trees sg) idx (TrOk pars) = TrOk pars' /\ length pars' = length trees /\
                  forall i, nth i pars' [] = if existsb (Nat.eqb i) idx then nth i ps [] else nth i pars [].
  Proof.
    intros Hps. destruct (pq_tp_all_nth trees ps Hps) as [Hlps Hn].
    induction idx as [|j idx IH]; intros pars Hlen Hin; cbn [fold_left].
    - exists pars. repeat split; auto.
    - assert (Hj : j < length trees) by (apply Hin; left; reflexivity).
      destruct (nth_error trees j) as [t|] eqn:Et; [|apply nth_error_None in Et; lia].
      cbn [pt_par_one]. rewrite Et, (Hn j t Et).
      destruct (IH (set_nth pars j (nth j ps []))) as (pars' & Hf & Hl' & Hnth).
      + rewrite hset_nth_length. exact Hlen.
      + intros i Hi. apply Hin. right. exact Hi.
      + exists pars'. split; [exact Hf|]. split; [exact Hl'|]. intros i. rewrite Hnth. cbn [existsb].
        destruct (existsb (Nat.eqb i) idx); [rewrite orb_true_r; reflexivity|]. rewrite orb_false_r.
        rewrite hnth_set_nth by lia. destruct (Nat.eqb_spec i j) as [->|]; reflexivity.
  Qed.

  Lemma pq_fold_chunks : forall (cs : list (nat * nat)) st,
    fold_left (fun s c => pt_par_chunk W g trees sg (fst c) (snd c) s) cs st
    = fold_left (pt_par_one W g trees sg) (flat_map chunk_indices cs) st.
  Proof.
    induction cs as [|c cs IH]; intros st; cbn [fold_left flat_map]; [reflexivity|].
    rewrite fold_left_app, IH. reflexivity.
  Qed.

  (* ANY partition of [0, trees.size()) into chunks, executed in ANY order, from ANY previous content of the parity
     fields: the result is what the sequential loop `for i: trees[i].update_parities(edges)` computes *)
  Theorem pq_par_for_any_partition ps cs pars0 : tp_all W g trees sg = TrOk ps -> length pars0 = length trees ->
    Permutation (flat_map chunk_indices cs) (seq 0 (length trees)) ->
    fold_left (fun s c => pt_par_chunk W g trees sg (fst c) (snd c) s) cs (TrOk pars0) = TrOk ps.
  Proof.
    intros Hps Hlen Hperm. rewrite pq_fold_chunks.
    destruct (pq_fold_one ps Hps (flat_map chunk_indices cs) pars0 Hlen) as (pars' & Hf & Hl' & Hnth).
    { intros i Hi. apply (Permutation_in _ Hperm) in Hi. apply in_seq in Hi. lia. }
    rewrite Hf. f_equal. destruct (pq_tp_all_nth trees ps Hps) as [Hlps _].
    apply nth_ext with (d := []) (d' := []); [lia|]. intros i Hi. rewrite Hnth.
    assert (Hex : existsb (Nat.eqb i) (flat_map chunk_indices cs) = true).
    { apply existsb_exists. exists i. split; [|apply Nat.eqb_refl].
      apply (Permutation_in _ (Permutation_sym Hperm)). apply in_seq. lia. }
    rewrite Hex. reflexivity.
  Qed.

  (* in particular under every schedule tree of the range *)
  Theorem pq_parallel_for_any_schedule ps t pars0 : tp_all W g trees sg = TrOk ps -> length pars0 = length trees ->
    size t = length trees ->
    parallel_for (tr_result (list (list bool))) (pt_par_chunk W g trees sg) t 0 (TrOk pars0) = TrOk ps.
  Proof.
    intros Hps Hlen Hsize. unfold parallel_for. apply pq_par_for_any_partition; [exact Hps|exact Hlen|].
    rewrite <- Hsize. apply (exec_order_perm t 0).
  Qed.

  (* footprints: a task leaves every slot outside its chunk untouched *)
  Theorem pq_par_chunk_frame b l pars pars' i : pt_par_chunk W g trees sg b l (TrOk pars) = TrOk pars' ->
    ~ (b <= i < b + l) -> nth i pars' [] = nth i pars [].
  Proof.
    unfold pt_par_chunk. revert b pars. induction l as [|l IH]; intros b pars H Hi; cbn [seq fold_left] in H.
    - injection H as <-. reflexivity.
    - cbn [pt_par_one] in H. destruct (nth_error trees b) as [t|].
      + destruct (update_parities W g t sg) as [p| | |].
        * rewrite (IH (S b) _ H) by lia. destruct (Nat.lt_ge_cases b (length pars)).
          -- rewrite hnth_set_nth by assumption. destruct (Nat.eqb_spec i b); [lia|reflexivity].
          -- rewrite pq_set_nth_out by assumption. reflexivity.
        * exfalso. clear -H. induction (seq (S b) l) as [|x xs IHx]; cbn [fold_left] in H; [discriminate|]. apply IHx, H.
        * exfalso. clear -H. induction (seq (S b) l) as [|x xs IHx]; cbn [fold_left] in H; [discriminate|]. apply IHx, H.
        * exfalso. clear -H. induction (seq (S b) l) as [|x xs IHx]; cbn [fold_left] in H; [discriminate|]. apply IHx, H.
      + exfalso. clear -H. induction (seq (S b) l) as [|x xs IHx]; cbn [fold_left] in H; [discriminate|]. apply IHx, H.
  Qed.
End ParFor.

(* ---- 4. arrangements ------------------------------------------------------------------------------------------------- *)
Section Arrange.
  Variable W : Type.

  Lemma pq_valid_arr_perm arr m : pt_valid_arr arr m = true -> Permutation arr (seq 0 m).
  Proof.
    unfold pt_valid_arr. intros H. apply andb_true_iff in H as [Hl Hall]. apply Nat.eqb_eq in Hl.
    apply Permutation_sym. apply NoDup_Permutation_bis.
    - apply seq_NoDup.
    - rewrite seq_length. lia.
    - intros x Hx. rewrite forallb_forall in Hall. specialize (Hall x Hx). apply gl_memb_In. exact Hall.
  Qed.

  Lemma pq_pick_map (cands : list (cand W)) : forall arr l, pt_pick W cands arr = Some l ->
    map Some l = map (nth_error cands) arr.
  Proof.
    induction arr as [|i arr IH]; intros l H; cbn [pt_pick] in H; [injection H as <-; reflexivity|].
    destruct (nth_error cands i) as [c|] eqn:Ec; [|discriminate].
    destruct (pt_pick W cands arr) as [l'|]; [|discriminate]. injection H as <-.
    cbn [map]. rewrite Ec, (IH l' eq_refl). reflexivity.
  Qed.

  Lemma pq_nth_error_seq (cands : list (cand W)) : map (nth_error cands) (seq 0 (length cands)) = map Some cands.
  Proof.
    induction cands as [|c cands IH]; [reflexivity|]. cbn [length seq map nth_error]. f_equal.
    rewrite <- seq_shift, map_map. exact IH.
  Qed.

  Lemma pq_map_Some_inj : forall l1 l2 : list (cand W), map Some l1 = map Some l2 -> l1 = l2.
  Proof.
    induction l1 as [|x l1 IH]; intros [|y l2] H; cbn [map] in H; try discriminate; [reflexivity|].
    injection H as -> H. f_equal. apply IH, H.
  Qed.

  Lemma pq_map_Some_perm (l1 l2 : list (cand W)) : Permutation (map Some l1) (map Some l2) -> Permutation l1 l2.
  Proof.
    intros H. apply Permutation_map_inv in H as (l3 & E & Hp). apply pq_map_Some_inj in E. subst l3.
    apply Permutation_sym. exact Hp.
  Qed.

  (* an accepted arrangement is a permutation of the collection *)
  Theorem pq_arrange_perm arr (cands sorted : list (cand W)) :
    pt_arrange W arr cands = Some sorted -> Permutation sorted cands.
  Proof.
    unfold pt_arrange. destruct (pt_valid_arr arr (length cands)) eqn:Ev; [|discriminate]. intros H.
    apply pq_map_Some_perm. rewrite (pq_pick_map cands arr sorted H), <- pq_nth_error_seq.
    apply Permutation_map, pq_valid_arr_perm, Ev.
  Qed.

  (* ... and every permutation of the collection is the arrangement of some position list: quantifying over `arr` is
     quantifying over every outcome std::sort (or anything else) can leave *)
  Lemma pq_pick_of_map (cands : list (cand W)) : forall arr l,
    map (nth_error cands) arr = map Some l -> pt_pick W cands arr = Some l.
  Proof.
    induction arr as [|i arr IH]; intros [|c l] H; cbn [map] in H; try discriminate; [reflexivity|].
    injection H as Hc Hr. cbn [pt_pick]. rewrite Hc, (IH l Hr). reflexivity.
  Qed.

  Lemma pq_valid_of_perm arr m : Permutation arr (seq 0 m) -> pt_valid_arr arr m = true.
  Proof.
    intros Hp. unfold pt_valid_arr. apply andb_true_iff. split.
    - apply Nat.eqb_eq. rewrite (Permutation_length Hp). apply seq_length.
    - apply forallb_forall. intros x Hx. apply gl_memb_In. apply (Permutation_in _ (Permutation_sym Hp)). exact Hx.
  Qed.

  Lemma pq_reach (l l' : list (cand W)) : Permutation l l' ->
    exists arr, Permutation arr (seq 0 (length l')) /\ map (nth_error l') arr = map Some l.
  Proof.
    induction 1 as [|x l l' Hp IH|x y l|l l' l'' Hp1 IH1 Hp2 IH2].
    - exists []. split; [apply perm_nil|reflexivity].
    - destruct IH as (arr & Ha & Hm). exists (0 :: map S arr). split.
      + cbn [length seq]. apply perm_skip. rewrite <- seq_shift. apply Permutation_map, Ha.
      + cbn [map nth_error]. f_equal. rewrite map_map. cbn [nth_error]. exact Hm.
    - exists (1 :: 0 :: map (fun i => S (S i)) (seq 0 (length l))). split.
      + cbn [length seq]. eapply perm_trans; [apply perm_swap|]. do 2 apply perm_skip.
        rewrite <- seq_shift, <- seq_shift, map_map. apply Permutation_refl.
      + cbn [map nth_error]. do 2 f_equal. rewrite map_map. cbn [nth_error]. apply pq_nth_error_seq.
    - destruct IH1 as (a1 & Ha1 & Hm1). destruct IH2 as (a2 & Ha2 & Hm2).
      assert (Hlen : length a2 = length l').
      { rewrite <- (map_length (nth_error l'') a2), Hm2, map_length. reflexivity. }
      exists (map (fun i => nth i a2 0) a1). split.
      + eapply perm_trans; [apply Permutation_map, Ha1|]. rewrite <- Hlen, map_nth_seq. exact Ha2.
      + rewrite map_map. rewrite <- Hm1. apply map_ext_in. intros i Hi.
        assert (Hi' : i < length l').
        { apply (Permutation_in _ Ha1) in Hi. apply in_seq in Hi. lia. }
        assert (H2 : nth_error a2 i = Some (nth i a2 0)) by (apply nth_error_nth'; lia).
        pose proof (map_nth_error (nth_error l'') i a2 H2) as E2. rewrite Hm2 in E2.
        destruct (nth_error l' i) as [c|] eqn:Ec; [|apply nth_error_None in Ec; lia].
        rewrite (map_nth_error Some i l' Ec) in E2. injection E2 as E2. symmetry. exact E2.
  Qed.

  Theorem pq_arrange_complete (cands sorted : list (cand W)) : Permutation sorted cands ->
    exists arr, pt_arrange W arr cands = Some sorted.
  Proof.
    intros Hp. destruct (pq_reach sorted cands Hp) as (arr & Ha & Hm). exists arr.
    unfold pt_arrange. rewrite (pq_valid_of_perm arr _ Ha). apply pq_pick_of_map, Hm.
  Qed.
End Arrange.
