(* FvsModel.v — executable model of parmcb::greedy_fvs (include/parmcb/detail/fvs.hpp).
   Definitions only; proofs in FvsProofs.v.

   State: `ex` (the vector<bool> exists), `deg` (the vector degree), `rem` (the deque forRemoval,
   used as a LIFO: push_front / pop_front).  The pairing heap is abstracted: every vertex that still
   exists is in the heap (it was pushed before the main loop and a vertex leaves the heap only by
   being popped; popping a vertex that no longer exists has no effect).  So the effective behaviour of
   `heap.top(); heap.pop(); if (!exists) continue;` is "pick some vertex that still exists"; which one
   is the oracle `picks` (the list of effective picks, one per main-loop iteration that emits).  The
   theorems hold for every such list; the correspondence check feeds the implementation's output. *)
From Parmcb Require Export GraphModel.

Record fstate := { ex : list bool; deg : list nat; rem : list nat }.

Definition exb (s : fstate) (v : nat) : bool := nth v (ex s) false.
Definition degv (s : fstate) (v : nat) : nat := nth v (deg s) 0.

(* body of the neighbour loops: `if (!exists[w]) continue; degree[w]--; if (degree[w] <= 1) push_front(w)` *)
Definition dec_neighbor (s : fstate) (ew : nat * nat) : fstate :=
  let w := snd ew in
  if negb (exb s w) then s
  else
    let d := degv s w - 1 in
    {| ex := ex s; deg := set_nth (deg s) w d;
       rem := if Nat.leb d 1 then w :: rem s else rem s |}.

(* remove vertex u: exists[u] = false, then the neighbour loop *)
Definition remove_vertex (g : graph) (s : fstate) (u : nat) : fstate :=
  fold_left dec_neighbor (out_edges g u)
            {| ex := set_nth (ex s) u false; deg := deg s; rem := rem s |}.

(* while (!forRemoval.empty()) { u = front; pop_front; remove u } *)
Fixpoint cleanup (fuel : nat) (g : graph) (s : fstate) : option fstate :=
  match fuel with
  | O => None
  | S f =>
      match rem s with
      | [] => Some s
      | u :: r => cleanup f g (remove_vertex g {| ex := ex s; deg := deg s; rem := r |} u)
      end
  end.

(* every vertex enters forRemoval at most twice (degree 1, then degree 0), plus slack *)
Definition cleanup_fuel (g : graph) : nat := 2 * nv g + 2 * ne g + 2.

(* initialisation loop over the vertices in index order *)
Definition init_state (g : graph) : fstate :=
  let ds := map (fun v => length (out_edges g v)) (seq 0 (nv g)) in
  {| ex := map (fun _ => true) (seq 0 (nv g));
     deg := ds;
     rem := fold_left (fun r v => if Nat.leb (nth v ds 0) 1 then v :: r else r) (seq 0 (nv g)) [] |}.

Inductive fvs_result :=
| FvsOk (out : list nat)
| FvsBadPick (v : nat)        (* the oracle named a vertex that does not exist any more / is out of range *)
| FvsIncomplete               (* the oracle ended while vertices still exist: not a complete run *)
| FvsOutOfFuel.

Fixpoint main_loop (g : graph) (s : fstate) (picks : list nat) (out : list nat) : fvs_result :=
  match picks with
  | [] => if existsb (fun b => b) (ex s) then FvsIncomplete else FvsOk (rev out)
  | v :: picks' =>
      if negb (exb s v) then FvsBadPick v
      else
        match cleanup (cleanup_fuel g) g (remove_vertex g s v) with
        | None => FvsOutOfFuel
        | Some s' => main_loop g s' picks' (v :: out)
        end
  end.

Definition greedy_fvs (g : graph) (picks : list nat) : fvs_result :=
  match cleanup (cleanup_fuel g) g (init_state g) with
  | None => FvsOutOfFuel
  | Some s => main_loop g s picks []
  end.

(* a deterministic resolution of the oracle (smallest existing vertex), used for whole-algorithm
   models and to show that complete runs exist *)
Fixpoint first_true (l : list bool) (i : nat) : option nat :=
  match l with [] => None | b :: r => if b then Some i else first_true r (S i) end.

Fixpoint det_loop (fuel : nat) (g : graph) (s : fstate) (out : list nat) : fvs_result :=
  match fuel with
  | O => FvsOutOfFuel
  | S f =>
      match first_true (ex s) 0 with
      | None => FvsOk (rev out)
      | Some v =>
          match cleanup (cleanup_fuel g) g (remove_vertex g s v) with
          | None => FvsOutOfFuel
          | Some s' => det_loop f g s' (v :: out)
          end
      end
  end.

Definition greedy_fvs_det (g : graph) : fvs_result :=
  match cleanup (cleanup_fuel g) g (init_state g) with
  | None => FvsOutOfFuel
  | Some s => det_loop (S (nv g)) g s []
  end.
