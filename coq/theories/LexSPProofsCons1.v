(* LexSPProofsCons1.v — C12 consistency, part 1: the order on labels.
   * lc_slt: the order on vertex sets (as lists) "the least element of the symmetric difference belongs to A":
     a strict total order on finite sets (up to extensional equality lc_seq), stable under adding/removing a
     common disjoint part.
   * lc_LT / lc_EQ on labels (distance, edge count, set): lexicographic; strict total order up to lc_EQ.
   * lc_good: the set is sorted and has edge count + 1 elements (labels of simple paths).  On good labels the
     coded comparison LexDistanceCompare (lx_ltb) IS lc_LT (lc_ltb_LT).  [On sets of different cardinality the
     coded third stage is a different relation (a proper subset counts as smaller); the proofs only use the coded
     comparison on good labels, where at equal count the two sets have the same cardinality.]
   * shared vocabulary of the path theory: lc_pl (label of a walk), lc_shortest, lc_lexmin, lc_rev.
   Prefix lc_. *)
From Coq Require Import List Arith Bool Lia ZArith Permutation Sorted.
From Parmcb Require Import GraphModel GF2Model GraphSpec GraphLemmas HeapModel LexSPModel LexSPProofsHeap LexSPProofs
  LexSPProofsDist.
Import ListNotations.

(* ---- the order on sets --------------------------------------------------------------------------- *)

Definition lc_slt (A B : list nat) : Prop :=
  exists m, In m A /\ ~ In m B /\ forall k, k < m -> (In k A <-> In k B).
Definition lc_seq (A B : list nat) : Prop := forall k, In k A <-> In k B.

Lemma lc_seq_refl A : lc_seq A A.
Proof. intros k; tauto. Qed.
Lemma lc_seq_sym A B : lc_seq A B -> lc_seq B A.
Proof. intros H k; specialize (H k); tauto. Qed.
Lemma lc_seq_trans A B C : lc_seq A B -> lc_seq B C -> lc_seq A C.
Proof. intros H1 H2 k; specialize (H1 k); specialize (H2 k); tauto. Qed.

Lemma lc_slt_irrefl A : ~ lc_slt A A.
Proof. intros [m [H1 [H2 _]]]. contradiction. Qed.

Lemma lc_slt_trans A B C : lc_slt A B -> lc_slt B C -> lc_slt A C.
Proof.
  intros [m1 [Ha1 [Hb1 H1]]] [m2 [Hb2 [Hc2 H2]]].
  destruct (Nat.lt_trichotomy m1 m2) as [Hlt|[Heq|Hgt]].
  - exists m1. split; [exact Ha1|]. split.
    + intros Hc. apply Hb1. apply (H2 m1 Hlt). exact Hc.
    + intros k Hk. rewrite (H1 k Hk). apply H2. lia.
  - subst m2. contradiction.
  - exists m2. split; [apply (H1 m2 Hgt); exact Hb2|]. split; [exact Hc2|].
    intros k Hk. rewrite (H1 k ltac:(lia)). apply H2. exact Hk.
Qed.

Lemma lc_slt_asym A B : lc_slt A B -> ~ lc_slt B A.
Proof. intros H1 H2. exact (lc_slt_irrefl A (lc_slt_trans A B A H1 H2)). Qed.

Lemma lc_slt_seq_l A A' B : lc_seq A A' -> lc_slt A B -> lc_slt A' B.
Proof.
  intros He [m [H1 [H2 H3]]]. exists m. split; [apply He; exact H1|]. split; [exact H2|].
  intros k Hk. rewrite <- (He k). apply H3; exact Hk.
Qed.

Lemma lc_slt_seq_r A B B' : lc_seq B B' -> lc_slt A B -> lc_slt A B'.
Proof.
  intros He [m [H1 [H2 H3]]]. exists m. split; [exact H1|]. split; [rewrite <- (He m); exact H2|].
  intros k Hk. rewrite <- (He k). apply H3; exact Hk.
Qed.

Lemma lc_least_disagree A B : forall N,
  (forall k, k < N -> (In k A <-> In k B)) \/
  exists m, m < N /\ ((In m A /\ ~ In m B) \/ (In m B /\ ~ In m A)) /\ forall k, k < m -> (In k A <-> In k B).
Proof.
  induction N as [|N IH]; [left; intros k Hk; lia|].
  destruct IH as [IH|[m [Hm [Hd Hl]]]].
  - destruct (in_dec Nat.eq_dec N A) as [Ha|Ha], (in_dec Nat.eq_dec N B) as [Hb|Hb].
    + left. intros k Hk. destruct (Nat.eq_dec k N) as [->|Hne]; [tauto|apply IH; lia].
    + right. exists N. split; [lia|]. split; [left; auto|exact IH].
    + right. exists N. split; [lia|]. split; [right; auto|exact IH].
    + left. intros k Hk. destruct (Nat.eq_dec k N) as [->|Hne]; [tauto|apply IH; lia].
  - right. exists m. split; [lia|]. split; [exact Hd|exact Hl].
Qed.

Lemma lc_in_le_max (l : list nat) k : In k l -> k <= list_max l.
Proof.
  intros H. assert (Hf : Forall (fun x => x <= list_max l) l) by (apply list_max_le; lia).
  rewrite Forall_forall in Hf. apply Hf; exact H.
Qed.

Lemma lc_slt_tricho A B : lc_slt A B \/ lc_seq A B \/ lc_slt B A.
Proof.
  destruct (lc_least_disagree A B (S (list_max (A ++ B)))) as [H|[m [_ [[[H1 H2]|[H1 H2]] H3]]]].
  - right; left. intros k. destruct (Nat.lt_ge_cases k (S (list_max (A ++ B)))) as [Hk|Hk]; [apply H; exact Hk|].
    split; intros Hin; exfalso.
    + pose proof (lc_in_le_max (A ++ B) k (in_or_app _ _ _ (or_introl Hin))). lia.
    + pose proof (lc_in_le_max (A ++ B) k (in_or_app _ _ _ (or_intror Hin))). lia.
  - left. exists m. auto.
  - right; right. exists m. split; [exact H1|]. split; [exact H2|]. intros k Hk. symmetry. apply H3; exact Hk.
Qed.

(* adding a common part C disjoint from A (resp. removing one disjoint from A and B) *)
Lemma lc_slt_add A B C A' B' :
  (forall k, In k A' <-> In k A \/ In k C) -> (forall k, In k B' <-> In k B \/ In k C) ->
  (forall k, In k C -> ~ In k A) -> lc_slt A B -> lc_slt A' B'.
Proof.
  intros HA HB Hd [m [H1 [H2 H3]]]. exists m. split; [apply HA; left; exact H1|]. split.
  - intros Hc. apply HB in Hc as [Hc|Hc]; [contradiction|]. exact (Hd m Hc H1).
  - intros k Hk. rewrite HA, HB, (H3 k Hk). tauto.
Qed.

Lemma lc_slt_cancel A B C A' B' :
  (forall k, In k A' <-> In k A \/ In k C) -> (forall k, In k B' <-> In k B \/ In k C) ->
  (forall k, In k C -> ~ In k A) -> (forall k, In k C -> ~ In k B) -> lc_slt A' B' -> lc_slt A B.
Proof.
  intros HA HB HdA HdB [m [H1 [H2 H3]]].
  assert (HmC : ~ In m C) by (intros Hc; apply H2; apply HB; right; exact Hc).
  exists m. split; [apply HA in H1 as [H1|H1]; [exact H1|contradiction]|]. split.
  - intros Hc. apply H2. apply HB. left; exact Hc.
  - intros k Hk. specialize (H3 k Hk). rewrite HA, HB in H3. specialize (HdA k). specialize (HdB k). tauto.
Qed.

(* ---- the order on labels ------------------------------------------------------------------------- *)

Definition lc_LT (a b : label Z) : Prop :=
  (l_dist a < l_dist b)%Z \/
  (l_dist a = l_dist b /\ (l_cnt a < l_cnt b \/ (l_cnt a = l_cnt b /\ lc_slt (l_set a) (l_set b)))).

Definition lc_EQ (a b : label Z) : Prop :=
  l_dist a = l_dist b /\ l_cnt a = l_cnt b /\ lc_seq (l_set a) (l_set b).

Lemma lc_EQ_refl a : lc_EQ a a.
Proof. repeat split; intros H; exact H. Qed.
Lemma lc_EQ_sym a b : lc_EQ a b -> lc_EQ b a.
Proof. intros [H1 [H2 H3]]. split; [auto|]. split; [auto|]. apply lc_seq_sym; exact H3. Qed.
Lemma lc_EQ_trans a b c : lc_EQ a b -> lc_EQ b c -> lc_EQ a c.
Proof.
  intros [H1 [H2 H3]] [H4 [H5 H6]]. split; [congruence|]. split; [congruence|]. eapply lc_seq_trans; eauto.
Qed.

Lemma lc_LT_irrefl a : ~ lc_LT a a.
Proof. intros [H|[_ [H|[_ H]]]]; [lia|lia|exact (lc_slt_irrefl _ H)]. Qed.

Lemma lc_LT_trans a b c : lc_LT a b -> lc_LT b c -> lc_LT a c.
Proof.
  unfold lc_LT. intros [H1|[H1 [H2|[H2 H3]]]] [H4|[H4 [H5|[H5 H6]]]]; try (left; lia); try (right; split; [lia|left; lia]).
  right. split; [lia|]. right. split; [lia|]. eapply lc_slt_trans; eauto.
Qed.

Lemma lc_LT_asym a b : lc_LT a b -> ~ lc_LT b a.
Proof. intros H1 H2. exact (lc_LT_irrefl a (lc_LT_trans a b a H1 H2)). Qed.

Lemma lc_LT_tricho a b : lc_LT a b \/ lc_EQ a b \/ lc_LT b a.
Proof.
  unfold lc_LT, lc_EQ.
  destruct (Z.lt_trichotomy (l_dist a) (l_dist b)) as [H|[H|H]]; [left; left; exact H| |right; right; left; exact H].
  destruct (Nat.lt_trichotomy (l_cnt a) (l_cnt b)) as [H'|[H'|H']];
    [left; right; split; [exact H|left; exact H']| |right; right; right; split; [lia|left; exact H']].
  destruct (lc_slt_tricho (l_set a) (l_set b)) as [Hs|[Hs|Hs]].
  - left. right. split; [exact H|]. right. split; [exact H'|exact Hs].
  - right; left. auto.
  - right; right; right. split; [lia|]. right. split; [lia|exact Hs].
Qed.

Lemma lc_LT_EQ_l a a' b : lc_EQ a a' -> lc_LT a b -> lc_LT a' b.
Proof.
  intros [E1 [E2 E3]]. unfold lc_LT. rewrite <- E1, <- E2. intros [H|[H [H'|[H' Hs]]]]; auto.
  right. split; [exact H|]. right. split; [exact H'|]. eapply lc_slt_seq_l; eauto.
Qed.

Lemma lc_LT_EQ_r a b b' : lc_EQ b b' -> lc_LT a b -> lc_LT a b'.
Proof.
  intros [E1 [E2 E3]]. unfold lc_LT. rewrite <- E1, <- E2. intros [H|[H [H'|[H' Hs]]]]; auto.
  right. split; [exact H|]. right. split; [exact H'|]. eapply lc_slt_seq_r; eauto.
Qed.

(* negative transitivity *)
Lemma lc_nLT_trans a b c : ~ lc_LT a b -> ~ lc_LT b c -> ~ lc_LT a c.
Proof.
  intros H1 H2 H3. destruct (lc_LT_tricho a b) as [H|[H|H]]; [contradiction| |].
  - apply H2. eapply lc_LT_EQ_l; eauto.
  - apply H2. eapply lc_LT_trans; eauto.
Qed.

(* ---- the coded comparison on labels of simple paths -------------------------------------------- *)

Definition lc_good (l : label Z) : Prop := sorted (l_set l) /\ length (l_set l) = l_cnt l + 1.

Lemma lc_filter_sorted (f : nat -> bool) l : sorted l -> sorted (filter f l).
Proof.
  unfold sorted. induction 1 as [|x l Hs IH Hx]; cbn [filter]; [constructor|].
  destruct (f x); [|exact IH]. constructor; [exact IH|].
  rewrite Forall_forall in *. intros y Hy. apply filter_In in Hy as [Hy _]. apply Hx; exact Hy.
Qed.

Lemma lc_filter_head (f : nat -> bool) l m r : sorted l -> filter f l = m :: r ->
  In m l /\ f m = true /\ forall k, In k l -> f k = true -> m <= k.
Proof.
  intros Hs Hf. assert (Hm : In m (filter f l)) by (rewrite Hf; left; reflexivity).
  apply filter_In in Hm as [Hm1 Hm2]. split; [exact Hm1|]. split; [exact Hm2|].
  intros k Hk Hfk. assert (Hin : In k (filter f l)) by (apply filter_In; auto).
  pose proof (lc_filter_sorted f l Hs) as Hsf. rewrite Hf in Hsf, Hin.
  destruct Hin as [<-|Hin]; [lia|]. unfold sorted in Hsf. inversion Hsf as [|? ? _ Hall]; subst.
  rewrite Forall_forall in Hall. specialize (Hall k Hin). lia.
Qed.

Lemma lc_filter_nil (f : nat -> bool) l : filter f l = [] -> forall k, In k l -> f k = false.
Proof.
  intros Hf k Hk. destruct (f k) eqn:E; [|reflexivity].
  assert (Hin : In k (filter f l)) by (apply filter_In; auto). rewrite Hf in Hin. destruct Hin.
Qed.

Lemma lc_notin_true k B : negb (memb k B) = true <-> ~ In k B.
Proof. rewrite negb_true_iff. apply gl_memb_false. Qed.

Lemma lc_notin_false k B : negb (memb k B) = false <-> In k B.
Proof. rewrite negb_false_iff. apply gl_memb_In. Qed.

(* the third stage of LexDistanceCompare on two sorted sets of the same size *)
Lemma lc_set_stage A B : sorted A -> sorted B -> length A = length B ->
  (match lx_set_diff A B, lx_set_diff B A with
   | [], _ :: _ => true
   | _ :: _, [] => false
   | ma :: _, mb :: _ => Nat.ltb ma mb
   | [], [] => false
   end = true) <-> lc_slt A B.
Proof.
  intros HA HB Hlen. pose proof (gl_sorted_NoDup A HA) as NA. pose proof (gl_sorted_NoDup B HB) as NB.
  assert (HinclA : lx_set_diff A B = [] -> incl B A).
  { intros H. apply NoDup_length_incl; [exact NA|lia|]. intros k Hk.
    apply (lc_filter_nil _ _ H) in Hk. apply lc_notin_false in Hk. exact Hk. }
  assert (HinclB : lx_set_diff B A = [] -> incl A B).
  { intros H. apply NoDup_length_incl; [exact NB|lia|]. intros k Hk.
    apply (lc_filter_nil _ _ H) in Hk. apply lc_notin_false in Hk. exact Hk. }
  unfold lx_set_diff in *.
  destruct (filter (fun x => negb (memb x B)) A) as [|ma ra] eqn:EA;
    destruct (filter (fun x => negb (memb x A)) B) as [|mb rb] eqn:EB.
  - split; [discriminate|]. intros [m [H1 [H2 _]]]. exfalso. apply H2. apply (HinclB eq_refl). exact H1.
  - destruct (lc_filter_head _ _ _ _ HB EB) as [Hb1 [Hb2 _]]. apply lc_notin_true in Hb2.
    exfalso. apply Hb2. apply (HinclA eq_refl). exact Hb1.
  - split; [discriminate|]. intros [m [H1 [H2 _]]]. exfalso. apply H2. apply (HinclB eq_refl). exact H1.
  - destruct (lc_filter_head _ _ _ _ HA EA) as [Ha1 [Ha2 Ha3]]. apply lc_notin_true in Ha2.
    destruct (lc_filter_head _ _ _ _ HB EB) as [Hb1 [Hb2 Hb3]]. apply lc_notin_true in Hb2.
    split.
    + intros Hlt. apply Nat.ltb_lt in Hlt. exists ma. split; [exact Ha1|]. split; [exact Ha2|].
      intros k Hk. split; intros Hin.
      * destruct (in_dec Nat.eq_dec k B) as [Hb|Hb]; [exact Hb|]. exfalso.
        specialize (Ha3 k Hin (proj2 (lc_notin_true k B) Hb)). lia.
      * destruct (in_dec Nat.eq_dec k A) as [Ha|Ha]; [exact Ha|]. exfalso.
        specialize (Hb3 k Hin (proj2 (lc_notin_true k A) Ha)). lia.
    + intros [m [H1 [H2 H3]]]. apply Nat.ltb_lt.
      specialize (Ha3 m H1 (proj2 (lc_notin_true m B) H2)).
      destruct (Nat.lt_ge_cases m mb) as [Hlt|Hge]; [lia|]. exfalso.
      destruct (Nat.eq_dec mb m) as [->|Hne]; [contradiction|].
      apply Hb2. apply (H3 mb ltac:(lia)). exact Hb1.
Qed.

Theorem lc_ltb_LT a b : lc_good a -> lc_good b -> (lx_ltb Z Z.ltb a b = true <-> lc_LT a b).
Proof.
  intros [Sa La] [Sb Lb]. unfold lx_ltb, lc_LT.
  destruct (Z.ltb_spec (l_dist a) (l_dist b)) as [H1|H1]; [split; auto|].
  destruct (Z.ltb_spec (l_dist b) (l_dist a)) as [H2|H2].
  { split; [discriminate|]. intros [H|[H _]]; lia. }
  destruct (Nat.ltb_spec (l_cnt a) (l_cnt b)) as [H3|H3].
  { split; [intros _|reflexivity]. right. split; [lia|left; exact H3]. }
  destruct (Nat.ltb_spec (l_cnt b) (l_cnt a)) as [H4|H4].
  { split; [discriminate|]. intros [H|[_ [H|[H _]]]]; lia. }
  rewrite (lc_set_stage (l_set a) (l_set b) Sa Sb ltac:(lia)). split.
  - intros H. right. split; [lia|]. right. split; [lia|exact H].
  - intros [H|[_ [H|[_ H]]]]; [lia|lia|exact H].
Qed.

Lemma lc_ltb_irrefl (a : label Z) : lx_ltb Z Z.ltb a a = false.
Proof.
  unfold lx_ltb. rewrite Z.ltb_irrefl, Nat.ltb_irrefl.
  assert (H : lx_set_diff (l_set a) (l_set a) = []).
  { unfold lx_set_diff. destruct (filter _ _) as [|m r] eqn:E; [reflexivity|].
    assert (Hm : In m (filter (fun x => negb (memb x (l_set a))) (l_set a))) by (rewrite E; left; reflexivity).
    apply filter_In in Hm as [Hm1 Hm2]. apply lc_notin_true in Hm2. contradiction. }
  rewrite H. reflexivity.
Qed.

(* ---- walks: label, shortest, lexicographically least, reversal ------------------------------------ *)

(* the label of the walk p starting at x: weight, number of edges, the vertices (as a list) *)
Definition lc_pl (wts : list Z) (x : nat) (p : list (nat * nat)) : label Z :=
  {| l_dist := lz_sum wts p; l_cnt := length p; l_set := x :: wverts p |}.

Definition lc_shortest (g : graph) (wts : list Z) (x : nat) (p : list (nat * nat)) (y : nat) : Prop :=
  walk g x p y /\ forall q, walk g x q y -> (lz_sum wts p <= lz_sum wts q)%Z.

(* p is a shortest x-y walk whose label is not above that of any other shortest x-y walk *)
Definition lc_lexmin (g : graph) (wts : list Z) (x : nat) (p : list (nat * nat)) (y : nat) : Prop :=
  lc_shortest g wts x p y /\ forall q, lc_shortest g wts x q y -> ~ lc_LT (lc_pl wts x q) (lc_pl wts x p).

(* the walk p from x, backwards *)
Fixpoint lc_rev (x : nat) (p : list (nat * nat)) : list (nat * nat) :=
  match p with
  | [] => []
  | (e, y) :: p' => lc_rev y p' ++ [(e, x)]
  end.

(* two edges of a simple graph with the same endpoints are the same edge (as ApproxProofs.ap_simple_joins_unique) *)
Lemma lc_same_pair_sym a b : same_pair a b = same_pair b a.
Proof.
  unfold same_pair. rewrite (Nat.eqb_sym (fst a) (fst b)), (Nat.eqb_sym (snd a) (snd b)),
    (Nat.eqb_sym (fst a) (snd b)), (Nat.eqb_sym (snd a) (fst b)).
  destruct (Nat.eqb (fst b) (fst a)), (Nat.eqb (snd b) (snd a)), (Nat.eqb (snd b) (fst a)), (Nat.eqb (fst b) (snd a)); reflexivity.
Qed.

Lemma lc_no_parallel_spec l :
  no_parallel l = true ->
  (forall i j, i < j -> j < length l -> same_pair (nth i l (0, 0)) (nth j l (0, 0)) = false).
Proof.
  induction l as [|e r IH]; cbn [no_parallel length].
  - intros _ i j _ Hj; lia.
  - rewrite andb_true_iff, negb_true_iff.
    intros [Hex Hr] i j Hij Hj. destruct j as [|j]; [lia|]. destruct i as [|i]; cbn [nth].
    + destruct (same_pair e (nth j r (0, 0))) eqn:E; [|reflexivity].
      rewrite <- Hex. symmetry. apply existsb_exists. exists (nth j r (0, 0)). split; [apply nth_In; lia|exact E].
    + apply IH; [exact Hr|lia|lia].
Qed.

Lemma lc_joins_unique g a b x y : simple_graph g -> joins g a x y -> joins g b x y -> a = b.
Proof.
  intros Hs Ha Hb. pose proof Hs as Hs'. unfold simple_graph, simpleb in Hs'.
  apply andb_true_iff in Hs' as [_ Hnp]. pose proof (lc_no_parallel_spec _ Hnp) as Hnp'.
  assert (La : a < ne g) by (eapply gl_joins_lt; eauto). assert (Lb : b < ne g) by (eapply gl_joins_lt; eauto).
  assert (Hends : forall e u v, ends g e = Some (u, v) -> nth e (ge g) (0, 0) = (u, v)).
  { intros e u v H. unfold ends in H. apply nth_error_nth. exact H. }
  assert (Hsp : same_pair (nth a (ge g) (0, 0)) (nth b (ge g) (0, 0)) = true).
  { unfold joins in Ha, Hb.
    destruct Ha as [Ha|Ha], Hb as [Hb|Hb]; apply Hends in Ha, Hb; rewrite Ha, Hb;
      unfold same_pair; cbn [fst snd]; rewrite !Nat.eqb_refl; cbn [andb orb]; auto using orb_true_r. }
  destruct (Nat.lt_trichotomy a b) as [Hlt|[E|Hgt]]; [|exact E|].
  - rewrite (Hnp' a b Hlt Lb) in Hsp. discriminate.
  - rewrite lc_same_pair_sym, (Hnp' b a Hgt La) in Hsp. discriminate.
Qed.

(* ---- basic facts on walks, sums, shortest walks ---------------------------------------------------- *)

Lemma lc_sum_cons' wts x p : lz_sum wts (x :: p) = (wt wts (fst x) + lz_sum wts p)%Z.
Proof. reflexivity. Qed.

Lemma lc_sum_app wts p q : lz_sum wts (p ++ q) = (lz_sum wts p + lz_sum wts q)%Z.
Proof.
  induction p as [|x p IH]; cbn [app]; [change (lz_sum wts []) with 0%Z; lia|].
  rewrite !lc_sum_cons', IH. lia.
Qed.

Lemma lc_sum_cons wts e y p : lz_sum wts ((e, y) :: p) = (wt wts e + lz_sum wts p)%Z.
Proof. reflexivity. Qed.

Lemma lc_sum_one wts e y : lz_sum wts [(e, y)] = wt wts e.
Proof. cbn [lz_sum fold_right fst]. lia. Qed.

Lemma lc_wverts_app p q : wverts (p ++ q) = wverts p ++ wverts q.
Proof. unfold wverts. apply map_app. Qed.

Lemma lc_wedges_app p q : wedges (p ++ q) = wedges p ++ wedges q.
Proof. unfold wedges. apply map_app. Qed.

Lemma lc_walk_app_inv g : simple_graph g -> forall p q x z, walk g x (p ++ q) z ->
  exists y, walk g x p y /\ walk g y q z.
Proof.
  intros Hs. induction p as [|[e y] p IH]; intros q x z H; cbn [app] in H.
  - exists x. split; [|exact H]. constructor. eapply gl_walk_start_lt; eauto.
  - inversion H as [|x' e' y' p' z' Hj Hw]; subst.
    destruct (IH q y z Hw) as (y0 & H1 & H2). exists y0. split; [|exact H2].
    econstructor; eauto.
Qed.

Lemma lc_walk_one_inv g x e y z : walk g x [(e, y)] z -> z = y /\ joins g e x y.
Proof.
  intros H. inversion H as [|x' e' y' p' z' Hj Hw]; subst. inversion Hw; subst. auto.
Qed.

Lemma lc_walk_snoc_inv g : simple_graph g -> forall p x e y z, walk g x (p ++ [(e, y)]) z ->
  z = y /\ exists a, walk g x p a /\ joins g e a y.
Proof.
  intros Hs p x e y z H. destruct (lc_walk_app_inv g Hs p [(e, y)] x z H) as [a [H1 H2]].
  apply lc_walk_one_inv in H2 as [-> Hj]. split; [reflexivity|]. exists a. auto.
Qed.

Lemma lc_walk_snoc g x p a e y : walk g x p a -> joins g e a y -> y < nv g -> walk g x (p ++ [(e, y)]) y.
Proof.
  intros Hw Hj Hy. eapply gl_walk_app; [exact Hw|]. econstructor; [exact Hj|]. constructor. exact Hy.
Qed.

(* the walks determine their end *)
Lemma lc_walk_end_fun g : forall p x z z', walk g x p z -> walk g x p z' -> z = z'.
Proof.
  induction p as [|[e y] p IH]; intros x z z' H H'.
  - inversion H; inversion H'; subst. congruence.
  - inversion H as [|? ? ? ? ? _ Hw]; inversion H' as [|? ? ? ? ? _ Hw']; subst. eapply IH; eauto.
Qed.

(* splitting a walk at a vertex it visits *)
Lemma lc_walk_split_at g : simple_graph g -> forall x p z v, walk g x p z -> In v (wverts p) ->
  exists a b, p = a ++ b /\ a <> [] /\ walk g x a v /\ walk g v b z.
Proof.
  intros Hs x p z v H. induction H as [x Hx|x e y p z Hj Hw IH]; intros Hin; [destruct Hin|].
  cbn [wverts map snd] in Hin. destruct Hin as [<-|Hin].
  - exists [(e, y)], p. split; [reflexivity|]. split; [discriminate|]. split; [|exact Hw].
    econstructor; [exact Hj|]. constructor. apply (gl_simple_joins g e x y Hs Hj).
  - destruct (IH Hin) as [a [b [-> [Ha [H1 H2]]]]]. exists ((e, y) :: a), b.
    split; [reflexivity|]. split; [discriminate|]. split; [econstructor; eauto|exact H2].
Qed.

Section ShortestBasics.
  Variable g : graph.
  Variable wts : list Z.
  Hypothesis Hsg : simple_graph g.
  Hypothesis Hpos : positive_weights g wts.

  Lemma lc_sum_pos x p z : walk g x p z -> p <> [] -> (0 < lz_sum wts p)%Z.
  Proof.
    intros H Hne. destruct H as [x Hx|x e y p z Hj Hw]; [congruence|].
    rewrite lc_sum_cons. pose proof (lz_wt_pos g wts e Hpos (gl_joins_lt g e x y Hj)).
    pose proof (lz_sum_nonneg g wts y p z Hpos Hw). lia.
  Qed.

  Lemma lc_sh_walk x p y : lc_shortest g wts x p y -> walk g x p y.
  Proof. intros [H _]; exact H. Qed.

  (* two shortest walks between the same vertices have the same weight *)
  Lemma lc_sh_sum_eq x p q y : lc_shortest g wts x p y -> lc_shortest g wts x q y -> lz_sum wts p = lz_sum wts q.
  Proof. intros [Hp Hpm] [Hq Hqm]. specialize (Hpm q Hq). specialize (Hqm p Hp). lia. Qed.

  (* a walk of the weight of a shortest walk is shortest *)
  Lemma lc_sh_of_sum x p q y : lc_shortest g wts x p y -> walk g x q y -> (lz_sum wts q <= lz_sum wts p)%Z ->
    lc_shortest g wts x q y.
  Proof. intros [Hp Hpm] Hq Hle. split; [exact Hq|]. intros r Hr. specialize (Hpm r Hr). lia. Qed.

  Lemma lc_sh_split x p1 p2 y z : lc_shortest g wts x (p1 ++ p2) z -> walk g x p1 y ->
    lc_shortest g wts x p1 y /\ lc_shortest g wts y p2 z.
  Proof.
    intros [Hw Hm] H1. destruct (lc_walk_app_inv g Hsg p1 p2 x z Hw) as [y' [H1' H2]].
    assert (y' = y) by (eapply lc_walk_end_fun; eauto). subst y'.
    rewrite lc_sum_app in Hm. split; (split; [assumption|]).
    - intros q Hq. specialize (Hm (q ++ p2) (gl_walk_app g x q y p2 z Hq H2)). rewrite lc_sum_app in Hm. lia.
    - intros q Hq. specialize (Hm (p1 ++ q) (gl_walk_app g x p1 y q z H1 Hq)). rewrite lc_sum_app in Hm. lia.
  Qed.

  (* a shortest walk repeats no vertex *)
  Lemma lc_sh_simple : forall p x z, lc_shortest g wts x p z -> NoDup (x :: wverts p).
  Proof.
    induction p as [|[e y] p IH]; intros x z Hsh.
    - cbn [wverts map]. constructor; [intros []|constructor].
    - pose proof Hsh as [Hw Hm].
      assert (H1 : walk g x [(e, y)] y).
      { inversion Hw as [|? ? ? ? ? Hj Hw']; subst. econstructor; [exact Hj|]. constructor.
        apply (gl_simple_joins g e x y Hsg Hj). }
      destruct (lc_sh_split x [(e, y)] p y z Hsh H1) as [_ Hsuf].
      constructor; [|apply (IH y z Hsuf)].
      change (wverts ((e, y) :: p)) with (wverts ((e, y) :: p)). intros Hin.
      destruct (lc_walk_split_at g Hsg x ((e, y) :: p) z x Hw Hin) as [a [b [Hab [Ha [Hwa Hwb]]]]].
      specialize (Hm b Hwb). rewrite Hab, lc_sum_app in Hm.
      pose proof (lc_sum_pos x a x Hwa Ha). lia.
  Qed.
End ShortestBasics.
