(* IsoProofsA2.v — Step A of the sufficiency proof of the ISOMETRIC collection: the partner look-up of ISOCyclesBuilder
   (model: CandidatesModel.cd_link_of) never fails, and a link joins two representations of the SAME cycle:
     isoa_link    for the node c with node walk (x, w): cd_link_of = CdOk l, and l is LinkBad or LinkTo j where the node j
                  has a node walk (y, w') that is a rotation (possibly reversed) of (x, w)
     isoa_links   cd_links succeeds, one link per node
   Setting as IsoProofsA1.v.  Prefix isoa_. *)
From Coq Require Import List Arith Bool Lia ZArith Permutation.
From Parmcb Require Import GraphModel GF2Model GraphSpec GraphLemmas HeapModel LexSPModel FvsModel CandidatesModel
     LexSPProofsHeap LexSPProofs LexSPProofsDist LexSPProofsCons1 LexSPProofsCons2 LexSPProofsCons5
     CandidatesProofs CandidatesProofsZ IsoProofs0 IsoProofsR IsoProofsA1.
Import ListNotations.

Section Link.
  Variable g : graph.
  Variable wts : list Z.
  Hypothesis Hsg : simple_graph g.
  Hypothesis Hpos : positive_weights g wts.
  Variable trees : list (sp_tree Z).
  Variable allcycles : list (cand Z).
  Hypothesis Hh : horton_cycles_Z g wts = CdOk (trees, allcycles).

  Notation cv := (filter (cd_is_circuit Z g trees) allcycles).

  (* the first step of a tree walk: the rest is the tree walk from the first vertex *)
  Lemma isoa_head_step x t f x' pa1 u : sptree_Z g wts x = LxOk t -> c12_twalk g t ((f, x') :: pa1) u ->
    joins g f x x' /\ walk g x' pa1 u /\ lc_lexmin g wts x' pa1 u /\ sp_first Z t u = x' /\
    exists nd, sp_node_of Z t x' = Some nd /\ sn_pred nd = Some f.
  Proof.
    intros Ht Hpa.
    pose proof (isoa_twalk_walk g wts x t _ u Ht Hpa) as Hw.
    inversion Hw as [|? ? ? ? ? Hj Hw1]; subst.
    split; [exact Hj|]. split; [exact Hw1|]. split.
    - pose proof (isoa_twalk_lexmin g wts Hsg Hpos x t _ u Ht Hpa) as Hl.
      apply (lc_lexmin_sub g wts Hsg Hpos [(f, x')] pa1 [] x x' u u).
      + rewrite app_nil_r. exact Hl.
      + econstructor; [exact Hj|]. constructor. apply (gl_simple_joins g f x x' Hsg Hj).
      + exact Hw1.
    - split; [eapply isoa_first_hd; eauto|].
      apply (proj1 (isoa_twalk_iff g wts x t _ _ Ht)) in Hpa.
      destruct (cz_step_node g t x _ u Hpa f x') as [nd [H1 H2]]; [left; reflexivity|].
      exists nd. auto.
  Qed.

  (* P(y,z) = (y -f- a) ++ P(a,z) when a is the first label of z in the tree of y *)
  Lemma isoa_lexmin_first y ty z a q0 f : sptree_Z g wts y = LxOk ty -> y <> z -> sp_first Z ty z = a ->
    lc_lexmin g wts a q0 z -> joins g f y a -> lc_lexmin g wts y ((f, a) :: q0) z.
  Proof.
    intros Hty Hyz Hf Hq0 Hj.
    assert (Hw : walk g y ((f, a) :: q0) z) by (econstructor; [exact Hj|apply (iso_lexmin_walk g wts _ _ _ Hq0)]).
    destruct (iso_lexmin_exists g wts Hsg Hpos y z (ex_intro _ _ Hw)) as [p Hp].
    pose proof (isoa_lexmin_twalk g wts Hsg Hpos y ty p z Hty Hp) as Htw.
    pose proof (iso_lexmin_walk g wts _ _ _ Hp) as Hwp.
    destruct p as [|[f' a'] q].
    - inversion Hwp; subst. congruence.
    - rewrite (isoa_first_hd g wts y ty f' a' q z Hty Htw) in Hf. subst a'.
      inversion Hwp as [|? ? ? ? ? Hj' Hwq]; subst.
      assert (Ef : f' = f) by (apply (lc_joins_unique g f' f y a Hsg Hj' Hj)). subst f'.
      assert (Hlq : lc_lexmin g wts a q z).
      { apply (lc_lexmin_sub g wts Hsg Hpos [(f, a)] q [] y a z z); [rewrite app_nil_r; exact Hp| |exact Hwq].
        econstructor; [exact Hj|]. constructor. apply (gl_simple_joins g f y a Hsg Hj). }
      rewrite <- (lc_lexmin_unique g wts Hsg Hpos q q0 a z Hlq Hq0). exact Hp.
  Qed.

  (* a rotation of a node walk that is a representation is found by the look-up *)
  Lemma isoa_link_found x w y e' a b pa' pb' : iso_cycle_walk g x w -> y < nv g ->
    ends g e' = Some (a, b) -> lc_lexmin g wts y pa' a -> lc_lexmin g wts y pb' b ->
    iso_rot_of g x w y (pa' ++ (e', b) :: lc_rev y pb') ->
    exists j c' w', cd_lookup Z y e' cv 0 None = Some j /\ nth_error cv j = Some c' /\
      isoa_node_walk g wts trees c' y w' /\ iso_rot_of g x w y w'.
  Proof.
    intros Hcw Hy He Ha Hb Hrot.
    destruct (isoa_node_exists g wts Hsg Hpos trees allcycles Hh y e' a b pa' pb' Hy He Ha Hb)
      as (j & c' & Hl & Hj & _ & _ & Hnw).
    { eapply isor_cycle_walk; eauto. }
    exists j, c', (pa' ++ (e', b) :: lc_rev y pb'). auto.
  Qed.

  Theorem isoa_link i c x w : nth_error cv i = Some c -> isoa_node_walk g wts trees c x w ->
    exists l, cd_link_of Z g trees cv c = CdOk l /\
      (l = LinkBad \/ exists j c' y w', l = LinkTo j /\ nth_error cv j = Some c' /\
                        isoa_node_walk g wts trees c' y w' /\ iso_rot_of g x w y w').
  Proof.
    intros Hi Hnw. pose proof (nth_error_In _ _ Hi) as Hc.
    destruct (isoa_node g wts Hsg Hpos trees allcycles Hh c Hc) as (x0 & w0 & Hnw0 & Hx & Hcw & _).
    destruct (isoa_node_walk_fun g wts trees c x0 w0 x w Hnw0 Hnw) as [-> ->]. clear Hnw0.
    destruct Hnw as (t & u & v & pa & pb & Hn & Hxc & Ht & He & Hpa & Hpb & Hw). subst w.
    apply isoa_cv_In in Hc as [_ Hcirc]. unfold cd_is_circuit in Hcirc. rewrite Hn, He in Hcirc.
    apply negb_true_iff in Hcirc.
    unfold cd_link_of. rewrite Hn, He. cbv zeta.
    set (e := c_edge c) in *.
    destruct (isoa_tree_src g wts x t Ht) as [Hsrc _].
    assert (Hjuv : joins g e u v) by (left; exact He).
    destruct (gl_simple_joins g e u v Hsg Hjuv) as (Hu & Hv & Huv).
    pose proof (isoa_twalk_walk g wts x t pa u Ht Hpa) as Hwa.
    pose proof (isoa_twalk_walk g wts x t pb v Ht Hpb) as Hwb.
    pose proof (isoa_twalk_lexmin g wts Hsg Hpos x t pa u Ht Hpa) as Hla.
    pose proof (isoa_twalk_lexmin g wts Hsg Hpos x t pb v Ht Hpb) as Hlb.
    pose proof (lc_rev_walk g Hsg pb x v Hwb) as Hwrb.
    pose proof (lc_lexmin_rev g wts Hsg pb x v Hlb) as Hlrb.
    pose proof Hcw as (Hww & HndV & _ & _).
    rewrite Hsrc, Hcirc.
    destruct (Nat.eqb_spec x u) as [Exu|Nxu].
    - (* the root is the source of the edge *)
      subst u. pose proof (isoa_twalk_root g wts x t pa Ht Hpa) as ->. cbn [app] in Hcw, Hww |- *.
      destruct (isoa_link_found x _ v e x v (lc_rev x pb) [] Hcw Hv He Hlrb (lc_lexmin_nil g wts Hpos v Hv))
        as (j & c' & w' & Hl & Hj & Hnw' & Hrot').
      { cbn [lc_rev]. apply (isor_rot g x [(e, v)] (lc_rev x pb) v); [exact Hww|].
        econstructor; [exact Hjuv|constructor; exact Hv]. }
      rewrite Hl. exists (LinkTo j). split; [reflexivity|]. right. exists j, c', v, w'. auto.
    - destruct pa as [|[f x'] pa1].
      { inversion Hwa; subst. congruence. }
      destruct (isoa_head_step x t f x' pa1 u Ht Hpa) as (Hjf & Hwa1 & Hla1 & Hfu & nd & Hnd & Hpred).
      rewrite Hfu.
      destruct (gl_simple_joins g f x x' Hsg Hjf) as (_ & Hx' & Hxx').
      destruct (isoa_tree_exists g wts Hsg Hpos trees allcycles Hh x' Hx') as [tx' [Hnx' Htx']].
      rewrite Hnx'.
      assert (Hvx' : x' <> v).
      { intros <-. rewrite lc_wverts_app in HndV. apply (lc_nodup_app_disj _ _ x' HndV).
        - rewrite lc_wverts_cons. left; reflexivity.
        - rewrite lc_wverts_cons. left; reflexivity. }
      destruct (Nat.eqb_spec x (sp_first Z tx' v)) as [E1|N1].
      + (* the partner is (x', e) *)
        assert (Hl1 : lc_lexmin g wts x' ((f, x) :: pb) v).
        { apply (isoa_lexmin_first x' tx' v x pb f Htx'); auto. apply gl_joins_sym; exact Hjf. }
        destruct (isoa_link_found x _ x' e u v pa1 ((f, x) :: pb) Hcw Hx' He Hla1 Hl1)
          as (j & c' & w' & Hl & Hj & Hnw' & Hrot').
        { cbn [lc_rev].
          replace (pa1 ++ (e, v) :: lc_rev x pb ++ [(f, x')]) with ((pa1 ++ (e, v) :: lc_rev x pb) ++ [(f, x')])
            by (rewrite <- app_assoc; reflexivity).
          apply (isor_rot g x [(f, x')] (pa1 ++ (e, v) :: lc_rev x pb) x'); [exact Hww|].
          econstructor; [exact Hjf|constructor; exact Hx']. }
        rewrite Hl. exists (LinkTo j). split; [reflexivity|]. right. exists j, c', x', w'. auto.
      + destruct (isoa_tree_exists g wts Hsg Hpos trees allcycles Hh v Hv) as [tv [Hnv Htv]].
        rewrite Hnv.
        destruct (Nat.eqb_spec u (sp_first Z tv x')) as [E2|N2].
        * (* the partner is (v, f) *)
          rewrite Hnd, Hpred.
          assert (Hl2 : lc_lexmin g wts v ((e, u) :: lc_rev x' pa1) x').
          { apply (isoa_lexmin_first v tv x' u (lc_rev x' pa1) e Htv); auto.
            - apply lc_lexmin_rev; auto.
            - apply gl_joins_sym; exact Hjuv. }
          pose proof (iso_lexmin_walk g wts _ _ _ Hl2) as Hw2.
          assert (EW1 : lc_rev x pb ++ (f, x') :: lc_rev v ((e, u) :: lc_rev x' pa1) =
                        lc_rev x pb ++ (((f, x') :: pa1) ++ [(e, v)])).
          { cbn [lc_rev app]. rewrite (lc_rev_invol g Hsg pa1 x' u Hwa1). reflexivity. }
          assert (EW : ((f, x') :: pa1) ++ (e, v) :: lc_rev x pb = (((f, x') :: pa1) ++ [(e, v)]) ++ lc_rev x pb)
            by (rewrite <- app_assoc; reflexivity).
          assert (Hw1v : walk g x (((f, x') :: pa1) ++ [(e, v)]) v).
          { eapply gl_walk_app; [exact Hwa|]. econstructor; [exact Hjuv|constructor; exact Hv]. }
          destruct Hjf as [Hef|Hef].
          -- destruct (isoa_link_found x _ v f x x' (lc_rev x pb) ((e, u) :: lc_rev x' pa1) Hcw Hv Hef Hlrb Hl2)
               as (j & c' & w' & Hl & Hj & Hnw' & Hrot').
             { rewrite EW1, EW. apply isor_rot; [rewrite <- EW; exact Hww|exact Hw1v]. }
             rewrite Hl. exists (LinkTo j). split; [reflexivity|]. right. exists j, c', v, w'. auto.
          -- destruct (isoa_link_found x _ v f x' x ((e, u) :: lc_rev x' pa1) (lc_rev x pb) Hcw Hv Hef Hl2 Hlrb)
               as (j & c' & w' & Hl & Hj & Hnw' & Hrot').
             { rewrite <- (iso_rep_mirror g Hsg v (lc_rev x pb) f x x' ((e, u) :: lc_rev x' pa1) Hwrb Hw2
                             (or_intror Hef)).
               rewrite EW1, EW. apply isor_rot_rev; [rewrite <- EW; exact Hww|exact Hw1v]. }
             rewrite Hl. exists (LinkTo j). split; [reflexivity|]. right. exists j, c', v, w'. auto.
        * exists LinkBad. split; [reflexivity|left; reflexivity].
  Qed.

  Lemma isoa_links_gen : forall todo, (forall c, In c todo -> exists l, cd_link_of Z g trees cv c = CdOk l) ->
    exists links, cd_links Z g trees cv todo = CdOk links /\ length links = length todo /\
      forall i c, nth_error todo i = Some c ->
                  exists l, nth_error links i = Some l /\ cd_link_of Z g trees cv c = CdOk l.
  Proof.
    induction todo as [|c r IH]; intros H.
    - exists []. split; [reflexivity|]. split; [reflexivity|]. intros [|i] c Hc; discriminate.
    - destruct (H c (or_introl eq_refl)) as [l Hl].
      destruct IH as (ls & E & Hlen & Hnth); [intros c' Hc'; apply H; right; exact Hc'|].
      exists (l :: ls). cbn [cd_links]. rewrite Hl, E. split; [reflexivity|]. split; [cbn [length]; lia|].
      intros [|i] c' Hc'; cbn [nth_error] in Hc' |- *.
      + injection Hc' as <-. eauto.
      + apply Hnth; exact Hc'.
  Qed.

  Theorem isoa_links : exists links, cd_links Z g trees cv cv = CdOk links /\ length links = length cv /\
    forall i c, nth_error cv i = Some c ->
                exists l, nth_error links i = Some l /\ cd_link_of Z g trees cv c = CdOk l.
  Proof.
    apply isoa_links_gen. intros c Hc. destruct (In_nth_error _ _ Hc) as [i Hi].
    destruct (isoa_node g wts Hsg Hpos trees allcycles Hh c Hc) as (x & w & Hnw & _).
    destruct (isoa_link i c x w Hi Hnw) as [l [Hl _]]. eauto.
  Qed.
End Link.

Print Assumptions isoa_link.
Print Assumptions isoa_links.
