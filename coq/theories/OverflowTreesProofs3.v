(* OverflowTreesProofs3.v — C07, clause "overflows a signed integer", tree-based variants, part 3: whole runs.
   S = wsum g wts, wmax = the largest edge weight, N = number of emitted cycles = dimension of the cycle space.
     ovt_overflow_trees_accept   every ACCEPTED run of mcb_sva_trees (Horton / FVS / isometric builder; every resolution of the
                                 unstable std::sort): every sum formed — tentative distances of all trees, candidate weights,
                                 the running cycle_weight of every builder call of every phase, mcb_weight += w — lies in
                                 [0, S + wmax] or is a running total in [0, total]; total is the weight of EVERY minimum cycle
                                 basis, total <= N * S
     ovt_tbb_lookup_tr           one call of the TBB lookup, every pair of schedule trees, every identity weight wmaxv: all
                                 sums in [0, S], a found answer's weight in [0, S]
     ovt_tbb_phases_tr           the TBB phase loop
     ovt_overflow_trees_tbb      the TBB entry point, every schedule bit stream, every arrangement of the candidates and
                                 EVERY value wmaxv of numeric_limits::max: the same bounds — in particular wmaxv is never an
                                 operand of a sum (the bounds do not depend on it)
   No axioms. *)
From Coq Require Import List Arith Bool ZArith Lia Permutation.
From Parmcb Require Import GraphModel GF2Model GraphSpec GraphLemmas McbSpec ForestModel SvaModel LexSPModel FvsModel
     CandidatesModel TreesModel SchedModel ParTreesModel TreesProofs5 IsoProofsF2 ParTreesProofs3
     OverflowProofs1 OverflowProofs3 OverflowProofs4 OverflowTreesModel OverflowTreesProofs1 OverflowTreesProofs2.
Import ListNotations.

Local Open Scope Z_scope.

(* the FVS builder needs a complete run of greedy_fvs under the pick oracle *)
Definition ovt_builder_ok (b : tbuilder) (g : graph) (picks : list nat) : Prop :=
  match b with TbFvs => exists fvs, greedy_fvs g picks = FvsOk fvs | _ => True end.

Lemma ovt_accept_builder_ok b g wts roots picks cycles total :
  mcb_sva_trees_accept_Z b g wts roots picks cycles = Some total -> ovt_builder_ok b g picks.
Proof.
  destruct b; cbn [ovt_builder_ok]; try (intros; exact I).
  unfold mcb_sva_trees_accept_Z, mcb_sva_trees_accept, mcb_sva_trees_replay, mcb_sva_trees.
  destruct (create_index g roots) as [fi|]; [|discriminate].
  cbn [tb_collection]. unfold fvs_cycles. destruct (greedy_fvs g picks) as [fvs| | |]; try discriminate.
  intros _. exists fvs. reflexivity.
Qed.

Lemma ovt_accept_min b g wts roots picks cycles total :
  simple_graph g -> positive_weights g wts -> (forall v, (v < nv g)%nat -> In v roots) ->
  mcb_sva_trees_accept_Z b g wts roots picks cycles = Some total ->
  min_cycle_basis g wts cycles /\ total = total_weight wts cycles.
Proof.
  intros Hs Hpw Hr Hacc. pose proof (ovt_accept_builder_ok b g wts roots picks cycles total Hacc) as Hb.
  destruct b; cbn [ovt_builder_ok] in Hb.
  - apply (proj1 (tf_C02_horton_trees g wts roots picks Hs Hpw Hr) cycles total Hacc).
  - destruct Hb as [fvs Hf]. apply (proj1 (tf_C02_fvs_trees g wts roots picks fvs Hs Hpw Hr Hf) cycles total Hacc).
  - apply (proj1 (iso_C02_iso_trees g wts roots picks Hs Hpw Hr) cycles total Hacc).
Qed.

(* weight facts about a minimum cycle basis *)
Lemma ovt_min_basis_facts g wts cycles : positive_weights g wts -> min_cycle_basis g wts cycles ->
  (forall B', min_cycle_basis g wts B' -> total_weight wts B' = total_weight wts cycles)
  /\ Forall (fun c => 0 <= weight wts c <= wsum g wts) cycles
  /\ 0 <= total_weight wts cycles <= Z.of_nat (length cycles) * wsum g wts.
Proof.
  intros Hpw [Hcb Hle]. pose proof Hcb as (Hsc & _ & _). split.
  { intros B' [Hcb' Hle']. specialize (Hle B' Hcb'). specialize (Hle' cycles Hcb). lia. }
  split.
  { eapply Forall_impl; [|exact Hsc]. cbv beta. intros c Hc. apply ov_simple_cycle_weight; assumption. }
  apply ov_total_weight_le; assumption.
Qed.

Theorem ovt_overflow_trees_accept :
  forall (b : tbuilder) (g : graph) (wts : list Z) (roots picks : list nat) (cycles : list (list nat)) (total : Z),
  simple_graph g -> positive_weights g wts -> (forall v, (v < nv g)%nat -> In v roots) ->
  mcb_sva_trees_accept_Z b g wts roots picks cycles = Some total ->
  fst (mcb_sva_trees_replay_tr b g wts roots picks cycles) = mcb_sva_trees_replay_Z b g wts roots picks cycles
  /\ min_cycle_basis g wts cycles /\ total = total_weight wts cycles
  /\ (forall B', min_cycle_basis g wts B' -> total_weight wts B' = total)
  /\ 0 <= total <= Z.of_nat (length cycles) * wsum g wts
  /\ Forall (fun v => 0 <= v <= wsum g wts + wmax wts \/ 0 <= v <= total)
            (snd (mcb_sva_trees_replay_tr b g wts roots picks cycles))
  /\ forall M, wsum g wts + wmax wts <= M -> total <= M ->
       Forall (fun v => 0 <= v <= M) (snd (mcb_sva_trees_replay_tr b g wts roots picks cycles)).
Proof.
  intros b g wts roots picks cycles total Hs Hpw Hr Hacc.
  destruct (ovt_accept_min b g wts roots picks cycles total Hs Hpw Hr Hacc) as [Hmin Etot].
  destruct (ovt_min_basis_facts g wts cycles Hpw Hmin) as (Huniq & _ & Hle). rewrite <- Etot in Huniq, Hle.
  split; [apply ovt_replay_erase|]. split; [exact Hmin|]. split; [exact Etot|]. split; [exact Huniq|].
  split; [exact Hle|].
  assert (Htr : Forall (fun v => 0 <= v <= wsum g wts + wmax wts \/ 0 <= v <= total)
                       (snd (mcb_sva_trees_replay_tr b g wts roots picks cycles))).
  { unfold mcb_sva_trees_accept_Z, mcb_sva_trees_accept in Hacc.
    pose proof (ovt_replay_erase b g wts roots picks cycles) as Eer. unfold mcb_sva_trees_replay_Z in Eer.
    destruct (mcb_sva_trees_replay Z 0 Z.add Z.ltb b g wts roots picks cycles) as [[cs T sup| | |]|]; try discriminate.
    destruct (Nat.eqb (length cycles) (length cs)); [|discriminate]. injection Hacc as ->.
    destruct (ovt_trees_tr g wts Hs Hpw b roots picks
                (fun trees cands fi => trees_search_accept_tr g wts trees cands fi cycles)
                (fun trees cands fi k Sv => ovt_search_accept_tr g wts Hpw trees cands fi cycles k Sv)) as [_ H2].
    exact (H2 cs total sup Eer). }
  split; [exact Htr|].
  intros M HM1 HM2. eapply Forall_impl; [|exact Htr]. cbv beta. intros v [Hv|Hv]; lia.
Qed.

(* ---- the TBB lookup ------------------------------------------------------------------------------------------------ *)

Section Tbb.
  Variables (g : graph) (wts : list Z).
  Hypothesis Hsg : simple_graph g.
  Hypothesis Hpw : positive_weights g wts.
  Local Notation S := (wsum g wts).
  Local Notation inS := (inrange (wsum g wts)).

  (* a running minimum / partial result: if it is a found cycle its weight is in [0, S] *)
  Definition ovt_good_acc (acc : tr_result (cyc3 Z)) : Prop :=
    match acc with TrOk r => c3_found Z r = true -> inS (c3_weight Z r) | _ => True end.

  Lemma ovt_body_step_tr trees pars sg sorted i acc : ovt_good_acc acc ->
    Forall inS (snd (pt_body_step_tr g wts trees pars sg sorted i acc))
    /\ ovt_good_acc (fst (pt_body_step_tr g wts trees pars sg sorted i acc)).
  Proof.
    intros Hacc. unfold pt_body_step_tr. destruct acc as [rm| | |]; try (split; [constructor|exact I]).
    destruct (nth_error sorted i) as [c|]; [|split; [constructor|exact I]]. cbv zeta. cbn [fst snd].
    destruct (ovt_build_limit_tr g wts Hpw trees pars sg c (c3_found Z rm) (c3_weight Z rm)) as [H1 H2].
    split; [exact H1|].
    destruct (fst (tc_build_limit_tr g wts trees pars sg c (c3_found Z rm) (c3_weight Z rm))) as [[cy w|]| | |];
      try exact I; [|exact Hacc].
    destruct (negb (c3_found Z rm) || Z.ltb w (c3_weight Z rm))%bool; [|exact Hacc].
    cbn [ovt_good_acc]. intros _. unfold c3_weight. cbn [fst snd]. eapply H2. reflexivity.
  Qed.

  Lemma ovt_chunk_tr trees pars sg sorted : forall is acc, ovt_good_acc acc ->
    Forall inS (snd (pt_chunk_tr g wts trees pars sg sorted is acc))
    /\ ovt_good_acc (fst (pt_chunk_tr g wts trees pars sg sorted is acc)).
  Proof.
    induction is as [|i is IH]; intros acc Hacc; cbn [pt_chunk_tr fst snd]; [split; [constructor|exact Hacc]|].
    destruct (ovt_body_step_tr trees pars sg sorted i acc Hacc) as [H1 H2].
    destruct (IH _ H2) as [H3 H4]. split; [apply Forall_app; split; assumption|exact H4].
  Qed.

  Lemma ovt_join_good a b : ovt_good_acc a -> ovt_good_acc b -> ovt_good_acc (pt_join_err Z Z.ltb a b).
  Proof.
    intros Ha Hb. destruct a as [x| | |], b as [y| | |]; cbn [pt_join_err]; try exact I.
    cbn [ovt_good_acc] in *. unfold pt_cycle_min.
    destruct (negb (c3_found Z x) || negb (c3_found Z y))%bool.
    - destruct (c3_found Z x) eqn:Ex; [intros _; apply Ha; reflexivity|exact Hb].
    - destruct (negb (Z.ltb (c3_weight Z y) (c3_weight Z x))); assumption.
  Qed.

  Lemma ovt_ident_good wmaxv : ovt_good_acc (TrOk (pt_ident Z wmaxv)).
  Proof. cbn [ovt_good_acc]. unfold pt_ident, c3_found. cbn [snd]. discriminate. Qed.

  Lemma ovt_reduce_tr wmaxv trees pars sg sorted : forall t lo acc, ovt_good_acc acc ->
    Forall inS (snd (pt_reduce_tr wmaxv g wts trees pars sg sorted t lo acc))
    /\ ovt_good_acc (fst (pt_reduce_tr wmaxv g wts trees pars sg sorted t lo acc)).
  Proof.
    induction t as [len|rf a IHa b IHb|rf a IHa b IHb]; intros lo acc Hacc; cbn [pt_reduce_tr fst snd].
    - apply ovt_chunk_tr. exact Hacc.
    - destruct (IHa lo acc Hacc) as [H1 H2]. destruct (IHb (lo + size a)%nat _ H2) as [H3 H4].
      split; [apply Forall_app; split; assumption|exact H4].
    - destruct (IHa lo acc Hacc) as [H1 H2].
      destruct (IHb (lo + size a)%nat _ (ovt_ident_good wmaxv)) as [H3 H4].
      split; [apply Forall_app; split; assumption|apply ovt_join_good; assumption].
  Qed.

  Lemma ovt_tbb_lookup_sched_tr wmaxv trees sorted sg t1 t2 pars0 :
    Forall inS (snd (pt_lookup_sched_tr wmaxv g wts trees sorted sg t1 t2 pars0))
    /\ forall c w pars, fst (pt_lookup_sched_tr wmaxv g wts trees sorted sg t1 t2 pars0) = TrOk ((c, w, true), pars) -> inS w.
  Proof.
    unfold pt_lookup_sched_tr.
    match goal with |- context [parallel_for ?a ?b ?c ?d ?e] => destruct (parallel_for a b c d e) as [pars| | |] end;
      try (split; [constructor|discriminate]).
    cbv zeta. cbn [fst snd].
    destruct (ovt_reduce_tr wmaxv trees pars sg sorted t2 0%nat _ (ovt_ident_good wmaxv)) as [H1 H2].
    split; [exact H1|]. intros c w pars' E.
    destruct (fst (pt_reduce_tr wmaxv g wts trees pars sg sorted t2 0%nat (TrOk (pt_ident Z wmaxv)))) as [x| | |];
      try discriminate.
    injection E as -> _. cbn [ovt_good_acc] in H2. apply H2. reflexivity.
  Qed.

  Lemma ovt_tbb_lookup_tr wmaxv bits trees sorted sg pos pars0 :
    Forall inS (snd (pt_lookup_tr wmaxv bits g wts trees sorted sg pos pars0))
    /\ forall c w pars p, fst (pt_lookup_tr wmaxv bits g wts trees sorted sg pos pars0) = (TrOk ((c, w, true), pars), p) ->
                          inS w.
  Proof.
    unfold pt_lookup_tr.
    destruct (sched_of_bits bits pos (length trees)) as [t1 p1]. destruct (sched_of_bits bits p1 (length sorted)) as [t2 p2].
    cbv zeta. cbn [fst snd]. destruct (ovt_tbb_lookup_sched_tr wmaxv trees sorted sg t1 t2 pars0) as [H1 H2].
    split; [exact H1|]. intros c w pars p E. injection E as E _. eapply H2. exact E.
  Qed.

  (* the phase loop *)
  Lemma ovt_tbb_phases_tr wmaxv bits fi trees sorted : forall ks sup pos pars acc total j,
    0 <= total <= Z.of_nat j * S ->
    Forall (fun v => inS v \/ 0 <= v <= Z.of_nat (j + length ks) * S)
           (snd (pt_phases_tr wmaxv bits g wts fi trees sorted ks sup pos pars acc total))
    /\ forall cycles T sup' p,
         fst (pt_phases_tr wmaxv bits g wts fi trees sorted ks sup pos pars acc total) = (SvaOk cycles T sup', p) ->
         total <= T
         /\ Forall (fun v => inS v \/ total <= v <= T)
                   (snd (pt_phases_tr wmaxv bits g wts fi trees sorted ks sup pos pars acc total)).
  Proof.
    pose proof (ov_wsum_nonneg g wts Hpw) as HS0.
    induction ks as [|k ks IH]; intros sup pos pars acc total j Ht.
    - cbn [pt_phases_tr fst snd]. split; [constructor|]. intros cycles T sup' p E. injection E as _ <- _ _.
      split; [lia|constructor].
    - cbn [pt_phases_tr].
      destruct (ovt_tbb_lookup_tr wmaxv bits trees sorted (indices_to_edges fi (nth k sup [])) pos pars) as [Hv Hw].
      destruct (pt_lookup_tr wmaxv bits g wts trees sorted (indices_to_edges fi (nth k sup [])) pos pars) as [[r pos1] tr].
      cbn [fst snd] in Hv, Hw.
      assert (Hv' : forall Q : Z -> Prop, Forall (fun v => inS v \/ Q v) tr).
      { intros Q. eapply Forall_impl; [|exact Hv]. cbv beta. intros v H. left. exact H. }
      destruct r as [[[[c w] [|]] pars1]| | |]; cbn [fst snd]; try (split; [apply Hv'|discriminate]).
      specialize (Hw c w pars1 pos1 eq_refl). unfold inrange in Hw.
      assert (Ht' : 0 <= total + w <= Z.of_nat (Datatypes.S j) * S) by lia.
      specialize (IH (update_supports sup k (edges_to_indices fi c)) pos1 pars1 (c :: acc) (total + w) (Datatypes.S j) Ht').
      destruct (pt_phases_tr wmaxv bits g wts fi trees sorted ks (update_supports sup k (edges_to_indices fi c)) pos1 pars1
                             (c :: acc) (total + w)) as [[r' pos'] tr'].
      cbn [fst snd] in IH |- *. destruct IH as [IH1 IH2]. split.
      + apply Forall_app. split; [apply Hv'|]. constructor; [right; cbn [length]; nia|].
        eapply Forall_impl; [|exact IH1]. cbv beta. intros v [H|H]; [left; exact H|right]. cbn [length].
        replace (j + Datatypes.S (length ks))%nat with (Datatypes.S j + length ks)%nat by lia. exact H.
      + intros cycles T sup' p E. destruct (IH2 cycles T sup' p E) as [Hm Hf]. split; [lia|].
        apply Forall_app. split; [apply Hv'|]. constructor; [right; lia|].
        eapply Forall_impl; [|exact Hf]. cbv beta. intros v [H|H]; [left; exact H|right; lia].
  Qed.

  Lemma ovt_tbb_run_tr wmaxv bits fi trees sorted :
    Forall (fun v => inS v \/ 0 <= v <= Z.of_nat (fi_csd fi) * S) (snd (pt_run_tr wmaxv bits g wts fi trees sorted))
    /\ forall cycles T sup p, fst (pt_run_tr wmaxv bits g wts fi trees sorted) = (SvaOk cycles T sup, p) ->
         Forall (fun v => inS v \/ 0 <= v <= T) (snd (pt_run_tr wmaxv bits g wts fi trees sorted)).
  Proof.
    unfold pt_run_tr. cbv zeta.
    destruct (ovt_tbb_phases_tr wmaxv bits fi trees sorted (seq 0 (fi_csd fi)) (map (fun i => [i]) (seq 0 (fi_csd fi)))
                0%nat (pt_pars_init Z g trees) [] 0 0%nat) as [H1 H2]; [lia|].
    rewrite seq_length in H1. split; [exact H1|]. intros cycles T sup p E. apply (H2 cycles T sup p E).
  Qed.
End Tbb.

(* the TBB entry point: index and collection exist, and for every identity weight, bit stream and valid arrangement the run
   is good and every sum is bounded independently of the identity weight *)
Theorem ovt_overflow_trees_tbb :
  forall (b : tbuilder) (g : graph) (wts : list Z) (roots picks : list nat),
  simple_graph g -> positive_weights g wts -> (forall v, (v < nv g)%nat -> In v roots) -> ovt_builder_ok b g picks ->
  exists fi trees cands,
    create_index g roots = Some fi /\ tb_collection Z 0 Z.add Z.ltb b g wts picks = CdOk (trees, cands) /\
    forall (wmaxv : Z) (bits : list bool) (arr : list nat), pt_valid_arr arr (length cands) = true ->
    exists cycles total sup pos,
      mcb_sva_trees_tbb_Z wmaxv b g wts roots picks arr bits = (PtRun (SvaOk cycles total sup), pos)
      /\ fst (mcb_sva_trees_tbb_tr wmaxv b g wts roots picks arr bits) = (PtRun (SvaOk cycles total sup), pos)
      /\ min_cycle_basis g wts cycles /\ total = total_weight wts cycles
      /\ (forall B', min_cycle_basis g wts B' -> total_weight wts B' = total)
      /\ 0 <= total <= Z.of_nat (length cycles) * wsum g wts
      /\ Forall (fun v => 0 <= v <= wsum g wts + wmax wts \/ 0 <= v <= total)
                (snd (mcb_sva_trees_tbb_tr wmaxv b g wts roots picks arr bits))
      /\ forall M, wsum g wts + wmax wts <= M -> total <= M ->
           Forall (fun v => 0 <= v <= M) (snd (mcb_sva_trees_tbb_tr wmaxv b g wts roots picks arr bits)).
Proof.
  intros b g wts roots picks Hs Hpw Hr Hb.
  assert (Hstmt : ps_trees_tbb_stmt b g wts roots picks).
  { destruct b; cbn [ovt_builder_ok] in Hb.
    - apply ps_horton_trees_tbb; assumption.
    - destruct Hb as [fvs Hf]. eapply ps_fvs_trees_tbb; eassumption.
    - apply ps_iso_trees_tbb; assumption. }
  destruct Hstmt as (fi & trees & cands & Hfi & Hc & _ & Hentry).
  exists fi, trees, cands. split; [exact Hfi|]. split; [exact Hc|].
  intros wmaxv bits arr Harr.
  destruct (Hentry wmaxv bits arr Harr) as (r & pos & Erun & (cycles & total & sup & -> & Hmin & Etot & _ & _)).
  exists cycles, total, sup, pos. split; [exact Erun|].
  pose proof (ovt_tbb_erase wmaxv b g wts roots picks arr bits) as Eer. rewrite Erun in Eer.
  split; [exact Eer|]. split; [exact Hmin|]. split; [exact Etot|].
  destruct (ovt_min_basis_facts g wts cycles Hpw Hmin) as (Huniq & _ & Hle). rewrite <- Etot in Huniq, Hle.
  split; [exact Huniq|]. split; [exact Hle|].
  assert (Htr : Forall (fun v => 0 <= v <= wsum g wts + wmax wts \/ 0 <= v <= total)
                       (snd (mcb_sva_trees_tbb_tr wmaxv b g wts roots picks arr bits))).
  { unfold mcb_sva_trees_tbb_tr in Eer |- *. rewrite Hfi in Eer |- *. cbv zeta in Eer |- *.
    pose proof (ovt_collection_tr g wts Hs Hpw b picks) as Hcol.
    pose proof (ovt_collection_erase b g wts picks) as Ecol. rewrite Hc in Ecol.
    destruct (fst (tb_collection_tr b g wts picks)) as [[trees' cands']| | | |]; try discriminate.
    injection Ecol as -> ->.
    destruct (pt_arrange Z arr cands) as [sorted|]; [|discriminate].
    destruct (ovt_tbb_run_tr g wts Hpw wmaxv bits fi trees sorted) as [_ H2].
    destruct (pt_run_tr wmaxv bits g wts fi trees sorted) as [[r p] tr]. cbn [fst snd] in Eer, H2 |- *.
    injection Eer as -> ->. specialize (H2 cycles total sup pos eq_refl).
    apply Forall_app. split.
    - eapply Forall_impl; [|exact Hcol]. cbv beta. unfold inrange. intros v Hv. left. exact Hv.
    - eapply Forall_impl; [|exact H2]. cbv beta. unfold inrange. pose proof (ov_wmax_nonneg wts).
      intros v [Hv|Hv]; [left; lia|right; exact Hv]. }
  split; [exact Htr|].
  intros M HM1 HM2. eapply Forall_impl; [|exact Htr]. cbv beta. intros v [Hv|Hv]; lia.
Qed.
