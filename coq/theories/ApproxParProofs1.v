(* ApproxParProofs1.v — the TBB dropped-edge builder (ApproxParModel.v) against the sequential one (ApproxModel.v), for
   EVERY schedule tree of the parallel_for, EVERY pair of insertion orders of the two concurrent_vectors and EVERY
   schedule tree of the parallel_reduce:

     pa_seq_collect        the sequential loop = `collect` (the per-edge results in list order) + running sum
     pa_par_collect        the parallel_for = `collect` over the dropped edges in EXECUTION order of the schedule
     pa_collect_perm       permuting the edges permutes the collected cycles and weights (and keeps failure)
     pa_shuffle_gen_perm   an explicit insertion order is a permutation of the pushed elements
     pa_sum_any_schedule   the parallel_reduce with identity 0, left-to-right accumulate and join + returns the plain
                           sum of the container for every schedule tree covering it (Seq: same body continues; Fork:
                           split body from the identity, joined afterwards) — never the range error
     pa_builder_same_as_seq   the statement of Properties_C03_approx.C03_approx_tbb_same_as_seq
     pa_builder_bits          the same for the trees read off a bit stream (tbb_builder)
   Prefix pa_.  No axioms. *)
From Coq Require Import List Arith Bool Lia ZArith Permutation.
From Parmcb Require Import GraphModel SpannerModel GraphSpec DijkstraModel ApproxModel SchedModel ParSignedModel SchedProofs
  ApproxProofsRun ApproxParModel.
Import ListNotations.

Definition sumZ (l : list Z) : Z := fold_right Z.add 0%Z l.

Lemma pa_sumZ_cons x a : sumZ (x :: a) = (x + sumZ a)%Z.
Proof. reflexivity. Qed.

Lemma pa_sumZ_app a b : sumZ (a ++ b) = (sumZ a + sumZ b)%Z.
Proof.
  induction a as [|x a IH]; [reflexivity|]. rewrite <- app_comm_cons, !pa_sumZ_cons, IH. lia.
Qed.

Lemma pa_sumZ_perm a b : Permutation a b -> sumZ a = sumZ b.
Proof.
  induction 1 as [|x a b _ IH|x y a|a b c _ IH1 _ IH2]; rewrite ?pa_sumZ_cons; try reflexivity.
  - rewrite IH. reflexivity.
  - lia.
  - congruence.
Qed.

Lemma pa_total_weight_sumZ w cs : total_weight w cs = sumZ (map (weight w) cs).
Proof. reflexivity. Qed.

(* ---- the per-edge results, collected in list order ---------------------------------------------------------------- *)
Section Builder.
  Variable g : graph.
  Variable w : list Z.
  Variable sp : spanner.

  Notation res := (dropped_cycle g w sp).

  Definition pa_ok (e : nat) : Prop := exists c cw, res e = inr (c, cw).
  Definition pa_cyc (e : nat) : list nat := match res e with inr (c, _) => c | inl _ => [] end.
  Definition pa_cw (e : nat) : Z := match res e with inr (_, cw) => cw | inl _ => 0%Z end.

  Fixpoint collect (es : list nat) : approx_error + (list (list nat) * list Z) :=
    match es with
    | [] => inr ([], [])
    | e :: es' =>
        match res e with
        | inl err => inl err
        | inr (c, cw) =>
            match collect es' with
            | inl err => inl err
            | inr (cs, ws) => inr (c :: cs, cw :: ws)
            end
        end
    end.

  Lemma pa_collect_ok es : Forall pa_ok es -> collect es = inr (map pa_cyc es, map pa_cw es).
  Proof.
    induction 1 as [|e es (c & cw & E) _ IH]; [reflexivity|].
    cbn [collect map]. unfold pa_cyc at 1, pa_cw at 1. rewrite E, IH. reflexivity.
  Qed.

  Lemma pa_collect_inr es cs ws : collect es = inr (cs, ws) -> Forall pa_ok es /\ cs = map pa_cyc es /\ ws = map pa_cw es.
  Proof.
    revert cs ws. induction es as [|e es IH]; intros cs ws H; cbn [collect] in H.
    - injection H as <- <-. repeat split. constructor.
    - destruct (res e) as [err|[c cw]] eqn:E; [discriminate|].
      destruct (collect es) as [err|[cs' ws']] eqn:E2; [discriminate|]. injection H as <- <-.
      destruct (IH cs' ws' eq_refl) as (F & -> & ->). split; [|split].
      + constructor; [exists c, cw; exact E|exact F].
      + cbn [map]. f_equal. unfold pa_cyc. rewrite E. reflexivity.
      + cbn [map]. f_equal. unfold pa_cw. rewrite E. reflexivity.
  Qed.

  Lemma pa_collect_inl es err : collect es = inl err -> ~ Forall pa_ok es.
  Proof. intros H F. rewrite (pa_collect_ok es F) in H. discriminate. Qed.

  Lemma pa_collect_dec es : (exists cs ws, collect es = inr (cs, ws)) \/ (exists err, collect es = inl err).
  Proof. destruct (collect es) as [err|[cs ws]]; [right; exists err|left; exists cs, ws]; reflexivity. Qed.

  (* permuting the edges: same multiset of cycles, same multiset of weights; a failing list stays failing *)
  Lemma pa_collect_perm es es' : Permutation es es' ->
    (forall cs ws, collect es = inr (cs, ws) ->
       exists cs' ws', collect es' = inr (cs', ws') /\ Permutation cs cs' /\ Permutation ws ws') /\
    (forall err, collect es = inl err -> exists err', collect es' = inl err').
  Proof.
    intros HP. split.
    - intros cs ws H. destruct (pa_collect_inr es cs ws H) as (F & -> & ->).
      assert (F' : Forall pa_ok es') by (eapply Permutation_Forall; eauto).
      exists (map pa_cyc es'), (map pa_cw es'). split; [apply pa_collect_ok; exact F'|].
      split; apply Permutation_map; exact HP.
    - intros err H. destruct (pa_collect_dec es') as [(cs' & ws' & E)|(err' & E)]; [|exists err'; exact E].
      exfalso. apply (pa_collect_inl es err H). destruct (pa_collect_inr es' cs' ws' E) as (F & _).
      eapply Permutation_Forall; [apply Permutation_sym; exact HP|exact F].
  Qed.

  (* the sequential loop of ApproxModel *)
  Lemma pa_seq_collect : forall ds total,
    dropped_cycles g w sp ds total =
    match collect ds with
    | inl err => inl err
    | inr (cs, ws) => inr (cs, (total + sumZ ws)%Z)
    end.
  Proof.
    induction ds as [|e ds IH]; intros total; cbn [dropped_cycles collect].
    - cbn [sumZ fold_right]. rewrite Z.add_0_r. reflexivity.
    - destruct (res e) as [err|[c cw]]; [reflexivity|]. rewrite IH.
      destruct (collect ds) as [err|[cs ws]]; [reflexivity|]. cbn [sumZ fold_right]. fold (sumZ ws).
      rewrite Z.add_assoc. reflexivity.
  Qed.

  (* every collected weight is the weight of its cycle under the caller's weights *)
  Lemma pa_cw_weight es : Forall pa_ok es -> map pa_cw es = map (weight w) (map pa_cyc es).
  Proof.
    induction 1 as [|e es (c & cw & E) _ IH]; [reflexivity|]. cbn [map]. rewrite IH. f_equal.
    unfold pa_cw, pa_cyc. rewrite E. exact (ap_dropped_cycle_weight g w sp e c cw E).
  Qed.

  (* ---- the parallel_for ------------------------------------------------------------------------------------------ *)
  Variable ds : list nat.

  Lemma pa_iter_err idxs err : fold_left (tbb_iter g w sp ds) idxs (inl err) = inl err.
  Proof. induction idxs as [|i idxs IH]; [reflexivity|]. cbn [fold_left tbb_iter]. exact IH. Qed.

  Lemma pa_iter_collect : forall idxs C W, Forall (fun i => i < length ds) idxs ->
    fold_left (tbb_iter g w sp ds) idxs (inr (C, W)) =
    match collect (map (fun i => nth i ds 0) idxs) with
    | inl err => inl (TbbSeq err)
    | inr (cs, ws) => inr (C ++ cs, W ++ ws)
    end.
  Proof.
    induction idxs as [|i idxs IH]; intros C W HF.
    - cbn [fold_left map collect]. rewrite !app_nil_r. reflexivity.
    - inversion HF as [|? ? Hi HF']; subst. cbn [fold_left map collect]. unfold tbb_iter at 2.
      rewrite (nth_error_nth' ds 0 Hi).
      destruct (res (nth i ds 0)) as [err|[c cw]]; [apply pa_iter_err|].
      rewrite (IH _ _ HF'). destruct (collect _) as [err|[cs ws]]; [reflexivity|].
      rewrite <- !app_assoc. reflexivity.
  Qed.

  Lemma pa_chunks_flat (cs : list (nat * nat)) : forall st,
    fold_left (fun st c => tbb_chunk g w sp ds (fst c) (snd c) st) cs st =
    fold_left (tbb_iter g w sp ds) (flat_map (fun c => seq (fst c) (snd c)) cs) st.
  Proof.
    induction cs as [|c cs IH]; intros st; [reflexivity|].
    cbn [fold_left flat_map]. rewrite fold_left_app, IH. reflexivity.
  Qed.

  Lemma pa_par_collect t1 : size t1 = length ds ->
    parallel_for cv_state (tbb_chunk g w sp ds) t1 0 (inr ([], [])) =
    match collect (map (fun i => nth i ds 0) (exec_order t1 0)) with
    | inl err => inl (TbbSeq err)
    | inr (cs, ws) => inr (cs, ws)
    end.
  Proof.
    intros Hs. unfold parallel_for. rewrite pa_chunks_flat. fold (exec_order t1 0).
    rewrite pa_iter_collect; [reflexivity|].
    apply Forall_forall. intros i Hi. apply exec_order_In in Hi. lia.
  Qed.
End Builder.

(* the list re-read through its own indices *)
Lemma pa_map_nth_seq {A} (d : A) (l : list A) : map (fun i => nth i l d) (seq 0 (length l)) = l.
Proof.
  induction l as [|x l IH]; [reflexivity|]. cbn [length seq map nth]. f_equal.
  rewrite <- seq_shift, map_map. exact IH.
Qed.

Lemma pa_exec_edges_perm t1 (ds : list nat) : size t1 = length ds ->
  Permutation ds (map (fun i => nth i ds 0) (exec_order t1 0)).
Proof.
  intros Hs. rewrite <- (pa_map_nth_seq 0 ds) at 1. apply Permutation_map. apply Permutation_sym.
  rewrite <- Hs. apply exec_order_perm.
Qed.

(* ---- explicit insertion orders ------------------------------------------------------------------------------------- *)
Lemma pa_shuffle_gen_perm {A} (d : A) perm (E : list A) : Permutation (shuffle_gen d perm E) E.
Proof.
  unfold shuffle_gen. destruct (valid_perm perm (length E)) eqn:Hv; [|apply Permutation_refl].
  apply Permutation_trans with (map (fun p => nth p E d) (seq 0 (length E))).
  - apply Permutation_map, valid_perm_Permutation. exact Hv.
  - rewrite pa_map_nth_seq. apply Permutation_refl.
Qed.

Lemma pa_shuffle_gen_length {A} (d : A) perm (E : list A) : length (shuffle_gen d perm E) = length E.
Proof. apply Permutation_length, pa_shuffle_gen_perm. Qed.

(* ---- the parallel_reduce -------------------------------------------------------------------------------------------- *)
Section Sum.
  Variable ws : list Z.

  Definition rsum (lo len : nat) : Z := sumZ (map (fun i => nth i ws 0%Z) (seq lo len)).

  Lemma pa_rsum_split lo a b : rsum lo (a + b) = (rsum lo a + rsum (lo + a) b)%Z.
  Proof. unfold rsum. rewrite seq_app, map_app, pa_sumZ_app. reflexivity. Qed.

  Lemma pa_run_chunk : forall len lo a, lo + len <= length ws ->
    run_chunk (option Z) (sum_step ws) lo len (Some a) = Some (a + rsum lo len)%Z.
  Proof.
    unfold run_chunk. induction len as [|len IH]; intros lo a Hb.
    - cbn. rewrite Z.add_0_r. reflexivity.
    - cbn [seq fold_left]. unfold sum_step at 2. rewrite (nth_error_nth' ws 0%Z) by lia.
      rewrite IH by lia. unfold rsum. cbn [seq map sumZ fold_right]. f_equal. fold (sumZ (map (fun i => nth i ws 0%Z) (seq (S lo) len))). lia.
  Qed.

  Lemma pa_eval_sum : forall t lo a, lo + size t <= length ws ->
    eval_reduce (option Z) (sum_step ws) sum_join (Some 0%Z) t lo (Some a) = Some (a + rsum lo (size t))%Z.
  Proof.
    induction t as [len|rf x IHx y IHy|rf x IHx y IHy]; intros lo a Hb; cbn [eval_reduce size] in *.
    - apply pa_run_chunk. exact Hb.
    - rewrite IHx by lia. rewrite IHy by lia. rewrite pa_rsum_split. f_equal. lia.
    - rewrite IHx by lia. rewrite IHy by lia. cbn [sum_join]. rewrite pa_rsum_split. f_equal. lia.
  Qed.

  (* every schedule tree covering the container: the plain sum *)
  Theorem pa_sum_any_schedule t2 : size t2 = length ws -> tbb_sum t2 ws = Some (sumZ ws).
  Proof.
    intros Hs. unfold tbb_sum, parallel_reduce. rewrite pa_eval_sum by lia.
    unfold rsum. rewrite Hs, pa_map_nth_seq. reflexivity.
  Qed.
End Sum.

(* ---- the builder: any trees, any pair of insertion orders --------------------------------------------------------- *)
Theorem pa_fill_same_as_seq g w sp (t1 : sched) (perm_c perm_w : list nat) :
  size t1 = length (dropped sp) ->
  (forall dcs dw, dropped_cycles g w sp (dropped sp) 0%Z = inr (dcs, dw) ->
     exists cycles' weights',
       tbb_fill g w sp (dropped sp) t1 perm_c perm_w = inr (cycles', weights')
       /\ Permutation dcs cycles'
       /\ Permutation (map (weight w) dcs) weights'
       /\ sumZ weights' = dw) /\
  (forall err, dropped_cycles g w sp (dropped sp) 0%Z = inl err ->
     exists err', tbb_fill g w sp (dropped sp) t1 perm_c perm_w = inl (TbbSeq err')).
Proof.
  intros Hs. set (ds := dropped sp) in *.
  pose proof (pa_exec_edges_perm t1 ds Hs) as HPe.
  destruct (pa_collect_perm g w sp _ _ HPe) as (Hok & Hbad).
  unfold tbb_fill. rewrite (pa_par_collect g w sp ds t1 Hs). rewrite (pa_seq_collect g w sp ds 0%Z). split.
  - intros dcs dw H. destruct (collect g w sp ds) as [err|[cs ws]] eqn:E; [discriminate|]. injection H as <- <-.
    destruct (Hok cs ws eq_refl) as (cs' & ws' & E' & P1 & P2). rewrite E'.
    exists (shuffle_gen [] perm_c cs'), (shuffle_gen 0%Z perm_w ws'). split; [reflexivity|].
    destruct (pa_collect_inr g w sp ds cs ws E) as (F & Ecs & Ews).
    split; [|split].
    + eapply Permutation_trans; [exact P1|apply Permutation_sym, pa_shuffle_gen_perm].
    + rewrite Ecs, <- (pa_cw_weight g w sp ds F), <- Ews.
      eapply Permutation_trans; [exact P2|apply Permutation_sym, pa_shuffle_gen_perm].
    + rewrite (pa_sumZ_perm _ _ (pa_shuffle_gen_perm 0%Z perm_w ws')), <- (pa_sumZ_perm _ _ P2). lia.
  - intros err H. destruct (collect g w sp ds) as [err0|[cs ws]] eqn:E; [|discriminate].
    destruct (Hbad err0 eq_refl) as (err' & E'). rewrite E'. exists err'. reflexivity.
Qed.

(* = Properties_C03_approx.C03_approx_tbb_same_as_seq *)
Theorem pa_builder_same_as_seq g w sp (t1 t2 : sched) (perm_c perm_w : list nat) dcs dw :
  size t1 = length (dropped sp) -> size t2 = length (dropped sp) ->
  dropped_cycles g w sp (dropped sp) 0%Z = inr (dcs, dw) ->
  exists cycles' weights',
    tbb_fill g w sp (dropped sp) t1 perm_c perm_w = inr (cycles', weights')
    /\ Permutation dcs cycles'
    /\ Permutation (map (weight w) dcs) weights'
    /\ tbb_sum t2 weights' = Some dw.
Proof.
  intros H1 H2 Hseq.
  destruct (pa_fill_same_as_seq g w sp t1 perm_c perm_w H1) as (Hok & _).
  destruct (Hok dcs dw Hseq) as (cycles' & weights' & E & P1 & P2 & Hsum).
  exists cycles', weights'. split; [exact E|]. split; [exact P1|]. split; [exact P2|].
  rewrite pa_sum_any_schedule; [rewrite Hsum; reflexivity|].
  rewrite <- (Permutation_length P2), map_length, H2.
  rewrite (pa_seq_collect g w sp (dropped sp) 0%Z) in Hseq.
  destruct (collect g w sp (dropped sp)) as [err|[cs ws]] eqn:Ec; [discriminate|]. injection Hseq as <- _.
  destruct (pa_collect_inr g w sp _ _ _ Ec) as (_ & -> & _). symmetry. apply map_length.
Qed.

(* the trees the shim reads off the stream: tbb_builder *)
Theorem pa_builder_bits bits g w sp pos perm_c perm_w :
  (forall dcs dw, dropped_cycles g w sp (dropped sp) 0%Z = inr (dcs, dw) ->
     exists cycles' pos', tbb_builder bits g w sp pos perm_c perm_w = (inr (cycles', dw), pos') /\ Permutation dcs cycles') /\
  (forall err, dropped_cycles g w sp (dropped sp) 0%Z = inl err ->
     exists err' pos', tbb_builder bits g w sp pos perm_c perm_w = (inl (TbbSeq err'), pos')).
Proof.
  unfold tbb_builder.
  destruct (sched_of_bits bits pos (length (dropped sp))) as [t1 pos1] eqn:E1.
  assert (H1 : size t1 = length (dropped sp)).
  { pose proof (sched_of_bits_size bits pos (length (dropped sp))) as H. rewrite E1 in H. exact H. }
  split.
  - intros dcs dw Hseq.
    destruct (pa_fill_same_as_seq g w sp t1 perm_c perm_w H1) as (Hok & _).
    destruct (Hok dcs dw Hseq) as (cycles' & weights' & E & P1 & P2 & Hsum). rewrite E.
    destruct (sched_of_bits bits pos1 (length weights')) as [t2 pos2] eqn:E2.
    assert (H2 : size t2 = length weights').
    { pose proof (sched_of_bits_size bits pos1 (length weights')) as H. rewrite E2 in H. exact H. }
    rewrite (pa_sum_any_schedule weights' t2 H2), Hsum. exists cycles', pos2. split; [reflexivity|exact P1].
  - intros err Hseq.
    destruct (pa_fill_same_as_seq g w sp t1 perm_c perm_w H1) as (_ & Hbad).
    destruct (Hbad err Hseq) as (err' & E). rewrite E. exists err', pos1. reflexivity.
Qed.

Print Assumptions pa_sum_any_schedule.
Print Assumptions pa_builder_same_as_seq.
Print Assumptions pa_builder_bits.
