(* IsoProofsB.v — the tail of the ISO cycle builder model (CandidatesModel.iso_cycles) is total and correct:
     adjacency construction (cd_adj), connected components by fuelled DFS (cd_dfs / cd_components),
     bad-component marking (cd_mark_bad) and the output loop (cd_iso_out).
   Pure list / DFS programming; no graph theory.  Prefix isob_.
     isob_components   the component labelling succeeds with the model's fuel, labels every vertex, and two
                       vertices with the same label are connected through links (soundness only)
     isob_mark_bad     badc[k] <-> component k contains a LinkBad vertex
     isob_out          the output loop succeeds, emits a sub-list of cv and one vertex of every good component
     isob_tail         the combination *)
From Coq Require Import List Arith Bool Lia.
From Parmcb Require Import GraphModel CandidatesModel.
Import ListNotations.

(* ---- small list facts --------------------------------------------------------------------------- *)

Lemma isob_set_nth_length {A} (l : list A) : forall i x, length (set_nth l i x) = length l.
Proof.
  induction l as [|y l IH]; intros [|i] x; cbn [set_nth length]; try reflexivity.
  rewrite IH. reflexivity.
Qed.

Lemma isob_nth_set_nth_eq {A} (l : list A) : forall i x d, i < length l -> nth i (set_nth l i x) d = x.
Proof.
  induction l as [|y l IH]; intros [|i] x d H; cbn [length] in H; cbn [set_nth nth]; try lia; try reflexivity.
  apply IH. lia.
Qed.

Lemma isob_nth_set_nth_neq {A} (l : list A) : forall i j x d, j <> i -> nth j (set_nth l i x) d = nth j l d.
Proof.
  induction l as [|y l IH]; intros [|i] [|j] x d H; cbn [set_nth nth]; try reflexivity; try lia.
  apply IH. lia.
Qed.

Lemma isob_set_nth_oob {A} (l : list A) : forall i x, length l <= i -> set_nth l i x = l.
Proof.
  induction l as [|y l IH]; intros [|i] x H; cbn [length] in H; cbn [set_nth]; try reflexivity; try lia.
  rewrite IH by lia. reflexivity.
Qed.

Lemma isob_nth_set_nth_cases {A} (l : list A) i j x d :
  (nth j (set_nth l i x) d = x /\ j = i /\ i < length l) \/ nth j (set_nth l i x) d = nth j l d.
Proof.
  destruct (Nat.eq_dec j i) as [->|Hne].
  - destruct (lt_dec i (length l)) as [Hlt|Hge].
    + left. split; [apply isob_nth_set_nth_eq; exact Hlt|split; [reflexivity|exact Hlt]].
    + right. rewrite isob_set_nth_oob by lia. reflexivity.
  - right. apply isob_nth_set_nth_neq. exact Hne.
Qed.

Lemma isob_nth_const {A B} (a : A) (l : list B) : forall i, nth i (map (fun _ => a) l) a = a.
Proof.
  induction l as [|y l IH]; intros [|i]; cbn [map nth]; try reflexivity. apply IH.
Qed.

Lemma isob_enum_In {A} (l : list A) : forall k i x,
  In (i, x) (cd_enum k l) <-> k <= i /\ nth_error l (i - k) = Some x.
Proof.
  induction l as [|y l IH]; intros k i x; cbn [cd_enum In].
  - split; [intros []|]. intros [_ H]. destruct (i - k); discriminate.
  - rewrite IH. split.
    + intros [H|[H1 H2]].
      * injection H as <- <-. rewrite Nat.sub_diag. split; [lia|reflexivity].
      * split; [lia|]. replace (i - k) with (S (i - S k)) by lia. exact H2.
    + intros [H1 H2]. destruct (Nat.eq_dec i k) as [->|Hne].
      * rewrite Nat.sub_diag in H2. injection H2 as <-. left; reflexivity.
      * right. split; [lia|]. replace (i - k) with (S (i - S k)) in H2 by lia. exact H2.
Qed.

(* ---- the adjacency lists -------------------------------------------------------------------------- *)

(* total length of the adjacency lists *)
Fixpoint isob_adjsum (adj : list (list nat)) : nat :=
  match adj with [] => 0 | a :: r => length a + isob_adjsum r end.

Lemma isob_adjsum_set (adj : list (list nat)) : forall i l, i < length adj ->
  isob_adjsum (set_nth adj i l) + length (nth i adj []) = isob_adjsum adj + length l.
Proof.
  induction adj as [|a adj IH]; intros [|i] l H; cbn [length] in H; cbn [set_nth isob_adjsum nth]; try lia.
  specialize (IH i l). lia.
Qed.

Lemma isob_adjsum_const {B} (l : list B) : isob_adjsum (map (fun _ => []) l) = 0.
Proof. induction l as [|y l IH]; cbn [map isob_adjsum length]; [reflexivity|exact IH]. Qed.

Lemma isob_add_edge_length adj i j : length (cd_add_edge adj i j) = length adj.
Proof. unfold cd_add_edge. rewrite !isob_set_nth_length. reflexivity. Qed.

Lemma isob_add_edge_sum adj i j : i < length adj -> j < length adj ->
  isob_adjsum (cd_add_edge adj i j) = isob_adjsum adj + 2.
Proof.
  intros Hi Hj. unfold cd_add_edge.
  set (adj1 := set_nth adj i (nth i adj [] ++ [j])).
  assert (H1 : isob_adjsum adj1 + length (nth i adj []) = isob_adjsum adj + length (nth i adj [] ++ [j]))
    by (apply isob_adjsum_set; exact Hi).
  assert (Hl1 : length adj1 = length adj) by (apply isob_set_nth_length).
  assert (H2 : isob_adjsum (set_nth adj1 j (nth j adj1 [] ++ [i])) + length (nth j adj1 [])
               = isob_adjsum adj1 + length (nth j adj1 [] ++ [i]))
    by (apply isob_adjsum_set; lia).
  rewrite app_length in H1, H2. cbn [length] in H1, H2. lia.
Qed.

Lemma isob_add_edge_In adj i j v x : In x (nth v (cd_add_edge adj i j) []) ->
  In x (nth v adj []) \/ (v = i /\ x = j) \/ (v = j /\ x = i).
Proof.
  unfold cd_add_edge. set (adj1 := set_nth adj i (nth i adj [] ++ [j])). intros H.
  assert (H1 : forall u, In x (nth u adj1 []) -> In x (nth u adj []) \/ (u = i /\ x = j)).
  { intros u Hu. unfold adj1 in Hu.
    destruct (isob_nth_set_nth_cases adj i u (nth i adj [] ++ [j]) []) as [[E [Eu _]]|E]; rewrite E in Hu.
    - apply in_app_or in Hu as [Hu|[Hu|[]]]; [left; subst u; exact Hu|right; split; [exact Eu|symmetry; exact Hu]].
    - left. exact Hu. }
  destruct (isob_nth_set_nth_cases adj1 j v (nth j adj1 [] ++ [i]) []) as [[E [Ev _]]|E]; rewrite E in H.
  - apply in_app_or in H as [H|[H|[]]].
    + apply H1 in H as [H|[Hji Hx]].
      * left. subst v. exact H.
      * right. left. split; [lia|exact Hx].
    + right. right. split; [exact Ev|symmetry; exact H].
  - apply H1 in H as [H|H]; [left; exact H|right; left; exact H].
Qed.

Lemma isob_adj_props : forall ls i adj,
  (forall p j, nth_error ls p = Some (LinkTo j) -> i + p < length adj /\ j < length adj) ->
  length (cd_adj ls i adj) = length adj /\
  isob_adjsum (cd_adj ls i adj) <= isob_adjsum adj + 2 * length ls.
Proof.
  induction ls as [|l ls IH]; intros i adj H; cbn [cd_adj length].
  - split; [reflexivity|lia].
  - assert (Hr : forall adj' : list (list nat), length adj' = length adj ->
                 forall p j, nth_error ls p = Some (LinkTo j) -> S i + p < length adj' /\ j < length adj').
    { intros adj' El p j Hp. rewrite El. specialize (H (S p) j Hp). lia. }
    destruct l as [|j|].
    + destruct (IH (S i) adj (Hr adj eq_refl)) as [H1 H2]. split; [exact H1|lia].
    + destruct (H 0 j eq_refl) as [Hi Hj]. rewrite Nat.add_0_r in Hi.
      destruct (IH (S i) (cd_add_edge adj i j) (Hr _ (isob_add_edge_length adj i j))) as [H1 H2].
      rewrite isob_add_edge_length in H1. rewrite isob_add_edge_sum in H2 by assumption.
      split; [exact H1|lia].
    + destruct (IH (S i) adj (Hr adj eq_refl)) as [H1 H2]. split; [exact H1|lia].
Qed.

Lemma isob_adj_rel (R : nat -> nat -> Prop) : forall ls i adj,
  (forall p j, nth_error ls p = Some (LinkTo j) -> R (i + p) j /\ R j (i + p)) ->
  (forall v j, In j (nth v adj []) -> R v j) ->
  forall v j, In j (nth v (cd_adj ls i adj) []) -> R v j.
Proof.
  induction ls as [|l ls IH]; intros i adj H Hadj; cbn [cd_adj].
  - exact Hadj.
  - assert (Hr : forall p j, nth_error ls p = Some (LinkTo j) -> R (S i + p) j /\ R j (S i + p)).
    { intros p j Hp. specialize (H (S p) j Hp). replace (S i + p) with (i + S p) by lia. exact H. }
    destruct l as [|j|].
    + apply IH; assumption.
    + apply IH; [exact Hr|]. intros v x Hx.
      destruct (H 0 j eq_refl) as [R1 R2]. rewrite Nat.add_0_r in R1, R2.
      apply isob_add_edge_In in Hx as [Hx|[[-> ->]|[-> ->]]]; [apply Hadj; exact Hx|exact R1|exact R2].
    + apply IH; assumption.
Qed.

(* ---- the potential of the depth-first search ----------------------------------------------------- *)

(* sum over the still-unassigned vertices v of |adj[v]| *)
Fixpoint isob_pot (adj : list (list nat)) (comp : list (option nat)) : nat :=
  match adj, comp with
  | a :: adj', o :: comp' => (match o with None => length a | Some _ => 0 end) + isob_pot adj' comp'
  | _, _ => 0
  end.

Lemma isob_pot_le adj : forall comp, isob_pot adj comp <= isob_adjsum adj.
Proof.
  induction adj as [|a adj IH]; intros [|o comp]; cbn [isob_pot isob_adjsum]; try lia.
  specialize (IH comp). destruct o; lia.
Qed.

Lemma isob_pot_set adj : forall comp v c, length adj = length comp -> v < length comp ->
  nth v comp None = None ->
  isob_pot adj (set_nth comp v (Some c)) + length (nth v adj []) = isob_pot adj comp.
Proof.
  induction adj as [|a adj IH]; intros [|o comp] [|v] c Hl Hv Hn; cbn [length] in Hl, Hv; try lia;
    cbn [nth] in Hn; cbn [set_nth isob_pot nth].
  - subst o. lia.
  - specialize (IH comp v c ltac:(lia) ltac:(lia) Hn). destruct o; lia.
Qed.

(* ---- cd_dfs ----------------------------------------------------------------------------------------- *)

Lemma isob_dfs_total adj c : forall fuel stack comp,
  length comp = length adj ->
  (forall v, In v stack -> v < length adj) ->
  (forall v j, In j (nth v adj []) -> j < length adj) ->
  length stack + isob_pot adj comp <= fuel ->
  exists comp', cd_dfs fuel adj c stack comp = Some comp'.
Proof.
  induction fuel as [|fuel IH]; intros stack comp Hl Hs Hadj Hf.
  - destruct stack as [|v rest]; cbn [length] in Hf; [|lia]. cbn [cd_dfs]. eauto.
  - destruct stack as [|v rest]; cbn [cd_dfs]; [eauto|]. cbn [length] in Hf.
    assert (Hv : v < length adj) by (apply Hs; left; reflexivity).
    destruct (nth v comp None) as [k|] eqn:Ev.
    + apply IH; [exact Hl| |exact Hadj|lia]. intros u Hu. apply Hs. right. exact Hu.
    + apply IH.
      * rewrite isob_set_nth_length. exact Hl.
      * intros u Hu. apply in_app_or in Hu as [Hu|Hu]; [eapply Hadj; exact Hu|apply Hs; right; exact Hu].
      * exact Hadj.
      * rewrite app_length.
        pose proof (isob_pot_set adj comp v c (eq_sym Hl) ltac:(lia) Ev) as Hp. lia.
Qed.

Lemma isob_dfs_props adj c (P : nat -> Prop) :
  (forall v j, P v -> In j (nth v adj []) -> P j) ->
  forall fuel stack comp comp',
  (forall v, In v stack -> P v) ->
  cd_dfs fuel adj c stack comp = Some comp' ->
  length comp' = length comp /\
  (forall v k, nth v comp None = Some k -> nth v comp' None = Some k) /\
  (forall v k, nth v comp' None = Some k -> nth v comp None = Some k \/ (k = c /\ P v)) /\
  (forall v, In v stack -> v < length comp -> exists k, nth v comp' None = Some k).
Proof.
  intros HP. induction fuel as [|fuel IH]; intros stack comp comp' Hs H.
  - destruct stack as [|v rest]; cbn [cd_dfs] in H; [|discriminate]. injection H as <-.
    split; [reflexivity|]. split; [auto|]. split; [auto|]. intros v [].
  - destruct stack as [|v rest]; cbn [cd_dfs] in H.
    { injection H as <-. split; [reflexivity|]. split; [auto|]. split; [auto|]. intros v []. }
    destruct (nth v comp None) as [k0|] eqn:Ev.
    + apply IH in H; [|intros u Hu; apply Hs; right; exact Hu].
      destruct H as [H1 [H2 [H3 H4]]].
      split; [exact H1|]. split; [exact H2|]. split; [exact H3|].
      intros u [<-|Hu] Hlt; [exists k0; apply H2; exact Ev|apply H4; assumption].
    + apply IH in H.
      2:{ intros u Hu. apply in_app_or in Hu as [Hu|Hu].
          - eapply HP; [apply Hs; left; reflexivity|exact Hu].
          - apply Hs. right. exact Hu. }
      destruct H as [H1 [H2 [H3 H4]]]. rewrite isob_set_nth_length in H1, H4.
      split; [exact H1|]. split; [|split].
      * intros u k Hu. apply H2. rewrite isob_nth_set_nth_neq; [exact Hu|]. intros ->. congruence.
      * intros u k Hu. apply H3 in Hu as [Hu|Hu]; [|right; exact Hu].
        destruct (isob_nth_set_nth_cases comp v u (Some c) None) as [[E [Eu _]]|E]; rewrite E in Hu.
        -- right. injection Hu as <-. split; [reflexivity|]. subst u. apply Hs. left. reflexivity.
        -- left. exact Hu.
      * intros u [<-|Hu] Hlt.
        -- exists c. apply H2. apply isob_nth_set_nth_eq. exact Hlt.
        -- apply H4; [|exact Hlt]. apply in_or_app. right. exact Hu.
Qed.

(* ---- components, bad marking: generic in n ------------------------------------------------------- *)

Section Links.
  Variable links : list cd_link.
  Variable n : nat.
  Hypothesis Hlen : length links = n.
  Hypothesis Hrange : forall i j, nth_error links i = Some (LinkTo j) -> j < n.

  Definition isob_closed (S : nat -> Prop) : Prop :=
    forall i j, nth_error links i = Some (LinkTo j) -> (S i <-> S j).

  (* v belongs to the same link-component as c *)
  Definition isob_conn (c v : nat) : Prop := v < n /\ forall S, isob_closed S -> (S v <-> S c).

  Definition isob_the_adj : list (list nat) := cd_adj links 0 (map (fun _ => []) (seq 0 n)).

  Lemma isob_link_lt i l : nth_error links i = Some l -> i < n.
  Proof. intros H. rewrite <- Hlen. apply nth_error_Some. congruence. Qed.

  Lemma isob_adj_length : length isob_the_adj = n.
  Proof.
    unfold isob_the_adj.
    destruct (isob_adj_props links 0 (map (fun _ => []) (seq 0 n))) as [H _].
    - intros p j Hp. rewrite map_length, seq_length. split; [apply isob_link_lt in Hp; lia|eapply Hrange; exact Hp].
    - rewrite H, map_length, seq_length. reflexivity.
  Qed.

  Lemma isob_adj_sum : isob_adjsum isob_the_adj <= 2 * n.
  Proof.
    unfold isob_the_adj.
    destruct (isob_adj_props links 0 (map (fun _ => []) (seq 0 n))) as [_ H].
    - intros p j Hp. rewrite map_length, seq_length. split; [apply isob_link_lt in Hp; lia|eapply Hrange; exact Hp].
    - rewrite isob_adjsum_const, Hlen in H. lia.
  Qed.

  Lemma isob_adj_link v j : In j (nth v isob_the_adj []) ->
    nth_error links v = Some (LinkTo j) \/ nth_error links j = Some (LinkTo v).
  Proof.
    unfold isob_the_adj.
    apply (isob_adj_rel (fun v j => nth_error links v = Some (LinkTo j) \/ nth_error links j = Some (LinkTo v))).
    - intros p x Hp. cbn [Nat.add]. auto.
    - intros u x Hx. rewrite isob_nth_const in Hx. destruct Hx.
  Qed.

  Lemma isob_adj_lt v j : In j (nth v isob_the_adj []) -> j < length isob_the_adj.
  Proof.
    intros H. rewrite isob_adj_length. apply isob_adj_link in H as [H|H].
    - eapply Hrange. exact H.
    - eapply isob_link_lt. exact H.
  Qed.

  Lemma isob_conn_step c v j : isob_conn c v -> In j (nth v isob_the_adj []) -> isob_conn c j.
  Proof.
    intros [Hv HS] Hj. split.
    - rewrite <- isob_adj_length. eapply isob_adj_lt. exact Hj.
    - intros S HC. rewrite <- (HS S HC). apply isob_adj_link in Hj as [Hj|Hj].
      + symmetry. apply HC. exact Hj.
      + apply HC. exact Hj.
  Qed.

  Definition isob_inv (comp : list (option nat)) : Prop :=
    length comp = n /\
    forall v k, nth v comp None = Some k -> k < n /\ forall S, isob_closed S -> (S v <-> S k).

  Lemma isob_components_gen fuel : 2 * n + 1 <= fuel -> forall vs comp,
    (forall v, In v vs -> v < n) -> isob_inv comp ->
    exists comp', cd_components fuel isob_the_adj vs comp = Some comp' /\
                  isob_inv comp' /\
                  (forall v k, nth v comp None = Some k -> nth v comp' None = Some k) /\
                  (forall v, In v vs -> exists k, nth v comp' None = Some k).
  Proof.
    intros Hfuel. induction vs as [|v vs IH]; intros comp Hvs Hinv; cbn [cd_components].
    - exists comp. split; [reflexivity|]. split; [exact Hinv|]. split; [auto|]. intros v [].
    - assert (Hvs' : forall u, In u vs -> u < n) by (intros u Hu; apply Hvs; right; exact Hu).
      assert (Hv : v < n) by (apply Hvs; left; reflexivity).
      destruct (nth v comp None) as [k0|] eqn:Ev.
      + destruct (IH comp Hvs' Hinv) as [comp' [E [Hi' [Hp Ha]]]].
        exists comp'. split; [exact E|]. split; [exact Hi'|]. split; [exact Hp|].
        intros u [<-|Hu]; [exists k0; apply Hp; exact Ev|apply Ha; exact Hu].
      + destruct Hinv as [Hl Hlab].
        destruct (isob_dfs_total isob_the_adj v fuel [v] comp) as [comp1 E1].
        * rewrite isob_adj_length. exact Hl.
        * intros u [<-|[]]. rewrite isob_adj_length. exact Hv.
        * exact isob_adj_lt.
        * cbn [length]. pose proof (isob_pot_le isob_the_adj comp). pose proof isob_adj_sum. lia.
        * rewrite E1.
          destruct (isob_dfs_props isob_the_adj v (isob_conn v) (isob_conn_step v) fuel [v] comp comp1)
            as [H1 [H2 [H3 H4]]].
          { intros u [<-|[]]. split; [exact Hv|]. intros S _. tauto. }
          { exact E1. }
          assert (Hinv1 : isob_inv comp1).
          { split; [lia|]. intros u k Hu. apply H3 in Hu as [Hu|[-> [_ Hc]]].
            - apply Hlab. exact Hu.
            - split; [exact Hv|exact Hc]. }
          destruct (IH comp1 Hvs' Hinv1) as [comp' [E [Hi' [Hp Ha]]]].
          exists comp'. split; [exact E|]. split; [exact Hi'|]. split.
          -- intros u k Hu. apply Hp. apply H2. exact Hu.
          -- intros u [<-|Hu]; [|apply Ha; exact Hu].
             destruct (H4 v (or_introl eq_refl) ltac:(lia)) as [k Hk]. exists k. apply Hp. exact Hk.
  Qed.

  Theorem isob_components_n : exists comp,
    cd_components (2 * n + 2 * n + 1) (cd_adj links 0 (map (fun _ => []) (seq 0 n))) (seq 0 n)
                  (map (fun _ => None) (seq 0 n)) = Some comp
    /\ length comp = n
    /\ (forall i, i < n -> exists k, nth i comp None = Some k /\ k < n)
    /\ (forall (S : nat -> Prop),
          (forall i j, nth_error links i = Some (LinkTo j) -> (S i <-> S j)) ->
          forall i k, i < n -> nth i comp None = Some k -> (S i <-> S k)).
  Proof.
    destruct (isob_components_gen (2 * n + 2 * n + 1) ltac:(lia) (seq 0 n) (map (fun _ => None) (seq 0 n)))
      as [comp [E [[Hl Hlab] [_ Ha]]]].
    - intros v Hv. apply in_seq in Hv. lia.
    - split; [rewrite map_length, seq_length; reflexivity|].
      intros v k Hv. rewrite (isob_nth_const (@None nat)) in Hv. discriminate.
    - exists comp. split; [exact E|]. split; [exact Hl|]. split.
      + intros i Hi. destruct (Ha i) as [k Hk]; [apply in_seq; lia|].
        exists k. split; [exact Hk|]. exact (proj1 (Hlab i k Hk)).
      + intros S HS i k _ Hk. exact (proj2 (Hlab i k Hk) S HS).
  Qed.

  (* ---- cd_mark_bad ---- *)

  Lemma isob_mark_bad_gen comp : forall ls i badc,
    (forall p, p < length ls -> exists k, nth (i + p) comp None = Some k /\ k < length badc) ->
    length (cd_mark_bad ls i comp badc) = length badc /\
    forall k, nth k (cd_mark_bad ls i comp badc) false = true <->
              nth k badc false = true \/
              exists p, nth_error ls p = Some LinkBad /\ nth (i + p) comp None = Some k.
  Proof.
    induction ls as [|l ls IH]; intros i badc H; cbn [cd_mark_bad].
    - split; [reflexivity|]. intros k. split; [auto|]. intros [Hk|[p [Hp _]]]; [exact Hk|].
      destruct p; discriminate.
    - assert (Hr : forall badc' : list bool, length badc' = length badc ->
                   forall p, p < length ls -> exists k, nth (S i + p) comp None = Some k /\ k < length badc').
      { intros badc' El p Hp. rewrite El. replace (S i + p) with (i + S p) by lia. apply H. cbn [length]. lia. }
      assert (Hsame : forall badc' : list bool, length badc' = length badc ->
                (forall k, nth k badc' false = true <-> nth k badc false = true) -> l <> LinkBad ->
                length (cd_mark_bad ls (S i) comp badc') = length badc /\
                forall k, nth k (cd_mark_bad ls (S i) comp badc') false = true <->
                  nth k badc false = true \/
                  exists p, nth_error (l :: ls) p = Some LinkBad /\ nth (i + p) comp None = Some k).
      { intros badc' El Hb Hl. destruct (IH (S i) badc' (Hr badc' El)) as [H1 H2].
        split; [lia|]. intros k. rewrite H2, Hb. split.
        - intros [Hk|[p [Hp Hc]]]; [left; exact Hk|right]. exists (S p). split; [exact Hp|].
          replace (i + S p) with (S i + p) by lia. exact Hc.
        - intros [Hk|[p [Hp Hc]]]; [left; exact Hk|right]. destruct p as [|p].
          + cbn [nth_error] in Hp. congruence.
          + exists p. split; [exact Hp|]. replace (S i + p) with (i + S p) by lia. exact Hc. }
      destruct l as [|j|].
      + apply Hsame; [reflexivity|tauto|discriminate].
      + apply Hsame; [reflexivity|tauto|discriminate].
      + destruct (H 0) as [k0 [Hk0 Hlt]]; [cbn [length]; lia|]. rewrite Nat.add_0_r in Hk0. rewrite Hk0.
        destruct (IH (S i) (set_nth badc k0 true)) as [H1 H2].
        { apply Hr. apply isob_set_nth_length. }
        rewrite isob_set_nth_length in H1. split; [exact H1|]. intros k. rewrite H2. split.
        * intros [Hk|[p [Hp Hc]]].
          -- destruct (isob_nth_set_nth_cases badc k0 k true false) as [[_ [-> _]]|E].
             ++ right. exists 0. split; [reflexivity|]. rewrite Nat.add_0_r. exact Hk0.
             ++ left. rewrite <- E. exact Hk.
          -- right. exists (S p). split; [exact Hp|]. replace (i + S p) with (S i + p) by lia. exact Hc.
        * intros [Hk|[p [Hp Hc]]].
          -- left. destruct (Nat.eq_dec k k0) as [->|Hne].
             ++ apply isob_nth_set_nth_eq. exact Hlt.
             ++ rewrite isob_nth_set_nth_neq by exact Hne. exact Hk.
          -- destruct p as [|p].
             ++ left. rewrite Nat.add_0_r in Hc. rewrite Hk0 in Hc. injection Hc as <-.
                apply isob_nth_set_nth_eq. exact Hlt.
             ++ right. exists p. split; [exact Hp|]. replace (S i + p) with (i + S p) by lia. exact Hc.
  Qed.

  Theorem isob_mark_bad_n comp :
    length comp = n ->
    (forall i, i < n -> exists k, nth i comp None = Some k /\ k < n) ->
    length (cd_mark_bad links 0 comp (map (fun _ => false) (seq 0 n))) = n /\
    forall k, nth k (cd_mark_bad links 0 comp (map (fun _ => false) (seq 0 n))) false = true
              <-> exists i, nth_error links i = Some LinkBad /\ nth i comp None = Some k.
  Proof.
    intros Hl Hlab.
    destruct (isob_mark_bad_gen comp links 0 (map (fun _ => false) (seq 0 n))) as [H1 H2].
    - intros p Hp. rewrite map_length, seq_length. cbn [Nat.add]. apply Hlab. lia.
    - rewrite map_length, seq_length in H1. split; [exact H1|].
      intros k. rewrite H2. rewrite (isob_nth_const false). cbn [Nat.add]. split.
      + intros [Hk|Hk]; [discriminate|exact Hk].
      + intros Hk. right. exact Hk.
  Qed.
End Links.

(* ---- the output loop and the combination ---------------------------------------------------------- *)

Section Tail.
  Variable W : Type.
  Variable w0 : W.
  Variable wadd : W -> W -> W.
  Variable g : graph.
  Variable wts : list W.
  Variable trees : list (sp_tree W).
  Variable cv : list (cand W).
  Notation n := (length cv).
  Hypothesis Hnodes : forall c, In c cv -> exists t a b na nb,
    nth_error trees (c_tree c) = Some t /\ ends g (c_edge c) = Some (a, b) /\
    sp_node_of W t a = Some na /\ sp_node_of W t b = Some nb /\
    c_weight c = wadd (wadd (lx_wt W w0 wts (c_edge c)) (sn_weight na)) (sn_weight nb).

  Lemma isob_out_gen comp badc :
    (forall i, i < n -> exists k, nth i comp None = Some k /\ k < n) ->
    forall vs inout,
    (forall i c, In (i, c) vs -> nth_error cv i = Some c) ->
    length inout = n ->
    exists out,
      cd_iso_out W w0 wadd g wts trees comp badc vs inout = CdOk out /\
      (forall x, In x out -> exists i, In (i, x) vs) /\
      forall k, nth k badc false = false -> nth k inout false = false ->
                (exists i c, In (i, c) vs /\ nth i comp None = Some k) ->
                exists i c, In (i, c) vs /\ nth i comp None = Some k /\ In c out.
  Proof.
    intros Hlab. induction vs as [|[i c] vs IH]; intros inout Hvs Hl; cbn [cd_iso_out].
    - exists []. split; [reflexivity|]. split; [intros x []|]. intros k _ _ [i [c [[] _]]].
    - assert (Hvs' : forall i c, In (i, c) vs -> nth_error cv i = Some c)
        by (intros i' c' H'; apply Hvs; right; exact H').
      assert (Hic : nth_error cv i = Some c) by (apply Hvs; left; reflexivity).
      assert (Hi : i < n) by (apply nth_error_Some; congruence).
      destruct (Hlab i Hi) as [k0 [Hk0 Hk0n]]. rewrite Hk0.
      (* the case where nothing is emitted *)
      assert (Hskip : negb (nth k0 badc false) && negb (nth k0 inout false) = false ->
        exists out,
          cd_iso_out W w0 wadd g wts trees comp badc vs inout = CdOk out /\
          (forall x, In x out -> exists i0, In (i0, x) ((i, c) :: vs)) /\
          forall k, nth k badc false = false -> nth k inout false = false ->
                    (exists i0 c0, In (i0, c0) ((i, c) :: vs) /\ nth i0 comp None = Some k) ->
                    exists i0 c0, In (i0, c0) ((i, c) :: vs) /\ nth i0 comp None = Some k /\ In c0 out).
      { intros Hcond. destruct (IH inout Hvs' Hl) as [out [E [Hin Hall]]].
        exists out. split; [exact E|]. split.
        - intros x Hx. destruct (Hin x Hx) as [i0 H0]. exists i0. right. exact H0.
        - intros k Hb Hio [i0 [c0 [[H0|H0] Hc0]]].
          + injection H0 as <- <-. rewrite Hk0 in Hc0. injection Hc0 as <-.
            rewrite Hb, Hio in Hcond. discriminate.
          + destruct (Hall k Hb Hio) as [i1 [c1 [H1 [H2 H3]]]]; [exists i0, c0; auto|].
            exists i1, c1. split; [right; exact H1|]. auto. }
      destruct (negb (nth k0 badc false) && negb (nth k0 inout false)) eqn:Hcond; [|apply Hskip; reflexivity].
      clear Hskip. apply andb_prop in Hcond as [Hb0 Hio0].
      apply negb_true_iff in Hb0, Hio0.
      destruct (Hnodes c (nth_error_In _ _ Hic)) as [t [a [b [na [nb [Ht [He [Ha [Hb Hw]]]]]]]]].
      rewrite Ht, He, Ha, Hb.
      assert (Hc : {| c_tree := c_tree c; c_edge := c_edge c;
                      c_weight := wadd (wadd (lx_wt W w0 wts (c_edge c)) (sn_weight na)) (sn_weight nb) |} = c).
      { rewrite <- Hw. destruct c; reflexivity. }
      rewrite Hc.
      destruct (IH (set_nth inout k0 true) Hvs') as [out [E [Hin Hall]]].
      { rewrite isob_set_nth_length. exact Hl. }
      rewrite E. exists (c :: out). split; [reflexivity|]. split.
      + intros x [<-|Hx]; [exists i; left; reflexivity|].
        destruct (Hin x Hx) as [i0 H0]. exists i0. right. exact H0.
      + intros k Hbk Hiok Hex. destruct (Nat.eq_dec k k0) as [->|Hne].
        * exists i, c. split; [left; reflexivity|]. split; [exact Hk0|left; reflexivity].
        * destruct Hex as [i0 [c0 [[H0|H0] Hc0]]].
          -- injection H0 as <- <-. congruence.
          -- destruct (Hall k Hbk) as [i1 [c1 [H1 [H2 H3]]]].
             ++ rewrite isob_nth_set_nth_neq by exact Hne. exact Hiok.
             ++ exists i0, c0. auto.
             ++ exists i1, c1. split; [right; exact H1|]. split; [exact H2|right; exact H3].
  Qed.

  Theorem isob_out comp badc :
    length comp = n ->
    (forall i, i < n -> exists k, nth i comp None = Some k /\ k < n) ->
    exists out,
      cd_iso_out W w0 wadd g wts trees comp badc (cd_enum 0 cv) (map (fun _ => false) (seq 0 n)) = CdOk out
      /\ incl out cv
      /\ forall k, nth k badc false = false -> (exists i, i < n /\ nth i comp None = Some k) ->
                   exists i c, nth_error cv i = Some c /\ nth i comp None = Some k /\ In c out.
  Proof.
    intros _ Hlab.
    assert (Hen : forall i c, In (i, c) (cd_enum 0 cv) <-> nth_error cv i = Some c).
    { intros i c. rewrite isob_enum_In, Nat.sub_0_r. split; [tauto|]. intros H. split; [lia|exact H]. }
    destruct (isob_out_gen comp badc Hlab (cd_enum 0 cv) (map (fun _ => false) (seq 0 n))) as [out [E [Hin Hall]]].
    - intros i c H. apply Hen. exact H.
    - rewrite map_length, seq_length. reflexivity.
    - exists out. split; [exact E|]. split.
      + intros x Hx. destruct (Hin x Hx) as [i H]. apply Hen in H. eapply nth_error_In. exact H.
      + intros k Hb [i [Hi Hk]].
        destruct (nth_error cv i) as [c|] eqn:Ec; [|apply nth_error_None in Ec; lia].
        destruct (Hall k Hb) as [i1 [c1 [H1 [H2 H3]]]].
        * apply (isob_nth_const false).
        * exists i, c. split; [apply Hen; exact Ec|exact Hk].
        * exists i1, c1. split; [apply Hen; exact H1|]. auto.
  Qed.

  Variable links : list cd_link.
  Hypothesis Hlen : length links = n.
  Hypothesis Hrange : forall i j, nth_error links i = Some (LinkTo j) -> j < n.

  Theorem isob_components : exists comp,
    cd_components (2 * n + 2 * n + 1) (cd_adj links 0 (map (fun _ => []) (seq 0 n))) (seq 0 n)
                  (map (fun _ => None) (seq 0 n)) = Some comp
    /\ length comp = n
    /\ (forall i, i < n -> exists k, nth i comp None = Some k /\ k < n)
    /\ (forall (S : nat -> Prop),
          (forall i j, nth_error links i = Some (LinkTo j) -> (S i <-> S j)) ->
          forall i k, i < n -> nth i comp None = Some k -> (S i <-> S k)).
  Proof. exact (isob_components_n links n Hlen Hrange). Qed.

  Theorem isob_mark_bad comp :
    length comp = n ->
    (forall i, i < n -> exists k, nth i comp None = Some k /\ k < n) ->
    (forall k, nth k (cd_mark_bad links 0 comp (map (fun _ => false) (seq 0 n))) false = true
               <-> exists i, nth_error links i = Some LinkBad /\ nth i comp None = Some k) /\
    length (cd_mark_bad links 0 comp (map (fun _ => false) (seq 0 n))) = n.
  Proof.
    intros Hl Hlab. destruct (isob_mark_bad_n links n Hlen comp Hl Hlab) as [H1 H2]. split; assumption.
  Qed.


  Theorem isob_tail : exists comp out,
    cd_components (2 * n + 2 * n + 1) (cd_adj links 0 (map (fun _ => []) (seq 0 n))) (seq 0 n)
                  (map (fun _ => None) (seq 0 n)) = Some comp /\
    cd_iso_out W w0 wadd g wts trees comp (cd_mark_bad links 0 comp (map (fun _ => false) (seq 0 n)))
               (cd_enum 0 cv) (map (fun _ => false) (seq 0 n)) = CdOk out /\
    incl out cv /\
    forall (S : nat -> Prop),
      (forall i j, nth_error links i = Some (LinkTo j) -> (S i <-> S j)) ->
      (forall i, S i -> nth_error links i <> Some LinkBad) ->
      forall i0, i0 < n -> S i0 -> exists i c, S i /\ nth_error cv i = Some c /\ In c out.
  Proof.
    destruct isob_components as [comp [Ec [Hl [Hlab Hsound]]]].
    destruct (isob_mark_bad comp Hl Hlab) as [Hbad _].
    destruct (isob_out comp (cd_mark_bad links 0 comp (map (fun _ => false) (seq 0 n))) Hl Hlab)
      as [out [Eo [Hincl Hemit]]].
    exists comp, out. split; [exact Ec|]. split; [exact Eo|]. split; [exact Hincl|].
    intros S HS Hgood i0 Hi0 HS0.
    destruct (Hlab i0 Hi0) as [k [Hk Hkn]].
    assert (HSk : S k) by (apply (Hsound S HS i0 k Hi0 Hk); exact HS0).
    destruct (Hemit k) as [i [c [Hc [Hik Hin]]]].
    - destruct (nth k (cd_mark_bad links 0 comp (map (fun _ => false) (seq 0 n))) false) eqn:Eb; [|reflexivity].
      exfalso. apply Hbad in Eb as [i [Hi Hik]].
      assert (Hin : i < n) by (rewrite <- Hlen; apply nth_error_Some; congruence).
      apply (Hgood i); [|exact Hi]. apply (Hsound S HS i k Hin Hik). exact HSk.
    - exists i0. split; [exact Hi0|exact Hk].
    - exists i, c. split; [|split; [exact Hc|exact Hin]].
      assert (Hi : i < n) by (apply nth_error_Some; congruence).
      apply (Hsound S HS i k Hi Hik). exact HSk.
  Qed.
End Tail.

Print Assumptions isob_components.
Print Assumptions isob_mark_bad.
Print Assumptions isob_out.
Print Assumptions isob_tail.
