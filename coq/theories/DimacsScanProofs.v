(* DimacsScanProofs.v — the sscanf conversions of DimacsModel.v invert the rendering of literals:
   white-space skipping, signs, digit strings, %d / %lu / %s / %lf; the canonical digit printer. *)
From Coq Require Import ZArith List Bool QArith Qreduction Qpower Lia ZifyBool.
From Parmcb Require Import DimacsModel.
Import ListNotations.
Local Open Scope Z_scope.

(* ------------------------------------------------------------------------------------ *)
(* what the unread input may start with                                                  *)

Definition starts_nonspace (r : list byte) : Prop := match r with [] => True | c :: _ => is_space c = false end.
Definition starts_nondigit (r : list byte) : Prop := match r with [] => True | c :: _ => is_digit c = false end.
Definition starts_blank (r : list byte) : Prop := match r with [] => True | c :: _ => is_blank c = true end.

Lemma is_blank_space c : is_blank c = true -> is_space c = true.
Proof. unfold is_blank. intros H. apply andb_true_iff in H. tauto. Qed.

Lemma digit_nonspace c : is_digit c = true -> is_space c = false.
Proof. unfold is_digit, is_space. lia. Qed.

Lemma blank_nondigit c : is_blank c = true -> is_digit c = false.
Proof. unfold is_blank, is_digit, is_space. lia. Qed.

Lemma starts_blank_nondigit r : starts_blank r -> starts_nondigit r.
Proof. destruct r as [|c r]; cbn; auto using blank_nondigit. Qed.

Lemma blanks_starts_blank b : blanks b = true -> starts_blank b.
Proof. destruct b as [|c b]; cbn; auto. intros H. apply andb_true_iff in H. tauto. Qed.

Lemma blanks_app_starts_blank b r : blanks b = true -> starts_blank r -> starts_blank (b ++ r).
Proof. destruct b as [|c b]; cbn; auto. intros H _. apply andb_true_iff in H. tauto. Qed.

(* ------------------------------------------------------------------------------------ *)
(* white space                                                                          *)

Lemma skip_ws_blanks b r : blanks b = true -> skip_ws (b ++ r) = skip_ws r.
Proof.
  induction b as [|c b IH]; cbn [app blanks forallb skip_ws]; auto.
  intros H. apply andb_true_iff in H. destruct H as [Hc Hb].
  rewrite (is_blank_space _ Hc). auto.
Qed.

Lemma skip_ws_nonspace r : starts_nonspace r -> skip_ws r = r.
Proof. destruct r as [|c r]; cbn; auto. intros ->. reflexivity. Qed.

Lemma skip_ws_all_blanks b : blanks b = true -> skip_ws b = [].
Proof. intros H. rewrite <- (app_nil_r b). rewrite skip_ws_blanks; auto. Qed.

Lemma skip_ws_idem s : skip_ws (skip_ws s) = skip_ws s.
Proof.
  induction s as [|c s IH]; cbn [skip_ws]; auto.
  destruct (is_space c) eqn:E; auto. cbn [skip_ws]. rewrite E. reflexivity.
Qed.

(* ------------------------------------------------------------------------------------ *)
(* digit strings                                                                        *)

Lemma span_digits_app ds r :
  all_digits ds = true -> starts_nondigit r -> span_digits (ds ++ r) = (ds, r).
Proof.
  induction ds as [|c ds IH]; cbn [app all_digits forallb span_digits]; intros H Hr.
  - destruct r as [|c r]; cbn in *; auto. rewrite Hr. reflexivity.
  - apply andb_true_iff in H. destruct H as [Hc Hd]. rewrite Hc, (IH Hd Hr). reflexivity.
Qed.

Lemma span_nonspace_app tok r :
  forallb (fun c => negb (is_space c) && negb (c =? 0)) tok = true ->
  match r with [] => True | c :: _ => is_space c = true end ->
  span_nonspace (tok ++ r) = (tok, r).
Proof.
  induction tok as [|c tok IH]; cbn [app forallb span_nonspace]; intros H Hr.
  - destruct r as [|c r]; cbn in *; auto. rewrite Hr. reflexivity.
  - apply andb_true_iff in H. destruct H as [Hc Hd].
    apply andb_true_iff in Hc. destruct Hc as [Hc _]. apply negb_true_iff in Hc.
    rewrite Hc, (IH Hd Hr). reflexivity.
Qed.

Lemma fold_digits_acc ds : forall a,
  fold_left (fun a c => 10 * a + (c - 48)) ds a = a * 10 ^ Z.of_nat (length ds) + digits_value ds.
Proof.
  unfold digits_value.
  induction ds as [|c ds IH]; intros a; cbn [fold_left length].
  - cbn. lia.
  - rewrite IH, (IH (10 * 0 + (c - 48))). rewrite Nat2Z.inj_succ, Z.pow_succ_r by lia. lia.
Qed.

Lemma digits_value_app a b :
  digits_value (a ++ b) = digits_value a * 10 ^ Z.of_nat (length b) + digits_value b.
Proof. unfold digits_value at 1. rewrite fold_left_app. rewrite fold_digits_acc. reflexivity. Qed.

Lemma digits_value_cons c ds :
  digits_value (c :: ds) = (c - 48) * 10 ^ Z.of_nat (length ds) + digits_value ds.
Proof. change (c :: ds) with ([c] ++ ds). rewrite digits_value_app. cbn. lia. Qed.

Lemma digits_value_nonneg ds : all_digits ds = true -> 0 <= digits_value ds.
Proof.
  induction ds as [|c ds IH]; cbn [all_digits forallb]; intros H.
  - cbn. lia.
  - apply andb_true_iff in H. destruct H as [Hc Hd]. rewrite digits_value_cons.
    specialize (IH Hd). unfold is_digit in Hc.
    assert (0 <= 10 ^ Z.of_nat (length ds)) by (apply Z.pow_nonneg; lia). nia.
Qed.

Lemma digits_value_repeat0 k : digits_value (repeat 48 k) = 0.
Proof.
  induction k as [|k IH]; cbn [repeat]; [reflexivity|]. rewrite digits_value_cons, IH. lia.
Qed.

(* ------------------------------------------------------------------------------------ *)
(* signs                                                                                *)

Definition starts_unsigned (r : list byte) : Prop :=
  match r with [] => True | c :: _ => (c =? 45) = false /\ (c =? 43) = false end.

Lemma scan_sign_render s r :
  starts_unsigned r -> scan_sign (render_sign s ++ r) = (sign_neg s, r).
Proof.
  destruct s as [[|]|]; cbn; auto.
  destruct r as [|c r]; cbn; auto. intros [-> ->]. reflexivity.
Qed.

Lemma digit_unsigned c r : is_digit c = true -> starts_unsigned (c :: r).
Proof. unfold is_digit. cbn. lia. Qed.

Lemma digits_unsigned ds r : nonempty ds = true -> all_digits ds = true -> starts_unsigned (ds ++ r).
Proof.
  destruct ds as [|c ds]; cbn [nonempty all_digits forallb app]; [discriminate|].
  intros _ H. apply andb_true_iff in H. apply digit_unsigned. tauto.
Qed.

Lemma sign_digits_nonspace s ds r :
  nonempty ds = true -> all_digits ds = true -> starts_nonspace (render_sign s ++ ds ++ r).
Proof.
  intros Hn Hd. destruct s as [[|]|]; cbn; try reflexivity.
  destruct ds as [|c ds]; [discriminate|]. cbn in *. apply andb_true_iff in Hd.
  apply digit_nonspace. tauto.
Qed.

(* ------------------------------------------------------------------------------------ *)
(* %d, %lu, %s                                                                          *)

Lemma int_ok_inv l : int_ok l = true -> nonempty (il_digits l) = true /\ all_digits (il_digits l) = true.
Proof. unfold int_ok. intros H. apply andb_true_iff in H. exact H. Qed.

Lemma scan_int_lit sep l r :
  blanks sep = true -> int_ok l = true -> - 2 ^ 31 <= int_value l <= 2 ^ 31 - 1 -> starts_nondigit r ->
  scan_int (sep ++ render_int l ++ r) = CVal (int_value l) r.
Proof.
  intros Hsep Hok Hrange Hr. destruct (int_ok_inv _ Hok) as [Hn Hd].
  unfold scan_int, render_int. rewrite skip_ws_blanks by assumption. rewrite <- app_assoc.
  rewrite skip_ws_nonspace by (apply sign_digits_nonspace; assumption).
  rewrite scan_sign_render by (apply digits_unsigned; assumption).
  rewrite span_digits_app by assumption.
  destruct (il_digits l) as [|c ds] eqn:E; [discriminate|].
  unfold int_value in Hrange. rewrite E in Hrange. unfold int_value. rewrite E.
  destruct (sign_neg (il_sign l));
    match goal with |- (if ?b then _ else _) = _ => replace b with true by lia end; reflexivity.
Qed.

Lemma scan_ulong_lit sep l r :
  blanks sep = true -> int_ok l = true -> 0 <= int_value l <= 2 ^ 64 - 1 -> starts_nondigit r ->
  scan_ulong (sep ++ render_int l ++ r) = CVal (int_value l) r.
Proof.
  intros Hsep Hok Hrange Hr. destruct (int_ok_inv _ Hok) as [Hn Hd].
  unfold scan_ulong, render_int. rewrite skip_ws_blanks by assumption. rewrite <- app_assoc.
  rewrite skip_ws_nonspace by (apply sign_digits_nonspace; assumption).
  rewrite scan_sign_render by (apply digits_unsigned; assumption).
  rewrite span_digits_app by assumption.
  pose proof (digits_value_nonneg _ Hd) as Hnn.
  destruct (il_digits l) as [|c ds] eqn:E; [discriminate|].
  unfold int_value in *. rewrite E in *.
  destruct (sign_neg (il_sign l)).
  - assert (digits_value (c :: ds) = 0) as -> by lia. reflexivity.
  - match goal with |- (if ?b then _ else _) = _ => replace b with true by lia end. reflexivity.
Qed.

(* whatever the sign, a representable magnitude is converted (to some value) *)
Lemma scan_ulong_lit_some sep l r :
  blanks sep = true -> int_ok l = true -> Z.abs (int_value l) <= 2 ^ 64 - 1 -> starts_nondigit r ->
  exists v, scan_ulong (sep ++ render_int l ++ r) = CVal v r.
Proof.
  intros Hsep Hok Hrange Hr. destruct (int_ok_inv _ Hok) as [Hn Hd].
  unfold scan_ulong, render_int. rewrite skip_ws_blanks by assumption. rewrite <- app_assoc.
  rewrite skip_ws_nonspace by (apply sign_digits_nonspace; assumption).
  rewrite scan_sign_render by (apply digits_unsigned; assumption).
  rewrite span_digits_app by assumption.
  pose proof (digits_value_nonneg _ Hd) as Hnn.
  destruct (il_digits l) as [|c ds] eqn:E; [discriminate|].
  unfold int_value in *. rewrite E in *.
  match goal with |- exists v, (if ?b then _ else _) = _ => replace b with true end.
  - eexists. reflexivity.
  - destruct (sign_neg (il_sign l)); lia.
Qed.

Lemma scan_ulong_blanks b : blanks b = true -> scan_ulong b = CFail.
Proof. intros H. unfold scan_ulong. rewrite skip_ws_all_blanks by assumption. reflexivity. Qed.

Lemma scan_str_tok sep tok r :
  blanks sep = true -> nonempty tok = true ->
  forallb (fun c => negb (is_space c) && negb (c =? 0)) tok = true ->
  match r with [] => True | c :: _ => is_space c = true end ->
  scan_str (sep ++ tok ++ r) = CVal tok r.
Proof.
  intros Hsep Hn Htok Hr. unfold scan_str. rewrite skip_ws_blanks by assumption.
  rewrite skip_ws_nonspace.
  - rewrite span_nonspace_app by assumption. destruct tok; [discriminate|reflexivity].
  - destruct tok as [|c tok]; [discriminate|]. cbn in *. apply andb_true_iff in Htok.
    destruct Htok as [Hc _]. apply andb_true_iff in Hc. destruct Hc as [Hc _]. apply negb_true_iff in Hc. exact Hc.
Qed.

(* ------------------------------------------------------------------------------------ *)
(* %lf: exact decimal value                                                             *)


Lemma Qpower10_nonneg x : 0 <= x -> Qpower (10 # 1) x == inject_Z (10 ^ x).
Proof. intros H. rewrite Zpower_Qpower by assumption. reflexivity. Qed.

Lemma Qpower10_neg x : x < 0 -> Qpower (10 # 1) x == 1 # Z.to_pos (10 ^ (- x)).
Proof.
  intros H. replace x with (- - x) at 1 by lia. rewrite Qpower_opp, Qpower10_nonneg by lia.
  assert (0 < 10 ^ (- x)) as Hp by (apply Z.pow_pos_nonneg; lia).
  destruct (10 ^ (- x)) as [|p|p]; try lia. reflexivity.
Qed.

Definition raw_dec (neg : bool) (mant scale : Z) : Q :=
  let m := if neg then - mant else mant in
  if 0 <=? scale then (m * 10 ^ scale) # 1 else m # Z.to_pos (10 ^ (- scale)).

Lemma dec_value_raw neg m s : dec_value neg m s = Qred (raw_dec neg m s).
Proof. reflexivity. Qed.

Lemma pow10_pos a : 0 <= a -> 0 < 10 ^ a.
Proof. intros. apply Z.pow_pos_nonneg; lia. Qed.

Lemma raw_dec_pos I F k x :
  0 <= k ->
  raw_dec false (I * 10 ^ k + F) (x - k) == (inject_Z I + (F # Z.to_pos (10 ^ k))) * Qpower (10 # 1) x.
Proof.
  intros Hk. unfold raw_dec.
  pose proof (pow10_pos k Hk) as Pk.
  destruct (Z.leb_spec 0 (x - k)) as [Hs|Hs].
  - rewrite Qpower10_nonneg by lia.
    assert (10 ^ x = 10 ^ (x - k) * 10 ^ k) as E by (rewrite <- Z.pow_add_r by lia; f_equal; lia).
    pose proof (pow10_pos (x - k) Hs) as Ps.
    unfold Qeq, Qmult, Qplus, inject_Z; cbn [Qnum Qden].
    rewrite ?Pos2Z.inj_mul, ?Z2Pos.id by lia. rewrite E. ring.
  - destruct (Z.leb_spec 0 x) as [Hx|Hx].
    + rewrite Qpower10_nonneg by lia.
      assert (10 ^ k = 10 ^ (k - x) * 10 ^ x) as E by (rewrite <- Z.pow_add_r by lia; f_equal; lia).
      assert (0 < 10 ^ (k - x)) as Ps by (apply pow10_pos; lia).
      replace (- (x - k)) with (k - x) by lia.
      unfold Qeq, Qmult, Qplus, inject_Z; cbn [Qnum Qden].
      rewrite ?Pos2Z.inj_mul, ?Z2Pos.id by lia. rewrite E. ring.
    + rewrite Qpower10_neg by lia.
      assert (10 ^ (k - x) = 10 ^ k * 10 ^ (- x)) as E by (rewrite <- Z.pow_add_r by lia; f_equal; lia).
      assert (0 < 10 ^ (- x)) as Ps by (apply pow10_pos; lia).
      replace (- (x - k)) with (k - x) by lia.
      unfold Qeq, Qmult, Qplus, inject_Z; cbn [Qnum Qden].
      rewrite ?Pos2Z.inj_mul, ?Z2Pos.id by lia. rewrite E. rewrite ?Z2Pos.id by nia. ring.
Qed.

Lemma raw_dec_neg m s : raw_dec true m s == - raw_dec false m s.
Proof.
  unfold raw_dec. destruct (0 <=? s); unfold Qeq, Qopp; cbn [Qnum Qden]; ring.
Qed.

(* ------------------------------------------------------------------------------------ *)
(* %lf: the scanner inverts render_wlit                                                 *)


Definition frac_digits (w : wlit) : list byte := match wl_frac w with None => [] | Some f => f end.

Lemma wlit_value_raw w :
  wlit_value w ==
  raw_dec (sign_neg (wl_sign w)) (digits_value (wl_int w ++ frac_digits w))
          (wlit_exp w - Z.of_nat (length (frac_digits w))).
Proof.
  unfold wlit_value. rewrite digits_value_app.
  assert (raw_dec false (digits_value (wl_int w) * 10 ^ Z.of_nat (length (frac_digits w)) + digits_value (frac_digits w))
                  (wlit_exp w - Z.of_nat (length (frac_digits w)))
          == (inject_Z (digits_value (wl_int w)) +
              match wl_frac w with
              | None => 0%Q
              | Some f => digits_value f # Z.to_pos (10 ^ Z.of_nat (length f))
              end) * Qpower (10 # 1) (wlit_exp w)) as E.
  { rewrite raw_dec_pos by lia. unfold frac_digits. destruct (wl_frac w); reflexivity. }
  destruct (sign_neg (wl_sign w)).
  - rewrite raw_dec_neg, E. reflexivity.
  - rewrite E. reflexivity.
Qed.

Definition render_frac (fr : option (list byte)) : list byte := match fr with None => [] | Some f => 46 :: f end.
Definition render_exp (ex : option (byte * option bool * list byte)) : list byte :=
  match ex with None => [] | Some (c, s, ds) => c :: render_sign s ++ ds end.
Lemma render_wlit_eq w :
  render_wlit w = render_sign (wl_sign w) ++ wl_int w ++ render_frac (wl_frac w) ++ render_exp (wl_exp w).
Proof. reflexivity. Qed.

Lemma match_nonempty {A B} (l : list A) (x y : B) :
  nonempty l = true -> match l with [] => x | _ :: _ => y end = y.
Proof. destruct l; [discriminate|reflexivity]. Qed.

Lemma blank_not c : is_blank c = true ->
  (c =? 46) = false /\ (c =? 101) = false /\ (c =? 69) = false /\ is_digit c = false.
Proof. unfold is_blank, is_space, is_digit. lia. Qed.

Lemma scan_float_lit sep w r :
  blanks sep = true -> wlit_ok w = true -> starts_blank r ->
  exists r', scan_float (sep ++ render_wlit w ++ r) = CVal (Qred (wlit_value w)) r'.
Proof.
  intros Hsep Hok Hr.
  assert (forall r', CVal (dec_value (sign_neg (wl_sign w)) (digits_value (wl_int w ++ frac_digits w))
                                    (wlit_exp w - Z.of_nat (length (frac_digits w)))) r'
                     = CVal (Qred (wlit_value w)) r') as Hval.
  { intros r'. f_equal. rewrite dec_value_raw. apply Qred_complete. symmetry. apply wlit_value_raw. }
  unfold wlit_ok in Hok.
  apply andb_true_iff in Hok. destruct Hok as [Hok Hexp].
  apply andb_true_iff in Hok. destruct Hok as [Hok Hne].
  apply andb_true_iff in Hok. destruct Hok as [Hint Hfrac].
  unfold wlit_exp, frac_digits in Hval.
  destruct w as [sg ip fr ex]; cbn [wl_sign wl_int wl_frac wl_exp] in *.
  rewrite render_wlit_eq; cbn [wl_sign wl_int wl_frac wl_exp].
  set (sfrac := render_frac fr). set (sexp := render_exp ex).
  set (fd := match fr with None => [] | Some f => f end) in *.
  replace (sep ++ (render_sign sg ++ ip ++ sfrac ++ sexp) ++ r)
    with (sep ++ render_sign sg ++ ip ++ sfrac ++ sexp ++ r) by (rewrite <- !app_assoc; reflexivity).
  (* first byte of the unsigned part: a digit or '.' *)
  assert (exists c0 t0, ip ++ sfrac ++ sexp ++ r = c0 :: t0 /\ (is_digit c0 = true \/ c0 = 46) /\
                        (c0 = 48 -> match t0 with x :: _ => (x =? 120) = false /\ (x =? 88) = false | [] => True end))
    as (c0 & t0 & E0 & Hc0 & Hx).
  { destruct ip as [|c ip].
    - destruct fr as [f|]; [|discriminate]. subst sfrac; unfold render_frac. eexists _, _. split; [reflexivity|]. split; [auto|lia].
    - cbn [all_digits forallb] in Hint. apply andb_true_iff in Hint. destruct Hint as [Hc Hip].
      eexists _, _. split; [reflexivity|]. split; [auto|]. intros _.
      destruct ip as [|c' ip]; cbn [app].
      + subst sfrac sexp; unfold render_frac, render_exp. destruct fr as [f|]; cbn [app]; [lia|].
        destruct ex as [[[c' s] ds]|]; cbn [app].
        * lia.
        * destruct r as [|c' r]; [exact I|]. cbn in Hr. unfold is_blank, is_space in Hr. lia.
      + cbn in Hip. unfold is_digit in Hip. lia. }
  unfold scan_float. rewrite skip_ws_blanks by assumption.
  rewrite skip_ws_nonspace.
  2:{ destruct sg as [[|]|]; cbn [render_sign app]; try reflexivity. rewrite E0. cbn [starts_nonspace].
      destruct Hc0 as [Hc0|Hc0]; [apply digit_nonspace; exact Hc0|subst c0; reflexivity]. }
  rewrite scan_sign_render.
  2:{ rewrite E0. cbn. unfold is_digit in Hc0. lia. }
  replace (starts_unsupported (ip ++ sfrac ++ sexp ++ r)) with false.
  2:{ rewrite E0. unfold starts_unsupported. unfold is_digit in Hc0.
      destruct (Z.eq_dec c0 48) as [E48|N48].
      - specialize (Hx E48). subst c0. destruct t0 as [|x t0]; cbn; [reflexivity|]. cbn. lia.
      - lia. }
  (* integer part *)
  assert (starts_nondigit (sexp ++ r)) as Hnd3.
  { subst sexp; unfold render_exp. destruct ex as [[[c s] ds]|]; cbn [app].
    - cbn. unfold is_digit. lia.
    - apply starts_blank_nondigit. exact Hr. }
  assert (starts_nondigit (sfrac ++ sexp ++ r)) as Hnd2.
  { subst sfrac; unfold render_frac. destruct fr as [f|]; cbn [app]; [reflexivity|exact Hnd3]. }
  rewrite span_digits_app by assumption.
  (* fraction *)
  assert ((match sfrac ++ sexp ++ r with
           | c :: t => if c =? 46 then span_digits t else ([], sfrac ++ sexp ++ r)
           | [] => ([], [])
           end) = (fd, sexp ++ r)) as ->.
  { subst sfrac fd; unfold render_frac. destruct fr as [f|]; cbn [app].
    - cbn. rewrite span_digits_app by assumption. reflexivity.
    - subst sexp; unfold render_exp. destruct ex as [[[c s] ds]|]; cbn [app].
      + replace (c =? 46) with false by lia. reflexivity.
      + destruct r as [|c r]; [reflexivity|]. cbn in Hr. destruct (blank_not _ Hr) as (-> & _). reflexivity. }
  rewrite match_nonempty by assumption.
  (* exponent *)
  subst sexp; unfold render_exp. destruct ex as [[[c s] ds]|]; cbn [app].
  - apply andb_true_iff in Hexp. destruct Hexp as [Hexp Hds]. apply andb_true_iff in Hexp. destruct Hexp as [Hc Hdn].
    rewrite Hc. rewrite <- app_assoc. rewrite scan_sign_render by (apply digits_unsigned; assumption).
    rewrite span_digits_app by (auto using starts_blank_nondigit).
    rewrite match_nonempty by assumption. eexists. apply Hval.
  - destruct r as [|c r].
    + eexists. rewrite <- (Hval []). repeat f_equal; try lia.
    + cbn in Hr. destruct (blank_not _ Hr) as (_ & -> & -> & _). cbn [orb].
      eexists. rewrite <- (Hval (c :: r)). repeat f_equal; try lia.
Qed.

Lemma scan_float_blanks b : blanks b = true -> scan_float b = CFail.
Proof. intros H. unfold scan_float. rewrite skip_ws_all_blanks by assumption. reflexivity. Qed.
