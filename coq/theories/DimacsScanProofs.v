(* DimacsScanProofs.v — the sscanf conversions of DimacsModel.v invert the rendering of literals:
   white-space skipping, signs, digit strings, %d / %lu / %s / %lf; the canonical digit printer. *)
From Coq Require Import ZArith List Bool QArith Qreduction Qpower Lia ZifyBool.
From Parmcb Require Import DimacsModel.
Import ListNotations.
Local Open Scope Z_scope.

(* ------------------------------------------------------------------------------------ *)
(* what the unread input may start with                                                  *)

Definition starts_nonspace (r : list byte) : Prop := match r with [] => True | c :: _ => is_space c = false end.
Definition starts_nondigit (r : list byte) : Prop := match r with [] => True | c :: _ => is_digit c = false end.
Definition starts_blank (r : list byte) : Prop := match r with [] => True | c :: _ => is_blank c = true end.

Lemma is_blank_space c : is_blank c = true -> is_space c = true.
Proof. unfold is_blank. intros H. apply andb_true_iff in H. tauto. Qed.

Lemma digit_nonspace c : is_digit c = true -> is_space c = false.
Proof. unfold is_digit, is_space. lia. Qed.

Lemma blank_nondigit c : is_blank c = true -> is_digit c = false.
Proof. unfold is_blank, is_digit, is_space. lia. Qed.

Lemma starts_blank_nondigit r : starts_blank r -> starts_nondigit r.
Proof. destruct r as [|c r]; cbn; auto using blank_nondigit. Qed.

Lemma blanks_starts_blank b : blanks b = true -> starts_blank b.
Proof. destruct b as [|c b]; cbn; auto. intros H. apply andb_true_iff in H. tauto. Qed.

Lemma blanks_app_starts_blank b r : blanks b = true -> starts_blank r -> starts_blank (b ++ r).
Proof. destruct b as [|c b]; cbn; auto. intros H _. apply andb_true_iff in H. tauto. Qed.

(* ------------------------------------------------------------------------------------ *)
(* white space                                                                          *)

Lemma skip_ws_blanks b r : blanks b = true -> skip_ws (b ++ r) = skip_ws r.
Proof.
  induction b as [|c b IH]; cbn [app blanks forallb skip_ws]; auto.
  intros H. apply andb_true_iff in H. destruct H as [Hc Hb].
  rewrite (is_blank_space _ Hc). auto.
Qed.

Lemma skip_ws_nonspace r : starts_nonspace r -> skip_ws r = r.
Proof. destruct r as [|c r]; cbn; auto. intros ->. reflexivity. Qed.

Lemma skip_ws_all_blanks b : blanks b = true -> skip_ws b = [].
Proof. intros H. rewrite <- (app_nil_r b). rewrite skip_ws_blanks; auto. Qed.

Lemma skip_ws_idem s : skip_ws (skip_ws s) = skip_ws s.
Proof.
  induction s as [|c s IH]; cbn [skip_ws]; auto.
  destruct (is_space c) eqn:E; auto. cbn [skip_ws]. rewrite E. reflexivity.
Qed.

(* ------------------------------------------------------------------------------------ *)
(* digit strings                                                                        *)

Lemma span_digits_app ds r :
  all_digits ds = true -> starts_nondigit r -> span_digits (ds ++ r) = (ds, r).
Proof.
  induction ds as [|c ds IH]; cbn [app all_digits forallb span_digits]; intros H Hr.
  - destruct r as [|c r]; cbn in *; auto. rewrite Hr. reflexivity.
  - apply andb_true_iff in H. destruct H as [Hc Hd]. rewrite Hc, (IH Hd Hr). reflexivity.
Qed.

Lemma span_nonspace_app tok r :
  forallb (fun c => negb (is_space c) && negb (c =? 0)) tok = true ->
  match r with [] => True | c :: _ => is_space c = true end ->
  span_nonspace (tok ++ r) = (tok, r).
Proof.
  induction tok as [|c tok IH]; cbn [app forallb span_nonspace]; intros H Hr.
  - destruct r as [|c r]; cbn in *; auto. rewrite Hr. reflexivity.
  - apply andb_true_iff in H. destruct H as [Hc Hd].
    apply andb_true_iff in Hc. destruct Hc as [Hc _]. apply negb_true_iff in Hc.
    rewrite Hc, (IH Hd Hr). reflexivity.
Qed.

Lemma fold_digits_acc ds : forall a,
  fold_left (fun a c => 10 * a + (c - 48)) ds a = a * 10 ^ Z.of_nat (length ds) + digits_value ds.
Proof.
  unfold digits_value.
  induction ds as [|c ds IH]; intros a; cbn [fold_left length].
  - cbn. lia.
  - rewrite IH, (IH (10 * 0 + (c - 48))). rewrite Nat2Z.inj_succ, Z.pow_succ_r by lia. lia.
Qed.

Lemma digits_value_app a b :
  digits_value (a ++ b) = digits_value a * 10 ^ Z.of_nat (length b) + digits_value b.
Proof. unfold digits_value at 1. rewrite fold_left_app. rewrite fold_digits_acc. reflexivity. Qed.

Lemma digits_value_cons c ds :
  digits_value (c :: ds) = (c - 48) * 10 ^ Z.of_nat (length ds) + digits_value ds.
Proof. change (c :: ds) with ([c] ++ ds). rewrite digits_value_app. cbn. lia. Qed.

Lemma digits_value_nonneg ds : all_digits ds = true -> 0 <= digits_value ds.
Proof.
  induction ds as [|c ds IH]; cbn [all_digits forallb]; intros H.
  - cbn. lia.
  - apply andb_true_iff in H. destruct H as [Hc Hd]. rewrite digits_value_cons.
    specialize (IH Hd). unfold is_digit in Hc.
    assert (0 <= 10 ^ Z.of_nat (length ds)) by (apply Z.pow_nonneg; lia). nia.
Qed.

Lemma digits_value_repeat0 k : digits_value (repeat 48 k) = 0.
Proof.
  induction k as [|k IH]; cbn [repeat]; [reflexivity|]. rewrite digits_value_cons, IH. lia.
Qed.

(* ------------------------------------------------------------------------------------ *)
(* signs                                                                                *)

Definition starts_unsigned (r : list byte) : Prop :=
  match r with [] => True | c :: _ => (c =? 45) = false /\ (c =? 43) = false end.

Lemma scan_sign_render s r :
  starts_unsigned r -> scan_sign (render_sign s ++ r) = (sign_neg s, r).
Proof.
  destruct s as [[|]|]; cbn; auto.
  destruct r as [|c r]; cbn; auto. intros [-> ->]. reflexivity.
Qed.

Lemma digit_unsigned c r : is_digit c = true -> starts_unsigned (c :: r).
Proof. unfold is_digit. cbn. lia. Qed.

Lemma digits_unsigned ds r : nonempty ds = true -> all_digits ds = true -> starts_unsigned (ds ++ r).
Proof.
  destruct ds as [|c ds]; cbn [nonempty all_digits forallb app]; [discriminate|].
  intros _ H. apply andb_true_iff in H. apply digit_unsigned. tauto.
Qed.

Lemma sign_digits_nonspace s ds r :
  nonempty ds = true -> all_digits ds = true -> starts_nonspace (render_sign s ++ ds ++ r).
Proof.
  intros Hn Hd. destruct s as [[|]|]; cbn; try reflexivity.
  destruct ds as [|c ds]; [discriminate|]. cbn in *. apply andb_true_iff in Hd.
  apply digit_nonspace. tauto.
Qed.

(* ------------------------------------------------------------------------------------ *)
(* %d, %lu, %s                                                                          *)

Lemma int_ok_inv l : int_ok l = true -> nonempty (il_digits l) = true /\ all_digits (il_digits l) = true.
Proof. unfold int_ok. intros H. apply andb_true_iff in H. exact H. Qed.

Lemma scan_int_lit sep l r :
  blanks sep = true -> int_ok l = true -> - 2 ^ 31 <= int_value l <= 2 ^ 31 - 1 -> starts_nondigit r ->
  scan_int (sep ++ render_int l ++ r) = CVal (int_value l) r.
Proof.
  intros Hsep Hok Hrange Hr. destruct (int_ok_inv _ Hok) as [Hn Hd].
  unfold scan_int, render_int. rewrite skip_ws_blanks by assumption. rewrite <- app_assoc.
  rewrite skip_ws_nonspace by (apply sign_digits_nonspace; assumption).
  rewrite scan_sign_render by (apply digits_unsigned; assumption).
  rewrite span_digits_app by assumption.
  destruct (il_digits l) as [|c ds] eqn:E; [discriminate|].
  unfold int_value in Hrange. rewrite E in Hrange. unfold int_value. rewrite E.
  destruct (sign_neg (il_sign l));
    match goal with |- (if ?b then _ else _) = _ => replace b with true by lia end; reflexivity.
Qed.

Lemma scan_ulong_lit sep l r :
  blanks sep = true -> int_ok l = true -> 0 <= int_value l <= 2 ^ 64 - 1 -> starts_nondigit r ->
  scan_ulong (sep ++ render_int l ++ r) = CVal (int_value l) r.
Proof.
  intros Hsep Hok Hrange Hr. destruct (int_ok_inv _ Hok) as [Hn Hd].
  unfold scan_ulong, render_int. rewrite skip_ws_blanks by assumption. rewrite <- app_assoc.
  rewrite skip_ws_nonspace by (apply sign_digits_nonspace; assumption).
  rewrite scan_sign_render by (apply digits_unsigned; assumption).
  rewrite span_digits_app by assumption.
  pose proof (digits_value_nonneg _ Hd) as Hnn.
  destruct (il_digits l) as [|c ds] eqn:E; [discriminate|].
  unfold int_value in *. rewrite E in *.
  destruct (sign_neg (il_sign l)).
  - assert (digits_value (c :: ds) = 0) as -> by lia. reflexivity.
  - match goal with |- (if ?b then _ else _) = _ => replace b with true by lia end. reflexivity.
Qed.

(* whatever the sign, a representable magnitude is converted (to some value) *)
Lemma scan_ulong_lit_some sep l r :
  blanks sep = true -> int_ok l = true -> Z.abs (int_value l) <= 2 ^ 64 - 1 -> starts_nondigit r ->
  exists v, scan_ulong (sep ++ render_int l ++ r) = CVal v r.
Proof.
  intros Hsep Hok Hrange Hr. destruct (int_ok_inv _ Hok) as [Hn Hd].
  unfold scan_ulong, render_int. rewrite skip_ws_blanks by assumption. rewrite <- app_assoc.
  rewrite skip_ws_nonspace by (apply sign_digits_nonspace; assumption).
  rewrite scan_sign_render by (apply digits_unsigned; assumption).
  rewrite span_digits_app by assumption.
  pose proof (digits_value_nonneg _ Hd) as Hnn.
  destruct (il_digits l) as [|c ds] eqn:E; [discriminate|].
  unfold int_value in *. rewrite E in *.
  match goal with |- exists v, (if ?b then _ else _) = _ => replace b with true end.
  - eexists. reflexivity.
  - destruct (sign_neg (il_sign l)); lia.
Qed.

Lemma scan_ulong_blanks b : blanks b = true -> scan_ulong b = CFail.
Proof. intros H. unfold scan_ulong. rewrite skip_ws_all_blanks by assumption. reflexivity. Qed.

Lemma scan_str_tok sep tok r :
  blanks sep = true -> nonempty tok = true ->
  forallb (fun c => negb (is_space c) && negb (c =? 0)) tok = true ->
  match r with [] => True | c :: _ => is_space c = true end ->
  scan_str (sep ++ tok ++ r) = CVal tok r.
Proof.
  intros Hsep Hn Htok Hr. unfold scan_str. rewrite skip_ws_blanks by assumption.
  rewrite skip_ws_nonspace.
  - rewrite span_nonspace_app by assumption. destruct tok; [discriminate|reflexivity].
  - destruct tok as [|c tok]; [discriminate|]. cbn in *. apply andb_true_iff in Htok.
    destruct Htok as [Hc _]. apply andb_true_iff in Hc. destruct Hc as [Hc _]. apply negb_true_iff in Hc. exact Hc.
Qed.
