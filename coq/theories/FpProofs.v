(* FpProofs.v — correctness of the models in FpModel.v (property C18):
   ext_gcd / get_mult_inverse / is_prime, and SpVecFP histories refine dense vectors over Z/p. *)
From Coq Require Import ZArith List Bool Lia Znumtheory Sorted Zmisc Arith.
From Parmcb Require Import FpModel.
Import ListNotations.
Local Open Scope Z_scope.

(* ==================================================================================== *)
(* ext_gcd                                                                              *)

(* the loop invariant (B10 of the design) relative to the ordered pair hi >= lo > 0 *)
Definition ginv (hi lo : Z) (s : gstate) : Prop :=
  0 < a0 s /\ 0 < a1 s /\
  a0 s = x0 s * hi + y0 s * lo /\
  a1 s = x1 s * hi + y1 s * lo /\
  Z.gcd (a0 s) (a1 s) = Z.gcd hi lo /\
  sel (negb (idx s)) (a0 s) (a1 s) <= sel (idx s) (a0 s) (a1 s).

(* facts on one truncated division with 0 < b <= a *)
Lemma rem_step a b : 0 < b -> b <= a ->
  0 <= Z.rem a b < b /\ 2 * Z.rem a b < a /\ Z.rem a b = a - Z.quot a b * b /\
  Z.gcd (Z.rem a b) b = Z.gcd b a.
Proof.
  intros Hb Hab.
  rewrite Z.rem_mod_nonneg, Z.quot_div_nonneg by lia.
  pose proof (Z.mod_pos_bound a b Hb) as Hm.
  pose proof (Z.div_mod a b ltac:(lia)) as Hd.
  assert (Hq : 1 <= a / b) by (apply Z.div_le_lower_bound; lia).
  repeat split; try lia.
  - nia.
  - apply Z.gcd_mod; lia.
Qed.

Lemma gstep_inl hi lo s g x y : ginv hi lo s -> gstep s = inl (g, x, y) ->
  g = Z.gcd hi lo /\ 0 < g /\ g = x * hi + y * lo.
Proof.
  destruct s as [A0 A1 X0 X1 Y0 Y1 i].
  unfold ginv, gstep; cbn [a0 a1 x0 x1 y0 y1 idx].
  intros (P0 & P1 & L0 & L1 & G & O) H.
  destruct i; cbn [sel negb] in *.
  - destruct (Z.rem A1 A0 =? 0) eqn:E; [|discriminate].
    injection H as <- <- <-. apply Z.eqb_eq in E.
    apply Z.rem_divide in E; [|lia]. apply Z.divide_gcd_iff in E; [|lia].
    repeat split; auto; congruence.
  - destruct (Z.rem A0 A1 =? 0) eqn:E; [|discriminate].
    injection H as <- <- <-. apply Z.eqb_eq in E.
    apply Z.rem_divide in E; [|lia]. apply Z.divide_gcd_iff in E; [|lia].
    rewrite Z.gcd_comm in E.
    repeat split; auto; congruence.
Qed.

Lemma gstep_inr hi lo s s' : ginv hi lo s -> gstep s = inr s' ->
  ginv hi lo s' /\ 2 * (a0 s' * a1 s') <= a0 s * a1 s.
Proof.
  destruct s as [A0 A1 X0 X1 Y0 Y1 i].
  unfold ginv, gstep; cbn [a0 a1 x0 x1 y0 y1 idx].
  intros (P0 & P1 & L0 & L1 & G & O) H.
  destruct i; cbn [sel negb] in *.
  - destruct (Z.rem A1 A0 =? 0) eqn:E; [discriminate|].
    injection H as <-. cbn [a0 a1 x0 x1 y0 y1 idx sel negb].
    apply Z.eqb_neq in E.
    destruct (rem_step A1 A0 P0 O) as (B & Hh & Q & GG).
    assert (HL : Z.rem A1 A0 = (X1 - A1 ÷ A0 * X0) * hi + (Y1 - A1 ÷ A0 * Y0) * lo).
    { rewrite Q. rewrite L1 at 1. rewrite L0 at 2. ring. }
    assert (HG : Z.gcd A0 (Z.rem A1 A0) = Z.gcd hi lo) by (rewrite Z.gcd_comm, GG; exact G).
    split; [|nia]. repeat split; auto; lia.
  - destruct (Z.rem A0 A1 =? 0) eqn:E; [discriminate|].
    injection H as <-. cbn [a0 a1 x0 x1 y0 y1 idx sel negb].
    apply Z.eqb_neq in E.
    destruct (rem_step A0 A1 P1 O) as (B & Hh & Q & GG).
    assert (HL : Z.rem A0 A1 = (X0 - A0 ÷ A1 * X1) * hi + (Y0 - A0 ÷ A1 * Y1) * lo).
    { rewrite Q. rewrite L0 at 1. rewrite L1 at 2. ring. }
    assert (HG : Z.gcd (Z.rem A0 A1) A1 = Z.gcd hi lo) by (rewrite GG, Z.gcd_comm; exact G).
    split; [|nia]. repeat split; auto; lia.
Qed.

(* fuel n suffices as soon as the product _a[0]*_a[1] is below 2^n *)
Lemma gloop_ok hi lo : forall (n : nat) s, ginv hi lo s -> a0 s * a1 s < 2 ^ Z.of_nat n ->
  exists g x y, gloop n s = Some (g, x, y) /\ g = Z.gcd hi lo /\ 0 < g /\ g = x * hi + y * lo.
Proof.
  induction n as [|n IH]; intros s I Hlt.
  - exfalso. destruct I as (P0 & P1 & _). cbn in Hlt. nia.
  - cbn [gloop]. destruct (gstep s) as [[[g x] y]|s'] eqn:E.
    + exists g, x, y. split; auto. eapply gstep_inl; eauto.
    + destruct (gstep_inr hi lo s s' I E) as [I' Hh].
      apply IH; auto.
      rewrite Nat2Z.inj_succ, Z.pow_succ_r in Hlt by lia. lia.
Qed.

Lemma gfuel_enough hi lo : 0 < hi -> 0 < lo -> hi * lo < 2 ^ Z.of_nat (gfuel hi lo).
Proof.
  intros Hh Hl. unfold gfuel.
  pose proof (Z.log2_nonneg hi) as N1. pose proof (Z.log2_nonneg lo) as N2.
  destruct (Z.log2_spec hi Hh) as [_ B1]. destruct (Z.log2_spec lo Hl) as [_ B2].
  rewrite Nat2Z.inj_add, Z2Nat.id by lia.
  replace (Z.log2 hi + Z.log2 lo + Z.of_nat 3) with (Z.succ (Z.log2 hi) + Z.succ (Z.log2 lo) + 1) by lia.
  rewrite !Z.pow_add_r by lia.
  assert (0 < 2 ^ Z.succ (Z.log2 hi)) by (apply Z.pow_pos_nonneg; lia).
  assert (0 < 2 ^ Z.succ (Z.log2 lo)) by (apply Z.pow_pos_nonneg; lia).
  change (2 ^ 1) with 2. nia.
Qed.

Lemma gloop_main hi lo : 0 < lo -> lo <= hi ->
  exists g x y,
    gloop (gfuel hi lo) {| a0 := hi; a1 := lo; x0 := 1; x1 := 0; y0 := 0; y1 := 1; idx := false |}
      = Some (g, x, y) /\ g = Z.gcd hi lo /\ 0 < g /\ g = x * hi + y * lo.
Proof.
  intros Hl Hle. apply gloop_ok.
  - unfold ginv; cbn [a0 a1 x0 x1 y0 y1 idx sel negb]. repeat split; lia.
  - cbn [a0 a1]. apply gfuel_enough; lia.
Qed.

Definition sg (a : Z) : Z := if a <? 0 then -1 else 1.

Lemma abs_if a : (if a <? 0 then - a else a) = Z.abs a.
Proof. destruct (Z.ltb_spec a 0); lia. Qed.

Lemma abs_sg a : a * sg a = Z.abs a.
Proof. unfold sg. destruct (Z.ltb_spec a 0); lia. Qed.

Theorem ext_gcd_correct : forall a b : Z, (a, b) <> (0, 0) ->
  exists g x y, ext_gcd a b = GcdOk g x y /\ g = Z.gcd a b /\ 0 <= g /\ a * x + b * y = g.
Proof.
  intros a b Hnz. unfold ext_gcd. rewrite !abs_if. fold (sg a) (sg b).
  destruct (Z.eqb_spec (Z.abs a) 0) as [Ea|Ea].
  { exists (Z.abs b), 0, (sg b). assert (a = 0) as -> by lia.
    pose proof (Z.gcd_0_l b) as G0. pose proof (abs_sg b) as S0. repeat split; lia. }
  destruct (Z.eqb_spec (Z.abs b) 0) as [Eb|Eb].
  { exists (Z.abs a), (sg a), 0. assert (b = 0) as -> by lia.
    pose proof (Z.gcd_0_r a) as G0. pose proof (abs_sg a) as S0. repeat split; lia. }
  rewrite <- (Z.gcd_abs_l a b), <- (Z.gcd_abs_r (Z.abs a) b).
  destruct (Z.gtb_spec (Z.abs b) (Z.abs a)) as [Hs|Hs].
  - destruct (gloop_main (Z.abs b) (Z.abs a)) as (g & x & y & -> & Hg & Hp & Hl); [lia|lia|].
    exists g, (y * sg a), (x * sg b). repeat split; try lia.
    + rewrite Z.gcd_comm; auto.
    + rewrite Hl, <- (abs_sg a), <- (abs_sg b). ring.
  - destruct (gloop_main (Z.abs a) (Z.abs b)) as (g & x & y & -> & Hg & Hp & Hl); [lia|lia|].
    exists g, (x * sg a), (y * sg b). repeat split; try lia.
    rewrite Hl, <- (abs_sg a), <- (abs_sg b). ring.
Qed.

(* defect D1 of the pinned source: ext_gcd(-4, 0) reports x = 1 *)
Theorem ext_gcd_orig_refuted : exists a b xin yin, (a, b) <> (0, 0) /\
  exists g x y, ext_gcd_orig a b xin yin = GcdOk g x y /\ a * x + b * y <> g.
Proof.
  exists (-4), 0, 0, 0. split; [discriminate|].
  exists 4, 1, 0. split; [vm_compute; reflexivity|discriminate].
Qed.

(* ==================================================================================== *)
(* get_mult_inverse                                                                     *)

Theorem mult_inverse_correct : forall a p, 0 < p ->
  (Z.gcd a p = 1 -> exists x, mult_inverse a p = InvOk x /\ (a * x) mod p = 1 mod p) /\
  (Z.gcd a p <> 1 -> mult_inverse a p = InvThrow).
Proof.
  intros a p Hp. unfold mult_inverse.
  destruct (Z.leb_spec p 0) as [Hle|_]; [lia|].
  destruct (ext_gcd_correct a p) as (g & x & y & -> & Hg & Hn & Hl).
  { intros H; injection H; lia. }
  split; intros HG.
  - exists x. rewrite Hg, HG. cbn [Z.eqb Pos.eqb]. split; auto.
    replace (a * x) with (1 + (- y) * p) by lia. apply Z_mod_plus_full.
  - destruct (Z.eqb_spec g 1); [congruence|reflexivity].
Qed.

Theorem mult_inverse_nonpos : forall a p, p <= 0 -> mult_inverse a p = InvThrow.
Proof. intros a p Hp. unfold mult_inverse. destruct (Z.leb_spec p 0); [reflexivity|lia]. Qed.

(* ==================================================================================== *)
(* is_prime                                                                             *)

Lemma Ziter_nat (A : Type) (f : A -> A) (x : A) (n : nat) :
  Z.iter (Z.of_nat n) f x = Nat.iter n f x.
Proof.
  rewrite iter_nat_of_Z by lia. rewrite Zabs2Nat.id. reflexivity.
Qed.

(* the while loop after k iterations: still running at t = 2 + k iff no t in [2, 2+k) divides p *)
Lemma ploop_spec p : forall k : nat,
  (snd (Nat.iter k (pstep p) (2, None)) = None /\
   fst (Nat.iter k (pstep p) (2, None)) = 2 + Z.of_nat k /\
   forall t, 2 <= t < 2 + Z.of_nat k -> Z.rem p t <> 0)
  \/ (snd (Nat.iter k (pstep p) (2, None)) = Some false /\
      exists t, 2 <= t < 2 + Z.of_nat k /\ Z.rem p t = 0).
Proof.
  induction k as [|k IH].
  - left. cbn [Nat.iter nat_rect fst snd]. repeat split; auto. intros t Ht. lia.
  - change (Nat.iter (S k) (pstep p) (2, None)) with (pstep p (Nat.iter k (pstep p) (2, None))).
    destruct (Nat.iter k (pstep p) (2, None)) as [t r]. cbn [fst snd] in IH.
    destruct IH as [(Hr & Ht & Hno)|(Hr & t0 & Ht0 & Hd)]; subst r.
    + cbn [pstep]. destruct (Z.eqb_spec (Z.rem p t) 0) as [E|E]; cbn [fst snd].
      * right. split; auto. exists t. split; [lia|auto].
      * left. repeat split; [lia|]. intros t' Ht'.
        destruct (Z.eq_dec t' t) as [->|Hne]; auto. apply Hno. lia.
    + right. cbn [pstep fst snd]. split; auto. exists t0. split; [lia|auto].
Qed.

Lemma ploop_verdict p k : 0 <= k ->
  (match snd (Z.iter k (pstep p) (2, None)) with Some r => r | None => true end = true)
  <-> (forall t, 2 <= t < 2 + k -> Z.rem p t <> 0).
Proof.
  intros Hk.
  assert (E : Z.iter k (pstep p) (2, None) = Nat.iter (Z.to_nat k) (pstep p) (2, None)).
  { rewrite <- Ziter_nat, Z2Nat.id by lia. reflexivity. }
  rewrite E.
  destruct (ploop_spec p (Z.to_nat k)) as [(Hr & _ & Hno)|(Hr & t0 & Ht0 & Hd)];
    rewrite Hr; rewrite Z2Nat.id in * by lia.
  - split; auto.
  - split; [discriminate|]. intros H. exfalso. apply (H t0); auto.
Qed.

Theorem is_prime_correct : forall p, 2 <= p -> (is_prime p = true <-> prime p).
Proof.
  intros p Hp. unfold is_prime.
  destruct (Z.eqb_spec p 1) as [E1|_]; [lia|].
  destruct (Z.eqb_spec p 2) as [->|N2]; [split; auto using prime_2|].
  destruct (Z.eqb_spec (Z.rem p 2) 0) as [Ev|Od].
  - split; [discriminate|]. intros Hpr. exfalso.
    apply prime_alt in Hpr. destruct Hpr as [_ H]. apply (H 2); [lia|].
    apply Z.rem_divide; [lia|auto].
  - pose proof (Z.sqrt_nonneg p) as Hs0.
    destruct (Z.sqrt_spec p ltac:(lia)) as [Hs1 Hs2].
    rewrite ploop_verdict by lia. rewrite <- prime_alt. unfold prime'. split.
    + intros H. split; [lia|]. intros n Hn [m Hm].
      assert (Hm2 : 2 <= m) by nia.
      destruct (Z_le_gt_dec n (Z.sqrt p + 1)) as [Hle|Hgt].
      * apply (H n); [lia|]. apply Z.rem_divide; [lia|]. exists m; auto.
      * assert (Hm' : m <= Z.sqrt p + 1) by nia.
        apply (H m); [lia|]. apply Z.rem_divide; [lia|]. exists n; lia.
    + intros [_ H] t Ht Hr. apply (H t); [nia|].
      apply Z.rem_divide; [lia|auto].
Qed.

(* defect D2 of the pinned source: 2 is reported composite *)
Theorem is_prime_orig_refuted : is_prime_orig 2 = false /\ prime 2.
Proof. split; [vm_compute; reflexivity|exact prime_2]. Qed.

(* ==================================================================================== *)
(* SpVecFP                                                                              *)

(* the `% p` followed by the two normalisation loops is the mathematical mod *)
Lemma fnorm_rem p z : 0 < p -> fnorm p (Z.rem z p) = z mod p.
Proof.
  intros Hp. unfold fnorm.
  pose proof (Z.quot_rem' z p) as E.
  pose proof (Z.rem_bound_abs z p ltac:(lia)) as B.
  destruct (Z.ltb_spec (Z.rem z p) 0) as [Hn|Hn].
  - destruct (Z.geb_spec (Z.rem z p + p) p) as [Hg|Hg]; [lia|].
    apply Z.mod_unique with (q := z ÷ p - 1); lia.
  - destruct (Z.geb_spec (Z.rem z p) p) as [Hg|Hg]; [lia|].
    apply Z.mod_unique with (q := z ÷ p); lia.
Qed.

(* ---- well-formed sparse vectors ------------------------------------------------- *)

Definition fidx (Q : nat -> Prop) (v : fvec) : Prop := Forall (fun e => Q (fst e)) v.
Definition fabove (z : nat) (v : fvec) : Prop := fidx (fun i => (z < i)%nat) v.
Definition fsorted (v : fvec) : Prop := StronglySorted (fun e1 e2 => (fst e1 < fst e2)%nat) v.
Definition fvals (p : Z) (v : fvec) : Prop := Forall (fun e => 1 <= snd e <= p - 1) v.
Definition fbounded (D : nat) (v : fvec) : Prop := fidx (fun i => (i < D)%nat) v.

Lemma fsorted_nil : fsorted []. Proof. constructor. Qed.

Lemma fsorted_inv i x v : fsorted ((i, x) :: v) -> fsorted v /\ fabove i v.
Proof. intros H; inversion H; subst; auto. Qed.

Lemma fsorted_cons i x v : fsorted v -> fabove i v -> fsorted ((i, x) :: v).
Proof. intros Hs Ha; constructor; auto. Qed.

Lemma fidx_inv Q i x v : fidx Q ((i, x) :: v) -> Q i /\ fidx Q v.
Proof. intros H; inversion H; subst; auto. Qed.

Lemma fidx_cons (Q : nat -> Prop) i x v : Q i -> fidx Q v -> fidx Q ((i, x) :: v).
Proof. intros Hq Hv; constructor; auto. Qed.

Lemma fidx_impl (Q Q' : nat -> Prop) v : (forall i, Q i -> Q' i) -> fidx Q v -> fidx Q' v.
Proof. intros HQ Hv. unfold fidx in *. eapply Forall_impl; [|exact Hv]. cbv beta. auto. Qed.

Lemma fabove_le z z' v : fabove z v -> (z' <= z)%nat -> fabove z' v.
Proof. intros Ha Hle. apply (fidx_impl (fun i => (z < i)%nat)); auto. intros i Hi; lia. Qed.

Lemma fvals_inv p i x v : fvals p ((i, x) :: v) -> 1 <= x <= p - 1 /\ fvals p v.
Proof. intros H; inversion H; subst; auto. Qed.

Lemma fvals_cons p i x v : 1 <= x <= p - 1 -> fvals p v -> fvals p ((i, x) :: v).
Proof. intros Hx Hv; constructor; auto. Qed.

Lemma fget_nil k : fget [] k = 0.
Proof. reflexivity. Qed.

Lemma fget_cons i x v k : fget ((i, x) :: v) k = if Nat.eqb k i then x else fget v k.
Proof. reflexivity. Qed.

Lemma fget_above z v k : fabove z v -> (k <= z)%nat -> fget v k = 0.
Proof.
  induction v as [|[i x] v IH]; intros Ha Hle; [reflexivity|].
  apply fidx_inv in Ha as [Hi Ha]. rewrite fget_cons.
  destruct (Nat.eqb_spec k i); [lia|auto].
Qed.

Lemma fget_range p v k : 0 < p -> fvals p v -> 0 <= fget v k < p.
Proof.
  intros Hp. induction v as [|[i x] v IH]; intros Hv.
  - rewrite fget_nil. lia.
  - apply fvals_inv in Hv as [Hx Hv]. rewrite fget_cons.
    destruct (Nat.eqb k i); [lia|auto].
Qed.

(* canonical form: a well-formed vector is determined by its coordinates *)
Lemma fvec_ext p u : forall v, fsorted u -> fsorted v -> fvals p u -> fvals p v ->
  (forall k, fget u k = fget v k) -> u = v.
Proof.
  induction u as [|[i x] u IH]; intros v Su Sv Vu Vv Hext.
  - destruct v as [|[j y] v]; auto.
    apply fvals_inv in Vv as [Hy _]. specialize (Hext j).
    rewrite fget_nil, fget_cons, Nat.eqb_refl in Hext. lia.
  - apply fsorted_inv in Su as [Su Au]. apply fvals_inv in Vu as [Hx Vu].
    destruct v as [|[j y] v].
    + specialize (Hext i). rewrite fget_nil, fget_cons, Nat.eqb_refl in Hext. lia.
    + apply fsorted_inv in Sv as [Sv Av]. apply fvals_inv in Vv as [Hy Vv].
      assert (i = j) as ->.
      { pose proof (Hext i) as Hi. pose proof (Hext j) as Hj.
        rewrite !fget_cons, Nat.eqb_refl in Hi, Hj.
        destruct (Nat.lt_trichotomy i j) as [Hlt|[Heq|Hgt]]; auto.
        - destruct (Nat.eqb_spec i j); [lia|].
          rewrite (fget_above j v i) in Hi by (auto; lia). lia.
        - destruct (Nat.eqb_spec j i); [lia|].
          rewrite (fget_above i u j) in Hj by (auto; lia). lia. }
      assert (x = y) as ->.
      { specialize (Hext j). rewrite !fget_cons, Nat.eqb_refl in Hext. exact Hext. }
      f_equal. apply IH; auto. intros k. specialize (Hext k). rewrite !fget_cons in Hext.
      destruct (Nat.eqb_spec k j) as [Heq|Hne]; auto.
      subst k. rewrite (fget_above j u j), (fget_above j v j); auto.
Qed.

(* ---- addition --------------------------------------------------------------------- *)

Lemma fadd_nil_l p v : fadd p [] v = v.
Proof. destruct v; reflexivity. Qed.

Lemma fadd_nil_r p u : fadd p u [] = u.
Proof. destruct u as [|[i x] u]; reflexivity. Qed.

Lemma fadd_cons p i x u j y v :
  fadd p ((i, x) :: u) ((j, y) :: v) =
  match Nat.compare i j with
  | Lt => (i, x) :: fadd p u ((j, y) :: v)
  | Gt => (j, y) :: fadd p ((i, x) :: u) v
  | Eq => if fnorm p (Z.rem (x + y) p) =? 0 then fadd p u v
          else (i, fnorm p (Z.rem (x + y) p)) :: fadd p u v
  end.
Proof. reflexivity. Qed.

Lemma fadd_idx p (Q : nat -> Prop) u : forall v, fidx Q u -> fidx Q v -> fidx Q (fadd p u v).
Proof.
  induction u as [|[i x] u IHu]; intros v Hu Hv.
  - rewrite fadd_nil_l; auto.
  - induction v as [|[j y] v IHv].
    + rewrite fadd_nil_r; auto.
    + rewrite fadd_cons.
      pose proof (fidx_inv _ _ _ _ Hu) as [Qi Hu']. pose proof (fidx_inv _ _ _ _ Hv) as [Qj Hv'].
      destruct (Nat.compare i j).
      * destruct (fnorm p (Z.rem (x + y) p) =? 0); [|apply fidx_cons]; auto.
      * apply fidx_cons; auto.
      * apply fidx_cons; auto.
Qed.

Lemma fadd_vals p u : 0 < p -> forall v, fvals p u -> fvals p v -> fvals p (fadd p u v).
Proof.
  intros Hp. induction u as [|[i x] u IHu]; intros v Hu Hv.
  - rewrite fadd_nil_l; auto.
  - induction v as [|[j y] v IHv].
    + rewrite fadd_nil_r; auto.
    + rewrite fadd_cons.
      pose proof (fvals_inv _ _ _ _ Hu) as [Rx Hu']. pose proof (fvals_inv _ _ _ _ Hv) as [Ry Hv'].
      destruct (Nat.compare i j).
      * rewrite fnorm_rem by auto.
        destruct (Z.eqb_spec ((x + y) mod p) 0) as [E|E]; auto.
        apply fvals_cons; auto. pose proof (Z.mod_pos_bound (x + y) p Hp). lia.
      * apply fvals_cons; auto.
      * apply fvals_cons; auto.
Qed.

Lemma fadd_sorted p u : forall v, fsorted u -> fsorted v -> fsorted (fadd p u v).
Proof.
  induction u as [|[i x] u IHu]; intros v Hu Hv.
  - rewrite fadd_nil_l; auto.
  - induction v as [|[j y] v IHv].
    + rewrite fadd_nil_r; auto.
    + rewrite fadd_cons.
      pose proof (fsorted_inv _ _ _ Hu) as [Hu' Au]. pose proof (fsorted_inv _ _ _ Hv) as [Hv' Av].
      destruct (Nat.compare_spec i j) as [->|Hlt|Hgt].
      * destruct (fnorm p (Z.rem (x + y) p) =? 0); auto.
        apply fsorted_cons; auto. apply fadd_idx; auto.
      * apply fsorted_cons; auto. apply fadd_idx; auto.
        apply fidx_cons; auto. apply (fabove_le j); auto; lia.
      * apply fsorted_cons; auto. apply fadd_idx; auto.
        apply fidx_cons; auto. apply (fabove_le i); auto; lia.
Qed.

(* coordinatewise: (u + v)[k] = (u[k] + v[k]) mod p *)
Lemma fadd_get p : 0 < p -> forall u v, fsorted u -> fsorted v -> fvals p u -> fvals p v ->
  forall k, fget (fadd p u v) k = (fget u k + fget v k) mod p.
Proof.
  intros Hp. induction u as [|[i x] u IHu]; intros v Su Sv Vu Vv k.
  - rewrite fadd_nil_l, fget_nil, Z.add_0_l. symmetry. apply Z.mod_small. apply fget_range; auto.
  - induction v as [|[j y] v IHv].
    + rewrite fadd_nil_r, fget_nil, Z.add_0_r. symmetry. apply Z.mod_small. apply fget_range; auto.
    + rewrite fadd_cons.
      pose proof (fsorted_inv _ _ _ Su) as [Su' Au]. pose proof (fsorted_inv _ _ _ Sv) as [Sv' Av].
      pose proof (fvals_inv _ _ _ _ Vu) as [Rx Vu']. pose proof (fvals_inv _ _ _ _ Vv) as [Ry Vv'].
      destruct (Nat.compare_spec i j) as [->|Hlt|Hgt].
      * rewrite fnorm_rem by auto. rewrite (fget_cons j x), (fget_cons j y).
        destruct (Nat.eqb_spec k j) as [->|Hne].
        -- destruct (Z.eqb_spec ((x + y) mod p) 0) as [E0|E0].
           ++ rewrite IHu by auto. rewrite (fget_above j u j), (fget_above j v j) by auto.
              rewrite E0. reflexivity.
           ++ rewrite fget_cons, Nat.eqb_refl. reflexivity.
        -- destruct (Z.eqb_spec ((x + y) mod p) 0) as [E0|E0].
           ++ apply IHu; auto.
           ++ rewrite fget_cons. destruct (Nat.eqb_spec k j); [contradiction|]. apply IHu; auto.
      * rewrite !(fget_cons i x). rewrite IHu by auto.
        destruct (Nat.eqb_spec k i) as [->|Hne]; [|reflexivity].
        rewrite (fget_above i ((j, y) :: v) i), Z.add_0_r, Z.mod_small; auto; try lia.
        apply fidx_cons; auto. apply (fabove_le j); auto; lia.
      * rewrite !(fget_cons j y). rewrite IHv by auto.
        destruct (Nat.eqb_spec k j) as [->|Hne]; [|reflexivity].
        rewrite (fget_above j ((i, x) :: u) j), Z.add_0_l, Z.mod_small; auto; try lia.
        apply fidx_cons; auto. apply (fabove_le i); auto; lia.
Qed.

(* ---- scaling ---------------------------------------------------------------------- *)

Lemma fscale_cons p a i x u :
  fscale p a ((i, x) :: u) =
  if fnorm p (Z.rem (x * a) p) =? 0 then fscale p a u
  else (i, fnorm p (Z.rem (x * a) p)) :: fscale p a u.
Proof. reflexivity. Qed.

Lemma fscale_idx p a (Q : nat -> Prop) u : fidx Q u -> fidx Q (fscale p a u).
Proof.
  induction u as [|[i x] u IH]; intros Hu; [exact Hu|].
  apply fidx_inv in Hu as [Qi Hu]. rewrite fscale_cons.
  destruct (fnorm p (Z.rem (x * a) p) =? 0); [|apply fidx_cons]; auto.
Qed.

Lemma fscale_vals p a u : 0 < p -> fvals p (fscale p a u).
Proof.
  intros Hp. induction u as [|[i x] u IH]; [constructor|].
  rewrite fscale_cons, fnorm_rem by auto.
  destruct (Z.eqb_spec ((x * a) mod p) 0) as [E|E]; auto.
  apply fvals_cons; auto. pose proof (Z.mod_pos_bound (x * a) p Hp). lia.
Qed.

Lemma fscale_sorted p a u : fsorted u -> fsorted (fscale p a u).
Proof.
  induction u as [|[i x] u IH]; intros Hu; [exact Hu|].
  apply fsorted_inv in Hu as [Hu Au]. rewrite fscale_cons.
  destruct (fnorm p (Z.rem (x * a) p) =? 0); auto.
  apply fsorted_cons; auto. apply fscale_idx; auto.
Qed.

(* coordinatewise: (u * a)[k] = (u[k] * a) mod p, for every integer a *)
Lemma fscale_get p a : 0 < p -> forall u, fsorted u ->
  forall k, fget (fscale p a u) k = (fget u k * a) mod p.
Proof.
  intros Hp. induction u as [|[i x] u IH]; intros Su k.
  - cbn [fscale]. rewrite fget_nil, Z.mul_0_l, Z.mod_0_l; lia.
  - apply fsorted_inv in Su as [Su Au]. rewrite fscale_cons, fnorm_rem, (fget_cons i x) by auto.
    destruct (Nat.eqb_spec k i) as [->|Hne].
    + destruct (Z.eqb_spec ((x * a) mod p) 0) as [E0|E0].
      * rewrite IH by auto. rewrite (fget_above i u i) by auto.
        rewrite E0, Z.mul_0_l, Z.mod_0_l; lia.
      * rewrite fget_cons, Nat.eqb_refl. reflexivity.
    + destruct (Z.eqb_spec ((x * a) mod p) 0) as [E0|E0].
      * apply IH; auto.
      * rewrite fget_cons. destruct (Nat.eqb_spec k i); [contradiction|]. apply IH; auto.
Qed.

(* ---- dot product ------------------------------------------------------------------ *)

Lemma fdot_acc_nil_l p res v : fdot_acc p res [] v = res.
Proof. destruct v; reflexivity. Qed.

Lemma fdot_acc_nil_r p res u : fdot_acc p res u [] = res.
Proof. destruct u as [|[i x] u]; reflexivity. Qed.

Lemma fdot_acc_cons p res i x u j y v :
  fdot_acc p res ((i, x) :: u) ((j, y) :: v) =
  match Nat.compare i j with
  | Lt => fdot_acc p res u ((j, y) :: v)
  | Gt => fdot_acc p res ((i, x) :: u) v
  | Eq => fdot_acc p (Z.rem (res + Z.rem (x * y) p) p) u v
  end.
Proof. reflexivity. Qed.

(* sum over the stored entries of u of value * g(index), in Z (no reduction) *)
Definition fsdot (g : nat -> Z) (u : fvec) : Z :=
  fold_right (fun e acc => snd e * g (fst e) + acc) 0 u.

Lemma fsdot_cons g i x u : fsdot g ((i, x) :: u) = x * g i + fsdot g u.
Proof. reflexivity. Qed.

Lemma fsdot_ext (g g' : nat -> Z) u : fidx (fun i => g i = g' i) u -> fsdot g u = fsdot g' u.
Proof.
  induction u as [|[i x] u IH]; intros Hu; [reflexivity|].
  apply fidx_inv in Hu as [Hi Hu]. rewrite !fsdot_cons, Hi, IH; auto.
Qed.

Lemma fsdot_zero (g : nat -> Z) u : (forall i, g i = 0) -> fsdot g u = 0.
Proof.
  intros Hg. induction u as [|[i x] u IH]; [reflexivity|].
  rewrite fsdot_cons, Hg, IH. lia.
Qed.

Lemma fsdot_skip j y v u : fabove j u -> fsdot (fget ((j, y) :: v)) u = fsdot (fget v) u.
Proof.
  intros Ha. apply fsdot_ext. apply (fidx_impl (fun i => (j < i)%nat)); auto.
  intros i Hi. rewrite fget_cons. destruct (Nat.eqb_spec i j); [lia|reflexivity].
Qed.

Lemma fdot_acc_spec p : 0 < p -> forall u v res,
  fsorted u -> fsorted v -> fvals p u -> fvals p v -> 0 <= res < p ->
  fdot_acc p res u v = (res + fsdot (fget v) u) mod p.
Proof.
  intros Hp. induction u as [|[i x] u IHu]; intros v.
  - intros res _ _ _ _ Hres. rewrite fdot_acc_nil_l. cbn [fsdot fold_right].
    rewrite Z.add_0_r, Z.mod_small; auto.
  - induction v as [|[j y] v IHv]; intros res Su Sv Vu Vv Hres.
    + rewrite fdot_acc_nil_r, fsdot_zero by apply fget_nil.
      rewrite Z.add_0_r, Z.mod_small; auto.
    + rewrite fdot_acc_cons, fsdot_cons.
      pose proof (fsorted_inv _ _ _ Su) as [Su' Au]. pose proof (fsorted_inv _ _ _ Sv) as [Sv' Av].
      pose proof (fvals_inv _ _ _ _ Vu) as [Rx Vu']. pose proof (fvals_inv _ _ _ _ Vv) as [Ry Vv'].
      destruct (Nat.compare_spec i j) as [->|Hlt|Hgt].
      * rewrite (Z.rem_mod_nonneg (x * y) p) by nia.
        pose proof (Z.mod_pos_bound (x * y) p Hp) as Hb.
        rewrite Z.rem_mod_nonneg by lia.
        rewrite Z.add_mod_idemp_r by lia.
        rewrite IHu; auto; [|apply Z.mod_pos_bound; auto].
        rewrite Z.add_mod_idemp_l by lia.
        rewrite fget_cons, Nat.eqb_refl, fsdot_skip by auto. f_equal. ring.
      * rewrite IHu; auto. rewrite (fget_above i ((j, y) :: v) i); auto.
        -- f_equal. ring.
        -- apply fidx_cons; auto. apply (fabove_le j); auto; lia.
      * rewrite IHv; auto. rewrite fsdot_cons, fget_cons.
        destruct (Nat.eqb_spec i j); [lia|].
        rewrite fsdot_skip; auto. apply (fabove_le i); auto; lia.
Qed.

(* dense side: the fold with a reduction in every step is the reduction of the plain sum *)
Definition zsum (h : nat -> Z) (l : list nat) : Z := fold_right (fun j acc => h j + acc) 0 l.

Lemma zsum_cons h a l : zsum h (a :: l) = h a + zsum h l.
Proof. reflexivity. Qed.

Lemma dfdot_zsum p D f g : 0 < p -> dfdot p D f g = zsum (fun j => f j * g j) (seq 0 D) mod p.
Proof.
  intros Hp. unfold dfdot. induction (seq 0 D) as [|a l IH].
  - cbn [fold_right zsum]. rewrite Z.mod_0_l; lia.
  - cbn [fold_right]. rewrite zsum_cons, IH, Z.add_mod_idemp_r by lia. reflexivity.
Qed.

Lemma zsum_ext (h h' : nat -> Z) l : (forall j, In j l -> h j = h' j) -> zsum h l = zsum h' l.
Proof.
  induction l as [|a l IH]; intros H; [reflexivity|].
  rewrite !zsum_cons, IH, (H a); auto using in_eq, in_cons.
Qed.

Lemma zsum_add (h h' : nat -> Z) l : zsum (fun j => h j + h' j) l = zsum h l + zsum h' l.
Proof. induction l as [|a l IH]; [reflexivity|]. rewrite !zsum_cons, IH. ring. Qed.

Lemma zsum_zero l : zsum (fun _ => 0) l = 0.
Proof. induction l as [|a l IH]; [reflexivity|]. rewrite zsum_cons, IH. reflexivity. Qed.

Lemma zsum_point (c : nat -> Z) i l : NoDup l ->
  zsum (fun j => if Nat.eqb j i then c j else 0) l = if in_dec Nat.eq_dec i l then c i else 0.
Proof.
  induction l as [|a l IH]; intros Hnd; [reflexivity|].
  inversion Hnd as [|a' l' Hna Hnd']; subst. rewrite zsum_cons, (IH Hnd').
  destruct (in_dec Nat.eq_dec i (a :: l)) as [Hin|Hnin]; destruct (in_dec Nat.eq_dec i l) as [Hin'|Hnin'].
  - destruct (Nat.eqb_spec a i); [subst; contradiction|lia].
  - destruct Hin as [Heq|]; [subst a|contradiction]. rewrite Nat.eqb_refl. lia.
  - exfalso; apply Hnin; right; auto.
  - destruct (Nat.eqb_spec a i); [subst; exfalso; apply Hnin; left; auto|lia].
Qed.

Lemma zsum_sparse D u (g : nat -> Z) : fsorted u -> fbounded D u ->
  zsum (fun j => fget u j * g j) (seq 0 D) = fsdot g u.
Proof.
  induction u as [|[i x] u IH]; intros Su Bu.
  - cbn [fsdot fold_right]. rewrite <- (zsum_zero (seq 0 D)). apply zsum_ext.
    intros j _. rewrite fget_nil. lia.
  - apply fsorted_inv in Su as [Su Au]. apply fidx_inv in Bu as [Hi Bu].
    rewrite fsdot_cons, <- (IH Su Bu).
    rewrite (zsum_ext _ (fun j => (if Nat.eqb j i then x * g j else 0) + fget u j * g j)).
    + rewrite zsum_add, zsum_point by apply seq_NoDup.
      destruct (in_dec Nat.eq_dec i (seq 0 D)) as [_|Hnin]; [reflexivity|].
      exfalso; apply Hnin; apply in_seq; lia.
    + intros j _. rewrite fget_cons. destruct (Nat.eqb_spec j i) as [->|Hne]; [|lia].
      rewrite (fget_above i u i) by auto. lia.
Qed.

Lemma fdot_dense p D u v : 0 < p ->
  fsorted u -> fsorted v -> fvals p u -> fvals p v -> fbounded D u ->
  fdot p u v = dfdot p D (fget u) (fget v).
Proof.
  intros Hp Su Sv Vu Vv Bu. unfold fdot.
  rewrite fdot_acc_spec, dfdot_zsum, zsum_sparse, Z.add_0_l by (auto; lia). reflexivity.
Qed.

Lemma dfdot_ext p D (f f' g g' : dfvec) : (forall j, f j = f' j) -> (forall j, g j = g' j) ->
  dfdot p D f g = dfdot p D f' g'.
Proof.
  intros Hf Hg. unfold dfdot. induction (seq 0 D) as [|a l IH]; [reflexivity|].
  cbn [fold_right]. rewrite IH, Hf, Hg. reflexivity.
Qed.

(* ---- size() = number of non-zero coordinates -------------------------------------- *)

Lemma filter_point (f : nat -> bool) x l : NoDup l -> f x = false ->
  length (filter (fun j => Nat.eqb j x || f j) l) =
  ((if in_dec Nat.eq_dec x l then 1 else 0) + length (filter f l))%nat.
Proof.
  intros Hnd Hfx; induction l as [|a l IH]; [reflexivity|].
  inversion Hnd as [|a' l' Hna Hnd']; subst. cbn [filter]. specialize (IH Hnd').
  destruct (Nat.eqb_spec a x) as [->|Hne]; cbn [orb].
  - rewrite Hfx. cbn [length]. rewrite IH.
    destruct (in_dec Nat.eq_dec x l); [contradiction|].
    destruct (in_dec Nat.eq_dec x (x :: l)) as [_|Hn]; [lia|exfalso; apply Hn; left; auto].
  - destruct (in_dec Nat.eq_dec x (a :: l)) as [[->|Hin]|Hnin]; [congruence| |].
    + destruct (in_dec Nat.eq_dec x l); [|contradiction]. destruct (f a); cbn [length]; lia.
    + destruct (in_dec Nat.eq_dec x l) as [Hin|_]; [exfalso; apply Hnin; right; auto|].
      destruct (f a); cbn [length]; lia.
Qed.

Lemma fsize_dense p D u : fsorted u -> fvals p u -> fbounded D u -> length u = dfsize D (fget u).
Proof.
  unfold dfsize. induction u as [|[i x] u IH]; intros Su Vu Bu.
  - induction (seq 0 D) as [|a l IHl]; [reflexivity|]. cbn [filter]. rewrite fget_nil. exact IHl.
  - apply fsorted_inv in Su as [Su Au]. apply fvals_inv in Vu as [Hx Vu].
    apply fidx_inv in Bu as [Hi Bu].
    rewrite (filter_ext _ (fun j => Nat.eqb j i || negb (fget u j =? 0))).
    + rewrite filter_point; [|apply seq_NoDup|rewrite (fget_above i u i) by auto; reflexivity].
      destruct (in_dec Nat.eq_dec i (seq 0 D)) as [_|Hnin].
      * cbn [length]. rewrite (IH Su Vu Bu). reflexivity.
      * exfalso; apply Hnin; apply in_seq; lia.
    + intros j. rewrite fget_cons. destruct (Nat.eqb_spec j i) as [->|Hne]; cbn [orb]; [|reflexivity].
      destruct (Z.eqb_spec x 0); [lia|reflexivity].
Qed.

Lemma dfsize_ext D (f f' : dfvec) : (forall j, f j = f' j) -> dfsize D f = dfsize D f'.
Proof. intros Hf. unfold dfsize. f_equal. apply filter_ext. intros j. rewrite Hf. reflexivity. Qed.

(* ---- the refinement over histories -------------------------------------------------- *)

Definition fwf (p : Z) (D : nat) (v : fvec) : Prop := fsorted v /\ fvals p v /\ fbounded D v.

Definition frefines (p : Z) (D : nat) (s : fstore) (ds : dfstore) : Prop :=
  forall id, fwf p D (s id) /\ forall i, fget (s id) i = ds id i.

Lemma fwf_nil p D : fwf p D [].
Proof. repeat split; constructor. Qed.

Lemma fwf_add p D u v : 0 < p -> fwf p D u -> fwf p D v -> fwf p D (fadd p u v).
Proof.
  intros Hp (S1 & V1 & B1) (S2 & V2 & B2).
  repeat split; auto using fadd_sorted, fadd_vals. apply fadd_idx; auto.
Qed.

Lemma fwf_scale p D a u : 0 < p -> fwf p D u -> fwf p D (fscale p a u).
Proof.
  intros Hp (S1 & V1 & B1).
  repeat split; auto using fscale_sorted, fscale_vals. apply fscale_idx; auto.
Qed.

Lemma frefines_upd p D s ds d v f :
  frefines p D s ds -> fwf p D v -> (forall i, fget v i = f i) ->
  frefines p D (fupd s d v) (fupd ds d f).
Proof.
  intros R Wv Mv id. unfold fupd. destruct (Nat.eqb id d); auto.
Qed.

Lemma fstep_refines p D s ds o : 2 <= p ->
  frefines p D s ds -> fop_in_dim D o ->
  frefines p D (fst (fstep p s o)) (fst (dfstep p D ds o)) /\
  snd (fstep p s o) = snd (dfstep p D ds o).
Proof.
  intros Hp R Hdim. assert (Hp0 : 0 < p) by lia.
  destruct o as [d i|d a|d a|d a b|d a|d a c|d c|d|a b|a];
    cbn [fstep dfstep fst snd fop_in_dim] in *.
  - split; auto. apply frefines_upd; auto.
    + repeat split.
      * apply fsorted_cons; constructor.
      * apply fvals_cons; [lia|constructor].
      * apply fidx_cons; [auto|constructor].
    + intros k. rewrite fget_cons, fget_nil. unfold dfunit. rewrite Z.mod_1_l by lia. reflexivity.
  - split; auto. destruct (R a) as (W1 & M1). apply frefines_upd; auto.
  - split; auto. destruct (R a) as (W1 & M1). apply frefines_upd; auto.
  - split; auto. destruct (R a) as (W1 & M1). destruct (R b) as (W2 & M2).
    apply frefines_upd; auto using fwf_add.
    intros k. destruct W1 as (S1 & V1 & B1). destruct W2 as (S2 & V2 & B2).
    rewrite fadd_get by auto. unfold dfadd. rewrite M1, M2. reflexivity.
  - split; auto. destruct (R d) as (W1 & M1). destruct (R a) as (W2 & M2).
    apply frefines_upd; auto using fwf_add.
    intros k. destruct W1 as (S1 & V1 & B1). destruct W2 as (S2 & V2 & B2).
    rewrite fadd_get by auto. unfold dfadd. rewrite M1, M2. reflexivity.
  - split; auto. destruct (R a) as (W1 & M1).
    apply frefines_upd; auto using fwf_scale.
    intros k. destruct W1 as (S1 & V1 & B1).
    rewrite fscale_get by auto. unfold dfscale. rewrite M1. reflexivity.
  - split; auto. destruct (R d) as (W1 & M1).
    apply frefines_upd; auto using fwf_scale.
    intros k. destruct W1 as (S1 & V1 & B1).
    rewrite fscale_get by auto. unfold dfscale. rewrite M1. reflexivity.
  - split; auto. apply frefines_upd; auto using fwf_nil.
  - split; auto. destruct (R a) as ((S1 & V1 & B1) & M1). destruct (R b) as ((S2 & V2 & B2) & M2).
    rewrite (fdot_dense p D) by auto. do 2 f_equal. apply dfdot_ext; auto.
  - split; auto. destruct (R a) as ((S1 & V1 & B1) & M1).
    rewrite (fsize_dense p D) by auto. do 2 f_equal. apply dfsize_ext; auto.
Qed.

Lemma frun_refines p D ops : 2 <= p -> forall s ds,
  frefines p D s ds -> Forall (fop_in_dim D) ops ->
  frefines p D (fst (frun p s ops)) (fst (dfrun p D ds ops)) /\
  snd (frun p s ops) = snd (dfrun p D ds ops).
Proof.
  intros Hp. induction ops as [|o ops IH]; intros s ds R HF; cbn [frun dfrun].
  - split; auto.
  - inversion HF as [|o' ops' Ho HF']; subst.
    destruct (fstep_refines p D s ds o Hp R Ho) as [R1 O1].
    destruct (fstep p s o) as [s1 o1]; destruct (dfstep p D ds o) as [ds1 do1]; cbn [fst snd] in *.
    destruct (IH s1 ds1 R1 HF') as [R2 O2].
    destruct (frun p s1 ops) as [s2 o2]; destruct (dfrun p D ds1 ops) as [ds2 do2]; cbn [fst snd] in *.
    split; auto. congruence.
Qed.

Lemma fempty_refines p D : frefines p D fempty dfempty.
Proof. intros id. split; [apply fwf_nil|reflexivity]. Qed.

(* the statement of C18 (SpVecFP part) *)
Theorem spvecfp_refines_dense : forall p D ops, 2 <= p -> Forall (fop_in_dim D) ops ->
  snd (frun p fempty ops) = snd (dfrun p D dfempty ops) /\
  forall id,
    StronglySorted (fun e1 e2 => (fst e1 < fst e2)%nat) (fst (frun p fempty ops) id) /\
    Forall (fun e => 1 <= snd e <= p - 1) (fst (frun p fempty ops) id) /\
    Forall (fun e => (fst e < D)%nat) (fst (frun p fempty ops) id) /\
    (forall i, fget (fst (frun p fempty ops) id) i = fst (dfrun p D dfempty ops) id i) /\
    length (fst (frun p fempty ops) id) = dfsize D (fst (dfrun p D dfempty ops) id).
Proof.
  intros p D ops Hp HF.
  destruct (frun_refines p D ops Hp _ _ (fempty_refines p D) HF) as [R O]. split; auto.
  intros id. destruct (R id) as ((S1 & V1 & B1) & M1).
  split; [exact S1|]. split; [exact V1|]. split; [exact B1|]. split; [exact M1|].
  rewrite (fsize_dense p D) by auto. apply dfsize_ext; auto.
Qed.
