(* OverflowTreesProofs4.v — C07, clause "overflows a signed integer", part 4: the plain parmcb::dijkstra
   (DijkstraModel.v) on a simple graph h with positive weights, any source.   S_h = wsum h wts, wmax_h = largest weight.
     ovt_dj_pop_final    when a vertex u is popped its distance is below the weight of every walk from the source
                         (first-exit argument on the invariant XInv of ApproxProofsDijkstraOpt.v)
     ovt_dj_pop_bounds   ... and lies in [0, S_h] (u is reachable, a shortest walk may be taken vertex-simple)
     ovt_dijkstra_plain_tr   EVERY tentative distance combine(d_u, w(e)) formed by a run lies in [0, S_h + wmax_h]
   No axioms. *)
From Coq Require Import List Arith Bool ZArith Lia Permutation.
From Parmcb Require Import GraphModel GraphSpec GraphLemmas HeapModel SpannerProofs LexSPProofsHeap LexSPProofsDist
     DijkstraModel ApproxProofsDijkstra ApproxProofsDijkstraOpt ApproxProofsEdge RefProofs1
     OverflowProofs1 OverflowProofs4 OverflowTreesModel OverflowTreesProofs1.
Import ListNotations.

Local Open Scope Z_scope.

Section Plain.
  Variable h : graph.
  Variable wts : list Z.
  Variable s : nat.
  Hypothesis Hsg : simple_graph h.
  Hypothesis Hpw : positive_weights h wts.
  Hypothesis Hs : (s < nv h)%nat.

  Local Notation S := (wsum h wts).
  Local Notation NoPend := (fun _ _ _ : nat => False).
  Local Notation DI := (DInv Z h s).
  Local Notation XI := (XInv h wts s).

  Let Hwf : wfg h := simple_wfg h Hsg.
  Let Hnn : forall e, 0 <= dj_wt Z 0 wts e := ap_dj_wt_nonneg wts (proj2 Hpw).

  (* every vertex of a tree order whose roots are the source is connected to the source *)
  Lemma ovt_dj_ord_connected pred l : tree_order h pred l ->
    (forall x, In x l -> nth x pred None = None -> x = s) -> forall x, In x l -> connected h s x.
  Proof.
    induction 1 as [|u older Ht IH Hnin Hp]; intros Hnone x Hin; [destruct Hin|].
    assert (Hnone' : forall y, In y older -> nth y pred None = None -> y = s)
      by (intros y Hy; apply Hnone; right; exact Hy).
    destruct Hin as [<-|Hin]; [|apply IH; assumption].
    destruct (nth u pred None) as [e|] eqn:E.
    - destruct (Hp e eq_refl) as (p & Hj & Hpo). destruct (IH Hnone' p Hpo) as [q Hq].
      exists (q ++ [(e, u)]). eapply walk_snoc; [exact Hwf|exact Hq|apply joins_sym; exact Hj].
    - rewrite (Hnone u (or_introl eq_refl) E). exists []. constructor. exact Hs.
  Qed.

  Lemma ovt_dj_heap_connected st ord u : DI NoPend st ord -> In u (dj_heap Z st) -> connected h s u.
  Proof.
    intros I Hu.
    assert (Hnone : forall x, In x ord -> nth x (dj_pred Z st) None = None -> x = s).
    { intros x Hx Hn. destruct (Nat.eq_dec x s) as [E|Hne]; [exact E|]. exfalso.
      apply (proj1 (d_mem _ _ _ _ _ _ I x Hne)); [apply in_or_app; left; exact Hx|exact Hn]. }
    destruct (Nat.eq_dec u s) as [->|Hne]; [exists []; constructor; exact Hs|].
    destruct (nth u (dj_pred Z st) None) as [e|] eqn:E.
    - destruct (d_heap _ _ _ _ _ _ I u e Hu E) as (p & Hj & Hp).
      destruct (ovt_dj_ord_connected _ _ (d_tree _ _ _ _ _ _ I) Hnone p Hp) as [q Hq].
      exists (q ++ [(e, u)]). eapply walk_snoc; [exact Hwf|exact Hq|apply joins_sym; exact Hj].
    - exfalso. apply (proj1 (d_mem _ _ _ _ _ _ I u Hne)); [apply in_or_app; right; exact Hu|exact E].
  Qed.

  (* first exit: a walk that leaves the popped set passes through a queued vertex that is not farther *)
  Lemma ovt_dj_exit st ord : DI NoPend st ord -> XI NoPend st ord ->
    forall x p v, walk h x p v -> forall dx, In x ord -> Dd st x dx -> ~ In v ord ->
    exists y dy, In y (dj_heap Z st) /\ Dd st y dy /\ dy <= dx + weight wts (wedges p).
  Proof.
    intros I X x p v Hw. induction Hw as [x Hx|x e y p z Hj Hw IH]; intros dx Hin Hdx Hv; [contradiction|].
    destruct (x_tri _ _ _ _ _ _ X x e y Hin Hj) as [[]|(dx' & dy & Hdx' & Hdy & Hle)].
    rewrite <- (Dd_fun _ _ _ _ Hdx Hdx') in Hle.
    pose proof (x_some _ _ _ _ _ _ X y dy Hdy) as Hy.
    cbn [wedges map fst]. fold (wedges p). rewrite rf_weight_cons.
    change (dj_wt Z 0 wts e) with (wt wts e) in Hle.
    destruct (in_dec Nat.eq_dec y ord) as [Hyo|Hyo].
    - destruct (IH dy Hyo Hdy Hv) as (y' & dy' & H1 & H2 & H3). exists y', dy'. split; [exact H1|]. split; [exact H2|lia].
    - apply in_app_or in Hy as [Hy|Hy]; [contradiction|]. exists y, dy. split; [exact Hy|]. split; [exact Hdy|].
      pose proof (rf_weight_nonneg h wts (wedges p) Hpw). lia.
  Qed.

  Lemma ovt_dj_top st ord u r du : XI NoPend st ord -> dj_heap Z st = u :: r -> Dd st u du ->
    forall y dy, In y (dj_heap Z st) -> Dd st y dy -> du <= dy.
  Proof.
    intros X Eh Hdu y dy Hy Hdy. apply (In_nth _ _ 0%nat) in Hy as (j & Hj & Ey).
    pose proof (hp_heap_top _ _ _ _ (x_heap _ _ _ _ _ _ X (Z.max du dy + 1)) j Hj) as Hle.
    rewrite Ey, Eh in Hle. cbn [nth] in Hle. unfold dj_key in Hle.
    unfold Dd in Hdu, Hdy. rewrite Hdu, Hdy in Hle. cbn [mM] in Hle. lia.
  Qed.

  Lemma ovt_dj_pop_final st ord u r du : DI NoPend st ord -> XI NoPend st ord -> dj_heap Z st = u :: r ->
    Dd st u du -> forall p, walk h s p u -> du <= weight wts (wedges p).
  Proof.
    intros I X Eh Hdu p Hp.
    pose proof (rf_weight_nonneg h wts (wedges p) Hpw) as H0.
    pose proof (x_src _ _ _ _ _ _ X) as Hs0.
    assert (Huh : In u (dj_heap Z st)) by (rewrite Eh; left; reflexivity).
    pose proof (proj1 (d_src _ _ _ _ _ _ I)) as Hsin. apply in_app_or in Hsin as [Hso|Hsh].
    - assert (Huo : ~ In u ord).
      { intros Hc. exact (NoDup_app_disjoint u _ _ (d_nodup _ _ _ _ _ _ I) Hc Huh). }
      destruct (ovt_dj_exit st ord I X s p u Hp 0 Hso Hs0 Huo) as (y & dy & Hy & Hdy & Hle).
      pose proof (ovt_dj_top st ord u r du X Eh Hdu y dy Hy Hdy). lia.
    - pose proof (ovt_dj_top st ord u r du X Eh Hdu s 0 Hsh Hs0). lia.
  Qed.

  Lemma ovt_dj_pop_bounds st ord u r du : DI NoPend st ord -> XI NoPend st ord -> dj_heap Z st = u :: r ->
    Dd st u du -> 0 <= du <= S.
  Proof.
    intros I X Eh Hdu.
    assert (Huh : In u (dj_heap Z st)) by (rewrite Eh; left; reflexivity). split.
    - destruct (x_dist _ _ _ _ _ _ X u (in_or_app _ _ _ (or_intror Huh))) as (d & Hd & H0).
      rewrite (Dd_fun _ _ _ _ Hdu Hd). exact H0.
    - apply (ovt_connected_le_S h wts s u du Hsg Hpw (ovt_dj_heap_connected st ord u I Huh)).
      intros p Hp. rewrite lz_sum_weight. eapply ovt_dj_pop_final; eassumption.
  Qed.

  (* ---- the trace -------------------------------------------------------------------------------------------------- *)

  Lemma ovt_dj_relax_tr_vals n u du st e w : forall v, In v (snd (dj_relax_tr n wts s u du st (e, w))) ->
    v = du + wt wts e.
  Proof.
    intros v Hv. unfold dj_relax_tr in Hv. destruct st as [st0|]; [|destruct Hv].
    destruct (Nat.eqb w u); [destruct Hv|]. destruct (Nat.eqb w s); [destruct Hv|].
    cbn [snd] in Hv. destruct Hv as [<-|[]]. reflexivity.
  Qed.

  Lemma ovt_dj_fold_tr_vals n u du : forall es st v, In v (snd (dj_fold_tr n wts s u du es st)) ->
    exists e w, In (e, w) es /\ v = du + wt wts e.
  Proof.
    induction es as [|[e w] es IH]; intros st v Hv; [destruct Hv|].
    cbn [dj_fold_tr snd] in Hv. apply in_app_iff in Hv as [Hv|Hv].
    - exists e, w. split; [left; reflexivity|]. eapply ovt_dj_relax_tr_vals; exact Hv.
    - destruct (IH _ v Hv) as (e' & w' & Hin & E). exists e', w'. split; [right; exact Hin|exact E].
  Qed.

  Lemma ovt_dj_loop_tr : forall fuel st ord, DI NoPend st ord -> XI NoPend st ord ->
    Forall (ovt_tent h wts) (snd (dj_loop_tr fuel h wts s st)).
  Proof.
    induction fuel as [|fuel IH]; intros st ord I X; [constructor|].
    cbn [dj_loop_tr]. destruct (dj_heap Z st) as [|u r] eqn:Eh; [constructor|].
    assert (Hu : In u (ord ++ dj_heap Z st)) by (rewrite Eh; apply in_or_app; right; left; reflexivity).
    destruct (x_dist _ _ _ _ _ _ X u Hu) as (du & Hdu & _).
    pose proof (ovt_dj_pop_bounds st ord u r du I X Eh Hdu) as Hb.
    unfold Dd in Hdu. rewrite Hdu. cbv zeta.
    destruct (dj_pop_inv Z Z.ltb h s st ord u r I Eh) as (I1 & _ & _ & _).
    pose proof (dz_pop_inv h wts s Hs st ord u r du I X Eh Hdu) as X1.
    unfold dj_popped in I1, X1. rewrite Eh in I1, X1.
    match goal with |- context [dj_fold_tr ?n ?w ?s0 ?u0 ?d ?l (Some ?st1)] =>
      destruct (dz_fold_inv h Hwf wts s Hs Hnn u ord du l st1 I1 X1 Hdu) as (st2 & Ef & I2 & X2);
      [intros e y Hin; apply out_edges_sound; exact Hin|];
      assert (Hvals : Forall (ovt_tent h wts) (snd (dj_fold_tr n w s0 u0 d l (Some st1)))) end.
    { apply Forall_forall. intros v Hv. apply ovt_dj_fold_tr_vals in Hv as (e & w & Hin & ->).
      exists du, e. split; [reflexivity|]. split; [exact Hb|].
      apply out_edges_sound in Hin. eapply gl_joins_lt. exact Hin. }
    rewrite ovt_dj_fold_erase, Ef. cbn [snd].
    apply Forall_app. split; [exact Hvals|].
    apply (IH st2 (u :: ord) (dj_done_inv Z h s st2 u ord I2) (dz_done_inv h wts s st2 u ord X2)).
  Qed.
End Plain.

Theorem ovt_dijkstra_plain_tent h wts s : simple_graph h -> positive_weights h wts ->
  Forall (ovt_tent h wts) (snd (dijkstra_tr h wts s)).
Proof.
  intros Hsg Hpw. unfold dijkstra_tr. destruct (Nat.ltb_spec s (nv h)) as [Hs|Hs]; [|constructor].
  apply (ovt_dj_loop_tr h wts s Hsg Hpw Hs (Datatypes.S (nv h)) _ []).
  - apply dj_init_inv. exact Hs.
  - apply dz_init_inv. exact Hs.
Qed.

Theorem ovt_dijkstra_plain_tr h wts s : simple_graph h -> positive_weights h wts ->
  fst (dijkstra_tr h wts s) = dijkstra Z 0 Z.add Z.ltb h wts s
  /\ Forall (fun v => 0 <= v <= wsum h wts + wmax wts) (snd (dijkstra_tr h wts s)).
Proof.
  intros Hsg Hpw. split; [apply ovt_dijkstra_plain_erase|].
  eapply Forall_impl; [|apply ovt_dijkstra_plain_tent; assumption]. apply ovt_tent_bounds. exact Hpw.
Qed.
