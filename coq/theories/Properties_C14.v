(* Properties_C14.v — C14: the candidate cycle collections are sound and nested (sufficiency: stated, not proved).
   Model: CandidatesModel.v (SPTree::create_candidate_cycles, Horton / FVS / ISO builders) on top of LexSPModel.v and
   FvsModel.v; vocabulary: c14_cycle / c14_sound / c14_sub in CandidatesProofsZ.v, simple_cycle / weight in GraphSpec.v,
   min_cycle_basis in McbSpec.v.

   Proved, for EVERY simple graph with positive integer weights (and every pick oracle of greedy_fvs):
     C14_sound_horton / C14_sound_fvs / C14_sound_iso
         every candidate (tree id, edge (a,b), weight) of the collection belongs to the shortest-path tree t of its root
         and: the tree walks from the root to a and to b share no vertex (and avoid the root), the edge is not a tree
         edge, `walk to a` + edge + `reversed walk to b` is a closed walk through the root that repeats neither an edge
         nor a vertex, its edge set C is a simple cycle of g, and the recorded weight equals weight(C).
     C14_nested   every FVS / isometric candidate re-appears in Horton's collection with the same root, edge and weight.
     C14_total    Horton's collection and the FVS collection (for every complete run of greedy_fvs) are produced
                  (no error value).
   NOT proved (Definitions only): C14_sufficient_statement — each collection contains a minimum cycle basis; and the
   absence of CdInconsistent (cycle_to_vertex miss) in the isometric builder, which needs the consistency of the trees
   (C12_consistent_statement).  Both are covered by the exact correspondence and the independent judge of
   tools/props/c14.py (greedy by weight under GF(2) independence reaches the optimum weight and dimension). *)
From Coq Require Import List Arith ZArith.
From Parmcb Require Import GraphModel GraphSpec LexSPModel FvsModel CandidatesModel CandidatesProofs CandidatesProofsZ.
From Parmcb Require McbSpec.
Import ListNotations.

Theorem C14_sound_horton : forall g wts trees cs,
  simple_graph g -> positive_weights g wts ->
  horton_cycles_Z g wts = CdOk (trees, cs) -> c14_sound g wts trees cs.
Proof. exact cz_C14_sound_horton. Qed.
Print Assumptions C14_sound_horton.

Theorem C14_sound_fvs : forall g wts picks trees cs,
  simple_graph g -> positive_weights g wts ->
  fvs_cycles_Z g wts picks = CdOk (trees, cs) -> c14_sound g wts trees cs.
Proof. exact cz_C14_sound_fvs. Qed.
Print Assumptions C14_sound_fvs.

Theorem C14_sound_iso : forall g wts trees cs,
  simple_graph g -> positive_weights g wts ->
  iso_cycles_Z g wts = CdOk (trees, cs) -> c14_sound g wts trees cs.
Proof. exact cz_C14_sound_iso. Qed.
Print Assumptions C14_sound_iso.

Theorem C14_nested : forall g wts htrees hcs,
  horton_cycles_Z g wts = CdOk (htrees, hcs) ->
  (forall picks trees cs, fvs_cycles_Z g wts picks = CdOk (trees, cs) -> c14_sub trees cs htrees hcs) /\
  (forall trees cs, iso_cycles_Z g wts = CdOk (trees, cs) -> c14_sub trees cs htrees hcs).
Proof. exact cz_C14_nested. Qed.
Print Assumptions C14_nested.

Theorem C14_total : forall g wts,
  simple_graph g -> positive_weights g wts ->
  (exists trees cs, horton_cycles_Z g wts = CdOk (trees, cs)) /\
  (forall picks fvs, greedy_fvs g picks = FvsOk fvs ->
                     exists trees cs, fvs_cycles_Z g wts picks = CdOk (trees, cs)).
Proof. exact cz_C14_total. Qed.
Print Assumptions C14_total.

(* STATED, NOT PROVED: each collection contains a minimum cycle basis (hence greedy selection by weight under GF(2)
   independence reaches the optimum weight and dimension), and the isometric builder never misses a partner key *)
Definition c14_contains_mcb (g : graph) (wts : list Z) (trees : list (sp_tree Z)) (cs : list (cand Z)) : Prop :=
  exists B, McbSpec.min_cycle_basis g wts B /\
            forall C, In C B -> exists c t, In c cs /\ nth_error trees (c_tree c) = Some t /\ c14_cycle g wts t c C.

Definition C14_sufficient_statement : Prop :=
  forall g wts, simple_graph g -> positive_weights g wts ->
  (forall trees cs, horton_cycles_Z g wts = CdOk (trees, cs) -> c14_contains_mcb g wts trees cs) /\
  (forall picks trees cs, fvs_cycles_Z g wts picks = CdOk (trees, cs) -> c14_contains_mcb g wts trees cs) /\
  (exists trees cs, iso_cycles_Z g wts = CdOk (trees, cs) /\ c14_contains_mcb g wts trees cs).

(* the hypotheses are satisfiable and the collections differ: K4 minus nothing, unit weights *)
Definition c14_ex_g : graph := {| nv := 4; ge := [(0, 1); (1, 2); (2, 3); (3, 0); (0, 2); (1, 3)] |}.
Definition c14_ex_w : list Z := [1; 1; 1; 1; 1; 1]%Z.

Example C14_nonvacuous :
  simple_graph c14_ex_g /\ positive_weights c14_ex_g c14_ex_w /\
  (exists trees cs, horton_cycles_Z c14_ex_g c14_ex_w = CdOk (trees, cs) /\ length cs = 12) /\
  (exists trees cs, fvs_cycles_Z c14_ex_g c14_ex_w [0; 1] = CdOk (trees, cs) /\ length cs = 6) /\
  (exists trees cs, iso_cycles_Z c14_ex_g c14_ex_w = CdOk (trees, cs) /\ length cs = 4).
Proof.
  split; [reflexivity|]. split; [split; [reflexivity|repeat constructor]|].
  repeat split; eexists; eexists; split; try (vm_compute; reflexivity); reflexivity.
Qed.
