(* Properties_C14.v — C14: the candidate cycle collections are sound and nested (sufficiency: stated, not proved).
   Model: CandidatesModel.v (SPTree::create_candidate_cycles, Horton / FVS / ISO builders) on top of LexSPModel.v and
   FvsModel.v; vocabulary: c14_cycle / c14_sound / c14_sub in CandidatesProofsZ.v, simple_cycle / weight in GraphSpec.v,
   min_cycle_basis in McbSpec.v.

   Proved, for EVERY simple graph with positive integer weights (and every pick oracle of greedy_fvs):
     C14_sound_horton / C14_sound_fvs / C14_sound_iso
         every candidate (tree id, edge (a,b), weight) of the collection belongs to the shortest-path tree t of its root
         and: the tree walks from the root to a and to b share no vertex (and avoid the root), the edge is not a tree
         edge, `walk to a` + edge + `reversed walk to b` is a closed walk through the root that repeats neither an edge
         nor a vertex, its edge set C is a simple cycle of g, and the recorded weight equals weight(C).
     C14_nested   every FVS / isometric candidate re-appears in Horton's collection with the same root, edge and weight.
     C14_total    Horton's collection and the FVS collection (for every complete run of greedy_fvs) are produced
                  (no error value).
   NOT proved (Definitions only): C14_sufficient_statement — each collection contains a minimum cycle basis; and the
   absence of CdInconsistent (cycle_to_vertex miss) in the isometric builder, which needs the consistency of the trees
   (C12_consistent_statement).  Both are covered by the exact correspondence and the independent judge of
   tools/props/c14.py (greedy by weight under GF(2) independence reaches the optimum weight and dimension). *)
From Coq Require Import List Arith ZArith.
From Parmcb Require Import GraphModel GraphSpec LexSPModel FvsModel CandidatesModel CandidatesProofs CandidatesProofsZ.
From Parmcb Require McbSpec.
Import ListNotations.

Theorem C14_sound_horton : forall g wts trees cs,
  simple_graph g -> positive_weights g wts ->
  horton_cycles_Z g wts = CdOk (trees, cs) -> c14_sound g wts trees cs.
Proof. exact cz_C14_sound_horton. Qed.
Print Assumptions C14_sound_horton.

Theorem C14_sound_fvs : forall g wts picks trees cs,
  simple_graph g -> positive_weights g wts ->
  fvs_cycles_Z g wts picks = CdOk (trees, cs) -> c14_sound g wts trees cs.
Proof. exact cz_C14_sound_fvs. Qed.
Print Assumptions C14_sound_fvs.

Theorem C14_sound_iso : forall g wts trees cs,
  simple_graph g -> positive_weights g wts ->
  iso_cycles_Z g wts = CdOk (trees, cs) -> c14_sound g wts trees cs.
Proof. exact cz_C14_sound_iso. Qed.
Print Assumptions C14_sound_iso.

Theorem C14_nested : forall g wts htrees hcs,
  horton_cycles_Z g wts = CdOk (htrees, hcs) ->
  (forall picks trees cs, fvs_cycles_Z g wts picks = CdOk (trees, cs) -> c14_sub trees cs htrees hcs) /\
  (forall trees cs, iso_cycles_Z g wts = CdOk (trees, cs) -> c14_sub trees cs htrees hcs).
Proof. exact cz_C14_nested. Qed.
Print Assumptions C14_nested.

Theorem C14_total : forall g wts,
  simple_graph g -> positive_weights g wts ->
  (exists trees cs, horton_cycles_Z g wts = CdOk (trees, cs)) /\
  (forall picks fvs, greedy_fvs g picks = FvsOk fvs ->
                     exists trees cs, fvs_cycles_Z g wts picks = CdOk (trees, cs)).
Proof. exact cz_C14_total. Qed.
Print Assumptions C14_total.

(* STATED, NOT PROVED: each collection contains a minimum cycle basis (hence greedy selection by weight under GF(2)
   independence reaches the optimum weight and dimension), and the isometric builder never misses a partner key *)
Definition c14_contains_mcb (g : graph) (wts : list Z) (trees : list (sp_tree Z)) (cs : list (cand Z)) : Prop :=
  exists B, McbSpec.min_cycle_basis g wts B /\
            forall C, In C B -> exists c t, In c cs /\ nth_error trees (c_tree c) = Some t /\ c14_cycle g wts t c C.

Definition C14_sufficient_statement : Prop :=
  forall g wts, simple_graph g -> positive_weights g wts ->
  (forall trees cs, horton_cycles_Z g wts = CdOk (trees, cs) -> c14_contains_mcb g wts trees cs) /\
  (forall picks trees cs, fvs_cycles_Z g wts picks = CdOk (trees, cs) -> c14_contains_mcb g wts trees cs) /\
  (exists trees cs, iso_cycles_Z g wts = CdOk (trees, cs) /\ c14_contains_mcb g wts trees cs).

(* the hypotheses are satisfiable and the collections differ: K4 minus nothing, unit weights *)
Definition c14_ex_g : graph := {| nv := 4; ge := [(0, 1); (1, 2); (2, 3); (3, 0); (0, 2); (1, 3)] |}.
Definition c14_ex_w : list Z := [1; 1; 1; 1; 1; 1]%Z.

Example C14_nonvacuous :
  simple_graph c14_ex_g /\ positive_weights c14_ex_g c14_ex_w /\
  (exists trees cs, horton_cycles_Z c14_ex_g c14_ex_w = CdOk (trees, cs) /\ length cs = 12) /\
  (exists trees cs, fvs_cycles_Z c14_ex_g c14_ex_w [0; 1] = CdOk (trees, cs) /\ length cs = 6) /\
  (exists trees cs, iso_cycles_Z c14_ex_g c14_ex_w = CdOk (trees, cs) /\ length cs = 4).
Proof.
  split; [reflexivity|]. split; [split; [reflexivity|repeat constructor]|].
  repeat split; eexists; eexists; split; try (vm_compute; reflexivity); reflexivity.
Qed.

(* =====================================================================================================================
   APPENDED (IsoProofs*.v): SUFFICIENCY — supersedes the "NOT proved" notes above.
   Vocabulary (IsoProofs0.v): P(x,y) = the unique lc_lexmin walk from x to y (the tree walk of the model's tree of x,
   C12_tree_is_lexmin); iso_cycle_walk g x w = w is a closed walk from x repeating neither vertex nor edge;
   iso_rep g wts x w = w is P(x,a) ++ e ++ reversed P(x,b) for an edge e joining a and b (a Horton candidate of the tree
   of x with differing `first` labels); iso_rot_of g x w y w' = (y,w') is (x,w) started at y instead, possibly reversed;
   iso_isometric g wts x w = every rotation of w is represented from its start vertex (in one of the two directions);
   isoa_node_walk g wts trees c x w (IsoProofsA1.v) = w is the closed walk of the node c = (tree x, edge) of the builder's
   cycle graph.
     C14_iso_total                  the isometric builder returns a collection: no CdInconsistent (cycle_to_vertex miss),
                                    no missing tree / node, no fuel exhaustion.
     C14_iso_component_same_cycle   (Step A) all nodes of one connected component of the cycle graph carry the same cycle
                                    walk up to rotation and direction, hence the same edge set.
     C14_iso_isometric_kept         (Steps B', C) every isometric cycle has a candidate in the collection.
     C14_min_odd_cycle_isometric    (Step D) for every signed edge set, every odd simple cycle has an odd ISOMETRIC
                                    cycle that is no heavier (well-founded descent in the order weight / edge count /
                                    vertex set in which the lexicographic shortest paths are least).
     C14_iso_sufficient             every odd simple cycle is dominated by an odd candidate of the isometric collection.
     C14_sufficient                 = C14_sufficient_statement: Horton's, every FVS and the isometric collection contain
                                    a minimum cycle basis.   C14_iso_contains_mcb: for the collection actually returned.
   FINDING (C14_iso_keeps_non_isometric, IsoProofsX.v; confirmed on the real code): the converse of Steps B'/C is FALSE
   for the coded partner rule — a component without bad node need not be an isometric cycle: on K4 minus an edge with
   weights 3 1 2 2 3 the builder keeps a 4-cycle of weight 9 that has a chord shorter than both arcs (it is the sum of
   two strictly lighter triangles).  The collection is a superset of the isometric cycles (and a subset of Horton's):
   correctness is unaffected, the collection is merely larger than the theory promises. *)
From Parmcb Require Import GF2Model LexSPProofsCons1 RefModel TreesProofs3 TreesProofs4
     IsoProofs0 IsoProofsA1 IsoProofsD2 IsoProofsF1 IsoProofsF2 IsoProofsF3 IsoProofsX.

Theorem C14_iso_total : forall g wts, simple_graph g -> positive_weights g wts ->
  exists trees cs, iso_cycles_Z g wts = CdOk (trees, cs).
Proof. exact iso_total. Qed.
Print Assumptions C14_iso_total.

Theorem C14_iso_component_same_cycle : forall g wts trees allcycles links comp,
  simple_graph g -> positive_weights g wts ->
  horton_cycles_Z g wts = CdOk (trees, allcycles) ->
  let cv := filter (cd_is_circuit Z g trees) allcycles in
  cd_links Z g trees cv cv = CdOk links ->
  cd_components (2 * length cv + 2 * length cv + 1) (cd_adj links 0 (map (fun _ => []) (seq 0 (length cv))))
                (seq 0 (length cv)) (map (fun _ => None) (seq 0 (length cv))) = Some comp ->
  forall i j k ci cj x w y w',
    nth i comp None = Some k -> nth j comp None = Some k ->
    nth_error cv i = Some ci -> nth_error cv j = Some cj ->
    isoa_node_walk g wts trees ci x w -> isoa_node_walk g wts trees cj y w' ->
    iso_rot_of g x w y w' /\ Permutation.Permutation (wedges w') (wedges w).
Proof. exact iso_component_same_cycle. Qed.
Print Assumptions C14_iso_component_same_cycle.

Theorem C14_iso_isometric_kept : forall g wts trees cs,
  simple_graph g -> positive_weights g wts -> iso_cycles_Z g wts = CdOk (trees, cs) ->
  forall x w, iso_cycle_walk g x w -> iso_isometric g wts x w ->
    exists c t C, In c cs /\ nth_error trees (c_tree c) = Some t /\ c14_cycle g wts t c C /\
                  Permutation.Permutation C (wedges w).
Proof. exact iso_isometric_kept. Qed.
Print Assumptions C14_iso_isometric_kept.

Theorem C14_min_odd_cycle_isometric : forall g wts sg,
  simple_graph g -> positive_weights g wts ->
  forall D, simple_cycle g D -> oddb sg D = true ->
    exists x w, iso_cycle_walk g x w /\ oddb sg (wedges w) = true /\
                (weight wts (wedges w) <= weight wts D)%Z /\ iso_isometric g wts x w.
Proof. exact iso_min_odd_cycle_isometric. Qed.
Print Assumptions C14_min_odd_cycle_isometric.

(* sufficiency from the two halves (kept + Step D), and outright *)
Theorem C14_iso_sufficient_modulo_kept : forall g wts trees cs,
  simple_graph g -> positive_weights g wts -> iso_kept_stmt g wts trees cs -> collection_sufficient_all g wts trees cs.
Proof. exact iso_sufficient_of_kept. Qed.
Print Assumptions C14_iso_sufficient_modulo_kept.

Theorem C14_iso_sufficient : forall g wts trees cs,
  simple_graph g -> positive_weights g wts -> iso_cycles_Z g wts = CdOk (trees, cs) ->
  collection_sufficient_all g wts trees cs.
Proof. exact iso_sufficient. Qed.
Print Assumptions C14_iso_sufficient.

Theorem C14_iso_contains_mcb : forall g wts trees cs,
  simple_graph g -> positive_weights g wts -> iso_cycles_Z g wts = CdOk (trees, cs) ->
  c14_contains_mcb g wts trees cs.
Proof. exact isof_iso_contains_mcb. Qed.
Print Assumptions C14_iso_contains_mcb.

Theorem C14_sufficient : C14_sufficient_statement.
Proof. exact isof_C14_sufficient. Qed.
Print Assumptions C14_sufficient.

(* the finding: a kept candidate whose cycle is not isometric (graph isox_g, weights isox_w: K4 minus the edge 0-3) *)
Theorem C14_iso_keeps_non_isometric :
  simple_graph isox_g /\ positive_weights isox_g isox_w /\
  match iso_cycles_Z isox_g isox_w with
  | CdOk (_, cs) => map (fun c => (c_tree c, c_edge c, c_weight c)) cs = [(0, 2, 6%Z); (0, 3, 9%Z); (1, 0, 7%Z)]
  | _ => False
  end /\
  (* the closed walk of the candidate (root 0, edge 3, weight 9) *)
  iso_cycle_walk isox_g 0 isox_cw /\ ~ iso_isometric isox_g isox_w 0 isox_cw.
Proof.
  split; [exact isox_simple|]. split; [exact isox_pos|]. split; [exact isox_collection|]. exact isox_kept_not_isometric.
Qed.
Print Assumptions C14_iso_keeps_non_isometric.

(* non-vacuity: on K4 with unit weights (c14_ex_g) an odd isometric cycle walk exists for the signed set {edge 0} *)
Example C14_iso_nonvacuous :
  exists x w, iso_cycle_walk c14_ex_g x w /\ oddb [0] (wedges w) = true /\ iso_isometric c14_ex_g c14_ex_w x w.
Proof.
  assert (Hsg : simple_graph c14_ex_g) by reflexivity.
  assert (Hpos : positive_weights c14_ex_g c14_ex_w) by (split; [reflexivity|repeat constructor]).
  assert (HD : simple_cycle c14_ex_g [0; 1; 4]).
  { split; [discriminate|]. split; [repeat constructor|]. exists 0, [(0, 1); (1, 2); (4, 0)].
    split; [apply RefProofs1.rf_walkb_walk; reflexivity|].
    split; [repeat constructor; cbn [In]; intuition discriminate|].
    split; [repeat constructor; cbn [In]; intuition discriminate|]. intros e. reflexivity. }
  destruct (C14_min_odd_cycle_isometric c14_ex_g c14_ex_w [0] Hsg Hpos [0; 1; 4] HD eq_refl) as (x & w & H1 & H2 & _ & H3).
  exists x, w. auto.
Qed.
