(* IsoProofsF2.v — assembly: the isometric builder is total and keeps every isometric cycle; sufficiency; end theorems.
     isof_main            over Horton's collection (trees, allcycles): the model of ISOCyclesBuilder returns a collection
                          `out` (no CdInconsistent / CdTreeErr / CdFuel) and every isometric cycle walk has a candidate
                          in `out` whose cycle is its edge set
     iso_total            C14: the isometric collection is produced on every simple graph with positive weights
     iso_isometric_kept   C14 Step C
     iso_sufficient       TreesProofs4.iso_sufficient_statement
     iso_C01_iso_trees / iso_C02_iso_trees
   Uses IsoProofsA1-3 (nodes / links of the cycle graph), IsoProofsB (components, output), IsoProofsR (rotations),
   IsoProofsD2 (an odd isometric cycle no heavier than any odd cycle).  Prefix isof_ / iso_. *)
From Coq Require Import List Arith Bool Lia ZArith Permutation.
From Parmcb Require Import GraphModel GF2Model GraphSpec GraphLemmas McbSpec LexSPModel LexSPProofs LexSPProofsDist
     LexSPProofsCons1 LexSPProofsCons2 FvsModel CandidatesModel CandidatesProofs CandidatesProofsZ ForestModel SvaModel
     TreesModel TreesProofs3 TreesProofs4 TreesProofs5
     IsoProofs0 IsoProofsR IsoProofsB IsoProofsA1 IsoProofsA2 IsoProofsA3 IsoProofsD2 IsoProofsF1.
Import ListNotations.

Section Assembly.
  Variable g : graph.
  Variable wts : list Z.
  Hypothesis Hsg : simple_graph g.
  Hypothesis Hpos : positive_weights g wts.
  Variable trees : list (sp_tree Z).
  Variable allcycles : list (cand Z).
  Hypothesis Hh : horton_cycles_Z g wts = CdOk (trees, allcycles).

  Notation cv := (filter (cd_is_circuit Z g trees) allcycles).
  Notation node_walk := (isoa_node_walk g wts trees).

  (* a represented cycle walk is the walk of a node of the cycle graph, up to direction *)
  Lemma isof_rep_node x w : iso_cycle_walk g x w -> iso_rep g wts x w ->
    exists j c w', nth_error cv j = Some c /\ node_walk c x w' /\ iso_rot_of g x w x w'.
  Proof.
    intros Hcw (pa & e & a & b & pb & Hj & Ha & Hb & E). pose proof Hcw as (Hw & _).
    pose proof (gl_walk_start_lt g x w x Hsg Hw) as Hx. subst w.
    destruct Hj as [He|He].
    - destruct (isoa_node_exists g wts Hsg Hpos trees allcycles Hh x e a b pa pb Hx He Ha Hb Hcw)
        as (j & c & _ & Hc & _ & _ & Hnw).
      exists j, c, (pa ++ (e, b) :: lc_rev x pb). split; [exact Hc|]. split; [exact Hnw|]. apply (isor_refl g Hsg); exact Hw.
    - pose proof (isor_rev g Hsg x _ Hw) as Hrot.
      pose proof (isor_cycle_walk g Hsg x _ x _ Hcw Hrot) as Hcw'.
      rewrite (iso_rep_mirror g Hsg x pa e a b pb (iso_lexmin_walk _ _ _ _ _ Ha) (iso_lexmin_walk _ _ _ _ _ Hb) (or_intror He))
        in Hcw', Hrot.
      destruct (isoa_node_exists g wts Hsg Hpos trees allcycles Hh x e b a pb pa Hx He Hb Ha Hcw')
        as (j & c & _ & Hc & _ & _ & Hnw).
      exists j, c, (pb ++ (e, a) :: lc_rev x pa). auto.
  Qed.

  Section Links.
    Variable links : list cd_link.
    Hypothesis Hlk : cd_links Z g trees cv cv = CdOk links.
    Hypothesis Hlen : length links = length cv.
    Hypothesis Hnth : forall i c, nth_error cv i = Some c ->
      exists l, nth_error links i = Some l /\ cd_link_of Z g trees cv c = CdOk l.

    Lemma isof_linkof i c l : nth_error cv i = Some c -> nth_error links i = Some l -> cd_link_of Z g trees cv c = CdOk l.
    Proof. intros Hc Hl. destruct (Hnth i c Hc) as (l' & Hl' & E). rewrite Hl in Hl'. injection Hl' as <-. exact E. Qed.

    Lemma isof_cvi i l : nth_error links i = Some l -> exists c, nth_error cv i = Some c.
    Proof.
      intros Hl. assert (Hi : i < length cv) by (rewrite <- Hlen; apply nth_error_Some; congruence).
      destruct (nth_error cv i) as [c|] eqn:E; [eauto|]. apply nth_error_None in E. lia.
    Qed.

    Lemma isof_range i j : nth_error links i = Some (LinkTo j) -> j < length cv.
    Proof.
      intros Hl. destruct (isof_cvi i _ Hl) as [c Hc].
      destruct (isoa_node g wts Hsg Hpos trees allcycles Hh c (nth_error_In _ _ Hc)) as (x & w & Hnw & _).
      destruct (isoa_link g wts Hsg Hpos trees allcycles Hh i c x w Hc Hnw) as (l & El & [->|(j' & c' & y & w' & -> & Hc' & _)]);
        rewrite (isof_linkof i c _ Hc Hl) in El; [discriminate|].
      injection El as ->. apply nth_error_Some. congruence.
    Qed.

    (* node i carries a rotation (possibly reversed) of the closed walk (x0, w0) *)
    Definition isof_S (x0 : nat) (w0 : list (nat * nat)) (i : nat) : Prop :=
      exists c x w, nth_error cv i = Some c /\ node_walk c x w /\ iso_rot_of g x0 w0 x w.

    (* Step A: an edge of the cycle graph joins two nodes that carry the same cycle walk, up to rotation and direction *)
    Lemma isof_closure x0 w0 : walk g x0 w0 x0 ->
      forall i j, nth_error links i = Some (LinkTo j) -> (isof_S x0 w0 i <-> isof_S x0 w0 j).
    Proof.
      intros Hw0 i j Hl. destruct (isof_cvi i _ Hl) as [c Hc].
      destruct (isoa_node g wts Hsg Hpos trees allcycles Hh c (nth_error_In _ _ Hc)) as (x & w & Hnw & _ & Hcw & _).
      destruct (isoa_link g wts Hsg Hpos trees allcycles Hh i c x w Hc Hnw) as (l & El & Hcase).
      rewrite (isof_linkof i c _ Hc Hl) in El. injection El as <-.
      destruct Hcase as [Hb|(j' & c' & y & w' & Ej & Hc' & Hnw' & Hrot)]; [discriminate|]. injection Ej as <-.
      pose proof Hcw as (Hw & _).
      split.
      - intros (c1 & x1 & w1 & Hc1 & Hnw1 & Hr1). rewrite Hc in Hc1. injection Hc1 as <-.
        destruct (isoa_node_walk_fun g wts trees c x w x1 w1 Hnw Hnw1) as [<- <-].
        exists c', y, w'. split; [exact Hc'|]. split; [exact Hnw'|].
        apply (isor_trans g Hsg x0 w0 x w y w' Hw0 Hr1 Hrot).
      - intros (c1 & y1 & w1 & Hc1 & Hnw1 & Hr1). rewrite Hc' in Hc1. injection Hc1 as <-.
        destruct (isoa_node_walk_fun g wts trees c' y w' y1 w1 Hnw' Hnw1) as [<- <-].
        exists c, x, w. split; [exact Hc|]. split; [exact Hnw|].
        apply (isor_trans g Hsg x0 w0 y w' x w Hw0 Hr1). apply (isor_sym g Hsg x w y w' Hw Hrot).
    Qed.

    (* Step B': a node that carries an isometric cycle walk is not bad *)
    Lemma isof_nobad x0 w0 : iso_cycle_walk g x0 w0 -> iso_isometric g wts x0 w0 ->
      forall i, isof_S x0 w0 i -> nth_error links i <> Some LinkBad.
    Proof.
      intros Hcw0 Hiso i (c & x & w & Hc & Hnw & Hr) Hl.
      apply (isoa_not_bad g wts Hsg Hpos trees allcycles Hh x0 w0 i c x w Hcw0 Hiso Hc Hnw Hr).
      apply (isof_linkof i c _ Hc Hl).
    Qed.

    (* Step A for components: all nodes with the same component label carry the same cycle walk, up to rotation and
       direction — in particular the same edge set *)
    Theorem isof_component_same_cycle comp :
      cd_components (2 * length cv + 2 * length cv + 1) (cd_adj links 0 (map (fun _ => []) (seq 0 (length cv))))
                    (seq 0 (length cv)) (map (fun _ => None) (seq 0 (length cv))) = Some comp ->
      forall i j k ci cj x w y w',
        nth i comp None = Some k -> nth j comp None = Some k ->
        nth_error cv i = Some ci -> nth_error cv j = Some cj -> node_walk ci x w -> node_walk cj y w' ->
        iso_rot_of g x w y w' /\ Permutation (wedges w') (wedges w).
    Proof.
      intros Hcomp i j k ci cj x w y w' Hik Hjk Hci Hcj Hnwi Hnwj.
      destruct (isob_components Z cv links Hlen isof_range) as (comp' & Hcomp' & _ & _ & Hsound).
      rewrite Hcomp in Hcomp'. injection Hcomp' as <-.
      destruct (isoa_node g wts Hsg Hpos trees allcycles Hh ci (nth_error_In _ _ Hci)) as (x1 & w1 & Hnw1 & _ & Hcw & _).
      destruct (isoa_node_walk_fun g wts trees ci x w x1 w1 Hnwi Hnw1) as [<- <-].
      pose proof Hcw as (Hw & _).
      assert (Hi : i < length cv) by (apply nth_error_Some; congruence).
      assert (Hj : j < length cv) by (apply nth_error_Some; congruence).
      pose proof (Hsound (isof_S x w) (isof_closure x w Hw) i k Hi Hik) as H1.
      pose proof (Hsound (isof_S x w) (isof_closure x w Hw) j k Hj Hjk) as H2.
      assert (HSi : isof_S x w i).
      { exists ci, x, w. split; [exact Hci|]. split; [exact Hnwi|]. apply (isor_refl g Hsg); exact Hw. }
      apply H1 in HSi. apply H2 in HSi. destruct HSi as (c2 & y2 & w2 & Hc2 & Hnw2 & Hr).
      rewrite Hcj in Hc2. injection Hc2 as <-.
      destruct (isoa_node_walk_fun g wts trees cj y w' y2 w2 Hnwj Hnw2) as [<- <-].
      split; [exact Hr|]. apply (isor_perm g Hsg x w y w' Hw Hr).
    Qed.
  End Links.

  Theorem isof_main : exists out, iso_cycles_Z g wts = CdOk (trees, out) /\ iso_kept_stmt g wts trees out.
  Proof.
    destruct (isoa_links g wts Hsg Hpos trees allcycles Hh) as (links & Hlk & Hlen & Hnth).
    destruct (isob_tail Z 0%Z Z.add g wts trees cv (isoa_node_data g wts trees allcycles Hh) links Hlen
                        (isof_range links Hlen Hnth))
      as (comp & out & Hcomp & Hout & Hincl & HS).
    exists out.
    assert (Hrun : iso_cycles_Z g wts = CdOk (trees, out)).
    { unfold iso_cycles_Z, iso_cycles. unfold horton_cycles_Z in Hh. rewrite Hh. cbv beta iota zeta.
      rewrite Hlk. cbv beta iota zeta. rewrite Hcomp. cbv beta iota zeta. rewrite Hout. reflexivity. }
    split; [exact Hrun|].
    intros x0 w0 Hcw0 Hiso. pose proof Hcw0 as (Hw0 & _).
    assert (Hex : exists i0, i0 < length cv /\ isof_S x0 w0 i0).
    { assert (Hx0 : walk g x0 [] x0) by (constructor; apply (gl_walk_start_lt g x0 w0 x0 Hsg Hw0)).
      destruct (Hiso [] w0 x0 eq_refl Hx0) as [Hrep|Hrep]; rewrite app_nil_r in Hrep.
      - destruct (isof_rep_node x0 w0 Hcw0 Hrep) as (j & c & w' & Hc & Hnw & Hr).
        exists j. split; [apply nth_error_Some; congruence|]. exists c, x0, w'. auto.
      - pose proof (isor_rev g Hsg x0 w0 Hw0) as Hrot.
        pose proof (isor_cycle_walk g Hsg x0 w0 x0 _ Hcw0 Hrot) as Hcw'.
        destruct (isof_rep_node x0 _ Hcw' Hrep) as (j & c & w' & Hc & Hnw & Hr).
        exists j. split; [apply nth_error_Some; congruence|]. exists c, x0, w'. split; [exact Hc|]. split; [exact Hnw|].
        apply (isor_trans g Hsg x0 w0 x0 _ x0 w' Hw0 Hrot Hr). }
    destruct Hex as (i0 & Hi0 & HSi0).
    destruct (HS (isof_S x0 w0) (isof_closure links Hlen Hnth x0 w0 Hw0) (isof_nobad links Hnth x0 w0 Hcw0 Hiso) i0 Hi0 HSi0)
      as (i & c & (c1 & x & w & Hc1 & Hnw & Hr) & Hc & Hin).
    rewrite Hc in Hc1. injection Hc1 as <-.
    destruct (cz_C14_sound_iso g wts trees out Hsg Hpos Hrun c Hin) as (t & C & Ht & Hst & Hc14).
    exists c, t, C. split; [exact Hin|]. split; [exact Ht|]. split; [exact Hc14|].
    destruct Hc14 as (a & b & pa & pb & He & Hpa & Hpb & _ & _ & _ & _ & _ & _ & _ & HC & Hsc & _).
    destruct Hnw as (t' & u & v & pa' & pb' & Ht' & Hx & Hst' & He' & Hpa' & Hpb' & Ew).
    rewrite Ht in Ht'. injection Ht' as <-. rewrite He in He'. injection He' as <- <-.
    pose proof (isoa_twalk_uniq g wts x t pa pa' a Hst' Hpa Hpa') as <-.
    pose proof (isoa_twalk_uniq g wts x t pb pb' b Hst' Hpb Hpb') as <-.
    destruct (isoa_tree_src g wts x t Hst') as [Hsrc _]. rewrite Hsrc, isoa_cz_rev, <- Ew in HC.
    pose proof (isor_cycle_walk g Hsg x0 w0 x w Hcw0 Hr) as (_ & _ & Hnde & _).
    destruct (isor_perm g Hsg x0 w0 x w Hw0 Hr) as (Pe & _).
    eapply Permutation_trans; [|exact Pe].
    apply NoDup_Permutation; [apply gl_sorted_NoDup; apply Hsc|exact Hnde|exact HC].
  Qed.
End Assembly.

(* ---- the statements ------------------------------------------------------------------------------------------------ *)

(* Step A for components, over the links and labels the model computes *)
Theorem iso_component_same_cycle g wts trees allcycles links comp : simple_graph g -> positive_weights g wts ->
  horton_cycles_Z g wts = CdOk (trees, allcycles) ->
  let cv := filter (cd_is_circuit Z g trees) allcycles in
  cd_links Z g trees cv cv = CdOk links ->
  cd_components (2 * length cv + 2 * length cv + 1) (cd_adj links 0 (map (fun _ => []) (seq 0 (length cv))))
                (seq 0 (length cv)) (map (fun _ => None) (seq 0 (length cv))) = Some comp ->
  forall i j k ci cj x w y w',
    nth i comp None = Some k -> nth j comp None = Some k ->
    nth_error cv i = Some ci -> nth_error cv j = Some cj ->
    isoa_node_walk g wts trees ci x w -> isoa_node_walk g wts trees cj y w' ->
    iso_rot_of g x w y w' /\ Permutation (wedges w') (wedges w).
Proof.
  intros Hsg Hpos Hh cv Hlk Hcomp.
  destruct (isoa_links g wts Hsg Hpos trees allcycles Hh) as (links' & Hlk' & Hlen & Hnth).
  fold cv in Hlk', Hlen, Hnth. rewrite Hlk in Hlk'. injection Hlk' as <-.
  exact (isof_component_same_cycle g wts Hsg Hpos trees allcycles Hh links Hlen Hnth comp Hcomp).
Qed.

Theorem iso_total g wts : simple_graph g -> positive_weights g wts ->
  exists trees cands, iso_cycles_Z g wts = CdOk (trees, cands).
Proof.
  intros Hsg Hpos. destruct (proj1 (cz_C14_total g wts Hsg Hpos)) as (trees & allcycles & Hh).
  destruct (isof_main g wts Hsg Hpos trees allcycles Hh) as (out & Hrun & _). eauto.
Qed.

Theorem iso_isometric_kept g wts trees cands : simple_graph g -> positive_weights g wts ->
  iso_cycles_Z g wts = CdOk (trees, cands) -> iso_kept_stmt g wts trees cands.
Proof.
  intros Hsg Hpos Hi. destruct (cd_iso_nested Z 0%Z Z.add Z.ltb g wts trees cands Hi) as (hcs & Hh & _).
  destruct (isof_main g wts Hsg Hpos trees hcs Hh) as (out & Hrun & Hk).
  rewrite Hi in Hrun. injection Hrun as <-. exact Hk.
Qed.

Theorem iso_sufficient : iso_sufficient_statement.
Proof.
  intros g wts trees cands Hsg Hpos Hi. apply iso_sufficient_of_kept; [exact Hsg|exact Hpos|].
  apply iso_isometric_kept; assumption.
Qed.

Theorem iso_C01_iso_trees : C01_iso_trees_stmt.
Proof. exact (iso_C01_of_sufficient iso_total iso_sufficient). Qed.

Theorem iso_C02_iso_trees : C02_iso_trees_statement.
Proof. exact (iso_C02_of_sufficient iso_total iso_sufficient). Qed.

Print Assumptions iso_component_same_cycle.
Print Assumptions iso_total.
Print Assumptions iso_isometric_kept.
Print Assumptions iso_sufficient.
Print Assumptions iso_C01_iso_trees.
Print Assumptions iso_C02_iso_trees.
