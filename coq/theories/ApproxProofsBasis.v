(* ApproxProofsBasis.v — gluing: a cycle basis of the spanner (translated) together with one "private" cycle per
   dropped edge is a cycle basis of the input graph; the dimension count; for an empty dropped list a minimum
   cycle basis of the spanner translates to a minimum cycle basis of the input.  Prefix ap_. *)
From Coq Require Import List Arith Bool Lia ZArith Permutation Sorted.
From Parmcb Require Import GraphModel GF2Model GF2Proofs GF2Lin GraphSpec GraphLemmas McbSpec DePinaSpec DePinaProofs
  SpannerModel SpannerProofs ApproxProofsRelabel ApproxProofs.
Import ListNotations.

Lemma ap_all_false_nth m : (forall j, j < length m -> nth j m false = false) -> forallb negb m = true.
Proof.
  induction m as [|b m IH]; intros H; [reflexivity|]. cbn [forallb]. apply andb_true_iff. split.
  - specialize (H 0 ltac:(cbn [length]; lia)). cbn [nth] in H. rewrite H. reflexivity.
  - apply IH. intros j Hj. apply (H (S j)). cbn [length]. lia.
Qed.

Lemma ap_nth_map_lt {A B} (f : A -> B) l j d d' : j < length l -> nth j (map f l) d' = f (nth j l d).
Proof. intros Hj. rewrite (nth_indep _ d' (f d)) by (rewrite map_length; exact Hj). apply map_nth. Qed.

Lemma ap_mem_false_notin v e : ~ In e v -> mem v e = false.
Proof. intros H. destruct (mem v e) eqn:E; [|reflexivity]. apply mem_In in E. contradiction. Qed.

Lemma ap_Forall2_length {A B} (P : A -> B -> Prop) l l' : Forall2 P l l' -> length l = length l'.
Proof. induction 1; cbn [length]; congruence. Qed.

Section Glue.
  Variable g : graph.
  Hypothesis Hg : simple_graph g.
  Variable sp : spanner.
  Hypothesis Hsub : sp_sub g sp.
  Hypothesis HP : Permutation (retained sp ++ dropped sp) (seq 0 (ne g)).

  Notation R := (retained sp).
  Notation D := (dropped sp).
  Notation h := (sp_graph sp).
  Notation fw := (fwd sp).
  Notation bw := (bwd sp).
  Notation dR := (domR sp).
  Notation dE := (domE sp).

  (* the cycle of a dropped edge d: a simple cycle of g through d that otherwise uses retained edges only *)
  Definition private (d : nat) (Z : vec) : Prop :=
    simple_cycle g Z /\ In d Z /\ forall x, In x Z -> x = d \/ In x R.

  Lemma ap_private_sorted Ds DC : Forall2 private Ds DC -> Forall sorted DC.
  Proof. induction 1 as [|d Z Ds DC (HZ & _) _ IH]; constructor; auto. apply HZ. Qed.

  Lemma ap_private_simple Ds DC : Forall2 private Ds DC -> Forall (simple_cycle g) DC.
  Proof. induction 1 as [|d Z Ds DC (HZ & _) _ IH]; constructor; auto. Qed.

  Lemma ap_private_cs Ds DC : Forall2 private Ds DC -> Forall (in_cycle_space g) DC.
  Proof.
    induction 1 as [|d Z Ds DC (HZ & _) _ IH]; constructor; auto. apply simple_cycle_in_cycle_space; assumption.
  Qed.

  Lemma ap_private_support Ds DC : Forall2 private Ds DC -> Forall (Forall (fun x => In x R \/ In x Ds)) DC.
  Proof.
    induction 1 as [|d Z Ds DC (_ & _ & HZ) _ IH]; constructor.
    - rewrite Forall_forall. intros x Hx. destruct (HZ x Hx) as [->|Hr]; [right; left; reflexivity|left; exact Hr].
    - eapply Forall_impl; [|exact IH]. intros Z' HZ'. eapply Forall_impl; [|exact HZ'].
      intros x [Hx|Hx]; [left; exact Hx|right; right; exact Hx].
  Qed.

  (* coordinate d_j of a combination of the private cycles is the j-th mask bit *)
  Lemma ap_comb_private Ds DC : Forall2 private Ds DC -> NoDup Ds -> (forall d, In d Ds -> ~ In d R) ->
    forall m j, length m = length DC -> j < length Ds -> mem (comb m DC) (nth j Ds 0) = nth j m false.
  Proof.
    induction 1 as [|d Z Ds DC HdZ HF IH]; intros Hnd HnR m j Hl Hj; [cbn [length] in Hj; lia|].
    destruct m as [|b m]; [discriminate|]. cbn [length] in Hl. injection Hl as Hl.
    inversion Hnd as [|? ? Hd Hnd']; subst.
    assert (HnR' : forall d', In d' Ds -> ~ In d' R) by (intros d' Hd'; apply HnR; right; exact Hd').
    pose proof (ap_private_sorted _ _ HF) as HS.
    pose proof (comb_sorted m DC HS) as SX.
    destruct HdZ as (HZ & HdZ & Hsup). assert (SZ : sorted Z) by apply HZ.
    cbn [comb]. destruct j as [|j]; cbn [nth].
    - assert (HX : mem (comb m DC) d = false).
      { apply ap_mem_false_notin. intros Hin.
        pose proof (rl_comb_Forall _ m DC HS (ap_private_support _ _ HF)) as HXs.
        rewrite Forall_forall in HXs. destruct (HXs d Hin) as [Hr|Hr]; [apply (HnR d); [left; reflexivity|exact Hr]|contradiction]. }
      destruct b; [|exact HX]. rewrite vadd_mem, HX by assumption.
      assert (E : mem Z d = true) by (apply mem_In; exact HdZ). rewrite E. reflexivity.
    - cbn [length] in Hj. assert (Hin : In (nth j Ds 0) Ds) by (apply nth_In; lia).
      assert (HZn : mem Z (nth j Ds 0) = false).
      { apply ap_mem_false_notin. intros Hc. destruct (Hsup _ Hc) as [E|Hr].
        - apply Hd. rewrite <- E. exact Hin.
        - exact (HnR' _ Hin Hr). }
      specialize (IH Hnd' HnR' m j Hl ltac:(lia)).
      destruct b; [|exact IH]. rewrite vadd_mem, HZn, IH by assumption. apply xorb_false_l.
  Qed.

  Variable Cs : list vec.
  Hypothesis HCs : cycle_basis h Cs.
  Variable DC : list vec.
  Hypothesis HDC : Forall2 private D DC.

  Let Hh : simple_graph h := ap_sp_simple g Hg sp Hsub HP.

  Lemma ap_Cs_cs : Forall (in_cycle_space h) Cs.
  Proof.
    destruct HCs as (H & _). eapply Forall_impl; [|exact H]. intros C HC. apply simple_cycle_in_cycle_space; assumption.
  Qed.

  Lemma ap_Cs_sorted : Forall sorted Cs.
  Proof. eapply Forall_impl; [|exact ap_Cs_cs]. intros C HC. apply HC. Qed.

  Lemma ap_Cs_dom : Forall (Forall dR) Cs.
  Proof. eapply Forall_impl; [|exact ap_Cs_cs]. intros C HC. eapply ap_cs_h_dom; eauto. Qed.

  Lemma ap_B1_sorted : Forall sorted (map fw Cs).
  Proof. apply Forall_forall. intros Z HZ. apply in_map_iff in HZ as (C & <- & _). apply rl_trv_sorted. Qed.

  Lemma ap_B1_in_R : Forall (Forall (fun x => In x R)) (map fw Cs).
  Proof.
    apply Forall_forall. intros Z HZ. apply in_map_iff in HZ as (C & <- & HC).
    apply (ap_fwd_in_R sp). pose proof ap_Cs_dom as H. rewrite Forall_forall in H. apply H, HC.
  Qed.

  Lemma ap_D_not_R d : In d D -> ~ In d R.
  Proof. intros Hd Hr. exact (ap_RD_disjoint g sp HP d Hr Hd). Qed.

  Theorem ap_glue_basis : cycle_basis g (map fw Cs ++ DC).
  Proof.
    pose proof ap_Cs_sorted as SCs. pose proof ap_Cs_dom as DCs. pose proof ap_B1_sorted as SB1.
    pose proof (ap_private_sorted _ _ HDC) as SDC. pose proof (ap_Forall2_length _ _ _ HDC) as LDC.
    pose proof (ap_D_nodup g sp HP) as NDD.
    destruct HCs as (Fsc & Hind & Hsp). split; [|split].
    - (* simple cycles *)
      apply Forall_app. split.
      + apply Forall_forall. intros Z HZ. apply in_map_iff in HZ as (C & <- & HC).
        eapply ap_fwd_simple_cycle; eauto. rewrite Forall_forall in Fsc. apply Fsc, HC.
      + apply (ap_private_simple _ _ HDC).
    - (* independence: the private-edge argument *)
      intros m Hl E. rewrite app_length, map_length in Hl.
      rewrite <- (firstn_skipn (length Cs) m) in E |- *.
      set (m1 := firstn (length Cs) m) in *. set (m2 := skipn (length Cs) m) in *.
      assert (L1 : length m1 = length Cs) by (unfold m1; rewrite firstn_length; apply Nat.min_l; rewrite Hl; apply Nat.le_add_r).
      assert (L2 : length m2 = length DC) by (unfold m2; rewrite skipn_length, Hl; apply Nat.add_sub_swap || (rewrite Nat.add_comm; apply Nat.add_sub)).
      rewrite comb_app in E by (auto; rewrite map_length; exact L1).
      pose proof (comb_sorted m1 _ SB1) as S1. pose proof (comb_sorted m2 _ SDC) as S2.
      assert (H2 : forallb negb m2 = true).
      { apply ap_all_false_nth. intros j Hj.
        rewrite <- (ap_comb_private D DC HDC NDD ap_D_not_R m2 j L2) by lia.
        assert (Hd : In (nth j D 0) D) by (apply nth_In; lia).
        assert (H1 : mem (comb m1 (map fw Cs)) (nth j D 0) = false).
        { apply ap_mem_false_notin. intros Hin.
          pose proof (rl_comb_Forall _ m1 _ SB1 ap_B1_in_R) as HX. rewrite Forall_forall in HX.
          exact (ap_D_not_R _ Hd (HX _ Hin)). }
        pose proof (vadd_mem _ _ (nth j D 0) S1 S2) as Hv. rewrite E, H1, xorb_false_l in Hv. cbn [mem existsb] in Hv.
        symmetry. exact Hv. }
      rewrite (comb_allfalse m2 DC H2), vadd_nil_r in E.
      assert (H1 : forallb negb m1 = true).
      { assert (Hinj : forall i j, dR i -> dR j -> tr sp i = tr sp j -> i = j) by (eapply ap_fwd_inj; eauto).
        apply (rl_indep dR (tr sp) Hinj Cs SCs DCs Hind m1); [rewrite map_length; exact L1|exact E]. }
      rewrite forallb_app, H1, H2. reflexivity.
    - (* spanning, directly *)
      intros Z HZ.
      pose proof (cycle_space_subspace g) as (Hsub1 & Hnil & Hadd).
      set (m2 := map (mem Z) D).
      assert (L2 : length m2 = length DC) by (unfold m2; rewrite map_length; exact LDC).
      set (X2 := comb m2 DC).
      assert (HX2 : in_cycle_space g X2) by (apply comb_inV; auto; apply (ap_private_cs _ _ HDC)).
      set (Z' := vadd Z X2).
      assert (HZ' : in_cycle_space g Z') by (apply Hadd; assumption).
      assert (SZ : sorted Z) by apply HZ. assert (SX2 : sorted X2) by apply HX2.
      assert (HR : Forall dE Z').
      { apply Forall_forall. intros e He. destruct HZ' as (_ & HB & _).
        destruct (ap_RD_cover g sp HP e (HB e He)) as [Hr|Hd]; [exact Hr|exfalso].
        apply (In_nth _ _ 0) in Hd as (j & Hj & Ej).
        apply mem_In in He. unfold Z' in He. rewrite vadd_mem in He by assumption.
        unfold X2 in He. rewrite <- Ej in He.
        rewrite (ap_comb_private D DC HDC NDD ap_D_not_R m2 j L2 Hj) in He.
        unfold m2 in He. rewrite (ap_nth_map_lt (mem Z) D j 0 false Hj) in He.
        destruct (mem Z (nth j D 0)); discriminate. }
      assert (HC' : in_cycle_space h (bwd sp Z')) by (eapply ap_bwd_cycle_space; eauto).
      destruct (Hsp _ HC') as (m1 & L1 & E1).
      exists (m1 ++ m2). split; [rewrite !app_length, map_length, L1, L2; reflexivity|].
      rewrite comb_app by (auto; rewrite map_length; exact L1).
      assert (Hinj : forall i j, dR i -> dR j -> tr sp i = tr sp j -> i = j) by (eapply ap_fwd_inj; eauto).
      change (map (fwd sp) Cs) with (map (trv (tr sp)) Cs).
      rewrite (rl_trv_comb dR (tr sp) Hinj m1 Cs SCs DCs), E1.
      change (trv (tr sp) (bwd sp Z')) with (fwd sp (bwd sp Z')).
      rewrite (ap_fwd_bwd sp Z') by (auto; apply HZ').
      unfold Z'. fold X2. apply vadd_cancel_r; assumption.
  Qed.

  (* ---- connectivity and the dimension count -------------------------------------------------------- *)
  Hypothesis Hpath : forall e u v, In e D -> ends g e = Some (u, v) ->
    exists p, walk g u p v /\ incl (wedges p) R.

  Lemma ap_joins_connected_h e x y : joins g e x y -> connected h x y.
  Proof.
    intros Hj. destruct (gl_simple_joins g e x y Hg Hj) as (Hx & Hy & _).
    destruct (ap_RD_cover g sp HP e (gl_joins_lt g e x y Hj)) as [Hr|Hd].
    - exists [(tri sp e, y)]. econstructor; [|constructor; rewrite (ap_nv_h g sp Hsub); exact Hy].
      assert (Hb : e < ne g /\ ends g e = ends h (tri sp e)) by (eapply ap_bwd_ends; eauto).
      unfold joins in *. rewrite <- (proj2 Hb). exact Hj.
    - assert (Hc : forall a b, ends g e = Some (a, b) -> connected h a b).
      { intros a b He. destruct (Hpath e a b Hd He) as (p & Hw & Hincl).
        destruct (g_walk_to_sp g sp a p b Hsub Hw Hincl) as (p' & Hw' & _). exists p'; exact Hw'. }
      destruct Hj as [He|He]; [apply Hc; exact He|]. apply gl_connected_sym; [exact Hh|apply Hc; exact He].
  Qed.

  Lemma ap_connected_g_h x y : connected g x y -> connected h x y.
  Proof.
    intros (p & Hw). induction Hw as [x Hx|x e y p z Hj Hw IH].
    - exists []. constructor. rewrite (ap_nv_h g sp Hsub). exact Hx.
    - eapply gl_connected_trans; [eapply ap_joins_connected_h; eauto|exact IH].
  Qed.

  Lemma ap_connected_h_g x y : connected h x y -> connected g x y.
  Proof. intros (p & Hw). destruct (sp_walk_to_g g sp x p y Hsub Hw) as (p' & Hw' & _). exists p'; exact Hw'. Qed.

  Lemma ap_components c : n_components h c -> n_components g c.
  Proof.
    intros (reps & H1 & H2 & H3 & H4 & H5). exists reps. rewrite (ap_nv_h g sp Hsub) in *.
    repeat split; auto.
    - intros r r' Hr Hr' Hne Hc. apply (H4 r r' Hr Hr' Hne). apply ap_connected_g_h; exact Hc.
    - intros v Hv. destruct (H5 v Hv) as (r & Hr & Hc). exists r. split; [exact Hr|apply ap_connected_h_g; exact Hc].
  Qed.

  Lemma ap_dimension N : has_cycle_space_dimension h N -> has_cycle_space_dimension g (N + length D).
  Proof.
    intros (c & Hc & E). exists c. split; [apply ap_components; exact Hc|].
    rewrite (ap_ne_g g sp HP). rewrite (ap_ne_h g sp Hsub), (ap_nv_h g sp Hsub) in E. lia.
  Qed.
End Glue.

(* ---- nothing dropped: the spanner is the input graph with its edges permuted ------------------------ *)

Section AllKept.
  Variable g : graph.
  Hypothesis Hg : simple_graph g.
  Variable sp : spanner.
  Hypothesis Hsub : sp_sub g sp.
  Hypothesis HP : Permutation (retained sp ++ dropped sp) (seq 0 (ne g)).
  Hypothesis HD : dropped sp = [].
  Variable w : list Z.

  Notation R := (retained sp).
  Notation h := (sp_graph sp).
  Notation wh := (spanner_weights w sp).

  Lemma ap_all_in_R e : e < ne g -> In e R.
  Proof. intros He. destruct (ap_RD_cover g sp HP e He) as [H|H]; [exact H|]. rewrite HD in H. destruct H. Qed.

  Lemma ap_cs_g_dom Z : in_cycle_space g Z -> Forall (domE sp) Z.
  Proof. intros (_ & HB & _). apply Forall_forall. intros e He. apply ap_all_in_R, HB, He. Qed.

  Theorem ap_all_kept_min Cs : min_cycle_basis h wh Cs -> min_cycle_basis g w (map (fwd sp) Cs).
  Proof.
    intros (HCs & Hmin).
    assert (HF2 : Forall2 (private g sp) (dropped sp) []) by (rewrite HD; constructor).
    pose proof (ap_glue_basis g Hg sp Hsub HP Cs HCs [] HF2) as HB. rewrite app_nil_r in HB.
    split; [exact HB|]. intros B' HB'.
    pose proof (ap_sp_simple g Hg sp Hsub HP) as Hh.
    destruct HB' as (Fsc' & Hind' & Hsp').
    assert (Fcs' : Forall (in_cycle_space g) B').
    { eapply Forall_impl; [|exact Fsc']. intros Z HZ. apply simple_cycle_in_cycle_space; assumption. }
    assert (SB' : Forall sorted B') by (eapply Forall_impl; [|exact Fcs']; intros Z HZ; apply HZ).
    assert (DB' : Forall (Forall (domE sp)) B') by (eapply Forall_impl; [|exact Fcs']; intros Z HZ; apply ap_cs_g_dom, HZ).
    set (B'' := map (bwd sp) B').
    assert (HB'' : cycle_basis h B'').
    { split; [|split].
      - apply Forall_forall. intros C HC. apply in_map_iff in HC as (Z & <- & HZ).
        pose proof (proj1 (Forall_forall _ _) Fsc' Z HZ) as H1. pose proof (proj1 (Forall_forall _ _) DB' Z HZ) as H2.
        eapply ap_bwd_simple_cycle; eauto.
      - apply (rl_indep (domE sp) (tri sp) (ap_bwd_inj sp)); assumption.
      - intros C HC.
        assert (HZ : in_cycle_space g (fwd sp C)) by (eapply ap_fwd_cycle_space; eauto).
        destruct (Hsp' _ HZ) as (m & Lm & Em). exists m. split; [unfold B''; rewrite map_length; exact Lm|].
        unfold B''. change (map (bwd sp) B') with (map (trv (tri sp)) B').
        rewrite (rl_trv_comb (domE sp) (tri sp) (ap_bwd_inj sp) m B' SB' DB'), Em.
        eapply ap_bwd_fwd; eauto; [apply HC|eapply ap_cs_h_dom; eauto]. }
    specialize (Hmin B'' HB'').
    assert (E1 : total_weight w (map (fwd sp) Cs) = total_weight wh Cs).
    { destruct HCs as (Fsc & _).
      assert (Fcs : Forall (in_cycle_space h) Cs).
      { eapply Forall_impl; [|exact Fsc]. intros C HC. apply simple_cycle_in_cycle_space; assumption. }
      assert (Hinj : forall i j, domR sp i -> domR sp j -> tr sp i = tr sp j -> i = j) by (eapply ap_fwd_inj; eauto).
      apply (rl_total_weight (domR sp) (tr sp) Hinj wh w).
      - intros i Hi. apply ap_wt_h; exact Hi.
      - eapply Forall_impl; [|exact Fcs]. intros C HC. apply HC.
      - eapply Forall_impl; [|exact Fcs]. intros C HC. eapply ap_cs_h_dom; eauto. }
    assert (E2 : total_weight wh B'' = total_weight w B').
    { apply (rl_total_weight (domE sp) (tri sp) (ap_bwd_inj sp) w wh); auto.
      intros e He. apply ap_wt_g; exact He. }
    rewrite E1, <- E2. exact Hmin.
  Qed.
End AllKept.
