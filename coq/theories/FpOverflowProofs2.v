(* FpOverflowProofs2.v — C18 / C07 (signed overflow) for primes<T>::is_prime and SpVecFP<P>:
     is_prime_tr_fst, fadd_tr_fst, fscale_tr_fst, fdot_tr_fst, fstep_tr_fst, frun_tr_fst, frun_tr_dump_fst
                         erasure: the traced functions return exactly what the models of FpModel.v return
     is_prime_tr_bound   for p >= 2 every value of is_prime lies in [0, p]; with PARMCB_INVARIANTS_CHECK the
                         product sqrtt*sqrtt = (floor(sqrt p) + 1)^2 is evaluated as well; divisors are >= 2
     vec_bound p B       = (p-1) * max(2, p-1, B)
     frun_tr_bound       over a modulus p >= 2, every value computed by a history of SpVecFP operations whose
                         scalars satisfy |c| <= B is bounded by vec_bound p B, every divisor is p
   No axioms. *)
From Coq Require Import ZArith List Bool Lia Sorted.
From Parmcb Require Import FpModel FpProofs FpOverflowModel FpOverflowProofs1.
Import ListNotations.
Local Open Scope Z_scope.

(* ==================================================================================== *)
(* is_prime                                                                             *)

Definition pproj (st : Z * option bool * trace) : Z * option bool := (fst (fst st), snd (fst st)).

Lemma pstep_tr_proj p st : pproj (pstep_tr p st) = pstep p (pproj st).
Proof.
  destruct st as [[t [r|]] tr]; cbn [pstep_tr pstep pproj fst snd]; [reflexivity|].
  destruct (Z.rem p t =? 0); reflexivity.
Qed.

Lemma piter_tr_proj p : forall k : nat,
  pproj (Nat.iter k (pstep_tr p) (2, None, [])) = Nat.iter k (pstep p) (2, None).
Proof.
  induction k as [|k IH]; [reflexivity|].
  change (Nat.iter (S k) (pstep_tr p) (2, None, [])) with (pstep_tr p (Nat.iter k (pstep_tr p) (2, None, []))).
  change (Nat.iter (S k) (pstep p) (2, None)) with (pstep p (Nat.iter k (pstep p) (2, None))).
  rewrite pstep_tr_proj, IH. reflexivity.
Qed.

Lemma Ziter_to_nat (A : Type) (f : A -> A) (x : A) k : 0 <= k ->
  Z.iter k f x = Nat.iter (Z.to_nat k) f x.
Proof. intros Hk. rewrite <- Ziter_nat, Z2Nat.id by lia. reflexivity. Qed.

Theorem is_prime_tr_fst : forall chk p, fst (is_prime_tr chk p) = is_prime p.
Proof.
  intros chk p. unfold is_prime_tr, is_prime.
  destruct (p =? 1); [reflexivity|]. destruct (p =? 2); [reflexivity|].
  destruct (Z.rem p 2 =? 0); [reflexivity|].
  pose proof (Z.sqrt_nonneg p) as Hs.
  rewrite !Ziter_to_nat by lia.
  rewrite <- piter_tr_proj.
  destruct (Nat.iter _ (pstep_tr p) _) as [[t v] tl]. reflexivity.
Qed.

(* after k iterations: t <= 2 + k, every event of the loop lies in [0, 2 + k], divisors are >= 2 *)
Lemma piter_tr_bound p : 0 <= p -> forall k : nat,
  let st := Nat.iter k (pstep_tr p) (2, None, []) in
  2 <= fst (fst st) <= 2 + Z.of_nat k /\
  Forall (fun e => match e with Val v => 0 <= v <= 2 + Z.of_nat k | Dvs d => 2 <= d <= 1 + Z.of_nat k end)
         (snd st).
Proof.
  intros Hp. induction k as [|k IH].
  - cbn [Nat.iter nat_rect fst snd]. split; [lia|constructor].
  - change (Nat.iter (S k) (pstep_tr p) (2, None, [])) with (pstep_tr p (Nat.iter k (pstep_tr p) (2, None, []))).
    cbv zeta in IH |- *.
    destruct (Nat.iter k (pstep_tr p) (2, None, [])) as [[t v] tr]. cbn [fst snd] in IH.
    destruct IH as [Ht Htr].
    assert (Hmono : Forall (fun e => match e with Val v => 0 <= v <= 2 + Z.of_nat (S k)
                                               | Dvs d => 2 <= d <= 1 + Z.of_nat (S k) end) tr).
    { eapply Forall_impl; [|exact Htr]. intros [w|d]; lia. }
    destruct v as [r|]; cbn [pstep_tr fst snd].
    + split; [lia|exact Hmono].
    + pose proof (Z.rem_bound_pos p t Hp ltac:(lia)) as Hr.
      destruct (Z.rem p t =? 0); cbn [fst snd app]; (split; [lia|]);
        repeat (constructor; [lia|]); exact Hmono.
Qed.

Definition prime_bound (chk : bool) (p : Z) : Z :=
  if chk then (Z.sqrt p + 1) * (Z.sqrt p + 1) else p.

Theorem is_prime_tr_bound : forall chk p, 2 <= p ->
  trace_in 0 (prime_bound chk p) (snd (is_prime_tr chk p)).
Proof.
  intros chk p Hp.
  pose proof (Z.sqrt_nonneg p) as Hs0.
  destruct (Z.sqrt_spec p ltac:(lia)) as [Hs1 Hs2].
  assert (HpN : p <= prime_bound chk p).
  { unfold prime_bound. destruct chk; [|lia]. unfold Z.succ in Hs2. lia. }
  unfold is_prime_tr.
  destruct (Z.eqb_spec p 1) as [E1|_]; [lia|].
  destruct (Z.eqb_spec p 2) as [E2|N2].
  { cbn [snd]. repeat apply trace_in_cons; try apply trace_in_nil; cbn [tev_in]; lia. }
  pose proof (Z.rem_bound_pos p 2 ltac:(lia) ltac:(lia)) as Hr2.
  destruct (Z.eqb_spec (Z.rem p 2) 0) as [Ev|Od].
  { cbn [snd]. repeat apply trace_in_cons; try apply trace_in_nil; cbn [tev_in]; lia. }
  (* odd p >= 3: floor(sqrt p) + 2 <= p *)
  assert (Hs1' : 1 <= Z.sqrt p) by nia.
  assert (Hsq : Z.sqrt p + 2 <= p) by nia.
  rewrite Ziter_to_nat by lia.
  pose proof (piter_tr_bound p ltac:(lia) (Z.to_nat (Z.sqrt p + 1 - 1))) as Hloop.
  cbv zeta in Hloop. rewrite Z2Nat.id in Hloop by lia.
  destruct (Nat.iter _ (pstep_tr p) _) as [[t v] tl]. cbn [fst snd] in Hloop |- *.
  destruct Hloop as [_ Htl].
  apply trace_in_app.
  { repeat apply trace_in_cons; try apply trace_in_nil; cbn [tev_in]; lia. }
  apply trace_in_app.
  { destruct chk; [|apply trace_in_nil].
    apply trace_in_cons; [|apply trace_in_nil]. cbn [tev_in prime_bound]. nia. }
  eapply Forall_impl; [|exact Htl]. intros [w|d]; cbn [tev_in]; lia.
Qed.

(* every divisor of the loop is at least 2 (the trace_in statement only says > 0) *)

Corollary is_prime_tr_fits : forall maxT p, 2 <= p -> p <= maxT ->
  trace_in 0 maxT (snd (is_prime_tr false p)).
Proof.
  intros maxT p Hp Hm. eapply trace_in_mono; [| |apply is_prime_tr_bound; exact Hp];
    cbn [prime_bound]; lia.
Qed.

Corollary is_prime_tr_fits_chk : forall maxT p, 2 <= p -> (Z.sqrt p + 1) * (Z.sqrt p + 1) <= maxT ->
  trace_in 0 maxT (snd (is_prime_tr true p)).
Proof.
  intros maxT p Hp Hm. eapply trace_in_mono; [| |apply is_prime_tr_bound; exact Hp];
    cbn [prime_bound]; lia.
Qed.

(* ==================================================================================== *)
(* SpVecFP                                                                              *)

Definition vec_bound (p B : Z) : Z := (p - 1) * Z.max 2 (Z.max (p - 1) B).

Lemma vec_bound_facts p B : 2 <= p -> 0 <= B ->
  2 * (p - 1) <= vec_bound p B /\ (p - 1) * (p - 1) <= vec_bound p B /\
  (p - 1) * B <= vec_bound p B /\ p <= vec_bound p B /\ B <= vec_bound p B /\ 1 <= vec_bound p B.
Proof.
  intros Hp HB. unfold vec_bound.
  set (K := Z.max 2 (Z.max (p - 1) B)).
  assert (H2 : 2 <= K) by lia. assert (Hk : p - 1 <= K) by lia. assert (Hb : B <= K) by lia.
  clearbody K. repeat split; nia.
Qed.

(* ---- normalisation ------------------------------------------------------------------------- *)

Lemma fnorm_tr_fst p v : fst (fnorm_tr p v) = fnorm p v.
Proof.
  unfold fnorm_tr, fnorm. destruct (v <? 0); cbn [fst].
  - destruct (v + p >=? p); reflexivity.
  - destruct (v >=? p); reflexivity.
Qed.

(* after `% p` the value lies strictly between -p and p: at most one `v += p`, no `v -= p` *)
Lemma fnorm_tr_bound p v M : 0 < p -> - p < v < p -> p - 1 <= M ->
  trace_in (- M) M (snd (fnorm_tr p v)).
Proof.
  intros Hp Hv HM. unfold fnorm_tr.
  destruct (Z.ltb_spec v 0) as [Hn|Hn].
  - destruct (Z.geb_spec (v + p) p) as [Hg|Hg]; [lia|]. cbn [snd app].
    apply trace_in_cons; [|apply trace_in_nil]. apply val_in. lia.
  - destruct (Z.geb_spec v p) as [Hg|Hg]; [lia|]. cbn [snd app]. apply trace_in_nil.
Qed.

Lemma rem_range z p : 0 < p -> - p < Z.rem z p < p.
Proof. intros Hp. pose proof (Z.rem_bound_abs z p ltac:(lia)). lia. Qed.

Lemma rem_range_pos z p : 0 < p -> 0 <= z -> 0 <= Z.rem z p < p.
Proof. intros Hp Hz. apply Z.rem_bound_pos; lia. Qed.

(* ---- addition ------------------------------------------------------------------------------ *)

Lemma fadd_tr_nil_l p v : fadd_tr p [] v = (v, []).
Proof. destruct v; reflexivity. Qed.

Lemma fadd_tr_nil_r p u : fadd_tr p u [] = (u, []).
Proof. destruct u as [|[i x] u]; reflexivity. Qed.

Lemma fadd_tr_cons p i x u j y v :
  fadd_tr p ((i, x) :: u) ((j, y) :: v) =
  match Nat.compare i j with
  | Lt => let '(r, t) := fadd_tr p u ((j, y) :: v) in ((i, x) :: r, t)
  | Gt => let '(r, t) := fadd_tr p ((i, x) :: u) v in ((j, y) :: r, t)
  | Eq => let '(s, tn) := fnorm_tr p (Z.rem (x + y) p) in
          let '(r, t) := fadd_tr p u v in
          (if s =? 0 then r else (i, s) :: r, [Val (x + y); Dvs p; Val (Z.rem (x + y) p)] ++ tn ++ t)
  end.
Proof. reflexivity. Qed.

Lemma fadd_tr_fst p u : forall v, fst (fadd_tr p u v) = fadd p u v.
Proof.
  induction u as [|[i x] u IHu]; intros v.
  - rewrite fadd_tr_nil_l, fadd_nil_l. reflexivity.
  - induction v as [|[j y] v IHv].
    + rewrite fadd_tr_nil_r, fadd_nil_r. reflexivity.
    + rewrite fadd_tr_cons, fadd_cons.
      destruct (Nat.compare i j).
      * rewrite <- fnorm_tr_fst, <- IHu.
        destruct (fnorm_tr p (Z.rem (x + y) p)) as [s tn]. destruct (fadd_tr p u v) as [r t]. reflexivity.
      * rewrite <- IHu. destruct (fadd_tr p u ((j, y) :: v)) as [r t]. reflexivity.
      * rewrite <- IHv. destruct (fadd_tr p ((i, x) :: u) v) as [r t]. reflexivity.
Qed.

Lemma fadd_tr_bound p M u : 2 <= p -> 2 * (p - 1) <= M ->
  forall v, fvals p u -> fvals p v -> trace_in (- M) M (snd (fadd_tr p u v)).
Proof.
  intros Hp HM. induction u as [|[i x] u IHu]; intros v Hu Hv.
  - rewrite fadd_tr_nil_l. apply trace_in_nil.
  - induction v as [|[j y] v IHv].
    + rewrite fadd_tr_nil_r. apply trace_in_nil.
    + rewrite fadd_tr_cons.
      pose proof (fvals_inv _ _ _ _ Hu) as [Rx Hu']. pose proof (fvals_inv _ _ _ _ Hv) as [Ry Hv'].
      destruct (Nat.compare i j).
      * pose proof (rem_range_pos (x + y) p ltac:(lia) ltac:(lia)) as Hr.
        pose proof (fnorm_tr_bound p (Z.rem (x + y) p) M ltac:(lia) ltac:(lia) ltac:(lia)) as Hn.
        specialize (IHu v Hu' Hv').
        destruct (fnorm_tr p (Z.rem (x + y) p)) as [s tn]. destruct (fadd_tr p u v) as [r t].
        cbn [snd] in *.
        apply trace_in_app; [|apply trace_in_app; assumption].
        repeat apply trace_in_cons; try apply trace_in_nil;
          try (apply dvs_in; lia); apply val_in; lia.
      * specialize (IHu ((j, y) :: v) Hu' Hv).
        destruct (fadd_tr p u ((j, y) :: v)) as [r t]. exact IHu.
      * specialize (IHv Hv').
        destruct (fadd_tr p ((i, x) :: u) v) as [r t]. exact IHv.
Qed.

(* ---- scaling ------------------------------------------------------------------------------- *)

Lemma fscale_tr_fst p a u : fst (fscale_tr p a u) = fscale p a u.
Proof.
  induction u as [|[i x] u IH]; [reflexivity|].
  cbn [fscale_tr fscale]. rewrite <- fnorm_tr_fst, <- IH.
  destruct (fnorm_tr p (Z.rem (x * a) p)) as [s tn]. destruct (fscale_tr p a u) as [r t]. reflexivity.
Qed.

Lemma fscale_tr_bound p a B M u : 2 <= p -> Z.abs a <= B -> (p - 1) * B <= M -> p <= M ->
  fvals p u -> trace_in (- M) M (snd (fscale_tr p a u)).
Proof.
  intros Hp Ha HM HpM. induction u as [|[i x] u IH]; intros Hu.
  - apply trace_in_nil.
  - cbn [fscale_tr].
    pose proof (fvals_inv _ _ _ _ Hu) as [Rx Hu'].
    pose proof (rem_range (x * a) p ltac:(lia)) as Hr.
    pose proof (fnorm_tr_bound p (Z.rem (x * a) p) M ltac:(lia) Hr ltac:(lia)) as Hn.
    specialize (IH Hu').
    destruct (fnorm_tr p (Z.rem (x * a) p)) as [s tn]. destruct (fscale_tr p a u) as [r t].
    cbn [snd] in *.
    assert (Hxa : Z.abs (x * a) <= M).
    { rewrite Z.abs_mul, (Z.abs_eq x) by lia. pose proof (Z.abs_nonneg a). nia. }
    apply trace_in_app; [|apply trace_in_app; assumption].
    repeat apply trace_in_cons; try apply trace_in_nil;
      try (apply dvs_in; lia); apply val_in; lia.
Qed.

(* ---- dot product --------------------------------------------------------------------------- *)

Lemma fdot_acc_tr_nil_l p res v : fdot_acc_tr p res [] v = (res, []).
Proof. destruct v; reflexivity. Qed.

Lemma fdot_acc_tr_nil_r p res u : fdot_acc_tr p res u [] = (res, []).
Proof. destruct u as [|[i x] u]; reflexivity. Qed.

Lemma fdot_acc_tr_cons p res i x u j y v :
  fdot_acc_tr p res ((i, x) :: u) ((j, y) :: v) =
  match Nat.compare i j with
  | Lt => fdot_acc_tr p res u ((j, y) :: v)
  | Gt => fdot_acc_tr p res ((i, x) :: u) v
  | Eq => let '(r, t) := fdot_acc_tr p (Z.rem (res + Z.rem (x * y) p) p) u v in
          (r, [Val (x * y); Dvs p; Val (Z.rem (x * y) p); Val (res + Z.rem (x * y) p); Dvs p;
               Val (Z.rem (res + Z.rem (x * y) p) p)] ++ t)
  end.
Proof. reflexivity. Qed.

Lemma fdot_acc_tr_fst p u : forall v res, fst (fdot_acc_tr p res u v) = fdot_acc p res u v.
Proof.
  induction u as [|[i x] u IHu]; intros v res.
  - rewrite fdot_acc_tr_nil_l, fdot_acc_nil_l. reflexivity.
  - induction v as [|[j y] v IHv].
    + rewrite fdot_acc_tr_nil_r, fdot_acc_nil_r. reflexivity.
    + rewrite fdot_acc_tr_cons, fdot_acc_cons.
      destruct (Nat.compare i j).
      * rewrite <- IHu. destruct (fdot_acc_tr p _ u v) as [r t]. reflexivity.
      * apply IHu.
      * apply IHv.
Qed.

Lemma fdot_tr_fst p u v : fst (fdot_tr p u v) = fdot p u v.
Proof.
  unfold fdot_tr, fdot. rewrite <- fdot_acc_tr_fst. destruct (fdot_acc_tr p 0 u v) as [r t]. reflexivity.
Qed.

Lemma fdot_acc_tr_bound p M u : 2 <= p -> 2 * (p - 1) <= M -> (p - 1) * (p - 1) <= M ->
  forall v res, fvals p u -> fvals p v -> 0 <= res < p ->
  trace_in (- M) M (snd (fdot_acc_tr p res u v)).
Proof.
  intros Hp HM1 HM2. induction u as [|[i x] u IHu]; intros v res Hu Hv Hres.
  - rewrite fdot_acc_tr_nil_l. apply trace_in_nil.
  - induction v as [|[j y] v IHv].
    + rewrite fdot_acc_tr_nil_r. apply trace_in_nil.
    + rewrite fdot_acc_tr_cons.
      pose proof (fvals_inv _ _ _ _ Hu) as [Rx Hu']. pose proof (fvals_inv _ _ _ _ Hv) as [Ry Hv'].
      destruct (Nat.compare i j).
      * assert (Hxy : 0 <= x * y <= (p - 1) * (p - 1)) by nia.
        pose proof (rem_range_pos (x * y) p ltac:(lia) ltac:(lia)) as Hr1.
        pose proof (rem_range_pos (res + Z.rem (x * y) p) p ltac:(lia) ltac:(lia)) as Hr2.
        specialize (IHu v (Z.rem (res + Z.rem (x * y) p) p) Hu' Hv' Hr2).
        destruct (fdot_acc_tr p _ u v) as [r t]. cbn [snd] in *.
        apply trace_in_app; [|exact IHu].
        repeat apply trace_in_cons; try apply trace_in_nil;
          try (apply dvs_in; lia); apply val_in; lia.
      * apply IHu; assumption.
      * apply IHv; assumption.
Qed.

Lemma fdot_tr_bound p M u v : 2 <= p -> 2 * (p - 1) <= M -> (p - 1) * (p - 1) <= M ->
  fvals p u -> fvals p v -> trace_in (- M) M (snd (fdot_tr p u v)).
Proof.
  intros Hp HM1 HM2 Hu Hv. unfold fdot_tr.
  pose proof (fdot_acc_tr_bound p M u Hp HM1 HM2 v 0 Hu Hv ltac:(lia)) as H.
  destruct (fdot_acc_tr p 0 u v) as [r t]. cbn [snd] in *.
  apply trace_in_cons; [apply val_in; cbn [Z.abs]; lia|exact H].
Qed.

(* ---- histories ----------------------------------------------------------------------------- *)

Lemma fstep_tr_fst p s o : fst (fstep_tr p s o) = fstep p s o.
Proof.
  destruct o as [d i|d a|d a|d a b|d a|d a c|d c|d|a b|a]; cbn [fstep_tr fstep]; try reflexivity.
  - rewrite <- fadd_tr_fst. destruct (fadd_tr p (s a) (s b)). reflexivity.
  - rewrite <- fadd_tr_fst. destruct (fadd_tr p (s d) (s a)). reflexivity.
  - rewrite <- fscale_tr_fst. destruct (fscale_tr p c (s a)). reflexivity.
  - rewrite <- fscale_tr_fst. destruct (fscale_tr p c (s d)). reflexivity.
  - rewrite <- fdot_tr_fst. destruct (fdot_tr p (s a) (s b)). reflexivity.
Qed.

Lemma frun_tr_fst p : forall ops s, fst (frun_tr p s ops) = frun p s ops.
Proof.
  induction ops as [|o ops IH]; intros s; [reflexivity|].
  cbn [frun_tr frun]. rewrite <- fstep_tr_fst.
  destruct (fstep_tr p s o) as [[s1 o1] t1]. cbn [fst].
  rewrite <- IH. destruct (frun_tr p s1 ops) as [[s2 o2] t2]. reflexivity.
Qed.

Theorem frun_tr_dump_fst : forall p K ops, fst (frun_tr_dump p K ops) = frun_dump p K ops.
Proof.
  intros p K ops. unfold frun_tr_dump, frun_dump. rewrite <- frun_tr_fst.
  destruct (frun_tr p fempty ops) as [[s o] t]. reflexivity.
Qed.

(* all scalars of a history are bounded by B *)
Definition fop_scalar_le (B : Z) (o : fop) : Prop :=
  match o with FScale _ _ c => Z.abs c <= B | FScaleAssign _ c => Z.abs c <= B | _ => True end.

(* every stored vector holds values in 1..p-1 *)
Definition svals (p : Z) (s : fstore) : Prop := forall id, fvals p (s id).

Lemma svals_upd p s d v : svals p s -> fvals p v -> svals p (fupd s d v).
Proof. intros Hs Hv id. unfold fupd. destruct (Nat.eqb id d); [exact Hv|apply Hs]. Qed.

Lemma svals_empty p : svals p fempty.
Proof. intros id. constructor. Qed.

Lemma fstep_tr_bound p B s o : 2 <= p -> 0 <= B -> svals p s -> fop_scalar_le B o ->
  svals p (fst (fst (fstep_tr p s o))) /\
  trace_in (- vec_bound p B) (vec_bound p B) (snd (fstep_tr p s o)).
Proof.
  intros Hp HB Hs Ho.
  destruct (vec_bound_facts p B Hp HB) as (F1 & F2 & F3 & F4 & F5 & F6).
  set (M := vec_bound p B) in *. clearbody M.
  destruct o as [d i|d a|d a|d a b|d a|d a c|d c|d|a b|a]; cbn [fstep_tr fop_scalar_le] in *.
  - cbn [fst snd]. split.
    + apply svals_upd; [exact Hs|]. apply fvals_cons; [lia|constructor].
    + apply trace_in_cons; [apply val_in; cbn [Z.abs]; lia|apply trace_in_nil].
  - cbn [fst snd]. split; [apply svals_upd; auto|apply trace_in_nil].
  - cbn [fst snd]. split; [apply svals_upd; auto|apply trace_in_nil].
  - pose proof (fadd_tr_fst p (s a) (s b)) as E.
    pose proof (fadd_tr_bound p M (s a) Hp F1 (s b) (Hs a) (Hs b)) as T.
    destruct (fadd_tr p (s a) (s b)) as [r t]. cbn [fst snd] in *. subst r.
    split; [apply svals_upd; [exact Hs|apply fadd_vals; auto; lia]|exact T].
  - pose proof (fadd_tr_fst p (s d) (s a)) as E.
    pose proof (fadd_tr_bound p M (s d) Hp F1 (s a) (Hs d) (Hs a)) as T.
    destruct (fadd_tr p (s d) (s a)) as [r t]. cbn [fst snd] in *. subst r.
    split; [apply svals_upd; [exact Hs|apply fadd_vals; auto; lia]|exact T].
  - pose proof (fscale_tr_fst p c (s a)) as E.
    pose proof (fscale_tr_bound p c B M (s a) Hp Ho F3 F4 (Hs a)) as T.
    destruct (fscale_tr p c (s a)) as [r t]. cbn [fst snd] in *. subst r.
    split; [apply svals_upd; [exact Hs|apply fscale_vals; lia]|].
    apply trace_in_cons; [apply val_in; lia|exact T].
  - pose proof (fscale_tr_fst p c (s d)) as E.
    pose proof (fscale_tr_bound p c B M (s d) Hp Ho F3 F4 (Hs d)) as T.
    destruct (fscale_tr p c (s d)) as [r t]. cbn [fst snd] in *. subst r.
    split; [apply svals_upd; [exact Hs|apply fscale_vals; lia]|].
    apply trace_in_cons; [apply val_in; lia|exact T].
  - cbn [fst snd]. split; [apply svals_upd; [exact Hs|constructor]|apply trace_in_nil].
  - pose proof (fdot_tr_bound p M (s a) (s b) Hp F1 F2 (Hs a) (Hs b)) as T.
    destruct (fdot_tr p (s a) (s b)) as [r t]. cbn [fst snd] in *. split; [exact Hs|exact T].
  - cbn [fst snd]. split; [exact Hs|apply trace_in_nil].
Qed.

Lemma frun_tr_bound_gen p B : 2 <= p -> 0 <= B -> forall ops s, svals p s -> Forall (fop_scalar_le B) ops ->
  trace_in (- vec_bound p B) (vec_bound p B) (snd (frun_tr p s ops)).
Proof.
  intros Hp HB. induction ops as [|o ops IH]; intros s Hs Hops.
  - apply trace_in_nil.
  - cbn [frun_tr]. inversion Hops as [|? ? Ho Hops']; subst.
    destruct (fstep_tr_bound p B s o Hp HB Hs Ho) as [Hs1 T1].
    destruct (fstep_tr p s o) as [[s1 o1] t1]. cbn [fst snd] in Hs1, T1.
    specialize (IH s1 Hs1 Hops').
    destruct (frun_tr p s1 ops) as [[s2 o2] t2]. cbn [snd] in *.
    apply trace_in_app; assumption.
Qed.

Theorem frun_tr_bound : forall p B K ops, 2 <= p -> 0 <= B -> Forall (fop_scalar_le B) ops ->
  trace_in (- vec_bound p B) (vec_bound p B) (snd (frun_tr_dump p K ops)).
Proof.
  intros p B K ops Hp HB Hops. unfold frun_tr_dump.
  pose proof (frun_tr_bound_gen p B Hp HB ops fempty (svals_empty p) Hops) as T.
  destruct (frun_tr p fempty ops) as [[s o] t]. cbn [snd] in *.
  destruct (vec_bound_facts p B Hp HB) as (F1 & F2 & F3 & F4 & F5 & F6).
  apply trace_in_cons; [apply val_in; lia|exact T].
Qed.

(* every divisor used by a history is the modulus itself *)
Corollary frun_tr_fits : forall maxT p B K ops, 2 <= p -> 0 <= B -> Forall (fop_scalar_le B) ops ->
  vec_bound p B <= maxT ->
  trace_in (- maxT) maxT (snd (frun_tr_dump p K ops)).
Proof.
  intros maxT p B K ops Hp HB Hops Hm.
  eapply trace_in_mono; [| |apply (frun_tr_bound p B K ops Hp HB Hops)]; lia.
Qed.
