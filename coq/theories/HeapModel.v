(* HeapModel.v — executable model of boost::d_ary_heap_indirect<Value, 4, IndexInHeap, Distance, std::less>
   (boost/graph/detail/d_ary_heap.hpp) as used by the search frontiers: the heap is the array `data` of
   values; keys are read through `key` at the time of the call (indirect heap).  The tie-breaking of the
   real container is reproduced exactly: sift-up moves while strictly smaller than the parent; sift-down
   picks the leftmost smallest child and moves only if that child is strictly smaller.  Definitions only. *)
From Parmcb Require Export GraphModel.

Section Heap.
  Variable K : Type.
  Variable kltb : K -> K -> bool.            (* compare *)
  Variable key : nat -> K.                   (* get(distance, v) *)

  Definition hparent (i : nat) : nat := (i - 1) / 4.

  (* preserve_heap_property_up(index) *)
  Fixpoint sift_up (fuel : nat) (data : list nat) (i : nat) : list nat :=
    match fuel with
    | O => data
    | S fuel' =>
        match i with
        | O => data
        | _ =>
            let p := hparent i in
            let vi := nth i data 0 in
            let vp := nth p data 0 in
            if kltb (key vi) (key vp) then sift_up fuel' (set_nth (set_nth data i vp) p vi) p
            else data
        end
    end.

  (* index (relative to first_child) of the leftmost smallest among the children cs *)
  Fixpoint smallest_child (cs : list nat) (i : nat) (besti : nat) (bestk : K) : nat * K :=
    match cs with
    | [] => (besti, bestk)
    | c :: r => if kltb (key c) bestk then smallest_child r (S i) i (key c)
                else smallest_child r (S i) besti bestk
    end.

  (* preserve_heap_property_down() from position i *)
  Fixpoint sift_down (fuel : nat) (data : list nat) (i : nat) : list nat :=
    match fuel with
    | O => data
    | S fuel' =>
        let fc := 4 * i + 1 in
        match firstn 4 (skipn fc data) with
        | [] => data                                          (* no children *)
        | c0 :: cs =>
            let '(si, sk) := smallest_child cs 1 0 (key c0) in
            let cur := nth i data 0 in
            if kltb sk (key cur) then
              let ci := fc + si in
              sift_down fuel' (set_nth (set_nth data i (nth ci data 0)) ci cur) ci
            else data
        end
    end.

  Definition heap_push (data : list nat) (v : nat) : list nat :=
    sift_up (S (length data)) (data ++ [v]) (length data).

  Definition heap_top (data : list nat) : option nat := hd_error data.

  Definition heap_pop (data : list nat) : list nat :=
    match data with
    | [] => []
    | [_] => []
    | _ :: _ => let l := last data 0 in
                sift_down (S (length data)) (l :: tl (removelast data)) 0
    end.

  Fixpoint find_pos (v : nat) (data : list nat) (i : nat) : option nat :=
    match data with
    | [] => None
    | x :: r => if Nat.eqb x v then Some i else find_pos v r (S i)
    end.

  (* update(v): decrease-key; None = v is not in the heap (index_in_heap == -1: out-of-bounds access in C++) *)
  Definition heap_update (data : list nat) (v : nat) : option (list nat) :=
    match find_pos v data 0 with
    | Some i => Some (sift_up (S (length data)) data i)
    | None => None
    end.
End Heap.
