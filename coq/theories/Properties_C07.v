(* Properties_C07.v — the LOGIC half of C07 (no undefined behaviour on valid inputs): on every valid input the models never
   take one of their error branches.  Each error value of a model stands for an operation that is undefined behaviour (or an
   uncaught exception) in the C++: an out-of-range vector/array index, a std::map/at lookup of a missing key,
   d_ary_heap::update of a vertex that is not in the queue (index -1), a loop that would run past its data (fuel), an assert
   that a cycle was found.  The statements below are re-exports (exact) of theorems proved for the individual components, so
   that the claim "no error branch is reachable on valid inputs" is visible in one place.  What a theorem about a model
   CANNOT show — actual memory accesses of the compiled code, leaks, uninitialised reads — is covered by the sanitizer runs
   of tools/props/c07.py (exploration, labelled partial). *)
From Coq Require Import List Arith Bool ZArith Permutation.
From Parmcb Require Import GraphModel GraphSpec McbSpec ForestModel Properties_C16 FvsModel Properties_C13
     SpannerModel Properties_C15 SvaModel SignedModel SignedZModel BidirSpec Properties_C01 Properties_C02
     LexSPModel Properties_C12 CandidatesModel Properties_C14.
Import ListNotations.

(* ForestIndex: reverse_index[low++] / [high++] stay inside the vector, every edge gets an index (create_index succeeds) *)
Theorem C07_forest_index_in_bounds : forall g roots, simple_graph g -> (forall v, v < nv g -> In v roots) ->
  exists fi, create_index g roots = Some fi /\ fi_m fi = ne g
  /\ (forall e, e < ne g -> exists i, fi_index fi e = Some i /\ i < ne g /\ fi_edge fi i = Some e).
Proof.
  intros g roots Hs Hr. destruct (C16 g roots Hs Hr) as (fi & H1 & _ & H2 & H3 & _).
  exists fi. split; [exact H1|]. split; [exact H2|exact H3].
Qed.
Print Assumptions C07_forest_index_in_bounds.

(* greedy_fvs: the clean-up loops never run past their data *)
Theorem C07_fvs_no_fuel_error : forall g picks, simple_graph g -> greedy_fvs g picks <> FvsOutOfFuel.
Proof. exact C13_no_fuel_error. Qed.
Print Assumptions C07_fvs_no_fuel_error.

(* spanner construction and its BFS never index out of range *)
Theorem C07_spanner_total : forall g k scan, simple_graph g -> Permutation scan (seq 0 (ne g)) ->
  exists sp, construct_spanner g k scan = SpOk sp.
Proof. intros g k scan Hs Hp. destruct (C15_total g k scan Hs Hp) as (sp & H & _). exists sp; exact H. Qed.
Print Assumptions C07_spanner_total.

(* bidirectional_signed_dijkstra: never SearchError — in particular queue.update() is never called for a vertex that is
   not in the queue (index_in_heap == -1 would be an out-of-bounds access) and the reconstruction loops terminate *)
Theorem C07_search_no_error : forall (P : sparams Z) s spos t tpos,
  simple_graph (sp_g Z P) -> positive_weights (sp_g Z P) (sp_wts Z P) ->
  s < nv (sp_g Z P) -> t < nv (sp_g Z P) ->
  signed_id (nv (sp_g Z P)) s spos <> signed_id (nv (sp_g Z P)) t tpos ->
  bidirectional_signed_dijkstra Z 0%Z Z.add Z.ltb P s spos t tpos <> SearchError Z.
Proof.
  intros P s spos t tpos Hs Hw Hs1 Ht1 Hne He.
  pose proof (C02_bidirectional_search_optimal P s spos t tpos Hs Hw Hs1 Ht1 Hne) as H.
  cbv zeta in H. rewrite He in H. exact H.
Qed.
Print Assumptions C07_search_no_error.

(* mcb_sva_signed: the index exists, every phase finds a cycle (assert(std::get<2>(best)) holds), no search error *)
Theorem C07_signed_no_error : forall g wts roots eord,
  simple_graph g -> positive_weights g wts -> (forall v, v < nv g -> In v roots) ->
  exists cycles total sup, mcb_sva_signed_Z g wts roots eord = SvaOk cycles total sup.
Proof.
  intros g wts roots eord Hs Hw Hr. destruct (C01_signed g wts roots eord Hs Hw Hr) as (c & t & s & H & _).
  exists c, t, s. exact H.
Qed.
Print Assumptions C07_signed_no_error.

(* lexicographic Dijkstra / SPTree: no out-of-range access, no update of an absent queue entry, every node exists *)
Theorem C07_sptree_no_error : forall g wts s, simple_graph g -> positive_weights g wts -> s < nv g ->
  exists t, sptree_Z g wts s = LxOk t.
Proof. intros g wts s Hs Hw Hlt. destruct (C12_dist g wts s Hs Hw Hlt) as (t & H & _). exists t; exact H. Qed.
Print Assumptions C07_sptree_no_error.

(* candidate builders (Horton, FVS): trees.at / vertex look-ups never fail *)
Theorem C07_candidates_no_error : forall g wts, simple_graph g -> positive_weights g wts ->
  (exists trees cs, horton_cycles_Z g wts = CdOk (trees, cs)) /\
  (forall picks fvs, greedy_fvs g picks = FvsOk fvs -> exists trees cs, fvs_cycles_Z g wts picks = CdOk (trees, cs)).
Proof. exact C14_total. Qed.
Print Assumptions C07_candidates_no_error.
