(* Properties_C07.v — the LOGIC half of C07 (no undefined behaviour on valid inputs): on every valid input the models never
   take one of their error branches.  Each error value of a model stands for an operation that is undefined behaviour (or an
   uncaught exception) in the C++: an out-of-range vector/array index, a std::map/at lookup of a missing key,
   d_ary_heap::update of a vertex that is not in the queue (index -1), a loop that would run past its data (fuel), an assert
   that a cycle was found.  The statements below are re-exports (exact) of theorems proved for the individual components, so
   that the claim "no error branch is reachable on valid inputs" is visible in one place.  What a theorem about a model
   CANNOT show — actual memory accesses of the compiled code, leaks, uninitialised reads — is covered by the sanitizer runs
   of tools/props/c07.py (exploration, labelled partial). *)
From Coq Require Import List Arith Bool ZArith Permutation.
From Parmcb Require Import GraphModel GraphSpec McbSpec ForestModel Properties_C16 FvsModel Properties_C13
     SpannerModel Properties_C15 SvaModel SignedModel SignedZModel BidirSpec Properties_C01 Properties_C02
     LexSPModel Properties_C12 CandidatesModel Properties_C14.
Import ListNotations.

(* ForestIndex: reverse_index[low++] / [high++] stay inside the vector, every edge gets an index (create_index succeeds) *)
Theorem C07_forest_index_in_bounds : forall g roots, simple_graph g -> (forall v, v < nv g -> In v roots) ->
  exists fi, create_index g roots = Some fi /\ fi_m fi = ne g
  /\ (forall e, e < ne g -> exists i, fi_index fi e = Some i /\ i < ne g /\ fi_edge fi i = Some e).
Proof.
  intros g roots Hs Hr. destruct (C16 g roots Hs Hr) as (fi & H1 & _ & H2 & H3 & _).
  exists fi. split; [exact H1|]. split; [exact H2|exact H3].
Qed.
Print Assumptions C07_forest_index_in_bounds.

(* greedy_fvs: the clean-up loops never run past their data *)
Theorem C07_fvs_no_fuel_error : forall g picks, simple_graph g -> greedy_fvs g picks <> FvsOutOfFuel.
Proof. exact C13_no_fuel_error. Qed.
Print Assumptions C07_fvs_no_fuel_error.

(* spanner construction and its BFS never index out of range *)
Theorem C07_spanner_total : forall g k scan, simple_graph g -> Permutation scan (seq 0 (ne g)) ->
  exists sp, construct_spanner g k scan = SpOk sp.
Proof. intros g k scan Hs Hp. destruct (C15_total g k scan Hs Hp) as (sp & H & _). exists sp; exact H. Qed.
Print Assumptions C07_spanner_total.

(* bidirectional_signed_dijkstra: never SearchError — in particular queue.update() is never called for a vertex that is
   not in the queue (index_in_heap == -1 would be an out-of-bounds access) and the reconstruction loops terminate *)
Theorem C07_search_no_error : forall (P : sparams Z) s spos t tpos,
  simple_graph (sp_g Z P) -> positive_weights (sp_g Z P) (sp_wts Z P) ->
  s < nv (sp_g Z P) -> t < nv (sp_g Z P) ->
  signed_id (nv (sp_g Z P)) s spos <> signed_id (nv (sp_g Z P)) t tpos ->
  bidirectional_signed_dijkstra Z 0%Z Z.add Z.ltb P s spos t tpos <> SearchError Z.
Proof.
  intros P s spos t tpos Hs Hw Hs1 Ht1 Hne He.
  pose proof (C02_bidirectional_search_optimal P s spos t tpos Hs Hw Hs1 Ht1 Hne) as H.
  cbv zeta in H. rewrite He in H. exact H.
Qed.
Print Assumptions C07_search_no_error.

(* mcb_sva_signed: the index exists, every phase finds a cycle (assert(std::get<2>(best)) holds), no search error *)
Theorem C07_signed_no_error : forall g wts roots eord,
  simple_graph g -> positive_weights g wts -> (forall v, v < nv g -> In v roots) ->
  exists cycles total sup, mcb_sva_signed_Z g wts roots eord = SvaOk cycles total sup.
Proof.
  intros g wts roots eord Hs Hw Hr. destruct (C01_signed g wts roots eord Hs Hw Hr) as (c & t & s & H & _).
  exists c, t, s. exact H.
Qed.
Print Assumptions C07_signed_no_error.

(* lexicographic Dijkstra / SPTree: no out-of-range access, no update of an absent queue entry, every node exists *)
Theorem C07_sptree_no_error : forall g wts s, simple_graph g -> positive_weights g wts -> s < nv g ->
  exists t, sptree_Z g wts s = LxOk t.
Proof. intros g wts s Hs Hw Hlt. destruct (C12_dist g wts s Hs Hw Hlt) as (t & H & _). exists t; exact H. Qed.
Print Assumptions C07_sptree_no_error.

(* candidate builders (Horton, FVS): trees.at / vertex look-ups never fail *)
Theorem C07_candidates_no_error : forall g wts, simple_graph g -> positive_weights g wts ->
  (exists trees cs, horton_cycles_Z g wts = CdOk (trees, cs)) /\
  (forall picks fvs, greedy_fvs g picks = FvsOk fvs -> exists trees cs, fvs_cycles_Z g wts picks = CdOk (trees, cs)).
Proof. exact C14_total. Qed.
Print Assumptions C07_candidates_no_error.

(* ---- clause "overflows a signed integer": the int instantiation of bidirectional_signed_dijkstra / mcb_sva_signed -------
   The Z model (SignedModel.v / SignedZModel.v) describes the C++ instantiated with `int` weights only as long as no sum
   formed with closed_plus / += leaves the int range.  OverflowProofs3.v / OverflowProofs4.v restate the model functions
   with a TRACE — X_tr returns (result of X, list of every sum X forms, including the ones that are computed and then
   dropped) — prove that the first component IS the model (erasure), and bound every element of the trace.
   With  S = wsum g wts  (sum of all edge weights)  and  wmax = the largest edge weight  (wmax <= S):

   C07_overflow_search   one call of bidirectional_signed_dijkstra on a simple graph with positive weights, two different
                         signed end vertices and a weight limit that is absent or <= S (inside mcb_sva_signed it is the
                         weight of a simple cycle found before): every sum — c = d_u + w(e), path_distance = c + dist_other,
                         find_min + find_min of the stop test, cycle_weight += w(e) of both reconstruction loops — lies in
                         [0, 2S + 2wmax] (hence <= 4S); the values stored in f_dist lie in [0, 2S + wmax], the settled ones
                         in [0, 2S] (C07_overflow_fdist, for every state satisfying the frontier invariant finv).
   C07_overflow_total    a whole run of mcb_sva_signed on a valid input: every sum formed is in [0, 2S + 2wmax] (searches,
                         and w' = w + w(se) of the hidden-edge heuristic, which is even <= S) or is a running total
                         mcb_weight += w; the running totals increase from 0 to the returned total, which is the weight of
                         EVERY minimum cycle basis of g, and is <= N * S for N = dimension of the cycle space (each emitted
                         cycle weighs <= S).

   PRECONDITION for int weights, in plain words:   2 * sum(w) + 2 * max(w) <= INT_MAX   and
   weight of a minimum cycle basis <= INT_MAX   (implied by  max(4, N) * sum(w) <= INT_MAX, C07_overflow_total_coarse).
   Under it every sum is in [0, INT_MAX], closed_plus(a, b) = a + b (its `inf` guard can only fire when one operand is INT_MAX and the other is 0),
   and the int run is the Z model's run; with "< INT_MAX" instead of "<=" no sum can equal the sentinel
   numeric_limits<int>::max() either.  The Z model says NOTHING about int inputs outside this precondition.
   The bound 2 * sum(w) <= INT_MAX alone is NOT enough for the running total: C07_overflow_2S_not_enough (K7, all weights
   51130563: 2S = INT_MAX - 1, returned total 45 * 51130563 > INT_MAX).  For the sums inside a search no input exceeding
   2S was found, but the proved bound is 2S + 2wmax. *)
From Parmcb Require Import SignedProofs2 BidirProofs1 OverflowProofs1 OverflowProofs3 OverflowProofs4 OverflowProofs5.

Theorem C07_overflow_search : forall (P : sparams Z) s spos t tpos (M : Z),
  simple_graph (sp_g Z P) -> positive_weights (sp_g Z P) (sp_wts Z P) ->
  s < nv (sp_g Z P) -> t < nv (sp_g Z P) ->
  signed_id (nv (sp_g Z P)) s spos <> signed_id (nv (sp_g Z P)) t tpos ->
  (forall l, sp_limit Z P = Some l -> (l <= wsum (sp_g Z P) (sp_wts Z P))%Z) ->
  fst (bidirectional_tr P s spos t tpos) = bidirectional_signed_dijkstra Z 0%Z Z.add Z.ltb P s spos t tpos
  /\ Forall (fun v => (0 <= v <= 2 * wsum (sp_g Z P) (sp_wts Z P) + 2 * wmax (sp_wts Z P))%Z)
            (snd (bidirectional_tr P s spos t tpos))
  /\ (2 * wsum (sp_g Z P) (sp_wts Z P) + 2 * wmax (sp_wts Z P) <= 4 * wsum (sp_g Z P) (sp_wts Z P))%Z
  /\ ((2 * wsum (sp_g Z P) (sp_wts Z P) + 2 * wmax (sp_wts Z P) <= M)%Z ->
      Forall (fun v => (0 <= v <= M)%Z) (snd (bidirectional_tr P s spos t tpos))).
Proof. exact ov_overflow_search. Qed.
Print Assumptions C07_overflow_search.

Theorem C07_overflow_fdist : forall (P : sparams Z) done s fr u d,
  simple_graph (sp_g Z P) -> positive_weights (sp_g Z P) (sp_wts Z P) ->
  finv P done s fr -> fdist fr u = Some d ->
  (0 <= d <= 2 * wsum (sp_g Z P) (sp_wts Z P) + wmax (sp_wts Z P))%Z
  /\ (settled fr u -> (d <= 2 * wsum (sp_g Z P) (sp_wts Z P))%Z).
Proof. exact ov_fdist_entries. Qed.
Print Assumptions C07_overflow_fdist.

Theorem C07_overflow_total : forall (g : graph) (wts : list Z) (roots eord : list nat),
  simple_graph g -> positive_weights g wts -> (forall v, v < nv g -> In v roots) ->
  exists cycles total sup,
    mcb_sva_signed_Z g wts roots eord = SvaOk cycles total sup
    /\ fst (mcb_sva_signed_Z_tr g wts roots eord) = mcb_sva_signed_Z g wts roots eord
    /\ min_cycle_basis g wts cycles /\ has_cycle_space_dimension g (length cycles)
    /\ total = total_weight wts cycles
    /\ (forall B', min_cycle_basis g wts B' -> total_weight wts B' = total)
    /\ Forall (fun c => (0 <= weight wts c <= wsum g wts)%Z) cycles
    /\ (0 <= total <= Z.of_nat (length cycles) * wsum g wts)%Z
    /\ Forall (fun v => (0 <= v <= 2 * wsum g wts + 2 * wmax wts)%Z \/ (0 <= v <= total)%Z)
              (snd (mcb_sva_signed_Z_tr g wts roots eord))
    /\ forall M, (2 * wsum g wts + 2 * wmax wts <= M)%Z -> (total <= M)%Z ->
         Forall (fun v => (0 <= v <= M)%Z) (snd (mcb_sva_signed_Z_tr g wts roots eord)).
Proof. exact ov_overflow_total. Qed.
Print Assumptions C07_overflow_total.

Theorem C07_overflow_total_coarse : forall (g : graph) (wts : list Z) (roots eord : list nat) (M : Z),
  simple_graph g -> positive_weights g wts -> (forall v, v < nv g -> In v roots) ->
  exists cycles total sup,
    mcb_sva_signed_Z g wts roots eord = SvaOk cycles total sup
    /\ has_cycle_space_dimension g (length cycles)
    /\ ((Z.max 4 (Z.of_nat (length cycles)) * wsum g wts <= M)%Z ->
        Forall (fun v => (0 <= v <= M)%Z) (snd (mcb_sva_signed_Z_tr g wts roots eord)) /\ (total <= M)%Z).
Proof. exact ov_overflow_total_coarse. Qed.
Print Assumptions C07_overflow_total_coarse.

(* non-vacuity: K4 with unit weights satisfies the hypotheses and the int precondition; its trace is computed
   (47 sums; S = 6, wmax = 1, every search sum <= 3 <= 2S + 2wmax = 14, running totals 3, 6, 9) *)
Example C07_overflow_nonvacuous :
  simple_graph sg_k4 /\ positive_weights sg_k4 sg_k4_wts /\ (forall v, v < nv sg_k4 -> In v sg_k4_roots) /\
  (2 * wsum sg_k4 sg_k4_wts + 2 * wmax sg_k4_wts <= 2147483647)%Z /\
  (Z.max 4 3 * wsum sg_k4 sg_k4_wts <= 2147483647)%Z /\
  snd (mcb_sva_signed_Z_tr sg_k4 sg_k4_wts sg_k4_roots sg_k4_eord)
  = [1; 1; 1; 2; 1; 2; 2; 1; 2; 3; 3; 1; 1; 1; 2; 2; 1; 2; 3; 1; 1; 1; 1; 2; 2;
     1; 2; 3; 6; 1; 1; 1; 2; 2; 1; 2; 3; 1; 1; 1; 1; 2; 2; 1; 2; 3; 9]%Z.
Proof.
  split; [exact sg_k4_simple|]. split; [exact sg_k4_positive|]. split; [exact sg_k4_roots_cover|].
  destruct ov_k4_trace as (Et & ES & EW). rewrite ES, EW. split; [discriminate|]. split; [discriminate|exact Et].
Qed.

(* 2 * sum(w) <= INT_MAX does not bound the running total: K7 with 21 equal weights *)
Example C07_overflow_2S_not_enough :
  simple_graph ov_k7 /\ positive_weights ov_k7 ov_k7_wts /\ (forall v, v < nv ov_k7 -> In v ov_k7_roots) /\
  (2 * wsum ov_k7 ov_k7_wts <= 2147483647)%Z /\
  exists cycles sup,
    mcb_sva_signed_Z ov_k7 ov_k7_wts ov_k7_roots ov_k7_eord = SvaOk cycles 2300875335%Z sup
    /\ length cycles = 15 /\ (2147483647 < 2300875335)%Z.
Proof.
  split; [exact ov_k7_simple|]. split; [exact ov_k7_positive|]. split; [exact ov_k7_roots_cover|].
  split; [rewrite (proj1 ov_k7_sums); discriminate|].
  destruct ov_k7_run as (cycles & sup & E & L). exists cycles, sup. split; [exact E|]. split; [exact L|reflexivity].
Qed.
