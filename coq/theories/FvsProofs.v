(* FvsProofs.v — the model of parmcb::greedy_fvs emits a feedback vertex set (property C13).

   Structure:
   1. list / array helpers;
   2. adjacency facts for simple graphs (nbrs, out_edges <-> joins);
   3. closed forms for the neighbour loop (dec_neighbor fold) and remove_vertex;
   4. the state invariant Inv and its preservation;
   5. cleanup terminates within cleanup_fuel and re-establishes Inv with an empty forRemoval;
   6. the cycle invariant J ("every even edge set avoiding the output lives on existing vertices"),
      main_loop, C13_fvs, no fuel error;
   7. the deterministic resolution is a complete run;
   8. forests: a state where every existing vertex has two existing neighbours contains a closed
      trail, hence an even-degree edge set; so on a forest the first clean-up removes everything. *)
From Coq Require Import List Arith Bool Lia Sorted Permutation.
From Parmcb Require Import GraphModel GraphSpec FvsModel.
Import ListNotations.

(* ------------------------------------------------------------------------------------------ *)
(* 1. helpers                                                                                  *)

Lemma memb_In x l : memb x l = true <-> In x l.
Proof.
  unfold memb; rewrite existsb_exists; split.
  - intros [y [Hin Heq]]; apply Nat.eqb_eq in Heq; subst; auto.
  - intros Hin; exists x; split; auto; apply Nat.eqb_refl.
Qed.

Lemma memb_false x l : memb x l = false <-> ~ In x l.
Proof.
  rewrite <- memb_In. destruct (memb x l); split; intros H; auto; try discriminate.
  exfalso; apply H; reflexivity.
Qed.

Lemma set_nth_length {A} (l : list A) : forall i x, length (set_nth l i x) = length l.
Proof.
  induction l as [|y r IH]; intros [|i] x; cbn [set_nth length]; auto.
Qed.

Lemma nth_set_nth_eq {A} (l : list A) : forall j x d, j < length l -> nth j (set_nth l j x) d = x.
Proof.
  induction l as [|y r IH]; intros [|j] x d Hj; cbn [set_nth nth length] in *; try lia; auto.
  apply IH; lia.
Qed.

Lemma nth_set_nth_neq {A} (l : list A) : forall i j x d, i <> j -> nth i (set_nth l j x) d = nth i l d.
Proof.
  induction l as [|y r IH]; intros [|i] [|j] x d Hij; cbn [set_nth nth]; auto; try lia.
Qed.

Lemma set_nth_same {A} (l : list A) : forall j x d, nth j l d = x -> j < length l -> set_nth l j x = l.
Proof.
  induction l as [|y r IH]; intros [|j] x d Hn Hj; cbn [set_nth nth length] in *; try lia.
  - subst; auto.
  - f_equal; eapply IH; eauto; lia.
Qed.

Lemma set_nth_oob {A} (l : list A) : forall j x, length l <= j -> set_nth l j x = l.
Proof.
  induction l as [|y r IH]; intros [|j] x Hj; cbn [set_nth length] in *; try lia; auto.
  f_equal; apply IH; lia.
Qed.

Lemma nth_set_false (l : list bool) u v :
  nth v (set_nth l u false) false = if Nat.eqb v u then false else nth v l false.
Proof.
  destruct (Nat.eqb_spec v u) as [->|Hne].
  - destruct (Nat.lt_ge_cases u (length l)) as [Hlt|Hge].
    + apply nth_set_nth_eq; auto.
    + apply nth_overflow. rewrite set_nth_length; auto.
  - apply nth_set_nth_neq; auto.
Qed.

Lemma set_false_id (l : list bool) u : nth u l false = false -> set_nth l u false = l.
Proof.
  intros H. destruct (Nat.lt_ge_cases u (length l)) as [Hlt|Hge].
  - eapply set_nth_same; eauto.
  - apply set_nth_oob; auto.
Qed.

Definition count_true (l : list bool) : nat := length (filter (fun b => b) l).

Lemma count_true_set_false (l : list bool) : forall u,
  nth u l false = true -> count_true (set_nth l u false) + 1 = count_true l.
Proof.
  unfold count_true.
  induction l as [|b r IH]; intros [|u] Hu; cbn [nth set_nth] in *; try discriminate.
  - subst b. cbn [filter length]. lia.
  - cbn [filter]. destruct b; cbn [length]; rewrite <- (IH u Hu); lia.
Qed.

Lemma count_true_zero (l : list bool) : count_true l = 0 -> forall v, nth v l false = false.
Proof.
  unfold count_true.
  induction l as [|b r IH]; intros H [|v]; cbn [nth]; auto.
  - destruct b; auto. cbn in H. discriminate.
  - apply IH. destruct b; auto. cbn in H; discriminate.
Qed.

Lemma existsb_id_false (l : list bool) : existsb (fun b => b) l = false -> forall v, nth v l false = false.
Proof.
  induction l as [|b r IH]; intros H [|v]; cbn [nth existsb] in *; auto.
  - destruct b; auto.
  - apply IH. destruct b; auto. discriminate.
Qed.

Lemma existsb_id_true (l : list bool) v : nth v l false = true -> existsb (fun b => b) l = true.
Proof.
  intros H. destruct (existsb (fun b => b) l) eqn:E; auto.
  rewrite (existsb_id_false l E v) in H. discriminate.
Qed.

Lemma filter_length_le {A} (f : A -> bool) l : length (filter f l) <= length l.
Proof. induction l as [|x l IH]; cbn [filter length]; auto. destruct (f x); cbn [length]; lia. Qed.

Lemma filter_length_mono {A} (f h : A -> bool) l :
  (forall x, In x l -> f x = true -> h x = true) -> length (filter f l) <= length (filter h l).
Proof.
  induction l as [|x l IH]; intros H; cbn [filter length]; auto.
  assert (IH' : length (filter f l) <= length (filter h l)) by (apply IH; intros; apply H; auto; right; auto).
  destruct (f x) eqn:Ef.
  - rewrite (H x (or_introl eq_refl) Ef). cbn [length]. lia.
  - destruct (h x); cbn [length]; lia.
Qed.

(* removing one element from the predicate removes exactly one element of a duplicate-free list *)
Lemma filter_drop_one (f : nat -> bool) u l :
  NoDup l -> In u l -> f u = true ->
  length (filter (fun x => if Nat.eqb x u then false else f x) l) + 1 = length (filter f l).
Proof.
  induction l as [|y l IH]; intros Hnd Hin Hf; [destruct Hin|].
  inversion Hnd as [|? ? Hy Hnd']; subst. cbn [filter].
  destruct (Nat.eqb_spec y u) as [->|Hne].
  - rewrite Hf. cbn [length].
    rewrite (filter_ext_in (fun x => if Nat.eqb x u then false else f x) f); [lia|].
    intros x Hx. destruct (Nat.eqb_spec x u); auto. subst; contradiction.
  - destruct Hin as [->|Hin]; [contradiction|].
    specialize (IH Hnd' Hin Hf). destruct (f y); cbn [length]; lia.
Qed.

Lemma filter_drop_none (f : nat -> bool) u l :
  ~ In u l -> filter (fun x => if Nat.eqb x u then false else f x) l = filter f l.
Proof.
  intros Hn. apply filter_ext_in. intros x Hx.
  destruct (Nat.eqb_spec x u); auto. subst; contradiction.
Qed.

Lemma two_distinct_length {A} (l : list A) x y : In x l -> In y l -> x <> y -> 2 <= length l.
Proof.
  destruct l as [|a [|b l]]; cbn [In length]; intros Hx Hy Hne; try lia; try tauto.
  destruct Hx as [->|[]], Hy as [->|[]]. contradiction.
Qed.

(* ------------------------------------------------------------------------------------------ *)
(* 2. adjacency                                                                                *)

Definition nbrs (g : graph) (u : nat) : list nat := map snd (out_edges g u).
(* number of neighbours of u that still exist *)
Definition en (g : graph) (s : fstate) (u : nat) : nat := length (filter (exb s) (nbrs g u)).

Lemma out_from_In u es : forall i e w,
  In (e, w) (out_from u es i) <->
  exists k, e = i + k /\ (nth_error es k = Some (u, w) \/ nth_error es k = Some (w, u)).
Proof.
  induction es as [|[s t] r IH]; intros i e w; cbn [out_from].
  - split; [intros []|intros [k [_ [H|H]]]; destruct k; discriminate].
  - rewrite !in_app_iff, IH. split.
    + intros [H|[H|[k [-> H]]]].
      * destruct (Nat.eqb_spec s u) as [->|]; [|destruct H]. destruct H as [H|[]].
        inversion H; subst. exists 0. split; [lia|left; reflexivity].
      * destruct (Nat.eqb_spec t u) as [->|]; [|destruct H]. destruct H as [H|[]].
        inversion H; subst. exists 0. split; [lia|right; reflexivity].
      * exists (S k); split; [lia|exact H].
    + intros [k [-> H]]. destruct k as [|k].
      * cbn [nth_error] in H. destruct H as [H|H]; inversion H; subst.
        -- left. rewrite Nat.eqb_refl. left. f_equal. lia.
        -- right; left. rewrite Nat.eqb_refl. left; f_equal; lia.
      * right; right. exists k. split; [lia|exact H].
Qed.

Lemma out_edges_In g u e w : In (e, w) (out_edges g u) <-> joins g e u w.
Proof.
  unfold out_edges, joins, ends. rewrite out_from_In. split.
  - intros [k [-> H]]. exact H.
  - intros H. exists e. split; auto.
Qed.

Lemma joins_sym g e x y : joins g e x y -> joins g e y x.
Proof. unfold joins; tauto. Qed.

Lemma nbrs_In g u w : In w (nbrs g u) <-> exists e, joins g e u w.
Proof.
  unfold nbrs. rewrite in_map_iff. split.
  - intros [[e w'] [Hs Hin]]. cbn [snd] in Hs. subst w'. exists e. apply out_edges_In; auto.
  - intros [e He]. exists (e, w). split; auto. apply out_edges_In; auto.
Qed.

Lemma nbrs_sym g u w : In w (nbrs g u) -> In u (nbrs g w).
Proof. rewrite !nbrs_In. intros [e He]; exists e; apply joins_sym; auto. Qed.

Lemma simple_ends g e a b : simple_graph g -> ends g e = Some (a, b) -> a < nv g /\ b < nv g /\ a <> b.
Proof.
  unfold simple_graph, simpleb, ends. intros Hs He.
  apply andb_true_iff in Hs as [Hs _]. rewrite forallb_forall in Hs.
  apply nth_error_In in He. specialize (Hs _ He). cbn [fst snd] in Hs.
  apply andb_true_iff in Hs as [Hs Hne]. apply andb_true_iff in Hs as [Ha Hb].
  apply Nat.ltb_lt in Ha, Hb. apply negb_true_iff in Hne. apply Nat.eqb_neq in Hne. auto.
Qed.

Lemma joins_simple g e x y : simple_graph g -> joins g e x y -> x < nv g /\ y < nv g /\ x <> y.
Proof.
  intros Hs [H|H]; apply (simple_ends g e _ _ Hs) in H; intuition.
Qed.

Lemma joins_lt g e x y : joins g e x y -> e < ne g.
Proof.
  unfold joins, ends, ne. intros [H|H]; apply nth_error_Some; rewrite H; discriminate.
Qed.

Lemma nbrs_range g u w : simple_graph g -> In w (nbrs g u) -> w < nv g /\ u < nv g /\ w <> u.
Proof.
  intros Hs Hin. apply nbrs_In in Hin as [e He]. apply (joins_simple g e u w Hs) in He. intuition.
Qed.

Lemma out_from_nodup u es : forall i,
  (forall a b, In (a, b) es -> a <> b) -> no_parallel es = true ->
  NoDup (map snd (out_from u es i)).
Proof.
  induction es as [|[s t] r IH]; intros i Hloop Hpar; cbn [out_from map]; [constructor|].
  cbn [no_parallel] in Hpar. apply andb_true_iff in Hpar as [Hex Hpar].
  apply negb_true_iff in Hex.
  assert (IH' : NoDup (map snd (out_from u r (S i)))).
  { apply IH; auto. intros a b Hab; apply Hloop; right; auto. }
  assert (Hst : s <> t) by (apply Hloop; left; auto).
  assert (Hnot : forall w, (s = u /\ w = t) \/ (t = u /\ w = s) ->
                 ~ In w (map snd (out_from u r (S i)))).
  { intros w Hw Hin. apply in_map_iff in Hin as [[e w'] [Hsnd Hin]]. cbn [snd] in Hsnd; subst w'.
    apply out_from_In in Hin as [k [_ Hk]].
    assert (Hc : existsb (same_pair (s, t)) r = true); [|congruence].
    apply existsb_exists.
    destruct Hk as [Hk|Hk]; apply nth_error_In in Hk; eexists; (split; [exact Hk|]);
      unfold same_pair; cbn [fst snd];
      destruct Hw as [[-> ->]|[-> ->]]; rewrite !Nat.eqb_refl; cbn; auto using orb_true_r. }
  rewrite !map_app.
  destruct (Nat.eqb_spec s u) as [Hs|Hs], (Nat.eqb_spec t u) as [Ht|Ht]; cbn [map app snd].
  - congruence.
  - constructor; auto.
  - constructor; auto.
  - auto.
Qed.

Lemma nbrs_nodup g u : simple_graph g -> NoDup (nbrs g u).
Proof.
  intros Hs. unfold nbrs, out_edges. pose proof Hs as Hs'.
  unfold simple_graph, simpleb in Hs'. apply andb_true_iff in Hs' as [_ Hpar].
  apply out_from_nodup; auto.
  intros a b Hab. apply In_nth_error in Hab as [k Hk].
  apply (simple_ends g k a b Hs Hk).
Qed.

Lemma en_mono g s s' x : (forall v, exb s' v = true -> exb s v = true) -> en g s' x <= en g s x.
Proof. intros H. unfold en. apply filter_length_mono. intros v _; apply H. Qed.

Lemma en_zero_mono g s s' x :
  (forall v, exb s' v = true -> exb s v = true) -> en g s x = 0 -> en g s' x = 0.
Proof. intros H H0. pose proof (en_mono g s s' x H). lia. Qed.

Lemma en_zero_none g s u w : en g s u = 0 -> In w (nbrs g u) -> exb s w = false.
Proof.
  unfold en. intros H0 Hin. destruct (exb s w) eqn:E; auto.
  assert (Hf : In w (filter (exb s) (nbrs g u))) by (apply filter_In; auto).
  destruct (filter (exb s) (nbrs g u)); [destruct Hf|discriminate].
Qed.

(* ------------------------------------------------------------------------------------------ *)
(* 3. closed forms of the neighbour loop and of remove_vertex                                  *)

Lemma dec_neighbor_char s e w :
  let s1 := dec_neighbor s (e, w) in
  ex s1 = ex s /\ length (deg s1) = length (deg s) /\
  (forall v, degv s1 v = if exb s w && Nat.eqb v w then degv s v - 1 else degv s v) /\
  rem s1 = (if exb s w && Nat.leb (degv s w - 1) 1 then [w] else []) ++ rem s.
Proof.
  unfold dec_neighbor. cbn [snd]. destruct (exb s w) eqn:E; cbn [negb andb].
  - cbn [ex deg rem]. repeat split.
    + apply set_nth_length.
    + intros v. unfold degv at 1. cbn [deg]. destruct (Nat.eqb_spec v w) as [->|Hne].
      * destruct (Nat.lt_ge_cases w (length (deg s))) as [Hlt|Hge].
        -- apply nth_set_nth_eq; auto.
        -- rewrite set_nth_oob by auto. unfold degv. rewrite nth_overflow by auto. reflexivity.
      * apply nth_set_nth_neq; auto.
    + destruct (Nat.leb (degv s w - 1) 1); reflexivity.
  - repeat split; auto.
Qed.

Lemma fold_dec_char : forall l s0, NoDup (map snd l) ->
  let s' := fold_left dec_neighbor l s0 in
  ex s' = ex s0 /\ length (deg s') = length (deg s0) /\
  (forall v, degv s' v = if exb s0 v && memb v (map snd l) then degv s0 v - 1 else degv s0 v) /\
  rem s' = rev (filter (fun w => exb s0 w && Nat.leb (degv s0 w - 1) 1) (map snd l)) ++ rem s0.
Proof.
  induction l as [|[e w] l IH]; intros s0 Hnd; cbn [fold_left map snd].
  - cbn. repeat split; auto. intros v; rewrite andb_false_r; reflexivity.
  - inversion Hnd as [|? ? Hw Hnd']; subst.
    destruct (dec_neighbor_char s0 e w) as (D1 & D2 & D3 & D4).
    specialize (IH (dec_neighbor s0 (e, w)) Hnd'). cbv zeta in IH.
    destruct IH as (E1 & E2 & E3 & E4).
    set (s1 := dec_neighbor s0 (e, w)) in *.
    assert (Hex : forall v, exb s1 v = exb s0 v) by (intros v; unfold exb; rewrite D1; auto).
    cbv zeta. repeat split.
    + congruence.
    + congruence.
    + intros v. rewrite E3, Hex, D3. unfold memb. cbn [existsb]. fold (memb v (map snd l)).
      destruct (Nat.eqb_spec v w) as [->|Hne].
      * apply memb_false in Hw. rewrite Hw. rewrite andb_false_r. cbn [orb]. rewrite andb_true_r.
        destruct (exb s0 w); reflexivity.
      * cbn [orb]. rewrite andb_false_r. reflexivity.
    + rewrite E4, D4. cbn [filter].
      rewrite (filter_ext_in (fun w0 => exb s1 w0 && Nat.leb (degv s1 w0 - 1) 1)
                             (fun w0 => exb s0 w0 && Nat.leb (degv s0 w0 - 1) 1)).
      * destruct (exb s0 w && Nat.leb (degv s0 w - 1) 1); cbn [rev app].
        -- rewrite <- app_assoc. reflexivity.
        -- reflexivity.
      * intros x Hx. rewrite Hex, D3.
        destruct (Nat.eqb_spec x w) as [->|Hne]; [contradiction|].
        rewrite andb_false_r. reflexivity.
Qed.

(* existence after exists[u] = false *)
Definition exb_del (s : fstate) (u v : nat) : bool := if Nat.eqb v u then false else exb s v.

Lemma remove_vertex_char g s u : simple_graph g ->
  let s' := remove_vertex g s u in
  ex s' = set_nth (ex s) u false /\ length (deg s') = length (deg s) /\
  (forall v, exb s' v = exb_del s u v) /\
  (forall v, degv s' v = if exb_del s u v && memb v (nbrs g u) then degv s v - 1 else degv s v) /\
  rem s' = rev (filter (fun w => exb_del s u w && Nat.leb (degv s w - 1) 1) (nbrs g u)) ++ rem s.
Proof.
  intros Hs. unfold remove_vertex.
  set (s0 := {| ex := set_nth (ex s) u false; deg := deg s; rem := rem s |}).
  destruct (fold_dec_char (out_edges g u) s0 (nbrs_nodup g u Hs)) as (E1 & E2 & E3 & E4).
  assert (Hex0 : forall v, exb s0 v = exb_del s u v).
  { intros v. unfold exb, exb_del, s0. cbn [ex]. apply nth_set_false. }
  cbv zeta. repeat split.
  - rewrite E1. reflexivity.
  - rewrite E2. reflexivity.
  - intros v. unfold exb at 1. rewrite E1. apply Hex0.
  - intros v. rewrite E3, Hex0. reflexivity.
  - rewrite E4. fold (nbrs g u). cbn [rem s0].
    f_equal. f_equal. apply filter_ext. intros w. rewrite Hex0. reflexivity.
Qed.

(* removing a vertex that does not exist and has no existing neighbour changes nothing *)
Lemma fold_dec_noop : forall l s, (forall ew, In ew l -> exb s (snd ew) = false) ->
  fold_left dec_neighbor l s = s.
Proof.
  induction l as [|ew l IH]; intros s H; cbn [fold_left]; auto.
  assert (Hd : dec_neighbor s ew = s).
  { unfold dec_neighbor. rewrite (H ew (or_introl eq_refl)). reflexivity. }
  rewrite Hd. apply IH. intros ew' Hin; apply H; right; auto.
Qed.

Lemma remove_vertex_noop g s u : exb s u = false -> en g s u = 0 -> remove_vertex g s u = s.
Proof.
  intros Hu H0. unfold remove_vertex. rewrite (set_false_id (ex s) u Hu).
  rewrite fold_dec_noop.
  - destruct s; reflexivity.
  - intros [e w] Hin. cbn [snd ex exb]. change (exb s w = false).
    apply (en_zero_none g s u w H0). unfold nbrs. apply in_map_iff. exists (e, w); auto.
Qed.

(* ------------------------------------------------------------------------------------------ *)
(* 4. the state invariant                                                                      *)

Record Inv (g : graph) (s : fstate) : Prop := {
  inv_lex : length (ex s) = nv g;
  inv_ldeg : length (deg s) = nv g;
  (* the tracked degree of an existing vertex is its number of existing neighbours *)
  inv_deg : forall v, exb s v = true -> degv s v = en g s v;
  (* existing vertices of degree <= 1 are scheduled for removal *)
  inv_low : forall v, exb s v = true -> degv s v <= 1 -> In v (rem s);
  inv_rem_ex : forall u, In u (rem s) -> exb s u = true -> degv s u <= 1;
  (* a scheduled vertex that is already gone has no existing neighbour:
     popping it again decrements nothing *)
  inv_rem_nex : forall u, In u (rem s) -> exb s u = false -> en g s u = 0;
  (* a vertex is scheduled a second time only when its degree reached 0 *)
  inv_rem_twice : forall u, 2 <= count_occ Nat.eq_dec (rem s) u -> en g s u = 0 }.

Lemma exb_del_true s u v : exb_del s u v = true -> v <> u /\ exb s v = true.
Proof. unfold exb_del. destruct (Nat.eqb_spec v u); [discriminate|auto]. Qed.

Lemma memb_nbrs_sym g u v : memb v (nbrs g u) = memb u (nbrs g v).
Proof.
  destruct (memb v (nbrs g u)) eqn:E1, (memb u (nbrs g v)) eqn:E2; auto.
  - apply memb_In, nbrs_sym, memb_In in E1. congruence.
  - apply memb_In, nbrs_sym, memb_In in E2. congruence.
Qed.

Lemma en_del g s s' u v : simple_graph g ->
  (forall x, exb s' x = exb_del s u x) -> exb s u = true ->
  en g s' v + (if memb u (nbrs g v) then 1 else 0) = en g s v.
Proof.
  intros Hs Hex Hu. unfold en.
  rewrite (filter_ext (exb s') (fun x => if Nat.eqb x u then false else exb s x)) by exact Hex.
  destruct (memb u (nbrs g v)) eqn:E.
  - apply memb_In in E. apply filter_drop_one; auto. apply nbrs_nodup; auto.
  - apply memb_false in E. rewrite filter_drop_none by auto. lia.
Qed.

Lemma remove_existing_inv g s u : simple_graph g ->
  length (ex s) = nv g -> length (deg s) = nv g ->
  (forall v, exb s v = true -> degv s v = en g s v) ->
  (forall v, v <> u -> exb s v = true -> degv s v <= 1 -> In v (rem s)) ->
  (forall x, In x (rem s) -> exb s x = true -> degv s x <= 1) ->
  (forall x, In x (rem s) -> exb s x = false -> en g s x = 0) ->
  (forall x, 2 <= count_occ Nat.eq_dec (rem s) x -> en g s x = 0) ->
  (In u (rem s) -> en g s u = 0) ->
  exb s u = true ->
  Inv g (remove_vertex g s u) /\
  (forall v, exb (remove_vertex g s u) v = exb_del s u v) /\
  count_true (ex (remove_vertex g s u)) + 1 = count_true (ex s) /\
  length (rem (remove_vertex g s u)) <= length (rem s) + en g s u.
Proof.
  intros Hs Hlex Hldeg Hdeg Hlow Hrex Hrnex Hrtw Hu0 Hu.
  destruct (remove_vertex_char g s u Hs) as (C1 & C2 & C3 & C4 & C5).
  set (s' := remove_vertex g s u) in *.
  assert (Hmono : forall v, exb s' v = true -> exb s v = true).
  { intros v Hv. rewrite C3 in Hv. apply exb_del_true in Hv. tauto. }
  assert (Hen : forall v, en g s' v + (if memb u (nbrs g v) then 1 else 0) = en g s v).
  { intros v. apply en_del; auto. }
  assert (Hdle : forall v, degv s' v <= degv s v).
  { intros v. rewrite C4. destruct (exb_del s u v && memb v (nbrs g u)); lia. }
  set (F := filter (fun w => exb_del s u w && Nat.leb (degv s w - 1) 1) (nbrs g u)) in *.
  assert (HF : forall x, In x F -> In x (nbrs g u) /\ x <> u /\ exb s x = true /\ degv s x - 1 <= 1).
  { intros x Hx. apply filter_In in Hx as [Hx1 Hx2]. apply andb_true_iff in Hx2 as [Hx2 Hx3].
    apply exb_del_true in Hx2. apply Nat.leb_le in Hx3. tauto. }
  assert (Hrem : forall x, In x (rem s') <-> In x F \/ In x (rem s)).
  { intros x. rewrite C5, in_app_iff, <- in_rev. tauto. }
  split; [|split; [|split]].
  - constructor.
    + rewrite C1, set_nth_length; auto.
    + congruence.
    + intros v Hv. rewrite C3 in Hv. pose proof Hv as Hv'. apply exb_del_true in Hv' as [Hvu Hvs].
      rewrite C4, Hv. cbn [andb]. specialize (Hen v). rewrite <- memb_nbrs_sym in Hen.
      rewrite (Hdeg v Hvs). destruct (memb v (nbrs g u)); lia.
    + intros v Hv Hle. rewrite C3 in Hv. pose proof Hv as Hv'. apply exb_del_true in Hv' as [Hvu Hvs].
      apply Hrem. rewrite C4, Hv in Hle. cbn [andb] in Hle.
      destruct (memb v (nbrs g u)) eqn:Em.
      * left. apply filter_In. split; [apply memb_In; auto|].
        rewrite Hv. cbn [andb]. apply Nat.leb_le. lia.
      * right. apply Hlow; auto.
    + intros x Hx Hex. apply Hrem in Hx as [Hx|Hx].
      * apply HF in Hx as (Hx1 & Hx2 & Hx3 & Hx4). rewrite C4.
        apply memb_In in Hx1. rewrite Hx1. rewrite C3 in Hex. rewrite Hex. cbn [andb]. lia.
      * specialize (Hdle x). specialize (Hrex x Hx (Hmono x Hex)). lia.
    + intros x Hx Hex. apply Hrem in Hx as [Hx|Hx].
      * apply HF in Hx as (Hx1 & Hx2 & Hx3 & Hx4). rewrite C3 in Hex. unfold exb_del in Hex.
        destruct (Nat.eqb_spec x u); congruence.
      * apply (en_zero_mono g s s' x Hmono).
        rewrite C3 in Hex. unfold exb_del in Hex.
        destruct (Nat.eqb_spec x u) as [->|Hne]; auto.
    + intros x Hx. rewrite C5, count_occ_app in Hx.
      assert (HndF : NoDup (rev F)).
      { apply NoDup_rev. apply NoDup_filter. apply nbrs_nodup; auto. }
      pose proof (proj1 (NoDup_count_occ Nat.eq_dec (rev F)) HndF x) as Hc1.
      destruct (le_lt_dec 2 (count_occ Nat.eq_dec (rem s) x)) as [H2|H2].
      * apply (en_zero_mono g s s' x Hmono). auto.
      * assert (HxF : In x (rev F)) by (apply (count_occ_In Nat.eq_dec); lia).
        assert (HxR : In x (rem s)) by (apply (count_occ_In Nat.eq_dec); lia).
        apply in_rev in HxF. apply HF in HxF as (Hx1 & Hx2 & Hx3 & Hx4).
        specialize (Hrex x HxR Hx3). specialize (Hen x).
        apply nbrs_sym, memb_In in Hx1. rewrite Hx1 in Hen.
        rewrite (Hdeg x Hx3) in Hrex. lia.
  - exact C3.
  - rewrite C1. apply count_true_set_false. exact Hu.
  - rewrite C5, app_length, rev_length. unfold en.
    assert (length F <= length (filter (exb s) (nbrs g u))); [|lia].
    apply filter_length_mono. intros x _ Hx. apply andb_true_iff in Hx as [Hx _].
    apply exb_del_true in Hx. tauto.
Qed.

(* ------------------------------------------------------------------------------------------ *)
(* 5. clean-up: termination within the fuel, and what it does to the `exists` array            *)

Definition exl (l : list bool) (v : nat) : bool := nth v l false.
Definition enl (g : graph) (l : list bool) (u : nat) : nat := length (filter (exl l) (nbrs g u)).

(* a sequence of "light" removals: each removed vertex had at most one existing neighbour *)
Inductive lsteps (g : graph) : list bool -> list bool -> Prop :=
| ls_refl l : lsteps g l l
| ls_step l l' u : exl l u = true -> enl g l u <= 1 -> lsteps g (set_nth l u false) l' -> lsteps g l l'.

Lemma lsteps_mono g l l' : lsteps g l l' -> forall v, exl l' v = true -> exl l v = true.
Proof.
  induction 1 as [l|l l' u Hu Hen Hst IH]; intros v Hv; auto.
  apply IH in Hv. unfold exl in Hv. rewrite nth_set_false in Hv.
  destruct (Nat.eqb v u); [discriminate|exact Hv].
Qed.

Lemma lsteps_count g l l' : lsteps g l l' -> count_true l' <= count_true l.
Proof.
  induction 1 as [l|l l' u Hu Hen Hst IH]; auto.
  pose proof (count_true_set_false l u Hu). lia.
Qed.

Lemma count_occ_cons_le (y : nat) l x :
  count_occ Nat.eq_dec l x <= count_occ Nat.eq_dec (y :: l) x.
Proof. cbn [count_occ]. destruct (Nat.eq_dec y x); lia. Qed.

Lemma cleanup_ok g : simple_graph g -> forall fuel s,
  Inv g s -> length (rem s) + count_true (ex s) < fuel ->
  exists s', cleanup fuel g s = Some s' /\ Inv g s' /\ rem s' = [] /\ lsteps g (ex s) (ex s').
Proof.
  intros Hs. induction fuel as [|f IH]; intros s HI Hm; [lia|].
  cbn [cleanup]. destruct (rem s) as [|u r] eqn:R.
  - exists s. split; [reflexivity|]. split; [exact HI|]. split; [exact R|constructor].
  - set (sp := {| ex := ex s; deg := deg s; rem := r |}).
    destruct HI as [H1 H2 H3 H4 H5 H6 H7]. rewrite R in *. cbn [length] in Hm.
    assert (Hinu : In u (u :: r)) by (left; auto).
    destruct (exb s u) eqn:Eu.
    + destruct (remove_existing_inv g sp u Hs) as (I1 & I2 & I3 & I4); auto;
        [unfold sp; cbn [ex deg rem] .. |].
      * intros v Hvu Hv Hle. destruct (H4 v Hv Hle) as [->|]; [congruence|auto].
      * intros x Hx. apply H5. right; auto.
      * intros x Hx. apply H6. right; auto.
      * intros x Hx. apply H7. pose proof (count_occ_cons_le u r x). lia.
      * intros Hur. apply H7. cbn [count_occ]. destruct (Nat.eq_dec u u) as [_|]; [|congruence].
        apply (count_occ_In Nat.eq_dec) in Hur. lia.
      * destruct (remove_vertex_char g sp u Hs) as (C1 & _).
        assert (Hen' : en g sp u = en g s u) by reflexivity.
        rewrite Hen' in I4.
        clear Hen'. unfold sp in *. cbn [ex deg rem] in C1, I3, I4.
        assert (Hen1 : en g s u <= 1).
        { rewrite <- (H3 u Eu). apply H5; auto. }
        destruct (IH _ I1) as (s' & E1 & E2 & E3 & E4); [clear - Hm I3 I4 Hen1; lia|].
        exists s'. split; [exact E1|]. split; [exact E2|]. split; [exact E3|].
        rewrite C1 in E4. eapply ls_step; eauto.
    + assert (Hen0 : en g s u = 0) by (apply H6; auto).
      rewrite (remove_vertex_noop g sp u Eu Hen0).
      destruct (IH sp) as (s' & E1 & E2 & E3 & E4).
      * constructor; unfold sp; cbn [ex deg rem]; auto.
        -- intros v Hv Hle. change (exb s v = true) in Hv.
           destruct (H4 v Hv Hle) as [->|]; [congruence|auto].
        -- intros x Hx. apply H5. right; auto.
        -- intros x Hx. apply H6. right; auto.
        -- intros x Hx. apply H7. pose proof (count_occ_cons_le u r x). lia.
      * unfold sp; cbn [ex rem]. clear - Hm. lia.
      * exists s'. split; [exact E1|]. split; [exact E2|]. split; [exact E3|exact E4].
Qed.

(* ------------------------------------------------------------------------------------------ *)
(* 6. the cycle invariant and the main loop                                                    *)

Lemma sorted_NoDup (Z : list nat) : sorted Z -> NoDup Z.
Proof.
  unfold sorted. induction 1 as [|x Z HS IH HF]; constructor; auto.
  intros Hin. rewrite Forall_forall in HF. apply HF in Hin. lia.
Qed.

Lemma incident_joins g e u : incident g e u = true -> exists w, joins g e u w.
Proof.
  unfold incident, joins. destruct (ends g e) as [[a b]|]; [|discriminate].
  intros H. apply orb_true_iff in H as [H|H]; apply Nat.eqb_eq in H; subst.
  - exists b; auto.
  - exists a; auto.
Qed.

Lemma ends_incident g e a b : ends g e = Some (a, b) -> incident g e a = true /\ incident g e b = true.
Proof.
  unfold incident. intros ->. rewrite !Nat.eqb_refl. split; auto using orb_true_r.
Qed.

(* an even edge set touching u contains two different edges at u *)
Lemma even_touch_two g Z u e : NoDup Z -> even_degrees g Z -> In e Z -> incident g e u = true ->
  exists e1 e2, e1 <> e2 /\ In e1 Z /\ In e2 Z /\ incident g e1 u = true /\ incident g e2 u = true.
Proof.
  intros Hnd Hev He Hinc. specialize (Hev u). unfold deg_in in Hev.
  assert (HL : In e (filter (fun e => incident g e u) Z)) by (apply filter_In; auto).
  assert (HndL : NoDup (filter (fun e => incident g e u) Z)) by (apply NoDup_filter; auto).
  assert (Hall : forall x, In x (filter (fun e => incident g e u) Z) -> In x Z /\ incident g x u = true).
  { intros x Hx. apply filter_In in Hx. exact Hx. }
  destruct (filter (fun e => incident g e u) Z) as [|e1 [|e2 L]].
  - destruct HL.
  - cbn in Hev. discriminate.
  - exists e1, e2. inversion HndL as [|? ? Hn1 _]; subst.
    destruct (Hall e1) as [A1 A2]; [left; auto|].
    destruct (Hall e2) as [B1 B2]; [right; left; auto|].
    repeat split; auto. intros ->. apply Hn1. left; auto.
Qed.

Lemma filter_map_length {A B} (h : A -> B) (f : B -> bool) l :
  length (filter f (map h l)) = length (filter (fun x => f (h x)) l).
Proof.
  induction l as [|x l IH]; cbn [map filter]; auto.
  destruct (f (h x)); cbn [length]; auto.
Qed.

Definition J (g : graph) (l : list bool) (R : list nat) : Prop :=
  forall Z, sorted Z -> Z <> [] -> incl Z (surviving_edges g R) -> even_degrees g Z ->
  forall e a b, In e Z -> ends g e = Some (a, b) -> exl l a = true /\ exl l b = true.

(* no even edge set that lives on existing vertices touches a vertex with <= 1 existing neighbour *)
Lemma J_light g l R u : J g l R -> enl g l u <= 1 -> J g (set_nth l u false) R.
Proof.
  intros HJ Hen Z HsZ HneZ Hincl Hev e a b He Hends.
  destruct (HJ Z HsZ HneZ Hincl Hev e a b He Hends) as [Ha Hb].
  assert (Hno : forall e', In e' Z -> incident g e' u = false).
  { intros e' He'. destruct (incident g e' u) eqn:Einc; auto. exfalso.
    destruct (even_touch_two g Z u e' (sorted_NoDup Z HsZ) Hev He' Einc)
      as (e1 & e2 & Hne & H1 & H2 & I1 & I2).
    apply incident_joins in I1 as [w1 J1]. apply incident_joins in I2 as [w2 J2].
    assert (X1 : exl l w1 = true).
    { destruct J1 as [E|E]; destruct (HJ Z HsZ HneZ Hincl Hev e1 _ _ H1 E); auto. }
    assert (X2 : exl l w2 = true).
    { destruct J2 as [E|E]; destruct (HJ Z HsZ HneZ Hincl Hev e2 _ _ H2 E); auto. }
    apply out_edges_In in J1, J2.
    unfold enl, nbrs in Hen. rewrite filter_map_length in Hen.
    assert (2 <= length (filter (fun x => exl l (snd x)) (out_edges g u))); [|lia].
    apply (two_distinct_length _ (e1, w1) (e2, w2)).
    - apply filter_In; auto.
    - apply filter_In; auto.
    - intros Heq. inversion Heq. contradiction. }
  specialize (Hno e He). unfold incident in Hno. rewrite Hends in Hno.
  apply orb_false_iff in Hno as [Hau Hbu]. apply Nat.eqb_neq in Hau, Hbu.
  unfold exl in *. rewrite !nth_set_false.
  destruct (Nat.eqb_spec a u); [congruence|]. destruct (Nat.eqb_spec b u); [congruence|]. auto.
Qed.

Lemma J_lsteps g l l' R : lsteps g l l' -> J g l R -> J g l' R.
Proof.
  induction 1 as [l|l l' u Hu Hen Hst IH]; intros HJ; auto.
  apply IH. apply J_light; auto.
Qed.

Lemma surviving_edges_In g R e :
  In e (surviving_edges g R) <->
  exists a b, ends g e = Some (a, b) /\ ~ In a R /\ ~ In b R.
Proof.
  unfold surviving_edges. rewrite filter_In, in_seq. split.
  - intros [_ H]. destruct (ends g e) as [[a b]|] eqn:E; [|discriminate].
    apply andb_true_iff in H as [Ha Hb]. apply negb_true_iff in Ha, Hb.
    apply memb_false in Ha, Hb. exists a, b; auto.
  - intros (a & b & E & Ha & Hb). split.
    + assert (e < ne g) by (apply (joins_lt g e a b); left; auto). lia.
    + rewrite E. apply memb_false in Ha, Hb. rewrite Ha, Hb. reflexivity.
Qed.

Lemma surviving_edges_ext g R R' : (forall v, In v R <-> In v R') ->
  surviving_edges g R = surviving_edges g R'.
Proof.
  intros H. unfold surviving_edges. apply filter_ext. intros e.
  assert (Hm : forall x, memb x R = memb x R').
  { intros x. destruct (memb x R) eqn:E1, (memb x R') eqn:E2; auto.
    - apply memb_In, H, memb_In in E1. congruence.
    - apply memb_In, H, memb_In in E2. congruence. }
  destruct (ends g e) as [[a b]|]; auto. rewrite !Hm. reflexivity.
Qed.

Lemma J_pick g l R v : J g l R -> J g (set_nth l v false) (v :: R).
Proof.
  intros HJ Z HsZ HneZ Hincl Hev e a b He Hends.
  assert (Hincl' : incl Z (surviving_edges g R)).
  { intros x Hx. apply Hincl in Hx. apply surviving_edges_In in Hx as (a' & b' & E & Ha & Hb).
    apply surviving_edges_In. exists a', b'. cbn [In] in Ha, Hb. tauto. }
  destruct (HJ Z HsZ HneZ Hincl' Hev e a b He Hends) as [Ha Hb].
  apply Hincl in He. apply surviving_edges_In in He as (a' & b' & E & Ha' & Hb').
  rewrite Hends in E. inversion E; subst a' b'. cbn [In] in Ha', Hb'.
  unfold exl in *. rewrite !nth_set_false.
  destruct (Nat.eqb_spec a v); [subst; tauto|]. destruct (Nat.eqb_spec b v); [subst; tauto|]. auto.
Qed.

Lemma nth_map_true {A} (l : list A) : forall v,
  v < length l -> nth v (map (fun _ => true) l) false = true.
Proof.
  induction l as [|y l IH]; intros [|v] Hv; cbn [map nth length] in *; auto; try lia.
  apply IH; lia.
Qed.

Lemma J_init g : simple_graph g -> J g (map (fun _ => true) (seq 0 (nv g))) [].
Proof.
  intros Hs Z _ _ _ _ e a b _ Hends.
  destruct (simple_ends g e a b Hs Hends) as (Ha & Hb & _).
  assert (Hn : forall x, x < nv g -> exl (map (fun _ => true) (seq 0 (nv g))) x = true).
  { intros x Hx. unfold exl. apply nth_map_true. rewrite seq_length; auto. }
  auto.
Qed.

Lemma J_final g l R : J g l R -> (forall v, exl l v = false) -> acyclic_edges g (surviving_edges g R).
Proof.
  intros HJ Hnone Z HsZ HneZ Hincl Hev.
  destruct Z as [|e Z]; [congruence|].
  assert (He : In e (e :: Z)) by (left; auto).
  pose proof (Hincl e He) as Hsurv. apply surviving_edges_In in Hsurv as (a & b & E & _).
  destruct (HJ (e :: Z) HsZ HneZ Hincl Hev e a b He E) as [Ha _].
  rewrite Hnone in Ha. discriminate.
Qed.

Lemma nbrs_length_le g u : simple_graph g -> length (nbrs g u) <= nv g.
Proof.
  intros Hs. rewrite <- (seq_length (nv g) 0). apply NoDup_incl_length.
  - apply nbrs_nodup; auto.
  - intros w Hw. apply in_seq. apply (nbrs_range g u w Hs) in Hw. lia.
Qed.

Lemma count_true_le l : count_true l <= length l.
Proof. apply filter_length_le. Qed.

Lemma exb_lt s v : exb s v = true -> v < length (ex s).
Proof.
  intros H. destruct (Nat.lt_ge_cases v (length (ex s))) as [|Hge]; auto.
  unfold exb in H. rewrite nth_overflow in H by auto. discriminate.
Qed.

(* one effective iteration of the main loop: emit v, then clean up *)
Lemma pick_step g s v R : simple_graph g ->
  Inv g s -> rem s = [] -> exb s v = true ->
  J g (ex s) R -> NoDup R -> (forall x, In x R -> exb s x = false /\ x < nv g) ->
  exists s', cleanup (cleanup_fuel g) g (remove_vertex g s v) = Some s' /\
    Inv g s' /\ rem s' = [] /\ J g (ex s') (v :: R) /\ NoDup (v :: R) /\
    (forall x, In x (v :: R) -> exb s' x = false /\ x < nv g) /\
    count_true (ex s') < count_true (ex s).
Proof.
  intros Hs HI Hrem Hv HJ Hnd HR.
  destruct HI as [H1 H2 H3 H4 H5 H6 H7]. rewrite Hrem in *.
  destruct (remove_existing_inv g s v Hs) as (I1 & I2 & I3 & I4); auto;
    try rewrite Hrem.
  1: { intros v0 _ Hv0 Hle. exact (H4 v0 Hv0 Hle). }
  1: exact H5. 1: exact H6. 1: exact H7. 1: intros [].
  destruct (remove_vertex_char g s v Hs) as (C1 & _).
  set (s1 := remove_vertex g s v) in *.
  rewrite Hrem in I4. cbn [length] in I4.
  assert (Hfuel : length (rem s1) + count_true (ex s1) < cleanup_fuel g).
  { pose proof (nbrs_length_le g v Hs) as Hn.
    assert (Hen : en g s v <= length (nbrs g v)) by apply filter_length_le.
    pose proof (count_true_le (ex s1)) as Hc. rewrite (inv_lex g s1 I1) in Hc.
    unfold cleanup_fuel. clear - Hn Hen Hc I4. lia. }
  destruct (cleanup_ok g Hs _ s1 I1 Hfuel) as (s' & E1 & E2 & E3 & E4).
  exists s'. split; [exact E1|]. split; [exact E2|]. split; [exact E3|].
  assert (Hmono : forall x, exb s' x = true -> exb s1 x = true).
  { intros x. apply (lsteps_mono g (ex s1) (ex s') E4). }
  split; [|split; [|split]].
  - apply (J_lsteps g (ex s1) (ex s') _ E4). rewrite C1. apply J_pick; auto.
  - constructor; auto. intros Hin. apply HR in Hin. destruct Hin; congruence.
  - intros x Hx. assert (Hx1 : exb s1 x = false /\ x < nv g).
    { rewrite I2. unfold exb_del. destruct (Nat.eqb_spec x v) as [->|Hne].
      - split; auto. rewrite <- H1. apply exb_lt; auto.
      - destruct Hx as [->|Hx]; [congruence|]. apply HR; auto. }
    destruct Hx1 as [Hx1 Hx2]. split; auto.
    destruct (exb s' x) eqn:E; auto. apply Hmono in E. congruence.
  - assert (Hle : count_true (ex s') <= count_true (ex s1)).
    { apply (lsteps_count g); auto. }
    clear - Hle I3. lia.
Qed.

(* the initial state *)
Lemma init_rem_fold (P : nat -> bool) l : forall acc,
  fold_left (fun r v => if P v then v :: r else r) l acc = rev (filter P l) ++ acc.
Proof.
  induction l as [|x l IH]; intros acc; cbn [fold_left filter]; auto.
  rewrite IH. destruct (P x); cbn [rev]; auto. rewrite <- app_assoc. reflexivity.
Qed.

Lemma filter_all {A} (f : A -> bool) l : (forall x, In x l -> f x = true) -> filter f l = l.
Proof.
  induction l as [|x l IH]; intros H; cbn [filter]; auto.
  rewrite (H x (or_introl eq_refl)). f_equal. apply IH. intros y Hy; apply H; right; auto.
Qed.

Lemma init_exb g v : exb (init_state g) v = Nat.ltb v (nv g).
Proof.
  unfold exb, init_state. cbn [ex].
  destruct (Nat.ltb_spec v (nv g)) as [Hlt|Hge].
  - apply nth_map_true. rewrite seq_length; auto.
  - apply nth_overflow. rewrite map_length, seq_length; auto.
Qed.

Lemma init_degv g v : v < nv g -> degv (init_state g) v = length (nbrs g v).
Proof.
  intros Hv. unfold degv, init_state, nbrs. cbn [deg]. rewrite map_length.
  rewrite (nth_indep _ 0 (length (out_edges g 0))) by (rewrite map_length, seq_length; auto).
  rewrite (map_nth (fun v => length (out_edges g v))). rewrite seq_nth by auto. reflexivity.
Qed.

Lemma init_en g v : simple_graph g -> en g (init_state g) v = length (nbrs g v).
Proof.
  intros Hs. unfold en. rewrite filter_all; auto.
  intros w Hw. rewrite init_exb. apply Nat.ltb_lt. apply (nbrs_range g v w Hs) in Hw. tauto.
Qed.

Lemma init_rem g :
  rem (init_state g) = rev (filter (fun v => Nat.leb (degv (init_state g) v) 1) (seq 0 (nv g))).
Proof.
  unfold init_state at 1. cbn [rem].
  rewrite (init_rem_fold (fun v => Nat.leb (nth v (map (fun v0 => length (out_edges g v0)) (seq 0 (nv g))) 0) 1)).
  rewrite app_nil_r. reflexivity.
Qed.

Lemma init_Inv g : simple_graph g -> Inv g (init_state g).
Proof.
  intros Hs.
  assert (Hin : forall x, In x (rem (init_state g)) <-> x < nv g /\ degv (init_state g) x <= 1).
  { intros x. rewrite init_rem, <- in_rev, filter_In, in_seq, Nat.leb_le. intuition lia. }
  assert (Hnd : NoDup (rem (init_state g))).
  { rewrite init_rem. apply NoDup_rev, NoDup_filter, seq_NoDup. }
  constructor.
  - unfold init_state; cbn [ex]. rewrite map_length, seq_length; auto.
  - unfold init_state; cbn [deg]. rewrite map_length, seq_length; auto.
  - intros v Hv. rewrite init_exb in Hv. apply Nat.ltb_lt in Hv.
    rewrite init_degv, init_en; auto.
  - intros v Hv Hle. rewrite init_exb in Hv. apply Nat.ltb_lt in Hv. apply Hin; auto.
  - intros u Hu _. apply Hin in Hu. tauto.
  - intros u Hu Hex. apply Hin in Hu as [Hu _]. rewrite init_exb in Hex.
    apply Nat.ltb_ge in Hex. lia.
  - intros u Hu. pose proof (proj1 (NoDup_count_occ Nat.eq_dec _) Hnd u). lia.
Qed.

Lemma init_fuel g : length (rem (init_state g)) + count_true (ex (init_state g)) < cleanup_fuel g.
Proof.
  rewrite init_rem, rev_length.
  pose proof (filter_length_le (fun v => Nat.leb (degv (init_state g) v) 1) (seq 0 (nv g))) as H1.
  rewrite seq_length in H1.
  pose proof (count_true_le (ex (init_state g))) as H2.
  unfold init_state in H2 at 2. cbn [ex] in H2. rewrite map_length, seq_length in H2.
  unfold cleanup_fuel. lia.
Qed.

(* state reached after the first clean-up *)
Lemma init_cleanup g : simple_graph g ->
  exists s, cleanup (cleanup_fuel g) g (init_state g) = Some s /\ Inv g s /\ rem s = [] /\ J g (ex s) [].
Proof.
  intros Hs.
  destruct (cleanup_ok g Hs _ _ (init_Inv g Hs) (init_fuel g)) as (s & E1 & E2 & E3 & E4).
  exists s. split; [exact E1|]. split; [exact E2|]. split; [exact E3|].
  apply (J_lsteps g _ _ _ E4). unfold init_state; cbn [ex]. apply J_init; auto.
Qed.

Lemma main_loop_ok g : simple_graph g -> forall picks s R,
  Inv g s -> rem s = [] -> J g (ex s) R -> NoDup R ->
  (forall x, In x R -> exb s x = false /\ x < nv g) ->
  main_loop g s picks R <> FvsOutOfFuel /\
  forall o, main_loop g s picks R = FvsOk o -> o = rev R ++ picks /\ feedback_vertex_set g o.
Proof.
  intros Hs. induction picks as [|v picks IH]; intros s R HI Hrem HJ Hnd HR; cbn [main_loop].
  - destruct (existsb (fun b => b) (ex s)) eqn:E; split; try discriminate.
    intros o Ho. inversion Ho; subst o. split; [rewrite app_nil_r; auto|].
    split; [apply NoDup_rev; auto|]. split.
    + intros x Hx. apply in_rev in Hx. apply HR; auto.
    + rewrite (surviving_edges_ext g (rev R) R) by (intros x; symmetry; apply in_rev).
      apply (J_final g (ex s)); auto. apply existsb_id_false; auto.
  - destruct (exb s v) eqn:Ev; cbn [negb]; [|split; discriminate].
    destruct (pick_step g s v R Hs HI Hrem Ev HJ Hnd HR) as (s' & E1 & E2 & E3 & E4 & E5 & E6 & _).
    rewrite E1. destruct (IH s' (v :: R) E2 E3 E4 E5 E6) as [IH1 IH2]. split; auto.
    intros o Ho. destruct (IH2 o Ho) as [Ho1 Ho2]. split; auto.
    rewrite Ho1. cbn [rev]. rewrite <- app_assoc. reflexivity.
Qed.

Theorem greedy_fvs_correct g picks out : simple_graph g -> greedy_fvs g picks = FvsOk out ->
  out = picks /\ feedback_vertex_set g out.
Proof.
  intros Hs H. unfold greedy_fvs in H.
  destruct (init_cleanup g Hs) as (s & E1 & E2 & E3 & E4). rewrite E1 in H.
  destruct (main_loop_ok g Hs picks s [] E2 E3 E4) as [_ Hm].
  - constructor.
  - intros x [].
  - apply Hm in H. exact H.
Qed.

Theorem greedy_fvs_no_fuel_error g picks : simple_graph g -> greedy_fvs g picks <> FvsOutOfFuel.
Proof.
  intros Hs. unfold greedy_fvs.
  destruct (init_cleanup g Hs) as (s & E1 & E2 & E3 & E4). rewrite E1.
  destruct (main_loop_ok g Hs picks s [] E2 E3 E4) as [Hm _]; auto.
  - constructor.
  - intros x [].
Qed.

(* ------------------------------------------------------------------------------------------ *)
(* 7. the deterministic resolution is a complete run                                           *)

Lemma first_true_spec l : forall i,
  match first_true l i with
  | None => existsb (fun b => b) l = false
  | Some v => i <= v /\ nth (v - i) l false = true
  end.
Proof.
  induction l as [|b l IH]; intros i; cbn [first_true existsb]; auto.
  destruct b.
  - split; auto. rewrite Nat.sub_diag. reflexivity.
  - specialize (IH (S i)). destruct (first_true l (S i)) as [v|]; auto.
    destruct IH as [Hle Hn]. split; [lia|].
    replace (v - i) with (S (v - S i)) by lia. exact Hn.
Qed.

Lemma det_loop_ok g : simple_graph g -> forall fuel s R,
  Inv g s -> rem s = [] -> J g (ex s) R -> NoDup R ->
  (forall x, In x R -> exb s x = false /\ x < nv g) ->
  count_true (ex s) < fuel ->
  exists picks, det_loop fuel g s R = FvsOk (rev R ++ picks) /\
                main_loop g s picks R = FvsOk (rev R ++ picks).
Proof.
  intros Hs. induction fuel as [|f IH]; intros s R HI Hrem HJ Hnd HR Hc; [lia|].
  cbn [det_loop]. pose proof (first_true_spec (ex s) 0) as Hft.
  destruct (first_true (ex s) 0) as [v|].
  - destruct Hft as [_ Hv]. rewrite Nat.sub_0_r in Hv. change (exb s v = true) in Hv.
    destruct (pick_step g s v R Hs HI Hrem Hv HJ Hnd HR) as (s' & E1 & E2 & E3 & E4 & E5 & E6 & E7).
    rewrite E1. destruct (IH s' (v :: R) E2 E3 E4 E5 E6) as (picks & P1 & P2); [lia|].
    exists (v :: picks). cbn [main_loop]. rewrite Hv, E1. cbn [negb].
    cbn [rev] in P1, P2. rewrite <- app_assoc in P1, P2. split; [exact P1|exact P2].
  - exists []. cbn [main_loop]. rewrite Hft, app_nil_r. split; reflexivity.
Qed.

Theorem greedy_fvs_det_complete g : simple_graph g ->
  exists out, greedy_fvs_det g = FvsOk out /\ greedy_fvs g out = FvsOk out /\ feedback_vertex_set g out.
Proof.
  intros Hs. unfold greedy_fvs_det.
  destruct (init_cleanup g Hs) as (s & E1 & E2 & E3 & E4).
  destruct (det_loop_ok g Hs (S (nv g)) s [] E2 E3 E4) as (picks & P1 & P2).
  - constructor.
  - intros x [].
  - pose proof (count_true_le (ex s)). rewrite (inv_lex g s E2) in H. lia.
  - cbn [rev app] in P1, P2. exists picks. rewrite E1.
    assert (Hg : greedy_fvs g picks = FvsOk picks) by (unfold greedy_fvs; rewrite E1; exact P2).
    split; [exact P1|]. split; [exact Hg|].
    apply (greedy_fvs_correct g picks picks Hs Hg).
Qed.

(* ------------------------------------------------------------------------------------------ *)
(* 8. forests: minimum degree two forces an even-degree edge set                               *)

(* canonical (sorted) form of a duplicate-free edge list *)
Fixpoint ins (x : nat) (l : list nat) : list nat :=
  match l with
  | [] => [x]
  | y :: r => if Nat.ltb x y then x :: l else y :: ins x r
  end.
Definition isort (l : list nat) : list nat := fold_right ins [] l.

Lemma ins_perm x l : Permutation (ins x l) (x :: l).
Proof.
  induction l as [|y r IH]; cbn [ins]; auto.
  destruct (Nat.ltb x y); auto.
  eapply perm_trans; [apply perm_skip; exact IH|apply perm_swap].
Qed.

Lemma ins_sorted x l : sorted l -> ~ In x l -> sorted (ins x l).
Proof.
  unfold sorted. induction l as [|y r IH]; intros Hs Hx; cbn [ins].
  - repeat constructor.
  - inversion Hs as [|? ? Hr Hy]; subst.
    destruct (Nat.ltb_spec x y) as [Hlt|Hge].
    + constructor; auto. constructor; auto.
      eapply Forall_impl; [|exact Hy]. cbn; intros; lia.
    + assert (y < x) by (cbn [In] in Hx; lia).
      constructor.
      * apply IH; auto. intros Hin; apply Hx; right; auto.
      * apply Forall_forall. intros z Hz.
        apply (Permutation_in _ (ins_perm x r)) in Hz. destruct Hz as [<-|Hz]; auto.
        rewrite Forall_forall in Hy. auto.
Qed.

Lemma isort_perm l : Permutation (isort l) l.
Proof.
  induction l as [|x l IH]; cbn [isort fold_right]; auto.
  eapply perm_trans; [apply ins_perm|]. apply perm_skip. exact IH.
Qed.

Lemma isort_sorted l : NoDup l -> sorted (isort l).
Proof.
  induction l as [|x l IH]; intros Hnd; cbn [isort fold_right].
  - constructor.
  - inversion Hnd as [|? ? Hx Hnd']; subst. apply ins_sorted; [apply IH; auto|].
    intros Hin. apply Hx. apply (Permutation_in _ (isort_perm l)). exact Hin.
Qed.

Lemma deg_in_perm g l l' v : Permutation l l' -> deg_in g l v = deg_in g l' v.
Proof.
  unfold deg_in. induction 1 as [|x l l' HP IH|x y l|l l' l'' H1 IH1 H2 IH2]; cbn [filter]; auto.
  - destruct (incident g x v); cbn [length]; auto.
  - destruct (incident g x v), (incident g y v); cbn [length]; auto.
  - congruence.
Qed.

Lemma even_S n : Nat.even (S n) = negb (Nat.even n).
Proof. rewrite Nat.even_succ, <- Nat.negb_even. reflexivity. Qed.

Lemma incident_joins_eq g e x y v : simple_graph g -> joins g e x y ->
  incident g e v = xorb (Nat.eqb v x) (Nat.eqb v y).
Proof.
  intros Hs Hj. destruct (joins_simple g e x y Hs Hj) as (_ & _ & Hxy).
  unfold incident. destruct Hj as [E|E]; rewrite E;
    destruct (Nat.eqb_spec x v), (Nat.eqb_spec y v), (Nat.eqb_spec v x), (Nat.eqb_spec v y);
    subst; try reflexivity; congruence.
Qed.

(* along a walk from x to z every vertex has even degree, except x and z when they differ *)
Lemma walk_parity g x p z : simple_graph g -> walk g x p z -> forall v,
  Nat.even (deg_in g (wedges p) v) = negb (xorb (Nat.eqb v x) (Nat.eqb v z)).
Proof.
  intros Hs Hw v. induction Hw as [x Hx|x e y p z Hj Hw IH].
  - cbn. rewrite xorb_nilpotent. reflexivity.
  - unfold wedges in *. cbn [map fst]. unfold deg_in in *. cbn [filter].
    rewrite (incident_joins_eq g e x y v Hs Hj).
    destruct (Nat.eqb v x), (Nat.eqb v y), (Nat.eqb v z); cbn [xorb negb length] in *;
      try rewrite even_S; rewrite IH; reflexivity.
Qed.

Lemma closed_trail_even g w c : simple_graph g ->
  walk g w c w -> c <> [] -> NoDup (wedges c) ->
  exists Z, sorted Z /\ Z <> [] /\ incl Z (seq 0 (ne g)) /\ even_degrees g Z.
Proof.
  intros Hs Hw Hne Hnd. exists (isort (wedges c)).
  pose proof (isort_perm (wedges c)) as HP.
  split; [apply isort_sorted; auto|]. split; [|split].
  - intros E. rewrite E in HP. apply Permutation_nil in HP.
    destruct c; [congruence|discriminate].
  - intros e He. apply (Permutation_in _ HP) in He. apply in_seq.
    assert (e < ne g); [|lia].
    clear - Hw He. induction Hw as [x Hx|x e' y p z Hj Hw IH]; [destruct He|].
    destruct He as [<-|He]; auto. apply (joins_lt g e' x y Hj).
  - intros v. rewrite (deg_in_perm g _ _ v HP), (walk_parity g w c w Hs Hw).
    rewrite xorb_nilpotent. reflexivity.
Qed.

Lemma walk_ends_in g x p z : walk g x p z -> forall e y, In (e, y) p ->
  exists a b, ends g e = Some (a, b) /\ In a (x :: wverts p) /\ In b (x :: wverts p).
Proof.
  induction 1 as [x Hx|x e' y' p z Hj Hw IH]; intros e y Hin; [destruct Hin|].
  unfold wverts in *. cbn [map snd]. destruct Hin as [Heq|Hin].
  - inversion Heq; subst e' y'. destruct Hj as [E|E]; [exists x, y|exists y, x];
      cbn [In]; auto.
  - destruct (IH e y Hin) as (a & b & E & Ha & Hb). exists a, b. cbn [In] in *. tauto.
Qed.

(* on a vertex-simple path the only edge at the start vertex is the first one *)
Lemma walk_first_edge g x p z : walk g x p z -> NoDup (x :: wverts p) ->
  forall e y, In (e, y) p -> incident g e x = true -> exists p', p = (e, y) :: p'.
Proof.
  intros Hw Hnd e y Hin Hinc. destruct Hw as [x Hx|x e1 y1 p z Hj Hw]; [destruct Hin|].
  destruct Hin as [Heq|Hin]; [inversion Heq; subst; eauto|]. exfalso.
  destruct (walk_ends_in g y1 p z Hw e y Hin) as (a & b & E & Ha & Hb).
  unfold incident in Hinc. rewrite E in Hinc.
  unfold wverts in Hnd. cbn [map snd] in Hnd. inversion Hnd as [|? ? Hx _]; subst.
  apply orb_true_iff in Hinc as [H|H]; apply Nat.eqb_eq in H; subst; auto.
Qed.

Lemma walk_prefix g : simple_graph g -> forall p1 x e w p2 z,
  walk g x (p1 ++ (e, w) :: p2) z -> walk g x (p1 ++ [(e, w)]) w.
Proof.
  intros Hs. induction p1 as [|[e1 y1] p1 IH]; intros x e w p2 z Hw; cbn [app] in *.
  - inversion Hw; subst. constructor; auto. constructor.
    match goal with H : joins _ _ _ _ |- _ => apply (joins_simple g _ _ _ Hs) in H; tauto end.
  - inversion Hw; subst. constructor; auto. eapply IH; eauto.
Qed.

Lemma NoDup_app_l {A} (l l' : list A) : NoDup (l ++ l') -> NoDup l.
Proof.
  induction l as [|x l IH]; cbn [app]; intros H; [constructor|].
  inversion H as [|? ? Hx Hnd]; subst. constructor; auto.
  intros Hin. apply Hx. apply in_or_app. left; auto.
Qed.

Lemma joins_incident g e x y : joins g e x y -> incident g e x = true.
Proof.
  unfold incident. intros [E|E]; rewrite E, Nat.eqb_refl; auto using orb_true_r.
Qed.

(* grow a vertex-simple path inside X until it closes *)
Lemma find_closed g (X : nat -> bool) : simple_graph g ->
  (forall v, X v = true -> v < nv g) ->
  (forall v, X v = true -> 2 <= length (filter X (nbrs g v))) ->
  forall n x p z, walk g x p z -> NoDup (x :: wverts p) ->
  (forall v, In v (x :: wverts p) -> X v = true) -> NoDup (wedges p) ->
  nv g < length (x :: wverts p) + n ->
  exists w c, walk g w c w /\ c <> [] /\ NoDup (wedges c).
Proof.
  intros Hs Hlt Hdeg. induction n as [|n IH]; intros x p z Hw Hndv HX Hnde Hlen.
  - exfalso. assert (length (x :: wverts p) <= length (seq 0 (nv g))).
    { apply NoDup_incl_length; auto. intros v Hv. apply in_seq. apply HX, Hlt in Hv. lia. }
    rewrite seq_length in H. lia.
  - assert (Hx : X x = true) by (apply HX; left; auto).
    (* a neighbour w of x inside X that is not the vertex we came from *)
    assert (Hw' : exists w, In w (nbrs g x) /\ X w = true /\
                            match p with [] => True | (_, y1) :: _ => w <> y1 end).
    { specialize (Hdeg x Hx).
      assert (HndF : NoDup (filter X (nbrs g x))) by (apply NoDup_filter, nbrs_nodup; auto).
      assert (Hall : forall y, In y (filter X (nbrs g x)) -> In y (nbrs g x) /\ X y = true)
        by (intros y Hy; apply filter_In in Hy; exact Hy).
      destruct (filter X (nbrs g x)) as [|a [|b L]]; cbn [length] in Hdeg; try lia.
      destruct (Hall a) as [A1 A2]; [left; auto|].
      destruct (Hall b) as [B1 B2]; [right; left; auto|].
      inversion HndF as [|? ? Hab _]; subst.
      destruct p as [|[e1 y1] p]; [exists a; auto|].
      destruct (Nat.eq_dec a y1) as [->|Hne]; [|exists a; auto].
      exists b. repeat split; auto. intros ->. apply Hab. left; auto. }
    destruct Hw' as (w & Hwn & HXw & Hprev).
    apply nbrs_In in Hwn as [e' Hj].
    destruct (joins_simple g e' x w Hs Hj) as (_ & _ & Hxw).
    assert (Hfresh : ~ In e' (wedges p)).
    { intros Hin. unfold wedges in Hin. apply in_map_iff in Hin as [[e0 y] [Hfst Hin]].
      cbn [fst] in Hfst. subst e0.
      destruct (walk_first_edge g x p z Hw Hndv e' y Hin (joins_incident g e' x w Hj)) as [p' ->].
      inversion Hw; subst.
      match goal with H : joins g e' x y |- _ => rename H into Hj' end.
      assert (w = y); [|contradiction].
      destruct Hj as [E1|E1], Hj' as [E2|E2]; rewrite E1 in E2; inversion E2; subst; congruence. }
    destruct (in_dec Nat.eq_dec w (x :: wverts p)) as [Hin|Hnin].
    + (* the path closes *)
      destruct Hin as [->|Hin]; [congruence|].
      unfold wverts in Hin. apply in_map_iff in Hin as [[ej w'] [Hsnd Hin]].
      cbn [snd] in Hsnd. subst w'.
      apply in_split in Hin as (p1 & p2 & ->).
      exists w, ((e', x) :: p1 ++ [(ej, w)]). split; [|split].
      * constructor; [apply joins_sym; auto|]. eapply walk_prefix; eauto.
      * discriminate.
      * unfold wedges in *. cbn [map fst].
        replace (p1 ++ (ej, w) :: p2) with ((p1 ++ [(ej, w)]) ++ p2) in Hnde, Hfresh
          by (rewrite <- app_assoc; reflexivity).
        rewrite map_app in Hnde, Hfresh. constructor.
        -- intros Hin. apply Hfresh. apply in_or_app. left; auto.
        -- apply NoDup_app_l in Hnde. exact Hnde.
    + (* the path grows *)
      apply (IH w ((e', x) :: p) z).
      * constructor; [apply joins_sym; auto|auto].
      * unfold wverts. cbn [map snd]. constructor; auto.
      * unfold wverts. cbn [map snd]. intros v [<-|Hv]; auto.
      * unfold wedges. cbn [map fst]. constructor; auto.
      * unfold wverts in *. cbn [map snd length] in *. lia.
Qed.

(* after a clean-up on a forest nothing exists *)
Lemma forest_all_removed g s : simple_graph g -> acyclic_edges g (seq 0 (ne g)) ->
  Inv g s -> rem s = [] -> forall v, exb s v = false.
Proof.
  intros Hs Hac HI Hrem v0. destruct (exb s v0) eqn:Ev0; auto. exfalso.
  assert (Hlt : forall v, exb s v = true -> v < nv g).
  { intros v Hv. rewrite <- (inv_lex g s HI). apply exb_lt; auto. }
  assert (Hdeg : forall v, exb s v = true -> 2 <= length (filter (exb s) (nbrs g v))).
  { intros v Hv. fold (en g s v). rewrite <- (inv_deg g s HI v Hv).
    destruct (le_lt_dec 2 (degv s v)) as [|Hle]; auto.
    assert (Hin : In v (rem s)) by (apply (inv_low g s HI); auto; lia).
    rewrite Hrem in Hin. destruct Hin. }
  destruct (find_closed g (exb s) Hs Hlt Hdeg (nv g) v0 [] v0) as (w & c & Hw & Hne & Hnd).
  - constructor. auto.
  - cbn. constructor; auto. constructor.
  - cbn. intros v [<-|[]]; auto.
  - constructor.
  - cbn. lia.
  - destruct (closed_trail_even g w c Hs Hw Hne Hnd) as (Z & Z1 & Z2 & Z3 & Z4).
    exact (Hac Z Z1 Z2 Z3 Z4).
Qed.

Theorem greedy_fvs_forest g picks out : simple_graph g -> acyclic_edges g (seq 0 (ne g)) ->
  greedy_fvs g picks = FvsOk out -> out = [].
Proof.
  intros Hs Hac H.
  destruct (greedy_fvs_correct g picks out Hs H) as [-> _].
  unfold greedy_fvs in H.
  destruct (init_cleanup g Hs) as (s & E1 & E2 & E3 & E4). rewrite E1 in H.
  destruct picks as [|v picks]; auto. cbn [main_loop] in H.
  rewrite (forest_all_removed g s Hs Hac E2 E3 v) in H. cbn [negb] in H. discriminate.
Qed.

Theorem greedy_fvs_forest_run g : simple_graph g -> acyclic_edges g (seq 0 (ne g)) ->
  greedy_fvs g [] = FvsOk [].
Proof.
  intros Hs Hac. unfold greedy_fvs.
  destruct (init_cleanup g Hs) as (s & E1 & E2 & E3 & E4). rewrite E1. cbn [main_loop].
  destruct (existsb (fun b => b) (ex s)) eqn:E; auto.
  apply existsb_exists in E as [b [Hin Hb]]. subst b.
  apply In_nth with (d := false) in Hin as [v [_ Hv]].
  change (exb s v = true) in Hv.
  rewrite (forest_all_removed g s Hs Hac E2 E3 v) in Hv. discriminate.
Qed.

Corollary greedy_fvs_det_fvs g : simple_graph g ->
  exists out, greedy_fvs_det g = FvsOk out /\ feedback_vertex_set g out.
Proof.
  intros Hs. destruct (greedy_fvs_det_complete g Hs) as (out & H1 & _ & H3). eauto.
Qed.

(* ------------------------------------------------------------------------------------------ *)
(* 9. a sound boolean test for acyclic_edges (used only for non-vacuity examples)              *)

Fixpoint sublists (l : list nat) : list (list nat) :=
  match l with
  | [] => [[]]
  | x :: r => sublists r ++ map (cons x) (sublists r)
  end.

Definition odd_vertex (g : graph) (Z : list nat) : bool :=
  existsb (fun v => negb (Nat.even (deg_in g Z v))) (seq 0 (nv g)).

Definition acyclicb (g : graph) (F : list nat) : bool :=
  forallb (fun Z => match Z with [] => true | _ => odd_vertex g Z end) (sublists F).

Lemma sublists_complete l : sorted l -> forall Z, sorted Z -> incl Z l -> In Z (sublists l).
Proof.
  unfold sorted. induction l as [|x l IH]; intros Hl Z HZ Hincl.
  - destruct Z as [|a Z]; [left; auto|]. destruct (Hincl a (or_introl eq_refl)).
  - inversion Hl as [|? ? Hl' Hx]; subst. rewrite Forall_forall in Hx.
    cbn [sublists]. apply in_or_app. destruct Z as [|a Z].
    + left. apply IH; auto. intros ? [].
    + inversion HZ as [|? ? HZ' Ha]; subst. rewrite Forall_forall in Ha.
      destruct (Hincl a (or_introl eq_refl)) as [->|Hal].
      * right. apply in_map. apply IH; auto. intros z Hz.
        destruct (Hincl z (or_intror Hz)) as [->|]; auto. apply Ha in Hz. lia.
      * left. apply IH; auto. intros z [<-|Hz]; auto.
        destruct (Hincl z (or_intror Hz)) as [->|]; auto.
        apply Ha in Hz. apply Hx in Hal. lia.
Qed.

Lemma acyclicb_sound g F : sorted F -> acyclicb g F = true -> acyclic_edges g F.
Proof.
  intros HF Hb Z HsZ Hne Hincl Hev.
  unfold acyclicb in Hb. rewrite forallb_forall in Hb.
  specialize (Hb Z (sublists_complete F HF Z HsZ Hincl)).
  destruct Z as [|a Z]; [congruence|].
  unfold odd_vertex in Hb. apply existsb_exists in Hb as [v [_ Hv]].
  rewrite (Hev v) in Hv. discriminate.
Qed.

Lemma seq_sorted n : forall i, sorted (seq i n).
Proof.
  unfold sorted. induction n as [|n IH]; intros i; cbn [seq]; constructor; auto.
  apply Forall_forall. intros x Hx. apply in_seq in Hx. lia.
Qed.
